(* AutomatonProofs.v -- C14: reachability pruning, the combined alphabet and the compiled
   successor table agree with the automaton (proofs about Automaton.v, second half).
   Sections:
     1. list helpers (upd, nth, NoDup, sort_nat)
     2. well-formed automata: aut_wf, aut_wfb_iff
     3. reachability: the BFS of remove_unreachable_states is exact (edges), edges vs words
     4. remove_unreachable: renumbering, well-formedness, language, exactness
     5. combined partition / alphabet
     6. the first-fit compact table: invariant, termination of find_base, compact_eval,
        and the strict (panicking) variant of the table code equals the model under aut_wf
     7. edges / final states / counts *)
Require Import Base CharSet CharSetProofs Partition PartitionSpec PartitionProofs Automaton BuilderSpec.
From Coq Require Import Permutation Sorted.
Open Scope nat_scope.

Ltac inv H := inversion H; subst; clear H.

(* ------------------------------------------------------------------ 1. list helpers *)

Lemma upd_length {A} (l : list A) : forall i x, length (upd l i x) = length l.
Proof. induction l as [|y t IH]; intros [|i] x; simpl; auto. Qed.

Lemma nth_upd_same {A} (l : list A) : forall i x d, i < length l -> nth i (upd l i x) d = x.
Proof.
  induction l as [|y t IH]; intros [|i] x d Hi; simpl in *; try lia; auto. apply IH. lia.
Qed.

Lemma nth_upd_other {A} (l : list A) : forall i j x d, i <> j -> nth j (upd l i x) d = nth j l d.
Proof.
  induction l as [|y t IH]; intros [|i] [|j] x d Hij; simpl; auto; try lia.
Qed.

Lemma existsb_eqb_in n l : existsb (Nat.eqb n) l = true <-> In n l.
Proof.
  rewrite existsb_exists. split.
  - intros [x [Hin He]]. apply Nat.eqb_eq in He. subst. exact Hin.
  - intros Hin. exists n. split; auto. apply Nat.eqb_refl.
Qed.

Lemma NoDup_app_intro {A} (l1 l2 : list A) :
  NoDup l1 -> NoDup l2 -> (forall x, In x l1 -> ~ In x l2) -> NoDup (l1 ++ l2).
Proof.
  induction l1 as [|x t IH]; intros H1 H2 Hd; simpl; auto.
  inv H1. constructor.
  - rewrite in_app_iff. intros [Hin | Hin]; [contradiction|]. apply (Hd x); simpl; auto.
  - apply IH; auto. intros y Hy. apply Hd. simpl. auto.
Qed.

Lemma NoDup_app_l {A} (l1 l2 : list A) : NoDup (l1 ++ l2) -> NoDup l1.
Proof.
  induction l1 as [|x t IH]; intros H; [constructor|]. simpl in H. inv H. constructor.
  - intros Hin. apply H2. apply in_or_app. auto.
  - apply IH. exact H3.
Qed.

Lemma NoDup_bounded_length (l : list nat) n : NoDup l -> (forall x, In x l -> x < n) -> length l <= n.
Proof.
  intros Hnd Hb. rewrite <- (seq_length n 0). apply NoDup_incl_length; auto.
  intros x Hx. apply in_seq. specialize (Hb x Hx). lia.
Qed.

Lemma nth_error_nth_lt {A} (l : list A) i d : i < length l -> nth_error l i = Some (nth i l d).
Proof. intros Hi. apply nth_error_nth'. exact Hi. Qed.

Lemma nth_map_lt {A B} (f : A -> B) (l : list A) i d d' : i < length l -> nth i (map f l) d' = f (nth i l d).
Proof. intros Hi. rewrite (nth_indep _ d' (f d)); [apply map_nth|rewrite map_length; exact Hi]. Qed.

(* sort_nat = reachable.sort_unstable() *)
Lemma insert_nat_perm x l : Permutation (x :: l) (insert_nat x l).
Proof.
  induction l as [|y t IH]; simpl; auto. destruct (Nat.leb x y); auto.
  eapply perm_trans; [apply perm_swap|]. constructor. exact IH.
Qed.

Lemma sort_nat_perm l : Permutation l (sort_nat l).
Proof.
  induction l as [|x t IH]; simpl; auto.
  eapply perm_trans; [|apply insert_nat_perm]. constructor. exact IH.
Qed.

Lemma insert_nat_sorted x l : StronglySorted le l -> StronglySorted le (insert_nat x l).
Proof.
  induction l as [|y t IH]; intros Hs; simpl.
  - constructor; constructor.
  - destruct (Nat.leb x y) eqn:He.
    + apply Nat.leb_le in He. constructor; auto. constructor; auto.
      inv Hs. eapply Forall_impl; [|exact H2]. intros z Hz. lia.
    + apply Nat.leb_gt in He. inv Hs. constructor; auto.
      assert (Hp : Permutation (x :: t) (insert_nat x t)) by apply insert_nat_perm.
      eapply Permutation_Forall; [exact Hp|]. constructor; auto. lia.
Qed.

Lemma sort_nat_sorted l : StronglySorted le (sort_nat l).
Proof. induction l as [|x t IH]; simpl; [constructor|apply insert_nat_sorted; exact IH]. Qed.

Lemma sort_nat_in l x : In x (sort_nat l) <-> In x l.
Proof.
  split; intros H.
  - eapply Permutation_in; [apply Permutation_sym, sort_nat_perm|exact H].
  - eapply Permutation_in; [apply sort_nat_perm|exact H].
Qed.

Lemma sort_nat_nodup l : NoDup l -> NoDup (sort_nat l).
Proof. intros H. eapply Permutation_NoDup; [apply sort_nat_perm|exact H]. Qed.

Lemma sort_nat_length l : length (sort_nat l) = length l.
Proof. symmetry. apply Permutation_length, sort_nat_perm. Qed.

(* in a duplicate-free sorted list positions and values are ordered alike *)
Lemma sorted_nodup_nth_lt l : StronglySorted le l -> NoDup l ->
  forall i j, i < j -> j < length l -> nth i l 0 < nth j l 0.
Proof.
  induction l as [|x t IH]; intros Hs Hnd i j Hij Hj; simpl in Hj; [lia|].
  inv Hs. inv Hnd. destruct j as [|j]; [lia|]. destruct i as [|i]; simpl.
  - assert (Hin : In (nth j t 0) t) by (apply nth_In; lia).
    rewrite Forall_forall in H2. specialize (H2 _ Hin).
    assert (x <> nth j t 0) by (intros He; apply H3; rewrite He; exact Hin). lia.
  - apply IH; auto; lia.
Qed.

(* ------------------------------------------------------------------ 2. well-formed automata *)

(* state s stored at position i of an automaton with n states *)
Definition state_wf (n i : nat) (s : astate) : Prop :=
  a_id s = i /\ pwf (a_classes s) /\ length (a_succ s) = plen (a_classes s) /\
  (forall t, In t (a_succ s) -> t < n) /\
  match a_default s with
  | Some d => d < n                                   (* a default with an empty complement is allowed *)
  | None => pempty_complement (a_classes s) = true
  end.

Definition aut_wf (a : automaton) : Prop :=
  length (astates a) = num_states a /\ initial a < num_states a /\
  length (filter a_final (astates a)) = num_final a /\
  forall i s, nth_error (astates a) i = Some s -> state_wf (num_states a) i s.

(* the strict variant of DESIGN: a default is present iff the complementary class is non-empty *)
Definition no_dead_default (a : automaton) : Prop :=
  forall i s d, nth_error (astates a) i = Some s -> a_default s = Some d ->
                pempty_complement (a_classes s) = false.

Definition no_dead_defaultb (a : automaton) : bool :=
  forallb (fun s => match a_default s with
                    | Some _ => negb (pempty_complement (a_classes s))
                    | None => true
                    end) (astates a).

Lemma no_dead_defaultb_iff a : no_dead_defaultb a = true <-> no_dead_default a.
Proof.
  unfold no_dead_defaultb, no_dead_default. rewrite forallb_forall. split.
  - intros H i s d Hi Hd. specialize (H s (nth_error_In _ _ Hi)). rewrite Hd in H.
    apply negb_true_iff. exact H.
  - intros H s Hs. apply In_nth_error in Hs. destruct Hs as [i Hi].
    destruct (a_default s) as [d|] eqn:Hd; auto. apply negb_true_iff. eapply H; eauto.
Qed.

Lemma forallb_combine_seq {A} (f : nat * A -> bool) (l : list A) : forall b,
  forallb f (combine (seq b (length l)) l) = true <->
  forall i s, nth_error l i = Some s -> f (b + i, s) = true.
Proof.
  induction l as [|x t IH]; intros b; simpl.
  - split; auto. intros _ [|i] s H; discriminate.
  - rewrite andb_true_iff, IH. split.
    + intros [H0 Ht] [|i] s Hn; simpl in Hn.
      * inv Hn. rewrite Nat.add_0_r. exact H0.
      * replace (b + S i) with (S b + i) by lia. apply Ht. exact Hn.
    + intros H. split.
      * specialize (H 0 x eq_refl). rewrite Nat.add_0_r in H. exact H.
      * intros i s Hn. replace (S b + i) with (b + S i) by lia. apply H. exact Hn.
Qed.

Lemma aut_wfb_iff a : aut_wfb a = true <-> aut_wf a.
Proof.
  unfold aut_wfb, aut_wf. rewrite !andb_true_iff, forallb_combine_seq, Nat.eqb_eq, Nat.ltb_lt, Nat.eqb_eq.
  split.
  - intros [[[H1 H2] H3] H4]. split; [exact H1|split; [exact H2|split; [exact H3|]]].
    intros i s Hn. specialize (H4 i s Hn). cbn beta iota in H4. rewrite !andb_true_iff in H4.
    destruct H4 as [[[[Ha Hb] Hc] Hd] He]. unfold state_wf.
    split; [apply Nat.eqb_eq; exact Ha|]. split; [apply pwfb_iff; exact Hb|].
    split; [apply Nat.eqb_eq; exact Hc|]. split.
    + rewrite forallb_forall in Hd. intros t Ht. apply Nat.ltb_lt. apply Hd. exact Ht.
    + destruct (a_default s); [apply Nat.ltb_lt; exact He|exact He].
  - intros [H1 [H2 [H3 H4]]]. split; [split; [split|]|]; auto.
    intros i s Hn. destruct (H4 i s Hn) as [Ha [Hb [Hc [Hd He]]]]. cbn beta iota.
    rewrite !andb_true_iff. split; [split; [split; [split|]|]|].
    + apply Nat.eqb_eq. exact Ha.
    + apply pwfb_iff. exact Hb.
    + apply Nat.eqb_eq. exact Hc.
    + apply forallb_forall. intros t Ht. apply Nat.ltb_lt. apply Hd. exact Ht.
    + destruct (a_default s); [apply Nat.ltb_lt; exact He|exact He].
Qed.

Lemma a_state_nth a i : i < length (astates a) -> nth_error (astates a) i = Some (a_state a i).
Proof. intros Hi. unfold a_state. apply nth_error_nth_lt. exact Hi. Qed.

Lemma aut_wf_state a i : aut_wf a -> i < num_states a -> state_wf (num_states a) i (a_state a i).
Proof. intros [Hl [_ [_ H]]] Hi. apply H. apply a_state_nth. lia. Qed.

Lemma edges_in s u : In u (edges s) <-> In u (a_succ s) \/ a_default s = Some u.
Proof.
  unfold edges. rewrite in_app_iff. destruct (a_default s) as [d|]; simpl.
  - split; intros [H|H]; auto; [destruct H as [H|[]]; subst; auto|inv H; auto].
  - split; intros [H|H]; auto; [destruct H|discriminate].
Qed.

Lemma aut_wf_targets a t u : aut_wf a -> t < num_states a -> In u (edges (a_state a t)) -> u < num_states a.
Proof.
  intros Hwf Ht Hu. destruct (aut_wf_state a t Hwf Ht) as [_ [_ [_ [Hs Hd]]]].
  apply edges_in in Hu. destruct Hu as [Hu | Hu]; [apply Hs; exact Hu|]. rewrite Hu in Hd. exact Hd.
Qed.

(* the part of the invariant the BFS needs: edges stay inside the state array (this also holds for
   the partial automata build_unchecked returns when a default successor is missing) *)
Definition aut_closed (a : automaton) : Prop :=
  initial a < num_states a /\
  forall t u, t < num_states a -> In u (edges (a_state a t)) -> u < num_states a.

Lemma aut_wf_closed a : aut_wf a -> aut_closed a.
Proof. intros Hwf. split; [apply Hwf|]. intros t u Ht Hu. eapply aut_wf_targets; eauto. Qed.

(* ------------------------------------------------------------------ 3. reachability *)

(* reachability along edges (what the iterator Automaton::edges lists) *)
Inductive ereach (a : automaton) (s : nat) : nat -> Prop :=
| er_refl : ereach a s s
| er_step t u : ereach a s t -> In u (edges (a_state a t)) -> ereach a s u.

(* reachability by reading a word of good characters *)
Definition creach (a : automaton) (s : nat) : Prop :=
  exists w, goodw w /\ a_str_next a (initial a) w = Some s.

Lemma ereach_step_left a s t u : In t (edges (a_state a s)) -> ereach a t u -> ereach a s u.
Proof.
  intros Hst Htu. induction Htu as [|v u _ IH Hvu].
  - eapply er_step; [apply er_refl|exact Hst].
  - eapply er_step; [exact IH|exact Hvu].
Qed.

Lemma ereach_bound a s t : aut_closed a -> s < num_states a -> ereach a s t -> t < num_states a.
Proof.
  intros Hcl Hs Hr. induction Hr as [|t u _ IH Htu]; auto. eapply (proj2 Hcl); eauto.
Qed.

Definition bfs_push (qs : list nat * list nat) (n : nat) : list nat * list nat :=
  if existsb (Nat.eqb n) (snd qs) then qs else (fst qs ++ [n], n :: snd qs).

Lemma bfs_fold_spec es : forall q seen, exists nw,
  fold_left bfs_push es (q, seen) = (q ++ nw, rev nw ++ seen) /\ NoDup nw /\
  (forall x, In x nw -> In x es /\ ~ In x seen) /\
  (forall x, In x es -> In x seen \/ In x nw).
Proof.
  induction es as [|e t IH]; intros q seen.
  - exists []. simpl. rewrite app_nil_r. repeat split; auto; try constructor; intros x [].
  - simpl. unfold bfs_push at 2. simpl fst. simpl snd. destruct (existsb (Nat.eqb e) seen) eqn:He.
    + apply existsb_eqb_in in He. destruct (IH q seen) as [nw [Hf [Hnd [H1 H2]]]].
      exists nw. repeat split; auto.
      * right. apply H1. exact H.
      * apply H1. exact H.
      * intros x [Hx | Hx]; [subst; auto|apply H2; exact Hx].
    + assert (Hn : ~ In e seen) by (intros Hin; apply existsb_eqb_in in Hin; congruence).
      destruct (IH (q ++ [e]) (e :: seen)) as [nw [Hf [Hnd [H1 H2]]]].
      exists (e :: nw). rewrite Hf. split; [|split; [|split]].
      * simpl. rewrite <- !app_assoc. reflexivity.
      * constructor; auto. intros Hin. apply H1 in Hin. apply (proj2 Hin). simpl. auto.
      * intros x [Hx | Hx]; [subst; split; simpl; auto|].
        destruct (H1 x Hx) as [Ha Hb]. split; [right; exact Ha|]. intros Hc. apply Hb. right. exact Hc.
      * intros x [Hx | Hx]; [subst; right; left; reflexivity|].
        destruct (H2 x Hx) as [[Hy | Hy] | Hy]; [subst; right; left; reflexivity|left; exact Hy|right; right; exact Hy].
Qed.

Record binv (a : automaton) (queue seen out : list nat) : Prop := {
  bi_nodup : NoDup (out ++ queue);
  bi_seen : forall x, In x seen <-> In x (out ++ queue);
  bi_reach : forall x, In x seen -> ereach a (initial a) x;
  bi_closed : forall x y, In x out -> In y (edges (a_state a x)) -> In y seen;
  bi_init : In (initial a) seen;
  bi_bound : forall x, In x seen -> x < num_states a }.

Lemma reach_go_unfold f a i q seen out :
  reach_go (S f) a (i :: q) seen out =
  let '(q1, s1) := fold_left bfs_push (edges (a_state a i)) (q, seen) in reach_go f a q1 s1 (out ++ [i]).
Proof. reflexivity. Qed.

Lemma reach_go_spec a : aut_closed a -> forall fuel queue seen out,
  binv a queue seen out -> num_states a < fuel + length out ->
  let r := reach_go fuel a queue seen out in
  (forall s, In s r <-> ereach a (initial a) s) /\ NoDup r /\ (forall s, In s r -> s < num_states a).
Proof.
  intros Hwf. induction fuel as [|f IH]; intros queue seen out Hinv Hfuel.
  - exfalso. destruct Hinv as [Hnd Hseen _ _ _ Hb]. apply NoDup_app_l in Hnd.
    assert (length out <= num_states a); [|lia].
    apply NoDup_bounded_length; auto. intros x Hx. apply Hb, Hseen, in_or_app. auto.
  - destruct queue as [|i q].
    + simpl. destruct Hinv as [Hnd Hseen Hreach Hcl Hinit Hb]. rewrite app_nil_r in *.
      split; [|split].
      * intros s. split.
        -- intros Hs. apply Hreach, Hseen. exact Hs.
        -- intros Hr. induction Hr as [|t u _ IHr Htu].
           ++ apply Hseen. exact Hinit.
           ++ apply Hseen. eapply Hcl; eauto.
      * exact Hnd.
      * intros s Hs. apply Hb, Hseen. exact Hs.
    + rewrite reach_go_unfold.
      destruct (bfs_fold_spec (edges (a_state a i)) q seen) as [nw [Hf [Hndw [Hw1 Hw2]]]].
      rewrite Hf. apply IH.
      * destruct Hinv as [Hnd Hseen Hreach Hcl Hinit Hb].
        assert (Hi : In i seen) by (apply Hseen, in_or_app; right; left; reflexivity).
        constructor.
        -- replace ((out ++ [i]) ++ q ++ nw) with ((out ++ i :: q) ++ nw)
             by (rewrite <- !app_assoc; reflexivity).
           apply NoDup_app_intro; auto. intros x Hx Hxw. apply (proj2 (Hw1 x Hxw)). apply Hseen. exact Hx.
        -- intros x. rewrite !in_app_iff, <- in_rev. rewrite (Hseen x), !in_app_iff. simpl. tauto.
        -- intros x Hx. apply in_app_or in Hx. destruct Hx as [Hx | Hx]; [|apply Hreach; exact Hx].
           apply in_rev in Hx. eapply er_step; [apply Hreach; exact Hi|apply Hw1; exact Hx].
        -- intros x y Hx Hy. apply in_or_app. apply in_app_or in Hx. destruct Hx as [Hx | [Hx | []]].
           ++ right. eapply Hcl; eauto.
           ++ subst x. destruct (Hw2 y Hy) as [H | H]; [right; exact H|left; apply in_rev in H; exact H].
        -- apply in_or_app. right. exact Hinit.
        -- intros x Hx. apply in_app_or in Hx. destruct Hx as [Hx | Hx]; [|apply Hb; exact Hx].
           apply in_rev in Hx. eapply (proj2 Hwf); [apply Hb; exact Hi|apply Hw1; exact Hx].
      * rewrite app_length. simpl. lia.
Qed.

Definition reach_list (a : automaton) : list nat := reach_go (S (num_states a)) a [initial a] [initial a] [].

Lemma reach_list_spec a : aut_closed a ->
  (forall s, In s (reach_list a) <-> ereach a (initial a) s) /\ NoDup (reach_list a) /\
  (forall s, In s (reach_list a) -> s < num_states a).
Proof.
  intros Hwf. unfold reach_list. apply reach_go_spec; auto; [|simpl; lia].
  destruct Hwf as [Hi _]. constructor; simpl.
  - constructor; [intros []|constructor].
  - tauto.
  - intros x [Hx | []]. subst. apply er_refl.
  - intros x y [].
  - auto.
  - intros x [Hx | []]. subst. exact Hi.
Qed.

(* the BFS of remove_unreachable_states, with the fuel of the model, lists exactly the states
   reachable from the initial state along edges *)
Theorem reach_exact a : aut_wf a -> forall s,
  In s (reach_go (S (num_states a)) a [initial a] [initial a] []) <-> ereach a (initial a) s.
Proof. intros Hwf. apply (reach_list_spec a (aut_wf_closed a Hwf)). Qed.

Theorem reach_exact_closed a : aut_closed a -> forall s,
  In s (reach_go (S (num_states a)) a [initial a] [initial a] []) <-> ereach a (initial a) s.
Proof. intros Hcl. apply (reach_list_spec a Hcl). Qed.

Lemma reachable_spec_cl a : aut_closed a ->
  (forall s, In s (reachable a) <-> ereach a (initial a) s) /\ NoDup (reachable a) /\
  StronglySorted le (reachable a) /\ (forall s, In s (reachable a) -> s < num_states a) /\
  length (reachable a) = length (reach_list a).
Proof.
  intros Hwf. destruct (reach_list_spec a Hwf) as [H1 [H2 H3]]. unfold reachable. fold (reach_list a).
  split; [|split; [|split; [|split]]].
  - intros s. rewrite sort_nat_in. apply H1.
  - apply sort_nat_nodup. exact H2.
  - apply sort_nat_sorted.
  - intros s Hs. apply H3. apply sort_nat_in. exact Hs.
  - apply sort_nat_length.
Qed.

Lemma reachable_spec a : aut_wf a ->
  (forall s, In s (reachable a) <-> ereach a (initial a) s) /\ NoDup (reachable a) /\
  StronglySorted le (reachable a) /\ (forall s, In s (reachable a) -> s < num_states a) /\
  length (reachable a) = length (reach_list a).
Proof. intros Hwf. apply reachable_spec_cl. apply aut_wf_closed. exact Hwf. Qed.

(* --- edges versus words --- *)

Lemma a_next_in_edges a s c u : a_next a s c = Some u -> In u (edges s).
Proof.
  unfold a_next. intros H. apply edges_in. destruct (pclass_of_char (a_classes s) c) as [[i|]|]; try discriminate.
  - left. eapply nth_error_In. exact H.
  - right. exact H.
Qed.

Lemma a_str_next_app a w1 : forall s w2,
  a_str_next a s (w1 ++ w2) = match a_str_next a s w1 with Some t => a_str_next a t w2 | None => None end.
Proof.
  induction w1 as [|c t IH]; intros s w2; simpl; auto.
  destruct (a_next a (a_state a s) c); auto.
Qed.

Lemma str_next_ereach a w : forall s t, a_str_next a s w = Some t -> ereach a s t.
Proof.
  induction w as [|c w IH]; intros s t H; simpl in H.
  - inv H. apply er_refl.
  - destruct (a_next a (a_state a s) c) as [u|] eqn:Hn; [|discriminate].
    eapply ereach_step_left; [eapply a_next_in_edges; exact Hn|apply IH; exact H].
Qed.

Lemma creach_ereach a s : creach a s -> ereach a (initial a) s.
Proof. intros [w [_ H]]. eapply str_next_ereach; eauto. Qed.

(* every interval class is inhabited; the complementary class is inhabited iff it is not empty *)
Lemma edge_has_char a n i s u : state_wf n i s ->
  (forall d, a_default s = Some d -> pempty_complement (a_classes s) = false) ->
  In u (edges s) -> exists c, good c /\ a_next a s c = Some u.
Proof.
  intros [_ [Hp [Hl _]]] Hdd Hu. pose proof Hp as [Hs _]. apply edges_in in Hu. destruct Hu as [Hu | Hu].
  - apply In_nth_error in Hu. destruct Hu as [k Hk].
    assert (Hk' : (k < length (ivs (a_classes s)))%nat).
    { apply nth_error_lt_len in Hk. unfold plen in Hl. lia. }
    destruct (nth_error_in_range _ _ Hk') as [iv Hiv].
    pose proof (sorted_nth_valid _ _ _ Hs Hiv) as [Hv1 Hv2].
    exists (fst iv). split; [unfold good; lia|]. unfold a_next.
    rewrite (pclass_of_char_complete (a_classes s) (fst iv) (CInt k) Hs); auto.
    simpl. exists iv. split; auto. unfold mem. lia.
  - specialize (Hdd u Hu). destruct (ppick_complement_spec _ Hp) as [_ H]. destruct (H Hdd) as [Hc _].
    exists (ppick_complement (a_classes s)). split; [apply Hc|]. unfold a_next.
    rewrite (pclass_of_char_complete _ _ CComp Hs Hc). exact Hu.
Qed.

Lemma ereach_creach a s : aut_wf a -> no_dead_default a -> ereach a (initial a) s -> creach a s.
Proof.
  intros Hwf Hnd Hr. induction Hr as [|t u Hr IH Htu].
  - exists []. split; [constructor|reflexivity].
  - destruct IH as [w [Hg Hw]].
    assert (Ht : t < num_states a) by (eapply ereach_bound; eauto; [apply aut_wf_closed; exact Hwf|apply Hwf]).
    destruct (edge_has_char a _ _ _ u (aut_wf_state a t Hwf Ht)) as [c [Hc Hn]]; auto.
    { intros d Hd. eapply Hnd; [|exact Hd]. apply a_state_nth. destruct Hwf as [Hl _]. lia. }
    exists (w ++ [c]). split.
    + apply Forall_app. split; auto.
    + rewrite a_str_next_app, Hw. simpl. rewrite Hn. reflexivity.
Qed.

(* reachable by words => kept, for every well-formed automaton; the converse needs that no state
   carries a default successor with an empty complementary class (such an edge is listed by
   edges() but no character takes it) *)
Theorem reach_words_sound a : aut_wf a -> forall s, creach a s -> In s (reachable a).
Proof. intros Hwf s Hc. apply (reachable_spec a Hwf). apply creach_ereach. exact Hc. Qed.

Theorem reach_exact_words a : aut_wf a -> no_dead_default a -> forall s, In s (reachable a) <-> creach a s.
Proof.
  intros Hwf Hnd s. rewrite (proj1 (reachable_spec a Hwf) s). split; [apply ereach_creach; auto|apply creach_ereach].
Qed.

(* ------------------------------------------------------------------ 4. remove_unreachable *)

(* StateMapping::from_array *)
Definition new_id_of (n : nat) (R : list nat) : list nat :=
  fold_left (fun acc ix => upd acc (snd ix) (fst ix)) (combine (seq 0 (length R)) R) (repeat 0 n).

Lemma remove_unreachable_unfold a :
  remove_unreachable a = remap_nodes a (new_id_of (num_states a) (reachable a)) (reachable a).
Proof. reflexivity. Qed.

Lemma from_array_spec (l : list nat) : forall acc b, NoDup l -> (forall x, In x l -> x < length acc) ->
  let r := fold_left (fun (acc : list nat) (ix : nat * nat) => upd acc (snd ix) (fst ix))
                     (combine (seq b (length l)) l) acc in
  length r = length acc /\ (forall k, k < length l -> nth (nth k l 0) r 0 = b + k) /\
  (forall x, ~ In x l -> nth x r 0 = nth x acc 0).
Proof.
  induction l as [|o t IH]; intros acc b Hnd Hb; simpl.
  - split; auto. split; auto. intros k Hk. lia.
  - inv Hnd.
    destruct (IH (upd acc o b) (S b) H2) as [Hl [Hk Hx]].
    { intros x Hx. rewrite upd_length. apply Hb. right. exact Hx. }
    simpl in Hl, Hk, Hx. split; [|split].
    + rewrite Hl. apply upd_length.
    + intros [|k] Hlt.
      * rewrite (Hx o H1), nth_upd_same; [lia|]. apply Hb. left. reflexivity.
      * rewrite Hk; lia.
    + intros x Hn. rewrite Hx; [|intros Hin; apply Hn; right; exact Hin].
      apply nth_upd_other. intros He. apply Hn. left. exact He.
Qed.

Lemma remap_edges nid s : edges (remap_state nid s) = map (fun x => nth x nid 0) (edges s).
Proof. unfold edges, remap_state. simpl. rewrite map_app. destruct (a_default s); reflexivity. Qed.

Lemma remap_a_next a a' nid s c :
  a_next a' (remap_state nid s) c = option_map (fun x => nth x nid 0) (a_next a s c).
Proof.
  unfold a_next, remap_state. simpl. destruct (pclass_of_char (a_classes s) c) as [[i|]|]; auto.
  revert i. induction (a_succ s) as [|x t IH]; intros [|i]; simpl; auto.
Qed.

Lemma ereach_trans a s t u : ereach a s t -> ereach a t u -> ereach a s u.
Proof.
  intros Hst Htu. induction Htu as [|v u _ IH Hvu]; auto. eapply er_step; eauto.
Qed.

(* what the proofs need of a renumbering (new_id, old_id = R) *)
Record remap_ok (a : automaton) (nid R : list nat) : Prop := {
  ro_idx : forall k, k < length R -> nth (nth k R 0) nid 0 = k;
  ro_closed : forall o u, In o R -> In u (edges (a_state a o)) -> In u R;
  ro_init : In (initial a) R }.

Definition rf (nid : list nat) (x : nat) : nat := nth x nid 0.

Lemma in_R_idx a nid R o : remap_ok a nid R -> In o R ->
  exists k, k < length R /\ nth k R 0 = o /\ rf nid o = k.
Proof.
  intros Hok Hin. destruct (In_nth R o 0 Hin) as [k [Hk He]]. exists k. split; auto. split; auto.
  unfold rf. rewrite <- He. apply (ro_idx _ _ _ Hok). exact Hk.
Qed.

Lemma remap_state_at a nid R k : k < length R ->
  a_state (remap_nodes a nid R) k = remap_state nid (a_state a (nth k R 0)).
Proof.
  intros Hk. unfold a_state at 1, remap_nodes. cbn [astates].
  apply (nth_map_lt (fun o => remap_state nid (a_state a o)) R k 0 dstate Hk).
Qed.

Lemma remap_state_of a nid R o : remap_ok a nid R -> In o R ->
  a_state (remap_nodes a nid R) (rf nid o) = remap_state nid (a_state a o).
Proof.
  intros Hok Hin. destruct (in_R_idx a nid R o Hok Hin) as [k [Hk [He Hf]]].
  rewrite Hf, remap_state_at, He; auto.
Qed.

Lemma closed_ereach a nid R o u : remap_ok a nid R -> In o R -> ereach a o u -> In u R.
Proof. intros Hok Ho Hr. induction Hr as [|t u _ IH Htu]; auto. eapply (ro_closed _ _ _ Hok); eauto. Qed.

Lemma remap_str_next a nid R : remap_ok a nid R -> forall w o, In o R ->
  a_str_next (remap_nodes a nid R) (rf nid o) w = option_map (rf nid) (a_str_next a o w).
Proof.
  intros Hok. induction w as [|c w IH]; intros o Ho; simpl; auto.
  rewrite (remap_state_of a nid R o Hok Ho), (remap_a_next a (remap_nodes a nid R)).
  destruct (a_next a (a_state a o) c) as [u|] eqn:Hn; simpl; auto.
  apply IH. eapply (ro_closed _ _ _ Hok); eauto. eapply a_next_in_edges; eauto.
Qed.

Lemma remap_accepts a nid R : remap_ok a nid R -> forall w,
  a_accepts (remap_nodes a nid R) w = a_accepts a w.
Proof.
  intros Hok w. unfold a_accepts. change (initial (remap_nodes a nid R)) with (rf nid (initial a)).
  rewrite (remap_str_next a nid R Hok w _ (ro_init _ _ _ Hok)).
  destruct (a_str_next a (initial a) w) as [u|] eqn:Hu; simpl; auto.
  rewrite (remap_state_of a nid R); auto.
  eapply closed_ereach; [exact Hok|apply (ro_init _ _ _ Hok)|eapply str_next_ereach; eauto].
Qed.

Lemma remap_ereach a nid R o u : remap_ok a nid R -> In o R -> ereach a o u ->
  ereach (remap_nodes a nid R) (rf nid o) (rf nid u).
Proof.
  intros Hok Ho Hr. induction Hr as [|t u Hr IH Htu]; [apply er_refl|].
  eapply er_step; [exact IH|]. rewrite (remap_state_of a nid R); [|exact Hok|eapply closed_ereach; eauto].
  rewrite remap_edges. apply (in_map (fun x => nth x nid 0)). exact Htu.
Qed.

Lemma remap_wf a nid R : remap_ok a nid R -> aut_wf a -> (forall o, In o R -> o < num_states a) ->
  aut_wf (remap_nodes a nid R).
Proof.
  intros Hok Hwf Hb. unfold aut_wf. split; [|split; [|split]].
  - unfold remap_nodes. cbn [astates num_states]. apply map_length.
  - change (initial (remap_nodes a nid R)) with (rf nid (initial a)).
    change (num_states (remap_nodes a nid R)) with (length R).
    destruct (in_R_idx a nid R _ Hok (ro_init _ _ _ Hok)) as [k [Hk [_ Hf]]]. lia.
  - reflexivity.
  - intros i s Hn. change (num_states (remap_nodes a nid R)) with (length R).
    assert (Hi : i < length R).
    { apply nth_error_lt_len in Hn. unfold remap_nodes in Hn. cbn [astates] in Hn.
      rewrite map_length in Hn. exact Hn. }
    assert (Hs : s = remap_state nid (a_state a (nth i R 0))).
    { rewrite <- remap_state_at; auto. unfold a_state.
      rewrite (nth_error_nth _ _ dstate Hn). reflexivity. }
    subst s. set (o := nth i R 0). assert (Ho : In o R) by (apply nth_In; exact Hi).
    destruct (aut_wf_state a o Hwf (Hb o Ho)) as [Ha [Hp [Hl [Ht Hd]]]].
    assert (Hfo : forall u, In u (edges (a_state a o)) -> rf nid u < length R).
    { intros u Hu. destruct (in_R_idx a nid R u Hok (ro_closed _ _ _ Hok o u Ho Hu)) as [k [Hk [_ Hf]]]. lia. }
    unfold state_wf, remap_state. cbn [a_id a_classes a_succ a_default].
    split; [|split; [|split; [|split]]]; auto.
    + rewrite Ha. apply (ro_idx _ _ _ Hok). exact Hi.
    + rewrite map_length. exact Hl.
    + intros t Hin. apply in_map_iff in Hin. destruct Hin as [t0 [He Hin]]. subst t.
      apply Hfo. apply edges_in. left. exact Hin.
    + destruct (a_default (a_state a o)) as [d|] eqn:Hdf; simpl; auto.
      apply Hfo. apply edges_in. right. exact Hdf.
Qed.

Lemma remove_unreachable_remap_ok_cl a : aut_closed a ->
  remap_ok a (new_id_of (num_states a) (reachable a)) (reachable a).
Proof.
  intros Hwf. destruct (reachable_spec_cl a Hwf) as [Hin [Hnd [_ [Hb _]]]]. constructor.
  - intros k Hk. unfold new_id_of.
    destruct (from_array_spec (reachable a) (repeat 0 (num_states a)) 0 Hnd) as [_ [H _]].
    + intros x Hx. rewrite repeat_length. apply Hb. exact Hx.
    + apply H. exact Hk.
  - intros o u Ho Hu. apply Hin. eapply er_step; [apply Hin; exact Ho|exact Hu].
  - apply Hin. apply er_refl.
Qed.

Lemma remove_unreachable_remap_ok a : aut_wf a ->
  remap_ok a (new_id_of (num_states a) (reachable a)) (reachable a).
Proof. intros Hwf. apply remove_unreachable_remap_ok_cl. apply aut_wf_closed. exact Hwf. Qed.

Theorem remove_unreachable_wf a : aut_wf a -> aut_wf (remove_unreachable a).
Proof.
  intros Hwf. rewrite remove_unreachable_unfold. apply remap_wf; auto.
  - apply remove_unreachable_remap_ok. exact Hwf.
  - apply (reachable_spec a Hwf).
Qed.

(* same verdict on every word (for all words, good or not; None = panic on both sides) *)
Theorem remove_unreachable_lang a : aut_wf a -> forall w, a_accepts (remove_unreachable a) w = a_accepts a w.
Proof.
  intros Hwf w. rewrite remove_unreachable_unfold. apply remap_accepts.
  apply remove_unreachable_remap_ok. exact Hwf.
Qed.

(* the language is also preserved for partial automata (a default successor may be missing, as
   build_unchecked allows): only closure of the state array under edges is needed *)
Theorem remove_unreachable_lang_closed a : aut_closed a ->
  forall w, a_accepts (remove_unreachable a) w = a_accepts a w.
Proof.
  intros Hcl w. rewrite remove_unreachable_unfold. apply remap_accepts.
  apply remove_unreachable_remap_ok_cl. exact Hcl.
Qed.

(* the kept states are exactly the reachable ones, renumbered in increasing order of their old ids:
   new state k is old state (nth k (reachable a)) with its successors renamed, every new state is
   reachable, and the renaming is monotone *)
Theorem remove_unreachable_states_exact a : aut_wf a ->
  let R := reachable a in
  let nid := fun x => nth x (new_id_of (num_states a) R) 0 in
  let a' := remove_unreachable a in
  (forall s, In s R <-> ereach a (initial a) s) /\ NoDup R /\
  num_states a' = length R /\ length (astates a') = length R /\
  initial a' = nid (initial a) /\
  (forall k, k < length R ->
     nid (nth k R 0) = k /\
     a_state a' k = remap_state (new_id_of (num_states a) R) (a_state a (nth k R 0)) /\
     ereach a' (initial a') k) /\
  (forall o1 o2, In o1 R -> In o2 R -> o1 < o2 -> nid o1 < nid o2).
Proof.
  intros Hwf R nid a'. destruct (reachable_spec a Hwf) as [Hin [Hnd [Hso [Hb _]]]].
  pose proof (remove_unreachable_remap_ok a Hwf) as Hok. fold R in Hok, Hin, Hnd, Hso, Hb.
  split; [exact Hin|]. split; [exact Hnd|]. split; [reflexivity|].
  split; [unfold a'; rewrite remove_unreachable_unfold; unfold remap_nodes; cbn [astates]; apply map_length|].
  split; [reflexivity|]. split.
  - intros k Hk. split; [apply (ro_idx _ _ _ Hok); exact Hk|]. split.
    + unfold a'. rewrite remove_unreachable_unfold. apply (remap_state_at a _ R); auto.
    + assert (Ho : In (nth k R 0) R) by (apply nth_In; exact Hk).
      pose proof (remap_ereach a _ R (initial a) (nth k R 0) Hok (ro_init _ _ _ Hok)
                               (proj1 (Hin _) Ho)) as Hr.
      unfold rf in Hr at 2. rewrite (ro_idx _ _ _ Hok k Hk) in Hr. exact Hr.
  - intros o1 o2 H1 H2 Hlt.
    destruct (In_nth R o1 0 H1) as [k1 [Hk1 He1]]. destruct (In_nth R o2 0 H2) as [k2 [Hk2 He2]].
    unfold nid. rewrite <- He1, <- He2, (ro_idx _ _ _ Hok k1 Hk1), (ro_idx _ _ _ Hok k2 Hk2).
    destruct (Nat.lt_trichotomy k1 k2) as [Hc | [Hc | Hc]]; auto.
    + subst k2. lia.
    + pose proof (sorted_nodup_nth_lt R Hso Hnd k2 k1 Hc Hk1). lia.
Qed.

(* every index used by from_array / remap_nodes is in range (the model's [nth _ _ 0], [upd] and
   [a_state] defaults are not reached while pruning) *)
Theorem remove_unreachable_in_range a : aut_wf a ->
  length (new_id_of (num_states a) (reachable a)) = num_states a /\
  initial a < num_states a /\
  forall o, In o (reachable a) ->
    o < length (astates a) /\ o < num_states a /\
    forall u, In u (edges (a_state a o)) -> u < num_states a.
Proof.
  intros Hwf. destruct (reachable_spec a Hwf) as [_ [Hnd [_ [Hb _]]]]. split; [|split].
  - unfold new_id_of.
    destruct (from_array_spec (reachable a) (repeat 0 (num_states a)) 0 Hnd) as [Hl _].
    + intros x Hx. rewrite repeat_length. apply Hb. exact Hx.
    + cbv zeta in Hl. rewrite Hl. apply repeat_length.
  - apply Hwf.
  - intros o Ho. pose proof (Hb o Ho) as Hlt. pose proof Hwf as [Hlen _]. split; [lia|]. split; auto.
    intros u Hu. eapply aut_wf_targets; eauto.
Qed.

(* with no dead default edges, "reachable" can be read as "reached by some word of good characters" *)
Theorem remove_unreachable_states_exact_words a : aut_wf a -> no_dead_default a ->
  (forall s, In s (reachable a) <-> creach a s) /\
  num_states (remove_unreachable a) = length (reachable a) /\
  (forall k, k < num_states (remove_unreachable a) -> creach (remove_unreachable a) k).
Proof.
  intros Hwf Hnd. split; [apply reach_exact_words; auto|]. split; [reflexivity|].
  intros k Hk. destruct (remove_unreachable_states_exact a Hwf) as [_ [_ [Hn [_ [_ [Hs _]]]]]].
  apply ereach_creach.
  - apply remove_unreachable_wf. exact Hwf.
  - (* renaming keeps classes and the presence of a default *)
    intros i s d Hi Hd. pose proof (nth_error_lt_len _ _ _ Hi) as Hlt.
    destruct (remove_unreachable_states_exact a Hwf) as [_ [_ [_ [Hl [_ [Hst _]]]]]].
    rewrite Hl in Hlt. destruct (Hst i Hlt) as [_ [Hsi _]].
    assert (Hs' : s = a_state (remove_unreachable a) i).
    { unfold a_state. rewrite (nth_error_nth _ _ dstate Hi). reflexivity. }
    rewrite Hs', Hsi in Hd |- *. unfold remap_state in Hd |- *. cbn [a_classes a_default] in Hd |- *.
    destruct (a_default (a_state a (nth i (reachable a) 0))) as [d0|] eqn:Hd0; [|discriminate].
    eapply Hnd; [|exact Hd0]. apply a_state_nth.
    pose proof Hwf as [Hlen _]. rewrite Hlen. apply (reachable_spec a Hwf).
    apply nth_In. exact Hlt.
  - apply Hs. rewrite <- Hn. exact Hk.
Qed.

(* ------------------------------------------------------------------ 5. combined partition, alphabet *)

(* what is needed of merge_partitions (C12, MergeProofs.v): the merge of two well-formed partitions is
   well-formed and refines both *)
Definition merge_spec : Prop := forall p1 p2, pwf p1 -> pwf p2 ->
  pwf (pmerge p1 p2) /\
  forall x y, same_class (pmerge p1 p2) x y -> same_class p1 x y /\ same_class p2 x y.

Lemma fold_merge_spec : merge_spec -> forall (l : list astate) acc, pwf acc ->
  (forall s, In s l -> pwf (a_classes s)) ->
  let r := fold_left (fun acc s => pmerge acc (a_classes s)) l acc in
  pwf r /\ forall x y, same_class r x y ->
             same_class acc x y /\ forall s, In s l -> same_class (a_classes s) x y.
Proof.
  intros Hm. induction l as [|s t IH]; intros acc Hacc Hl; simpl.
  - split; auto. intros x y H. split; auto. intros s [].
  - destruct (Hm acc (a_classes s) Hacc (Hl s (or_introl eq_refl))) as [Hw Hr].
    destruct (IH (pmerge acc (a_classes s)) Hw (fun s' H => Hl s' (or_intror H))) as [Hw' Hr'].
    split; auto. intros x y Hxy. destruct (Hr' x y Hxy) as [H1 H2]. destruct (Hr x y H1) as [H3 H4].
    split; auto. intros s' [He | Hin]; [subst; auto|apply H2; exact Hin].
Qed.

Lemma aut_wf_classes a s : aut_wf a -> In s (astates a) -> pwf (a_classes s).
Proof.
  intros [_ [_ [_ H]]] Hin. apply In_nth_error in Hin. destruct Hin as [i Hi]. apply (H i s Hi).
Qed.

Lemma combined_partition_wf a : merge_spec -> aut_wf a -> pwf (combined_partition a).
Proof.
  intros Hm Hwf. unfold combined_partition.
  apply (fold_merge_spec Hm (astates a) pnew pnew_wf). intros s Hs. eapply aut_wf_classes; eauto.
Qed.

(* same class => same answer of class_of_char (for all numbers, good or not) *)
Lemma same_class_class_of_char p x y : ivs_sorted (ivs p) -> same_class p x y ->
  pclass_of_char p x = pclass_of_char p y.
Proof.
  intros Hs [[s [Hin [Hx Hy]]] | [Hx Hy]].
  - assert (Hgx : good x) by (eapply covered_good; eauto; exists s; auto).
    assert (Hgy : good y) by (eapply covered_good; eauto; exists s; auto).
    apply same_class_iff_class_of_char; auto. left. exists s. auto.
  - destruct (pclass_of_char_res p x Hs) as [cx [Hcx Hrx]], (pclass_of_char_res p y Hs) as [cy [Hcy Hry]].
    rewrite Hcx, Hcy. destruct cx as [i|]; [exfalso; apply Hx, covered_nth; exact (ex_intro _ i Hrx)|].
    destruct cy as [j|]; [exfalso; apply Hy, covered_nth; exact (ex_intro _ j Hry)|]. reflexivity.
Qed.

(* characters grouped by combined_char_partition have identical successors in every state *)
Theorem combined_uniform a : merge_spec -> aut_wf a -> forall x y,
  same_class (combined_partition a) x y ->
  forall s, In s (astates a) -> a_next a s x = a_next a s y.
Proof.
  intros Hm Hwf x y Hxy s Hs. unfold combined_partition in Hxy.
  destruct (fold_merge_spec Hm (astates a) pnew pnew_wf) as [_ Hr].
  { intros s' Hs'. eapply aut_wf_classes; eauto. }
  destruct (Hr x y Hxy) as [_ Hall]. specialize (Hall s Hs).
  unfold a_next. rewrite (same_class_class_of_char _ x y); auto.
  apply pwf_sorted. eapply aut_wf_classes; eauto.
Qed.

Corollary combined_uniform_state a : merge_spec -> aut_wf a -> forall x y,
  same_class (combined_partition a) x y ->
  forall s, s < num_states a -> a_step a s x = a_step a s y.
Proof.
  intros Hm Hwf x y Hxy s Hs. unfold a_step. apply combined_uniform; auto.
  unfold a_state. apply nth_In. destruct Hwf as [Hl _]. lia.
Qed.

Lemma Forall2_nth {A B} (R : A -> B -> Prop) l1 l2 : Forall2 R l1 l2 ->
  length l1 = length l2 /\ forall i d1 d2, i < length l1 -> R (nth i l1 d1) (nth i l2 d2).
Proof.
  induction 1 as [|x y l1 l2 Hxy _ [IHl IHn]]; simpl.
  - split; auto. intros i d1 d2 Hi. lia.
  - split; [lia|]. intros [|i] d1 d2 Hi; auto. apply IHn. lia.
Qed.

(* pick_alphabet lists good characters, exactly one of each (non-empty) class of the combined partition *)
Theorem pick_alphabet_reps a : merge_spec -> aut_wf a ->
  let P := combined_partition a in let al := pick_alphabet a in
  pwf P /\ Forall good al /\
  (forall x, good x -> exists i, i < length al /\ same_class P x (nth i al 0%N)) /\
  (forall i j, i < length al -> j < length al -> same_class P (nth i al 0%N) (nth j al 0%N) -> i = j).
Proof.
  intros Hm Hwf. cbv zeta. unfold pick_alphabet. set (P := combined_partition a). set (al := ppicks P).
  pose proof (combined_partition_wf a Hm Hwf) as Hp. fold P in Hp.
  pose proof (ppicks_in_class P Hp) as HF. fold al in HF.
  destruct (Forall2_nth _ _ _ HF) as [Hlen Hnth]. pose proof (pwf_sorted P Hp) as Hs.
  split; [exact Hp|]. split; [|split].
  - apply Forall_forall. intros x Hx. destruct (In_nth al x 0%N Hx) as [i [Hi He]].
    rewrite <- Hlen in Hi. destruct (Hnth i CComp 0%N Hi) as [Hg _]. rewrite He in Hg. exact Hg.
  - intros x Hg. destruct (in_class_exists P x Hg) as [c Hc].
    assert (Hin : In c (pclass_ids P)) by (apply pclass_ids_spec; auto; exists x; auto).
    destruct (In_nth _ _ CComp Hin) as [i [Hi He]]. exists i. split; [lia|].
    destruct (Hnth i CComp 0%N Hi) as [Hgi Hci]. rewrite He in Hci.
    apply same_class_iff_in_class; auto. exists c. auto.
  - intros i j Hi Hj Hsc. rewrite <- Hlen in Hi, Hj.
    destruct (Hnth i CComp 0%N Hi) as [Hgi Hci], (Hnth j CComp 0%N Hj) as [Hgj Hcj].
    apply same_class_iff_in_class in Hsc; auto. destruct Hsc as [c [Hc1 Hc2]].
    pose proof (in_class_fun P _ _ _ Hs Hc1 Hci) as E1. pose proof (in_class_fun P _ _ _ Hs Hc2 Hcj) as E2.
    apply (proj1 (NoDup_nth (pclass_ids P) CComp) (pclass_ids_nodup P)); auto. congruence.
Qed.

Lemma pick_alphabet_nonempty a : merge_spec -> aut_wf a -> 1 <= length (pick_alphabet a).
Proof.
  intros Hm Hwf. destruct (pick_alphabet_reps a Hm Hwf) as [_ [_ [H _]]].
  destruct (H 0%N) as [i [Hi _]]; [unfold good, MAXC; lia|lia].
Qed.

(* ------------------------------------------------------------------ 6. the compact table *)

(* --- 6a. the pieces of compile_successors, named --- *)
Definition indef (s : astate) (ch : N) : bool :=
  match a_default s with Some _ => true | None => false end
  && match pclass_of_char (a_classes s) ch with Some CComp => true | _ => false end.
Definition cs_cand (alphabet : list N) (s : astate) : list (nat * N) :=
  filter (fun ic => negb (indef s (snd ic))) (combine (seq 0 (length alphabet)) alphabet).
Definition cs_succ (a : automaton) (alphabet : list N) (s : astate) : list (nat * option nat) :=
  map (fun ic => (fst ic, a_next a s (snd ic))) (cs_cand alphabet s).
Definition cs_row (a : automaton) (alphabet : list N) (s : astate) : list (nat * nat) :=
  map (fun x => (fst x, match snd x with Some v => v | None => 0 end)) (cs_succ a alphabet s).
Definition cs_setdef (t : ctable) (s : astate) : ctable :=
  match a_default s with
  | Some d => {| ct_n := ct_n t; ct_alpha := ct_alpha t; ct_default := upd (ct_default t) (a_id s) d;
                 ct_base := ct_base t; ct_value := ct_value t; ct_check := ct_check t |}
  | None => t
  end.
Definition cs_step (a : automaton) (alphabet : list N) (ot : option ctable) (s : astate) : option ctable :=
  match ot with
  | None => None
  | Some t =>
    if forallb (fun x => match snd x with Some _ => true | None => false end) (cs_succ a alphabet s)
    then Some (set_successors (cs_setdef t s) (a_id s) (cs_row a alphabet s))
    else None
  end.
Definition cs_t0 (n m : nat) : ctable :=
  {| ct_n := n; ct_alpha := m; ct_default := repeat 0 n; ct_base := repeat 0 n;
     ct_value := repeat 0 m; ct_check := repeat n m |}.
Definition ct_final (t : ctable) : ctable :=
  let mx := fold_left Nat.max (ct_base t) 0 + ct_alpha t in
  {| ct_n := ct_n t; ct_alpha := ct_alpha t; ct_default := ct_default t; ct_base := ct_base t;
     ct_value := firstn mx (ct_value t); ct_check := firstn mx (ct_check t) |}.

Lemma compile_successors_unfold a :
  compile_successors a =
  match fold_left (cs_step a (pick_alphabet a)) (astates a)
                  (Some (cs_t0 (num_states a) (length (pick_alphabet a)))) with
  | None => None
  | Some t => Some {| ct_n := ct_n t; ct_alpha := ct_alpha t; ct_default := ct_default t; ct_base := ct_base t;
                      ct_value := firstn (fold_left Nat.max (ct_base t) 0 + length (pick_alphabet a)) (ct_value t);
                      ct_check := firstn (fold_left Nat.max (ct_base t) 0 + length (pick_alphabet a)) (ct_check t) |}
  end.
Proof. reflexivity. Qed.

Definition store_f (b i : nat) (vc : list nat * list nat) (cv : nat * nat) : list nat * list nat :=
  (upd (fst vc) (b + fst cv) (snd cv), upd (snd vc) (b + fst cv) i).

Lemma set_successors_unfold t i succ :
  set_successors t i succ =
  let '(t1, b) := find_base (S (length (ct_value t)) + ct_alpha t) t 0 succ in
  let '(v, c) := fold_left (store_f b i) succ (ct_value t1, ct_check t1) in
  {| ct_n := ct_n t1; ct_alpha := ct_alpha t1; ct_default := ct_default t1; ct_base := upd (ct_base t1) i b;
     ct_value := v; ct_check := c |}.
Proof. reflexivity. Qed.

(* --- 6b. find_base: a conflict-free base exists at or before the end of the used prefix --- *)
Definition ct_ext (t t' : ctable) : Prop :=
  exists e, ct_value t' = ct_value t ++ repeat 0 e /\ ct_check t' = ct_check t ++ repeat (ct_n t) e /\
            ct_n t' = ct_n t /\ ct_alpha t' = ct_alpha t /\ ct_default t' = ct_default t /\
            ct_base t' = ct_base t.

Lemma ct_ext_refl t : ct_ext t t.
Proof. exists 0. simpl. rewrite !app_nil_r. repeat split. Qed.

Lemma ct_ext_trans t1 t2 t3 : ct_ext t1 t2 -> ct_ext t2 t3 -> ct_ext t1 t3.
Proof.
  intros [e1 [A1 [A2 [A3 [A4 [A5 A6]]]]]] [e2 [B1 [B2 [B3 [B4 [B5 B6]]]]]]. exists (e1 + e2).
  rewrite B1, B2, A1, A2, B3, B4, B5, B6, A3, <- !app_assoc, !repeat_app. repeat split; auto.
Qed.

Lemma nth_app_repeat (l : list nat) d e j : (length l <= j -> nth j (l ++ repeat d e) d = d).
Proof.
  intros Hj. rewrite app_nth2; auto. generalize (j - length l). induction e as [|e IH]; intros [|k]; simpl; auto.
Qed.

Lemma existsb_false_all {A} (f : A -> bool) l : existsb f l = false -> forall x, In x l -> f x = false.
Proof.
  intros H x Hx. destruct (f x) eqn:Hf; auto. assert (existsb f l = true); [|congruence].
  apply existsb_exists. exists x. auto.
Qed.

Lemma all_false_existsb {A} (f : A -> bool) l : (forall x, In x l -> f x = false) -> existsb f l = false.
Proof.
  intros H. destruct (existsb f l) eqn:He; auto. apply existsb_exists in He. destruct He as [x [Hx Hf]].
  rewrite (H x Hx) in Hf. discriminate.
Qed.

Lemma find_base_unfold f t b succ :
  find_base (S f) t b succ =
  if base_conflicts t b succ then
    find_base f (if Nat.ltb (length (ct_value t)) (S b + ct_alpha t)
                 then ct_resize t (2 * length (ct_value t)) else t) (S b) succ
  else (t, b).
Proof. reflexivity. Qed.

Lemma find_base_spec succ : forall f t b L0,
  length (ct_value t) = length (ct_check t) -> 1 <= length (ct_check t) ->
  b + ct_alpha t <= length (ct_check t) -> b <= L0 -> L0 <= length (ct_check t) ->
  (forall j, L0 <= j -> nth j (ct_check t) (ct_n t) = ct_n t) ->
  L0 < f + b ->
  exists t' b', find_base f t b succ = (t', b') /\ ct_ext t t' /\
    b' + ct_alpha t <= length (ct_check t') /\ base_conflicts t' b' succ = false /\
    length (ct_value t') = length (ct_check t').
Proof.
  induction f as [|f IH]; intros t b L0 Hvl H1 Hb HbL HL Hfree Hfuel; [lia|].
  rewrite find_base_unfold. destruct (base_conflicts t b succ) eqn:Hc.
  - assert (HbL' : b < L0).
    { destruct (Nat.eq_dec b L0) as [He|]; [|lia]. exfalso. subst b.
      assert (base_conflicts t L0 succ = false); [|congruence].
      apply all_false_existsb. intros cv _. rewrite Hfree; [|lia]. rewrite Nat.eqb_refl. reflexivity. }
    destruct (Nat.ltb (length (ct_value t)) (S b + ct_alpha t)) eqn:Hr.
    + apply Nat.ltb_lt in Hr.
      set (t1 := ct_resize t (2 * length (ct_value t))).
      assert (Hext : ct_ext t t1).
      { exists (2 * length (ct_value t) - length (ct_value t)). unfold t1, ct_resize. simpl.
        rewrite <- Hvl. repeat split. }
      assert (Hlen1 : length (ct_check t1) = 2 * length (ct_check t)).
      { unfold t1, ct_resize. cbn [ct_check]. rewrite app_length, repeat_length. lia. }
      destruct (IH t1 (S b) L0) as [t' [b' [Hf [He [Hb' [Hc' Hvl']]]]]]; try lia.
      * unfold t1, ct_resize. cbn [ct_value ct_check]. rewrite !app_length, !repeat_length. lia.
      * unfold t1 at 1, ct_resize at 1. cbn [ct_alpha]. lia.
      * intros j Hj. unfold t1, ct_resize. cbn [ct_check ct_n].
        destruct (Nat.lt_ge_cases j (length (ct_check t))) as [Hlt | Hge].
        -- rewrite app_nth1; auto.
        -- apply nth_app_repeat. exact Hge.
      * exists t', b'. split; [exact Hf|]. split; [eapply ct_ext_trans; eauto|]. auto.
    + apply Nat.ltb_ge in Hr.
      destruct (IH t (S b) L0) as [t' [b' [Hf [He [Hb' [Hc' Hvl']]]]]]; try lia; auto.
      exists t', b'. auto.
  - exists t, b. split; auto. split; [apply ct_ext_refl|]. auto.
Qed.

(* the assertion of the Rust code inside the loop (new_size >= b + alphabet_size) cannot fail *)
Lemma resize_assert_ok L b m : 1 <= L -> b + m <= L -> S b + m <= 2 * L.
Proof. lia. Qed.

(* --- 6c. store_successors --- *)
Lemma store_spec b i succ : forall v c, NoDup (map fst succ) ->
  let r := fold_left (store_f b i) succ (v, c) in
  length (fst r) = length v /\ length (snd r) = length c /\
  (forall j dv dc, (forall cv, In cv succ -> j <> b + fst cv) ->
                   nth j (fst r) dv = nth j v dv /\ nth j (snd r) dc = nth j c dc) /\
  (forall cc vv dv dc, In (cc, vv) succ -> b + cc < length v -> b + cc < length c ->
                       nth (b + cc) (fst r) dv = vv /\ nth (b + cc) (snd r) dc = i).
Proof.
  induction succ as [|[c0 v0] rest IH]; intros v c Hnd.
  - simpl. split; auto. split; auto. split; [intros; auto|intros cc vv dv dc []].
  - simpl in Hnd. inv Hnd. cbv zeta. cbn [fold_left].
    change (store_f b i (v, c) (c0, v0)) with (upd v (b + c0) v0, upd c (b + c0) i).
    destruct (IH (upd v (b + c0) v0) (upd c (b + c0) i) H2) as [Hl1 [Hl2 [Hun Hst]]]. cbv zeta in *.
    rewrite !upd_length in *. split; [exact Hl1|]. split; [exact Hl2|]. split.
    + intros j dv dc Hj. destruct (Hun j dv dc) as [E1 E2].
      { intros cv Hcv. apply Hj. right. exact Hcv. }
      rewrite E1, E2. assert (Hne : b + c0 <> j) by (intros He; apply (Hj (c0, v0)); simpl; auto).
      rewrite !nth_upd_other; auto.
    + intros cc vv dv dc [He | Hin] Hv Hc.
      * inv He. destruct (Hun (b + cc) dv dc) as [E1 E2].
        { intros cv Hcv He. apply H1. assert (fst cv = cc) by lia. subst cc. apply in_map. exact Hcv. }
        rewrite E1, E2, !nth_upd_same; auto.
      * apply Hst; auto; rewrite upd_length; auto.
Qed.

(* --- 6d. the first-fit invariant --- *)
(* R s c = Some v : the row of state s has the entry (c, v); None : alphabet index c of state s is
   left to the default.  k = number of states stored so far (states are stored in id order). *)
Record tinv (n m k : nat) (R : nat -> nat -> option nat) (t : ctable) : Prop := {
  ti_n : ct_n t = n;
  ti_m : ct_alpha t = m;
  ti_bl : length (ct_base t) = n;
  ti_vl : length (ct_value t) = length (ct_check t);
  ti_len : m <= length (ct_check t);
  ti_base : forall s, s < n -> nth s (ct_base t) 0 + m <= length (ct_check t);
  ti_cell : forall j, j < length (ct_check t) ->
     nth j (ct_check t) n = n \/
     exists s c, s < k /\ c < m /\ nth j (ct_check t) n = s /\ j = nth s (ct_base t) 0 + c /\
                 R s c = Some (nth j (ct_value t) 0);
  ti_row : forall s c v, s < k -> c < m -> R s c = Some v ->
     nth (nth s (ct_base t) 0 + c) (ct_check t) n = s /\ nth (nth s (ct_base t) 0 + c) (ct_value t) 0 = v }.

Lemma set_successors_spec n m k R t row : tinv n m k R t -> k < n -> 1 <= m ->
  (forall c v, In (c, v) row <-> c < m /\ R k c = Some v) -> NoDup (map fst row) ->
  tinv n m (S k) R (set_successors t k row) /\ ct_default (set_successors t k row) = ct_default t.
Proof.
  intros [Hn Hm Hbl Hvl Hlen Hbase Hcell Hrow] Hk Hm1 HR1 HR2.
  rewrite set_successors_unfold.
  destruct (find_base_spec row (S (length (ct_value t)) + ct_alpha t) t 0 (length (ct_check t)))
    as [t1 [b [Hf [[e [E1 [E2 [E3 [E4 [E5 E6]]]]]] [Hb [Hnc Hvl1]]]]]]; try lia.
  { intros j Hj. rewrite Hn. apply nth_overflow. exact Hj. }
  rewrite Hf. pose proof (store_spec b k row (ct_value t1) (ct_check t1) HR2) as Hst.
  destruct (fold_left (store_f b k) row (ct_value t1, ct_check t1)) as [v' c'] eqn:Hfold.
  cbv zeta in Hst. simpl fst in Hst. simpl snd in Hst. destruct Hst as [Hl1 [Hl2 [Hun Hset]]].
  assert (HL1 : length (ct_check t1) = length (ct_check t) + e).
  { rewrite E2, app_length, repeat_length. reflexivity. }
  assert (Hfree : forall cv, In cv row -> nth (b + fst cv) (ct_check t1) n = n).
  { intros cv Hcv. pose proof (existsb_false_all _ _ Hnc cv Hcv) as H. cbv beta in H.
    apply negb_false_iff, Nat.eqb_eq in H. rewrite E3, Hn in H. exact H. }
  assert (Hold : forall j, j < length (ct_check t) ->
            nth j (ct_check t1) n = nth j (ct_check t) n /\ nth j (ct_value t1) 0 = nth j (ct_value t) 0).
  { intros j Hj. rewrite E1, E2, !app_nth1; auto. lia. }
  assert (Hrowb : forall cv, In cv row -> fst cv < m).
  { intros [c v] Hcv. apply HR1 in Hcv. simpl. tauto. }
  split; [|simpl; exact E5]. constructor; cbn [ct_n ct_alpha ct_base ct_value ct_check].
  - congruence.
  - congruence.
  - rewrite upd_length. congruence.
  - congruence.
  - rewrite Hl2. lia.
  - intros s Hs. rewrite Hl2. destruct (Nat.eq_dec s k) as [He | Hne].
    + subst s. rewrite nth_upd_same; [|rewrite E6; lia]. rewrite <- Hm, <- E4. rewrite E4. exact Hb.
    + rewrite nth_upd_other; auto. rewrite E6. specialize (Hbase s Hs). lia.
  - intros j Hj. rewrite Hl2 in Hj.
    assert (Hdec : (exists cc vv, In (cc, vv) row /\ j = b + cc) \/ (forall cv, In cv row -> j <> b + fst cv)).
    { destruct (le_lt_dec b j) as [Hbj | Hbj].
      - destruct (in_dec Nat.eq_dec (j - b) (map fst row)) as [Hin | Hnin].
        + apply in_map_iff in Hin. destruct Hin as [[cc vv] [He Hin]]. simpl in He.
          left. exists cc, vv. split; auto. lia.
        + right. intros cv Hcv He. apply Hnin. apply in_map_iff. exists cv. split; auto. lia.
      - right. intros cv _. lia. }
    destruct Hdec as [[cc [vv [Hin He]]] | Hnot].
    + right. pose proof (Hrowb _ Hin) as Hcc. simpl in Hcc.
      destruct (Hset cc vv 0 n Hin) as [S1 S2]; try lia.
      exists k, cc. subst j. rewrite S1, S2. rewrite nth_upd_same; [|rewrite E6; lia].
      repeat split; auto. apply HR1. exact Hin.
    + destruct (Hun j 0 n Hnot) as [U1 U2]. rewrite U1, U2.
      destruct (Nat.lt_ge_cases j (length (ct_check t))) as [Hlt | Hge].
      * destruct (Hold j Hlt) as [O1 O2]. rewrite O1, O2.
        destruct (Hcell j Hlt) as [Hfr | [s [c [Hs [Hc [Hch [Hj' HRs]]]]]]]; [left; exact Hfr|].
        right. exists s, c. rewrite nth_upd_other; [|lia]. rewrite E6. repeat split; auto.
      * left. rewrite E2, Hn. apply nth_app_repeat. exact Hge.
  - intros s c v Hs Hc HRs. destruct (Nat.eq_dec s k) as [He | Hne].
    + subst s. rewrite nth_upd_same; [|rewrite E6; lia].
      assert (Hin : In (c, v) row) by (apply HR1; auto).
      destruct (Hset c v 0 n Hin) as [S1 S2]; lia.
    + assert (Hsk : s < k) by lia. rewrite nth_upd_other; auto. rewrite E6.
      destruct (Hrow s c v Hsk Hc HRs) as [R1 R2].
      assert (Hs' : s < n) by lia. pose proof (Hbase s Hs') as Hbs.
      set (j := nth s (ct_base t) 0 + c) in *. assert (Hj : j < length (ct_check t)) by lia.
      destruct (Hold j Hj) as [O1 O2].
      destruct (Hun j 0 n) as [U1 U2].
      { intros cv Hcv He. pose proof (Hfree cv Hcv) as Hfr. rewrite <- He, O1, R1 in Hfr. lia. }
      rewrite U1, U2, O1, O2. auto.
Qed.

Lemma tinv_setdef n m k R t s : tinv n m k R t -> tinv n m k R (cs_setdef t s).
Proof.
  intros H. unfold cs_setdef. destruct (a_default s); auto. destruct H. constructor; auto.
Qed.

Lemma fold_max_ge l : forall acc, acc <= fold_left Nat.max l acc /\
  forall i, i < length l -> nth i l 0 <= fold_left Nat.max l acc.
Proof.
  induction l as [|x t IH]; intros acc; simpl.
  - split; auto. intros i Hi. lia.
  - destruct (IH (Nat.max acc x)) as [H1 H2]. split; [lia|]. intros [|i] Hi; [lia|]. apply H2. lia.
Qed.

Lemma fold_max_bound l B : forall acc, acc <= B -> (forall x, In x l -> x <= B) -> fold_left Nat.max l acc <= B.
Proof.
  induction l as [|x t IH]; intros acc Ha Hl; simpl; auto. apply IH.
  - specialize (Hl x (or_introl eq_refl)). lia.
  - intros y Hy. apply Hl. right. exact Hy.
Qed.

Lemma nth_firstn_lt {A} (l : list A) : forall k mx d, k < mx -> nth k (firstn mx l) d = nth k l d.
Proof.
  induction l as [|x t IH]; intros k mx d Hk.
  - rewrite firstn_nil. reflexivity.
  - destruct mx as [|mx]; [lia|]. destruct k as [|k]; simpl; auto. apply IH. lia.
Qed.

(* evaluation of the finished table *)
Lemma tinv_eval n m R t : tinv n m n R t -> forall s c, s < n -> c < m ->
  nth s (ct_base t) 0 + c < length (ct_check (ct_final t)) /\
  ct_eval (ct_final t) s c = match R s c with Some v => v | None => nth s (ct_default t) 0 end.
Proof.
  intros [Hn Hm Hbl Hvl Hlen Hbase Hcell Hrow] s c Hs Hc.
  set (mx := fold_left Nat.max (ct_base t) 0 + ct_alpha t).
  set (j := nth s (ct_base t) 0 + c).
  assert (Hj : j < mx).
  { unfold j, mx. destruct (fold_max_ge (ct_base t) 0) as [_ H]. specialize (H s). rewrite Hm. lia. }
  assert (Hmx : mx <= length (ct_check t)).
  { unfold mx. rewrite Hm. assert (fold_left Nat.max (ct_base t) 0 <= length (ct_check t) - m); [|lia].
    apply fold_max_bound; [lia|]. intros x Hx. destruct (In_nth _ _ 0 Hx) as [i [Hi He]].
    rewrite Hbl in Hi. specialize (Hbase i Hi). lia. }
  split.
  - unfold ct_final. cbn [ct_check]. fold mx. rewrite firstn_length. fold j. lia.
  - unfold ct_eval, ct_final. cbn [ct_base ct_check ct_n ct_value ct_default]. fold mx. fold j.
    rewrite !nth_firstn_lt; auto. rewrite Hn.
    destruct (R s c) as [v|] eqn:HR.
    + destruct (Hrow s c v Hs Hc HR) as [R1 R2]. fold j in R1, R2. rewrite R1, Nat.eqb_refl. exact R2.
    + destruct (Nat.eqb (nth j (ct_check t) n) s) eqn:He; auto. exfalso. apply Nat.eqb_eq in He.
      assert (Hjl : j < length (ct_check t)) by lia.
      destruct (Hcell j Hjl) as [Hfr | [s' [c' [Hs' [Hc' [Hch [Hj' HRs]]]]]]]; [lia|].
      rewrite He in Hch. subst s'. assert (c' = c) by (unfold j in Hj'; lia). subst c'. congruence.
Qed.

(* --- 6e. compile_successors --- *)
(* the row of state s over the alphabet al: None where the character is left to the default *)
Definition Rfun (a : automaton) (al : list N) (s c : nat) : option nat :=
  if indef (a_state a s) (nth c al 0%N) then None else a_next a (a_state a s) (nth c al 0%N).

(* next is total on good characters and stays inside the automaton *)
Lemma a_next_total a s ch : aut_wf a -> s < num_states a -> good ch ->
  exists v, a_next a (a_state a s) ch = Some v /\ v < num_states a.
Proof.
  intros Hwf Hs Hg. destruct (aut_wf_state a s Hwf Hs) as [_ [Hp [Hl [Ht Hd]]]].
  pose proof (pwf_sorted _ Hp) as Hso. unfold a_next.
  destruct (pclass_of_char_res _ ch Hso) as [c [Hc Hr]]. rewrite Hc. destruct c as [h|].
  - destruct Hr as [iv [Hiv _]]. apply nth_error_lt_len in Hiv. unfold plen in Hl. rewrite <- Hl in Hiv.
    destruct (nth_error_in_range _ _ Hiv) as [v Hv]. exists v. split; auto. apply Ht. eapply nth_error_In; eauto.
  - destruct (a_default (a_state a s)) as [d|]; [exists d; auto|]. exfalso. apply Hr.
    apply (pempty_complement_iff _ Hp); auto.
Qed.

Lemma in_combine_seq {A} (l : list A) d : forall b i x,
  In (i, x) (combine (seq b (length l)) l) <-> exists k, i = b + k /\ k < length l /\ nth k l d = x.
Proof.
  induction l as [|y t IH]; intros b i x; simpl.
  - split; [intros []|intros [k [_ [Hk _]]]; lia].
  - rewrite IH. split.
    + intros [He | [k [Hi [Hk Hn]]]].
      * inv He. exists 0. repeat split; auto; lia.
      * exists (S k). repeat split; auto; lia.
    + intros [[|k] [Hi [Hk Hn]]].
      * left. subst. f_equal. lia.
      * right. exists k. repeat split; auto; lia.
Qed.

Lemma map_fst_combine {A B} (l1 : list A) : forall (l2 : list B), length l1 = length l2 ->
  map fst (combine l1 l2) = l1.
Proof.
  induction l1 as [|x t IH]; intros [|y u] Hl; simpl in *; auto; try discriminate. f_equal. apply IH. lia.
Qed.

Lemma NoDup_map_filter {A B} (f : A -> B) (p : A -> bool) l : NoDup (map f l) -> NoDup (map f (filter p l)).
Proof.
  induction l as [|x t IH]; simpl; intros H; auto. inv H. destruct (p x); simpl; auto.
  constructor; auto. intros Hin. apply H2. apply in_map_iff in Hin. destruct Hin as [y [He Hy]].
  apply filter_In in Hy. apply in_map_iff. exists y. tauto.
Qed.

Lemma row_spec a al s : aut_wf a -> s < num_states a -> Forall good al ->
  let st := a_state a s in
  forallb (fun x : nat * option nat => match snd x with Some _ => true | None => false end) (cs_succ a al st) = true /\
  (forall c v, In (c, v) (cs_row a al st) <-> c < length al /\ Rfun a al s c = Some v) /\
  NoDup (map fst (cs_row a al st)).
Proof.
  intros Hwf Hs Hal st. rewrite Forall_forall in Hal.
  assert (Htot : forall c, c < length al -> exists v, a_next a st (nth c al 0%N) = Some v).
  { intros c Hc. destruct (a_next_total a s (nth c al 0%N) Hwf Hs) as [v [Hv _]]; [|eauto].
    apply Hal. apply nth_In. exact Hc. }
  split; [|split].
  - apply forallb_forall. intros [c o] Hin. unfold cs_succ in Hin. apply in_map_iff in Hin.
    destruct Hin as [[i ch] [He Hin]]. simpl in He. inv He. unfold cs_cand in Hin. apply filter_In in Hin.
    destruct Hin as [Hin _]. apply (in_combine_seq al 0%N) in Hin. destruct Hin as [k [Hi [Hk Hn]]].
    simpl in Hi. subst. destruct (Htot k Hk) as [v Hv]. simpl. rewrite Hv. reflexivity.
  - intros c v. unfold cs_row, cs_succ. rewrite map_map. cbn [fst snd]. rewrite in_map_iff. split.
    + intros [[i ch] [He Hin]]. cbn [fst snd] in He. unfold cs_cand in Hin. apply filter_In in Hin.
      destruct Hin as [Hin Hp]. cbn [snd] in Hp. apply negb_true_iff in Hp.
      apply (in_combine_seq al 0%N) in Hin. destruct Hin as [k [Hi [Hk Hn]]]. simpl in Hi. subst i ch.
      inv He. split; auto. unfold Rfun. fold st. rewrite Hp.
      destruct (Htot c Hk) as [v Hv]. rewrite Hv. reflexivity.
    + intros [Hc HR]. unfold Rfun in HR. fold st in HR.
      destruct (indef st (nth c al 0%N)) eqn:Hp; [discriminate|].
      exists (c, nth c al 0%N). cbn [fst snd]. rewrite HR. split; auto.
      unfold cs_cand. apply filter_In. split.
      * apply (in_combine_seq al 0%N). exists c. repeat split; auto.
      * cbn [snd]. rewrite Hp. reflexivity.
  - unfold cs_row, cs_succ. rewrite !map_map. cbn [fst]. unfold cs_cand.
    apply (NoDup_map_filter (fun x : nat * N => fst x)). rewrite map_fst_combine; [apply seq_NoDup|apply seq_length].
Qed.

Definition dinv (a : automaton) (k : nat) (t : ctable) : Prop :=
  length (ct_default t) = num_states a /\
  forall s d, s < k -> a_default (a_state a s) = Some d -> nth s (ct_default t) 0 = d.

Lemma nth_repeat_same {A} (x : A) n : forall i, nth i (repeat x n) x = x.
Proof. induction n as [|n IH]; intros [|i]; simpl; auto. Qed.

Lemma tinv_init n m R : tinv n m 0 R (cs_t0 n m).
Proof.
  constructor; simpl; rewrite ?repeat_length; auto.
  - intros s Hs. rewrite nth_repeat_same. lia.
  - intros j Hj. left. apply nth_repeat_same.
  - intros s c v Hs. lia.
Qed.

Lemma compile_fold a al : aut_wf a -> Forall good al -> 1 <= length al ->
  forall post pre t, astates a = pre ++ post ->
  tinv (num_states a) (length al) (length pre) (Rfun a al) t -> dinv a (length pre) t ->
  exists t', fold_left (cs_step a al) post (Some t) = Some t' /\
             tinv (num_states a) (length al) (num_states a) (Rfun a al) t' /\ dinv a (num_states a) t'.
Proof.
  intros Hwf Hal Hm. induction post as [|s post IH]; intros pre t Hsplit Hti Hdi.
  - exists t. rewrite app_nil_r in Hsplit. destruct Hwf as [Hl _].
    assert (Hlen : length pre = num_states a) by (rewrite <- Hl, Hsplit; reflexivity).
    rewrite Hlen in Hti, Hdi. auto.
  - set (k := length pre) in *.
    assert (Hnth : nth_error (astates a) k = Some s).
    { rewrite Hsplit, nth_error_app2; [|unfold k; lia]. unfold k. rewrite Nat.sub_diag. reflexivity. }
    assert (Hk : k < num_states a).
    { destruct Hwf as [Hl _]. rewrite <- Hl. eapply nth_error_lt_len; eauto. }
    assert (Hst : s = a_state a k).
    { unfold a_state. rewrite (nth_error_nth _ _ dstate Hnth). reflexivity. }
    destruct (aut_wf_state a k Hwf Hk) as [Hid [_ [_ [_ Hdw]]]]. rewrite <- Hst in Hid, Hdw.
    destruct (row_spec a al k Hwf Hk Hal) as [Hall [HR1 HR2]]. cbv zeta in Hall, HR1, HR2.
    rewrite <- Hst in Hall, HR1, HR2.
    simpl. rewrite Hall, Hid.
    destruct (set_successors_spec _ _ k (Rfun a al) (cs_setdef t s) (cs_row a al s)
                (tinv_setdef _ _ _ _ t s Hti) Hk Hm HR1 HR2) as [Hti' Hdef'].
    apply (IH (pre ++ [s])).
    + rewrite <- app_assoc. exact Hsplit.
    + rewrite app_length. simpl. rewrite Nat.add_1_r. exact Hti'.
    + rewrite app_length. simpl. rewrite Nat.add_1_r. fold k. unfold dinv. rewrite Hdef'.
      destruct Hdi as [Hdl Hdv]. unfold cs_setdef. rewrite Hid.
      destruct (a_default s) as [d|] eqn:Hd; cbn [ct_default].
      * rewrite upd_length. split; auto. intros s' d' Hs' Hd'.
        destruct (Nat.eq_dec s' k) as [He | Hne].
        -- subst s'. rewrite <- Hst, Hd in Hd'. inv Hd'. apply nth_upd_same. lia.
        -- rewrite nth_upd_other; auto. apply Hdv; auto. lia.
      * split; auto. intros s' d' Hs' Hd'. destruct (Nat.eq_dec s' k) as [He | Hne].
        -- subst s'. rewrite <- Hst, Hd in Hd'. discriminate.
        -- apply Hdv; auto. lia.
Qed.

(* compile_successors never panics on a well-formed automaton, and the table evaluated at
   (state id, alphabet index) is the id of next(state, that character) *)
Theorem compact_eval a : merge_spec -> aut_wf a ->
  exists T, compile_successors a = Some T /\
    forall s i, s < num_states a -> i < length (pick_alphabet a) ->
      a_next a (a_state a s) (nth i (pick_alphabet a) 0%N) = Some (ct_eval T s i) /\
      ct_eval T s i < num_states a /\ a_id (a_state a (ct_eval T s i)) = ct_eval T s i.
Proof.
  intros Hmg Hwf. destruct (pick_alphabet_reps a Hmg Hwf) as [_ [Hal _]]. cbv zeta in Hal.
  pose proof (pick_alphabet_nonempty a Hmg Hwf) as Hm.
  set (al := pick_alphabet a) in *. set (n := num_states a).
  destruct (compile_fold a al Hwf Hal Hm (astates a) [] (cs_t0 n (length al)) eq_refl
              (tinv_init _ _ _)) as [t [Hfold [Hti Hdi]]].
  { split; [apply repeat_length|]. intros s d Hs. simpl in Hs. lia. }
  rewrite compile_successors_unfold. fold al. fold n. rewrite Hfold.
  rewrite <- (ti_m _ _ _ _ _ Hti). fold (ct_final t). exists (ct_final t). split; auto.
  intros s i Hs Hi. rewrite (ti_m _ _ _ _ _ Hti) in Hi.
  destruct (tinv_eval _ _ _ _ Hti s i Hs Hi) as [_ He]. rewrite He.
  unfold Rfun. destruct (a_next_total a s (nth i al 0%N) Hwf Hs) as [v [Hv Hvn]].
  { rewrite Forall_forall in Hal. apply Hal, nth_In. exact Hi. }
  assert (Hgoal : a_next a (a_state a s) (nth i al 0%N) =
                  Some (if indef (a_state a s) (nth i al 0%N) then nth s (ct_default t) 0 else v)).
  { destruct (indef (a_state a s) (nth i al 0%N)) eqn:Hin; auto.
    unfold indef in Hin. apply andb_true_iff in Hin. destruct Hin as [H1 H2].
    destruct (a_default (a_state a s)) as [d|] eqn:Hd; [|discriminate].
    rewrite (proj2 Hdi s d Hs Hd). unfold a_next.
    destruct (pclass_of_char (a_classes (a_state a s)) (nth i al 0%N)) as [[h|]|]; try discriminate. exact Hd. }
  assert (Hval : (match (if indef (a_state a s) (nth i al 0%N) then None
                         else a_next a (a_state a s) (nth i al 0%N)) with
                  | Some v0 => v0 | None => nth s (ct_default t) 0 end) =
                 (if indef (a_state a s) (nth i al 0%N) then nth s (ct_default t) 0 else v)).
  { destruct (indef (a_state a s) (nth i al 0%N)); auto. rewrite Hv. reflexivity. }
  rewrite Hval.
  assert (Hw : (if indef (a_state a s) (nth i al 0%N) then nth s (ct_default t) 0 else v) = v) by congruence.
  rewrite Hw. split; [exact Hv|]. split; [exact Hvn|].
  destruct (aut_wf_state a v Hwf Hvn) as [Hid _]. exact Hid.
Qed.

Corollary compile_successors_total a : merge_spec -> aut_wf a -> compile_successors a <> None.
Proof. intros Hm Hwf. destruct (compact_eval a Hm Hwf) as [T [H _]]. congruence. Qed.

(* --- 6f. the strict reading of the table code: every vector access checked (nth_error / upd_s),
   running out of fuel, the assertions of CompactTableBuilder::new and of the resize step, and
   states[i] in Automaton::next all yield None (= panic).  Under aut_wf the strict functions agree
   with the model of Automaton.v, so none of the model's defaults ([nth _ _ d], [upd] out of range,
   find_base out of fuel) is ever reached. --- *)
Fixpoint upd_s {A} (l : list A) (i : nat) (x : A) : option (list A) :=
  match l, i with
  | [], _ => None
  | _ :: t, O => Some (x :: t)
  | y :: t, S k => option_map (cons y) (upd_s t k x)
  end.
Fixpoint base_conflicts_s (t : ctable) (b : nat) (succ : list (nat * nat)) : option bool :=
  match succ with
  | [] => Some false
  | cv :: r => match nth_error (ct_check t) (b + fst cv) with
               | None => None
               | Some x => if negb (Nat.eqb x (ct_n t)) then Some true else base_conflicts_s t b r
               end
  end.
Fixpoint find_base_s (fuel : nat) (t : ctable) (b : nat) (succ : list (nat * nat)) : option (ctable * nat) :=
  match fuel with
  | O => None
  | S f =>
    match base_conflicts_s t b succ with
    | None => None
    | Some false => Some (t, b)
    | Some true =>
      if Nat.ltb (length (ct_value t)) (S b + ct_alpha t) then
        if Nat.leb (S b + ct_alpha t) (2 * length (ct_value t))            (* assert!(new_size >= ...) *)
        then find_base_s f (ct_resize t (2 * length (ct_value t))) (S b) succ else None
      else find_base_s f t (S b) succ
    end
  end.
Definition store_s (b i : nat) (ovc : option (list nat * list nat)) (cv : nat * nat) :=
  match ovc with
  | None => None
  | Some (v, c) => match upd_s c (b + fst cv) i, upd_s v (b + fst cv) (snd cv) with
                   | Some c', Some v' => Some (v', c')
                   | _, _ => None
                   end
  end.
Definition set_successors_s (t : ctable) (i : nat) (succ : list (nat * nat)) : option ctable :=
  match find_base_s (S (length (ct_value t)) + ct_alpha t) t 0 succ with
  | None => None
  | Some (t1, b) =>
    match upd_s (ct_base t1) i b, fold_left (store_s b i) succ (Some (ct_value t1, ct_check t1)) with
    | Some base', Some (v, c) =>
        Some {| ct_n := ct_n t1; ct_alpha := ct_alpha t1; ct_default := ct_default t1; ct_base := base';
                ct_value := v; ct_check := c |}
    | _, _ => None
    end
  end.
(* self.next(s, c).id *)
Definition a_next_id_s (a : automaton) (s : astate) (c : N) : option nat :=
  match a_next a s c with
  | Some v => option_map a_id (nth_error (astates a) v)
  | None => None
  end.
Definition cs_setdef_s (t : ctable) (s : astate) : option ctable :=
  match a_default s with
  | Some d => match upd_s (ct_default t) (a_id s) d with
              | Some df => Some {| ct_n := ct_n t; ct_alpha := ct_alpha t; ct_default := df;
                                   ct_base := ct_base t; ct_value := ct_value t; ct_check := ct_check t |}
              | None => None
              end
  | None => Some t
  end.
Definition cs_step_s (a : automaton) (alphabet : list N) (ot : option ctable) (s : astate) : option ctable :=
  match ot with
  | None => None
  | Some t =>
    match cs_setdef_s t s with
    | None => None
    | Some t1 =>
      let succ := map (fun ic => (fst ic, a_next_id_s a s (snd ic))) (cs_cand alphabet s) in
      if forallb (fun x : nat * option nat => match snd x with Some _ => true | None => false end) succ
      then set_successors_s t1 (a_id s) (map (fun x => (fst x, match snd x with Some v => v | None => 0 end)) succ)
      else None
    end
  end.
Definition compile_successors_s (a : automaton) : option ctable :=
  let alphabet := pick_alphabet a in
  let n := num_states a in let m := length alphabet in
  if Nat.ltb 0 n && Nat.ltb 0 m then                                     (* assert in new *)
    match fold_left (cs_step_s a alphabet) (astates a) (Some (cs_t0 n m)) with
    | None => None
    | Some t => match ct_base t with [] => None | _ => Some (ct_final t) end   (* max().unwrap() *)
    end
  else None.
Definition ct_eval_s (t : ctable) (s c : nat) : option nat :=
  match nth_error (ct_base t) s with
  | None => None
  | Some b => match nth_error (ct_check t) (b + c) with
              | None => None
              | Some x => if Nat.eqb x s then nth_error (ct_value t) (b + c) else nth_error (ct_default t) s
              end
  end.

Lemma upd_s_some {A} (l : list A) : forall i x, i < length l -> upd_s l i x = Some (upd l i x).
Proof.
  induction l as [|y t IH]; intros [|i] x Hi; simpl in *; try lia; auto. rewrite IH; [reflexivity|lia].
Qed.

Lemma base_conflicts_s_eq t b succ : (forall cv, In cv succ -> b + fst cv < length (ct_check t)) ->
  base_conflicts_s t b succ = Some (base_conflicts t b succ).
Proof.
  unfold base_conflicts. induction succ as [|cv r IH]; intros H; simpl; auto.
  rewrite (nth_error_nth_lt _ _ (ct_n t) (H cv (or_introl eq_refl))).
  destruct (negb (Nat.eqb (nth (b + fst cv) (ct_check t) (ct_n t)) (ct_n t))); simpl; auto.
  apply IH. intros cv' Hin. apply H. right. exact Hin.
Qed.

Lemma find_base_s_eq succ : forall f t b L0,
  length (ct_value t) = length (ct_check t) -> 1 <= length (ct_check t) ->
  b + ct_alpha t <= length (ct_check t) -> b <= L0 -> L0 <= length (ct_check t) ->
  (forall j, L0 <= j -> nth j (ct_check t) (ct_n t) = ct_n t) ->
  (forall cv, In cv succ -> fst cv < ct_alpha t) ->
  L0 < f + b ->
  find_base_s f t b succ = Some (find_base f t b succ).
Proof.
  induction f as [|f IH]; intros t b L0 Hvl H1 Hb HbL HL Hfree Hsucc Hfuel; [lia|].
  rewrite find_base_unfold. cbn [find_base_s]. rewrite base_conflicts_s_eq.
  2:{ intros cv Hcv. specialize (Hsucc cv Hcv). lia. }
  destruct (base_conflicts t b succ) eqn:Hc; auto.
  assert (HbL' : b < L0).
  { destruct (Nat.eq_dec b L0) as [He|]; [|lia]. exfalso. subst b.
    assert (base_conflicts t L0 succ = false); [|congruence].
    apply all_false_existsb. intros cv _. rewrite Hfree; [|lia]. rewrite Nat.eqb_refl. reflexivity. }
  destruct (Nat.ltb (length (ct_value t)) (S b + ct_alpha t)) eqn:Hr.
  - apply Nat.ltb_lt in Hr.
    assert (Hle : Nat.leb (S b + ct_alpha t) (2 * length (ct_value t)) = true) by (apply Nat.leb_le; lia).
    rewrite Hle. apply (IH _ _ L0); auto; try lia;
      unfold ct_resize; cbn [ct_value ct_check ct_alpha ct_n]; rewrite ?app_length, ?repeat_length; try lia.
    intros j Hj. destruct (Nat.lt_ge_cases j (length (ct_check t))) as [Hlt | Hge].
    + rewrite app_nth1; auto.
    + apply nth_app_repeat. exact Hge.
  - apply Nat.ltb_ge in Hr. apply (IH _ _ L0); auto; lia.
Qed.

Lemma store_s_eq b i succ : forall v c,
  (forall cv, In cv succ -> b + fst cv < length v /\ b + fst cv < length c) ->
  fold_left (store_s b i) succ (Some (v, c)) = Some (fold_left (store_f b i) succ (v, c)).
Proof.
  induction succ as [|cv r IH]; intros v c H; simpl; auto.
  destruct (H cv (or_introl eq_refl)) as [Hv Hc]. rewrite (upd_s_some c _ i Hc), (upd_s_some v _ (snd cv) Hv).
  unfold store_f at 2. simpl fst. simpl snd. apply IH. intros cv' Hin. rewrite !upd_length. apply H. right. exact Hin.
Qed.

Lemma set_successors_s_eq n m k R t row : tinv n m k R t -> k < n -> 1 <= m ->
  (forall cv, In cv row -> fst cv < m) ->
  set_successors_s t k row = Some (set_successors t k row).
Proof.
  intros [Hn Hm Hbl Hvl Hlen Hbase Hcell Hrow] Hk Hm1 Hrowb.
  unfold set_successors_s. rewrite set_successors_unfold.
  rewrite (find_base_s_eq row _ t 0 (length (ct_check t))); try lia.
  2:{ intros j Hj. rewrite Hn. apply nth_overflow. exact Hj. }
  2:{ intros cv Hcv. rewrite Hm. apply Hrowb. exact Hcv. }
  destruct (find_base_spec row (S (length (ct_value t)) + ct_alpha t) t 0 (length (ct_check t)))
    as [t1 [b [Hf [[e [E1 [E2 [E3 [E4 [E5 E6]]]]]] [Hb [Hnc Hvl1]]]]]]; try lia.
  { intros j Hj. rewrite Hn. apply nth_overflow. exact Hj. }
  rewrite Hf. rewrite upd_s_some; [|rewrite E6; lia].
  rewrite store_s_eq.
  2:{ intros cv Hcv. specialize (Hrowb cv Hcv). rewrite Hvl1. lia. }
  destruct (fold_left (store_f b k) row (ct_value t1, ct_check t1)) as [v' c']. reflexivity.
Qed.

Lemma cs_succ_s_eq a al s st : aut_wf a -> s < num_states a -> Forall good al -> st = a_state a s ->
  map (fun ic : nat * N => (fst ic, a_next_id_s a st (snd ic))) (cs_cand al st) = cs_succ a al st.
Proof.
  intros Hwf Hs Hal Hst. subst st. unfold cs_succ. apply map_ext_in. intros [i ch] Hin. cbn [fst snd]. f_equal.
  unfold cs_cand in Hin. apply filter_In in Hin. destruct Hin as [Hin _].
  apply (in_combine_seq al 0%N) in Hin. destruct Hin as [k [_ [Hk Hn]]].
  assert (Hg : good ch) by (rewrite Forall_forall in Hal; apply Hal; rewrite <- Hn; apply nth_In; exact Hk).
  destruct (a_next_total a s ch Hwf Hs Hg) as [v [Hv Hvn]]. unfold a_next_id_s. rewrite Hv.
  pose proof Hwf as [Hl _]. rewrite a_state_nth; [|lia]. simpl.
  destruct (aut_wf_state a v Hwf Hvn) as [Hid _]. rewrite Hid. reflexivity.
Qed.

Lemma compile_fold_s a al : aut_wf a -> Forall good al -> 1 <= length al ->
  forall post pre t, astates a = pre ++ post ->
  tinv (num_states a) (length al) (length pre) (Rfun a al) t -> dinv a (length pre) t ->
  fold_left (cs_step_s a al) post (Some t) = fold_left (cs_step a al) post (Some t).
Proof.
  intros Hwf Hal Hm. induction post as [|s post IH]; intros pre t Hsplit Hti Hdi; auto.
  set (k := length pre) in *.
  assert (Hnth : nth_error (astates a) k = Some s).
  { rewrite Hsplit, nth_error_app2; [|unfold k; lia]. unfold k. rewrite Nat.sub_diag. reflexivity. }
  assert (Hk : k < num_states a).
  { destruct Hwf as [Hl _]. rewrite <- Hl. eapply nth_error_lt_len; eauto. }
  assert (Hst : s = a_state a k).
  { unfold a_state. rewrite (nth_error_nth _ _ dstate Hnth). reflexivity. }
  destruct (aut_wf_state a k Hwf Hk) as [Hid _]. rewrite <- Hst in Hid.
  destruct (row_spec a al k Hwf Hk Hal) as [Hall [HR1 HR2]]. cbv zeta in Hall, HR1, HR2.
  rewrite <- Hst in Hall, HR1, HR2.
  assert (Hsd : cs_setdef_s t s = Some (cs_setdef t s)).
  { unfold cs_setdef_s, cs_setdef. destruct (a_default s); auto. rewrite upd_s_some; auto.
    rewrite Hid, (proj1 Hdi). exact Hk. }
  pose proof (tinv_setdef _ _ _ _ t s Hti) as Hti1.
  assert (Hstep : cs_step_s a al (Some t) s = cs_step a al (Some t) s).
  { unfold cs_step_s, cs_step. rewrite Hsd. cbv zeta.
    rewrite (cs_succ_s_eq a al k s Hwf Hk Hal Hst). rewrite Hall. fold (cs_row a al s).
    rewrite Hid. apply (set_successors_s_eq (num_states a) (length al) k (Rfun a al)); auto.
    intros [c v] Hcv. apply HR1 in Hcv. simpl. tauto. }
  assert (Hstep2 : cs_step a al (Some t) s = Some (set_successors (cs_setdef t s) k (cs_row a al s))).
  { unfold cs_step. rewrite Hall, Hid. reflexivity. }
  cbn [fold_left]. rewrite Hstep, Hstep2.
  destruct (set_successors_spec _ _ k (Rfun a al) (cs_setdef t s) (cs_row a al s) Hti1 Hk Hm HR1 HR2)
    as [Hti' Hdef'].
  apply (IH (pre ++ [s])).
  - rewrite <- app_assoc. exact Hsplit.
  - rewrite app_length. simpl. rewrite Nat.add_1_r. exact Hti'.
  - rewrite app_length. simpl. rewrite Nat.add_1_r. fold k. unfold dinv. rewrite Hdef'.
    destruct Hdi as [Hdl Hdv]. unfold cs_setdef. rewrite Hid.
    destruct (a_default s) as [d|] eqn:Hd; cbn [ct_default].
    + rewrite upd_length. split; auto. intros s' d' Hs' Hd'.
      destruct (Nat.eq_dec s' k) as [He | Hne].
      * subst s'. rewrite <- Hst, Hd in Hd'. inv Hd'. apply nth_upd_same. lia.
      * rewrite nth_upd_other; auto. apply Hdv; auto. lia.
    + split; auto. intros s' d' Hs' Hd'. destruct (Nat.eq_dec s' k) as [He | Hne].
      * subst s'. rewrite <- Hst, Hd in Hd'. discriminate.
      * apply Hdv; auto. lia.
Qed.

(* no bounds check, fuel limit or assertion of the table code fires on a well-formed automaton *)
Theorem compile_successors_strict a : merge_spec -> aut_wf a ->
  compile_successors_s a = compile_successors a /\
  forall T, compile_successors a = Some T -> forall s i, s < num_states a -> i < length (pick_alphabet a) ->
    ct_eval_s T s i = Some (ct_eval T s i).
Proof.
  intros Hmg Hwf. destruct (pick_alphabet_reps a Hmg Hwf) as [_ [Hal _]]. cbv zeta in Hal.
  pose proof (pick_alphabet_nonempty a Hmg Hwf) as Hm.
  set (al := pick_alphabet a) in *. set (n := num_states a).
  assert (Hd0 : dinv a 0 (cs_t0 n (length al))).
  { split; [apply repeat_length|]. intros s d Hs. lia. }
  destruct (compile_fold a al Hwf Hal Hm (astates a) [] (cs_t0 n (length al)) eq_refl
              (tinv_init _ _ _) Hd0) as [t [Hfold [Hti Hdi]]].
  pose proof (compile_fold_s a al Hwf Hal Hm (astates a) [] (cs_t0 n (length al)) eq_refl
              (tinv_init _ _ _) Hd0) as Hfs.
  assert (Hn : 0 < n) by (destruct Hwf as [_ [Hi _]]; unfold n; lia).
  assert (Hcs : compile_successors a = Some (ct_final t)).
  { rewrite compile_successors_unfold. fold al. fold n. rewrite Hfold.
    rewrite <- (ti_m _ _ _ _ _ Hti). reflexivity. }
  split.
  - rewrite Hcs. unfold compile_successors_s. fold al. fold n. cbv zeta.
    replace (Nat.ltb 0 n) with true by (symmetry; apply Nat.ltb_lt; exact Hn).
    replace (Nat.ltb 0 (length al)) with true by (symmetry; apply Nat.ltb_lt; lia).
    cbn [andb]. rewrite Hfs, Hfold.
    pose proof (ti_bl _ _ _ _ _ Hti) as Hbl. destruct (ct_base t); [simpl in Hbl; fold n in Hbl; lia|reflexivity].
  - intros T HT s i Hs Hi. rewrite Hcs in HT. inv HT. fold al in Hi.
    destruct (tinv_eval _ _ _ _ Hti s i Hs Hi) as [Hj _].
    unfold ct_eval_s, ct_eval. cbn [ct_final ct_base ct_default ct_n].
    rewrite (nth_error_nth_lt _ _ 0); [|rewrite (ti_bl _ _ _ _ _ Hti); exact Hs].
    rewrite (nth_error_nth_lt _ _ (ct_n t) Hj).
    destruct (Nat.eqb _ s).
    + apply nth_error_nth_lt. unfold ct_final in Hj |- *. cbn [ct_check ct_value] in Hj |- *.
      rewrite firstn_length in Hj |- *. rewrite (ti_vl _ _ _ _ _ Hti). exact Hj.
    + apply nth_error_nth_lt. rewrite (proj1 Hdi). exact Hs.
Qed.

(* ------------------------------------------------------------------ 7. edges, final states, counts *)

(* edges lists the successor of interval class 0, 1, ... and then the default successor; the entry
   at the position of a class is next(s, c) for every character c of that class *)
Theorem edges_spec a n i s : state_wf n i s ->
  edges s = a_succ s ++ (match a_default s with Some d => [d] | None => [] end) /\
  length (edges s) = plen (a_classes s) + (match a_default s with Some _ => 1 | None => 0 end) /\
  (forall c cid, pclass_of_char (a_classes s) c = Some cid ->
     a_next a s c = nth_error (edges s) (match cid with CInt j => j | CComp => plen (a_classes s) end)) /\
  (forall c, good c -> exists cid, pclass_of_char (a_classes s) c = Some cid /\ in_class (a_classes s) c cid).
Proof.
  intros [_ [Hp [Hl _]]]. pose proof (pwf_sorted _ Hp) as Hs. split; [reflexivity|]. split; [|split].
  - unfold edges. rewrite app_length, Hl. destruct (a_default s); reflexivity.
  - intros c cid Hc. unfold a_next, edges. rewrite Hc. destruct cid as [j|].
    + destruct (pclass_of_char_res _ c Hs) as [c' [Hc' Hr]]. rewrite Hc in Hc'. inv Hc'.
      destruct Hr as [iv [Hiv _]]. apply nth_error_lt_len in Hiv. unfold plen in Hl.
      rewrite nth_error_app1; auto. lia.
    + rewrite nth_error_app2; [|lia]. rewrite Hl, Nat.sub_diag. destruct (a_default s); reflexivity.
  - intros c Hg. destruct (pclass_of_char_res _ c Hs) as [cid [Hc Hr]]. exists cid. split; auto.
    apply class_res_in_class; auto.
Qed.

Lemma filter_map_length {A B} (f : A -> B) (p : B -> bool) l :
  length (filter p (map f l)) = length (filter (fun x => p (f x)) l).
Proof. induction l as [|x t IH]; simpl; auto. destruct (p (f x)); simpl; auto. Qed.

Lemma map_nth_seq0 {A} (l : list A) d : map (fun i => nth i l d) (seq 0 (length l)) = l.
Proof.
  induction l as [|x t IH]; simpl; auto. f_equal. rewrite <- seq_shift, map_map. simpl. exact IH.
Qed.

(* num_states / num_final_states count the states / the final flags, before and after pruning *)
Theorem counts_spec a : aut_wf a ->
  num_states a = length (astates a) /\
  num_final a = length (filter (fun s => a_final (a_state a s)) (seq 0 (num_states a))) /\
  num_final (remove_unreachable a) = length (filter (fun s => a_final (a_state a s)) (reachable a)) /\
  (forall k, k < length (reachable a) ->
     a_final (a_state (remove_unreachable a) k) = a_final (a_state a (nth k (reachable a) 0))).
Proof.
  intros Hwf. pose proof Hwf as [Hl [_ [Hf _]]]. split; [auto|]. split; [|split].
  - rewrite <- Hf, <- Hl. unfold a_state. generalize (astates a). intros l.
    rewrite <- (map_nth_seq0 l dstate) at 1. apply filter_map_length.
  - rewrite remove_unreachable_unfold. unfold remap_nodes. cbn [num_final].
    rewrite filter_map_length. reflexivity.
  - intros k Hk. rewrite remove_unreachable_unfold, remap_state_at; auto.
Qed.

(* ------------------------------------------------------------------ 8. a dead default edge *)
(* build_unchecked accepts a default successor on a state whose intervals already cover every
   character (build rejects it: EmptyComplementaryClass).  edges() lists that default, so the BFS of
   remove_unreachable_states keeps its target although no string reaches it.  Harmless for the
   language (remove_unreachable_lang), but "reachable" in C14 means "along edges". *)
Definition dd_builder : builder :=
  b_mark_final (b_add_transition (b_set_default (b_add_transition (b_new 0%N) 0%N (0%N, MAXC) 0%N) 0%N 1%N)
                                 1%N (0%N, MAXC) 1%N) 1%N.
Definition dd_aut : automaton :=
  {| num_states := 2; num_final := 1; initial := 0;
     astates := [ {| a_id := 0; a_final := false; a_classes := {| ivs := [(0%N, MAXC)]; wit := (MAXC + 1)%N |};
                     a_succ := [0]; a_default := Some 1 |};
                  {| a_id := 1; a_final := true; a_classes := pnew; a_succ := []; a_default := Some 1 |} ] |}.

Lemma dd_build : build_unchecked dd_builder = Some dd_aut /\ build dd_builder = Some (BErr EmptyComplementaryClass).
Proof. split; vm_compute; reflexivity. Qed.

Lemma dd_stays w : goodw w -> a_str_next dd_aut 0 w = Some 0.
Proof.
  induction 1 as [|c w Hc _ IH]; [reflexivity|].
  cbn [a_str_next]. replace (a_next dd_aut (a_state dd_aut 0) c) with (Some 0); [exact IH|].
  symmetry. unfold a_next, a_state, dd_aut. cbn [astates nth a_classes a_succ].
  rewrite (pclass_of_char_complete _ c (CInt 0)); [reflexivity| |].
  - cbn [ivs ivs_sorted]. unfold cs_valid. cbn [fst snd]. repeat split; unfold MAXC; lia.
  - exists (0%N, MAXC). split; [reflexivity|]. unfold mem. cbn [fst snd]. unfold good in Hc. lia.
Qed.

Theorem dead_default_keeps_unreached_state :
  aut_wf dd_aut /\ In 1 (reachable dd_aut) /\ ~ creach dd_aut 1 /\
  num_states (remove_unreachable dd_aut) = 2 /\ ~ no_dead_default dd_aut.
Proof.
  split; [apply aut_wfb_iff; vm_compute; reflexivity|]. split; [vm_compute; auto|]. split; [|split].
  - intros [w [Hg Hw]]. change (initial dd_aut) with 0 in Hw. rewrite (dd_stays w Hg) in Hw. discriminate.
  - vm_compute. reflexivity.
  - intros H. specialize (H 0 _ 1 eq_refl eq_refl). vm_compute in H. discriminate.
Qed.

(* Discharging [merge_spec] once MergeProofs.v (C12) is part of the tree -- checked against its
   lemmas merge_wf and merge_refines:
     Require Import MergeProofs.
     Lemma merge_spec_holds : merge_spec.
     Proof. intros p1 p2 W1 W2. split; [apply merge_wf; auto|intros x y; apply merge_refines; auto]. Qed.
   after which combined_uniform, pick_alphabet_reps, compact_eval and compile_successors_strict
   apply with [merge_spec_holds] for their first premise. *)

Lemma nth_error_ext_len {A} (l l' : list A) : length l = length l' ->
  (forall k, nth_error l k = nth_error l' k) -> l = l'.
Proof.
  revert l'. induction l as [|x t IH]; intros [|y t'] Hl H; simpl in Hl; try discriminate; auto.
  pose proof (H 0) as H0. simpl in H0. inv H0. f_equal. apply IH; [lia|].
  intros k. apply (H (S k)).
Qed.

Lemma filter_map_comm {A B} (f : A -> B) (p : B -> bool) l :
  filter p (map f l) = map f (filter (fun x => p (f x)) l).
Proof. induction l as [|x t IH]; simpl; auto. destruct (p (f x)); simpl; rewrite IH; reflexivity. Qed.

Lemma Forall2_weaken {A B} (P Q : A -> B -> Prop) l l' :
  (forall x y, P x y -> Q x y) -> Forall2 P l l' -> Forall2 Q l l'.
Proof. intros H F. induction F; constructor; auto. Qed.

(* ------------------------------------------------------------------ 9. accessors of Automaton / State *)

Lemma wf_state_at a i s : aut_wf a -> nth_error (astates a) i = Some s ->
  state_wf (num_states a) i s /\ i < num_states a /\ a_state a i = s.
Proof.
  intros Hwf Hn. pose proof Hwf as [Hl [_ [_ H]]]. split; [apply H; exact Hn|].
  assert (Hi : i < num_states a) by (rewrite <- Hl; apply nth_error_Some; congruence).
  split; [exact Hi|]. unfold a_state. apply nth_error_nth. exact Hn.
Qed.

Lemma wf_target a u : aut_wf a -> u < num_states a ->
  a_state_at a u = Some (a_state a u) /\ a_id (a_state a u) = u.
Proof.
  intros Hwf Hu. pose proof Hwf as [Hl _]. unfold a_state_at. split.
  - apply a_state_nth. lia.
  - destruct (aut_wf_state a u Hwf Hu) as [Hid _]. exact Hid.
Qed.

(* class_next on a class that has a member: defined, the id of the result is what next returns for
   every character of the class *)
Lemma class_next_defined a i s cid x : aut_wf a -> nth_error (astates a) i = Some s ->
  good x -> in_class (a_classes s) x cid ->
  exists t, a_class_next a s cid = Some t /\ a_id t < num_states a /\ a_state a (a_id t) = t /\
            forall y, in_class (a_classes s) y cid -> a_next a s y = Some (a_id t).
Proof.
  intros Hwf Hn Hg Hin. destruct (wf_state_at a i s Hwf Hn) as [[_ [Hp [Hl [Ht Hd]]]] _].
  pose proof (pwf_sorted _ Hp) as Hs.
  assert (Hu : exists u, match cid with CInt j => nth_error (a_succ s) j | CComp => a_default s end = Some u /\
                         u < num_states a).
  { destruct cid as [j|].
    - destruct Hin as [iv [Hiv _]]. apply nth_error_lt_len in Hiv. unfold plen in Hl.
      destruct (nth_error (a_succ s) j) as [u|] eqn:Hu.
      + exists u. split; auto. apply Ht. eapply nth_error_In; eauto.
      + apply nth_error_None in Hu. lia.
    - destruct (a_default s) as [d|]; [exists d; auto|].
      exfalso. destruct Hin as [_ Hnc]. apply Hnc.
      apply (proj1 (pempty_complement_iff _ Hp) Hd). exact Hg. }
  destruct Hu as [u [Hu Hlt]]. destruct (wf_target a u Hwf Hlt) as [Hat Hid].
  exists (a_state a u). unfold a_class_next. rewrite Hu. cbn [bind]. rewrite Hid.
  split; [exact Hat|]. split; [exact Hlt|]. split; [reflexivity|].
  intros y Hy. unfold a_next. rewrite (pclass_of_char_complete _ y cid Hs Hy).
  destruct cid; exact Hu.
Qed.

(* char_set_next: never panics on a valid set; Ok(t) when the set lies inside one class, and then t
   is next(s, x) for every character x of the set; Err(AmbiguousCharSet) exactly when no class
   contains the set *)
Theorem char_set_next_spec a i s set : aut_wf a -> nth_error (astates a) i = Some s -> cs_valid set ->
  exists r, a_char_set_next a s set = Some r /\
    (forall cid, (forall x, mem x set -> in_class (a_classes s) x cid) ->
       exists t, r = Some t /\ a_class_next a s cid = Some t /\
                 a_id t < num_states a /\ a_state a (a_id t) = t /\
                 forall x, mem x set -> a_next a s x = Some (a_id t)) /\
    (r = None <-> forall cid, ~ forall x, mem x set -> in_class (a_classes s) x cid).
Proof.
  intros Hwf Hn Hv. destruct (wf_state_at a i s Hwf Hn) as [[_ [Hp _]] _].
  pose proof (pwf_sorted _ Hp) as Hs.
  destruct (pclass_of_set_spec (a_classes s) set Hs Hv) as [r0 [Hr0 _]].
  assert (Hm0 : mem (fst set) set) by (destruct Hv; unfold mem; lia).
  assert (Hg0 : good (fst set)) by (destruct Hv; unfold good; lia).
  unfold a_char_set_next. rewrite Hr0. cbn [bind]. destruct r0 as [cid0|].
  - pose proof (proj1 (pclass_of_set_classes _ _ cid0 Hs Hv) Hr0) as Hall.
    destruct (class_next_defined a i s cid0 (fst set) Hwf Hn Hg0 (Hall _ Hm0))
      as [t [Hcn [Hlt [Hst Hnx]]]].
    rewrite Hcn. cbn [bind]. eexists. split; [reflexivity|]. split.
    + intros cid Hc. assert (cid = cid0).
      { pose proof (proj2 (pclass_of_set_classes _ _ cid Hs Hv) Hc) as E. congruence. }
      subst cid. exists t. split; [reflexivity|]. split; [exact Hcn|]. split; [exact Hlt|].
      split; [exact Hst|]. intros x Hx. apply Hnx. apply Hall. exact Hx.
    + split; [discriminate|]. intros H. exfalso. apply (H cid0). exact Hall.
  - eexists. split; [reflexivity|]. split.
    + intros cid Hc. pose proof (proj2 (pclass_of_set_classes _ _ cid Hs Hv) Hc) as E. congruence.
    + split; auto. intros _ cid Hc.
      pose proof (proj2 (pclass_of_set_classes _ _ cid Hs Hv) Hc) as E. congruence.
Qed.

(* in particular a set that meets two different classes is rejected *)
Theorem char_set_next_two_classes a i s set x y : aut_wf a -> nth_error (astates a) i = Some s ->
  cs_valid set -> mem x set -> mem y set -> ~ same_class (a_classes s) x y ->
  a_char_set_next a s set = Some None.
Proof.
  intros Hwf Hn Hv Hx Hy Hns. destruct (char_set_next_spec a i s set Hwf Hn Hv) as [r [Hr [_ Hiff]]].
  rewrite Hr. f_equal. apply Hiff. intros cid Hall. apply Hns.
  assert (Hgx : good x) by (destruct Hv, Hx; unfold good; lia).
  assert (Hgy : good y) by (destruct Hv, Hy; unfold good; lia).
  apply same_class_iff_in_class; auto. exists cid. split; apply Hall; auto.
Qed.

(* a singleton set is a character: char_set_next(s, {c}) = next(s, c) *)
Theorem char_set_next_singleton a i s c : aut_wf a -> nth_error (astates a) i = Some s -> good c ->
  exists t, a_char_set_next a s (c, c) = Some (Some t) /\ a_next a s c = Some (a_id t).
Proof.
  intros Hwf Hn Hg. assert (Hv : cs_valid (c, c)) by (unfold cs_valid, good in *; cbn [fst snd]; lia).
  destruct (char_set_next_spec a i s (c, c) Hwf Hn Hv) as [r [Hr [Hok _]]].
  destruct (in_class_exists (a_classes s) c Hg) as [cid Hc].
  destruct (Hok cid) as [t [-> [_ [_ [_ Hnx]]]]].
  - intros x [H1 H2]. cbn [fst snd] in *. assert (x = c) by lia. subst x. exact Hc.
  - exists t. split; [exact Hr|]. apply Hnx. unfold mem. cbn [fst snd]. lia.
Qed.

(* State accessors and Automaton::default_successor against next *)
Theorem state_accessors_spec a i s : aut_wf a -> nth_error (astates a) i = Some s ->
  s_num_successors s = length (a_succ s) /\ s_char_ranges s = ivs (a_classes s) /\
  (s_has_default_successor s = true <-> exists d, s_default_successor s = Some d) /\
  (exists r, a_default_successor a s = Some r /\
     (forall d, s_default_successor s = Some d ->
        r = Some (a_state a d) /\ d < num_states a /\ a_id (a_state a d) = d) /\
     (s_default_successor s = None -> r = None)) /\
  (forall c, good c -> exists b, s_char_maps_to_default s c = Some b /\
     (b = true <-> (exists d, s_default_successor s = Some d) /\ in_class (a_classes s) c CComp) /\
     (b = true -> a_next a s c = s_default_successor s) /\
     (b = false -> exists j, in_class (a_classes s) c (CInt j) /\ a_next a s c = nth_error (a_succ s) j)).
Proof.
  intros Hwf Hn. destruct (wf_state_at a i s Hwf Hn) as [[_ [Hp [Hl [Ht Hd]]]] _].
  pose proof (pwf_sorted _ Hp) as Hs.
  split; [unfold s_num_successors; auto|]. split; [reflexivity|]. split.
  { unfold s_has_default_successor, s_default_successor. destruct (a_default s).
    - split; eauto.
    - split; [discriminate|]. intros [d Hd']. discriminate. }
  split.
  { unfold a_default_successor, s_default_successor. destruct (a_default s) as [d|].
    - destruct (wf_target a d Hwf Hd) as [Hat Hid]. rewrite Hat. cbn [bind].
      eexists. split; [reflexivity|]. split; [|discriminate].
      intros d' E. inv E. auto.
    - eexists. split; [reflexivity|]. split; [discriminate|auto]. }
  intros c Hg. unfold s_char_maps_to_default, s_has_default_successor, s_default_successor.
  destruct (pclass_of_char_res (a_classes s) c Hs) as [cid [Hc Hr]].
  pose proof (class_res_in_class _ _ _ Hg Hr) as Hin.
  destruct (a_default s) as [d|] eqn:Hdef.
  - rewrite Hc. cbn [bind]. eexists. split; [reflexivity|]. destruct cid as [j|]; cbn [classid_eqb].
    + split; [|split].
      * split; [discriminate|]. intros [_ Hcc]. pose proof (in_class_fun _ _ _ _ Hs Hin Hcc). discriminate.
      * discriminate.
      * intros _. exists j. split; auto. unfold a_next. rewrite Hc. reflexivity.
    + split; [|split].
      * split; eauto.
      * intros _. unfold a_next. rewrite Hc. exact Hdef.
      * discriminate.
  - eexists. split; [reflexivity|]. split; [|split].
    + split; [discriminate|]. intros [[d Hd'] _]. discriminate.
    + discriminate.
    + intros _. destruct cid as [j|].
      * exists j. split; auto. unfold a_next. rewrite Hc. reflexivity.
      * exfalso. destruct Hin as [_ Hnc]. apply Hnc.
        apply (proj1 (pempty_complement_iff _ Hp) Hd). exact Hg.
Qed.

(* char_classes lists the valid class ids (= the non-empty classes), char_picks one member of each,
   in the same order; class_next of a listed class is what next returns for its pick *)
Theorem char_classes_picks_spec a i s : aut_wf a -> nth_error (astates a) i = Some s ->
  s_char_classes s = map CInt (seq 0 (s_num_successors s)) ++
                     (if s_valid_class_id s CComp then [CComp] else []) /\
  NoDup (s_char_classes s) /\
  (forall cid, In cid (s_char_classes s) <-> s_valid_class_id s cid = true) /\
  (forall cid, s_valid_class_id s cid = true <-> exists x, good x /\ in_class (a_classes s) x cid) /\
  Forall2 (fun cid x => good x /\ in_class (a_classes s) x cid /\ s_class_of_char s x = Some cid /\
             exists t, a_class_next a s cid = Some t /\ a_next a s x = Some (a_id t) /\
                       a_id t < num_states a /\ a_state a (a_id t) = t)
          (s_char_classes s) (s_char_picks s).
Proof.
  intros Hwf Hn. destruct (wf_state_at a i s Hwf Hn) as [[_ [Hp _]] _].
  pose proof (pwf_sorted _ Hp) as Hs.
  unfold s_char_classes, s_valid_class_id, s_num_successors, s_char_picks, s_class_of_char.
  split; [apply pclass_ids_shape|]. split; [apply pclass_ids_nodup|].
  split; [intros cid; apply pclass_ids_in|]. split; [intros cid; apply pvalid_iff; exact Hp|].
  pose proof (ppicks_in_class _ Hp) as HF.
  eapply Forall2_weaken; [|exact HF]. intros cid x [Hg Hin].
  split; [exact Hg|]. split; [exact Hin|]. split; [apply pclass_of_char_complete; auto|].
  destruct (class_next_defined a i s cid x Hwf Hn Hg Hin) as [t [Hcn [Hlt [Hst Hnx]]]].
  exists t. split; [exact Hcn|]. split; [apply Hnx; exact Hin|]. split; auto.
Qed.

(* valid_class_id(Complement) is "the complementary class is non-empty" (what the code computes),
   not "a default successor is defined" (what the documentation of State::valid_class_id says); in a
   well-formed automaton the first implies the second, and they coincide when no default is dead *)
Theorem valid_complement_vs_default a i s : aut_wf a -> nth_error (astates a) i = Some s ->
  (s_valid_class_id s CComp = true -> s_has_default_successor s = true) /\
  (no_dead_default a -> (s_valid_class_id s CComp = true <-> s_has_default_successor s = true)) /\
  (no_dead_default a ->
     map (fun cid => option_map a_id (a_class_next a s cid)) (s_char_classes s) = map Some (edges s)).
Proof.
  intros Hwf Hn. destruct (wf_state_at a i s Hwf Hn) as [[_ [Hp [Hl [Ht Hd]]]] _].
  unfold s_valid_class_id, s_has_default_successor. cbn [pvalid].
  assert (H1 : negb (pempty_complement (a_classes s)) = true ->
               match a_default s with Some _ => true | None => false end = true).
  { destruct (a_default s); auto. rewrite Hd. discriminate. }
  split; [exact H1|]. split.
  - intros Hnd. split; [exact H1|]. destruct (a_default s) as [d|] eqn:Hdef; [|discriminate].
    intros _. rewrite (Hnd i s d Hn Hdef). reflexivity.
  - intros Hnd. unfold s_char_classes, pclass_ids, edges. rewrite !map_app. f_equal.
    + rewrite map_map. unfold plen in *. rewrite <- Hl.
      set (l := a_succ s) in *.
      apply nth_error_ext_len; [rewrite !map_length, seq_length; reflexivity|].
      intros k. rewrite !nth_error_map. destruct (nth_error l k) as [u|] eqn:Hu.
      * assert (Hk : k < length l) by (apply nth_error_Some; congruence).
        rewrite (nth_error_nth_lt (seq 0 (length l)) k 0) by (rewrite seq_length; exact Hk).
        rewrite seq_nth by exact Hk. cbn [option_map Nat.add]. unfold a_class_next. fold l. rewrite Hu. cbn [bind].
        destruct (wf_target a u Hwf (Ht u (nth_error_In _ _ Hu))) as [Hat Hid]. rewrite Hat.
        cbn [option_map]. rewrite Hid. reflexivity.
      * assert (Hk : length l <= k) by (apply nth_error_None; exact Hu).
        replace (nth_error (seq 0 (length l)) k) with (@None nat); [reflexivity|].
        symmetry. apply nth_error_None. rewrite seq_length. exact Hk.
    + destruct (a_default s) as [d|] eqn:Hdef.
      * rewrite (Hnd i s d Hn Hdef). cbn [map]. unfold a_class_next. rewrite Hdef. cbn [bind].
        destruct (wf_target a d Hwf Hd) as [Hat Hid]. rewrite Hat. cbn [option_map]. rewrite Hid. reflexivity.
      * rewrite Hd. reflexivity.
Qed.

(* the documentation of State::valid_class_id ("Complement is valid if there's a default successor")
   does not hold for the automata build_unchecked accepts: state 0 of dd_aut has a default successor
   and an empty complementary class *)
Theorem valid_class_id_doc_refuted :
  aut_wf dd_aut /\ s_has_default_successor (a_state dd_aut 0) = true /\
  s_valid_class_id (a_state dd_aut 0) CComp = false /\
  s_char_classes (a_state dd_aut 0) = [CInt 0] /\ edges (a_state dd_aut 0) = [0; 1].
Proof. split; [apply aut_wfb_iff; vm_compute; reflexivity|]. vm_compute. repeat split. Qed.

(* initial_state, state, states, num_states, num_final_states, final_states *)
Theorem automaton_accessors_spec a : aut_wf a ->
  a_initial_state a = Some (a_state a (initial a)) /\ a_id (a_state a (initial a)) = initial a /\
  (forall k, k < a_num_states a -> a_state_at a k = Some (a_state a k) /\ a_id (a_state a k) = k) /\
  (forall k, a_num_states a <= k -> a_state_at a k = None) /\
  map a_id (a_states a) = seq 0 (a_num_states a) /\
  length (a_final_states a) = a_num_final_states a /\
  (forall t, In t (a_final_states a) <-> In t (a_states a) /\ a_final t = true) /\
  map a_id (a_final_states a) = filter (fun k => a_final (a_state a k)) (seq 0 (a_num_states a)).
Proof.
  intros Hwf. pose proof Hwf as [Hl [Hi [Hf Hst]]].
  unfold a_initial_state, a_num_states, a_states, a_final_states, a_num_final_states.
  split; [apply (wf_target a _ Hwf Hi)|]. split; [apply (wf_target a _ Hwf Hi)|].
  split; [intros k Hk; apply (wf_target a k Hwf Hk)|].
  split; [intros k Hk; unfold a_state_at; apply nth_error_None; lia|].
  assert (Hids : map a_id (astates a) = seq 0 (num_states a)).
  { apply nth_error_ext_len; [rewrite map_length, seq_length; exact Hl|].
    intros k. rewrite nth_error_map. destruct (nth_error (astates a) k) as [t|] eqn:Ht.
    - destruct (wf_state_at a k t Hwf Ht) as [[Hid _] [Hk _]]. cbn [option_map]. rewrite Hid.
      symmetry. rewrite (nth_error_nth_lt (seq 0 (num_states a)) k 0) by (rewrite seq_length; exact Hk).
      rewrite seq_nth by exact Hk. reflexivity.
    - symmetry. apply nth_error_None. rewrite seq_length, <- Hl. apply nth_error_None. exact Ht. }
  split; [exact Hids|]. split; [exact Hf|]. split; [intros t; apply filter_In|].
  rewrite <- Hids, filter_map_comm. f_equal. apply filter_ext_in. intros t Ht.
  apply In_nth_error in Ht. destruct Ht as [k Hk].
  destruct (wf_state_at a k t Hwf Hk) as [[Hid _] [_ Hst']]. rewrite Hid, Hst'. reflexivity.
Qed.
