(* ExploreProofs.v -- structural (language-free) layer of C19 / C05: the derivative cache only
   grows, and the bookkeeping of the BFS worklists of iter_derivatives / is_empty_re /
   compile_with_bound / get_string.  No language semantics is used here. *)
Require Import Base CharSet Partition PartitionSpec PartitionProofs LoopRange Regex Inclusion
  Constructors Deriv Explore Automaton Compile.
Open Scope N_scope.

(* ------------------------------------------------------------------------------------------ *)
(** * Induction over the nested type of terms *)

Definition kids (k : node) : list re :=
  match k with
  | NEmpty | NEps | NRange _ => []
  | NConcat a b => [a; b]
  | NLoop a _ | NCompl a => [a]
  | NUnion l | NInter l => l
  end.

Fixpoint re_kids_ind (P : re -> Prop)
  (H : forall i n c k, Forall P (kids k) -> P (Node i n c k)) (e : re) {struct e} : P e :=
  match e with
  | Node i n c k =>
    H i n c k
      (match k return Forall P (kids k) with
       | NEmpty => Forall_nil P
       | NEps => Forall_nil P
       | NRange _ => Forall_nil P
       | NConcat a b =>
           Forall_cons a (re_kids_ind P H a) (Forall_cons b (re_kids_ind P H b) (Forall_nil P))
       | NLoop a _ => Forall_cons a (re_kids_ind P H a) (Forall_nil P)
       | NCompl a => Forall_cons a (re_kids_ind P H a) (Forall_nil P)
       | NUnion l =>
           (fix go (l : list re) : Forall P l :=
              match l with
              | [] => Forall_nil P
              | x :: t => Forall_cons x (re_kids_ind P H x) (go t)
              end) l
       | NInter l =>
           (fix go (l : list re) : Forall P l :=
              match l with
              | [] => Forall_nil P
              | x :: t => Forall_cons x (re_kids_ind P H x) (go t)
              end) l
       end)
  end.

(* ------------------------------------------------------------------------------------------ *)
(** * The constructors never touch the derivative cache *)

Lemma store_make_cache m k : cache (fst (store_make m k)) = cache m.
Proof. unfold store_make. destruct (lookup (key_of k) (tbl m)); reflexivity. Qed.

Lemma make_cache m k m' r : make m k = Some (m', r) -> cache m' = cache m.
Proof.
  intros H.
  assert (G : forall k0, (match k0 with NCompl _ => False | _ => True end) ->
              make m k0 = Some (m', r) -> cache m' = cache m).
  { clear. intros k Hk H.
    assert (E : make m k =
      let i := counter m in
      let '(m1, x) := store_make m k in
      if rid x =? i then
        let '(m2, y) := store_make m1 (NCompl x) in Some (set_id2re m2 (id2re m2 ++ [x; y]), x)
      else Some (m1, x)) by (destruct k; try reflexivity; contradiction).
    rewrite E in H. clear E. cbv zeta in H.
    pose proof (store_make_cache m k) as C1.
    destruct (store_make m k) as [m1 x]. simpl fst in C1.
    destruct (rid x =? counter m).
    - pose proof (store_make_cache m1 (NCompl x)) as C2.
      destruct (store_make m1 (NCompl x)) as [m2 y]. simpl fst in C2.
      inversion H; subst. unfold set_id2re. simpl cache. congruence.
    - inversion H; subst. exact C1. }
  destruct k as [| |s0|a b|a rg|a|l|l]; try (refine (G _ _ H); exact I).
  cbn [make] in H. destruct (id_to_re m (rid a + 1)); cbn [bind] in H; inversion H; reflexivity.
Qed.

Ltac cache_crush :=
  repeat match goal with
  | H : Some _ = Some _ |- _ => inversion H; subst; clear H
  | H : None = Some _ |- _ => discriminate H
  | H : make _ _ = Some _ |- _ => apply make_cache in H
  | H : bind ?x _ = Some _ |- _ => destruct x eqn:?; cbn [bind] in H
  | H : (let '(_, _) := ?x in _) = Some _ |- _ => destruct x eqn:?
  | H : (if ?x then _ else _) = Some _ |- _ => destruct x eqn:?
  | H : match ?x with _ => _ end = Some _ |- _ => destruct x eqn:?
  end; try reflexivity; try congruence.

Lemma make_inter_cache m v m' r : make_inter m v = Some (m', r) -> cache m' = cache m.
Proof. unfold make_inter. intros H. cache_crush. Qed.

Lemma make_union_cache m v m' r : make_union m v = Some (m', r) -> cache m' = cache m.
Proof. unfold make_union. intros H. cache_crush. Qed.

Lemma inter_list_cache m l m' r : inter_list m l = Some (m', r) -> cache m' = cache m.
Proof. apply make_inter_cache. Qed.
Lemma union_list_cache m l m' r : union_list m l = Some (m', r) -> cache m' = cache m.
Proof. apply make_union_cache. Qed.
Lemma inter_cache m a b m' r : inter m a b = Some (m', r) -> cache m' = cache m.
Proof. apply inter_list_cache. Qed.
Lemma union_cache m a b m' r : union m a b = Some (m', r) -> cache m' = cache m.
Proof. apply union_list_cache. Qed.
Lemma diff_cache m a b m' r : diff m a b = Some (m', r) -> cache m' = cache m.
Proof.
  unfold diff. intros H. destruct (complement m b); cbn [bind] in H; [|discriminate].
  eapply inter_cache; eauto.
Qed.
Lemma diff_list_cache m a l m' r : diff_list m a l = Some (m', r) -> cache m' = cache m.
Proof.
  unfold diff_list. intros H.
  match type of H with bind ?x _ = _ => destruct x end; cbn [bind] in H; [|discriminate].
  eapply make_inter_cache; eauto.
Qed.

Lemma concat_cache e1 : forall m e2 m' r, concat e1 m e2 = Some (m', r) -> cache m' = cache m.
Proof.
  induction e1 as [i n c k IH] using re_kids_ind. intros m e2 m' r H.
  destruct k as [| |s0|x y|x rg|x|l|l]; cbn [concat] in H.
  all: try (cache_crush; fail).
  (* NConcat *)
  inversion IH as [|? ? IHx IH2]; subst. inversion IH2 as [|? ? IHy _]; subst.
  repeat match type of H with
  | match ?x with _ => _ end = Some _ => destruct x eqn:?
  | (if ?x then _ else _) = Some _ => destruct x eqn:?
  | bind (lr_add_point _ _) _ = Some _ => cache_crush
  | bind (lr_add _ _) _ = Some _ => cache_crush
  | make _ _ = Some _ => cache_crush
  | Some _ = Some _ => cache_crush
  end.
  all: try (cache_crush; fail).
  all: match type of H with bind ?x _ = _ => destruct x as [[m1 rt]|] eqn:E1; cbn [bind] in H; [|discriminate] end.
  all: apply IHy in E1; apply IHx in H; congruence.
Qed.

Lemma mk_loop_cache m e rg m' r : mk_loop m e rg = Some (m', r) -> cache m' = cache m.
Proof. unfold mk_loop. intros H. cache_crush. Qed.
Lemma char_set_cache m s m' r : char_set m s = Some (m', r) -> cache m' = cache m.
Proof. apply make_cache. Qed.
Lemma range_cache m a b m' r : range m a b = Some (m', r) -> cache m' = cache m.
Proof. unfold range. destruct ((a <=? b) && (b <=? MAXC)); [apply char_set_cache|discriminate]. Qed.
Lemma mchar_cache m x m' r : mchar m x = Some (m', r) -> cache m' = cache m.
Proof. apply range_cache. Qed.
Lemma str_go_cache rw : forall m acc m' r, str_go m rw acc = Some (m', r) -> cache m' = cache m.
Proof.
  induction rw as [|c t IH]; intros m acc m' r H; cbn [str_go] in H.
  - inversion H; reflexivity.
  - destruct (mchar m c) as [[m1 ch]|] eqn:E1; cbn [bind] in H; [|discriminate].
    destruct (concat ch m1 acc) as [[m2 r2]|] eqn:E2; cbn [bind] in H; [|discriminate].
    apply mchar_cache in E1. apply concat_cache in E2. apply IH in H. congruence.
Qed.
Lemma mstr_cache m w m' r : mstr m w = Some (m', r) -> cache m' = cache m.
Proof. apply str_go_cache. Qed.
Lemma concat_list_go_cache rv : forall m acc m' r,
  concat_list_go m rv acc = Some (m', r) -> cache m' = cache m.
Proof.
  induction rv as [|x t IH]; intros m acc m' r H; cbn [concat_list_go] in H.
  - inversion H; reflexivity.
  - destruct (concat x m acc) as [[m1 r1]|] eqn:E1; cbn [bind] in H; [|discriminate].
    apply concat_cache in E1. apply IH in H. congruence.
Qed.
Lemma concat_list_cache m l m' r : concat_list m l = Some (m', r) -> cache m' = cache m.
Proof. apply concat_list_go_cache. Qed.
Lemma star_cache m e m' r : star m e = Some (m', r) -> cache m' = cache m.
Proof. apply mk_loop_cache. Qed.
Lemma plus_cache m e m' r : plus m e = Some (m', r) -> cache m' = cache m.
Proof. apply mk_loop_cache. Qed.
Lemma opt_cache m e m' r : opt m e = Some (m', r) -> cache m' = cache m.
Proof. apply mk_loop_cache. Qed.
Lemma exp_cache m e k m' r : exp m e k = Some (m', r) -> cache m' = cache m.
Proof. apply mk_loop_cache. Qed.
Lemma loop_inf_cache m e i m' r : loop_inf m e i = Some (m', r) -> cache m' = cache m.
Proof. apply mk_loop_cache. Qed.
Lemma smt_loop_cache m e i j m' r : smt_loop m e i j = Some (m', r) -> cache m' = cache m.
Proof.
  unfold smt_loop. destruct (i <=? j); [apply mk_loop_cache|]. intros H; inversion H; reflexivity.
Qed.
Lemma smt_range_cache m s1 s2 m' r : smt_range m s1 s2 = Some (m', r) -> cache m' = cache m.
Proof.
  unfold smt_range. intros H.
  destruct s1 as [|c1 [|? ?]]; try (inversion H; reflexivity).
  destruct s2 as [|c2 [|? ?]]; try (inversion H; reflexivity).
  destruct (c1 <=? c2); [eapply char_set_cache; eauto | inversion H; reflexivity].
Qed.

(* ------------------------------------------------------------------------------------------ *)
(** * The derivative cache only grows *)

(* [m'] answers from its cache everything [m] answers from its cache, with the same term *)
Definition cache_ext (m m' : mgr) : Prop :=
  forall i c r, cache_lookup i c (cache m) = Some r -> cache_lookup i c (cache m') = Some r.
(* ... and moreover agrees with [m] on every key whose term id is at least [b] *)
Definition cache_below (b : N) (m m' : mgr) : Prop :=
  cache_ext m m' /\
  forall i c, b <= i -> cache_lookup i c (cache m') = cache_lookup i c (cache m).

Lemma cache_ext_refl m : cache_ext m m.
Proof. intros i c r H; exact H. Qed.
Lemma cache_ext_trans m1 m2 m3 : cache_ext m1 m2 -> cache_ext m2 m3 -> cache_ext m1 m3.
Proof. intros H1 H2 i c r H. apply H2, H1, H. Qed.
Lemma cache_ext_eq m m' : cache m' = cache m -> cache_ext m m'.
Proof. intros E i c r H. rewrite E. exact H. Qed.
Lemma cache_below_eq b m m' : cache m' = cache m -> cache_below b m m'.
Proof. intros E. split; [apply cache_ext_eq; exact E|]. intros i c _. rewrite E. reflexivity. Qed.
Lemma cache_below_refl b m : cache_below b m m.
Proof. apply cache_below_eq. reflexivity. Qed.
Lemma cache_below_trans b m1 m2 m3 : cache_below b m1 m2 -> cache_below b m2 m3 -> cache_below b m1 m3.
Proof.
  intros [E1 S1] [E2 S2]. split; [eapply cache_ext_trans; eauto|].
  intros i c Hi. rewrite S2, S1; auto.
Qed.
Lemma cache_below_mono b b' m m' : b <= b' -> cache_below b m m' -> cache_below b' m m'.
Proof. intros Hb [E S]. split; [exact E|]. intros i c Hi. apply S. lia. Qed.

Lemma classid_eqb_refl c : classid_eqb c c = true.
Proof. destruct c; cbn; [apply Nat.eqb_refl|reflexivity]. Qed.
Lemma classid_eqb_eq c d : classid_eqb c d = true <-> c = d.
Proof.
  destruct c, d; cbn; try (split; [discriminate|congruence]); [|tauto].
  rewrite Nat.eqb_eq. split; congruence.
Qed.

Lemma cache_lookup_insert_same m i c r : cache_lookup i c (cache (cache_insert m i c r)) = Some r.
Proof. unfold cache_insert, set_cache. simpl cache. cbn [cache_lookup]. rewrite N.eqb_refl, classid_eqb_refl. reflexivity. Qed.
Lemma cache_lookup_insert_other m i c r j d :
  (j, d) <> (i, c) -> cache_lookup j d (cache (cache_insert m i c r)) = cache_lookup j d (cache m).
Proof.
  intros Hne. unfold cache_insert, set_cache. simpl cache. cbn [cache_lookup].
  destruct ((j =? i) && classid_eqb d c) eqn:E; [|reflexivity].
  apply andb_true_iff in E. destruct E as [E1 E2]. apply N.eqb_eq in E1. apply classid_eqb_eq in E2.
  subst. contradiction.
Qed.
(* inserting a key that was absent *)
Lemma cache_below_insert m i c r :
  cache_lookup i c (cache m) = None -> cache_below (i + 1) m (cache_insert m i c r).
Proof.
  intros Hn. split.
  - intros j d r0 H. rewrite cache_lookup_insert_other; [exact H|]. intros E; inversion E; subst. congruence.
  - intros j d Hj. apply cache_lookup_insert_other. intros E; inversion E; subst. lia.
Qed.

(* Hash-consing discipline used by the cache argument: every child has a smaller id than its
   parent, hereditarily (ManagerProofs.wf_child gives this for every term owned by a wf manager).
   Without it a term and one of its subterms could share a cache key and the entry written for
   the subterm would be overwritten. *)
Fixpoint ids_descb (e : re) : bool :=
  match e with
  | Node i _ _ k =>
    match k with
    | NEmpty | NEps | NRange _ => true
    | NConcat a b => ((rid a <? i) && ids_descb a) && (((rid b <? i) && ids_descb b) && true)
    | NLoop a _ | NCompl a => ((rid a <? i) && ids_descb a) && true
    | NUnion l | NInter l =>
        (fix all (l : list re) : bool :=
           match l with [] => true | x :: t => ((rid x <? i) && ids_descb x) && all t end) l
    end
  end.
Definition ids_desc (e : re) : Prop := ids_descb e = true.

Lemma ids_desc_kids i n c k :
  ids_desc (Node i n c k) -> Forall (fun x => rid x < i /\ ids_desc x) (kids k).
Proof.
  unfold ids_desc.
  assert (G : forall l, (fix all (l : list re) : bool :=
           match l with [] => true | x :: t => ((rid x <? i) && ids_descb x) && all t end) l = true ->
           Forall (fun x => rid x < i /\ ids_descb x = true) l).
  { induction l as [|x t IH]; intros H; constructor.
    - apply andb_true_iff in H. destruct H as [H _]. apply andb_true_iff in H. destruct H as [H1 H2].
      apply N.ltb_lt in H1. auto.
    - apply IH. apply andb_true_iff in H. tauto. }
  destruct k as [| |s0|x y|x rg|x|l|l]; cbn [ids_descb kids]; intros H;
    first [apply (G [x; y] H) | apply (G [x] H) | apply (G l H) | constructor].
Qed.

Definition dl_fix (c : N) :=
  fix dl (l : list re) (m : mgr) {struct l} : option (mgr * list re) :=
    match l with
    | [] => Some (m, [])
    | x :: t => do kx <- coc x c; do (m1, d) <- cached_deriv x m kx;
                do (m2, ds) <- dl t m1; Some (m2, d :: ds)
    end.

Definition deriv_below (x : re) : Prop :=
  forall m cid m1 r, cached_deriv x m cid = Some (m1, r) -> cache_below (rid x + 1) m m1.

Lemma dl_fix_below c i l : Forall (fun x => rid x < i /\ deriv_below x) l ->
  forall m m1 ds, dl_fix c l m = Some (m1, ds) -> cache_below i m m1.
Proof.
  induction 1 as [|x t [Hx Px] _ IH]; intros m m1 ds H; cbn [dl_fix] in H.
  - inversion H; subst. apply cache_below_refl.
  - destruct (coc x c) as [kx|]; cbn [bind] in H; [|discriminate].
    destruct (cached_deriv x m kx) as [[m2 d]|] eqn:E; cbn [bind] in H; [|discriminate].
    match type of H with bind ?y _ = _ => destruct y as [[m3 ds3]|] eqn:E3 end; cbn [bind] in H; [|discriminate].
    inversion H; subst. apply Px in E. apply IH in E3.
    eapply cache_below_trans; [|exact E3]. eapply cache_below_mono; [|exact E]. lia.
Qed.

Lemma cached_deriv_unfold e m cid :
  cached_deriv e m cid =
  match cache_lookup (rid e) cid (cache m) with
  | Some r => Some (m, r)
  | None =>
    do c <- ppick (rcls e) cid;
    do (m', r) <-
      match rnode e with
      | NEmpty | NEps => Some (m, m_empty m)
      | NRange s => Some (m, if cs_contains s c then m_eps m else m_empty m)
      | NConcat e1 e2 =>
          do k1 <- coc e1 c; do (m1, d1) <- cached_deriv e1 m k1;
          do (m2, d1') <- concat d1 m1 e2;
          if rnul e1 then
            do k2 <- coc e2 c; do (m3, d2) <- cached_deriv e2 m2 k2;
            union m3 d1' d2
          else Some (m2, d1')
      | NLoop e1 rg =>
          do k1 <- coc e1 c; do (m1, d1) <- cached_deriv e1 m k1;
          do (m2, e2) <- mk_loop m1 e1 (lr_shift rg);
          concat d1 m2 e2
      | NCompl e1 =>
          do k1 <- coc e1 c; do (m1, d1) <- cached_deriv e1 m k1;
          do r <- complement m1 d1; Some (m1, r)
      | NInter l => do (m1, ds) <- dl_fix c l m; inter_list m1 ds
      | NUnion l => do (m1, ds) <- dl_fix c l m; union_list m1 ds
      end;
    Some (cache_insert m' (rid e) cid r, r)
  end.
Proof. destruct e as [i n c k]. destruct k; reflexivity. Qed.

Theorem cached_deriv_below e : ids_desc e -> deriv_below e.
Proof.
  induction e as [i n cl k IH] using re_kids_ind. intros Hd m cid m1 r H.
  apply ids_desc_kids in Hd.
  assert (K : Forall (fun x => rid x < i /\ deriv_below x) (kids k)).
  { rewrite Forall_forall in *. intros x Hx. destruct (Hd x Hx). split; auto. }
  clear IH Hd. rewrite cached_deriv_unfold in H. cbn [rid rcls rnode] in H |- *.
  destruct (cache_lookup i cid (cache m)) as [r0|] eqn:Hl.
  { inversion H; subst. apply cache_below_refl. }
  destruct (ppick cl cid) as [c|]; cbn [bind] in H; [|discriminate].
  match type of H with bind ?x _ = _ => destruct x as [[m' r']|] eqn:E end; cbn [bind] in H; [|discriminate].
  inversion H; subst. clear H.
  assert (B : cache_below i m m').
  { destruct k as [| |s0|x y|x rg|x|l|l]; cbn [kids] in K.
    - inversion E; subst. apply cache_below_refl.
    - inversion E; subst. apply cache_below_refl.
    - inversion E; subst. apply cache_below_refl.
    - inversion K as [|? ? [Hx Px] K2]; subst. inversion K2 as [|? ? [Hy Py] _]; subst.
      destruct (coc x c) as [k1|]; cbn [bind] in E; [|discriminate].
      destruct (cached_deriv x m k1) as [[ma d1]|] eqn:E1; cbn [bind] in E; [|discriminate].
      destruct (concat d1 ma y) as [[mb d1']|] eqn:E2; cbn [bind] in E; [|discriminate].
      apply Px in E1. apply concat_cache in E2.
      assert (B1 : cache_below i m mb).
      { eapply cache_below_trans; [eapply cache_below_mono; [|exact E1]; lia|].
        apply cache_below_eq; exact E2. }
      destruct (rnul x).
      + destruct (coc y c) as [k2|]; cbn [bind] in E; [|discriminate].
        destruct (cached_deriv y mb k2) as [[mc d2]|] eqn:E3; cbn [bind] in E; [|discriminate].
        apply Py in E3. apply union_cache in E.
        eapply cache_below_trans; [exact B1|].
        eapply cache_below_trans; [eapply cache_below_mono; [|exact E3]; lia|].
        apply cache_below_eq; exact E.
      + inversion E; subst. exact B1.
    - inversion K as [|? ? [Hx Px] _]; subst.
      destruct (coc x c) as [k1|]; cbn [bind] in E; [|discriminate].
      destruct (cached_deriv x m k1) as [[ma d1]|] eqn:E1; cbn [bind] in E; [|discriminate].
      destruct (mk_loop ma x (lr_shift rg)) as [[mb e2]|] eqn:E2; cbn [bind] in E; [|discriminate].
      apply Px in E1. apply mk_loop_cache in E2. apply concat_cache in E.
      eapply cache_below_trans; [eapply cache_below_mono; [|exact E1]; lia|].
      apply cache_below_eq; congruence.
    - inversion K as [|? ? [Hx Px] _]; subst.
      destruct (coc x c) as [k1|]; cbn [bind] in E; [|discriminate].
      destruct (cached_deriv x m k1) as [[ma d1]|] eqn:E1; cbn [bind] in E; [|discriminate].
      destruct (complement ma d1); cbn [bind] in E; [|discriminate]. inversion E; subst.
      apply Px in E1. eapply cache_below_mono; [|exact E1]. lia.
    - destruct (dl_fix c l m) as [[ma ds]|] eqn:E1; cbn [bind] in E; [|discriminate].
      apply (dl_fix_below c i l K) in E1. apply union_list_cache in E.
      eapply cache_below_trans; [exact E1|apply cache_below_eq; exact E].
    - destruct (dl_fix c l m) as [[ma ds]|] eqn:E1; cbn [bind] in E; [|discriminate].
      apply (dl_fix_below c i l K) in E1. apply inter_list_cache in E.
      eapply cache_below_trans; [exact E1|apply cache_below_eq; exact E]. }
  eapply cache_below_trans; [eapply cache_below_mono; [|exact B]; lia|].
  apply cache_below_insert. destruct B as [_ S]. rewrite S; [exact Hl|lia].
Qed.

Corollary cached_deriv_ext e m cid m1 r :
  ids_desc e -> cached_deriv e m cid = Some (m1, r) -> cache_ext m m1.
Proof. intros Hd H. exact (proj1 (cached_deriv_below e Hd m cid m1 r H)). Qed.

(* the answer is in the cache afterwards (no discipline needed) *)
Lemma cached_deriv_lookup e m cid m1 r :
  cached_deriv e m cid = Some (m1, r) -> cache_lookup (rid e) cid (cache m1) = Some r.
Proof.
  rewrite cached_deriv_unfold. destruct (cache_lookup (rid e) cid (cache m)) as [r0|] eqn:Hl.
  - intros H; inversion H; subst. exact Hl.
  - intros H. destruct (ppick (rcls e) cid); cbn [bind] in H; [|discriminate].
    match type of H with bind ?x _ = _ => destruct x as [[m' r']|] end; cbn [bind] in H; [|discriminate].
    inversion H; subst. apply cache_lookup_insert_same.
Qed.
(* a cache hit returns the cached term and leaves the manager alone *)
Lemma cached_deriv_hit e m cid r :
  cache_lookup (rid e) cid (cache m) = Some r -> cached_deriv e m cid = Some (m, r).
Proof. intros H. rewrite cached_deriv_unfold, H. reflexivity. Qed.

Theorem cached_deriv_stable e m cid m1 r m2 :
  cached_deriv e m cid = Some (m1, r) -> cache_ext m1 m2 -> cached_deriv e m2 cid = Some (m2, r).
Proof. intros H E. apply cached_deriv_hit. apply E. eapply cached_deriv_lookup; eauto. Qed.

(* ------------------------------------------------------------------------------------------ *)
(** * BFS bookkeeping of iter_derivatives *)

(* BfsQueue's seen set compares terms by id (Rust ==/Hash on RE are by id) *)
Lemma existsb_re_eqb d s : existsb (re_eqb d) s = true <-> In (rid d) (map rid s).
Proof.
  rewrite existsb_exists, in_map_iff. unfold re_eqb. split.
  - intros [x [Hx E]]. apply N.eqb_eq in E. eauto.
  - intros [x [E Hx]]. exists x. split; auto. apply N.eqb_eq. auto.
Qed.

Lemma NoDup_app_intro {A} (l1 l2 : list A) :
  NoDup l1 -> NoDup l2 -> (forall x, In x l2 -> ~ In x l1) -> NoDup (l1 ++ l2).
Proof.
  induction l1 as [|a t IH]; intros H1 H2 H; [exact H2|].
  inversion H1; subst. cbn. constructor.
  - rewrite in_app_iff. intros [Hi|Hi]; [contradiction|]. apply (H a Hi). left; reflexivity.
  - apply IH; auto. intros x Hx Hi. apply (H x Hx). right; exact Hi.
Qed.

Lemma push_all_struct r : forall cids m q s m1 q1 s1,
  push_all_derivs m r cids q s = Some (m1, q1, s1) ->
  exists new, q1 = q ++ new /\ s1 = rev new ++ s /\ NoDup (map rid new) /\
    (forall x, In x new -> ~ In (rid x) (map rid s)).
Proof.
  induction cids as [|cid t IH]; intros m q s m1 q1 s1 H; cbn [push_all_derivs] in H.
  - inversion H; subst. exists []. rewrite app_nil_r. repeat split; [constructor|intros x []].
  - destruct (cached_deriv r m cid) as [[m2 d]|]; cbn [bind] in H; [|discriminate].
    destruct (existsb (re_eqb d) s) eqn:Es.
    + apply IH in H. exact H.
    + apply IH in H. destruct H as [new [Hq [Hs [Hn Hd]]]].
      exists (d :: new). subst. cbn [rev map]. rewrite <- !app_assoc. cbn [app].
      repeat split; auto.
      * constructor; auto. intros Hi. apply in_map_iff in Hi. destruct Hi as [x [Ex Hx]].
        apply (Hd x Hx). cbn [map]. left. auto.
      * intros x [Hx|Hx] Hi.
        -- subst x. apply existsb_re_eqb in Hi. congruence.
        -- apply (Hd x Hx). cbn [map]. right. exact Hi.
Qed.

(* out = terms already yielded, queue = pending terms, seen = BfsQueue::set *)
Definition bfs_inv (q s out : list re) : Prop :=
  s = rev (out ++ q) /\ NoDup (map rid (out ++ q)).

Lemma bfs_inv_init e : bfs_inv [e] [e] [].
Proof. split; [reflexivity|]. cbn. constructor; [intros []|constructor]. Qed.

Lemma push_all_bfs_inv m r cids q s out m1 q1 s1 :
  bfs_inv (r :: q) s out -> push_all_derivs m r cids q s = Some (m1, q1, s1) ->
  bfs_inv q1 s1 (out ++ [r]).
Proof.
  intros [Hs Hn] H. apply push_all_struct in H. destruct H as [new [Hq [Hs1 [Hnn Hd]]]].
  assert (E : (out ++ [r]) ++ q1 = (out ++ r :: q) ++ new).
  { subst q1. rewrite <- !app_assoc. reflexivity. }
  split.
  - rewrite E, rev_app_distr, <- Hs. exact Hs1.
  - rewrite E, map_app. apply NoDup_app_intro; auto.
    intros x Hx Hi. apply in_map_iff in Hx. destruct Hx as [y [Ey Hy]]. subst x.
    apply (Hd y Hy). rewrite Hs, map_rev, <- in_rev. exact Hi.
Qed.

Lemma iter_go_prefix f : forall m q s out m' l,
  iter_go f m q s out = Some (m', l) -> exists l', l = out ++ q ++ l'.
Proof.
  induction f as [|f IH]; intros m q s out m' l H; cbn [iter_go] in H; [discriminate|].
  destruct q as [|r q].
  - inversion H; subst. exists []. rewrite app_nil_r. reflexivity.
  - destruct (push_all_derivs m r (pclass_ids (rcls r)) q s) as [[[m1 q1] s1]|] eqn:E; cbn [bind] in H; [|discriminate].
    apply push_all_struct in E. destruct E as [new [Hq _]]. apply IH in H. destruct H as [l' Hl].
    exists (new ++ l'). subst. rewrite <- !app_assoc. reflexivity.
Qed.

Lemma iter_go_bfs f : forall m q s out m' l,
  iter_go f m q s out = Some (m', l) -> bfs_inv q s out -> bfs_inv [] (rev l) l.
Proof.
  induction f as [|f IH]; intros m q s out m' l H Hi; cbn [iter_go] in H; [discriminate|].
  destruct q as [|r q].
  - inversion H; subst. destruct Hi as [Hs Hn]. rewrite app_nil_r in *. split; rewrite ?app_nil_r; auto.
  - destruct (push_all_derivs m r (pclass_ids (rcls r)) q s) as [[[m1 q1] s1]|] eqn:E; cbn [bind] in H; [|discriminate].
    eapply IH; [exact H|]. eapply push_all_bfs_inv; eauto.
Qed.

Theorem iter_first fuel m e m' l : iter_derivatives fuel m e = Some (m', l) -> exists t, l = e :: t.
Proof. intros H. apply iter_go_prefix in H. destruct H as [l' H]. exists l'. exact H. Qed.

Theorem iter_nodup fuel m e m' l : iter_derivatives fuel m e = Some (m', l) -> NoDup (map rid l).
Proof.
  intros H. apply iter_go_bfs in H; [|apply bfs_inv_init]. destruct H as [_ H].
  rewrite app_nil_r in H. exact H.
Qed.

(* iter_seen: at every pop the seen set is exactly out ++ queue (in reverse insertion order) and
   it is duplicate-free; the invariant holds initially and is preserved by every step *)
Theorem iter_seen :
  (forall e, bfs_inv [e] [e] []) /\
  (forall m r q s out m1 q1 s1, bfs_inv (r :: q) s out ->
     push_all_derivs m r (pclass_ids (rcls r)) q s = Some (m1, q1, s1) -> bfs_inv q1 s1 (out ++ [r])).
Proof. split; [exact bfs_inv_init|]. intros. eapply push_all_bfs_inv; eauto. Qed.

Lemma iter_go_more_fuel f : forall f' m q s out x,
  iter_go f m q s out = Some x -> (f <= f')%nat -> iter_go f' m q s out = Some x.
Proof.
  induction f as [|f IH]; intros f' m q s out x H Hf; cbn [iter_go] in H; [discriminate|].
  destruct f' as [|f']; [lia|]. cbn [iter_go]. destruct q as [|r q]; [exact H|].
  destruct (push_all_derivs m r (pclass_ids (rcls r)) q s) as [[[m1 q1] s1]|]; cbn [bind] in *; [|discriminate].
  apply IH; [exact H|lia].
Qed.
Theorem iter_more_fuel fuel fuel' m e x :
  iter_derivatives fuel m e = Some x -> (fuel <= fuel')%nat -> iter_derivatives fuel' m e = Some x.
Proof. apply iter_go_more_fuel. Qed.

Lemma iter_go_count_fuel f : forall m q s out m' l,
  iter_go f m q s out = Some (m', l) ->
  exists k, length l = (length out + k)%nat /\ (k < f)%nat /\ iter_go (S k) m q s out = Some (m', l).
Proof.
  induction f as [|f IH]; intros m q s out m' l H; [discriminate|].
  pose proof H as H0. cbn [iter_go] in H. destruct q as [|r q].
  - inversion H; subst. exists O. split; [lia|]. split; [lia|]. reflexivity.
  - destruct (push_all_derivs m r (pclass_ids (rcls r)) q s) as [[[m1 q1] s1]|] eqn:E; cbn [bind] in H; [|discriminate].
    apply IH in H. destruct H as [k [Hl [Hk Hr]]]. exists (S k). rewrite app_length in Hl. cbn [length] in Hl.
    split; [lia|]. split; [lia|]. remember (S k) as k'. cbn [iter_go]. rewrite E. cbn [bind]. exact Hr.
Qed.
(* the run needs exactly one unit of fuel per yielded term plus one for the final empty pop *)
Theorem iter_count_fuel fuel m e m' l :
  iter_derivatives fuel m e = Some (m', l) ->
  (length l < fuel)%nat /\ iter_derivatives (S (length l)) m e = Some (m', l).
Proof.
  intros H. apply iter_go_count_fuel in H. destruct H as [k [Hl [Hk Hr]]]. cbn [length] in Hl.
  cbn [Nat.add] in Hl. subst k. split; auto.
Qed.

(* ------------------------------------------------------------------------------------------ *)
(** * Closure, reachability, completeness *)

(* manager [m] answers "the class derivative of r w.r.t. cid is d" from its cache *)
Definition cderiv (m : mgr) (r : re) (cid : classid) (d : re) : Prop :=
  cache_lookup (rid r) cid (cache m) = Some d.

Lemma cderiv_cached m r cid d : cderiv m r cid d -> cached_deriv r m cid = Some (m, d).
Proof. apply cached_deriv_hit. Qed.
Lemma cderiv_ext m m' r cid d : cache_ext m m' -> cderiv m r cid d -> cderiv m' r cid d.
Proof. intros E H. apply E. exact H. Qed.
Lemma cderiv_fun m r cid d d' : cderiv m r cid d -> cderiv m r cid d' -> d = d'.
Proof. unfold cderiv. congruence. Qed.

(* r is obtained from e by finitely many class derivatives (as answered by m) *)
Inductive dreach (m : mgr) (e : re) : re -> Prop :=
| dreach_root : dreach m e e
| dreach_step r cid d : dreach m e r -> In cid (pclass_ids (rcls r)) -> cderiv m r cid d -> dreach m e d.

Lemma dreach_ext m m' e r : cache_ext m m' -> dreach m e r -> dreach m' e r.
Proof.
  intros E H. induction H as [|r cid d _ IH Hc Hd]; [constructor|].
  eapply dreach_step; eauto. eapply cderiv_ext; eauto.
Qed.

Lemma push_all_cache r : ids_desc r -> forall cids m q s m1 q1 s1,
  push_all_derivs m r cids q s = Some (m1, q1, s1) ->
  cache_ext m m1 /\
  (forall i, In i (map rid s) -> In i (map rid s1)) /\
  (forall cid, In cid cids -> exists d, cderiv m1 r cid d /\ In (rid d) (map rid s1)) /\
  (forall x, In x q1 -> In x q \/ exists cid, In cid cids /\ cderiv m1 r cid x).
Proof.
  intros Hd. induction cids as [|cid t IH]; intros m q s m1 q1 s1 H; cbn [push_all_derivs] in H.
  - inversion H; subst. split; [apply cache_ext_refl|]. split; [auto|]. split; [intros c []|auto].
  - destruct (cached_deriv r m cid) as [[m2 d]|] eqn:E; cbn [bind] in H; [|discriminate].
    pose proof (cached_deriv_ext r m cid m2 d Hd E) as X1.
    pose proof (cached_deriv_lookup r m cid m2 d E) as L1.
    destruct (existsb (re_eqb d) s) eqn:Es.
    + apply IH in H. destruct H as [X2 [M2 [C2 Q2]]].
      split; [eapply cache_ext_trans; eauto|]. split; [exact M2|]. split.
      * intros c [Hc|Hc]; [|apply C2; exact Hc]. subst c. exists d. split; [apply X2; exact L1|].
        apply M2. apply existsb_re_eqb. exact Es.
      * intros x Hx. destruct (Q2 x Hx) as [Hq|[c [Hc Hx']]]; [left; exact Hq|].
        right. exists c. split; [right; exact Hc|exact Hx'].
    + apply IH in H. destruct H as [X2 [M2 [C2 Q2]]].
      split; [eapply cache_ext_trans; eauto|]. split; [|split].
      * intros i Hi. apply M2. cbn [map]. right. exact Hi.
      * intros c [Hc|Hc]; [|apply C2; exact Hc]. subst c. exists d. split; [apply X2; exact L1|].
        apply M2. cbn [map]. left. reflexivity.
      * intros x Hx. destruct (Q2 x Hx) as [Hq|[c [Hc Hx']]].
        -- apply in_app_or in Hq. destruct Hq as [Hq|[Hq|[]]]; [left; exact Hq|].
           subst x. right. exists cid. split; [left; reflexivity|apply X2; exact L1].
        -- right. exists c. split; [right; exact Hc|exact Hx'].
Qed.

Record iter_inv (e : re) (m : mgr) (q s out : list re) : Prop := {
  ii_bfs : bfs_inv q s out;
  ii_closed : forall r cid, In r out -> In cid (pclass_ids (rcls r)) ->
                exists d, cderiv m r cid d /\ In (rid d) (map rid (out ++ q));
  ii_reach : forall r, In r (out ++ q) -> dreach m e r
}.

Lemma iter_inv_init e m : iter_inv e m [e] [e] [].
Proof.
  split; [apply bfs_inv_init|intros r cid []|].
  intros r [Hr|[]]. subst. constructor.
Qed.

Lemma iter_go_inv e f : forall m q s out m' l,
  iter_go f m q s out = Some (m', l) -> Forall ids_desc l -> iter_inv e m q s out ->
  iter_inv e m' [] (rev l) l /\ cache_ext m m'.
Proof.
  induction f as [|f IH]; intros m q s out m' l H Hd Hi; [discriminate|].
  pose proof (iter_go_prefix _ _ _ _ _ _ _ H) as [l' Hl].
  cbn [iter_go] in H. destruct q as [|r q].
  - clear Hl. inversion H; subst m' l. split; [|apply cache_ext_refl].
    destruct Hi as [[Hs Hn] Hc Hr]. subst s. rewrite app_nil_r in *.
    split; [split; rewrite ?app_nil_r; auto| |]; rewrite ?app_nil_r; auto.
  - destruct (push_all_derivs m r (pclass_ids (rcls r)) q s) as [[[m1 q1] s1]|] eqn:E; cbn [bind] in H; [|discriminate].
    assert (Hdr : ids_desc r).
    { rewrite Forall_forall in Hd. apply Hd. rewrite Hl. apply in_or_app. right. left. reflexivity. }
    destruct Hi as [Hb Hc Hr].
    pose proof (push_all_bfs_inv _ _ _ _ _ _ _ _ _ Hb E) as Hb1.
    pose proof (push_all_cache r Hdr _ _ _ _ _ _ _ E) as [X [M [C Q]]].
    pose proof (push_all_struct _ _ _ _ _ _ _ _ E) as [new [Hq1 _]].
    assert (Hs : forall i, In i (map rid s) <-> In i (map rid (out ++ r :: q))).
    { destruct Hb as [Hs _]. intros i. rewrite Hs, map_rev. symmetry. apply in_rev. }
    assert (Hs1 : forall i, In i (map rid s1) <-> In i (map rid ((out ++ [r]) ++ q1))).
    { destruct Hb1 as [Hs1 _]. intros i. rewrite Hs1, map_rev. symmetry. apply in_rev. }
    assert (Hi1 : iter_inv e m1 q1 s1 (out ++ [r])).
    { split; [exact Hb1| |].
      - intros r0 cid Hr0 Hcid. apply in_app_or in Hr0. destruct Hr0 as [Hr0|[Hr0|[]]].
        + destruct (Hc r0 cid Hr0 Hcid) as [d [Hd1 Hd2]]. exists d. split; [eapply cderiv_ext; eauto|].
          apply Hs1, M, Hs. exact Hd2.
        + subst r0. destruct (C cid Hcid) as [d [Hd1 Hd2]]. exists d. split; [exact Hd1|].
          apply Hs1. exact Hd2.
      - intros x Hx. rewrite <- app_assoc in Hx. cbn [app] in Hx.
        assert (Hrr : dreach m1 e r).
        { eapply dreach_ext; [exact X|]. apply Hr. apply in_or_app. right. left. reflexivity. }
        apply in_app_or in Hx. destruct Hx as [Hx|[Hx|Hx]].
        + eapply dreach_ext; [exact X|]. apply Hr. apply in_or_app. left. exact Hx.
        + subst x. exact Hrr.
        + destruct (Q x Hx) as [Hq|[cid [Hcid Hx']]].
          * eapply dreach_ext; [exact X|]. apply Hr. apply in_or_app. right. right. exact Hq.
          * eapply dreach_step; eauto. }
    destruct (IH _ _ _ _ _ _ H Hd Hi1) as [Hfin X2]. split; [exact Hfin|].
    eapply cache_ext_trans; eauto.
Qed.

Lemma iter_inv_final fuel m e m' l :
  iter_derivatives fuel m e = Some (m', l) -> Forall ids_desc l ->
  iter_inv e m' [] (rev l) l /\ cache_ext m m'.
Proof. intros H Hd. eapply iter_go_inv; eauto. apply iter_inv_init. Qed.

(* the run only extends the cache of the initial manager *)
Theorem iter_cache_ext fuel m e m' l :
  iter_derivatives fuel m e = Some (m', l) -> Forall ids_desc l -> cache_ext m m'.
Proof. intros H Hd. apply (iter_inv_final _ _ _ _ _ H Hd). Qed.

(* closure: the final manager answers every class derivative of every yielded term from its
   cache (a hit: the manager is unchanged) with a yielded term.  "Yielded" is up to Rust's ==
   on RE, i.e. equality of ids. *)
Theorem iter_closed fuel m e m' l :
  iter_derivatives fuel m e = Some (m', l) -> Forall ids_desc l ->
  forall r cid, In r l -> In cid (pclass_ids (rcls r)) ->
  exists d, cached_deriv r m' cid = Some (m', d) /\ In (rid d) (map rid l).
Proof.
  intros H Hd r cid Hr Hc. destruct (iter_inv_final _ _ _ _ _ H Hd) as [[_ C _] _].
  destruct (C r cid Hr Hc) as [d [H1 H2]]. rewrite app_nil_r in H2. exists d. split; auto.
  apply cderiv_cached. exact H1.
Qed.

Theorem iter_reachable fuel m e m' l :
  iter_derivatives fuel m e = Some (m', l) -> Forall ids_desc l ->
  forall r, In r l -> dreach m' e r.
Proof.
  intros H Hd r Hr. destruct (iter_inv_final _ _ _ _ _ H Hd) as [[_ _ R] _].
  apply R. rewrite app_nil_r. exact Hr.
Qed.

(* ids determine terms on a set of terms (true of the terms owned by a wf manager) *)
Definition inj_ids (U : list re) : Prop := forall a b, In a U -> In b U -> rid a = rid b -> a = b.

Lemma cache_lookup_in i c l r : cache_lookup i c l = Some r -> In r (map snd l).
Proof.
  induction l as [|[[j d] x] t IH]; cbn [cache_lookup map]; [discriminate|].
  destruct ((i =? j) && classid_eqb c d); intros H; [inversion H; left; reflexivity|right; auto].
Qed.

Theorem iter_closed_in fuel m e m' l :
  iter_derivatives fuel m e = Some (m', l) -> Forall ids_desc l ->
  inj_ids (l ++ map snd (cache m')) ->
  forall r cid, In r l -> In cid (pclass_ids (rcls r)) ->
  exists d, cached_deriv r m' cid = Some (m', d) /\ In d l.
Proof.
  intros H Hd Hinj r cid Hr Hc. destruct (iter_inv_final _ _ _ _ _ H Hd) as [[_ C _] _].
  destruct (C r cid Hr Hc) as [d [H1 H2]]. rewrite app_nil_r in H2. exists d.
  split; [apply cderiv_cached; exact H1|].
  apply in_map_iff in H2. destruct H2 as [d0 [E0 H0]].
  assert (d0 = d); [|subst; exact H0].
  apply Hinj; auto; apply in_or_app; [left; exact H0|right]. eapply cache_lookup_in. exact H1.
Qed.

Theorem iter_complete fuel m e m' l :
  iter_derivatives fuel m e = Some (m', l) -> Forall ids_desc l ->
  inj_ids (l ++ map snd (cache m')) ->
  forall r, dreach m' e r -> In r l.
Proof.
  intros H Hd Hinj r Hr. induction Hr as [|r cid d _ IH Hc Hx].
  - destruct (iter_first _ _ _ _ _ H) as [t ->]. left. reflexivity.
  - destruct (iter_closed_in _ _ _ _ _ H Hd Hinj r cid IH Hc) as [d' [H1 H2]].
    apply cderiv_cached in Hx. rewrite Hx in H1. inversion H1; subst. exact H2.
Qed.

(* sufficient condition for [inj_ids]: every term sits at its own id in a common table *)
Definition owned_by (m : mgr) (u : re) : Prop := id_to_re m (rid u) = Some u.
Lemma owned_inj m U : Forall (owned_by m) U -> inj_ids U.
Proof.
  intros H a b Ha Hb E. rewrite Forall_forall in H. pose proof (H a Ha) as Xa. pose proof (H b Hb) as Xb.
  unfold owned_by in *. rewrite E in Xa. congruence.
Qed.

(* ------------------------------------------------------------------------------------------ *)
(** * is_empty_re against the full enumeration *)

Lemma iter_go_out f : forall m q s out,
  iter_go f m q s out = option_map (fun x => (fst x, out ++ snd x)) (iter_go f m q s []).
Proof.
  induction f as [|f IH]; intros m q s out; cbn [iter_go]; [reflexivity|].
  destruct q as [|r q]; [cbn; rewrite app_nil_r; reflexivity|].
  destruct (push_all_derivs m r (pclass_ids (rcls r)) q s) as [[[m1 q1] s1]|]; cbn [bind]; [|reflexivity].
  rewrite (IH m1 q1 s1 (out ++ [r])), (IH m1 q1 s1 ([] ++ [r])).
  destruct (iter_go f m1 q1 s1 []) as [[m2 l2]|]; cbn; [|reflexivity].
  rewrite <- app_assoc. reflexivity.
Qed.

Lemma empty_go_iter f : forall m q s m1 l,
  iter_go f m q s [] = Some (m1, l) ->
  exists m2, empty_go f m q s = Some (m2, forallb (fun x => negb (rnul x)) l).
Proof.
  induction f as [|f IH]; intros m q s m1 l H; cbn [iter_go] in H; [discriminate|]. cbn [empty_go].
  destruct q as [|r q].
  - inversion H; subst. exists m1. reflexivity.
  - destruct (push_all_derivs m r (pclass_ids (rcls r)) q s) as [[[m' q1] s1]|]; cbn [bind] in *; [|discriminate].
    rewrite iter_go_out in H. destruct (iter_go f m' q1 s1 []) as [[m2 l2]|] eqn:E; cbn in H; [|discriminate].
    inversion H; subst. cbn [forallb]. destruct (rnul r); cbn [negb andb].
    + exists m'. reflexivity.
    + apply IH in E. exact E.
Qed.

(* is_empty_re stops at the first nullable term popped, so its final manager may be an earlier
   one, but its answer is that of scanning the whole enumeration *)
Theorem is_empty_re_iter fuel m e m1 l :
  iter_derivatives fuel m e = Some (m1, l) ->
  exists m2, is_empty_re fuel m e = Some (m2, forallb (fun x => negb (rnul x)) l).
Proof. apply empty_go_iter. Qed.

(* ------------------------------------------------------------------------------------------ *)
(** * compile_with_bound: builder bookkeeping *)
Open Scope nat_scope.

Definition bkeys (b : builder) : list N := map fst (id_map b).
Definition bwf (b : builder) : Prop := length (bstates b) = length (id_map b).

Lemma find_key_none k l : find_key k l = None <-> ~ In k (map fst l).
Proof.
  induction l as [|[k' i] t IH]; cbn [find_key map fst In]; [tauto|].
  destruct (N.eqb k k') eqn:E.
  - apply N.eqb_eq in E. subst. split; [discriminate|]. intros H. exfalso. apply H. left. reflexivity.
  - apply N.eqb_neq in E. rewrite IH. split; [intros H [X|X]; [congruence|tauto]|tauto].
Qed.

Lemma gsi_in b k : In k (bkeys b) -> fst (get_state_id b k) = b.
Proof.
  intros H. unfold get_state_id. destruct (find_key k (id_map b)) eqn:E; [reflexivity|].
  apply find_key_none in E. contradiction.
Qed.
Lemma gsi_notin b k : ~ In k (bkeys b) ->
  bkeys (fst (get_state_id b k)) = bkeys b ++ [k] /\ (bwf b -> bwf (fst (get_state_id b k))).
Proof.
  intros H. apply find_key_none in H. unfold get_state_id. rewrite H. cbn [fst]. unfold bkeys, bwf.
  cbn [id_map bstates]. rewrite map_app, !app_length. cbn. split; [reflexivity|]. intros E. rewrite E. reflexivity.
Qed.

Lemma upd_length {A} (l : list A) : forall i x, length (upd l i x) = length l.
Proof. induction l as [|y t IH]; intros [|i] x; cbn; auto. Qed.
Lemma upd_state_keys b i f : bkeys (upd_state b i f) = bkeys b.
Proof. reflexivity. Qed.
Lemma upd_state_bwf b i f : bwf b -> bwf (upd_state b i f).
Proof. unfold bwf, upd_state. cbn [bstates id_map]. rewrite upd_length. auto. Qed.

(* binv: the builder knows exactly the ids of the seen terms, in insertion order *)
Definition binv (b : builder) (s : list re) : Prop := bkeys b = rev (map rid s) /\ bwf b.

Lemma binv_gsi_seen b s k : binv b s -> In k (map rid s) -> fst (get_state_id b k) = b.
Proof. intros [Hk _] H. apply gsi_in. rewrite Hk, <- in_rev. exact H. Qed.

(* the BfsQueue push, as it appears in compile_with_bound *)
Definition cpush (d : re) (q s : list re) : list re * list re :=
  if existsb (re_eqb d) s then (q, s) else (q ++ [d], d :: s).

Lemma binv_gsi_push b q s d : binv b s -> binv (fst (get_state_id b (rid d))) (snd (cpush d q s)).
Proof.
  intros [Hk Hw]. unfold cpush. destruct (existsb (re_eqb d) s) eqn:E; cbn [snd].
  - rewrite gsi_in; [split; auto|]. rewrite Hk, <- in_rev. apply existsb_re_eqb. exact E.
  - assert (Hn : ~ In (rid d) (bkeys b)).
    { rewrite Hk, <- in_rev. intros Hi. apply existsb_re_eqb in Hi. congruence. }
    destruct (gsi_notin b (rid d) Hn) as [K W]. split; [|auto].
    rewrite K, Hk. cbn [map rev]. reflexivity.
Qed.

Lemma binv_add_transition b q s e set d :
  binv b s -> In (rid e) (map rid s) -> binv (b_add_transition b (rid e) set (rid d)) (snd (cpush d q s)).
Proof.
  intros Hb He. unfold b_add_transition.
  pose proof (binv_gsi_seen b s (rid e) Hb He) as E1.
  destruct (get_state_id b (rid e)) as [b1 i]. cbn [fst] in E1. subst b1.
  pose proof (binv_gsi_push b q s d Hb) as [K W].
  destruct (get_state_id b (rid d)) as [b2 j]. cbn [fst] in *.
  split; [rewrite upd_state_keys; exact K|apply upd_state_bwf; exact W].
Qed.
Lemma binv_set_default b q s e d :
  binv b s -> In (rid e) (map rid s) -> binv (b_set_default b (rid e) (rid d)) (snd (cpush d q s)).
Proof.
  intros Hb He. unfold b_set_default.
  pose proof (binv_gsi_seen b s (rid e) Hb He) as E1.
  destruct (get_state_id b (rid e)) as [b1 i]. cbn [fst] in E1. subst b1.
  pose proof (binv_gsi_push b q s d Hb) as [K W].
  destruct (get_state_id b (rid d)) as [b2 j]. cbn [fst] in *.
  split; [rewrite upd_state_keys; exact K|apply upd_state_bwf; exact W].
Qed.
Lemma binv_mark_final b s e : binv b s -> In (rid e) (map rid s) -> binv (b_mark_final b (rid e)) s.
Proof.
  intros Hb He. unfold b_mark_final.
  pose proof (binv_gsi_seen b s (rid e) Hb He) as E1.
  destruct (get_state_id b (rid e)) as [b1 i]. cbn [fst] in E1. subst b1.
  destruct Hb as [K W]. split; [rewrite upd_state_keys; exact K|apply upd_state_bwf; exact W].
Qed.
Lemma binv_new e : binv (b_new (rid e)) [e].
Proof. unfold b_new, get_state_id. cbn. split; reflexivity. Qed.

Lemma cpush_struct d q s : exists new, fst (cpush d q s) = q ++ new /\ snd (cpush d q s) = rev new ++ s.
Proof.
  unfold cpush. destruct (existsb (re_eqb d) s).
  - exists []. rewrite app_nil_r. split; reflexivity.
  - exists [d]. split; reflexivity.
Qed.

Lemma compile_ranges_unfold m e set t i q s b :
  compile_ranges m e (set :: t) i q s b =
  match pclass_of_set (rcls e) set with
  | None | Some None => None
  | Some (Some cid) =>
    match cached_deriv e m cid with
    | None => None
    | Some (m1, d) =>
      compile_ranges m1 e t (S i) (fst (cpush d q s)) (snd (cpush d q s)) (b_add_transition b (rid e) set (rid d))
    end
  end.
Proof.
  cbn [compile_ranges]. destruct (pclass_of_set (rcls e) set) as [[cid|]|]; try reflexivity.
  destruct (cached_deriv e m cid) as [[m1 d]|]; try reflexivity.
  unfold cpush. destruct (existsb (re_eqb d) s); reflexivity.
Qed.

Lemma compile_ranges_struct e : forall sets i m q s b m1 q1 s1 b1,
  compile_ranges m e sets i q s b = Some (m1, q1, s1, b1) ->
  In (rid e) (map rid s) -> binv b s ->
  (exists new, q1 = q ++ new /\ s1 = rev new ++ s) /\ binv b1 s1.
Proof.
  induction sets as [|set t IH]; intros i m q s b m1 q1 s1 b1 H He Hb.
  - cbn in H. inversion H; subst. split; [exists []; rewrite app_nil_r; auto|exact Hb].
  - rewrite compile_ranges_unfold in H.
    destruct (pclass_of_set (rcls e) set) as [[cid|]|]; try discriminate.
    destruct (cached_deriv e m cid) as [[m2 d]|]; try discriminate.
    destruct (cpush_struct d q s) as [n1 [Eq Es]].
    apply IH in H.
    + destruct H as [[n2 [Hq Hs]] Hb1]. split; [|exact Hb1].
      exists (n1 ++ n2). rewrite Hq, Hs, Eq, Es, rev_app_distr, <- !app_assoc. auto.
    + rewrite Es, map_app. apply in_or_app. right. exact He.
    + apply binv_add_transition; auto.
Qed.

(* one iteration of the while loop of compile_with_bound, after the bound test *)
Definition compile_step (m : mgr) (e : re) (q s : list re) (b : builder)
  : option (mgr * list re * list re * builder) :=
  match compile_ranges m e (ivs (rcls e)) 0 q s b with
  | None => None
  | Some (m1, q1, s1, b1) =>
    let r2 := if pempty_complement (rcls e) then Some (m1, q1, s1, b1)
              else match cached_deriv e m1 CComp with
                   | None => None
                   | Some (m2, d) =>
                     Some (m2, fst (cpush d q1 s1), snd (cpush d q1 s1), b_set_default b1 (rid e) (rid d))
                   end in
    match r2 with
    | None => None
    | Some (m2, q2, s2, b2) => Some (m2, q2, s2, if rnul e then b_mark_final b2 (rid e) else b2)
    end
  end.

Lemma compile_go_unfold f m e q s b count mx :
  compile_go (S f) m (e :: q) s b count mx =
  if Nat.eqb count mx then Some (m, None) else
  match compile_step m e q s b with
  | None => None
  | Some (m2, q2, s2, b3) => compile_go f m2 q2 s2 b3 (S count) mx
  end.
Proof.
  cbn [compile_go]. destruct (Nat.eqb count mx); [reflexivity|]. unfold compile_step.
  destruct (compile_ranges m e (ivs (rcls e)) 0 q s b) as [[[[m1 q1] s1] b1]|]; [|reflexivity].
  destruct (pempty_complement (rcls e)); [reflexivity|].
  destruct (cached_deriv e m1 CComp) as [[m2 d]|]; [|reflexivity].
  unfold cpush. destruct (existsb (re_eqb d) s1); reflexivity.
Qed.

Lemma compile_step_struct m e q s b m2 q2 s2 b2 :
  compile_step m e q s b = Some (m2, q2, s2, b2) ->
  In (rid e) (map rid s) -> binv b s ->
  (exists new, q2 = q ++ new /\ s2 = rev new ++ s) /\ binv b2 s2.
Proof.
  unfold compile_step. intros H He Hb.
  destruct (compile_ranges m e (ivs (rcls e)) 0 q s b) as [[[[m1 q1] s1] b1]|] eqn:E; [|discriminate].
  apply compile_ranges_struct in E; auto. destruct E as [[n1 [Hq Hs]] Hb1].
  assert (He1 : In (rid e) (map rid s1)).
  { rewrite Hs, map_app. apply in_or_app. right. exact He. }
  assert (G : forall q3 s3 b3, (exists new, q3 = q ++ new /\ s3 = rev new ++ s) /\ binv b3 s3 ->
                In (rid e) (map rid s3) ->
                Some (m2, q2, s2, b2) = Some (m2, q3, s3, if rnul e then b_mark_final b3 (rid e) else b3) ->
                (exists new, q2 = q ++ new /\ s2 = rev new ++ s) /\ binv b2 s2).
  { intros q3 s3 b3 [X Y] Z W. inversion W; subst. split; [exact X|].
    destruct (rnul e); [apply binv_mark_final; auto|exact Y]. }
  destruct (pempty_complement (rcls e)).
  - inversion H; subst. eapply G; [| |reflexivity]; eauto.
  - destruct (cached_deriv e m1 CComp) as [[m3 d]|]; [|discriminate].
    destruct (cpush_struct d q1 s1) as [n2 [Eq Es]].
    inversion H; subst m3 q2 s2 b2. eapply G; [| |reflexivity].
    + split; [|apply binv_set_default; auto].
      exists (n1 ++ n2). rewrite Eq, Es, Hq, Hs, rev_app_distr, <- !app_assoc. auto.
    + rewrite Es, map_app. apply in_or_app. right. exact He1.
Qed.

Lemma build_states_length l : forall i sts, build_states l i = Some sts -> length sts = length l.
Proof.
  induction l as [|x t IH]; intros i sts H; cbn [build_states] in H.
  - inversion H; reflexivity.
  - destruct (ptry_from_list (map fst (s_trans (cleanup x)))); [|discriminate].
    destruct (make_successor (cleanup x) p); [|discriminate].
    destruct (build_states t (S i)) eqn:E; [|discriminate].
    inversion H; subst. cbn [length]. f_equal. eapply IH; eauto.
Qed.
Lemma build_unchecked_states b A : build_unchecked b = Some A -> num_states A = length (bstates b).
Proof.
  unfold build_unchecked. destruct (build_states (bstates b) 0) eqn:E; [|discriminate].
  intros H; inversion H; subst. cbn [num_states]. eapply build_states_length; eauto.
Qed.

(* the loop invariant of compile_with_bound that needs no derivative facts: state_count is the
   number of popped terms, the builder has one state per seen term *)
Lemma compile_go_bound f : forall m q s b count mx out m' b',
  compile_go f m q s b count mx = Some (m', Some b') ->
  count = length out -> s = rev (out ++ q) -> binv b s -> count <= mx ->
  length (bstates b') <= mx.
Proof.
  induction f as [|f IH]; intros m q s b count mx out m' b' H Hc Hs Hb Hm; [discriminate|].
  destruct q as [|e q].
  - cbn [compile_go] in H. inversion H; subst b' m'. destruct Hb as [K W]. rewrite W.
    unfold bkeys in K. rewrite <- (map_length fst), K, rev_length, map_length, Hs, rev_length, app_nil_r. lia.
  - rewrite compile_go_unfold in H. destruct (Nat.eqb count mx) eqn:Ec; [discriminate|].
    apply Nat.eqb_neq in Ec.
    destruct (compile_step m e q s b) as [[[[m2 q2] s2] b2]|] eqn:E; [|discriminate].
    apply compile_step_struct in E; auto.
    + destruct E as [[new [Hq Hs2]] Hb2].
      eapply (IH _ _ _ _ _ _ (out ++ [e])); eauto.
      * rewrite app_length. cbn. lia.
      * rewrite Hs2, Hq, Hs, <- rev_app_distr, <- !app_assoc. reflexivity.
      * lia.
    + rewrite Hs, map_rev, <- in_rev, map_app. apply in_or_app. right. left. reflexivity.
Qed.

Theorem try_compile_zero fuel m e : compile_with_bound fuel m e (Some 0) = Some (m, None).
Proof. reflexivity. Qed.

Theorem try_compile_bound fuel m e n m' A :
  compile_with_bound fuel m e (Some n) = Some (m', Some A) -> 0 < n /\ num_states A <= n.
Proof.
  destruct n as [|n]; [discriminate|]. unfold compile_with_bound. intros H. split; [lia|].
  destruct (compile_go fuel m [e] [e] (b_new (rid e)) 0 (S n)) as [[m1 [b|]]|] eqn:E; try discriminate.
  destruct (build_unchecked b) as [a|] eqn:Eb; [|discriminate]. inversion H; subst.
  rewrite (build_unchecked_states _ _ Eb).
  eapply (compile_go_bound _ _ _ _ _ _ _ []); eauto; [apply binv_new|lia].
Qed.

(* usize::MAX is modelled by a bound the loop cannot reach *)
Lemma compile_go_none f : forall m q s b count mx m',
  compile_go f m q s b count mx = Some (m', None) -> mx < count + f.
Proof.
  induction f as [|f IH]; intros m q s b count mx m' H; [discriminate|].
  destruct q as [|e q]; [discriminate|].
  rewrite compile_go_unfold in H. destruct (Nat.eqb count mx) eqn:Ec.
  - apply Nat.eqb_eq in Ec. lia.
  - destruct (compile_step m e q s b) as [[[[m2 q2] s2] b2]|]; [|discriminate].
    apply IH in H. lia.
Qed.
Theorem compile_some fuel m e m' oa :
  compile_with_bound fuel m e None = Some (m', oa) -> exists A, oa = Some A.
Proof.
  unfold compile_with_bound. intros H.
  destruct (compile_go fuel m [e] [e] (b_new (rid e)) 0 (S fuel)) as [[m1 [b|]]|] eqn:E; try discriminate.
  - destruct (build_unchecked b) as [a|]; [|discriminate]. inversion H; subst. eauto.
  - apply compile_go_none in E. lia.
Qed.

(* ------------------------------------------------------------------------------------------ *)
(** * compile_with_bound runs the iterator's BFS *)

Lemma push_all_derivs_app r c1 : forall c2 m q s,
  push_all_derivs m r (c1 ++ c2) q s =
  match push_all_derivs m r c1 q s with
  | Some (m1, q1, s1) => push_all_derivs m1 r c2 q1 s1
  | None => None
  end.
Proof.
  induction c1 as [|c t IH]; intros c2 m q s; cbn [app push_all_derivs]; [reflexivity|].
  destruct (cached_deriv r m c) as [[m1 d]|]; cbn [bind]; [|reflexivity].
  destruct (existsb (re_eqb d) s); apply IH.
Qed.

(* set_derivative_unchecked(e, i-th interval of e's classes) = class derivative w.r.t. Interval(i) *)
Lemma pclass_of_set_own p j set :
  pwf p -> nth_error (ivs p) j = Some set -> pclass_of_set p set = Some (Some (CInt j)).
Proof.
  intros Hp Hn. pose proof (pwf_sorted p Hp) as Hs.
  pose proof (sorted_nth_valid _ _ _ Hs Hn) as Hv.
  destruct (c11_class_of_set p set Hp Hv) as [r [Hr [Hi _]]]. rewrite Hr. f_equal.
  apply Hi. exists set. split; auto.
Qed.

Definition drop_builder (x : mgr * list re * list re * builder) : mgr * list re * list re :=
  match x with (m, q, s, _) => (m, q, s) end.

Lemma compile_ranges_push e : forall sets i m q s b,
  (forall j set, nth_error sets j = Some set -> pclass_of_set (rcls e) set = Some (Some (CInt (i + j)))) ->
  option_map drop_builder (compile_ranges m e sets i q s b) =
  push_all_derivs m e (map CInt (seq i (length sets))) q s.
Proof.
  induction sets as [|set t IH]; intros i m q s b H; [reflexivity|].
  rewrite compile_ranges_unfold. cbn [length seq map push_all_derivs].
  rewrite (H 0 set eq_refl), Nat.add_0_r.
  destruct (cached_deriv e m (CInt i)) as [[m1 d]|]; cbn [bind]; [|reflexivity].
  rewrite IH.
  - unfold cpush. destruct (existsb (re_eqb d) s); reflexivity.
  - intros j set' Hj. rewrite (H (S j) set' Hj). do 3 f_equal. lia.
Qed.

Lemma compile_step_push m e q s b : pwf (rcls e) ->
  option_map drop_builder (compile_step m e q s b) = push_all_derivs m e (pclass_ids (rcls e)) q s.
Proof.
  intros Hp. unfold pclass_ids. rewrite push_all_derivs_app.
  unfold plen. rewrite <- (compile_ranges_push e (ivs (rcls e)) 0 m q s b).
  2:{ intros j set Hj. apply pclass_of_set_own; auto. }
  unfold compile_step.
  destruct (compile_ranges m e (ivs (rcls e)) 0 q s b) as [[[[m1 q1] s1] b1]|]; [|reflexivity].
  cbn [option_map drop_builder]. destruct (pempty_complement (rcls e)); [reflexivity|].
  cbn [push_all_derivs]. destruct (cached_deriv e m1 CComp) as [[m2 d]|]; cbn [bind]; [|reflexivity].
  unfold cpush. destruct (existsb (re_eqb d) s1); reflexivity.
Qed.

Definition cls_ok (l : list re) : Prop := Forall (fun r => pwf (rcls r)) l.

(* Both loops completed: same manager, one builder state per yielded term, and the bound is
   hit exactly when more terms are yielded than allowed. *)
Lemma compile_go_iter f : forall f' m q s b count mx out x m1 l,
  compile_go f m q s b count mx = Some x ->
  iter_go f' m q s out = Some (m1, l) -> cls_ok l ->
  count = length out -> bfs_inv q s out -> binv b s -> count <= mx ->
  match x with
  | (m2, Some b') => m2 = m1 /\ length (bstates b') = length l /\ length l <= mx
  | (_, None) => mx < length l
  end.
Proof.
  induction f as [|f IH]; intros f' m q s b count mx out x m1 l H Hi Hcl Hc Hbfs Hb Hm; [discriminate|].
  destruct f' as [|f']; [discriminate|].
  pose proof (iter_go_prefix _ _ _ _ _ _ _ Hi) as [l' Hl].
  destruct q as [|e q].
  - clear Hl. cbn [compile_go] in H. cbn [iter_go] in Hi. inversion H; subst x. inversion Hi; subst m1 l.
    split; [reflexivity|]. destruct Hb as [K W]. destruct Hbfs as [Hs _]. rewrite W.
    unfold bkeys in K. rewrite <- (map_length fst), K, rev_length, map_length, Hs, rev_length, app_nil_r. lia.
  - rewrite compile_go_unfold in H. cbn [iter_go] in Hi.
    destruct (Nat.eqb count mx) eqn:Ec.
    + apply Nat.eqb_eq in Ec. inversion H; subst x. rewrite Hl, !app_length. cbn [length]. lia.
    + apply Nat.eqb_neq in Ec.
      assert (Hp : pwf (rcls e)).
      { unfold cls_ok in Hcl. rewrite Forall_forall in Hcl. apply Hcl. rewrite Hl.
        apply in_or_app. right. left. reflexivity. }
      pose proof (compile_step_push m e q s b Hp) as P.
      destruct (compile_step m e q s b) as [[[[m2 q2] s2] b2]|] eqn:E; [|discriminate].
      cbn [option_map drop_builder] in P. rewrite <- P in Hi. cbn [bind] in Hi.
      assert (He : In (rid e) (map rid s)).
      { destruct Hbfs as [Hs _]. rewrite Hs, map_rev, <- in_rev, map_app. apply in_or_app. right. left. reflexivity. }
      pose proof (compile_step_struct _ _ _ _ _ _ _ _ _ E He Hb) as [_ Hb2].
      eapply (IH f' m2 q2 s2 b2 (S count) mx (out ++ [e])); eauto.
      * rewrite app_length. cbn. lia.
      * eapply push_all_bfs_inv; eauto.
      * lia.
Qed.

(* The enumeration completed => the loop of compile_with_bound completes on the same fuel
   (none of its unwrap()s panics) and its outcome is decided by the bound. *)
Lemma compile_go_of_iter f : forall m q s b count mx out m1 l,
  iter_go f m q s out = Some (m1, l) -> cls_ok l ->
  count = length out -> bfs_inv q s out -> binv b s -> count <= mx ->
  if Nat.leb (length l) mx
  then exists b', compile_go f m q s b count mx = Some (m1, Some b') /\ length (bstates b') = length l
  else exists m2, compile_go f m q s b count mx = Some (m2, None).
Proof.
  induction f as [|f IH]; intros m q s b count mx out m1 l Hi Hcl Hc Hbfs Hb Hm; [discriminate|].
  pose proof (iter_go_prefix _ _ _ _ _ _ _ Hi) as [l' Hl].
  destruct q as [|e q].
  - clear Hl. cbn [compile_go]. cbn [iter_go] in Hi. inversion Hi; subst m1 l.
    assert (E : Nat.leb (length out) mx = true) by (apply Nat.leb_le; lia). rewrite E.
    exists b. split; [reflexivity|]. destruct Hb as [K W]. destruct Hbfs as [Hs _]. rewrite W.
    unfold bkeys in K. rewrite <- (map_length fst), K, rev_length, map_length, Hs, rev_length, app_nil_r. lia.
  - rewrite compile_go_unfold. cbn [iter_go] in Hi.
    destruct (Nat.eqb count mx) eqn:Ec.
    + apply Nat.eqb_eq in Ec.
      assert (E : Nat.leb (length l) mx = false).
      { apply Nat.leb_gt. rewrite Hl, !app_length. cbn [length]. lia. }
      rewrite E. eauto.
    + apply Nat.eqb_neq in Ec.
      assert (Hp : pwf (rcls e)).
      { unfold cls_ok in Hcl. rewrite Forall_forall in Hcl. apply Hcl. rewrite Hl.
        apply in_or_app. right. left. reflexivity. }
      pose proof (compile_step_push m e q s b Hp) as P.
      destruct (push_all_derivs m e (pclass_ids (rcls e)) q s) as [[[m2 q2] s2]|] eqn:Ep; cbn [bind] in Hi; [|discriminate].
      destruct (compile_step m e q s b) as [[[[m2' q2'] s2'] b2]|] eqn:E; [|discriminate].
      cbn [option_map drop_builder] in P. inversion P; subst m2' q2' s2'.
      assert (He : In (rid e) (map rid s)).
      { destruct Hbfs as [Hs _]. rewrite Hs, map_rev, <- in_rev, map_app. apply in_or_app. right. left. reflexivity. }
      pose proof (compile_step_struct _ _ _ _ _ _ _ _ _ E He Hb) as [_ Hb2].
      apply (IH m2 q2 s2 b2 (S count) mx (out ++ [e])); auto.
      * rewrite app_length. cbn. lia.
      * eapply push_all_bfs_inv; eauto.
      * lia.
Qed.

Theorem compile_states_are_iter fuel fuel' m e m1 l m2 A :
  iter_derivatives fuel m e = Some (m1, l) -> cls_ok l ->
  compile_with_bound fuel' m e None = Some (m2, Some A) ->
  num_states A = length l /\ m2 = m1.
Proof.
  intros Hi Hcl H. unfold compile_with_bound in H.
  destruct (compile_go fuel' m [e] [e] (b_new (rid e)) 0 (S fuel')) as [[m3 [b|]]|] eqn:E; try discriminate.
  destruct (build_unchecked b) as [a|] eqn:Eb; [|discriminate]. inversion H; subst.
  pose proof (compile_go_iter _ _ _ _ _ _ _ _ [] _ _ _ E Hi Hcl eq_refl (bfs_inv_init e) (binv_new e) (Nat.le_0_l _)) as X.
  cbn in X. destruct X as [X1 [X2 _]]. rewrite (build_unchecked_states _ _ Eb). auto.
Qed.

Theorem try_compile_states_are_iter fuel fuel' m e m1 l n m2 A :
  iter_derivatives fuel m e = Some (m1, l) -> cls_ok l ->
  compile_with_bound fuel' m e (Some n) = Some (m2, Some A) ->
  num_states A = length l /\ m2 = m1.
Proof.
  intros Hi Hcl H. destruct n as [|n]; [discriminate|]. unfold compile_with_bound in H.
  destruct (compile_go fuel' m [e] [e] (b_new (rid e)) 0 (S n)) as [[m3 [b|]]|] eqn:E; try discriminate.
  destruct (build_unchecked b) as [a|] eqn:Eb; [|discriminate]. inversion H; subst.
  pose proof (compile_go_iter _ _ _ _ _ _ _ _ [] _ _ _ E Hi Hcl eq_refl (bfs_inv_init e) (binv_new e) (Nat.le_0_l _)) as X.
  cbn in X. destruct X as [X1 [X2 _]]. rewrite (build_unchecked_states _ _ Eb). auto.
Qed.

Theorem try_compile_some_iff fuel fuel' m e m1 l n m2 oa :
  iter_derivatives fuel m e = Some (m1, l) -> cls_ok l ->
  compile_with_bound fuel' m e (Some n) = Some (m2, oa) ->
  ((exists A, oa = Some A) <-> length l <= n).
Proof.
  intros Hi Hcl H. destruct n as [|n].
  - cbn in H. inversion H; subst. destruct (iter_first _ _ _ _ _ Hi) as [t ->]. cbn [length].
    split; [intros [A HA]; discriminate|lia].
  - unfold compile_with_bound in H.
    destruct (compile_go fuel' m [e] [e] (b_new (rid e)) 0 (S n)) as [[m3 ob]|] eqn:E; [|discriminate].
    pose proof (compile_go_iter _ _ _ _ _ _ _ _ [] _ _ _ E Hi Hcl eq_refl (bfs_inv_init e) (binv_new e) (Nat.le_0_l _)) as X.
    cbn in X. destruct ob as [b|].
    + destruct (build_unchecked b) as [a|]; [|discriminate]. inversion H; subst.
      destruct X as [_ [_ X]]. split; [intros _; exact X|eauto].
    + inversion H; subst. split; [intros [A HA]; discriminate|lia].
Qed.

(* compile(e) never fails when the enumeration terminates: with the iterator's fuel the loop ends
   with a builder of |l| states in the iterator's final manager; what is left is build_unchecked *)
Theorem compile_of_iter fuel m e m1 l :
  iter_derivatives fuel m e = Some (m1, l) -> cls_ok l ->
  exists b, length (bstates b) = length l /\
    compile_with_bound fuel m e None =
      match build_unchecked b with Some a => Some (m1, Some a) | None => None end.
Proof.
  intros Hi Hcl.
  pose proof (compile_go_of_iter fuel m [e] [e] (b_new (rid e)) 0 (S fuel) [] m1 l Hi Hcl eq_refl
                (bfs_inv_init e) (binv_new e) (Nat.le_0_l _)) as X.
  destruct (iter_count_fuel _ _ _ _ _ Hi) as [Hlt _].
  assert (E : Nat.leb (length l) (S fuel) = true) by (apply Nat.leb_le; lia).
  rewrite E in X. destruct X as [b [X1 X2]]. exists b. split; [exact X2|].
  unfold compile_with_bound. rewrite X1. reflexivity.
Qed.

Theorem try_compile_of_iter fuel m e m1 l n :
  iter_derivatives fuel m e = Some (m1, l) -> cls_ok l ->
  if Nat.leb (length l) n
  then exists b, length (bstates b) = length l /\
         compile_with_bound fuel m e (Some n) =
           match build_unchecked b with Some a => Some (m1, Some a) | None => None end
  else exists m2, compile_with_bound fuel m e (Some n) = Some (m2, None).
Proof.
  intros Hi Hcl. destruct n as [|n].
  - destruct (iter_first _ _ _ _ _ Hi) as [t ->]. cbn. eauto.
  - pose proof (compile_go_of_iter fuel m [e] [e] (b_new (rid e)) 0 (S n) [] m1 l Hi Hcl eq_refl
                (bfs_inv_init e) (binv_new e) (Nat.le_0_l _)) as X.
    destruct (Nat.leb (length l) (S n)).
    + destruct X as [b [X1 X2]]. exists b. split; [exact X2|]. unfold compile_with_bound. rewrite X1. reflexivity.
    + destruct X as [m2 X]. exists m2. unfold compile_with_bound. rewrite X. reflexivity.
Qed.

(* ------------------------------------------------------------------------------------------ *)
(** * get_string: the LabeledQueue (structural facts for C05) *)
Open Scope N_scope.

Lemma lq_find_app i l1 l2 :
  lq_find i (l1 ++ l2) = match lq_find i l1 with Some x => Some x | None => lq_find i l2 end.
Proof.
  induction l1 as [|[n x] t IH]; cbn [app lq_find]; [reflexivity|].
  destruct (rid n =? i); [reflexivity|exact IH].
Qed.
Lemma lq_find_some_iff i l : (exists x, lq_find i l = Some x) <-> In i (map rid (map fst l)).
Proof.
  induction l as [|[n x] t IH]; cbn [lq_find map fst In].
  - split; [intros [x H]; discriminate|intros []].
  - destruct (rid n =? i) eqn:E.
    + apply N.eqb_eq in E. split; eauto.
    + apply N.eqb_neq in E. rewrite IH. split; [auto|intros [H|H]; [contradiction|exact H]].
Qed.

(* predecessor-map invariant: the map is the root followed by entries (d, Pred(cid, pre)) where
   pre was inserted earlier, d is new (by id) and d = class derivative of pre w.r.t. cid
   according to m's cache *)
Inductive lq_ok (m : mgr) (e : re) : lqmap -> Prop :=
| lq_root : lq_ok m e [(e, None)]
| lq_snoc mp d cid pre : lq_ok m e mp -> In pre (map fst mp) -> lq_find (rid d) mp = None ->
    In cid (pclass_ids (rcls pre)) -> cderiv m pre cid d -> lq_ok m e (mp ++ [(d, Some (cid, pre))]).

Lemma lq_ok_ext m m' e mp : cache_ext m m' -> lq_ok m e mp -> lq_ok m' e mp.
Proof.
  intros X H. induction H; [constructor|]. constructor; auto. eapply cderiv_ext; eauto.
Qed.

Lemma lq_ok_find m e mp : lq_ok m e mp -> forall x edge, In (x, edge) mp -> lq_find (rid x) mp = Some edge.
Proof.
  induction 1 as [|mp d cid pre H IH Hp Hn Hc Hd]; intros x edge Hi.
  - destruct Hi as [Hi|[]]. inversion Hi; subst. cbn [lq_find]. rewrite N.eqb_refl. reflexivity.
  - rewrite lq_find_app. apply in_app_or in Hi. destruct Hi as [Hi|[Hi|[]]].
    + rewrite (IH _ _ Hi). reflexivity.
    + inversion Hi; subst. rewrite Hn. cbn [lq_find]. rewrite N.eqb_refl. reflexivity.
Qed.

(* a labelled path r --cid--> ... ending in x, every edge answered by m's cache *)
Inductive dpath (m : mgr) : re -> list (re * classid) -> re -> Prop :=
| dp_nil r : dpath m r [] r
| dp_cons r cid d p x : In cid (pclass_ids (rcls r)) -> cderiv m r cid d -> dpath m d p x ->
    dpath m r ((r, cid) :: p) x.

Lemma dpath_ext m m' r p x : cache_ext m m' -> dpath m r p x -> dpath m' r p x.
Proof. intros X H. induction H; [constructor|]. econstructor; eauto. eapply cderiv_ext; eauto. Qed.
Lemma dpath_dreach m e p x : forall r, dreach m e r -> dpath m r p x -> dreach m e x.
Proof.
  intros r Hr H. induction H as [|r cid d p x Hc Hd _ IH]; [exact Hr|].
  apply IH. eapply dreach_step; eauto.
Qed.

Lemma path_go_more_fuel f : forall f' mp edge acc p,
  path_go f mp edge acc = Some p -> (f <= f')%nat -> path_go f' mp edge acc = Some p.
Proof.
  induction f as [|f IH]; intros f' mp edge acc p H Hf; [discriminate|].
  destruct f' as [|f']; [lia|]. cbn [path_go] in *. destruct edge as [[lbl node]|]; [|exact H].
  destruct (lq_find (rid node) mp) as [e'|]; cbn [bind] in *; [|discriminate]. apply IH; [exact H|lia].
Qed.

(* path reconstruction terminates within the size of the map (fuel = number of entries inserted
   up to the node, + 1) and returns a path from the root whose nodes are all in the map *)
Lemma path_go_prefix m e mp : lq_ok m e mp -> forall rest x edge acc target,
  In (x, edge) mp -> dpath m x acc target -> Forall (fun rc => In (fst rc) (map fst (mp ++ rest))) acc ->
  exists p, path_go (S (length mp)) (mp ++ rest) edge acc = Some p /\ dpath m e p target /\
            Forall (fun rc => In (fst rc) (map fst (mp ++ rest))) p.
Proof.
  induction 1 as [|mp d cid pre H IH Hp Hn Hc Hd]; intros rest x edge acc target Hi Hacc Hk.
  - destruct Hi as [Hi|[]]. inversion Hi; subst. exists acc. cbn [path_go]. auto.
  - rewrite <- app_assoc in *. apply in_app_or in Hi. destruct Hi as [Hi|[Hi|[]]].
    + destruct (IH _ _ _ _ _ Hi Hacc Hk) as [p [P1 P2]]. exists p. split; [|exact P2].
      eapply path_go_more_fuel; [exact P1|]. rewrite app_length. lia.
    + inversion Hi; subst x edge. rewrite app_length. cbn [length]. rewrite Nat.add_1_r.
      apply in_map_iff in Hp. destruct Hp as [[pre' edge'] [Ep Hp]]. cbn [fst] in Ep. subst pre'.
      assert (F : lq_find (rid pre) (mp ++ [(d, Some (cid, pre))] ++ rest) = Some edge').
      { rewrite lq_find_app, (lq_ok_find _ _ _ H _ _ Hp). reflexivity. }
      remember (S (length mp)) as k. cbn [path_go]. rewrite F. cbn [bind]. subst k.
      apply (IH _ _ _ _ _ Hp).
      * econstructor; eauto.
      * constructor; [|exact Hk]. cbn [fst]. rewrite map_app. apply in_or_app. left.
        apply in_map_iff. exists (pre, edge'). auto.
Qed.
Lemma path_go_ok m e mp x edge : lq_ok m e mp -> In (x, edge) mp ->
  exists p, path_go (S (length mp)) mp edge [] = Some p /\ dpath m e p x /\
            Forall (fun rc => In (fst rc) (map fst mp)) p.
Proof.
  intros H Hi. destruct (path_go_prefix m e mp H [] x edge [] x Hi (dp_nil m x) (Forall_nil _)) as [p P].
  rewrite app_nil_r in P. eauto.
Qed.

Lemma gs_push_ok e r : ids_desc r -> forall cids m q mp m1 q1 mp1,
  gs_push m r cids q mp = Some (m1, q1, mp1) ->
  (forall cid, In cid cids -> In cid (pclass_ids (rcls r))) ->
  In r (map fst mp) -> lq_ok m e mp -> lq_ok m1 e mp1 /\ cache_ext m m1.
Proof.
  intros Hd. induction cids as [|cid t IH]; intros m q mp m1 q1 mp1 H Hc Hr Hok; cbn [gs_push] in H.
  - inversion H; subst. split; [exact Hok|apply cache_ext_refl].
  - destruct (cached_deriv r m cid) as [[m2 d]|] eqn:E; cbn [bind] in H; [|discriminate].
    pose proof (cached_deriv_ext r m cid m2 d Hd E) as X1.
    pose proof (cached_deriv_lookup r m cid m2 d E) as L1.
    pose proof (lq_ok_ext _ _ _ _ X1 Hok) as Hok2.
    assert (Hc' : forall c, In c t -> In c (pclass_ids (rcls r))) by (intros c Hi; apply Hc; right; exact Hi).
    destruct (lq_find (rid d) mp) eqn:F.
    + destruct (IH _ _ _ _ _ _ H Hc' Hr Hok2) as [A B]. split; [exact A|eapply cache_ext_trans; eauto].
    + assert (Hok3 : lq_ok m2 e (mp ++ [(d, Some (cid, r))])).
      { constructor; auto. apply Hc. left. reflexivity. }
      assert (Hr3 : In r (map fst (mp ++ [(d, Some (cid, r))]))).
      { rewrite map_app. apply in_or_app. left. exact Hr. }
      destruct (IH _ _ _ _ _ _ H Hc' Hr3 Hok3) as [A B]. split; [exact A|eapply cache_ext_trans; eauto].
Qed.

(* the LabeledQueue visits like the BfsQueue: map keys = seen set, same pushes, same managers *)
Lemma gs_push_push r : forall cids m q s mp, map fst mp = rev s ->
  match push_all_derivs m r cids q s with
  | Some (m1, q1, s1) => exists mp1, gs_push m r cids q mp = Some (m1, q1, mp1) /\ map fst mp1 = rev s1
  | None => gs_push m r cids q mp = None
  end.
Proof.
  induction cids as [|cid t IH]; intros m q s mp Hk; cbn [push_all_derivs gs_push].
  - exists mp. auto.
  - destruct (cached_deriv r m cid) as [[m2 d]|]; cbn [bind]; [|reflexivity].
    assert (T : existsb (re_eqb d) s = match lq_find (rid d) mp with Some _ => true | None => false end).
    { destruct (lq_find (rid d) mp) eqn:F.
      - apply existsb_re_eqb. rewrite in_rev, <- map_rev, <- Hk. apply lq_find_some_iff. eauto.
      - destruct (existsb (re_eqb d) s) eqn:X; [|reflexivity]. apply existsb_re_eqb in X.
        rewrite in_rev, <- map_rev, <- Hk in X. apply lq_find_some_iff in X. destruct X as [x X]. congruence. }
    rewrite T. destruct (lq_find (rid d) mp).
    + apply IH. exact Hk.
    + apply IH. rewrite map_app, Hk. reflexivity.
Qed.

Definition nonnull (x : re) : bool := negb (rnul x).

Lemma gs_go_of_iter e f : forall m q s out mp m1 l,
  iter_go f m q s out = Some (m1, l) -> Forall ids_desc l ->
  map fst mp = rev s -> lq_ok m e mp -> bfs_inv q s out ->
  exists m2 res l', gs_go f m q mp = Some (m2, res) /\ cache_ext m m2 /\ l = out ++ l' /\
    match res with
    | None => forallb nonnull l' = true
    | Some p => exists pre x post, l' = pre ++ x :: post /\ forallb nonnull pre = true /\ rnul x = true /\
                  dpath m2 e p x /\ Forall (fun rc => In (fst rc) l) p
    end.
Proof.
  induction f as [|f IH]; intros m q s out mp m1 l H Hd Hk Hok Hb; [discriminate|].
  pose proof (iter_go_prefix _ _ _ _ _ _ _ H) as [l0 Hl].
  cbn [iter_go] in H. cbn [gs_go]. destruct q as [|r q].
  - inversion H; subst m1. exists m, None, []. rewrite app_nil_r.
    split; [reflexivity|]. split; [apply cache_ext_refl|]. split; [congruence|reflexivity].
  - destruct Hb as [Hs Hn].
    assert (Hkeys : forall x, In x (map fst mp) -> In x l).
    { intros x Hx. rewrite Hk, Hs, rev_involutive in Hx. rewrite Hl.
      apply in_app_or in Hx. apply in_or_app. destruct Hx as [Hx|Hx]; [left; exact Hx|].
      right. apply in_or_app. left. exact Hx. }
    assert (Hr : In r (map fst mp)).
    { rewrite Hk, Hs, rev_involutive. apply in_or_app. right. left. reflexivity. }
    destruct (rnul r) eqn:Er.
    + apply in_map_iff in Hr. destruct Hr as [[r' edge] [E' Hr]]. cbn [fst] in E'. subst r'.
      rewrite (lq_ok_find _ _ _ Hok _ _ Hr). cbn [bind].
      destruct (path_go_ok m e mp r edge Hok Hr) as [p [P1 [P2 P3]]]. rewrite P1. cbn [bind].
      exists m, (Some p), (r :: q ++ l0). split; [reflexivity|]. split; [apply cache_ext_refl|].
      split; [exact Hl|]. exists [], r, (q ++ l0). split; [reflexivity|]. split; [reflexivity|].
      split; [exact Er|]. split; [exact P2|].
      rewrite Forall_forall in *. intros rc Hrc. apply Hkeys. apply P3. exact Hrc.
    + destruct (push_all_derivs m r (pclass_ids (rcls r)) q s) as [[[m' q1] s1]|] eqn:Ep; cbn [bind] in H; [|discriminate].
      pose proof (gs_push_push r (pclass_ids (rcls r)) m q s mp Hk) as G. rewrite Ep in G.
      destruct G as [mp1 [G1 G2]]. rewrite G1. cbn [bind].
      assert (Hdr : ids_desc r).
      { rewrite Forall_forall in Hd. apply Hd. rewrite Hl. apply in_or_app. right. left. reflexivity. }
      destruct (gs_push_ok e r Hdr _ _ _ _ _ _ _ G1 (fun c h => h) Hr Hok) as [Hok1 X1].
      pose proof (push_all_bfs_inv _ _ _ _ _ _ _ _ _ (conj Hs Hn) Ep) as Hb1.
      destruct (IH _ _ _ _ _ _ _ H Hd G2 Hok1 Hb1) as [m2 [res [l' [R1 [R2 [R3 R4]]]]]].
      exists m2, res, (r :: l'). split; [exact R1|]. split; [eapply cache_ext_trans; eauto|].
      split; [rewrite R3, <- app_assoc; reflexivity|].
      destruct res as [p|].
      * destruct R4 as [pre [x [post [A [B C]]]]]. exists (r :: pre), x, post.
        split; [rewrite A; reflexivity|]. split; [|exact C].
        cbn [forallb]. unfold nonnull at 1. rewrite Er. exact B.
      * cbn [forallb]. unfold nonnull at 1. rewrite Er. exact R4.
Qed.

Lemma pick_in_class_ids p c : pwf p -> In c (pclass_ids p) -> exists x, ppick p c = Some x /\ good x.
Proof.
  intros Hp Hc. apply (pclass_ids_spec p c Hp) in Hc. apply (pvalid_iff p c Hp) in Hc.
  destruct (ppick_spec p c Hp Hc) as [x [H1 [H2 _]]]. eauto.
Qed.

Lemma pick_all_path m l : cls_ok l -> forall p r x, dpath m r p x -> Forall (fun rc => In (fst rc) l) p ->
  exists w, pick_all p = Some w /\ goodw w.
Proof.
  intros Hcl p r x H. induction H as [|r cid d p x Hc _ _ IH]; intros Hp.
  - exists []. split; [reflexivity|constructor].
  - inversion Hp as [|? ? Hr Hp']; subst. cbn [fst] in Hr. destruct (IH Hp') as [w [W1 W2]].
    unfold cls_ok in Hcl. rewrite Forall_forall in Hcl.
    destruct (pick_in_class_ids (rcls r) cid (Hcl r Hr) Hc) as [c [C1 C2]].
    exists (c :: w). cbn [pick_all]. rewrite C1, W1. cbn [bind]. split; [reflexivity|constructor; auto].
Qed.

Lemma clamp_good w : goodw (map (fun c => if c <=? MAXC then c else REPLC) w).
Proof.
  unfold goodw. rewrite Forall_forall. intros x Hx. apply in_map_iff in Hx. destruct Hx as [c [E _]].
  subst x. unfold good. destruct (c <=? MAXC) eqn:Ec; [apply N.leb_le; exact Ec|]. unfold REPLC, MAXC. lia.
Qed.
Lemma clamp_id w : goodw w -> map (fun c => if c <=? MAXC then c else REPLC) w = w.
Proof.
  induction 1 as [|c t Hc _ IH]; [reflexivity|]. cbn [map]. rewrite IH.
  unfold good in Hc. apply N.leb_le in Hc. rewrite Hc. reflexivity.
Qed.

(* any string get_string returns is a well-formed SMT string (final clamp of From<Vec<u32>>) *)
Theorem get_string_good fuel m e m' w : get_string fuel m e = Some (m', Some w) -> goodw w.
Proof.
  unfold get_string. intros H.
  destruct (gs_go fuel m [e] [(e, None)]) as [[m1 [p|]]|]; cbn [bind] in H; try discriminate.
  destruct (pick_all p); cbn [bind] in H; [|discriminate]. inversion H; subst. apply clamp_good.
Qed.

(* Under completion of the enumeration, get_string completes on the same fuel without panicking;
   it answers None exactly when no enumerated term is nullable; otherwise it returns the picks
   along a cache-answered path from e to the first nullable term of the enumeration. *)
Theorem get_string_of_iter fuel m e m1 l :
  iter_derivatives fuel m e = Some (m1, l) -> Forall ids_desc l -> cls_ok l ->
  exists m2 res, get_string fuel m e = Some (m2, res) /\ cache_ext m m2 /\
    match res with
    | None => forallb nonnull l = true
    | Some w => exists p pre x post, l = pre ++ x :: post /\ forallb nonnull pre = true /\ rnul x = true /\
                  dpath m2 e p x /\ pick_all p = Some w /\ goodw w
    end.
Proof.
  intros H Hd Hcl.
  destruct (gs_go_of_iter e fuel m [e] [e] [] [(e, None)] m1 l H Hd eq_refl (lq_root m e) (bfs_inv_init e))
    as [m2 [res [l' [R1 [R2 [R3 R4]]]]]].
  cbn [app] in R3. subst l'. unfold get_string. rewrite R1. cbn [bind]. destruct res as [p|].
  - destruct R4 as [pre [x [post [A [B [C [D E]]]]]]].
    destruct (pick_all_path m2 l Hcl p e x D E) as [w [W1 W2]]. rewrite W1. cbn [bind].
    exists m2, (Some (map (fun c => if c <=? MAXC then c else REPLC) w)). split; [reflexivity|].
    split; [exact R2|]. exists p, pre, x, post. rewrite (clamp_id w W2). auto 10.
  - exists m2, None. auto.
Qed.

Theorem get_string_none_iff_no_nullable_reached fuel m e m1 l m2 res :
  iter_derivatives fuel m e = Some (m1, l) -> Forall ids_desc l -> cls_ok l ->
  get_string fuel m e = Some (m2, res) ->
  (res = None <-> forall x, In x l -> rnul x = false).
Proof.
  intros H Hd Hcl G. destruct (get_string_of_iter _ _ _ _ _ H Hd Hcl) as [m2' [res' [G' [_ R]]]].
  rewrite G in G'. inversion G'; subst m2' res'. destruct res as [w|].
  - destruct R as [p [pre [x [post [A [_ [C _]]]]]]]. split; [discriminate|].
    intros Hall. rewrite (Hall x) in C; [discriminate|]. rewrite A. apply in_or_app. right. left. reflexivity.
  - split; [|reflexivity]. intros _ x Hx. rewrite forallb_forall in R. specialize (R x Hx).
    unfold nonnull in R. destruct (rnul x); [discriminate|reflexivity].
Qed.

(* ------------------------------------------------------------------------------------------ *)
(** * A manager returned unchanged by cached_deriv answered from its cache *)

Definition cache_len_le (m m1 : mgr) : Prop := (length (cache m) <= length (cache m1))%nat.

Lemma dl_fix_len c l : Forall (fun x => forall m cid m1 r, cached_deriv x m cid = Some (m1, r) -> cache_len_le m m1) l ->
  forall m m1 ds, dl_fix c l m = Some (m1, ds) -> cache_len_le m m1.
Proof.
  unfold cache_len_le. induction 1 as [|x t Px _ IH]; intros m m1 ds H; cbn [dl_fix] in H.
  - inversion H; subst. lia.
  - destruct (coc x c) as [kx|]; cbn [bind] in H; [|discriminate].
    destruct (cached_deriv x m kx) as [[m2 d]|] eqn:E; cbn [bind] in H; [|discriminate].
    match type of H with bind ?y _ = _ => destruct y as [[m3 ds3]|] eqn:E3 end; cbn [bind] in H; [|discriminate].
    inversion H; subst. apply Px in E. apply IH in E3. lia.
Qed.

Lemma cached_deriv_len e : forall m cid m1 r, cached_deriv e m cid = Some (m1, r) ->
  cache_len_le m m1 /\ (cache_lookup (rid e) cid (cache m) = None -> (length (cache m) < length (cache m1))%nat).
Proof.
  induction e as [i n cl k IH] using re_kids_ind. intros m cid m1 r H.
  assert (K : Forall (fun x => forall m cid m1 r, cached_deriv x m cid = Some (m1, r) -> cache_len_le m m1) (kids k)).
  { rewrite Forall_forall in *. intros x Hx m0 c0 m2 r0 H0. apply (IH x Hx m0 c0 m2 r0 H0). }
  clear IH. rewrite cached_deriv_unfold in H. cbn [rid rcls rnode] in H |- *.
  destruct (cache_lookup i cid (cache m)) as [r0|] eqn:Hl.
  { inversion H; subst. split; [unfold cache_len_le; lia|discriminate]. }
  destruct (ppick cl cid) as [c|]; cbn [bind] in H; [|discriminate].
  match type of H with bind ?x _ = _ => destruct x as [[m' r']|] eqn:E end; cbn [bind] in H; [|discriminate].
  inversion H; subst. clear H.
  assert (B : cache_len_le m m').
  { unfold cache_len_le in *. destruct k as [| |s0|x y|x rg|x|l|l]; cbn [kids] in K.
    - inversion E; subst. lia.
    - inversion E; subst. lia.
    - inversion E; subst. lia.
    - inversion K as [|? ? Px K2]; subst. inversion K2 as [|? ? Py _]; subst.
      destruct (coc x c) as [k1|]; cbn [bind] in E; [|discriminate].
      destruct (cached_deriv x m k1) as [[ma d1]|] eqn:E1; cbn [bind] in E; [|discriminate].
      destruct (concat d1 ma y) as [[mb d1']|] eqn:E2; cbn [bind] in E; [|discriminate].
      apply Px in E1. apply concat_cache in E2.
      destruct (rnul x).
      + destruct (coc y c) as [k2|]; cbn [bind] in E; [|discriminate].
        destruct (cached_deriv y mb k2) as [[mc d2]|] eqn:E3; cbn [bind] in E; [|discriminate].
        apply Py in E3. apply union_cache in E. rewrite E. rewrite E2 in E3. lia.
      + inversion E; subst. rewrite E2. exact E1.
    - inversion K as [|? ? Px _]; subst.
      destruct (coc x c) as [k1|]; cbn [bind] in E; [|discriminate].
      destruct (cached_deriv x m k1) as [[ma d1]|] eqn:E1; cbn [bind] in E; [|discriminate].
      destruct (mk_loop ma x (lr_shift rg)) as [[mb e2]|] eqn:E2; cbn [bind] in E; [|discriminate].
      apply Px in E1. apply mk_loop_cache in E2. apply concat_cache in E. rewrite E, E2. exact E1.
    - inversion K as [|? ? Px _]; subst.
      destruct (coc x c) as [k1|]; cbn [bind] in E; [|discriminate].
      destruct (cached_deriv x m k1) as [[ma d1]|] eqn:E1; cbn [bind] in E; [|discriminate].
      destruct (complement ma d1); cbn [bind] in E; [|discriminate]. inversion E; subst.
      apply Px in E1. exact E1.
    - destruct (dl_fix c l m) as [[ma ds]|] eqn:E1; cbn [bind] in E; [|discriminate].
      apply (dl_fix_len c l K) in E1. apply union_list_cache in E. rewrite E. exact E1.
    - destruct (dl_fix c l m) as [[ma ds]|] eqn:E1; cbn [bind] in E; [|discriminate].
      apply (dl_fix_len c l K) in E1. apply inter_list_cache in E. rewrite E. exact E1. }
  unfold cache_len_le in *. unfold cache_insert, set_cache. cbn [cache length]. split; [lia|intros _; lia].
Qed.

Theorem cderiv_iff m r cid d : cderiv m r cid d <-> cached_deriv r m cid = Some (m, d).
Proof.
  split; [apply cderiv_cached|]. intros H. unfold cderiv.
  destruct (cache_lookup (rid r) cid (cache m)) as [r0|] eqn:Hl.
  - rewrite (cached_deriv_hit r m cid r0 Hl) in H. inversion H; subst. reflexivity.
  - apply cached_deriv_len in H. destruct H as [_ H]. specialize (H Hl). lia.
Qed.

(* ------------------------------------------------------------------------------------------ *)
(** * Discharging the premises: terms owned by a manager that numbers children before parents *)

Lemma ids_desc_intro i n c k :
  Forall (fun x => rid x < i /\ ids_desc x) (kids k) -> ids_desc (Node i n c k).
Proof.
  unfold ids_desc.
  assert (G : forall l, Forall (fun x => rid x < i /\ ids_descb x = true) l ->
           (fix all (l : list re) : bool :=
              match l with [] => true | x :: t => ((rid x <? i) && ids_descb x) && all t end) l = true).
  { induction 1 as [|x t [H1 H2] _ IH]; [reflexivity|]. rewrite IH, H2. apply N.ltb_lt in H1. rewrite H1. reflexivity. }
  destruct k as [| |s0|x y|x rg|x|l|l]; cbn [ids_descb kids]; intros H;
    first [exact (G [x; y] H) | exact (G [x] H) | exact (G l H) | reflexivity].
Qed.

(* shape of ManagerProofs.wf_child with O := owned m *)
Theorem ids_desc_of_child_lt (O : re -> Prop) :
  (forall e c, O e -> In c (kids (rnode e)) -> O c /\ rid c < rid e) -> forall e, O e -> ids_desc e.
Proof.
  intros HO. induction e as [i n c k IH] using re_kids_ind. intros He. apply ids_desc_intro.
  rewrite Forall_forall in *. intros x Hx. destruct (HO _ x He Hx) as [Ox Lx]. split; [exact Lx|auto].
Qed.

(* boolean forms of the premises, for examples and generators *)
Lemma ids_desc_all_b l : forallb ids_descb l = true -> Forall ids_desc l.
Proof. rewrite forallb_forall, Forall_forall. auto. Qed.
Lemma cls_ok_b l : forallb (fun r => pwfb (rcls r)) l = true -> cls_ok l.
Proof.
  unfold cls_ok. rewrite forallb_forall, Forall_forall. intros H r Hr. apply pwfb_iff. apply H. exact Hr.
Qed.

Theorem constructors_keep_cache :
  (forall m k m' r, make m k = Some (m', r) -> cache m' = cache m) /\
  (forall e1 m e2 m' r, concat e1 m e2 = Some (m', r) -> cache m' = cache m) /\
  (forall m e rg m' r, mk_loop m e rg = Some (m', r) -> cache m' = cache m) /\
  (forall m l m' r, inter_list m l = Some (m', r) -> cache m' = cache m) /\
  (forall m l m' r, union_list m l = Some (m', r) -> cache m' = cache m).
Proof.
  exact (conj make_cache (conj concat_cache (conj mk_loop_cache (conj inter_list_cache union_list_cache)))).
Qed.

(* ------------------------------------------------------------------------------------------ *)
(** * Characters instead of class ids (partition facts only, still no language semantics) *)

Lemma class_of_good_char p c : pwf p -> good c ->
  exists k, pclass_of_char p c = Some k /\ In k (pclass_ids p).
Proof.
  intros Hp Hc. destruct (c11_class_of_char p c Hp Hc) as [[k Hk] Hi]. exists k. split; [exact Hk|].
  apply (pclass_ids_spec p k Hp). exists c. split; [exact Hc|]. apply Hi. exact Hk.
Qed.
Lemma class_has_good_char p k : pwf p -> In k (pclass_ids p) ->
  exists c, good c /\ pclass_of_char p c = Some k.
Proof.
  intros Hp Hk. apply (pclass_ids_spec p k Hp) in Hk. destruct Hk as [c [Hc Hi]].
  exists c. split; [exact Hc|]. apply (c11_class_of_char p c Hp Hc). exact Hi.
Qed.

(* closed under char_derivative for every character *)
Theorem iter_closed_char fuel m e m' l :
  iter_derivatives fuel m e = Some (m', l) -> Forall ids_desc l -> cls_ok l ->
  forall r c, In r l -> good c ->
  exists d, char_derivative m' r c = Some (m', d) /\ In (rid d) (map rid l).
Proof.
  intros H Hd Hcl r c Hr Hc. unfold cls_ok in Hcl. rewrite Forall_forall in Hcl.
  destruct (class_of_good_char (rcls r) c (Hcl r Hr) Hc) as [k [K1 K2]].
  destruct (iter_closed _ _ _ _ _ H Hd r k Hr K2) as [d [D1 D2]]. exists d. split; [|exact D2].
  unfold char_derivative, deriv, coc. rewrite K1. cbn [bind]. exact D1.
Qed.
Theorem iter_closed_char_in fuel m e m' l :
  iter_derivatives fuel m e = Some (m', l) -> Forall ids_desc l -> cls_ok l ->
  inj_ids (l ++ map snd (cache m')) ->
  forall r c, In r l -> good c ->
  exists d, char_derivative m' r c = Some (m', d) /\ In d l.
Proof.
  intros H Hd Hcl Hinj r c Hr Hc. unfold cls_ok in Hcl. rewrite Forall_forall in Hcl.
  destruct (class_of_good_char (rcls r) c (Hcl r Hr) Hc) as [k [K1 K2]].
  destruct (iter_closed_in _ _ _ _ _ H Hd Hinj r k Hr K2) as [d [D1 D2]]. exists d. split; [|exact D2].
  unfold char_derivative, deriv, coc. rewrite K1. cbn [bind]. exact D1.
Qed.

Lemma str_derivative_app u : forall m e v,
  str_derivative m e (u ++ v) = do (m1, d) <- str_derivative m e u; str_derivative m1 d v.
Proof.
  induction u as [|c t IH]; intros m e v; cbn [app str_derivative bind]; [reflexivity|].
  destruct (deriv m e c) as [[m1 d]|]; cbn [bind]; [apply IH|reflexivity].
Qed.

(* every iterated derivative of e is yielded, and the final manager computes it from its cache *)
Theorem iter_complete_str fuel m e m' l :
  iter_derivatives fuel m e = Some (m', l) -> Forall ids_desc l -> cls_ok l ->
  inj_ids (l ++ map snd (cache m')) ->
  forall u, goodw u -> exists d, str_derivative m' e u = Some (m', d) /\ In d l.
Proof.
  intros H Hd Hcl Hinj.
  assert (G : forall u, goodw u -> forall r, In r l -> exists d, str_derivative m' r u = Some (m', d) /\ In d l).
  { induction 1 as [|c t Hc _ IH]; intros r Hr; cbn [str_derivative]; [eauto|].
    destruct (iter_closed_char_in _ _ _ _ _ H Hd Hcl Hinj r c Hr Hc) as [d [D1 D2]].
    unfold char_derivative in D1. rewrite D1. cbn [bind]. apply IH. exact D2. }
  intros u Hu. apply G; [exact Hu|]. destruct (iter_first _ _ _ _ _ H) as [t ->]. left. reflexivity.
Qed.

(* every yielded term is an iterated derivative of e *)
Theorem iter_reachable_str fuel m e m' l :
  iter_derivatives fuel m e = Some (m', l) -> Forall ids_desc l -> cls_ok l ->
  inj_ids (l ++ map snd (cache m')) ->
  forall r, In r l -> exists u, goodw u /\ str_derivative m' e u = Some (m', r).
Proof.
  intros H Hd Hcl Hinj r Hr. pose proof (iter_reachable _ _ _ _ _ H Hd r Hr) as R. clear Hr.
  induction R as [|r cid d R IH Hc Hx].
  - exists []. split; [constructor|reflexivity].
  - destruct IH as [u [U1 U2]].
    pose proof (iter_complete _ _ _ _ _ H Hd Hinj r R) as Hr.
    unfold cls_ok in Hcl. rewrite Forall_forall in Hcl.
    destruct (class_has_good_char (rcls r) cid (Hcl r Hr) Hc) as [c [C1 C2]].
    exists (u ++ [c]). split; [apply Forall_app; split; [exact U1|constructor; [exact C1|constructor]]|].
    rewrite str_derivative_app, U2. cbn [bind str_derivative]. unfold deriv, coc. rewrite C2. cbn [bind].
    rewrite (cderiv_cached _ _ _ _ Hx). reflexivity.
Qed.
