(* CharSet.v -- executable model of character_sets.rs :: CharSet (no proofs here).
   cs = (start, end).  The Rust type keeps start <= end <= MAX_CHAR (debug assertions only). *)
Require Import Base.
Open Scope N_scope.

Definition cs := (N * N)%type.
Definition cs_valid (s : cs) : Prop := fst s <= snd s /\ snd s <= MAXC.
Definition cs_validb (s : cs) : bool := (fst s <=? snd s) && (snd s <=? MAXC).
Definition mem (x : N) (s : cs) : Prop := fst s <= x /\ x <= snd s.

(* u32 subtraction: None = underflow (panic in debug, wrap-around in release) *)
Definition sub32 (x y : N) : option N := if y <=? x then Some (x - y) else None.

Definition cs_singleton (x : N) : cs := (x, x).
Definition cs_range (x y : N) : cs := (x, y).
Definition cs_all : cs := (0, MAXC).

Definition cs_contains (s : cs) (x : N) : bool := (fst s <=? x) && (x <=? snd s).
Definition cs_covers (s o : cs) : bool := (fst s <=? fst o) && (snd o <=? snd s).
Definition cs_is_before (s : cs) (x : N) : bool := snd s <? x.
Definition cs_is_after (s : cs) (x : N) : bool := x <? fst s.
Definition cs_size (s : cs) : option N := do d <- sub32 (snd s) (fst s); add32 d 1.
Definition cs_is_singleton (s : cs) : bool := fst s =? snd s.
Definition cs_is_alphabet (s : cs) : bool := (fst s =? 0) && (snd s =? MAXC).
Definition cs_pick (s : cs) : N := fst s.

Definition cs_inter (s o : cs) : option cs :=
  let max_start := N.max (fst s) (fst o) in
  let min_end := N.min (snd s) (snd o) in
  if max_start <=? min_end then Some (max_start, min_end) else None.

Fixpoint cs_inter_fold (r : cs) (l : list cs) : option cs :=
  match l with
  | [] => Some r
  | s :: t => match cs_inter r s with None => None | Some x => cs_inter_fold x t end
  end.
Definition cs_inter_list (a : list cs) : option cs :=
  match a with [] => Some cs_all | s :: t => cs_inter_fold s t end.

(* outer None = arithmetic underflow (never happens: union_total) *)
Definition cs_union (s o : cs) : option (option cs) :=
  let max_end := N.max (snd s) (snd o) in
  do c1 <- (if fst s =? fst o then Some true
            else if fst s <? fst o then (do p <- sub32 (fst o) 1; Some (p <=? snd s))
            else Some false);
  if (c1 : bool) then Some (Some (fst s, max_end))
  else
    do c2 <- (if fst o <? fst s then (do p <- sub32 (fst s) 1; Some (p <=? snd o)) else Some false);
    if (c2 : bool) then Some (Some (fst o, max_end)) else Some None.

Inductive pord := OrdEq | OrdLt | OrdGt | OrdNone.
Definition cs_eqb (s o : cs) : bool := (fst s =? fst o) && (snd s =? snd o).
Definition cs_pcmp (s o : cs) : pord :=
  if cs_eqb s o then OrdEq
  else if snd s <? fst o then OrdLt
  else if snd o <? fst s then OrdGt
  else OrdNone.
