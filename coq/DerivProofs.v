(* DerivProofs.v -- C03 (derivatives are left quotients; every derivative class is uniform) and the
   membership clause of C01, proved about the executable model Deriv.v.
   Contents
     merge_ok                  the two facts about pmerge (C12) used here, as ONE premise of the lemmas
     cls_wf                    the derivative-class partition of a well-formed term is a well-formed partition
     deriv_class_uniform       semantic uniformity of a derivative class
     l_quot, quot_*            left quotients of languages by one character
     nzm, *_nz                 "no owned loop has range [0,0]" (the crate's invariant that ManagerProofs.wf
                               does not record) and its preservation by every constructor and by [run]
     dwf                       wf + nzm: the invariant under which derivatives are correct
     cached_deriv_correct      the main theorem (structural induction, manager threaded)
     char/str derivative, str_in_re_correct, membership_denotation
     class_ids_cover, class_derivative_spec, set_derivative_spec, set_derivative_unchecked_spec
     merge_ok_holds, inclusion_sound_holds
                               the two premises ([merge_ok]; RunProofs.inclusion_sound, needed because
                               compute_derivative calls the union constructor) discharged from
                               MergeProofs.v and InclusionProofs.v; Properties/C03.v applies every lemma
                               to them, so the property theorems carry no premise
     wf_alone_insufficient     a wf manager owning Sigma^[0,0] on which cached_deriv is wrong: nzm is needed *)
Require Import Base CharSet Partition PartitionSpec LoopRange Regex Inclusion Constructors Deriv Denote Sem.
Require Import Lang PartitionProofs MergeProofs LoopRangeProofs ManagerProofs ConstructorProofs RunProofs.
Require InclusionProofs.   (* qualified use only: included_in_sound_owned *)
Open Scope N_scope.

(* ------------------------------------------------------------------------------------------ *)
(** * The premise about merge_partitions (property C12) *)

Definition merge_ok : Prop := forall p1 p2, pwf p1 -> pwf p2 ->
  pwf (pmerge p1 p2) /\
  forall x y, good x -> good y -> same_class (pmerge p1 p2) x y -> same_class p1 x y /\ same_class p2 x y.

Definition merge_from (l : list re) (acc : part) : part :=
  fold_left (fun acc e => pmerge acc (rcls e)) l acc.

Lemma merge_from_wf : merge_ok -> forall l, (forall x, In x l -> pwf (rcls x)) ->
  forall acc, pwf acc -> pwf (merge_from l acc).
Proof.
  intros HM. induction l as [|a t IH]; intros Hl acc Ha; cbn; auto.
  apply IH; [intros x Hx; apply Hl; cbn; auto|].
  apply HM; auto. apply Hl; cbn; auto.
Qed.

Lemma merge_from_refines : merge_ok -> forall l, (forall x, In x l -> pwf (rcls x)) ->
  forall acc c c', pwf acc -> good c -> good c' -> same_class (merge_from l acc) c c' ->
  same_class acc c c' /\ forall x, In x l -> same_class (rcls x) c c'.
Proof.
  intros HM. induction l as [|a t IH]; intros Hl acc c c' Ha Hc Hc' H; cbn in H.
  - split; [exact H | intros x []].
  - assert (Hpa : pwf (rcls a)) by (apply Hl; cbn; auto).
    destruct (HM acc (rcls a) Ha Hpa) as [Hw Hr].
    destruct (IH (fun x Hx => Hl x (or_intror Hx)) _ c c' Hw Hc Hc' H) as [H1 H2].
    destruct (Hr c c' Hc Hc' H1) as [H3 H4].
    split; [exact H3|]. intros x [<-|Hx]; auto.
Qed.

(* ------------------------------------------------------------------------------------------ *)
(** * 1. The derivative classes of a well-formed term form a well-formed partition *)

Theorem cls_wf : merge_ok -> forall e, wf_term e -> pwf (rcls e).
Proof.
  intros HM. induction e as [e IH] using re_induction. intros We.
  apply wf_term_iff in We as (_ & Hc & Hok & Hch).
  rewrite Hc. destruct (rnode e) as [| |s|a b|a r|a|l|l]; cbn [k_class children node_ok] in *.
  - apply pnew_wf.
  - apply pnew_wf.
  - apply pfrom_set_wf; exact Hok.
  - assert (Ha : pwf (rcls a)) by (apply IH; [|apply Hch]; cbn; auto).
    assert (Hb : pwf (rcls b)) by (apply IH; [|apply Hch]; cbn; auto).
    destruct (rnul a); [apply HM; auto | exact Ha].
  - apply IH; [|apply Hch]; cbn; auto.
  - apply IH; [|apply Hch]; cbn; auto.
  - apply (merge_from_wf HM); [|apply pnew_wf]. intros x Hx. apply IH; auto.
  - apply (merge_from_wf HM); [|apply pnew_wf]. intros x Hx. apply IH; auto.
Qed.

Lemma cls_wf_owned : merge_ok -> forall m e, wf m -> owned m e -> pwf (rcls e).
Proof. intros HM m e W O. apply (cls_wf HM). apply (wf_terms m W e O). Qed.

(* ------------------------------------------------------------------------------------------ *)
(** * 2. Uniformity of a derivative class *)

Lemma pow_uniform (A : lang) c c' :
  (forall u, goodw u -> A (c :: u) -> A (c' :: u)) ->
  forall n w, goodw w -> l_pow A n (c :: w) -> l_pow A n (c' :: w).
Proof.
  intros HA. induction n as [|n IH]; intros w Hg H; cbn [l_pow] in *; [discriminate|].
  destruct H as (u & v & E & Hu & Hv). destruct u as [|x u]; cbn in E.
  - subst v. exists [], (c' :: w). repeat split; auto.
  - inversion E; subst x w. apply goodw_app in Hg as [Hgu Hgv].
    exists (c' :: u), v. repeat split; auto.
Qed.

Lemma uniform_one_dir : merge_ok -> forall e, wf_term e ->
  forall c c', good c -> good c' -> same_class (rcls e) c c' ->
  forall w, goodw w -> L e (c :: w) -> L e (c' :: w).
Proof.
  intros HM. induction e as [e IH] using re_induction. intros We c c' Hc Hc' Hs w Hg H.
  pose proof We as We'.
  apply wf_term_iff in We as (_ & Hcl & Hok & Hch).
  assert (Hpw : forall x, In x (children (rnode e)) -> pwf (rcls x))
    by (intros x Hx; apply (cls_wf HM); auto).
  rewrite Hcl in Hs. destruct e as [i n cl k]. cbn [rnode] in *.
  destruct k as [| |s|a b|a r|a|l|l]; cbn [k_class children node_ok] in *.
  - destruct H.
  - discriminate H.
  - cbn [L] in *. destruct H as (x & E & Hx). inversion E; subst x w.
    exists c'. split; [reflexivity|].
    destruct Hs as [(s0 & [<-|[]] & _ & H2) | [H1 _]]; [exact H2|].
    exfalso. apply H1. exists s. cbn; auto.
  - cbn [L] in *. destruct H as (u & v & E & Hu & Hv).
    assert (Ia : In a [a; b]) by (cbn; auto). assert (Ib : In b [a; b]) by (cbn; auto).
    destruct (rnul a) eqn:Na.
    + destruct (HM (rcls a) (rcls b) (Hpw a Ia) (Hpw b Ib)) as [_ Hr].
      destruct (Hr c c' Hc Hc' Hs) as [Sa Sb].
      destruct u as [|x u]; cbn in E.
      * subst v. exists [], (c' :: w). repeat split; auto. apply (IH b Ib (Hch b Ib) c c'); auto.
      * inversion E; subst x w. apply goodw_app in Hg as [Hgu Hgv].
        exists (c' :: u), v. repeat split; auto. apply (IH a Ia (Hch a Ia) c c'); auto.
    + destruct u as [|x u]; cbn in E.
      * exfalso. apply (nullable_correct a (Hch a Ia)) in Hu. congruence.
      * inversion E; subst x w. apply goodw_app in Hg as [Hgu Hgv].
        exists (c' :: u), v. repeat split; auto. apply (IH a Ia (Hch a Ia) c c'); auto.
  - cbn [L] in *. destruct H as (n0 & Hn & Hp). exists n0. split; [exact Hn|].
    assert (Ia : In a [a]) by (cbn; auto).
    apply (pow_uniform (L a) c c'); auto.
    intros u Hgu. apply (IH a Ia (Hch a Ia) c c'); auto.
  - cbn [L] in *. intros H'. apply H.
    assert (Ia : In a [a]) by (cbn; auto).
    apply (IH a Ia (Hch a Ia) c' c); auto. apply same_class_sym; exact Hs.
  - rewrite L_union in *. destruct H as (x & Hx & H). exists x. split; [exact Hx|].
    destruct (merge_from_refines HM l Hpw pnew c c' pnew_wf Hc Hc' Hs) as [_ Hr].
    apply (IH x Hx (Hch x Hx) c c'); auto.
  - rewrite L_inter in *. intros x Hx.
    destruct (merge_from_refines HM l Hpw pnew c c' pnew_wf Hc Hc' Hs) as [_ Hr].
    apply (IH x Hx (Hch x Hx) c c'); auto.
Qed.

Theorem deriv_class_uniform : merge_ok -> forall e, wf_term e ->
  forall c c', good c -> good c' -> same_class (rcls e) c c' ->
  forall w, goodw w -> (L e (c :: w) <-> L e (c' :: w)).
Proof.
  intros HM e We c c' Hc Hc' Hs w Hg. split.
  - apply (uniform_one_dir HM e We c c'); auto.
  - apply (uniform_one_dir HM e We c' c); auto. apply same_class_sym; exact Hs.
Qed.

(* the same, with the class given by its id *)
Lemma in_class_uniform : merge_ok -> forall e, wf_term e ->
  forall cid c c', good c -> good c' -> in_class (rcls e) c cid -> in_class (rcls e) c' cid ->
  forall w, goodw w -> (L e (c :: w) <-> L e (c' :: w)).
Proof.
  intros HM e We cid c c' Hc Hc' H1 H2. apply (deriv_class_uniform HM e We c c' Hc Hc').
  apply (same_class_iff_in_class (rcls e) c c' Hc Hc'). exists cid. auto.
Qed.

(* ------------------------------------------------------------------------------------------ *)
(** * Left quotients by one character *)

Definition l_quot (c : N) (A : lang) : lang := fun w => A (c :: w).

Lemma quot_concat (A B : lang) c w :
  l_concat A B (c :: w) <-> l_concat (l_quot c A) B w \/ (A [] /\ B (c :: w)).
Proof.
  unfold l_quot. split.
  - intros (u & v & E & Hu & Hv). destruct u as [|x u]; cbn in E.
    + subst v. right. auto.
    + inversion E; subst x w. left. exists u, v. auto.
  - intros [(u & v & -> & Hu & Hv) | [Ha Hb]].
    + exists (c :: u), v. auto.
    + exists [], (c :: w). auto.
Qed.

(* the first non-empty factor of a power *)
Lemma pow_first (A : lang) c : forall n w, l_pow A n (c :: w) ->
  exists u v k, w = u ++ v /\ A (c :: u) /\ (k < n)%nat /\ l_pow A k v /\ ((S k < n)%nat -> A []).
Proof.
  induction n as [|n IH]; intros w H; cbn [l_pow] in H; [discriminate|].
  destruct H as (u0 & v0 & E & Hu & Hv). destruct u0 as [|x u0]; cbn in E.
  - subst v0. destruct (IH w Hv) as (u & v & k & Ew & Hcu & Hk & Hp & Hn).
    exists u, v, k. repeat split; auto.
  - inversion E; subst x w. exists u0, v0, n. repeat split; auto. lia.
Qed.

Lemma zero_free_one r : lr_valid r -> lr_is_zero r = false -> inr 0 r -> inr 1 r.
Proof.
  destruct r as [a [b|]]; cbn [lr_valid inr]; intros Hv Hz H0.
  - assert (1 <= b) by (apply (is_zero_false a b Hz); lia). lia.
  - lia.
Qed.

Lemma quot_loop (A : lang) r c w : lr_valid r -> lr_is_zero r = false ->
  (l_loop A r (c :: w) <-> l_concat (l_quot c A) (l_loop A (lr_shift r)) w).
Proof.
  intros Hv Hz. unfold l_loop, l_quot, in_lr. split.
  - intros (n & Hn & Hp). destruct (pow_first A c n w Hp) as (u & v & k & -> & Hcu & Hk & Hpk & Hnul).
    exists u, v. repeat split; auto. exists (n - 1)%nat. split.
    + apply (shift_pred r Hv). exists (N.of_nat n). split; [exact Hn | lia].
    + destruct (Nat.eq_dec (S k) n) as [E|E].
      * replace (n - 1)%nat with k by lia. exact Hpk.
      * apply (l_pow_eps_le A k (n - 1)); [apply Hnul; lia | lia | exact Hpk].
  - intros (u & v & -> & Hcu & k & Hk & Hp).
    apply (shift_pred r Hv) in Hk as (x & Hx & Ek).
    destruct (N.eq_dec x 0) as [->|Hx0].
    + assert (k = O) by lia. subst k. cbn in Hp. subst v. rewrite app_nil_r.
      exists 1%nat. split; [apply zero_free_one; auto | apply l_pow_1; exact Hcu].
    + exists (S k). split; [replace (N.of_nat (S k)) with x by lia; exact Hx|].
      exists (c :: u), v. auto.
Qed.

(* ------------------------------------------------------------------------------------------ *)
(** * 3a. No owned loop has the range [0,0]
   The crate never builds a Loop node with range [0,0] (mk_loop returns epsilon, the concat rules add
   at least one iteration); ManagerProofs.wf does not record this, and the derivative of R^[0,0]
   computed by compute_derivative would be d(R) instead of the empty language.  The invariant and its
   preservation by every constructor are therefore established here. *)

Definition nz_node (k : node) : Prop :=
  match k with NLoop _ r => lr_is_zero r = false | _ => True end.
Definition nzm (m : mgr) : Prop := forall e, owned m e -> nz_node (rnode e).
(* the invariant of the derivative layer *)
Definition dwf (m : mgr) : Prop := wf m /\ nzm m.

Lemma nz_fin a b : b <> 0 -> lr_is_zero (LR a (Some b)) = false.
Proof. destruct a, b; cbn; congruence. Qed.
Lemma nz_inf a : lr_is_zero (LR a None) = false.
Proof. destruct a; reflexivity. Qed.

Lemma add_nz r s t : lr_valid r -> lr_valid s -> lr_is_zero s = false -> lr_add r s = Some t ->
  lr_is_zero t = false.
Proof.
  intros Hr Hs Hz H. unfold lr_add, add32 in H.
  destruct r as [a [b|]], s as [c [d|]]; cbn [lr_start lr_valid] in *.
  - pose proof (is_zero_false c d Hz (proj1 Hs)) as Hd.
    destruct (a + c <=? U32MAX); cbn [bind] in H; [|discriminate].
    destruct (b + d <=? U32MAX); cbn [bind] in H; [|discriminate].
    inversion H. apply nz_fin. lia.
  - destruct (a + c <=? U32MAX); cbn [bind] in H; [|discriminate]. inversion H. apply nz_inf.
  - destruct (a + c <=? U32MAX); cbn [bind] in H; [|discriminate]. inversion H. apply nz_inf.
  - destruct (a + c <=? U32MAX); cbn [bind] in H; [|discriminate]. inversion H. apply nz_inf.
Qed.

Lemma mul_nz r s t : lr_valid r -> lr_valid s -> lr_is_zero r = false -> lr_is_zero s = false ->
  lr_mul r s = Some t -> lr_is_zero t = false.
Proof.
  intros Hr Hs Zr Zs H. unfold lr_mul in H. rewrite Zr, Zs in H. cbn [orb] in H. unfold mul32 in H.
  destruct r as [a [b|]], s as [c [d|]]; cbn [lr_valid] in *.
  - pose proof (is_zero_false a b Zr (proj1 Hr)) as Hb. pose proof (is_zero_false c d Zs (proj1 Hs)) as Hd.
    destruct (a * c <=? U32MAX); cbn [bind] in H; [|discriminate].
    destruct (b * d <=? U32MAX); cbn [bind] in H; [|discriminate].
    inversion H. apply nz_fin. nia.
  - destruct (a * c <=? U32MAX); cbn [bind] in H; [|discriminate]. inversion H. apply nz_inf.
  - destruct (a * c <=? U32MAX); cbn [bind] in H; [|discriminate]. inversion H. apply nz_inf.
  - destruct (a * c <=? U32MAX); cbn [bind] in H; [|discriminate]. inversion H. apply nz_inf.
Qed.

Lemma nzm_set_cache m c : nzm m -> nzm (set_cache m c).
Proof. intros Z e He. apply Z. exact He. Qed.

Lemma make_nz m k m' t :
  wf m -> nzm m -> not_compl k -> nz_node k -> make m k = Some (m', t) -> nzm m'.
Proof.
  intros W Z Hk Hn H. destruct (lookup (key_of k) (tbl m)) as [r|] eqn:Hl.
  - rewrite (make_existing m k r W Hk Hl) in H. inversion H; subst; auto.
  - rewrite (make_new m k W Hk Hl) in H. inversion H; subst. intros e He.
    apply (grow_at m k _ e W) in He as [He | [[_ ->] | [_ ->]]]; cbn; auto.
Qed.

Lemma owned_loop_nz m e x r : nzm m -> owned m e -> rnode e = NLoop x r -> lr_is_zero r = false.
Proof. intros Z O K. pose proof (Z e O) as H. rewrite K in H. exact H. Qed.

Lemma char_set_nz m s m' t : wf m -> nzm m -> char_set m s = Some (m', t) -> nzm m'.
Proof. intros W Z H. apply (make_nz m (NRange s) m' t W Z I I H). Qed.
Lemma range_nz m a b m' t : wf m -> nzm m -> range m a b = Some (m', t) -> nzm m'.
Proof.
  intros W Z H. unfold range in H. destruct ((a <=? b) && (b <=? MAXC)); [|discriminate].
  eapply char_set_nz; eauto.
Qed.

Lemma mk_loop_nz m e rg m' t :
  wf m -> nzm m -> owned m e -> lr_valid rg -> mk_loop m e rg = Some (m', t) -> nzm m'.
Proof.
  intros W Z Oe Hv H. unfold mk_loop in H.
  destruct (lr_is_zero rg) eqn:Zr; [inversion H; subst; auto|].
  destruct (lr_is_one rg); [inversion H; subst; auto|].
  destruct (rnode e) as [| |s|a b|x xr|a|l|l] eqn:K;
    try (apply (make_nz m (NLoop e rg) m' t W Z I Zr H));
    try (inversion H; subst; exact Z).
  destruct (loop_child m e x xr W Oe K) as (Ox & Hxr & _).
  pose proof (owned_loop_nz m e x xr Z Oe K) as Zx.
  destruct (lr_rmie xr rg) as [[|]|]; try (apply (make_nz m (NLoop e rg) m' t W Z I Zr H)).
  destruct (lr_mul xr rg) as [r|] eqn:M; try (apply (make_nz m (NLoop e rg) m' t W Z I Zr H)).
  apply (make_nz m (NLoop x r) m' t W Z I (mul_nz xr rg r Hxr Hv Zx Zr M) H).
Qed.

Lemma point_one_nz : lr_is_zero (lr_point 1) = false.
Proof. reflexivity. Qed.
Lemma point_one_valid : lr_valid (lr_point 1).
Proof. unfold lr_point, lr_valid, U32MAX. lia. Qed.

Lemma concat_nz : forall e1 m e2 m' t,
  wf m -> nzm m -> owned m e1 -> owned m e2 -> concat e1 m e2 = Some (m', t) -> nzm m'.
Proof.
  induction e1 as [e1 IH] using re_induction. intros m e2 m' t W Z O1 O2 H.
  pose proof H as Hc.
  rewrite concat_unfold in H.
  destruct (is_empty_node e1); [inversion H; subst; auto|].
  destruct (is_empty_node e2); [inversion H; subst; auto|].
  destruct (is_eps_node e1); [inversion H; subst; auto|].
  destruct (is_eps_node e2); [inversion H; subst; auto|].
  unfold concat_rules in H.
  destruct (rule5g e1 e2) as [r|] eqn:G5.
  { apply rule5g_some in G5 as (rng & R5 & A).
    destruct (rule5_spec m e1 e2 rng W O1 O2 R5) as [Hv _].
    apply (make_nz m (NLoop e1 r) m' t W Z I); [|exact H].
    apply (add_nz rng (lr_point 1) r Hv point_one_valid point_one_nz A). }
  destruct (rule5g e2 e1) as [r|] eqn:G6.
  { apply rule5g_some in G6 as (rng & R6 & A).
    destruct (rule5_spec m e2 e1 rng W O2 O1 R6) as [Hv _].
    apply (make_nz m (NLoop e2 r) m' t W Z I); [|exact H].
    apply (add_nz rng (lr_point 1) r Hv point_one_valid point_one_nz A). }
  destruct (rule7g e1 e2) as [[x r]|] eqn:G7.
  { apply rule7g_some in G7 as (xr & yr & R7 & A).
    destruct (rule7_spec m e1 e2 x xr yr W O1 O2 R7) as (Hx & Hv1 & Hv2 & _).
    assert (Zy : lr_is_zero yr = false).
    { unfold rule7 in R7. destruct (loop_of e1) as [[x1 r1]|]; [|discriminate].
      destruct (loop_of e2) as [[x2 r2]|] eqn:E2; [|discriminate].
      destruct (re_eqb x1 x2); [|discriminate]. inversion R7; subst.
      apply loop_of_some in E2. apply (owned_loop_nz m e2 x2 yr Z O2 E2). }
    apply (make_nz m (NLoop x r) m' t W Z I); [|exact H].
    apply (add_nz xr yr r Hv1 Hv2 Zy A). }
  destruct (re_eqb e1 e2).
  { apply (make_nz m (NLoop e1 (lr_point 2)) m' t W Z I); [reflexivity | exact H]. }
  destruct (rnode e1) as [| |s|x y|x xr|x|l|l] eqn:K.
  4: { destruct (wf_child m W e1 x O1) as [Ox _]; [rewrite K; cbn; auto|].
    destruct (wf_child m W e1 y O1) as [Oy _]; [rewrite K; cbn; auto|].
    destruct (concat y m e2) as [[m1 rt]|] eqn:C1; cbn [bind] in H; [|discriminate].
    destruct (concat_ok y m e2 m1 rt W Oy O2 C1) as (W1 & X1 & Ort & _).
    pose proof (IH y (or_intror (or_introl eq_refl)) m e2 m1 rt W Z Oy O2 C1) as Z1.
    apply (IH x (or_introl eq_refl) m1 rt m' t W1 Z1 (ext_owned m m1 x X1 Ox) Ort H). }
  all: destruct (rnul e1 && re_eqb e2 (m_full m));
    [ inversion H; subst; exact Z | apply (make_nz m (NConcat e1 e2) m' t W Z I I H) ].
Qed.

Lemma make_inter_nz m v m' t : wf m -> nzm m -> make_inter m v = Some (m', t) -> nzm m'.
Proof.
  intros W Z H. unfold make_inter in H.
  destruct (contains _ (m_eps m)); [inversion H; subst; exact Z|].
  destruct (simplify_set_operation v (m_full m) (m_empty m)) as [|x [|y r]].
  - inversion H; subst; exact Z.
  - inversion H; subst; exact Z.
  - apply (make_nz m (NInter (x :: y :: r)) m' t W Z I I H).
Qed.
Lemma make_union_nz m v m' t : wf m -> nzm m -> make_union m v = Some (m', t) -> nzm m'.
Proof.
  intros W Z H. unfold make_union in H.
  match type of H with (match ?V with _ => _ end) = _ => destruct V as [|x [|y r]] end.
  - inversion H; subst; exact Z.
  - inversion H; subst; exact Z.
  - apply (make_nz m (NUnion (x :: y :: r)) m' t W Z I I H).
Qed.
Lemma inter_list_nz m l m' t : wf m -> nzm m -> inter_list m l = Some (m', t) -> nzm m'.
Proof. intros W Z H. eapply make_inter_nz; eauto. Qed.
Lemma union_list_nz m l m' t : wf m -> nzm m -> union_list m l = Some (m', t) -> nzm m'.
Proof. intros W Z H. eapply make_union_nz; eauto. Qed.
Lemma inter_nz m a b m' t : wf m -> nzm m -> inter m a b = Some (m', t) -> nzm m'.
Proof. intros W Z H. eapply make_inter_nz; eauto. Qed.
Lemma union_nz m a b m' t : wf m -> nzm m -> union m a b = Some (m', t) -> nzm m'.
Proof. intros W Z H. eapply make_union_nz; eauto. Qed.
Lemma diff_nz m a b m' t : wf m -> nzm m -> diff m a b = Some (m', t) -> nzm m'.
Proof.
  intros W Z H. unfold diff in H. destruct (complement m b); cbn [bind] in H; [|discriminate].
  eapply inter_nz; eauto.
Qed.

Lemma str_go_nz : forall rw m acc m' t,
  wf m -> nzm m -> owned m acc -> str_go m rw acc = Some (m', t) -> nzm m'.
Proof.
  induction rw as [|c rw IH]; intros m acc m' t W Z Oa H; cbn [str_go] in H.
  - inversion H; subst; exact Z.
  - destruct (mchar m c) as [[m1 ch]|] eqn:C1; cbn [bind] in H; [|discriminate].
    destruct (mchar_ok m c m1 ch W C1) as (_ & W1 & X1 & Och & _).
    assert (Z1 : nzm m1) by (apply (range_nz m c c m1 ch W Z C1)).
    destruct (concat ch m1 acc) as [[m2 r]|] eqn:C2; cbn [bind] in H; [|discriminate].
    destruct (concat_ok ch m1 acc m2 r W1 Och (ext_owned m m1 acc X1 Oa) C2) as (W2 & X2 & Or & _).
    pose proof (concat_nz ch m1 acc m2 r W1 Z1 Och (ext_owned m m1 acc X1 Oa) C2) as Z2.
    apply (IH m2 r m' t W2 Z2 Or H).
Qed.

Lemma new_mgr_nz : nzm new_mgr.
Proof.
  intros e He. apply new_mgr_at in He.
  destruct He as [[_ ->] | [[_ ->] | [[_ ->] | [[_ ->] | [[_ ->] | [_ ->]]]]]]; cbn; auto.
Qed.

Theorem new_mgr_dwf : dwf new_mgr.
Proof. split; [apply new_mgr_wf | apply new_mgr_nz]. Qed.

Theorem run_nz : forall p m m' t,
  wf m -> nzm m -> prog_ok p = true -> run p m = Some (m', t) -> nzm m'.
Proof.
  induction p as [| | | |a b|s|p IHp q IHq|p IHp q IHq|p IHp q IHq|p IHp|p IHp q IHq|p IHp lo hi|p IHp c];
    intros m m' t W Z Hok H; cbn [run prog_ok] in H, Hok;
    try (inversion H; subst; exact Z).
  - eapply range_nz; eauto.
  - unfold mstr in H. apply (str_go_nz (rev s) m (m_eps m) m' t W Z (c_eps_o m (wf_consts m W)) H).
  - apply andb_true_iff in Hok as [Hok1 Hok2].
    destruct (run p m) as [[m1 a]|] eqn:R1; cbn [bind] in H; [|discriminate].
    destruct (run q m1) as [[m2 b]|] eqn:R2; cbn [bind] in H; [|discriminate].
    destruct (run_wf p m m1 a W Hok1 R1) as (W1 & X1 & Oa).
    destruct (run_wf q m1 m2 b W1 Hok2 R2) as (W2 & X2 & Ob).
    pose proof (IHp m m1 a W Z Hok1 R1) as Z1. pose proof (IHq m1 m2 b W1 Z1 Hok2 R2) as Z2.
    apply (concat_nz a m2 b m' t W2 Z2 (ext_owned m1 m2 a X2 Oa) Ob H).
  - apply andb_true_iff in Hok as [Hok1 Hok2].
    destruct (run p m) as [[m1 a]|] eqn:R1; cbn [bind] in H; [|discriminate].
    destruct (run q m1) as [[m2 b]|] eqn:R2; cbn [bind] in H; [|discriminate].
    destruct (run_wf p m m1 a W Hok1 R1) as (W1 & X1 & Oa).
    destruct (run_wf q m1 m2 b W1 Hok2 R2) as (W2 & X2 & Ob).
    pose proof (IHp m m1 a W Z Hok1 R1) as Z1. pose proof (IHq m1 m2 b W1 Z1 Hok2 R2) as Z2.
    apply (union_nz m2 a b m' t W2 Z2 H).
  - apply andb_true_iff in Hok as [Hok1 Hok2].
    destruct (run p m) as [[m1 a]|] eqn:R1; cbn [bind] in H; [|discriminate].
    destruct (run q m1) as [[m2 b]|] eqn:R2; cbn [bind] in H; [|discriminate].
    destruct (run_wf p m m1 a W Hok1 R1) as (W1 & X1 & Oa).
    destruct (run_wf q m1 m2 b W1 Hok2 R2) as (W2 & X2 & Ob).
    pose proof (IHp m m1 a W Z Hok1 R1) as Z1. pose proof (IHq m1 m2 b W1 Z1 Hok2 R2) as Z2.
    apply (inter_nz m2 a b m' t W2 Z2 H).
  - destruct (run p m) as [[m1 a]|] eqn:R1; cbn [bind] in H; [|discriminate].
    pose proof (IHp m m1 a W Z Hok R1) as Z1.
    destruct (complement m1 a); cbn [bind] in H; [|discriminate]. inversion H; subst; exact Z1.
  - apply andb_true_iff in Hok as [Hok1 Hok2].
    destruct (run p m) as [[m1 a]|] eqn:R1; cbn [bind] in H; [|discriminate].
    destruct (run q m1) as [[m2 b]|] eqn:R2; cbn [bind] in H; [|discriminate].
    destruct (run_wf p m m1 a W Hok1 R1) as (W1 & X1 & Oa).
    destruct (run_wf q m1 m2 b W1 Hok2 R2) as (W2 & X2 & Ob).
    pose proof (IHp m m1 a W Z Hok1 R1) as Z1. pose proof (IHq m1 m2 b W1 Z1 Hok2 R2) as Z2.
    apply (diff_nz m2 a b m' t W2 Z2 H).
  - destruct hi as [hi|]; apply andb_true_iff in Hok as [Hok1 Hok2]; apply N.leb_le in Hok2;
      (destruct (run p m) as [[m1 a]|] eqn:R1; cbn [bind] in H; [|discriminate]);
      destruct (run_wf p m m1 a W Hok1 R1) as (W1 & X1 & Oa);
      pose proof (IHp m m1 a W Z Hok1 R1) as Z1.
    + unfold smt_loop in H. destruct (N.leb_spec lo hi); [|inversion H; subst; exact Z1].
      apply (mk_loop_nz m1 a (lr_finite lo hi) m' t W1 Z1 Oa); [unfold lr_valid, lr_finite; lia | exact H].
    + unfold Constructors.loop_inf in H.
      apply (mk_loop_nz m1 a (lr_infinite lo) m' t W1 Z1 Oa); [exact Hok2 | exact H].
Qed.

(* ------------------------------------------------------------------------------------------ *)
(** * 3b/4. cached_deriv computes the common left quotient of a class *)

(* the body of compute_derivative, with the operand-list loop named *)
Definition deriv_list (c : N) : list re -> mgr -> option (mgr * list re) :=
  fix dl (l : list re) (m : mgr) : option (mgr * list re) :=
    match l with
    | [] => Some (m, [])
    | x :: t => do kx <- coc x c; do (m1, d) <- cached_deriv x m kx;
                do (m2, ds) <- dl t m1; Some (m2, d :: ds)
    end.
Definition deriv_body (e : re) (m : mgr) (c : N) : option (mgr * re) :=
  match rnode e with
  | NEmpty | NEps => Some (m, m_empty m)
  | NRange s => Some (m, if cs_contains s c then m_eps m else m_empty m)
  | NConcat e1 e2 =>
      do k1 <- coc e1 c; do (m1, d1) <- cached_deriv e1 m k1;
      do (m2, d1') <- concat d1 m1 e2;
      if rnul e1 then
        do k2 <- coc e2 c; do (m3, d2) <- cached_deriv e2 m2 k2;
        union m3 d1' d2
      else Some (m2, d1')
  | NLoop e1 rg =>
      do k1 <- coc e1 c; do (m1, d1) <- cached_deriv e1 m k1;
      do (m2, e2) <- mk_loop m1 e1 (lr_shift rg);
      concat d1 m2 e2
  | NCompl e1 =>
      do k1 <- coc e1 c; do (m1, d1) <- cached_deriv e1 m k1;
      do r <- complement m1 d1; Some (m1, r)
  | NInter l => do (m1, ds) <- deriv_list c l m; inter_list m1 ds
  | NUnion l => do (m1, ds) <- deriv_list c l m; union_list m1 ds
  end.

Lemma cached_deriv_unfold e m cid :
  cached_deriv e m cid =
  match cache_lookup (rid e) cid (cache m) with
  | Some r => Some (m, r)
  | None =>
    do c <- ppick (rcls e) cid;
    do (m', r) <- deriv_body e m c;
    Some (cache_insert m' (rid e) cid r, r)
  end.
Proof. destruct e as [i n cl k]; destruct k; reflexivity. Qed.

Lemma deriv_list_cons c x t m :
  deriv_list c (x :: t) m =
  do kx <- coc x c; do (m1, d) <- cached_deriv x m kx;
  do (m2, ds) <- deriv_list c t m1; Some (m2, d :: ds).
Proof. reflexivity. Qed.

Lemma classid_eqb_eq a b : classid_eqb a b = true <-> a = b.
Proof.
  destruct a as [i|], b as [j|]; cbn; try (split; congruence).
  rewrite Nat.eqb_eq. split; [intros ->; reflexivity | intros H; inversion H; reflexivity].
Qed.

Lemma cache_lookup_in i c l r : cache_lookup i c l = Some r -> In ((i, c), r) l.
Proof.
  induction l as [|[[j d] x] t IH]; cbn [cache_lookup]; [discriminate|].
  destruct ((i =? j) && classid_eqb c d) eqn:E.
  - apply andb_true_iff in E as [E1 E2]. apply N.eqb_eq in E1. apply classid_eqb_eq in E2. subst.
    intros H; inversion H; subst. left; reflexivity.
  - intros H. right. auto.
Qed.

(* the specification of one derivative *)
Definition quot_of (e : re) (c : N) (d : re) : Prop := lang_eq (L d) (l_quot c (L e)).
Definition dpost (m m' : mgr) (d : re) (Q : Prop) : Prop := dwf m' /\ ext m m' /\ owned m' d /\ Q.
(* the statement proved by structural induction *)
Definition cd_spec (e : re) : Prop := forall m cid m' d,
  dwf m -> owned m e -> pvalid (rcls e) cid = true -> cached_deriv e m cid = Some (m', d) ->
  dpost m m' d (forall c, good c -> in_class (rcls e) c cid -> quot_of e c d).

Lemma coc_class : merge_ok -> forall m x c k, wf m -> owned m x -> good c -> coc x c = Some k ->
  pvalid (rcls x) k = true /\ in_class (rcls x) c k.
Proof.
  intros HM m x c k W O Hc H. pose proof (cls_wf_owned HM m x W O) as Hp.
  assert (Hin : in_class (rcls x) c k) by (apply pclass_of_char_sound; auto; apply Hp).
  split; [|exact Hin]. apply (pvalid_iff (rcls x) k Hp). exists c. auto.
Qed.

(* deriv on a term satisfying cd_spec *)
Lemma deriv_of_spec : merge_ok -> forall x, cd_spec x -> forall m c k m1 d1,
  dwf m -> owned m x -> good c -> coc x c = Some k -> cached_deriv x m k = Some (m1, d1) ->
  dpost m m1 d1 (quot_of x c d1).
Proof.
  intros HM x Hx m c k m1 d1 [W Z] O Hc K D.
  destruct (coc_class HM m x c k W O Hc K) as [Hv Hin].
  destruct (Hx m k m1 d1 (conj W Z) O Hv D) as (D1 & X1 & O1 & HL).
  split; auto.
Qed.

Lemma deriv_list_correct : merge_ok -> forall c, good c -> forall l, (forall x, In x l -> cd_spec x) ->
  forall m m1 ds, dwf m -> (forall x, In x l -> owned m x) -> deriv_list c l m = Some (m1, ds) ->
  dwf m1 /\ ext m m1 /\ Forall2 (fun x d => owned m1 d /\ quot_of x c d) l ds.
Proof.
  intros HM c Hc. induction l as [|x t IH]; intros Hl m m1 ds Dm Ho H.
  - cbn in H. inversion H; subst. split; [exact Dm|]. split; [apply ext_refl | constructor].
  - rewrite deriv_list_cons in H.
    destruct (coc x c) as [kx|] eqn:K; cbn [bind] in H; [|discriminate].
    destruct (cached_deriv x m kx) as [[m2 d]|] eqn:D; cbn [bind] in H; [|discriminate].
    destruct (deriv_list c t m2) as [[m3 ds']|] eqn:DL; cbn [bind] in H; [|discriminate].
    inversion H; subst m3 ds. clear H.
    destruct (deriv_of_spec HM x (Hl x (or_introl eq_refl)) m c kx m2 d Dm (Ho x (or_introl eq_refl)) Hc K D)
      as (D2 & X2 & Od & Qd).
    destruct (IH (fun y Hy => Hl y (or_intror Hy)) m2 m1 ds' D2
                 (fun y Hy => ext_owned m m2 y X2 (Ho y (or_intror Hy))) DL) as (D3 & X3 & F).
    split; [exact D3|]. split; [eapply ext_trans; eauto|].
    constructor; [|exact F]. split; [eapply ext_owned; eauto | exact Qd].
Qed.

Lemma quots_all m1 c l ds w : goodw w ->
  Forall2 (fun x d => owned m1 d /\ quot_of x c d) l ds ->
  (forall d, In d ds -> owned m1 d) /\
  (l_all ds w <-> forall x, In x l -> L x (c :: w)) /\
  (l_any ds w <-> exists x, In x l /\ L x (c :: w)).
Proof.
  intros Hg F. induction F as [|x d l ds [Od Qd] F IH].
  - split; [intros d []|]. unfold l_all, l_any. split.
    + split; [intros _ x [] | intros _ x []].
    + split; [intros (x & [] & _) | intros (x & [] & _)].
  - destruct IH as (IO & IA & IE). pose proof (Qd w Hg) as Hq. unfold l_quot in Hq.
    split; [intros y [<-|Hy]; auto|]. unfold l_all, l_any in *. split.
    + split.
      * intros H y [<-|Hy]; [apply Hq; apply H; cbn; auto|].
        apply (proj1 IA); auto. intros z Hz. apply H. cbn; auto.
      * intros H y [<-|Hy]; [apply Hq; apply H; cbn; auto|].
        apply (proj2 IA); auto. intros z Hz. apply H. cbn; auto.
    + split.
      * intros (y & [<-|Hy] & Hw); [exists x; split; [cbn; auto | apply Hq; exact Hw]|].
        destruct (proj1 IE) as (z & Hz & Hzw); [exists y; auto|]. exists z. cbn; auto.
      * intros (y & [<-|Hy] & Hw); [exists d; split; [cbn; auto | apply Hq; exact Hw]|].
        destruct (proj2 IE) as (z & Hz & Hzw); [exists y; auto|]. exists z. cbn; auto.
Qed.

Lemma cs_contains_iff s c : cs_contains s c = true <-> mem c s.
Proof. unfold cs_contains, mem. rewrite andb_true_iff, !N.leb_le. tauto. Qed.

(* the body of compute_derivative yields the quotient by the character it is given *)
Lemma deriv_body_correct : merge_ok -> inclusion_sound -> forall e,
  (forall x, In x (children (rnode e)) -> cd_spec x) ->
  forall m c m' r, dwf m -> owned m e -> good c -> deriv_body e m c = Some (m', r) ->
  dpost m m' r (quot_of e c r).
Proof.
  intros HM Hsub e IH m c m' r [W Z] Oe Hc H.
  assert (Hch : forall x, In x (children (rnode e)) -> owned m x)
    by (intros x Hx; apply (wf_child m W e x Oe Hx)).
  pose proof (wf_terms m W e Oe) as We. apply wf_term_iff in We as (_ & _ & Hok & Hwt).
  pose proof (Z e Oe) as Hnz.
  destruct e as [i n cl k]. unfold deriv_body in H. cbn [rnode] in *. unfold dpost, quot_of.
  destruct k as [| |s|e1 e2|e1 rg|e1|l|l]; cbn [children node_ok nz_node] in *.
  - (* Empty *)
    inversion H; subst m' r. split; [split; auto|]. split; [apply ext_refl|].
    split; [apply (c_empty_o m (wf_consts m W))|].
    intros w Hg. rewrite (L_m_empty m w W). unfold l_quot. cbn. tauto.
  - (* Epsilon *)
    inversion H; subst m' r. split; [split; auto|]. split; [apply ext_refl|].
    split; [apply (c_empty_o m (wf_consts m W))|].
    intros w Hg. rewrite (L_m_empty m w W). unfold l_quot. cbn. split; [tauto | discriminate].
  - (* Range *)
    inversion H; subst m' r. split; [split; auto|]. split; [apply ext_refl|].
    destruct (cs_contains s c) eqn:C.
    + split; [apply (c_eps_o m (wf_consts m W))|].
      intros w Hg. rewrite (L_m_eps m w W). unfold l_quot. cbn [L]. split.
      * intros ->. exists c. split; [reflexivity | apply cs_contains_iff; exact C].
      * intros (x & E & _). inversion E; reflexivity.
    + split; [apply (c_empty_o m (wf_consts m W))|].
      intros w Hg. rewrite (L_m_empty m w W). unfold l_quot. cbn [L]. split; [tauto|].
      intros (x & E & Hx). inversion E; subst x w. apply cs_contains_iff in Hx. congruence.
  - (* Concat *)
    assert (I1 : In e1 [e1; e2]) by (cbn; auto). assert (I2 : In e2 [e1; e2]) by (cbn; auto).
    destruct (coc e1 c) as [k1|] eqn:K1; cbn [bind] in H; [|discriminate].
    destruct (cached_deriv e1 m k1) as [[m1 d1]|] eqn:D1; cbn [bind] in H; [|discriminate].
    destruct (deriv_of_spec HM e1 (IH e1 I1) m c k1 m1 d1 (conj W Z) (Hch e1 I1) Hc K1 D1)
      as ([W1 Z1] & X1 & Od1 & Q1).
    destruct (concat d1 m1 e2) as [[m2 d1']|] eqn:C2; cbn [bind] in H; [|discriminate].
    pose proof (ext_owned m m1 e2 X1 (Hch e2 I2)) as Oe2.
    destruct (concat_ok d1 m1 e2 m2 d1' W1 Od1 Oe2 C2) as (W2 & X2 & Od1' & HL2).
    pose proof (concat_nz d1 m1 e2 m2 d1' W1 Z1 Od1 Oe2 C2) as Z2.
    assert (HLc : lang_eq (L d1') (l_concat (l_quot c (L e1)) (L e2))).
    { eapply lang_eq_trans; [exact HL2|]. apply lang_eq_concat; [exact Q1 | apply lang_eq_refl]. }
    destruct (rnul e1) eqn:N1.
    + destruct (coc e2 c) as [k2|] eqn:K2; cbn [bind] in H; [|discriminate].
      destruct (cached_deriv e2 m2 k2) as [[m3 d2]|] eqn:D2; cbn [bind] in H; [|discriminate].
      destruct (deriv_of_spec HM e2 (IH e2 I2) m2 c k2 m3 d2 (conj W2 Z2) (ext_owned m1 m2 e2 X2 Oe2) Hc K2 D2)
        as ([W3 Z3] & X3 & Od2 & Q2).
      destruct (union_ok m3 d1' d2 m' r W3 (Hsub m3 W3) (ext_owned m2 m3 d1' X3 Od1') Od2 H)
        as (W4 & X4 & Or & HL4).
      pose proof (union_nz m3 d1' d2 m' r W3 Z3 H) as Z4.
      split; [split; auto|].
      split; [eapply ext_trans; [exact X1|]; eapply ext_trans; [exact X2|]; eapply ext_trans; eauto|].
      split; [exact Or|].
      intros w Hg. rewrite (HL4 w Hg), (HLc w Hg), (Q2 w Hg). unfold l_quot at 3. cbn [L].
      rewrite quot_concat. unfold l_quot at 2.
      assert (L e1 []) by (apply (nullable_correct e1 (Hwt e1 I1)); exact N1). tauto.
    + inversion H; subst m' r. split; [split; auto|].
      split; [eapply ext_trans; eauto|]. split; [exact Od1'|].
      intros w Hg. rewrite (HLc w Hg). unfold l_quot at 2. cbn [L]. rewrite quot_concat.
      assert (~ L e1 []) by (rewrite <- (nullable_correct e1 (Hwt e1 I1)); congruence). tauto.
  - (* Loop *)
    assert (I1 : In e1 [e1]) by (cbn; auto).
    destruct (coc e1 c) as [k1|] eqn:K1; cbn [bind] in H; [|discriminate].
    destruct (cached_deriv e1 m k1) as [[m1 d1]|] eqn:D1; cbn [bind] in H; [|discriminate].
    destruct (deriv_of_spec HM e1 (IH e1 I1) m c k1 m1 d1 (conj W Z) (Hch e1 I1) Hc K1 D1)
      as ([W1 Z1] & X1 & Od1 & Q1).
    destruct (mk_loop m1 e1 (lr_shift rg)) as [[m2 e2]|] eqn:ML; cbn [bind] in H; [|discriminate].
    pose proof (ext_owned m m1 e1 X1 (Hch e1 I1)) as Oe1.
    destruct (mk_loop_ok m1 e1 (lr_shift rg) m2 e2 W1 Oe1 (shift_valid rg Hok) ML) as (W2 & X2 & Oe2 & HL2).
    pose proof (mk_loop_nz m1 e1 (lr_shift rg) m2 e2 W1 Z1 Oe1 (shift_valid rg Hok) ML) as Z2.
    pose proof (ext_owned m1 m2 d1 X2 Od1) as Od1'.
    destruct (concat_ok d1 m2 e2 m' r W2 Od1' Oe2 H) as (W3 & X3 & Or & HL3).
    pose proof (concat_nz d1 m2 e2 m' r W2 Z2 Od1' Oe2 H) as Z3.
    split; [split; auto|].
    split; [eapply ext_trans; [exact X1|]; eapply ext_trans; eauto|]. split; [exact Or|].
    eapply lang_eq_trans; [exact HL3|].
    eapply lang_eq_trans; [apply lang_eq_concat; [exact Q1 | exact HL2]|].
    intros w Hg. unfold l_quot at 2. cbn [L]. symmetry. apply (quot_loop (L e1) rg c w Hok Hnz).
  - (* Complement *)
    assert (I1 : In e1 [e1]) by (cbn; auto).
    destruct (coc e1 c) as [k1|] eqn:K1; cbn [bind] in H; [|discriminate].
    destruct (cached_deriv e1 m k1) as [[m1 d1]|] eqn:D1; cbn [bind] in H; [|discriminate].
    destruct (deriv_of_spec HM e1 (IH e1 I1) m c k1 m1 d1 (conj W Z) (Hch e1 I1) Hc K1 D1)
      as ([W1 Z1] & X1 & Od1 & Q1).
    destruct (complement_ok m1 d1 W1 Od1) as (r' & E & Or & Lr). rewrite E in H. cbn [bind] in H.
    inversion H; subst m' r. split; [split; auto|]. split; [exact X1|]. split; [exact Or|].
    intros w Hg. rewrite (Lr w Hg), (Q1 w Hg). unfold l_quot. cbn [L]. tauto.
  - (* Union *)
    destruct (deriv_list c l m) as [[m1 ds]|] eqn:DL; cbn [bind] in H; [|discriminate].
    destruct (deriv_list_correct HM c Hc l IH m m1 ds (conj W Z) Hch DL) as ([W1 Z1] & X1 & F).
    assert (Ho : forall d, In d ds -> owned m1 d) by (apply (quots_all m1 c l ds [] goodw_nil F)).
    destruct (union_list_ok m1 ds m' r W1 (Hsub m1 W1) Ho H) as (W2 & X2 & Or & HL2).
    pose proof (union_list_nz m1 ds m' r W1 Z1 H) as Z2.
    split; [split; auto|]. split; [eapply ext_trans; eauto|]. split; [exact Or|].
    intros w Hg. rewrite (HL2 w Hg). unfold l_quot. rewrite L_union.
    apply (quots_all m1 c l ds w Hg F).
  - (* Inter *)
    destruct (deriv_list c l m) as [[m1 ds]|] eqn:DL; cbn [bind] in H; [|discriminate].
    destruct (deriv_list_correct HM c Hc l IH m m1 ds (conj W Z) Hch DL) as ([W1 Z1] & X1 & F).
    assert (Ho : forall d, In d ds -> owned m1 d) by (apply (quots_all m1 c l ds [] goodw_nil F)).
    destruct (inter_list_ok m1 ds m' r W1 Ho H) as (W2 & X2 & Or & HL2).
    pose proof (inter_list_nz m1 ds m' r W1 Z1 H) as Z2.
    split; [split; auto|]. split; [eapply ext_trans; eauto|]. split; [exact Or|].
    intros w Hg. rewrite (HL2 w Hg). unfold l_quot. rewrite L_inter.
    apply (quots_all m1 c l ds w Hg F).
Qed.

Lemma cache_insert_dwf : merge_ok -> forall m e cid r c,
  dwf m -> owned m e -> pvalid (rcls e) cid = true -> owned m r ->
  good c -> in_class (rcls e) c cid -> quot_of e c r ->
  dwf (cache_insert m (rid e) cid r).
Proof.
  intros HM m e cid r c [W Z] Oe Hv Or Hc Hin Q. split; [|apply nzm_set_cache; exact Z].
  unfold cache_insert. apply wf_set_cache; [exact W|].
  intros i k d Hd. cbn [cache set_cache] in Hd. destruct Hd as [Hd|Hd].
  - inversion Hd; subst i k d. exists e. split; [exact Oe|]. split; [reflexivity|].
    split; [exact Hv|]. split; [exact Or|].
    intros c' Hc' Hin' w Hg. rewrite (Q w Hg). unfold l_quot.
    apply (in_class_uniform HM e (wf_terms m W e Oe) cid c c' Hc Hc' Hin Hin' w Hg).
  - exact (wf_cache m W i k d Hd).
Qed.

Theorem cached_deriv_spec : merge_ok -> inclusion_sound -> forall e, cd_spec e.
Proof.
  intros HM Hsub. induction e as [e IH] using re_induction.
  intros m cid m' d [W Z] Oe Hv H. rewrite cached_deriv_unfold in H.
  destruct (cache_lookup (rid e) cid (cache m)) as [r|] eqn:CL.
  - (* cache hit *)
    inversion H; subst m' d. apply cache_lookup_in in CL.
    destruct (wf_cache m W _ _ _ CL) as (e' & Oe' & Ei & _ & Or & HL).
    assert (e' = e) by (apply (id_inj m); auto). subst e'.
    split; [split; auto|]. split; [apply ext_refl|]. split; [exact Or | exact HL].
  - (* cache miss: compute with the representative of the class, then insert *)
    pose proof (cls_wf_owned HM m e W Oe) as Hp.
    destruct (ppick_spec (rcls e) cid Hp Hv) as (c & Pk & Hc & Hin). rewrite Pk in H. cbn [bind] in H.
    destruct (deriv_body e m c) as [[m1 r]|] eqn:DB; cbn [bind] in H; [|discriminate].
    inversion H; subst m' d.
    destruct (deriv_body_correct HM Hsub e IH m c m1 r (conj W Z) Oe Hc DB) as ([W1 Z1] & X1 & Or & Q).
    pose proof (ext_owned m m1 e X1 Oe) as Oe1.
    split; [apply (cache_insert_dwf HM m1 e cid r c (conj W1 Z1) Oe1 Hv Or Hc Hin Q)|].
    split; [exact X1|]. split; [exact Or|].
    intros c' Hc' Hin' w Hg. rewrite (Q w Hg). unfold l_quot.
    apply (in_class_uniform HM e (wf_terms m W e Oe) cid c c' Hc Hc' Hin Hin' w Hg).
Qed.

(* 4. the main theorem, spelled out *)
Theorem cached_deriv_correct : merge_ok -> inclusion_sound -> forall e m cid m' d,
  wf m -> nzm m -> owned m e -> pvalid (rcls e) cid = true -> cached_deriv e m cid = Some (m', d) ->
  (wf m' /\ nzm m') /\ ext m m' /\ owned m' d /\
  forall c, good c -> in_class (rcls e) c cid -> lang_eq (L d) (fun w => L e (c :: w)).
Proof.
  intros HM Hsub e m cid m' d W Z Oe Hv H.
  exact (cached_deriv_spec HM Hsub e m cid m' d (conj W Z) Oe Hv H).
Qed.

(* ------------------------------------------------------------------------------------------ *)
(** * 5. Derivatives by characters and strings, membership *)

Theorem char_derivative_quotient : merge_ok -> inclusion_sound -> forall m e c m' d,
  dwf m -> owned m e -> good c -> char_derivative m e c = Some (m', d) ->
  dwf m' /\ ext m m' /\ owned m' d /\ lang_eq (L d) (fun w => L e (c :: w)).
Proof.
  intros HM Hsub m e c m' d Dm Oe Hc H. unfold char_derivative, deriv in H.
  destruct (coc e c) as [k|] eqn:K; cbn [bind] in H; [|discriminate].
  exact (deriv_of_spec HM e (cached_deriv_spec HM Hsub e) m c k m' d Dm Oe Hc K H).
Qed.

Theorem str_derivative_quotient : merge_ok -> inclusion_sound -> forall u m e m' d,
  dwf m -> owned m e -> goodw u -> str_derivative m e u = Some (m', d) ->
  dwf m' /\ ext m m' /\ owned m' d /\ lang_eq (L d) (fun w => L e (u ++ w)).
Proof.
  intros HM Hsub. induction u as [|c u IH]; intros m e m' d Dm Oe Hg H; cbn [str_derivative] in H.
  - inversion H; subst m' d. split; [exact Dm|]. split; [apply ext_refl|]. split; [exact Oe|].
    apply lang_eq_refl.
  - apply goodw_cons in Hg as [Hc Hgu].
    destruct (deriv m e c) as [[m1 d1]|] eqn:D1; cbn [bind] in H; [|discriminate].
    destruct (char_derivative_quotient HM Hsub m e c m1 d1 Dm Oe Hc D1) as (D1' & X1 & Od1 & Q1).
    destruct (IH m1 d1 m' d D1' Od1 Hgu H) as (D2 & X2 & Od & Q2).
    split; [exact D2|]. split; [eapply ext_trans; eauto|]. split; [exact Od|].
    intros w Hgw. rewrite (Q2 w Hgw). cbn [app]. apply Q1. apply goodw_app; auto.
Qed.

Theorem str_in_re_correct : merge_ok -> inclusion_sound -> forall m w e m' b,
  dwf m -> owned m e -> goodw w -> str_in_re m w e = Some (m', b) ->
  dwf m' /\ ext m m' /\ (b = true <-> L e w).
Proof.
  intros HM Hsub m w e m' b Dm Oe Hg H. unfold str_in_re in H.
  destruct (str_derivative m e w) as [[m1 d]|] eqn:D; cbn [bind] in H; [|discriminate].
  inversion H; subst m' b.
  destruct (str_derivative_quotient HM Hsub w m e m1 d Dm Oe Hg D) as (D1 & X1 & Od & Q).
  split; [exact D1|]. split; [exact X1|].
  rewrite (nullable_owned m1 d (proj1 D1) Od). rewrite (Q [] goodw_nil). rewrite app_nil_r. tauto.
Qed.

(* C01, membership clause: from ANY manager satisfying the invariant *)
Theorem membership_denotation : merge_ok -> inclusion_sound -> forall p m m1 t w m2 b,
  dwf m -> prog_ok p = true -> run p m = Some (m1, t) -> goodw w ->
  str_in_re m1 w t = Some (m2, b) -> (b = true <-> denote p w).
Proof.
  intros HM Hsub p m m1 t w m2 b [W Z] Hok R Hg H.
  destruct (run_correct Hsub p m m1 t W Hok R) as (W1 & X1 & Ot & HL).
  pose proof (run_nz p m m1 t W Z Hok R) as Z1.
  destruct (str_in_re_correct HM Hsub m1 w t m2 b (conj W1 Z1) Ot Hg H) as (_ & _ & Hb).
  rewrite Hb. apply HL. exact Hg.
Qed.

Theorem run_dwf : forall p m m' t,
  dwf m -> prog_ok p = true -> run p m = Some (m', t) -> dwf m' /\ ext m m' /\ owned m' t.
Proof.
  intros p m m' t [W Z] Hok R. destruct (run_wf p m m' t W Hok R) as (W1 & X1 & Ot).
  split; [split; [exact W1 | apply (run_nz p m m' t W Z Hok R)] | auto].
Qed.

(* ------------------------------------------------------------------------------------------ *)
(** * 6. The public class / set derivative API *)

(* every good character lies in exactly one class, and that class is listed by class_ids *)
Theorem class_ids_cover : merge_ok -> forall m e c, wf m -> owned m e -> good c ->
  exists cid, In cid (pclass_ids (rcls e)) /\ in_class (rcls e) c cid /\
              forall cid', in_class (rcls e) c cid' -> cid' = cid.
Proof.
  intros HM m e c W Oe Hc. pose proof (cls_wf_owned HM m e W Oe) as Hp.
  destruct (c11_class_unique (rcls e) c Hp Hc) as (cid & Hin & Hu).
  exists cid. split; [|split; auto]. apply (pclass_ids_spec (rcls e) cid Hp). exists c. auto.
Qed.

Theorem class_ids_nodup e : NoDup (pclass_ids (rcls e)).
Proof. apply pclass_ids_nodup. Qed.

(* a listed class id is a valid one, and a valid one contains a good character *)
Theorem class_ids_valid : merge_ok -> forall m e cid, wf m -> owned m e ->
  (In cid (pclass_ids (rcls e)) <-> pvalid (rcls e) cid = true) /\
  (pvalid (rcls e) cid = true <-> exists c, good c /\ in_class (rcls e) c cid).
Proof.
  intros HM m e cid W Oe. split; [apply pclass_ids_in|].
  apply pvalid_iff. apply (cls_wf_owned HM m e W Oe).
Qed.

Theorem class_derivative_spec : merge_ok -> inclusion_sound -> forall m e cid,
  dwf m -> owned m e ->
  (pvalid (rcls e) cid = false -> class_derivative m e cid = Some (m, DErr BadClassId)) /\
  (pvalid (rcls e) cid = true -> forall m' res, class_derivative m e cid = Some (m', res) ->
     exists d, res = DOk d /\ dwf m' /\ ext m m' /\ owned m' d /\
       forall c, good c -> in_class (rcls e) c cid -> lang_eq (L d) (fun w => L e (c :: w))).
Proof.
  intros HM Hsub m e cid Dm Oe. unfold class_derivative. split; intros Hv; rewrite Hv; [reflexivity|].
  intros m' res H. destruct (cached_deriv e m cid) as [[m1 r]|] eqn:D; cbn [bind] in H; [|discriminate].
  inversion H; subst m' res. exists r. split; [reflexivity|].
  exact (cached_deriv_spec HM Hsub e m cid m1 r Dm Oe Hv D).
Qed.

Theorem class_derivative_unchecked_spec : merge_ok -> inclusion_sound -> forall m e cid,
  dwf m -> owned m e ->
  (pvalid (rcls e) cid = false -> cache_lookup (rid e) cid (cache m) = None ->
     class_derivative_unchecked m e cid = None) /\
  (pvalid (rcls e) cid = true -> forall m' d, class_derivative_unchecked m e cid = Some (m', d) ->
     dwf m' /\ ext m m' /\ owned m' d /\
     forall c, good c -> in_class (rcls e) c cid -> lang_eq (L d) (fun w => L e (c :: w))).
Proof.
  intros HM Hsub m e cid Dm Oe. unfold class_derivative_unchecked. split.
  - intros Hv CL. rewrite cached_deriv_unfold, CL, (ppick_none (rcls e) cid Hv). reflexivity.
  - intros Hv m' d H. exact (cached_deriv_spec HM Hsub e m cid m' d Dm Oe Hv H).
Qed.

(* the invalid-id panic of the unchecked variant is unconditional: a wf cache has no invalid key *)
Lemma cache_lookup_valid m e cid r : wf m -> owned m e ->
  cache_lookup (rid e) cid (cache m) = Some r -> pvalid (rcls e) cid = true.
Proof.
  intros W Oe CL. apply cache_lookup_in in CL.
  destruct (wf_cache m W _ _ _ CL) as (e' & Oe' & Ei & Hv & _).
  assert (e' = e) by (apply (id_inj m); auto). subst e'. exact Hv.
Qed.

Theorem class_derivative_unchecked_invalid m e cid : wf m -> owned m e ->
  pvalid (rcls e) cid = false -> class_derivative_unchecked m e cid = None.
Proof.
  intros W Oe Hv. unfold class_derivative_unchecked. rewrite cached_deriv_unfold.
  destruct (cache_lookup (rid e) cid (cache m)) as [r|] eqn:CL.
  - apply (cache_lookup_valid m e cid r W Oe) in CL. congruence.
  - rewrite (ppick_none (rcls e) cid Hv). reflexivity.
Qed.

(* a valid set lying inside class cid makes cid a valid class id *)
Lemma set_in_class_valid p s cid : pwf p -> cs_valid s -> set_in_class p s cid -> pvalid p cid = true.
Proof.
  intros Hp [H1 H2] Hs. apply (pvalid_iff p cid Hp). exists (fst s). split.
  - unfold good. lia.
  - apply Hs. unfold mem. lia.
Qed.

Lemma mem_good s x : cs_valid s -> mem x s -> good x.
Proof. intros [H1 H2] [H3 H4]. unfold good. lia. Qed.

(* S meets two different classes: no class contains it *)
Lemma meets_two_no_class p s : pwf p -> cs_valid s ->
  (exists x y, mem x s /\ mem y s /\ ~ same_class p x y) -> forall cid, ~ set_in_class p s cid.
Proof.
  intros Hp Hs (x & y & Hx & Hy & Hn) cid Hc. apply Hn.
  apply (same_class_iff_in_class p x y (mem_good s x Hs Hx) (mem_good s y Hs Hy)).
  exists cid. split; apply Hc; auto.
Qed.

Lemma class_of_set_none p s : pwf p -> cs_valid s ->
  (pclass_of_set p s = Some None <-> forall cid, ~ set_in_class p s cid).
Proof.
  intros Hp Hs. destruct Hp as [Hso Hw].
  destruct (pclass_of_set_spec p s Hso Hs) as (r & E & _). split.
  - intros H cid Hc. apply (pclass_of_set_classes p s cid Hso Hs) in Hc. congruence.
  - intros H. rewrite E. destruct r as [c|]; [|reflexivity].
    exfalso. apply (H c). apply (pclass_of_set_classes p s c Hso Hs). exact E.
Qed.

Theorem set_derivative_spec : merge_ok -> inclusion_sound -> forall m e s,
  dwf m -> owned m e -> cs_valid s ->
  (* S inside one class (an interval class or the complementary class) *)
  (forall cid, (forall x, mem x s -> in_class (rcls e) x cid) ->
     forall m' res, set_derivative m e s = Some (m', res) ->
     exists d, res = DOk d /\ dwf m' /\ ext m m' /\ owned m' d /\
       forall c, mem c s -> lang_eq (L d) (fun w => L e (c :: w))) /\
  (* S inside no class *)
  ((forall cid, ~ forall x, mem x s -> in_class (rcls e) x cid) ->
     set_derivative m e s = Some (m, DErr AmbiguousCharSet)).
Proof.
  intros HM Hsub m e s Dm Oe Hs. pose proof (cls_wf_owned HM m e (proj1 Dm) Oe) as Hp. split.
  - intros cid Hc m' res H. unfold set_derivative in H.
    rewrite (proj2 (pclass_of_set_classes (rcls e) s cid (proj1 Hp) Hs) Hc) in H. cbn [bind] in H.
    destruct (cached_deriv e m cid) as [[m1 r]|] eqn:D; cbn [bind] in H; [|discriminate].
    inversion H; subst m' res. exists r. split; [reflexivity|].
    destruct (cached_deriv_spec HM Hsub e m cid m1 r Dm Oe (set_in_class_valid _ s cid Hp Hs Hc) D)
      as (D1 & X1 & Or & Q).
    split; [exact D1|]. split; [exact X1|]. split; [exact Or|].
    intros c Hcs. apply Q; [apply (mem_good s c Hs Hcs) | apply Hc; exact Hcs].
  - intros Hn. unfold set_derivative.
    rewrite (proj2 (class_of_set_none (rcls e) s Hp Hs) Hn). reflexivity.
Qed.

(* the error is returned in particular when S contains characters of two different classes *)
Theorem set_derivative_two_classes : merge_ok -> forall m e s x y,
  wf m -> owned m e -> cs_valid s -> mem x s -> mem y s -> ~ same_class (rcls e) x y ->
  set_derivative m e s = Some (m, DErr AmbiguousCharSet) /\ set_derivative_unchecked m e s = None.
Proof.
  intros HM m e s x y W Oe Hs Hx Hy Hn. pose proof (cls_wf_owned HM m e W Oe) as Hp.
  assert (Hno : forall cid, ~ set_in_class (rcls e) s cid)
    by (apply (meets_two_no_class (rcls e) s Hp Hs); exists x, y; auto).
  unfold set_derivative, set_derivative_unchecked.
  rewrite (proj2 (class_of_set_none (rcls e) s Hp Hs) Hno). split; reflexivity.
Qed.

(* the result is an error exactly when no class contains S *)
Theorem set_derivative_error_iff : merge_ok -> forall m e s m' res,
  wf m -> owned m e -> cs_valid s -> set_derivative m e s = Some (m', res) ->
  ((exists err, res = DErr err) <-> forall cid, ~ forall x, mem x s -> in_class (rcls e) x cid) /\
  (forall err, res = DErr err -> err = AmbiguousCharSet /\ m' = m).
Proof.
  intros HM m e s m' res W Oe Hs H. pose proof (cls_wf_owned HM m e W Oe) as Hp.
  unfold set_derivative in H.
  destruct (pclass_of_set_spec (rcls e) s (proj1 Hp) Hs) as (r & E & _). rewrite E in H. cbn [bind] in H.
  destruct r as [cid|].
  - destruct (cached_deriv e m cid) as [[m1 d]|]; cbn [bind] in H; [|discriminate].
    inversion H; subst m' res. split; [|intros err Q; discriminate]. split.
    + intros (err & Q). discriminate.
    + intros Hn. exfalso. apply (Hn cid). apply (pclass_of_set_classes (rcls e) s cid (proj1 Hp) Hs). exact E.
  - inversion H; subst m' res. split; [|intros err Q; inversion Q; auto]. split.
    + intros _. apply (class_of_set_none (rcls e) s Hp Hs). exact E.
    + intros _. exists AmbiguousCharSet. reflexivity.
Qed.

(* the unchecked variant: panics when no class contains S, otherwise it is the class derivative *)
Theorem set_derivative_unchecked_spec : merge_ok -> inclusion_sound -> forall m e s,
  dwf m -> owned m e -> cs_valid s ->
  ((forall cid, ~ forall x, mem x s -> in_class (rcls e) x cid) -> set_derivative_unchecked m e s = None) /\
  (forall cid, (forall x, mem x s -> in_class (rcls e) x cid) ->
     set_derivative_unchecked m e s = class_derivative_unchecked m e cid /\
     forall m' d, set_derivative_unchecked m e s = Some (m', d) ->
       dwf m' /\ ext m m' /\ owned m' d /\ forall c, mem c s -> lang_eq (L d) (fun w => L e (c :: w))).
Proof.
  intros HM Hsub m e s Dm Oe Hs. pose proof (cls_wf_owned HM m e (proj1 Dm) Oe) as Hp.
  unfold set_derivative_unchecked, class_derivative_unchecked. split.
  - intros Hn. rewrite (proj2 (class_of_set_none (rcls e) s Hp Hs) Hn). reflexivity.
  - intros cid Hc.
    rewrite (proj2 (pclass_of_set_classes (rcls e) s cid (proj1 Hp) Hs) Hc). cbn [bind].
    split; [reflexivity|]. intros m' d D.
    destruct (cached_deriv_spec HM Hsub e m cid m' d Dm Oe (set_in_class_valid _ s cid Hp Hs Hc) D)
      as (D1 & X1 & Or & Q).
    split; [exact D1|]. split; [exact X1|]. split; [exact Or|].
    intros c Hcs. apply Q; [apply (mem_good s c Hs Hcs) | apply Hc; exact Hcs].
Qed.

(* a Some result of the unchecked variant always comes with a class containing S *)
Theorem set_derivative_unchecked_some : merge_ok -> forall m e s m' d,
  wf m -> owned m e -> cs_valid s -> set_derivative_unchecked m e s = Some (m', d) ->
  exists cid, forall x, mem x s -> in_class (rcls e) x cid.
Proof.
  intros HM m e s m' d W Oe Hs H. pose proof (cls_wf_owned HM m e W Oe) as Hp.
  unfold set_derivative_unchecked in H.
  destruct (pclass_of_set (rcls e) s) as [[cid|]|] eqn:E; cbn [bind] in H; try discriminate.
  exists cid. apply (pclass_of_set_classes (rcls e) s cid (proj1 Hp) Hs). exact E.
Qed.

(* ------------------------------------------------------------------------------------------ *)
(** * The two premises hold (MergeProofs.v: property C12; InclusionProofs.v: property C16) *)

Theorem merge_ok_holds : merge_ok.
Proof.
  intros p1 p2 W1 W2. split; [apply merge_wf; auto|].
  intros x y _ _ H. apply (merge_refines p1 p2 x y W1 W2 H).
Qed.

Theorem inclusion_sound_holds : inclusion_sound.
Proof.
  intros m W r s Or Os H.
  apply (InclusionProofs.included_in_sound_owned m); auto.
  - intros e c He Hc. apply (wf_child m W e c He Hc).
  - apply (wf_terms m W r Or).
  - apply (wf_terms m W s Os).
Qed.

(* ------------------------------------------------------------------------------------------ *)
(** * Side facts *)

(* class_of_char never fails on an owned term, pick_in_class never fails on a valid class id, and
   (D11 repaired) no constructor panics: cached_deriv never returns None for a valid class id
   (cached_deriv_total at the end of this file) *)
Lemma coc_total : merge_ok -> forall m e c, wf m -> owned m e -> coc e c <> None.
Proof.
  intros HM m e c W Oe. unfold coc. apply pclass_of_char_total.
  apply (cls_wf_owned HM m e W Oe).
Qed.

(* [wf] alone is not enough: a wf manager may own R^[0,0], and the derivative of that term computed
   by the model (as by the crate's compute_derivative) is d(R) . epsilon, not the empty language *)
Definition zero_loop_mgr : mgr := grow new_mgr (NLoop sigma0 (LR 0 (Some 0))).
Definition zero_loop : re := mk_node 6 (NLoop sigma0 (LR 0 (Some 0))).

Theorem wf_alone_insufficient :
  wf zero_loop_mgr /\ owned zero_loop_mgr zero_loop /\ pvalid (rcls zero_loop) (CInt 0) = true /\
  in_class (rcls zero_loop) 97 (CInt 0) /\
  exists m' d, cached_deriv zero_loop zero_loop_mgr (CInt 0) = Some (m', d) /\
               L d [] /\ ~ L zero_loop [97].
Proof.
  split; [|split; [|split; [|split]]].
  - apply grow_wf; [apply new_mgr_wf | exact I | | | vm_compute; reflexivity].
    + intros c [<-|[]]. unfold owned, at_id. rewrite new_mgr_id2re. reflexivity.
    + cbn. unfold U32MAX. lia.
  - vm_compute. reflexivity.
  - vm_compute. reflexivity.
  - exists (0, MAXC). split; [vm_compute; reflexivity | unfold mem, MAXC; cbn; lia].
  - eexists _, _. split; [vm_compute; reflexivity|]. split; [reflexivity|].
    intros (n & Hn & Hp). unfold in_lr, inr in Hn. assert (n = O) by lia. subst n. discriminate Hp.
Qed.

(* restatements used by Properties/C03.v *)
Lemma dwf_meaning m : dwf m <->
  wf m /\ forall e a r, owned m e -> rnode e = NLoop a r -> lr_is_zero r = false.
Proof.
  unfold dwf, nzm. split; intros [W Z]; (split; [exact W|]).
  - intros e a r Oe K. pose proof (Z e Oe) as H. rewrite K in H. exact H.
  - intros e Oe. destruct (rnode e) eqn:K; cbn; auto. eapply Z; eauto.
Qed.

Theorem cache_invariant m i cid d : wf m -> In ((i, cid), d) (cache m) ->
  exists e, owned m e /\ rid e = i /\ pvalid (rcls e) cid = true /\ owned m d /\
    forall c, good c -> in_class (rcls e) c cid -> lang_eq (L d) (fun w => L e (c :: w)).
Proof. intros W H. exact (wf_cache m W i cid d H). Qed.

Theorem class_derivative_bad_id m e cid :
  pvalid (rcls e) cid = false -> class_derivative m e cid = Some (m, DErr BadClassId).
Proof. intros Hv. unfold class_derivative. rewrite Hv. reflexivity. Qed.

Theorem set_derivative_ambiguous : merge_ok -> forall m e s, wf m -> owned m e -> cs_valid s ->
  (forall cid, ~ forall x, mem x s -> in_class (rcls e) x cid) ->
  set_derivative m e s = Some (m, DErr AmbiguousCharSet) /\ set_derivative_unchecked m e s = None.
Proof.
  intros HM m e s W Oe Hs Hn. pose proof (cls_wf_owned HM m e W Oe) as Hp.
  unfold set_derivative, set_derivative_unchecked.
  rewrite (proj2 (class_of_set_none (rcls e) s Hp Hs) Hn). split; reflexivity.
Qed.

(* every constructor used by the API keeps the no-[0,0]-loop invariant *)
Theorem constructors_keep_nz : forall m, wf m -> nzm m ->
  (forall s m' t, char_set m s = Some (m', t) -> nzm m') /\
  (forall a b m' t, range m a b = Some (m', t) -> nzm m') /\
  (forall w m' t, mstr m w = Some (m', t) -> nzm m') /\
  (forall e1 e2 m' t, owned m e1 -> owned m e2 -> concat e1 m e2 = Some (m', t) -> nzm m') /\
  (forall e rg m' t, owned m e -> lr_valid rg -> mk_loop m e rg = Some (m', t) -> nzm m') /\
  (forall l m' t, inter_list m l = Some (m', t) -> nzm m') /\
  (forall l m' t, union_list m l = Some (m', t) -> nzm m') /\
  (forall a b m' t, inter m a b = Some (m', t) -> nzm m') /\
  (forall a b m' t, union m a b = Some (m', t) -> nzm m') /\
  (forall a b m' t, diff m a b = Some (m', t) -> nzm m').
Proof.
  intros m W Z. repeat split; intros.
  - eapply char_set_nz; eauto.
  - eapply range_nz; eauto.
  - match goal with H : mstr _ _ = Some _ |- _ => unfold mstr in H;
      apply (str_go_nz (rev w) m (m_eps m) m' t W Z (c_eps_o m (wf_consts m W)) H) end.
  - match goal with H : concat _ _ _ = Some _ |- _ => eapply concat_nz; [| | | | exact H]; auto end.
  - match goal with H : mk_loop _ _ _ = Some _ |- _ => eapply mk_loop_nz; [| | | | exact H]; auto end.
  - eapply inter_list_nz; eauto.
  - eapply union_list_nz; eauto.
  - eapply inter_nz; eauto.
  - eapply union_nz; eauto.
  - eapply diff_nz; eauto.
Qed.

(* ------------------------------------------------------------------------------------------ *)
(** * Totality: no derivative panics (D11 repaired)

   Before the repair of D11 a class derivative could panic inside ReManager::concat (u32 overflow of
   merged loop bounds).  With concat and mk_loop total, every class derivative for a valid class id
   returns, from every manager satisfying the derivative-level invariant, with no bound on the
   term. *)

Definition tot_spec (e : re) : Prop := forall m cid,
  dwf m -> owned m e -> pvalid (rcls e) cid = true -> exists m' d, cached_deriv e m cid = Some (m', d).

Lemma tot_deriv x : tot_spec x -> forall m c, dwf m -> owned m x -> good c ->
  exists k m1 d1, coc x c = Some k /\ cached_deriv x m k = Some (m1, d1) /\
    dwf m1 /\ ext m m1 /\ owned m1 d1.
Proof.
  intros Hx m c Dm O Hc.
  destruct (coc x c) as [k|] eqn:K; [|exfalso; exact (coc_total merge_ok_holds m x c (proj1 Dm) O K)].
  destruct (coc_class merge_ok_holds m x c k (proj1 Dm) O Hc K) as [Hv _].
  destruct (Hx m k Dm O Hv) as (m1 & d1 & D).
  destruct (cached_deriv_spec merge_ok_holds inclusion_sound_holds x m k m1 d1 Dm O Hv D) as (D1 & X1 & O1 & _).
  exists k, m1, d1. auto.
Qed.

Lemma tot_list c : good c -> forall l, (forall x, In x l -> tot_spec x) ->
  forall m, dwf m -> (forall x, In x l -> owned m x) ->
  exists m1 ds, deriv_list c l m = Some (m1, ds) /\ dwf m1.
Proof.
  intros Hc. induction l as [|x t IH]; intros Hl m Dm Ho.
  - exists m, []. split; [reflexivity | exact Dm].
  - destruct (tot_deriv x (Hl x (or_introl eq_refl)) m c Dm (Ho x (or_introl eq_refl)) Hc)
      as (k & m2 & d & K & D & D2 & X2 & Od).
    destruct (IH (fun y Hy => Hl y (or_intror Hy)) m2 D2
                 (fun y Hy => ext_owned m m2 y X2 (Ho y (or_intror Hy)))) as (m1 & ds & DL & D3).
    exists m1, (d :: ds). rewrite deriv_list_cons, K. cbn [bind]. rewrite D. cbn [bind]. rewrite DL. cbn [bind].
    split; [reflexivity | exact D3].
Qed.

Lemma tot_body e : (forall x, In x (children (rnode e)) -> tot_spec x) ->
  forall m c, dwf m -> owned m e -> good c -> exists m' r, deriv_body e m c = Some (m', r).
Proof.
  intros IH m c [W Z] Oe Hc.
  assert (Hch : forall x, In x (children (rnode e)) -> owned m x)
    by (intros x Hx; apply (wf_child m W e x Oe Hx)).
  unfold deriv_body.
  destruct (rnode e) as [| |s|e1 e2|e1 rg|e1|l|l] eqn:K; cbn [children] in *;
    try (eexists; eexists; reflexivity).
  - (* Concat *)
    assert (I1 : In e1 [e1; e2]) by (cbn; auto). assert (I2 : In e2 [e1; e2]) by (cbn; auto).
    destruct (tot_deriv e1 (IH e1 I1) m c (conj W Z) (Hch e1 I1) Hc)
      as (k1 & m1 & d1 & K1 & D1 & [W1 Z1] & X1 & Od1).
    rewrite K1. cbn [bind]. rewrite D1. cbn [bind].
    pose proof (ext_owned m m1 e2 X1 (Hch e2 I2)) as Oe2.
    destruct (concat_total_any d1 m1 e2) as (m2 & d1' & C2). rewrite C2. cbn [bind].
    destruct (rnul e1); [|eexists; eexists; reflexivity].
    destruct (concat_ok d1 m1 e2 m2 d1' W1 Od1 Oe2 C2) as (W2 & X2 & Od1' & _).
    pose proof (concat_nz d1 m1 e2 m2 d1' W1 Z1 Od1 Oe2 C2) as Z2.
    destruct (tot_deriv e2 (IH e2 I2) m2 c (conj W2 Z2) (ext_owned m1 m2 e2 X2 Oe2) Hc)
      as (k2 & m3 & d2 & K2 & D2 & [W3 Z3] & X3 & Od2).
    rewrite K2. cbn [bind]. rewrite D2. cbn [bind]. unfold union, union_list. apply make_union_total. exact W3.
  - (* Loop *)
    assert (I1 : In e1 [e1]) by (cbn; auto).
    destruct (tot_deriv e1 (IH e1 I1) m c (conj W Z) (Hch e1 I1) Hc)
      as (k1 & m1 & d1 & K1 & D1 & [W1 Z1] & X1 & Od1).
    rewrite K1. cbn [bind]. rewrite D1. cbn [bind].
    destruct (mk_loop_total_any m1 e1 (lr_shift rg)) as (m2 & e2 & ML). rewrite ML. cbn [bind].
    apply concat_total_any.
  - (* Complement *)
    assert (I1 : In e1 [e1]) by (cbn; auto).
    destruct (tot_deriv e1 (IH e1 I1) m c (conj W Z) (Hch e1 I1) Hc)
      as (k1 & m1 & d1 & K1 & D1 & [W1 Z1] & X1 & Od1).
    rewrite K1. cbn [bind]. rewrite D1. cbn [bind].
    destruct (complement_ok m1 d1 W1 Od1) as (r' & E & _). rewrite E. cbn [bind]. eexists; eexists; reflexivity.
  - (* Union *)
    destruct (tot_list c Hc l IH m (conj W Z) Hch) as (m1 & ds & DL & [W1 Z1]).
    rewrite DL. cbn [bind]. unfold union_list. apply make_union_total. exact W1.
  - (* Inter *)
    destruct (tot_list c Hc l IH m (conj W Z) Hch) as (m1 & ds & DL & [W1 Z1]).
    rewrite DL. cbn [bind]. unfold inter_list. apply make_inter_total. exact W1.
Qed.

Theorem tot_spec_all : forall e, tot_spec e.
Proof.
  induction e as [e IH] using re_induction.
  intros m cid [W Z] Oe Hv. rewrite cached_deriv_unfold.
  destruct (cache_lookup (rid e) cid (cache m)) as [r|]; [eexists; eexists; reflexivity|].
  pose proof (cls_wf_owned merge_ok_holds m e W Oe) as Hp.
  destruct (ppick_spec (rcls e) cid Hp Hv) as (c & Pk & Hc & Hin). rewrite Pk. cbn [bind].
  destruct (tot_body e IH m c (conj W Z) Oe Hc) as (m1 & r & DB). rewrite DB. cbn [bind].
  eexists; eexists; reflexivity.
Qed.

(* a class derivative for a valid class id never panics *)
Theorem cached_deriv_total e m cid :
  dwf m -> owned m e -> pvalid (rcls e) cid = true -> exists m' d, cached_deriv e m cid = Some (m', d).
Proof. intros. apply (tot_spec_all e); auto. Qed.

(* char_derivative never panics on a valid character *)
Theorem char_derivative_total m e c :
  dwf m -> owned m e -> good c -> exists m' d, char_derivative m e c = Some (m', d).
Proof.
  intros Dm Oe Hc. destruct (tot_deriv e (tot_spec_all e) m c Dm Oe Hc) as (k & m1 & d1 & K & D & _).
  exists m1, d1. unfold char_derivative, deriv. rewrite K. cbn [bind]. exact D.
Qed.

(* str_derivative / str_in_re never panic on a good string *)
Theorem str_derivative_total : forall w m e,
  dwf m -> owned m e -> goodw w -> exists m' d, str_derivative m e w = Some (m', d).
Proof.
  induction w as [|c t IH]; intros m e Dm Oe Hg; cbn [str_derivative]; [eauto|].
  inversion Hg as [|? ? Hc Hg']; subst.
  destruct (tot_deriv e (tot_spec_all e) m c Dm Oe Hc) as (k & m1 & d1 & K & D & D1 & _ & O1).
  unfold deriv. rewrite K. cbn [bind]. rewrite D. cbn [bind]. apply IH; auto.
Qed.
Theorem str_in_re_total m w e :
  dwf m -> owned m e -> goodw w -> exists m' b, str_in_re m w e = Some (m', b).
Proof.
  intros Dm Oe Hg. destruct (str_derivative_total w m e Dm Oe Hg) as (m1 & d & E).
  unfold str_in_re. rewrite E. cbn [bind]. eauto.
Qed.

(* the checked class derivative never panics (valid id: the derivative; invalid id: BadClassId) *)
Theorem class_derivative_total m e cid :
  dwf m -> owned m e -> exists m' res, class_derivative m e cid = Some (m', res).
Proof.
  intros Dm Oe. unfold class_derivative. destruct (pvalid (rcls e) cid) eqn:V; [|eauto].
  destruct (cached_deriv_total e m cid Dm Oe V) as (m1 & d & E). rewrite E. cbn [bind]. eauto.
Qed.

Print Assumptions cached_deriv_correct.
Print Assumptions deriv_class_uniform.
Print Assumptions membership_denotation.
Print Assumptions set_derivative_spec.
Print Assumptions merge_ok_holds.
Print Assumptions inclusion_sound_holds.
Print Assumptions wf_alone_insufficient.
Print Assumptions cached_deriv_total.
