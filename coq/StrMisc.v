(* StrMisc.v -- executable model of the remaining public accessors of smt_strings.rs (no proofs
   here): From<&[u32; N]>, good_char, good_string, SmtString::{is_good, len, is_empty, char, iter,
   is_unicode, to_unicode_string}.

   A Rust String is the list of its chars (code points).  char::from_u32(x) is Some exactly for the
   Unicode scalar values: x <= 0x10FFFF and x not in the surrogate range 0xD800..=0xDFFF.
   char::REPLACEMENT_CHARACTER = U+FFFD (= REPLC).  None = the Rust code panics. *)
Require Import Base Literal StrSearch.
Open Scope N_scope.

(* impl<const N: usize> From<&[u32; N]>: a[..].into() *)
Definition from_array (a : list N) : word := from_slice a.

(* pub fn good_char(x) / good_string(a) *)
Definition good_char (x : N) : bool := x <=? MAXC.
Definition good_string (a : list N) : bool := forallb (fun x => x <=? MAXC) a.

(* SmtString::is_good: n < MAX_LENGTH as usize && good_string(&self.s)   (note the strict <) *)
(* after repair D12: the bound is inclusive, as in SmtString::make (which panics for n > MAX_LENGTH) *)
Definition smt_is_good (s : word) : bool := (Z.of_nat (length s) <=? MAX_LENGTH)%Z && good_string s.
(* the pinned code used the strict bound *)
Definition smt_is_good_prefix (s : word) : bool := (Z.of_nat (length s) <? MAX_LENGTH)%Z && good_string s.
Definition smt_len (s : word) : nat := length s.
Definition smt_is_empty (s : word) : bool := match s with [] => true | _ :: _ => false end.
(* SmtString::char(i) = self.s[i]; None = index out of range *)
Definition smt_char (s : word) (i : nat) : option N := nth_error s i.
Definition smt_iter (s : word) : list N := s.

(* char::from_u32(x).is_some() *)
Definition is_rust_char (x : N) : bool := ((x <? 55296) || (57343 <? x)) && (x <=? 1114111).
(* fn all_unicode / fn map_to_unicode *)
Definition all_unicode (v : list N) : bool := forallb is_rust_char v.
Definition map_to_unicode (v : list N) : list N := map (fun x => if is_rust_char x then x else REPLC) v.
Definition smt_is_unicode (s : word) : bool := all_unicode s.
Definition smt_to_unicode_string (s : word) : list N := map_to_unicode s.
