(* BuilderProofs.v -- C13: AutomatonBuilder::build accepts exactly the complete conflict-free
   specifications, reports the irregularity of the first irregular state otherwise, never panics,
   and returns the automaton the caller specified (initial state, final states, successor function).
   Model: Automaton.v (builder part); specification: BuilderSpec.v (histories).
   Sections:
     1. lists (upd, nth_error, find / filter)
     2. names and ids (add_name, index_of_name, find_key, get_state_id)
     3. histories: run_history = the states the history specifies (run_history_char)
     4. readings of labels_disjoint / labels_cover_all; link with try_from_list / empty_complement
     5. one state: sic_delta, cleanup_preserves_delta, make_successor, next of the built state
     6. the checked loop build_states_checked (bsc_spec)
     7. theorems on histories: build_result and its corollaries (build_ok_sound, build_ok_delta,
        build_ok_init, build_ok_finals, build_ok_num_states, build_complete, build_never_panics,
        build_err_kind / build_err_first, build_rejects), readings of spec_sound / spec_strict /
        state_err, the D6 witness.
   Additional specification vocabulary defined here (not in BuilderSpec.v): ops_ok (what may follow
   new()), spec_state (the StateInConstruction a history specifies), state_err / spec_err (which
   irregularity build reports), hl, some_uncovered. *)
Require Import Base CharSet CharSetProofs Partition PartitionSpec PartitionProofs Automaton BuilderSpec.
From Coq Require Import Permutation Sorted.
Open Scope nat_scope.

(* ------------------------------------------------------------------ 1. lists *)

Lemma upd_length {A} (l : list A) : forall i x, length (upd l i x) = length l.
Proof. induction l as [|a l IH]; intros [|i] x; simpl; auto. Qed.

Lemma nth_error_upd_eq {A} (l : list A) : forall i x, i < length l -> nth_error (upd l i x) i = Some x.
Proof. induction l as [|a l IH]; intros [|i] x H; simpl in *; try lia; auto. apply IH. lia. Qed.

Lemma nth_error_upd_neq {A} (l : list A) : forall i j x, i <> j -> nth_error (upd l i x) j = nth_error l j.
Proof. induction l as [|a l IH]; intros [|i] [|j] x H; simpl; auto; congruence. Qed.

Lemma list_ext {A} (l1 : list A) : forall l2, (forall i, nth_error l1 i = nth_error l2 i) -> l1 = l2.
Proof.
  induction l1 as [|a l1 IH]; intros [|b l2] H; auto.
  - specialize (H 0). discriminate.
  - specialize (H 0). discriminate.
  - f_equal.
    + specialize (H 0). simpl in H. congruence.
    + apply IH. intros i. apply (H (S i)).
Qed.

Lemma nth_nth_error {A} (l : list A) i d x : nth_error l i = Some x -> nth i l d = x.
Proof. revert i. induction l as [|a l IH]; intros [|i] H; simpl in *; try discriminate; auto. congruence. Qed.

Lemma find_map {A B} (P : B -> bool) (g : A -> B) (l : list A) :
  find P (map g l) = option_map g (find (fun x => P (g x)) l).
Proof. induction l as [|a l IH]; simpl; auto. destruct (P (g a)); auto. Qed.

Lemma find_filter_keep {A} (P Q : A -> bool) (l : list A) x :
  find P l = Some x -> Q x = true -> find P (filter Q l) = Some x.
Proof.
  induction l as [|a l IH]; simpl; [discriminate|]. intros H HQ.
  destruct (P a) eqn:HP.
  - injection H as ->. rewrite HQ. simpl. rewrite HP. reflexivity.
  - destruct (Q a); simpl; [rewrite HP|]; auto.
Qed.

Lemma find_none_iff {A} (P : A -> bool) (l : list A) : find P l = None <-> forall x, In x l -> P x = false.
Proof.
  induction l as [|a l IH]; simpl.
  - split; auto. intros _ x [].
  - destruct (P a) eqn:HP.
    + split; [discriminate|]. intros H. rewrite (H a) in HP; auto. discriminate.
    + rewrite IH. split.
      * intros H x [<-|Hx]; auto.
      * intros H x Hx. apply H. auto.
Qed.

(* ------------------------------------------------------------------ 2. names and ids *)

Definition idx (l : list N) (k : N) : nat := match index_of_name k l 0 with Some i => i | None => 0 end.

Lemma ion_shift k l : forall i, index_of_name k l (S i) = option_map S (index_of_name k l i).
Proof. induction l as [|x t IH]; intros i; simpl; auto. destruct (N.eqb x k); auto. Qed.

Lemma ion_cons k x t : index_of_name k (x :: t) 0 =
  if N.eqb x k then Some 0 else option_map S (index_of_name k t 0).
Proof. simpl. rewrite ion_shift. reflexivity. Qed.

Lemma ion_some_nth k l : forall i, index_of_name k l 0 = Some i -> nth_error l i = Some k.
Proof.
  induction l as [|x t IH]; intros i; [discriminate|]. rewrite ion_cons.
  destruct (N.eqb_spec x k) as [->|Hne].
  - intros H. injection H as <-. reflexivity.
  - destruct (index_of_name k t 0) as [j|]; [|discriminate]. intros H. injection H as <-. simpl. auto.
Qed.

Lemma ion_in k l : In k l -> exists i, index_of_name k l 0 = Some i.
Proof.
  induction l as [|x t IH]; intros H; [destruct H|]. rewrite ion_cons.
  destruct (N.eqb_spec x k) as [->|Hne]; eauto.
  destruct H as [H|H]; [congruence|]. destruct (IH H) as [i ->]. simpl. eauto.
Qed.

Lemma ion_none k l : index_of_name k l 0 = None -> ~ In k l.
Proof. intros H Hin. destruct (ion_in k l Hin) as [i Hi]. congruence. Qed.

Lemma ion_app k l e i : index_of_name k l 0 = Some i -> index_of_name k (l ++ e) 0 = Some i.
Proof.
  revert i. induction l as [|x t IH]; intros i; [discriminate|]. simpl app. rewrite !ion_cons.
  destruct (N.eqb x k); auto.
  destruct (index_of_name k t 0) as [j|]; [|discriminate]. rewrite (IH j); auto.
Qed.

Lemma ion_fresh k l : ~ In k l -> index_of_name k (l ++ [k]) 0 = Some (length l).
Proof.
  induction l as [|x t IH]; intros H.
  - simpl. rewrite N.eqb_refl. reflexivity.
  - simpl app. rewrite ion_cons. destruct (N.eqb_spec x k) as [->|Hne]; [exfalso; apply H; left; auto|].
    rewrite IH; [reflexivity|]. intros Hin. apply H. right. exact Hin.
Qed.

Lemma ion_nodup k l : NoDup l -> forall i, nth_error l i = Some k -> index_of_name k l 0 = Some i.
Proof.
  induction 1 as [|x t Hx Hnd IH]; intros [|i] H; simpl in H; try discriminate.
  - injection H as ->. rewrite ion_cons, N.eqb_refl. reflexivity.
  - rewrite ion_cons. destruct (N.eqb_spec x k) as [->|Hne].
    + exfalso. apply Hx. eapply nth_error_In; eauto.
    + rewrite (IH i H). reflexivity.
Qed.

Lemma idx_app l e k : In k l -> idx (l ++ e) k = idx l k.
Proof. intros H. unfold idx. destruct (ion_in k l H) as [i Hi]. rewrite (ion_app k l e i Hi), Hi. reflexivity. Qed.

Lemma idx_nth l k : In k l -> nth_error l (idx l k) = Some k.
Proof. intros H. unfold idx. destruct (ion_in k l H) as [i Hi]. rewrite Hi. apply ion_some_nth. exact Hi. Qed.

Lemma idx_lt l k : In k l -> idx l k < length l.
Proof. intros H. apply nth_error_Some. rewrite idx_nth; auto. discriminate. Qed.

Lemma existsb_eqb_in k l : existsb (N.eqb k) l = true <-> In k l.
Proof.
  rewrite existsb_exists. split.
  - intros [x [Hx He]]. apply N.eqb_eq in He. subst. exact Hx.
  - intros H. exists k. split; auto. apply N.eqb_refl.
Qed.

Lemma add_name_spec l k : (In k l /\ add_name l k = l) \/ (~ In k l /\ add_name l k = l ++ [k]).
Proof.
  unfold add_name. destruct (existsb (N.eqb k) l) eqn:E.
  - left. split; auto. apply existsb_eqb_in. exact E.
  - right. split; auto. intros H. apply existsb_eqb_in in H. congruence.
Qed.

Lemma add_name_in l k : In k (add_name l k).
Proof. destruct (add_name_spec l k) as [[H ->]|[H ->]]; auto. apply in_or_app. right. left. auto. Qed.

Lemma add_name_ext l k : exists e, add_name l k = l ++ e.
Proof. destruct (add_name_spec l k) as [[H ->]|[H ->]]; [exists []; rewrite app_nil_r|exists [k]]; auto. Qed.

Lemma add_name_incl l k x : In x l -> In x (add_name l k).
Proof. destruct (add_name_ext l k) as [e ->]. intros H. apply in_or_app. auto. Qed.

Lemma add_name_inv l k x : In x (add_name l k) -> In x l \/ x = k.
Proof.
  destruct (add_name_spec l k) as [[H ->]|[H ->]]; auto.
  intros Hx. apply in_app_or in Hx. destruct Hx as [Hx|[Hx|[]]]; auto.
Qed.

Lemma add_name_nodup l k : NoDup l -> NoDup (add_name l k).
Proof. destruct (add_name_spec l k) as [[H ->]|[H ->]]; auto. intros Hn. apply NoDup_snoc; auto. Qed.

Lemma find_key_combine k l : forall o, find_key k (combine l (seq o (length l))) = index_of_name k l o.
Proof.
  induction l as [|x t IH]; intros o; simpl; auto.
  rewrite N.eqb_sym. destruct (N.eqb x k); auto.
Qed.

Definition mkb (names : list N) (sts : list sic) : builder :=
  {| id_map := combine names (seq 0 (length names)); bstates := sts |}.
Definition fresh_ext (names : list N) (k : N) : list sic :=
  if existsb (N.eqb k) names then [] else [sic_new].

Lemma combine_snoc {A B} (l : list A) : forall (m : list B) a b, length l = length m ->
  combine (l ++ [a]) (m ++ [b]) = combine l m ++ [(a, b)].
Proof.
  induction l as [|x l IH]; intros [|y m] a b H; simpl in *; try discriminate; auto.
  f_equal. apply IH. lia.
Qed.

Lemma get_state_id_mkb names sts k : length sts = length names ->
  get_state_id (mkb names sts) k = (mkb (add_name names k) (sts ++ fresh_ext names k), idx (add_name names k) k).
Proof.
  intros Hlen. unfold get_state_id, mkb. cbn [id_map bstates].
  rewrite find_key_combine. unfold add_name, fresh_ext, idx.
  destruct (existsb (N.eqb k) names) eqn:E.
  - apply existsb_eqb_in in E. destruct (ion_in k names E) as [i Hi]. rewrite Hi.
    rewrite app_nil_r. reflexivity.
  - assert (Hni : ~ In k names) by (intros H; apply existsb_eqb_in in H; congruence).
    destruct (index_of_name k names 0) as [i|] eqn:Hi.
    + exfalso. apply Hni. eapply nth_error_In. apply ion_some_nth. exact Hi.
    + rewrite (ion_fresh k names Hni). rewrite Hlen. f_equal. f_equal.
      rewrite app_length. simpl length. rewrite Nat.add_1_r, seq_S. simpl.
      rewrite combine_snoc; auto. rewrite seq_length. reflexivity.
Qed.

(* ------------------------------------------------------------------ 3. histories *)

Definition op_nonew (o : bop) : Prop := match o with BNew _ => False | _ => True end.
(* an operation after new(): not another new(), and its label is a legal CharSet *)
Definition op_ok (o : bop) : Prop :=
  match o with BNew _ => False | BAdd _ s _ => cs_valid s | _ => True end.
Definition ops_ok (ops : list bop) : Prop := Forall op_ok ops.
Definition op_okb (o : bop) : bool :=
  match o with BNew _ => false | BAdd _ s _ => cs_validb s | _ => true end.
Definition ops_okb (ops : list bop) : bool := forallb op_okb ops.

Lemma ops_okb_iff ops : ops_okb ops = true <-> ops_ok ops.
Proof.
  unfold ops_okb, ops_ok. rewrite forallb_forall, Forall_forall.
  split; intros H o Ho; specialize (H o Ho); destruct o; simpl in *; auto; try discriminate;
    try (apply cs_validb_iff; auto); contradiction.
Qed.

Lemma ops_ok_nonew ops : ops_ok ops -> Forall op_nonew ops.
Proof. apply Forall_impl. intros [] H; simpl in *; auto. Qed.

Definition names_step (l : list N) (o : bop) : list N :=
  match o with
  | BNew k => add_name [] k
  | BAdd k _ k' | BDef k k' => add_name (add_name l k) k'
  | BFin k => add_name l k
  end.

Lemma h_names_snoc h o : h_names (h ++ [o]) = names_step (h_names h) o.
Proof. unfold h_names. rewrite fold_left_app. reflexivity. Qed.

Lemma h_labels_snoc h o k : h_labels (h ++ [o]) k =
  h_labels h k ++ match o with BAdd k1 s k' => if N.eqb k1 k then [(s, k')] else [] | _ => [] end.
Proof. unfold h_labels. rewrite flat_map_app. simpl. rewrite app_nil_r. reflexivity. Qed.

Lemma h_default_snoc h o k : h_default (h ++ [o]) k =
  match o with BDef k1 k' => if N.eqb k1 k then Some k' else h_default h k | _ => h_default h k end.
Proof. unfold h_default. rewrite fold_left_app. reflexivity. Qed.

Lemma h_final_snoc h o k : h_final (h ++ [o]) k =
  h_final h k || match o with BFin k1 => N.eqb k1 k | _ => false end.
Proof. unfold h_final. rewrite existsb_app. simpl. rewrite orb_false_r. reflexivity. Qed.

Lemma run_history_snoc h o : run_history (h ++ [o]) = run_bop (run_history h) o.
Proof. unfold run_history. rewrite fold_left_app. reflexivity. Qed.

Lemma names_step_ext l o : op_nonew o -> exists e, names_step l o = l ++ e.
Proof.
  destruct o as [k|k s k'|k k'|k]; simpl; intros H; try contradiction.
  - destruct (add_name_ext l k) as [e1 ->]. destruct (add_name_ext (l ++ e1) k') as [e2 ->].
    exists (e1 ++ e2). rewrite app_assoc. reflexivity.
  - destruct (add_name_ext l k) as [e1 ->]. destruct (add_name_ext (l ++ e1) k') as [e2 ->].
    exists (e1 ++ e2). rewrite app_assoc. reflexivity.
  - apply add_name_ext.
Qed.

Lemma names_step_incl l o x : op_nonew o -> In x l -> In x (names_step l o).
Proof. intros Ho Hx. destruct (names_step_ext l o Ho) as [e ->]. apply in_or_app. auto. Qed.

Lemma names_step_nodup l o : op_nonew o -> NoDup l -> NoDup (names_step l o).
Proof. destruct o; simpl; intros H Hn; try contradiction; repeat apply add_name_nodup; auto. Qed.

(* every name a history talks about is registered, and registered once *)
Definition hist_closed (h : list bop) : Prop :=
  NoDup (h_names h) /\
  (forall k s t, In (s, t) (h_labels h k) -> In k (h_names h) /\ In t (h_names h)) /\
  (forall k t, h_default h k = Some t -> In k (h_names h) /\ In t (h_names h)) /\
  (forall k, h_final h k = true -> In k (h_names h)).

Lemma hist_closed_ok k0 ops : Forall op_nonew ops -> hist_closed (BNew k0 :: ops).
Proof.
  induction ops as [|o ops IH] using rev_ind; intros Hok.
  - unfold hist_closed. simpl. split; [repeat constructor; intros []|].
    split; [intros k s t []|]. split; intros; discriminate.
  - apply Forall_app in Hok. destruct Hok as [Hops Ho]. inversion Ho as [|? ? Hoo _]; subst.
    specialize (IH Hops). destruct IH as (Hnd & Hl & Hd & Hf).
    change (BNew k0 :: ops ++ [o]) with ((BNew k0 :: ops) ++ [o]).
    set (h := BNew k0 :: ops) in *. unfold hist_closed. rewrite h_names_snoc.
    split; [apply names_step_nodup; auto|].
    assert (Hinc : forall x, In x (h_names h) -> In x (names_step (h_names h) o))
      by (intros x; apply names_step_incl; auto).
    split; [|split].
    + intros k s t. rewrite h_labels_snoc. intros Hin. apply in_app_or in Hin. destruct Hin as [Hin|Hin].
      * destruct (Hl k s t Hin). split; auto.
      * destruct o as [k1|k1 s1 k1'|k1 k1'|k1]; simpl in Hin; try contradiction.
        destruct (N.eqb_spec k1 k) as [->|]; [|destruct Hin]. destruct Hin as [Hin|[]].
        injection Hin as <- <-. simpl. split; [apply add_name_incl|]; apply add_name_in.
    + intros k t. rewrite h_default_snoc.
      destruct o as [k1|k1 s1 k1'|k1 k1'|k1]; intros Hdk; try (destruct (Hd k t Hdk); split; auto; fail).
      destruct (N.eqb_spec k1 k) as [->|]; [|destruct (Hd k t Hdk); split; auto].
      injection Hdk as <-. simpl. split; [apply add_name_incl|]; apply add_name_in.
    + intros k. rewrite h_final_snoc. intros Hfk. apply orb_true_iff in Hfk. destruct Hfk as [Hfk|Hfk]; auto.
      destruct o as [k1|k1 s1 k1'|k1 k1'|k1]; try discriminate. apply N.eqb_eq in Hfk. subst.
      simpl. apply add_name_in.
Qed.

Lemma h_names_head k0 ops : Forall op_nonew ops -> exists t, h_names (BNew k0 :: ops) = k0 :: t.
Proof.
  induction ops as [|o ops IH] using rev_ind; intros Hok.
  - exists []. reflexivity.
  - apply Forall_app in Hok. destruct Hok as [Hops Ho]. inversion Ho as [|? ? Hoo _]; subst.
    destruct (IH Hops) as [t Ht].
    change (BNew k0 :: ops ++ [o]) with ((BNew k0 :: ops) ++ [o]). rewrite h_names_snoc, Ht.
    destruct (names_step_ext (k0 :: t) o Hoo) as [e ->]. exists (t ++ e). reflexivity.
Qed.

(* the StateInConstruction the history specifies for name k, with ids taken from [names] *)
Definition st_of (names : list N) (h : list bop) (k : N) : sic :=
  {| s_final := h_final h k;
     s_default := option_map (idx names) (h_default h k);
     s_trans := map (fun sl => (fst sl, idx names (snd sl))) (h_labels h k) |}.
Definition spec_state (h : list bop) (k : N) : sic := st_of (h_names h) h k.

Lemma spec_state_eq h : spec_state h = st_of (h_names h) h.
Proof. reflexivity. Qed.

Lemma st_of_fresh names h k : hist_closed h -> ~ In k (h_names h) -> st_of names h k = sic_new.
Proof.
  intros (_ & Hl & Hd & Hf) Hk. unfold st_of, sic_new.
  assert (E1 : h_final h k = false) by (destruct (h_final h k) eqn:E; auto; exfalso; auto).
  assert (E2 : h_default h k = None) by (destruct (h_default h k) as [t|] eqn:E; auto; exfalso; apply Hk; apply (proj1 (Hd k t E))).
  assert (E3 : h_labels h k = []).
  { destruct (h_labels h k) as [|[s t] r] eqn:E; auto. exfalso. apply Hk. apply (proj1 (Hl k s t ltac:(rewrite E; left; auto))). }
  rewrite E1, E2, E3. reflexivity.
Qed.

Lemma st_of_ext h e k : hist_closed h -> st_of (h_names h ++ e) h k = st_of (h_names h) h k.
Proof.
  intros (_ & Hl & Hd & _). unfold st_of. f_equal.
  - destruct (h_default h k) as [t|] eqn:E; auto. simpl. f_equal. apply idx_app. apply (proj2 (Hd k t E)).
  - apply map_ext_in. intros [s t] Hin. simpl. f_equal. apply idx_app. apply (proj2 (Hl k s t Hin)).
Qed.

Lemma map_st_add nm h names k : hist_closed h -> (forall x, In x (h_names h) -> In x names) ->
  map (st_of nm h) names ++ fresh_ext names k = map (st_of nm h) (add_name names k).
Proof.
  intros Hc Hinc. unfold fresh_ext, add_name. destruct (existsb (N.eqb k) names) eqn:E.
  - apply app_nil_r.
  - rewrite map_app. simpl. rewrite st_of_fresh; auto.
    intros H. apply Hinc in H. apply existsb_eqb_in in H. congruence.
Qed.

Lemma upd_map_names (g g' : N -> sic) (F : sic -> sic) names k :
  NoDup names -> In k names -> (forall x, In x names -> x <> k -> g x = g' x) -> F (g k) = g' k ->
  upd (map g names) (idx names k) (F (nth (idx names k) (map g names) sic_new)) = map g' names.
Proof.
  intros Hnd Hk Hother Hself. apply list_ext. intros m.
  pose proof (idx_nth names k Hk) as Hi.
  destruct (Nat.eq_dec (idx names k) m) as [<-|Hne].
  - rewrite nth_error_upd_eq by (rewrite map_length; apply idx_lt; auto).
    rewrite (nth_nth_error (map g names) (idx names k) sic_new (g k)) by (apply map_nth_error; auto).
    rewrite (map_nth_error g' _ _ Hi). f_equal. exact Hself.
  - rewrite nth_error_upd_neq by auto. rewrite !nth_error_map.
    destruct (nth_error names m) as [x|] eqn:Hx; auto. simpl. f_equal. apply Hother.
    + eapply nth_error_In; eauto.
    + intros ->. apply Hne. pose proof (ion_nodup k names Hnd m Hx) as H1.
      pose proof (ion_nodup k names Hnd _ Hi) as H2. congruence.
Qed.

Lemma upd_state_mkb names sts i F :
  upd_state (mkb names sts) i F = mkb names (upd sts i (F (nth i sts sic_new))).
Proof. reflexivity. Qed.

Lemma run_bop_char k0 ops o : Forall op_nonew ops -> op_nonew o ->
  let h := BNew k0 :: ops in
  run_bop (mkb (h_names h) (map (spec_state h) (h_names h))) o =
  mkb (h_names (h ++ [o])) (map (spec_state (h ++ [o])) (h_names (h ++ [o]))).
Proof.
  intros Hops Ho h. pose proof (hist_closed_ok k0 ops Hops) as Hc. fold h in Hc.
  assert (Hc' : hist_closed (h ++ [o])).
  { unfold h. change ((BNew k0 :: ops) ++ [o]) with (BNew k0 :: (ops ++ [o])). apply hist_closed_ok.
    apply Forall_app. split; auto. }
  destruct Hc' as (Hnd' & _). pose proof Hc as (Hnd & Hl & Hd & Hf).
  rewrite !spec_state_eq. rewrite h_names_snoc in *. set (n := h_names h) in *.
  destruct (names_step_ext n o Ho) as [e He].
  assert (Hst : forall x, st_of (names_step n o) h x = st_of n h x).
  { intros x. rewrite He. apply st_of_ext. exact Hc. }
  destruct o as [k|k s k'|k k'|k]; [contradiction| | |]; cbn [run_bop names_step] in *.
  - (* add_transition *)
    unfold b_add_transition. rewrite get_state_id_mkb by apply map_length.
    rewrite (map_st_add n h n k Hc) by auto.
    rewrite get_state_id_mkb by (rewrite !map_length; auto).
    rewrite (map_st_add n h (add_name n k) k' Hc) by (intros x; apply add_name_incl).
    rewrite upd_state_mkb. set (n2 := add_name (add_name n k) k') in *.
    assert (Hk : In k n2) by (apply add_name_incl, add_name_in).
    assert (Hk' : In k' n2) by apply add_name_in.
    replace (idx (add_name n k) k) with (idx n2 k)
      by (unfold n2; destruct (add_name_ext (add_name n k) k') as [e2 ->]; apply idx_app, add_name_in).
    f_equal. apply (upd_map_names _ _ (fun s0 => {| s_final := s_final s0; s_default := s_default s0; s_trans := s_trans s0 ++ [(s, idx n2 k')] |})); auto.
    + intros x Hx Hne. rewrite <- Hst. unfold st_of. rewrite h_final_snoc, h_default_snoc, h_labels_snoc.
      destruct (N.eqb_spec k x) as [->|_]; [congruence|]. rewrite orb_false_r, app_nil_r. reflexivity.
    + rewrite <- Hst. unfold st_of. cbn [s_final s_default s_trans].
      rewrite h_final_snoc, h_default_snoc, h_labels_snoc, N.eqb_refl, orb_false_r, map_app. reflexivity.
  - (* set_default_successor *)
    unfold b_set_default. rewrite get_state_id_mkb by apply map_length.
    rewrite (map_st_add n h n k Hc) by auto.
    rewrite get_state_id_mkb by (rewrite !map_length; auto).
    rewrite (map_st_add n h (add_name n k) k' Hc) by (intros x; apply add_name_incl).
    rewrite upd_state_mkb. set (n2 := add_name (add_name n k) k') in *.
    assert (Hk : In k n2) by (apply add_name_incl, add_name_in).
    assert (Hk' : In k' n2) by apply add_name_in.
    replace (idx (add_name n k) k) with (idx n2 k)
      by (unfold n2; destruct (add_name_ext (add_name n k) k') as [e2 ->]; apply idx_app, add_name_in).
    f_equal. apply (upd_map_names _ _ (fun s0 => {| s_final := s_final s0; s_default := Some (idx n2 k'); s_trans := s_trans s0 |})); auto.
    + intros x Hx Hne. rewrite <- Hst. unfold st_of. rewrite h_final_snoc, h_default_snoc, h_labels_snoc.
      destruct (N.eqb_spec k x) as [->|_]; [congruence|]. rewrite orb_false_r, app_nil_r. reflexivity.
    + rewrite <- Hst. unfold st_of. cbn [s_final s_default s_trans].
      rewrite h_final_snoc, h_default_snoc, h_labels_snoc, N.eqb_refl, orb_false_r, app_nil_r. reflexivity.
  - (* mark_final *)
    unfold b_mark_final. rewrite get_state_id_mkb by apply map_length.
    rewrite (map_st_add n h n k Hc) by auto.
    rewrite upd_state_mkb. set (n1 := add_name n k) in *.
    assert (Hk : In k n1) by apply add_name_in.
    f_equal. apply (upd_map_names _ _ (fun s0 => {| s_final := true; s_default := s_default s0; s_trans := s_trans s0 |})); auto.
    + intros x Hx Hne. rewrite <- Hst. unfold st_of. rewrite h_final_snoc, h_default_snoc, h_labels_snoc.
      destruct (N.eqb_spec k x) as [->|_]; [congruence|]. rewrite orb_false_r, app_nil_r. reflexivity.
    + rewrite <- Hst. unfold st_of. cbn [s_final s_default s_trans].
      rewrite h_final_snoc, h_default_snoc, h_labels_snoc, N.eqb_refl, orb_true_r, app_nil_r. reflexivity.
Qed.

(* the builder after a history: ids are positions in first-mention order, and state i holds the
   labels (call order), last default and final mark of the i-th name *)
Theorem run_history_char k0 ops : Forall op_nonew ops ->
  let h := BNew k0 :: ops in
  run_history h = mkb (h_names h) (map (spec_state h) (h_names h)).
Proof.
  induction ops as [|o ops IH] using rev_ind; intros Hok h.
  - reflexivity.
  - apply Forall_app in Hok. destruct Hok as [Hops Ho]. inversion Ho as [|? ? Hoo _]; subst.
    unfold h. change (BNew k0 :: ops ++ [o]) with ((BNew k0 :: ops) ++ [o]).
    rewrite run_history_snoc, (IH Hops). apply run_bop_char; auto.
Qed.

(* ------------------------------------------------------------------ 4. reading the boolean spec *)

Lemma labels_disjoint_iff l : labels_disjoint l = true <-> pairwise_disjoint l.
Proof.
  induction l as [|s t IH]; simpl; [tauto|].
  rewrite andb_true_iff, IH, forallb_forall, Forall_forall.
  split; intros [H1 H2]; split; auto; intros y Hy; specialize (H1 y Hy).
  - apply inter_none. destruct (cs_inter s y); [discriminate|reflexivity].
  - apply inter_none in H1. rewrite H1. reflexivity.
Qed.

Lemma covers_from_spec l : StronglySorted le_start l -> forall w,
  (w <= covers_from w l)%N /\ ~ covered l (covers_from w l) /\
  forall x, (w <= x)%N -> (x < covers_from w l)%N -> covered l x.
Proof.
  induction 1 as [|s t Hs IH Hall]; intros w; cbn [covers_from].
  - split; [lia|]. split; [apply covered_nil|]. intros x H1 H2. lia.
  - destruct (N.leb_spec (fst s) w) as [Hle|Hgt].
    + destruct (IH (N.max w (snd s + 1))%N) as (H1 & H2 & H3).
      set (r := covers_from (N.max w (snd s + 1)) t) in *.
      split; [lia|]. split.
      * rewrite covered_cons. intros [[Hm1 Hm2]|Hc]; auto. lia.
      * intros x Hx1 Hx2. rewrite covered_cons.
        destruct (N.lt_ge_cases x (N.max w (snd s + 1))) as [Hlt|Hge].
        -- left. unfold mem. lia.
        -- right. apply H3; auto.
    + split; [lia|]. split; [|intros x H1 H2; lia].
      rewrite covered_cons. intros [[Hm1 Hm2]|[s' [Hin [Hm1 Hm2]]]]; [lia|].
      rewrite Forall_forall in Hall. specialize (Hall s' Hin). unfold le_start in Hall. lia.
Qed.

(* labels_cover_all decides "every good character lies in some label" (any labels, any order) *)
Lemma labels_cover_all_iff l : labels_cover_all l = true <-> forall c, good c -> covered l c.
Proof.
  unfold labels_cover_all. rewrite N.ltb_lt.
  destruct (covers_from_spec (sort_by_start l) (sort_sorted l) 0%N) as (_ & H2 & H3).
  set (r := covers_from 0 (sort_by_start l)) in *. split.
  - intros Hr c Hc. apply (covered_perm (sort_by_start l)); [apply Permutation_sym, sort_perm|].
    apply H3; [lia|]. unfold good in Hc. lia.
  - intros Hall. destruct (N.lt_ge_cases MAXC r) as [|Hle]; auto. exfalso. apply H2.
    apply (covered_perm l); [apply sort_perm|]. apply Hall. exact Hle.
Qed.

Lemma ptry_none_labels l : Forall cs_valid l -> (ptry_from_list l = None <-> labels_disjoint l = false).
Proof.
  intros Hv. rewrite (ptry_from_list_none_iff l Hv), <- labels_disjoint_iff.
  destruct (labels_disjoint l); split; congruence.
Qed.

Lemma ptry_some_cover l p : Forall cs_valid l -> ptry_from_list l = Some p ->
  pempty_complement p = labels_cover_all l.
Proof.
  intros Hv Hp. destruct (ptry_from_list_wf l p Hv Hp) as [Hwf _].
  apply eq_true_iff_eq. rewrite (pempty_complement_iff p Hwf), labels_cover_all_iff.
  split; intros H c Hc; apply (ptry_from_list_covered l p c Hv Hp); auto.
Qed.

(* ------------------------------------------------------------------ 5. one state *)

Definition lbls (s : sic) : list cs := map fst (s_trans s).
(* successor of character c according to a state in construction: the first transition whose
   label contains c, else the default *)
Definition sic_delta (s : sic) (c : N) : option nat :=
  match find (fun t => cs_contains (fst t) c) (s_trans s) with
  | Some t => Some (snd t)
  | None => s_default s
  end.

Lemma pd_unique {B} (l : list (cs * B)) c : pairwise_disjoint (map fst l) ->
  forall t1 t2, In t1 l -> In t2 l -> mem c (fst t1) -> mem c (fst t2) -> t1 = t2.
Proof.
  induction l as [|a r IH]; intros Hpd t1 t2 H1 H2 M1 M2; [destruct H1|].
  simpl in Hpd. destruct Hpd as [Hall Hpd]. rewrite Forall_forall in Hall.
  destruct H1 as [<-|H1], H2 as [<-|H2]; auto.
  - exfalso. apply (Hall (fst t2) (in_map fst _ _ H2) c). auto.
  - exfalso. apply (Hall (fst t1) (in_map fst _ _ H1) c). auto.
Qed.

Lemma pd_filter {B} (Q : cs * B -> bool) (l : list (cs * B)) :
  pairwise_disjoint (map fst l) -> pairwise_disjoint (map fst (filter Q l)).
Proof.
  induction l as [|a r IH]; simpl; auto. intros [Hall Hpd]. destruct (Q a); simpl; auto.
  split; auto. rewrite Forall_forall in *. intros y Hy. apply Hall.
  apply in_map_iff in Hy. destruct Hy as [x [<- Hx]]. apply in_map. apply filter_In in Hx. tauto.
Qed.

Lemma valid_filter {B} (Q : cs * B -> bool) (l : list (cs * B)) :
  Forall cs_valid (map fst l) -> Forall cs_valid (map fst (filter Q l)).
Proof.
  rewrite !Forall_forall. intros H y Hy. apply H.
  apply in_map_iff in Hy. destruct Hy as [x [<- Hx]]. apply in_map. apply filter_In in Hx. tauto.
Qed.

Lemma cleanup_cases s :
  (s_default (cleanup s) = None /\ s_default s = None /\ s_trans (cleanup s) = s_trans s) \/
  (exists d, s_default (cleanup s) = Some d /\ (s_default s = Some d \/ s_default s = None) /\
             s_trans (cleanup s) = filter (fun x => negb (Nat.eqb (snd x) d)) (s_trans s)).
Proof.
  unfold cleanup. destruct (s_default s) as [d|] eqn:Ed.
  - right. exists d. simpl. auto.
  - destruct (s_trans s) as [|[c0 x0] t] eqn:Et.
    + left. simpl. auto.
    + destruct (Nat.leb _ _).
      * right. eexists. simpl. split; [reflexivity|]. split; auto.
      * left. simpl. auto.
Qed.

Lemma cleanup_final s : s_final (cleanup s) = s_final s.
Proof. reflexivity. Qed.

Lemma cleanup_sub s : exists Q, s_trans (cleanup s) = filter Q (s_trans s).
Proof.
  destruct (cleanup_cases s) as [(_ & _ & ->)|(d & _ & _ & ->)]; eauto.
  exists (fun _ => true). induction (s_trans s) as [|a l IH]; simpl; congruence.
Qed.

(* KEY: promoting a majority successor to default and dropping the transitions into the default
   changes the successor of no character, if the labels are conflict-free and a state without
   declared default covers the character *)
Lemma cleanup_preserves_delta s c : pairwise_disjoint (lbls s) ->
  (s_default s = None -> covered (lbls s) c) ->
  sic_delta (cleanup s) c = sic_delta s c.
Proof.
  intros Hpd Hcov. unfold sic_delta.
  destruct (cleanup_cases s) as [(E1 & E2 & E3)|(d & E1 & E2 & E3)]; rewrite E1, E3.
  - rewrite E2. reflexivity.
  - set (P := fun t : cs * nat => cs_contains (fst t) c).
    set (Q := fun x : cs * nat => negb (Nat.eqb (snd x) d)).
    destruct (find P (s_trans s)) as [t|] eqn:Ef.
    + destruct (find_some _ _ Ef) as [Hin HP].
      destruct (Nat.eqb (snd t) d) eqn:Eq.
      * assert (En : find P (filter Q (s_trans s)) = None).
        { apply find_none_iff. intros x Hx. apply filter_In in Hx. destruct Hx as [Hx HQ].
          destruct (P x) eqn:HPx; auto. exfalso.
          assert (x = t) by (apply (pd_unique (s_trans s) c Hpd); auto; apply contains_iff; auto).
          subst x. unfold Q in HQ. rewrite Eq in HQ. discriminate. }
        rewrite En. apply Nat.eqb_eq in Eq. congruence.
      * rewrite (find_filter_keep P Q _ t Ef); auto. unfold Q. rewrite Eq. reflexivity.
    + assert (En : find P (filter Q (s_trans s)) = None).
      { apply find_none_iff. intros x Hx. apply filter_In in Hx.
        apply (proj1 (find_none_iff P _) Ef). tauto. }
      rewrite En. destruct E2 as [E2|E2]; [congruence|]. exfalso.
      destruct (Hcov E2) as [set [Hin Hm]]. apply in_map_iff in Hin. destruct Hin as [t [<- Hin]].
      pose proof (proj1 (find_none_iff P _) Ef t Hin) as HP. unfold P in HP.
      apply contains_iff in Hm. congruence.
Qed.

Definition succ_step (p : part) (acc : option (list nat)) (tr : cs * nat) : option (list nat) :=
  match acc with
  | None => None
  | Some r => match pclass_of_char p (cs_pick (fst tr)) with
              | Some (CInt i) => Some (upd r i (snd tr))
              | _ => None
              end
  end.

Lemma make_successor_eq s p :
  make_successor s p = fold_left (succ_step p) (s_trans s) (Some (repeat 0 (length (ivs p)))).
Proof. reflexivity. Qed.

Lemma succ_fold p l : forall r0,
  (forall tr, In tr l -> exists i, pclass_of_char p (cs_pick (fst tr)) = Some (CInt i) /\ i < length r0) ->
  exists r, fold_left (succ_step p) l (Some r0) = Some r /\ length r = length r0 /\
    forall i j, (forall tr, In tr l -> pclass_of_char p (cs_pick (fst tr)) = Some (CInt i) -> snd tr = j) ->
                (exists tr, In tr l /\ pclass_of_char p (cs_pick (fst tr)) = Some (CInt i)) ->
                nth_error r i = Some j.
Proof.
  induction l as [|a l IH] using rev_ind; intros r0 Hcls.
  - exists r0. split; auto. split; auto. intros i j _ [tr [[] _]].
  - destruct (IH r0) as (r1 & Hf & Hlen & Hnth).
    { intros tr Hin. apply Hcls. apply in_or_app. auto. }
    destruct (Hcls a) as (ia & Ha & Hia); [apply in_or_app; right; left; auto|].
    exists (upd r1 ia (snd a)). rewrite fold_left_app, Hf. simpl. rewrite Ha.
    split; auto. split; [rewrite upd_length; auto|].
    intros i j Hcons [tr [Hin Htr]].
    destruct (Nat.eq_dec ia i) as [->|Hne].
    + rewrite nth_error_upd_eq by lia. f_equal. apply Hcons; auto. apply in_or_app. right. left. auto.
    + rewrite nth_error_upd_neq by auto. apply Hnth.
      * intros tr' Hin' Hc'. apply Hcons; auto. apply in_or_app. auto.
      * apply in_app_or in Hin. destruct Hin as [Hin|[<-|[]]]; eauto. congruence.
Qed.

Definition mk_astate (i : nat) (s : sic) (p : part) (suc : list nat) : astate :=
  {| a_id := i; a_final := s_final s; a_classes := p; a_succ := suc; a_default := s_default s |}.

(* a state with legal, conflict-free labels is turned into an automaton state that never panics
   and has exactly the successors of the state in construction *)
Lemma state_next s i : Forall cs_valid (lbls s) -> pairwise_disjoint (lbls s) ->
  exists p suc, ptry_from_list (lbls s) = Some p /\ make_successor s p = Some suc /\
    forall A c, good c -> a_next A (mk_astate i s p suc) c = sic_delta s c.
Proof.
  intros Hv Hpd.
  destruct (proj2 (ptry_from_list_ok_iff (lbls s) Hv) Hpd) as [p Hp].
  destruct (ptry_from_list_wf (lbls s) p Hv Hp) as [Hwf Hperm].
  pose proof (pwf_sorted p Hwf) as Hs.
  assert (Hcls : forall tr, In tr (s_trans s) -> forall i, nth_error (ivs p) i = Some (fst tr) ->
                 pclass_of_char p (cs_pick (fst tr)) = Some (CInt i)).
  { intros tr Hin k Hk. apply pclass_of_char_complete; auto. simpl. exists (fst tr). split; auto.
    apply pick_mem. rewrite Forall_forall in Hv. apply Hv. apply in_map. exact Hin. }
  assert (Hidx : forall tr, In tr (s_trans s) -> exists i, nth_error (ivs p) i = Some (fst tr)).
  { intros tr Hin. apply In_nth_error. eapply Permutation_in; [exact Hperm|]. apply in_map. exact Hin. }
  destruct (succ_fold p (s_trans s) (repeat 0 (length (ivs p)))) as (suc & Hsuc & Hlen & Hnth).
  { intros tr Hin. destruct (Hidx tr Hin) as [k Hk]. exists k. split; auto.
    rewrite repeat_length. apply nth_error_Some. congruence. }
  exists p, suc. split; auto. split; [rewrite make_successor_eq; exact Hsuc|].
  intros A c Hc. unfold a_next, mk_astate. cbn [a_classes a_succ a_default].
  destruct (pclass_of_char_res p c Hs) as [cl [Hcl Hres]]. rewrite Hcl. unfold sic_delta.
  set (P := fun t : cs * nat => cs_contains (fst t) c).
  destruct cl as [k|].
  - destruct Hres as [set [Hk Hm]].
    assert (Hin : In set (lbls s)).
    { eapply Permutation_in; [apply Permutation_sym; exact Hperm|]. eapply nth_error_In; eauto. }
    apply in_map_iff in Hin. destruct Hin as [tr [Hfst Hin]]. subst set.
    assert (Ef : find P (s_trans s) = Some tr).
    { destruct (find P (s_trans s)) as [t'|] eqn:Ef.
      - destruct (find_some _ _ Ef) as [Hin' HP']. f_equal.
        apply (pd_unique (s_trans s) c Hpd); auto. apply contains_iff. exact HP'.
      - pose proof (proj1 (find_none_iff P _) Ef tr Hin) as HP. unfold P in HP.
        apply contains_iff in Hm. congruence. }
    rewrite Ef. apply Hnth.
    + intros tr' Hin' Hc'. f_equal.
      assert (Hv' : cs_valid (fst tr')) by (rewrite Forall_forall in Hv; apply Hv, in_map, Hin').
      assert (Hg : good (cs_pick (fst tr'))) by (destruct Hv'; unfold good, cs_pick; lia).
      pose proof (pclass_of_char_sound p _ _ Hs Hg Hc') as [set' [Hk' Hm']].
      assert (set' = fst tr) by congruence. subst set'.
      apply (pd_unique (s_trans s) (cs_pick (fst tr')) Hpd); auto. apply pick_mem. exact Hv'.
    + exists tr. split; auto.
  - assert (Ef : find P (s_trans s) = None).
    { apply find_none_iff. intros t Hin. destruct (P t) eqn:HP; auto. exfalso. apply Hres.
      apply (ptry_from_list_covered (lbls s) p c Hv Hp). exists (fst t). split; [apply in_map; auto|].
      apply contains_iff. exact HP. }
    rewrite Ef. reflexivity.
Qed.

(* ------------------------------------------------------------------ 6. the checked loop *)

(* the irregularity build reports for one state (None = the state is accepted) *)
Definition sic_err (s : sic) : option berr :=
  if negb (labels_disjoint (lbls s)) then Some NonDisjointCharSets
  else if has_default s && labels_cover_all (lbls s) then Some EmptyComplementaryClass
  else if negb (has_default s) && negb (labels_cover_all (lbls s)) then Some MissingDefaultSuccessor
  else None.
Fixpoint first_some {A B} (f : A -> option B) (l : list A) : option B :=
  match l with [] => None | x :: t => match f x with Some e => Some e | None => first_some f t end end.

Definition st_ok (s0 : sic) (st : astate) : Prop :=
  a_final st = s_final s0 /\
  forall A c, good c -> a_next A st c = sic_delta s0 c /\ sic_delta s0 c <> None.

Lemma sic_err_none s : sic_err s = None ->
  labels_disjoint (lbls s) = true /\ has_default s = negb (labels_cover_all (lbls s)).
Proof.
  unfold sic_err. destruct (labels_disjoint (lbls s)), (has_default s), (labels_cover_all (lbls s));
    simpl; intros H; try discriminate; auto.
Qed.

Lemma bsc_spec l : forall i, Forall (fun s => Forall cs_valid (lbls s)) l ->
  match first_some sic_err l with
  | Some e => build_states_checked l i = Some (inl e)
  | None => exists sts, build_states_checked l i = Some (inr sts) /\ Forall2 st_ok l sts
  end.
Proof.
  induction l as [|s0 t IH]; intros i Hv.
  - simpl. exists []. split; auto.
  - inversion Hv as [|? ? Hv0 Hvt]; subst. specialize (IH (S i) Hvt).
    cbn [first_some build_states_checked]. fold (lbls s0).
    destruct (sic_err s0) as [e|] eqn:Ee.
    + unfold sic_err in Ee. destruct (labels_disjoint (lbls s0)) eqn:Ed.
      * destruct (ptry_from_list (lbls s0)) as [p0|] eqn:Ep0;
          [|apply (ptry_none_labels _ Hv0) in Ep0; congruence].
        rewrite (ptry_some_cover _ _ Hv0 Ep0). simpl in Ee.
        destruct (has_default s0 && labels_cover_all (lbls s0)); [congruence|].
        destruct (negb (has_default s0) && negb (labels_cover_all (lbls s0))); congruence.
      * rewrite (proj2 (ptry_none_labels _ Hv0) Ed). simpl in Ee. congruence.
    + destruct (sic_err_none s0 Ee) as [Ed Eh].
      assert (Hpd : pairwise_disjoint (lbls s0)) by (apply labels_disjoint_iff; auto).
      destruct (proj2 (ptry_from_list_ok_iff (lbls s0) Hv0) Hpd) as [p0 Ep0]. rewrite Ep0.
      rewrite (ptry_some_cover _ _ Hv0 Ep0), Eh.
      replace (negb (labels_cover_all (lbls s0)) && labels_cover_all (lbls s0)) with false
        by (destruct (labels_cover_all (lbls s0)); reflexivity).
      replace (negb (negb (labels_cover_all (lbls s0))) && negb (labels_cover_all (lbls s0))) with false
        by (destruct (labels_cover_all (lbls s0)); reflexivity).
      cbv zeta. fold (lbls (cleanup s0)).
      destruct (cleanup_sub s0) as [Q HQ].
      assert (Hv1 : Forall cs_valid (lbls (cleanup s0))) by (unfold lbls; rewrite HQ; apply valid_filter; auto).
      assert (Hpd1 : pairwise_disjoint (lbls (cleanup s0))) by (unfold lbls; rewrite HQ; apply pd_filter; auto).
      destruct (state_next (cleanup s0) i Hv1 Hpd1) as (p & suc & Hp & Hsuc & Hnext).
      rewrite Hp, Hsuc. cbn [bind].
      assert (Hst : st_ok s0 (mk_astate i (cleanup s0) p suc)).
      { split; [reflexivity|]. intros A c Hc.
        assert (Hcov : s_default s0 = None -> covered (lbls s0) c).
        { intros Hn. apply labels_cover_all_iff; auto. unfold has_default in Eh. rewrite Hn in Eh.
          destruct (labels_cover_all (lbls s0)); auto; discriminate. }
        rewrite Hnext by auto. rewrite cleanup_preserves_delta by auto. split; auto.
        unfold sic_delta. destruct (find _ (s_trans s0)) as [tr|] eqn:Ef; [discriminate|].
        destruct (s_default s0) eqn:Edf; [discriminate|]. exfalso.
        destruct (Hcov eq_refl) as [set [Hin Hm]]. apply in_map_iff in Hin. destruct Hin as [tr [<- Hin]].
        pose proof (proj1 (find_none_iff _ _) Ef tr Hin) as HP. cbv beta in HP.
        apply contains_iff in Hm. congruence. }
      destruct (first_some sic_err t) as [e|].
      * rewrite IH. reflexivity.
      * destruct IH as (sts & -> & Hall). cbn [bind]. eexists. split; [reflexivity|].
        constructor; auto.
Qed.

(* ------------------------------------------------------------------ 7. histories: the theorems *)

Definition hl (h : list bop) (k : N) : list cs := map fst (h_labels h k).
Definition has_def (h : list bop) (k : N) : bool := match h_default h k with Some _ => true | None => false end.
(* the irregularity of state k of a specification, in the order build checks them *)
Definition state_err (h : list bop) (k : N) : option berr :=
  if negb (labels_disjoint (hl h k)) then Some NonDisjointCharSets
  else if has_def h k && labels_cover_all (hl h k) then Some EmptyComplementaryClass
  else if negb (has_def h k) && negb (labels_cover_all (hl h k)) then Some MissingDefaultSuccessor
  else None.
(* the irregularity of the first irregular state in id (= first-mention) order *)
Definition spec_err (h : list bop) : option berr := first_some (state_err h) (h_names h).

Lemma lbls_st_of nm h k : lbls (st_of nm h k) = hl h k.
Proof. unfold lbls, hl, st_of. cbn [s_trans]. rewrite map_map. apply map_ext. reflexivity. Qed.

Lemma has_default_st_of nm h k : has_default (st_of nm h k) = has_def h k.
Proof. unfold has_default, has_def, st_of. cbn [s_default]. destruct (h_default h k); reflexivity. Qed.

Lemma sic_err_st_of nm h k : sic_err (st_of nm h k) = state_err h k.
Proof. unfold sic_err, state_err. rewrite lbls_st_of, has_default_st_of. reflexivity. Qed.

Lemma first_some_map {A B C} (f : B -> option C) (g : A -> B) l :
  first_some f (map g l) = first_some (fun x => f (g x)) l.
Proof. induction l as [|a l IH]; simpl; auto. rewrite IH. reflexivity. Qed.

Lemma first_some_ext {A B} (f g : A -> option B) l : (forall x, f x = g x) -> first_some f l = first_some g l.
Proof. intros H. induction l as [|a l IH]; simpl; auto. rewrite H, IH. reflexivity. Qed.

Lemma first_some_none {A B} (f : A -> option B) l : first_some f l = None <-> forall x, In x l -> f x = None.
Proof.
  induction l as [|a l IH]; simpl.
  - split; auto. intros _ x [].
  - destruct (f a) eqn:E.
    + split; [discriminate|]. intros H. rewrite (H a) in E; auto.
    + rewrite IH. split; [intros H x [<-|Hx]; auto|intros H x Hx; apply H; auto].
Qed.

Lemma first_some_some {A B} (f : A -> option B) l e : first_some f l = Some e <->
  exists i x, nth_error l i = Some x /\ f x = Some e /\
              forall j y, j < i -> nth_error l j = Some y -> f y = None.
Proof.
  induction l as [|a l IH]; simpl.
  - split; [discriminate|]. intros (i & x & H & _). destruct i; discriminate.
  - destruct (f a) eqn:E.
    + split.
      * intros H. exists 0, a. simpl. split; auto. split; [congruence|]. intros j y Hj. lia.
      * intros ([|i] & x & Hx & Hfx & Hbefore); simpl in Hx.
        -- congruence.
        -- specialize (Hbefore 0 a ltac:(lia) eq_refl). congruence.
    + rewrite IH. split.
      * intros (i & x & Hx & Hfx & Hbefore). exists (S i), x. simpl. split; auto. split; auto.
        intros [|j] y Hj Hy; simpl in Hy; [congruence|]. apply (Hbefore j); auto. lia.
      * intros ([|i] & x & Hx & Hfx & Hbefore); simpl in Hx; [congruence|].
        exists i, x. split; auto. split; auto. intros j y Hj Hy. apply (Hbefore (S j)); auto. lia.
Qed.

Lemma h_labels_valid h k :
  Forall (fun o => match o with BAdd _ s _ => cs_valid s | _ => True end) h -> Forall cs_valid (hl h k).
Proof.
  unfold hl. induction h as [|o h IH]; intros Hv; [constructor|]. inversion Hv as [|? ? Ho Hh]; subst.
  unfold h_labels. cbn [flat_map]. rewrite map_app. apply Forall_app. split; [|apply IH; auto].
  destruct o as [k1|k1 s k1'|k1 k1'|k1]; try constructor.
  destruct (N.eqb k1 k); constructor; auto.
Qed.

Lemma ops_ok_labels_valid k0 ops k : ops_ok ops -> Forall cs_valid (hl (BNew k0 :: ops) k).
Proof.
  intros H. apply h_labels_valid. constructor; auto. eapply Forall_impl; [|exact H].
  intros [] Ho; simpl in *; auto.
Qed.

Lemma Forall2_nth_error {A B} (R : A -> B -> Prop) l1 l2 : Forall2 R l1 l2 ->
  forall i x, nth_error l1 i = Some x -> exists y, nth_error l2 i = Some y /\ R x y.
Proof.
  induction 1 as [|a b l1 l2 Hab Hall IH]; intros [|i] x Hx; simpl in *; try discriminate.
  - injection Hx as <-. eauto.
  - apply IH. exact Hx.
Qed.

Lemma Forall2_len {A B} (R : A -> B -> Prop) l1 l2 : Forall2 R l1 l2 -> length l1 = length l2.
Proof. induction 1; simpl; auto. Qed.

Lemma finals_count (g : N -> sic) (f : N -> bool) names : (forall k, s_final (g k) = f k) ->
  forall sts, Forall2 st_ok (map g names) sts -> length (filter a_final sts) = length (filter f names).
Proof.
  intros Hg. induction names as [|k names IH]; intros sts H; inversion H as [|? st ? sts' [Hfin _] Hall]; subst; auto.
  simpl. rewrite Hfin, Hg. destruct (f k); simpl; rewrite (IH sts'); auto.
Qed.

Lemma name_id_idx h k i : name_id h k = Some i -> idx (h_names h) k = i /\ nth_error (h_names h) i = Some k.
Proof. unfold name_id, idx. intros H. rewrite H. split; auto. apply ion_some_nth. exact H. Qed.

Lemma name_id_in h k : In k (h_names h) -> name_id h k = Some (idx (h_names h) k).
Proof. intros H. unfold name_id, idx. destruct (ion_in k _ H) as [i ->]. reflexivity. Qed.

(* the successor stored for (k, c), as an id *)
Lemma sic_delta_st_of nm h k c : sic_delta (st_of nm h k) c = option_map (idx nm) (spec_delta h k c).
Proof.
  unfold sic_delta, spec_delta, st_of. cbn [s_trans s_default]. rewrite find_map. cbn [fst].
  destruct (find _ (h_labels h k)) as [[s k']|]; reflexivity.
Qed.

Lemma spec_delta_in_names h k c k' : hist_closed h -> spec_delta h k c = Some k' -> In k' (h_names h).
Proof.
  intros (_ & Hl & Hd & _). unfold spec_delta.
  destruct (find _ (h_labels h k)) as [[s t]|] eqn:Ef.
  - intros H. injection H as <-. apply find_some in Ef. apply (proj2 (Hl k s t (proj1 Ef))).
  - intros H. apply (proj2 (Hd k k' H)).
Qed.

(* what holds of an automaton returned for history h *)
Definition aut_ok (h : list bop) (A : automaton) : Prop :=
  initial A = 0 /\ num_states A = length (h_names h) /\ length (astates A) = length (h_names h) /\
  num_final A = length (filter (h_final h) (h_names h)) /\
  forall k i, name_id h k = Some i ->
    a_final (a_state A i) = h_final h k /\
    forall c, good c ->
      a_next A (a_state A i) c = match spec_delta h k c with Some k' => name_id h k' | None => None end /\
      a_next A (a_state A i) c <> None.

(* build computes exactly this: the error of the first irregular state, else an automaton with the
   specified initial state, final states and successor function; it never panics *)
Theorem build_result k0 ops : ops_ok ops ->
  let h := BNew k0 :: ops in
  match spec_err h with
  | Some e => build (run_history h) = Some (BErr e)
  | None => exists A, build (run_history h) = Some (BOk A) /\ aut_ok h A
  end.
Proof.
  intros Hok h. pose proof (ops_ok_nonew ops Hok) as Hnn.
  pose proof (hist_closed_ok k0 ops Hnn) as Hc. fold h in Hc.
  pose proof (run_history_char k0 ops Hnn) as Hrun. cbv zeta in Hrun. fold h in Hrun.
  unfold build. rewrite Hrun. cbn [mkb bstates].
  set (names := h_names h). rewrite spec_state_eq. fold names.
  assert (Hv : Forall (fun s => Forall cs_valid (lbls s)) (map (st_of names h) names)).
  { apply Forall_forall. intros s Hs. apply in_map_iff in Hs. destruct Hs as [k [<- _]].
    rewrite lbls_st_of. apply ops_ok_labels_valid. exact Hok. }
  pose proof (bsc_spec _ 0 Hv) as Hb. rewrite first_some_map in Hb.
  rewrite (first_some_ext _ (state_err h) names (sic_err_st_of names h)) in Hb.
  unfold spec_err. fold names. destruct (first_some (state_err h) names) as [e|].
  - rewrite Hb. reflexivity.
  - destruct Hb as (sts & -> & Hall). cbn [bind]. eexists. split; [reflexivity|].
    pose proof (Forall2_len _ _ _ Hall) as Hlen. rewrite map_length in Hlen.
    unfold aut_ok. cbn [initial num_states astates num_final].
    split; auto. split; auto. split; auto.
    split; [apply (finals_count (st_of names h)); auto|].
    intros k i Hki. destruct (name_id_idx h k i Hki) as [_ Hnth]. fold names in Hnth.
    destruct (Forall2_nth_error _ _ _ Hall i (st_of names h k)) as (st & Hst & Hfin & Hnext).
    { apply map_nth_error. exact Hnth. }
    unfold a_state. cbn [astates]. rewrite (nth_nth_error sts i dstate st Hst).
    split; [exact Hfin|]. intros c Hc'. destruct (Hnext {| num_states := 0; num_final := 0; initial := 0; astates := [] |} c Hc') as [Hn Hne].
    unfold a_next in *. rewrite Hn. split; [|exact Hne].
    rewrite sic_delta_st_of. destruct (spec_delta h k c) as [k'|] eqn:Ed; [|reflexivity].
    simpl. symmetry. apply name_id_in. eapply spec_delta_in_names; eauto.
Qed.

(* ---- readings of the boolean specification functions *)

Lemma labels_cover_all_false l : labels_cover_all l = false <-> exists c, good c /\ ~ covered l c.
Proof.
  split.
  - unfold labels_cover_all. rewrite N.ltb_ge. intros Hr.
    destruct (covers_from_spec (sort_by_start l) (sort_sorted l) 0%N) as (_ & H2 & _).
    exists (covers_from 0 (sort_by_start l)). split; [exact Hr|]. intros Hc. apply H2.
    apply (covered_perm l); [apply sort_perm|exact Hc].
  - intros (c & Hg & Hn). destruct (labels_cover_all l) eqn:E; auto. exfalso. apply Hn.
    apply (proj1 (labels_cover_all_iff l) E c Hg).
Qed.

Lemma ld_dec l : (labels_disjoint l = true /\ pairwise_disjoint l) \/
                 (labels_disjoint l = false /\ ~ pairwise_disjoint l).
Proof.
  destruct (labels_disjoint l) eqn:E; [left|right]; split; auto.
  - apply labels_disjoint_iff. exact E.
  - intros H. apply labels_disjoint_iff in H. congruence.
Qed.

Lemma lc_dec l : (labels_cover_all l = true /\ forall c, good c -> covered l c) \/
                 (labels_cover_all l = false /\ exists c, good c /\ ~ covered l c).
Proof.
  destruct (labels_cover_all l) eqn:E; [left|right]; split; auto.
  - apply labels_cover_all_iff. exact E.
  - apply labels_cover_all_false. exact E.
Qed.

Definition some_uncovered (l : list cs) : Prop := exists c, good c /\ ~ covered l c.

Lemma uncovered_not_all l : some_uncovered l -> ~ (forall c, good c -> covered l c).
Proof. intros (c & Hg & Hn) H. apply Hn. auto. Qed.

Lemma state_err_nondisjoint h k :
  state_err h k = Some NonDisjointCharSets <-> ~ pairwise_disjoint (hl h k).
Proof.
  unfold state_err.
  destruct (ld_dec (hl h k)) as [[-> Hd]|[-> Hd]]; simpl; [|tauto].
  split; [|tauto]. destruct (has_def h k && _); [discriminate|]. destruct (negb _ && _); discriminate.
Qed.

Lemma state_err_empty h k :
  state_err h k = Some EmptyComplementaryClass <->
  pairwise_disjoint (hl h k) /\ h_default h k <> None /\ forall c, good c -> covered (hl h k) c.
Proof.
  unfold state_err, has_def.
  destruct (ld_dec (hl h k)) as [[-> Hd]|[-> Hd]]; simpl; [|split; [discriminate|tauto]].
  destruct (lc_dec (hl h k)) as [[-> Hc]|[-> Hc]]; destruct (h_default h k) as [d|]; simpl.
  - split; auto. intros _. split; auto. split; auto. discriminate.
  - split; [discriminate|]. intros (_ & H & _). congruence.
  - split; [discriminate|]. intros (_ & _ & H). exfalso. eapply uncovered_not_all; eauto.
  - split; [discriminate|]. intros (_ & H & _). congruence.
Qed.

Lemma state_err_missing h k :
  state_err h k = Some MissingDefaultSuccessor <->
  pairwise_disjoint (hl h k) /\ h_default h k = None /\ some_uncovered (hl h k).
Proof.
  unfold state_err, has_def.
  destruct (ld_dec (hl h k)) as [[-> Hd]|[-> Hd]]; simpl; [|split; [discriminate|tauto]].
  destruct (lc_dec (hl h k)) as [[-> Hc]|[-> Hc]]; destruct (h_default h k) as [d|]; simpl.
  - split; [discriminate|]. intros (_ & H & _). congruence.
  - split; [discriminate|]. intros (_ & _ & H). exfalso. eapply uncovered_not_all; eauto.
  - split; [discriminate|]. intros (_ & H & _). congruence.
  - split; auto.
Qed.

(* a regular state: conflict-free labels, and a default declared exactly where a character is left *)
Lemma state_err_none h k :
  state_err h k = None <->
  pairwise_disjoint (hl h k) /\ (h_default h k <> None <-> some_uncovered (hl h k)).
Proof.
  unfold state_err, has_def.
  destruct (ld_dec (hl h k)) as [[-> Hd]|[-> Hd]]; simpl; [|split; [discriminate|tauto]].
  destruct (lc_dec (hl h k)) as [[-> Hc]|[-> Hc]]; destruct (h_default h k) as [d|]; simpl.
  - split; [discriminate|]. intros (_ & H). exfalso. eapply uncovered_not_all; [apply H; discriminate|eauto].
  - split; auto. intros _. split; auto. split; [congruence|]. intros H. exfalso. eapply uncovered_not_all; eauto.
  - split; auto. intros _. split; auto. split; auto. discriminate.
  - split; [discriminate|]. intros (_ & H). apply H in Hc. congruence.
Qed.

Lemma state_err_strict h k : state_err h k = None <-> state_strict_ok h k = true.
Proof.
  unfold state_err, state_strict_ok, has_def, hl.
  destruct (labels_disjoint _), (labels_cover_all _), (h_default h k); simpl; split; congruence.
Qed.

Lemma spec_err_strict h : spec_err h = None <-> spec_strict h = true.
Proof.
  unfold spec_err, spec_strict. rewrite first_some_none, forallb_forall.
  split; intros H k Hk; apply state_err_strict; auto.
Qed.

Lemma disjoint_consistent (l : list (cs * N)) : labels_disjoint (map fst l) = true -> labels_consistent l = true.
Proof.
  induction l as [|[s k] t IH]; simpl; auto. rewrite !andb_true_iff. intros [H1 H2]. split; auto.
  rewrite forallb_forall in *. intros o Ho. specialize (H1 (fst o) (in_map fst _ _ Ho)).
  destruct (cs_inter s (fst o)); [discriminate|reflexivity].
Qed.

(* the acceptance condition implies the soundness condition *)
Lemma spec_strict_sound h : spec_strict h = true -> spec_sound h = true.
Proof.
  unfold spec_strict, spec_sound. rewrite !forallb_forall. intros H k Hk. specialize (H k Hk).
  unfold state_strict_ok in H. apply andb_true_iff in H. destruct H as [H1 H2].
  rewrite (disjoint_consistent _ H1). unfold state_complete.
  destruct (labels_cover_all _); auto.
Qed.

(* spec_delta is one of the transitions given, or the declared default where no label applies *)
Lemma spec_delta_given h k c k' : spec_delta h k c = Some k' ->
  (exists s, In (s, k') (h_labels h k) /\ mem c s) \/ (~ covered (hl h k) c /\ h_default h k = Some k').
Proof.
  unfold spec_delta. destruct (find _ (h_labels h k)) as [[s t]|] eqn:Ef.
  - intros H. injection H as <-. apply find_some in Ef. destruct Ef as [Hin Hc]. left. exists s.
    split; auto. apply contains_iff. exact Hc.
  - intros H. right. split; auto. intros [s [Hin Hm]]. apply in_map_iff in Hin. destruct Hin as [sl [<- Hin]].
    pose proof (proj1 (find_none_iff _ _) Ef sl Hin) as HP. cbv beta in HP. apply contains_iff in Hm. congruence.
Qed.

(* ... and for conflict-free labels it is the only one *)
Lemma spec_delta_unique h k c s k' : pairwise_disjoint (hl h k) -> In (s, k') (h_labels h k) -> mem c s ->
  spec_delta h k c = Some k'.
Proof.
  intros Hpd Hin Hm. unfold spec_delta. destruct (find _ (h_labels h k)) as [[s1 t1]|] eqn:Ef.
  - apply find_some in Ef. destruct Ef as [Hin1 Hc1]. apply contains_iff in Hc1. simpl in Hc1.
    assert (E : (s1, t1) = (s, k')) by (apply (pd_unique (h_labels h k) c Hpd); auto).
    congruence.
  - pose proof (proj1 (find_none_iff _ _) Ef (s, k') Hin) as HP. cbv beta in HP. simpl in HP.
    apply contains_iff in Hm. congruence.
Qed.

(* ---- the state the history specifies, field by field *)
Lemma spec_state_fields h k : hist_closed h ->
  s_final (spec_state h k) = h_final h k /\
  s_default (spec_state h k) = match h_default h k with Some k' => name_id h k' | None => None end /\
  Forall2 (fun tr sl => fst tr = fst sl /\ name_id h (snd sl) = Some (snd tr))
          (s_trans (spec_state h k)) (h_labels h k).
Proof.
  intros (_ & Hl & Hd & _). unfold spec_state, st_of. cbn [s_final s_default s_trans]. split; auto. split.
  - destruct (h_default h k) as [k'|] eqn:E; auto. simpl. symmetry. apply name_id_in. apply (proj2 (Hd k k' E)).
  - assert (H : forall l, (forall s t, In (s, t) l -> In t (h_names h)) ->
      Forall2 (fun tr sl => fst tr = fst sl /\ name_id h (snd sl) = Some (snd tr))
              (map (fun sl : cs * N => (fst sl, idx (h_names h) (snd sl))) l) l).
    { induction l as [|[s t] l IH]; intros Hin; simpl; constructor.
      - simpl. split; auto. apply name_id_in. apply (Hin s t). left. auto.
      - apply IH. intros s' t' H'. apply (Hin s' t'). right. auto. }
    apply H. intros s t Hin. apply (proj2 (Hl k s t Hin)).
Qed.

Lemma map_fst_combine_seq {A} (l : list A) : forall o, map fst (combine l (seq o (length l))) = l.
Proof. induction l as [|a l IH]; intros o; simpl; auto. rewrite IH. reflexivity. Qed.

Theorem run_history_states k0 ops : Forall op_nonew ops ->
  let h := BNew k0 :: ops in
  let b := run_history h in
  map fst (id_map b) = h_names h /\
  (forall k, find_key k (id_map b) = name_id h k) /\
  length (bstates b) = length (h_names h) /\
  forall k i, name_id h k = Some i -> nth_error (bstates b) i = Some (spec_state h k).
Proof.
  intros Hnn h b. unfold b. pose proof (run_history_char k0 ops Hnn) as Hrun. cbv zeta in Hrun.
  fold h in Hrun. rewrite Hrun. unfold mkb. cbn [id_map bstates]. split; [|split; [|split]].
  - apply map_fst_combine_seq.
  - intros k. apply find_key_combine.
  - apply map_length.
  - intros k i Hki. apply map_nth_error. apply (name_id_idx h k i Hki).
Qed.

(* ---- corollaries of build_result *)

Theorem build_never_panics k0 ops : ops_ok ops -> build (run_history (BNew k0 :: ops)) <> None.
Proof.
  intros Hok. pose proof (build_result k0 ops Hok) as H. cbv zeta in H.
  destruct (spec_err _); [congruence|]. destruct H as (A & -> & _). discriminate.
Qed.

Theorem build_err_kind k0 ops e : ops_ok ops ->
  let h := BNew k0 :: ops in
  (build (run_history h) = Some (BErr e) <-> spec_err h = Some e).
Proof.
  intros Hok h. pose proof (build_result k0 ops Hok) as H. cbv zeta in H. fold h in H.
  destruct (spec_err h) as [e'|].
  - rewrite H. split; congruence.
  - destruct H as (A & -> & _). split; discriminate.
Qed.

Theorem build_ok_aut k0 ops A : ops_ok ops ->
  let h := BNew k0 :: ops in
  build (run_history h) = Some (BOk A) -> spec_err h = None /\ aut_ok h A.
Proof.
  intros Hok h HA. pose proof (build_result k0 ops Hok) as H. cbv zeta in H. fold h in H.
  destruct (spec_err h) as [e'|]; [congruence|]. destruct H as (A' & HA' & Hok'). split; auto. congruence.
Qed.

Theorem build_complete k0 ops : ops_ok ops ->
  let h := BNew k0 :: ops in
  spec_strict h = true -> exists A, build (run_history h) = Some (BOk A).
Proof.
  intros Hok h Hs. pose proof (build_result k0 ops Hok) as H. cbv zeta in H. fold h in H.
  apply spec_err_strict in Hs. rewrite Hs in H. destruct H as (A & HA & _). eauto.
Qed.

Theorem build_ok_iff_strict k0 ops : ops_ok ops ->
  let h := BNew k0 :: ops in
  ((exists A, build (run_history h) = Some (BOk A)) <-> spec_strict h = true).
Proof.
  intros Hok h. split; [|apply build_complete; auto].
  intros [A HA]. apply spec_err_strict. apply (build_ok_aut k0 ops A Hok HA).
Qed.

Theorem build_ok_sound k0 ops A : ops_ok ops ->
  let h := BNew k0 :: ops in
  build (run_history h) = Some (BOk A) -> spec_sound h = true.
Proof.
  intros Hok h HA. apply spec_strict_sound. apply (build_ok_iff_strict k0 ops Hok). eauto.
Qed.

(* set-theoretic form: in every state the labels are pairwise disjoint (so no character is given two
   successors), every character is covered by a label or the declared default, and a default is
   declared only where some character is left uncovered *)
Theorem build_ok_sound_sets k0 ops A : ops_ok ops ->
  let h := BNew k0 :: ops in
  build (run_history h) = Some (BOk A) ->
  forall k, In k (h_names h) ->
    pairwise_disjoint (hl h k) /\
    (forall c, good c -> covered (hl h k) c \/ h_default h k <> None) /\
    (h_default h k <> None <-> some_uncovered (hl h k)).
Proof.
  intros Hok h HA k Hk. destruct (build_ok_aut k0 ops A Hok HA) as [He _].
  pose proof (proj1 (first_some_none _ _) He k Hk) as Hs. apply state_err_none in Hs.
  destruct Hs as [Hpd Hdef]. split; auto. split; auto.
  intros c Hc. destruct (covered_dec (hl h k) c) as [Hcov|Hn]; auto. right. apply Hdef. exists c. auto.
Qed.

Theorem build_ok_delta k0 ops A : ops_ok ops ->
  let h := BNew k0 :: ops in
  build (run_history h) = Some (BOk A) ->
  forall k i c, name_id h k = Some i -> good c ->
    a_next A (a_state A i) c = match spec_delta h k c with Some k' => name_id h k' | None => None end /\
    a_next A (a_state A i) c <> None.
Proof.
  intros Hok h HA k i c Hki Hc. destruct (build_ok_aut k0 ops A Hok HA) as [_ (_ & _ & _ & _ & H)].
  apply (H k i Hki); auto.
Qed.

(* the builder never invents a transition: every successor of the result is the target of a given
   transition whose label contains the character, or the declared default of a character that no
   label contains *)
Theorem build_ok_no_invention k0 ops A : ops_ok ops ->
  let h := BNew k0 :: ops in
  build (run_history h) = Some (BOk A) ->
  forall k i c j, name_id h k = Some i -> good c -> a_next A (a_state A i) c = Some j ->
    exists k', name_id h k' = Some j /\
      ((exists s, In (s, k') (h_labels h k) /\ mem c s) \/
       (~ covered (hl h k) c /\ h_default h k = Some k')).
Proof.
  intros Hok h HA k i c j Hki Hc Hj. destruct (build_ok_delta k0 ops A Hok HA k i c Hki Hc) as [Hd _].
  fold h in Hd. rewrite Hj in Hd. destruct (spec_delta h k c) as [k'|] eqn:E; [|discriminate].
  exists k'. split; auto. apply spec_delta_given. exact E.
Qed.

Theorem build_ok_init k0 ops A : ops_ok ops ->
  let h := BNew k0 :: ops in
  build (run_history h) = Some (BOk A) -> initial A = 0 /\ name_id h k0 = Some 0.
Proof.
  intros Hok h HA. destruct (build_ok_aut k0 ops A Hok HA) as [_ (H & _)]. split; auto.
  destruct (h_names_head k0 ops (ops_ok_nonew ops Hok)) as [t Ht]. unfold name_id. fold h in Ht. rewrite Ht.
  simpl. rewrite N.eqb_refl. reflexivity.
Qed.

Theorem build_ok_num_states k0 ops A : ops_ok ops ->
  let h := BNew k0 :: ops in
  build (run_history h) = Some (BOk A) ->
  num_states A = length (h_names h) /\ length (astates A) = length (h_names h).
Proof. intros Hok h HA. destruct (build_ok_aut k0 ops A Hok HA) as [_ (_ & H1 & H2 & _)]. auto. Qed.

Theorem build_ok_finals k0 ops A : ops_ok ops ->
  let h := BNew k0 :: ops in
  build (run_history h) = Some (BOk A) ->
  (forall k i, name_id h k = Some i -> a_final (a_state A i) = h_final h k) /\
  num_final A = length (filter (h_final h) (h_names h)).
Proof.
  intros Hok h HA. destruct (build_ok_aut k0 ops A Hok HA) as [_ (_ & _ & _ & H1 & H2)]. split; auto.
  intros k i Hki. apply (H2 k i Hki).
Qed.

(* which error: the irregularity of the first irregular state in id order *)
Theorem build_err_first k0 ops e : ops_ok ops ->
  let h := BNew k0 :: ops in
  (build (run_history h) = Some (BErr e) <->
   exists i k, nth_error (h_names h) i = Some k /\ state_err h k = Some e /\
               forall j k', j < i -> nth_error (h_names h) j = Some k' -> state_err h k' = None).
Proof.
  intros Hok h. pose proof (build_err_kind k0 ops e Hok) as H. cbv zeta in H. fold h in H. rewrite H.
  unfold spec_err. apply first_some_some.
Qed.

(* ---- defect D6: the pinned code (validation after cleanup) accepts an unsound specification *)
Definition D6_hist : list bop := [BNew 0; BAdd 0 (97, 97)%N 1; BAdd 1 (0, MAXC)%N 1].
Example D6_prefix_witness :
  (exists sts, build_states_prefix (bstates (run_history D6_hist)) 0 = Some (inr sts) /\
     (* state 0 sends 'z' to state 1 although only 'a' was given a successor *)
     a_next {| num_states := 2; num_final := 0; initial := 0; astates := sts |} (nth 0 sts dstate) 122 = Some 1) /\
  spec_delta D6_hist 0 122 = None /\
  spec_sound D6_hist = false /\
  build (run_history D6_hist) = Some (BErr MissingDefaultSuccessor).
Proof.
  split; [eexists; split; vm_compute; reflexivity|]. repeat split; vm_compute; reflexivity.
Qed.

(* ---- reading spec_sound set-theoretically *)

Lemma inter_some_witness s o r : cs_inter s o = Some r -> exists x, mem x s /\ mem x o.
Proof.
  unfold cs_inter. destruct (N.leb_spec (N.max (fst s) (fst o)) (N.min (snd s) (snd o))) as [H|H]; [|discriminate].
  intros _. exists (N.max (fst s) (fst o)). unfold mem. lia.
Qed.

(* labels_consistent: no character is assigned two different successors *)
Lemma labels_consistent_iff (l : list (cs * N)) :
  labels_consistent l = true <->
  forall c t1 t2, In t1 l -> In t2 l -> mem c (fst t1) -> mem c (fst t2) -> snd t1 = snd t2.
Proof.
  induction l as [|[s k] t IH]; simpl.
  - split; auto. intros _ c t1 t2 [].
  - rewrite andb_true_iff, IH, forallb_forall. split.
    + intros [H1 H2] c t1 t2 [<-|In1] [<-|In2] M1 M2; auto.
      * specialize (H1 t2 In2). simpl in M1. destruct (cs_inter s (fst t2)) eqn:E.
        -- apply N.eqb_eq in H1. exact H1.
        -- exfalso. apply (proj1 (inter_none _ _) E c). auto.
      * specialize (H1 t1 In1). simpl in M2. destruct (cs_inter s (fst t1)) eqn:E.
        -- apply N.eqb_eq in H1. auto.
        -- exfalso. apply (proj1 (inter_none _ _) E c). auto.
      * eapply H2; eauto.
    + intros H. split.
      * intros o Ho. destruct (cs_inter s (fst o)) eqn:E; auto.
        destruct (inter_some_witness _ _ _ E) as [x [Mx1 Mx2]]. apply N.eqb_eq.
        apply (H x (s, k) o); auto.
      * intros c t1 t2 In1 In2. apply H; auto.
Qed.

Lemma state_complete_iff h k :
  state_complete h k = true <-> forall c, good c -> covered (hl h k) c \/ h_default h k <> None.
Proof.
  unfold state_complete. fold (hl h k). destruct (lc_dec (hl h k)) as [[-> Hc]|[-> Hc]]; simpl.
  - split; auto.
  - destruct (h_default h k) as [d|].
    + split; auto. intros _ c _. right. discriminate.
    + split; [discriminate|]. intros H. destruct Hc as (c & Hg & Hn). destruct (H c Hg); congruence.
Qed.

Lemma spec_sound_iff h :
  spec_sound h = true <->
  forall k, In k (h_names h) ->
    (forall c t1 t2, In t1 (h_labels h k) -> In t2 (h_labels h k) ->
                     mem c (fst t1) -> mem c (fst t2) -> snd t1 = snd t2) /\
    (forall c, good c -> covered (hl h k) c \/ h_default h k <> None).
Proof.
  unfold spec_sound. rewrite forallb_forall. split; intros H k Hk; specialize (H k Hk).
  - apply andb_true_iff in H. destruct H as [H1 H2]. split.
    + apply labels_consistent_iff. exact H1.
    + apply state_complete_iff. exact H2.
  - destruct H as [H1 H2]. apply andb_true_iff. split.
    + apply labels_consistent_iff. exact H1.
    + apply state_complete_iff. exact H2.
Qed.

Lemma spec_strict_iff h :
  spec_strict h = true <->
  forall k, In k (h_names h) ->
    pairwise_disjoint (hl h k) /\ (h_default h k <> None <-> some_uncovered (hl h k)).
Proof.
  rewrite <- spec_err_strict. unfold spec_err. rewrite first_some_none.
  split; intros H k Hk; apply state_err_none; auto.
Qed.

(* every specification that is not sound (a character with two different successors, or a character
   without successor) is rejected with an error -- as is every specification that is not strict *)
Theorem build_rejects k0 ops : ops_ok ops ->
  let h := BNew k0 :: ops in
  spec_strict h = false -> exists e, build (run_history h) = Some (BErr e).
Proof.
  intros Hok h Hs. pose proof (build_result k0 ops Hok) as H. cbv zeta in H. fold h in H.
  destruct (spec_err h) as [e|] eqn:E; eauto.
  apply spec_err_strict in E. congruence.
Qed.

Theorem build_rejects_unsound k0 ops : ops_ok ops ->
  let h := BNew k0 :: ops in
  spec_sound h = false -> exists e, build (run_history h) = Some (BErr e).
Proof.
  intros Hok h Hs. apply build_rejects; auto. destruct (spec_strict (BNew k0 :: ops)) eqn:E; auto.
  apply spec_strict_sound in E. fold h in E. congruence.
Qed.

(* state ids of the result are positions *)
Lemma bsc_ids l : forall i sts, build_states_checked l i = Some (inr sts) -> map a_id sts = seq i (length l).
Proof.
  induction l as [|s0 t IH]; intros i sts H; cbn [build_states_checked] in H.
  - injection H as <-. reflexivity.
  - destruct (ptry_from_list (map fst (s_trans s0))); [|discriminate].
    destruct (has_default s0 && _); [discriminate|]. destruct (negb (has_default s0) && _); [discriminate|].
    cbv zeta in H. destruct (ptry_from_list (map fst (s_trans (cleanup s0)))); [|discriminate].
    destruct (make_successor _ _); cbn [bind] in H; [|discriminate].
    destruct (build_states_checked t (S i)) as [[e|sts']|] eqn:E; cbn [bind] in H; try discriminate.
    injection H as <-. cbn [map a_id length seq]. f_equal. apply IH. exact E.
Qed.

Theorem build_ok_ids b A : build b = Some (BOk A) ->
  forall i, i < num_states A -> a_id (a_state A i) = i.
Proof.
  unfold build. destruct (build_states_checked (bstates b) 0) as [[e|sts]|] eqn:E; cbn [bind]; try discriminate.
  intros H. injection H as <-. cbn [num_states]. intros i Hi. unfold a_state. cbn [astates].
  pose proof (bsc_ids _ _ _ E) as Hids.
  assert (Hlen : length sts = length (bstates b)) by (rewrite <- (map_length a_id), Hids, seq_length; auto).
  destruct (nth_error sts i) as [st|] eqn:Hst; [|apply nth_error_None in Hst; lia].
  rewrite (nth_nth_error sts i dstate st Hst).
  pose proof (map_nth_error a_id i sts Hst) as Hm. rewrite Hids in Hm.
  rewrite nth_error_nth' with (d := 0) in Hm by (rewrite seq_length; lia).
  rewrite seq_nth in Hm by lia. injection Hm as <-. reflexivity.
Qed.

(* ---- the gap between soundness and acceptance: sound specifications that build rejects *)
Example strict_gap_overlap_same_target :
  let h := [BNew 0; BAdd 0 (0, 100)%N 0; BAdd 0 (50, MAXC)%N 0] in
  spec_sound h = true /\ build (run_history h) = Some (BErr NonDisjointCharSets).
Proof. split; vm_compute; reflexivity. Qed.
Example strict_gap_needless_default :
  let h := [BNew 0; BAdd 0 (0, MAXC)%N 0; BDef 0 0] in
  spec_sound h = true /\ build (run_history h) = Some (BErr EmptyComplementaryClass).
Proof. split; vm_compute; reflexivity. Qed.

(* run_history, stated without auxiliary definitions: ids are the positions in first-mention order;
   state i holds the final mark, the last default (as an id) and the labelled transitions in call
   order (targets as ids) of the i-th name *)
Theorem run_history_pointwise k0 ops : Forall op_nonew ops ->
  let h := BNew k0 :: ops in
  let b := run_history h in
  map fst (id_map b) = h_names h /\
  (forall k, find_key k (id_map b) = name_id h k) /\
  length (bstates b) = length (h_names h) /\
  forall k i, name_id h k = Some i ->
    exists s, nth_error (bstates b) i = Some s /\
      s_final s = h_final h k /\
      s_default s = match h_default h k with Some k' => name_id h k' | None => None end /\
      Forall2 (fun tr sl => fst tr = fst sl /\ name_id h (snd sl) = Some (snd tr)) (s_trans s) (h_labels h k).
Proof.
  intros Hnn h b. destruct (run_history_states k0 ops Hnn) as (H1 & H2 & H3 & H4).
  split; auto. split; auto. split; auto. intros k i Hki. exists (spec_state h k).
  split; [apply (H4 k i Hki)|]. apply spec_state_fields. apply hist_closed_ok. exact Hnn.
Qed.
