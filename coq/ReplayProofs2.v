(* ReplayProofs2.v -- C07, premise-free executable histories.

   ReplayProofs.v proves [same_term_any_exec_history] under [history_ok h m1], which ASSUMES, for
   every derivative-layer statement of the history (char/class derivative, iter_derivatives,
   is_empty_re, get_string, compile_with_bound), that the manager after the step is well-formed and
   extends the manager before it.  These monotonicity facts are theorems of the derivative layer
   (DerivProofs.v, EmptinessProofs.v, CompileProofs.v) for the invariant [dwf m = wf m /\ nzm m].
   Here they are assembled:

     exec_stmt_dwf          one statement, returning: dwf is kept, the manager is only extended
     history_pre            the side conditions that remain: every SBuild program is accepted by
                            the API (prog_ok), every other statement acts on a term OWNED by the
                            manager at the time of the call.  Nothing else: no validity of class
                            ids, no goodness of characters, no fuel condition (a call that does not
                            return -- None -- ends the history; see char_derivative_dwf and
                            class_derivative_dwf for why no further condition is needed).
     history_pre_ok         dwf m -> history_pre h m -> history_ok h m      (the old premise holds)
     exec_history_dwf       dwf m -> history_pre h m -> exec_history h m = Some m' ->
                            dwf m' /\ ext m m' /\ history m m'
     same_term_any_exec_history_full
                            dwf m -> prog_ok p = true -> run p m = Some (m1, t) ->
                            history_pre h m1 -> exec_history h m1 = Some m' -> run p m' = Some (m', t)
     static variants        [Forall (fun s => stmt_pre s m1) h]: all term arguments already owned
                            when the history starts (ownership is stable under extension)
     thread-local manager   the same from [new_mgr], which is dwf. *)
Require Import Base CharSet Partition PartitionSpec LoopRange Regex Inclusion Constructors Deriv
  Explore Automaton Compile Denote Sem.
Require Import Lang ManagerProofs ConstructorProofs RunProofs.
Require ExploreProofs DerivProofs EmptinessProofs CompileProofs.
Require Import ReplayProofs.
Open Scope N_scope.

Notation dwf := DerivProofs.dwf.

(* ------------------------------------------------------------------------------------------ *)
(** * Derivative-layer steps keep [dwf] and only extend the manager *)

(* class derivative through the cache, any class id: an invalid id cannot return (no cache entry,
   nothing to pick), a valid one is DerivProofs.cached_deriv_correct *)
Lemma cached_deriv_dwf e m cid m' d :
  dwf m -> owned m e -> cached_deriv e m cid = Some (m', d) -> dwf m' /\ ext m m'.
Proof.
  intros [W Z] Oe H. destruct (pvalid (rcls e) cid) eqn:Hv.
  - destruct (DerivProofs.cached_deriv_correct DerivProofs.merge_ok_holds DerivProofs.inclusion_sound_holds
                e m cid m' d W Z Oe Hv H) as (D' & X' & _). split; assumption.
  - pose proof (DerivProofs.class_derivative_unchecked_invalid m e cid W Oe Hv) as N.
    unfold class_derivative_unchecked in N. congruence.
Qed.

(* no condition on the character: whatever class the binary search answers, the step either does
   not return or is a class derivative *)
Lemma char_derivative_dwf m e c m' d :
  dwf m -> owned m e -> char_derivative m e c = Some (m', d) -> dwf m' /\ ext m m'.
Proof.
  intros Dm Oe H. unfold char_derivative, deriv in H.
  destruct (coc e c) as [k|]; cbn [bind] in H; [|discriminate].
  exact (cached_deriv_dwf e m k m' d Dm Oe H).
Qed.

(* no condition on the class id: a bad id is answered Err(BadClassId) and the manager is unchanged *)
Lemma class_derivative_dwf m e cid m' res :
  dwf m -> owned m e -> class_derivative m e cid = Some (m', res) -> dwf m' /\ ext m m'.
Proof.
  intros Dm Oe H. unfold class_derivative in H. destruct (pvalid (rcls e) cid).
  - destruct (cached_deriv e m cid) as [[m1 r]|] eqn:E; cbn [bind] in H; [|discriminate].
    inversion H; subst m1 res. exact (cached_deriv_dwf e m cid m' r Dm Oe E).
  - inversion H; subst m' res. split; [exact Dm | apply ext_refl].
Qed.

Lemma get_string_dwf fuel m e m' res :
  dwf m -> owned m e -> get_string fuel m e = Some (m', res) -> dwf m' /\ ext m m'.
Proof.
  intros Dm Oe H. exact (proj1 (EmptinessProofs.get_string_none_iff_empty fuel m e m' res Dm Oe H)).
Qed.

Lemma is_empty_re_dwf fuel m e m' b :
  dwf m -> owned m e -> is_empty_re fuel m e = Some (m', b) -> dwf m' /\ ext m m'.
Proof. intros Dm Oe H. exact (proj1 (EmptinessProofs.is_empty_iff fuel m e m' b Dm Oe H)). Qed.

(* the compile loop, whatever it answers (a builder, or None = state bound exceeded) *)
Lemma compile_go_dwf f : forall m q s b count mx out m' r,
  compile_go f m q s b count mx = Some (m', r) ->
  dwf m -> Forall (owned m) s -> ExploreProofs.bfs_inv q s out -> ExploreProofs.binv b s ->
  dwf m' /\ ext m m'.
Proof.
  induction f as [|f IH]; intros m q s b count mx out m' r H Dm Os Hbfs Hb; [discriminate|].
  destruct q as [|e q].
  - cbn [compile_go] in H. inversion H; subst m' r. split; [exact Dm | apply ext_refl].
  - rewrite ExploreProofs.compile_go_unfold in H. destruct (Nat.eqb count mx).
    { inversion H; subst m' r. split; [exact Dm | apply ext_refl]. }
    destruct (ExploreProofs.compile_step m e q s b) as [[[[m2 q2] s2] b2]|] eqn:E; [|discriminate].
    assert (Hes : In e s).
    { destruct Hbfs as [Hs _]. rewrite Hs. apply -> in_rev. apply in_or_app. right. left. reflexivity. }
    assert (He : In (rid e) (map rid s)) by (apply in_map; exact Hes).
    assert (Oe : owned m e) by (rewrite Forall_forall in Os; apply Os; exact Hes).
    pose proof (DerivProofs.cls_wf_owned DerivProofs.merge_ok_holds m e (proj1 Dm) Oe) as Hp.
    pose proof (ExploreProofs.compile_step_push m e q s b Hp) as P. rewrite E in P.
    cbn [option_map ExploreProofs.drop_builder] in P.
    pose proof (ExploreProofs.compile_step_struct _ _ _ _ _ _ _ _ _ E He Hb) as [_ Hb2].
    pose proof (ExploreProofs.push_all_bfs_inv _ _ _ _ _ _ _ _ _ Hbfs (eq_sym P)) as Hbfs2.
    destruct (CompileProofs.c2_step _ _ _ _ _ _ _ _ _ E Dm Oe Os) as (D2 & X2 & _ & O2 & _).
    destruct (IH _ _ _ _ _ _ _ _ _ H D2 O2 Hbfs2 Hb2) as [D' X'].
    split; [exact D' | eapply ext_trans; eauto].
Qed.

(* compile / try_compile / compile_with_bound, whatever is answered (an automaton or None) *)
Theorem compile_with_bound_dwf fuel m e bound m' r :
  dwf m -> owned m e -> compile_with_bound fuel m e bound = Some (m', r) -> dwf m' /\ ext m m'.
Proof.
  intros Dm Oe H.
  assert (G : forall mx ob, compile_go fuel m [e] [e] (b_new (rid e)) 0%nat mx = Some (m', ob) ->
                            dwf m' /\ ext m m').
  { intros mx ob Hgo.
    exact (compile_go_dwf fuel m [e] [e] (b_new (rid e)) 0%nat mx [] m' ob Hgo Dm
             (Forall_cons e Oe (Forall_nil _)) (ExploreProofs.bfs_inv_init e) (ExploreProofs.binv_new e)). }
  unfold compile_with_bound in H. destruct bound as [[|n]|].
  - inversion H; subst m' r. split; [exact Dm | apply ext_refl].
  - destruct (compile_go fuel m [e] [e] (b_new (rid e)) 0%nat (S n)) as [[m1 [b|]]|] eqn:E; try discriminate.
    + destruct (build_unchecked b) as [a|]; [|discriminate]. inversion H; subst m1 r. exact (G _ _ E).
    + inversion H; subst m1 r. exact (G _ _ E).
  - destruct (compile_go fuel m [e] [e] (b_new (rid e)) 0%nat (S fuel)) as [[m1 [b|]]|] eqn:E; try discriminate.
    + destruct (build_unchecked b) as [a|]; [|discriminate]. inversion H; subst m1 r. exact (G _ _ E).
    + inversion H; subst m1 r. exact (G _ _ E).
Qed.

(* ------------------------------------------------------------------------------------------ *)
(** * Statements *)

(* what is required of a statement issued on state m of the manager: the API accepts the program;
   the term argument of any other call is a term of this manager *)
Definition stmt_pre (s : stmt) (m : mgr) : Prop :=
  match s with
  | SBuild p => prog_ok p = true
  | SCharDeriv e _ => owned m e
  | SClassDeriv e _ => owned m e
  | SIter _ e => owned m e
  | SIsEmpty _ e => owned m e
  | SGetString _ e => owned m e
  | SCompile _ e _ => owned m e
  end.

Lemma stmt_pre_ext s m m' : ext m m' -> stmt_pre s m -> stmt_pre s m'.
Proof. intros X. destruct s; cbn [stmt_pre]; auto; apply (ext_owned m m' _ X). Qed.

Theorem exec_stmt_dwf s m m1 :
  dwf m -> stmt_pre s m -> exec_stmt s m = Some m1 -> dwf m1 /\ ext m m1.
Proof.
  intros Dm Hs H. destruct s as [p|e c|e cid|f e|f e|f e|f e mx]; cbn [exec_stmt stmt_pre] in H, Hs.
  - destruct (run p m) as [[m' r]|] eqn:R; cbn [option_map fst] in H; [|discriminate].
    inversion H; subst m'. destruct (DerivProofs.run_dwf p m m1 r Dm Hs R) as (D1 & X1 & _). auto.
  - destruct (char_derivative m e c) as [[m' r]|] eqn:R; cbn [option_map fst] in H; [|discriminate].
    inversion H; subst m'. exact (char_derivative_dwf m e c m1 r Dm Hs R).
  - destruct (class_derivative m e cid) as [[m' r]|] eqn:R; cbn [option_map fst] in H; [|discriminate].
    inversion H; subst m'. exact (class_derivative_dwf m e cid m1 r Dm Hs R).
  - destruct (iter_derivatives f m e) as [[m' r]|] eqn:R; cbn [option_map fst] in H; [|discriminate].
    inversion H; subst m'. exact (EmptinessProofs.iter_dwf f m e m1 r Dm Hs R).
  - destruct (is_empty_re f m e) as [[m' r]|] eqn:R; cbn [option_map fst] in H; [|discriminate].
    inversion H; subst m'. exact (is_empty_re_dwf f m e m1 r Dm Hs R).
  - destruct (get_string f m e) as [[m' r]|] eqn:R; cbn [option_map fst] in H; [|discriminate].
    inversion H; subst m'. exact (get_string_dwf f m e m1 r Dm Hs R).
  - destruct (compile_with_bound f m e mx) as [[m' r]|] eqn:R; cbn [option_map fst] in H; [|discriminate].
    inversion H; subst m'. exact (compile_with_bound_dwf f m e mx m1 r Dm Hs R).
Qed.

(* the assumption [step_ok] of ReplayProofs.v is a consequence *)
Lemma exec_stmt_step_ok s m m1 :
  dwf m -> stmt_pre s m -> exec_stmt s m = Some m1 -> step_ok s m m1.
Proof.
  intros Dm Hs H. destruct (exec_stmt_dwf s m m1 Dm Hs H) as [[W1 _] X1].
  destruct s; cbn [step_ok stmt_pre] in *; auto.
Qed.

(* ------------------------------------------------------------------------------------------ *)
(** * Histories *)

(* every statement satisfies [stmt_pre] on the state of the manager at the time it is issued
   (as long as the history runs: after a call that does not return there is no later state) *)
Fixpoint history_pre (h : list stmt) (m : mgr) : Prop :=
  match h with
  | [] => True
  | s :: t => stmt_pre s m /\
              match exec_stmt s m with
              | Some m1 => history_pre t m1
              | None => True
              end
  end.

(* sufficient: every term argument is already owned when the history starts *)
Lemma history_pre_static : forall h m,
  dwf m -> Forall (fun s => stmt_pre s m) h -> history_pre h m.
Proof.
  induction h as [|s h IH]; intros m Dm Hh; cbn [history_pre]; [exact I|].
  inversion Hh as [|s' h' Hs Hrest]; subst s' h'. split; [exact Hs|].
  destruct (exec_stmt s m) as [m1|] eqn:E; [|exact I].
  destruct (exec_stmt_dwf s m m1 Dm Hs E) as [D1 X1]. apply IH; [exact D1|].
  revert Hrest. apply Forall_impl. intros a. apply stmt_pre_ext. exact X1.
Qed.

(* the premise of ReplayProofs.same_term_any_exec_history holds *)
Theorem history_pre_ok : forall h m, dwf m -> history_pre h m -> history_ok h m.
Proof.
  induction h as [|s h IH]; intros m Dm Hp; cbn [history_pre history_ok] in *; [exact I|].
  destruct Hp as [Hs Hrest]. destruct (exec_stmt s m) as [m1|] eqn:E; [|exact I].
  split; [exact (exec_stmt_step_ok s m m1 Dm Hs E)|].
  apply IH; [exact (proj1 (exec_stmt_dwf s m m1 Dm Hs E)) | exact Hrest].
Qed.

Theorem exec_history_dwf : forall h m m',
  dwf m -> history_pre h m -> exec_history h m = Some m' -> dwf m' /\ ext m m' /\ history m m'.
Proof.
  induction h as [|s h IH]; intros m m' Dm Hp H; cbn [history_pre exec_history] in *.
  - inversion H; subst m'. split; [exact Dm|]. split; [apply ext_refl | apply h_done].
  - destruct Hp as [Hs Hrest]. destruct (exec_stmt s m) as [m1|] eqn:E; cbn [bind] in H; [|discriminate].
    destruct (exec_stmt_dwf s m m1 Dm Hs E) as [D1 X1].
    destruct (IH m1 m' D1 Hrest H) as (D' & X' & Hh).
    split; [exact D'|]. split; [eapply ext_trans; eauto|].
    eapply h_other; [exact (proj1 D1) | exact X1 | exact Hh].
Qed.

(* C07 for executable histories, no premise on the derivative layer *)
Theorem same_term_any_exec_history_full : forall p m m1 t h m',
  dwf m -> prog_ok p = true -> run p m = Some (m1, t) ->
  history_pre h m1 -> exec_history h m1 = Some m' ->
  run p m' = Some (m', t).
Proof.
  intros p m m1 t h m' Dm Hok R Hp E.
  destruct (DerivProofs.run_dwf p m m1 t Dm Hok R) as (D1 & _ & _).
  exact (same_term_any_exec_history p m m1 t h m' (proj1 Dm) Hok R (history_pre_ok h m1 D1 Hp) E).
Qed.

(* the re-issued construction also finds a manager satisfying the invariant, so the statement can
   be iterated; the term is owned by every state of the history from m1 on *)
Theorem same_term_any_exec_history_full_inv : forall p m m1 t h m',
  dwf m -> prog_ok p = true -> run p m = Some (m1, t) ->
  history_pre h m1 -> exec_history h m1 = Some m' ->
  run p m' = Some (m', t) /\ dwf m' /\ ext m1 m' /\ owned m' t.
Proof.
  intros p m m1 t h m' Dm Hok R Hp E.
  destruct (DerivProofs.run_dwf p m m1 t Dm Hok R) as (D1 & _ & Ot).
  destruct (exec_history_dwf h m1 m' D1 Hp E) as (D' & X' & _).
  split; [exact (same_term_any_exec_history_full p m m1 t h m' Dm Hok R Hp E)|].
  split; [exact D'|]. split; [exact X' | exact (ext_owned m1 m' t X' Ot)].
Qed.

(* all term arguments owned when the history starts (e.g. t itself and terms built before) *)
Theorem same_term_any_exec_history_static : forall p m m1 t h m',
  dwf m -> prog_ok p = true -> run p m = Some (m1, t) ->
  Forall (fun s => stmt_pre s m1) h -> exec_history h m1 = Some m' ->
  run p m' = Some (m', t).
Proof.
  intros p m m1 t h m' Dm Hok R Hh E.
  destruct (DerivProofs.run_dwf p m m1 t Dm Hok R) as (D1 & _ & _).
  exact (same_term_any_exec_history_full p m m1 t h m' Dm Hok R (history_pre_static h m1 D1 Hh) E).
Qed.

(* ------------------------------------------------------------------------------------------ *)
(** * The thread-local manager: histories starting at [new_mgr] *)

(* h0: everything the thread did before the construction; h: everything it did afterwards *)
Theorem thread_local_exec_history : forall h0 m p m1 t h m',
  history_pre h0 new_mgr -> exec_history h0 new_mgr = Some m ->
  prog_ok p = true -> run p m = Some (m1, t) ->
  history_pre h m1 -> exec_history h m1 = Some m' ->
  run p m' = Some (m', t).
Proof.
  intros h0 m p m1 t h m' Hp0 E0 Hok R Hp E.
  destruct (exec_history_dwf h0 new_mgr m DerivProofs.new_mgr_dwf Hp0 E0) as (Dm & _ & _).
  exact (same_term_any_exec_history_full p m m1 t h m' Dm Hok R Hp E).
Qed.

Theorem thread_local_first_use_exec_history : forall p m1 t h m',
  prog_ok p = true -> run p new_mgr = Some (m1, t) ->
  history_pre h m1 -> exec_history h m1 = Some m' ->
  run p m' = Some (m', t).
Proof.
  intros p m1 t h m' Hok R Hp E.
  exact (same_term_any_exec_history_full p new_mgr m1 t h m' DerivProofs.new_mgr_dwf Hok R Hp E).
Qed.

(* every state the thread-local manager reaches satisfies the invariant of both layers *)
Theorem thread_local_exec_history_dwf : forall h m,
  history_pre h new_mgr -> exec_history h new_mgr = Some m ->
  dwf m /\ ext new_mgr m /\ history new_mgr m.
Proof. intros h m Hp E. exact (exec_history_dwf h new_mgr m DerivProofs.new_mgr_dwf Hp E). Qed.

Print Assumptions compile_with_bound_dwf.
Print Assumptions exec_stmt_dwf.
Print Assumptions history_pre_ok.
Print Assumptions exec_history_dwf.
Print Assumptions same_term_any_exec_history_full.
Print Assumptions same_term_any_exec_history_static.
Print Assumptions thread_local_exec_history.
Print Assumptions thread_local_first_use_exec_history.
