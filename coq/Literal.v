(* Literal.v -- executable model of the string-literal part of smt_strings.rs (no proofs here):
   the constructors From<&str>/From<char>/From<u32>/From<&[u32]>/From<Vec<u32>>, the literal parser
   (ParsingAutomaton, parse_smt_literal) and the printers (Display for SmtString,
   smt_char_as_string, char_to_smt).

   The model mirrors the REPAIRED code:
     D7  From<&str>, From<char> and ParsingAutomaton::push map code points > MAX_CHAR to
         REPLACEMENT_CHAR (the integer constructors always did);
     D4  the three printers print the backslash (0x5c) as the escape \u{5c}.
   The pinned (pre-repair) behaviour is kept in the *_pinned definitions at the end; the
   witnesses D4_prefix_witness / D7_prefix_witness are in Properties/C08.v.

   A Rust [char] / u32 is an N; a text (&str) is the list of its code points (any Rust char:
   0..0x10FFFF without the surrogates); printed text is the list of its ASCII codes.
   [None] = the Rust code panics (array index out of bounds, failed assert!, unwrap of None). *)
Require Import Base.
Open Scope N_scope.

(* ------------------------------------------------------------------ constructors *)

(* if x <= MAX_CHAR { x } else { REPLACEMENT_CHAR } *)
Definition clampc (x : N) : N := if x <=? MAXC then x else REPLC.

(* From<&str> / From<String>: x.chars().map(|c| c as u32).map(clamp).collect()      (D7 repaired) *)
Definition from_str (t : list N) : word := map clampc t.
(* From<char>: SmtString::from(x as u32)                                              (D7 repaired) *)
Definition from_u32 (x : N) : word := [clampc x].
Definition from_char (x : N) : word := from_u32 x.
(* From<&[u32]> (and From<&[u32; N]>) *)
Definition from_slice (a : list N) : word := map clampc a.
(* From<Vec<u32>>: the vector itself when all elements are valid, else the slice conversion *)
Definition from_vec (a : list N) : word :=
  if forallb (fun x => x <=? MAXC) a then a else from_slice a.

(* ------------------------------------------------------------------ the parsing automaton
   (Rust names with the prefix pa_, so that they do not clash with other models when extracted) *)

Inductive lstate := LInit | LAfterSlash | LAfterSlashU | LAfterSlashUHex | LAfterSlashUBrace.

(* struct ParsingAutomaton { state, string_so_far, pending: [u32; 9], pending_idx, escape_code } *)
Record pa := mkpa {
  pa_state : lstate;
  pa_so_far : list N;
  pa_buf : list N;        (* the 9-slot array; slots at and beyond pending_idx hold stale values *)
  pa_idx : nat;
  pa_code : N }.

Definition new_parsing_automaton : pa := mkpa LInit [] (repeat 0 9) 0 0.

(* array store a[i] = x; None = index out of bounds *)
Fixpoint lit_upd (l : list N) (i : nat) (x : N) : option (list N) :=
  match l, i with
  | [], _ => None
  | _ :: r, O => Some (x :: r)
  | y :: r, S k => do r' <- lit_upd r k x; Some (y :: r')
  end.

Definition pa_set_state (p : pa) (s : lstate) : pa :=
  mkpa s (pa_so_far p) (pa_buf p) (pa_idx p) (pa_code p).

(* fn push: add (the clamped, D7) char x to the string so far *)
Definition pa_push (p : pa) (x : N) : pa :=
  mkpa (pa_state p) (pa_so_far p ++ [clampc x]) (pa_buf p) (pa_idx p) (pa_code p).

(* fn pending: assert!(i < 9); self.pending[i] = x; self.pending_idx += 1 *)
Definition pa_pending (p : pa) (x : N) : option pa :=
  if (pa_idx p <? 9)%nat then
    do a <- lit_upd (pa_buf p) (pa_idx p) x;
    Some (mkpa (pa_state p) (pa_so_far p) a (S (pa_idx p)) (pa_code p))
  else None.

(* fn consume: character x in the Init state *)
Definition pa_consume (p : pa) (x : N) : option pa :=
  if x =? 92 then (do q <- pa_pending p x; Some (pa_set_state q LAfterSlash))
  else Some (pa_push p x).

(* fn flush_pending: copy pending[0..pending_idx] to the string, reset.  The slice panics when
   pending_idx exceeds the array length. *)
Definition pa_flush_pending (p : pa) : option pa :=
  if (pa_idx p <=? length (pa_buf p))%nat then
    Some (mkpa LInit (pa_so_far p ++ firstn (pa_idx p) (pa_buf p)) (pa_buf p) 0 0)
  else None.

(* fn close_escape_seq *)
Definition pa_close_escape_seq (p : pa) : pa :=
  mkpa LInit (pa_so_far p ++ [pa_code p]) (pa_buf p) 0 0.

(* char::to_digit(16) / char::is_ascii_hexdigit *)
Definition hexval (x : N) : option N :=
  if (48 <=? x) && (x <=? 57) then Some (x - 48)
  else if (97 <=? x) && (x <=? 102) then Some (x - 87)
  else if (65 <=? x) && (x <=? 70) then Some (x - 55)
  else None.
Definition is_hex (x : N) : bool := match hexval x with Some _ => true | None => false end.

(* fn add_hex: escape_code = escape_code << 4 | hex; pending(x).   (to_digit(16).unwrap()) *)
Definition pa_add_hex (p : pa) (x : N) : option pa :=
  do h <- hexval x;
  pa_pending (mkpa (pa_state p) (pa_so_far p) (pa_buf p) (pa_idx p) (N.lor (N.shiftl (pa_code p) 4) h)) x.

(* fn accept *)
Definition pa_accept (p : pa) (x : N) : option pa :=
  match pa_state p with
  | LInit => pa_consume p x
  | LAfterSlash =>
      if x =? 117 then (do q <- pa_pending p x; Some (pa_set_state q LAfterSlashU))
      else (do q <- pa_flush_pending p; pa_consume q x)
  | LAfterSlashU =>
      if x =? 123 then (do q <- pa_pending p x; Some (pa_set_state q LAfterSlashUBrace))
      else if is_hex x then (do q <- pa_add_hex p x; Some (pa_set_state q LAfterSlashUHex))
      else (do q <- pa_flush_pending p; pa_consume q x)
  | LAfterSlashUBrace =>
      if (x =? 125) && (3 <? pa_idx p)%nat && (pa_code p <=? MAXC) then Some (pa_close_escape_seq p)
      else if is_hex x && (pa_idx p <? 8)%nat then pa_add_hex p x
      else (do q <- pa_flush_pending p; pa_consume q x)
  | LAfterSlashUHex =>
      if is_hex x then
        (do q <- pa_add_hex p x;
         if (pa_idx q =? 6)%nat then Some (pa_close_escape_seq q) else Some q)
      else (do q <- pa_flush_pending p; pa_consume q x)
  end.

(* for x in a.chars() { parser.accept(x) } *)
Fixpoint pa_run (p : pa) (t : list N) : option pa :=
  match t with
  | [] => Some p
  | x :: r => do q <- pa_accept p x; pa_run q r
  end.

(* pub fn parse_smt_literal *)
Definition parse_smt_literal (t : list N) : option word :=
  do p <- pa_run new_parsing_automaton t;
  do q <- pa_flush_pending p;
  Some (pa_so_far q).

(* ------------------------------------------------------------------ printers *)

(* lower-case hexadecimal digit *)
Definition hexdig (d : N) : N := if d <? 10 then 48 + d else 87 + d.

(* hexadecimal digits of a positive number, least significant first, by structural recursion
   on its bits: k = weight (1,2,4,8) of the current bit inside the digit d under construction *)
Fixpoint hexbits (p : positive) (k : N) (d : N) : list N :=
  match p with
  | xH => [d + k]
  | xO q => if k =? 8 then d :: hexbits q 1 0 else hexbits q (2 * k) d
  | xI q => if k =? 8 then (d + k) :: hexbits q 1 0 else hexbits q (2 * k) (d + k)
  end.

(* format!("{:x}", x) *)
Definition fmt_x (x : N) : list N :=
  match x with
  | N0 => [48]
  | Npos p => rev (map hexdig (hexbits p 1 0))
  end.
Definition pad0 (w : nat) (l : list N) : list N := repeat 48 (w - length l) ++ l.
(* format!("{:02x}", x), format!("{:04x}", x) *)
Definition fmt_02x (x : N) : list N := pad0 2 (fmt_x x).
Definition fmt_04x (x : N) : list N := pad0 4 (fmt_x x).

(* pub fn smt_char_as_string                                                      (D4 repaired) *)
Definition smt_char_as_string (x : N) : list N :=
  if x =? 34 then [34; 34]
  else if x =? 92 then [92; 117; 123; 53; 99; 125]
  else if (32 <=? x) && (x <? 127) then [x]
  else if (x <? 32) || (x =? 127) then [92; 117; 123] ++ fmt_02x x ++ [125]
  else if x <? 65536 then [92; 117] ++ fmt_04x x
  else [92; 117; 123] ++ fmt_x x ++ [125].

(* pub fn char_to_smt (same body in the Rust source)                               (D4 repaired) *)
Definition char_to_smt (x : N) : list N :=
  if x =? 34 then [34; 34]
  else if x =? 92 then [92; 117; 123; 53; 99; 125]
  else if (32 <=? x) && (x <? 127) then [x]
  else if (x <? 32) || (x =? 127) then [92; 117; 123] ++ fmt_02x x ++ [125]
  else if x <? 65536 then [92; 117] ++ fmt_04x x
  else [92; 117; 123] ++ fmt_x x ++ [125].

(* body of the loop of Display::fmt (same case distinction, written with write!)   (D4 repaired) *)
Definition fmt_char (x : N) : list N :=
  if x =? 34 then [34; 34]
  else if x =? 92 then [92; 117; 123; 53; 99; 125]
  else if (32 <=? x) && (x <? 127) then [x]
  else if (x <? 32) || (x =? 127) then [92; 117; 123] ++ fmt_02x x ++ [125]
  else if x <? 65536 then [92; 117] ++ fmt_04x x
  else [92; 117; 123] ++ fmt_x x ++ [125].

Fixpoint fmt_loop (s : word) : list N :=
  match s with
  | [] => []
  | x :: r => fmt_char x ++ fmt_loop r
  end.

(* impl fmt::Display for SmtString *)
Definition smt_display (s : word) : list N := [34] ++ fmt_loop s ++ [34].

(* ------------------------------------------------------------------ reading a printed literal *)

(* strip the outer quotes *)
Definition lit_body (t : list N) : list N :=
  match t with
  | [] => []
  | _ :: r => removelast r
  end.

(* undo the doubling of the double quote, left to right *)
Fixpoint lit_undouble (t : list N) : list N :=
  match t with
  | [] => []
  | x :: r =>
      if x =? 34 then
        match r with
        | y :: r' => if y =? 34 then 34 :: lit_undouble r' else x :: lit_undouble r
        | [] => [x]
        end
      else x :: lit_undouble r
  end.

(* ------------------------------------------------------------------ pinned (pre-repair) code *)

(* D7: From<&str>, From<char> and push copied the code point *)
Definition from_str_pinned (t : list N) : word := t.
Definition from_char_pinned (x : N) : word := [x].
Definition pa_push_pinned (p : pa) (x : N) : pa :=
  mkpa (pa_state p) (pa_so_far p ++ [x]) (pa_buf p) (pa_idx p) (pa_code p).
Definition pa_consume_pinned (p : pa) (x : N) : option pa :=
  if x =? 92 then (do q <- pa_pending p x; Some (pa_set_state q LAfterSlash))
  else Some (pa_push_pinned p x).

(* D4: the printers had no case for the backslash *)
Definition fmt_char_pinned (x : N) : list N :=
  if x =? 34 then [34; 34]
  else if (32 <=? x) && (x <? 127) then [x]
  else if (x <? 32) || (x =? 127) then [92; 117; 123] ++ fmt_02x x ++ [125]
  else if x <? 65536 then [92; 117] ++ fmt_04x x
  else [92; 117; 123] ++ fmt_x x ++ [125].
Definition smt_display_pinned (s : word) : list N := [34] ++ flat_map fmt_char_pinned s ++ [34].
