(* Extract.v -- extraction of the executable model for the correspondence check.
   Only ExtrOcamlBasic is used (bool, option, unit, list, prod, sumbool -> OCaml natives);
   N, positive, Z, nat stay Coq inductives.  No Extract Constant of our own. *)
Require Import Base CharSet.
Require Extraction.
Require Import ExtrOcamlBasic.
Extraction "extracted/model.ml"
  MAXC REPLC goodb N.to_nat N.of_nat Z.to_N Z.of_N
  cs_contains cs_covers cs_is_before cs_is_after cs_size cs_is_singleton cs_is_alphabet cs_pick
  cs_inter cs_inter_list cs_union cs_pcmp cs_eqb cs_singleton cs_all cs_validb.
