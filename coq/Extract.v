(* Extract.v -- extraction of the executable model for the correspondence check.
   Only ExtrOcamlBasic is used (bool, option, unit, list, prod, sumbool -> OCaml natives);
   N, positive, Z, nat stay Coq inductives.  No Extract Constant of our own. *)
Require Import Base CharSet Partition LoopRange Regex Inclusion Constructors Deriv Explore Automaton Minimizer Compile Denote StrConv.
Require Extraction.
Require Import ExtrOcamlBasic.
Extraction "extracted/model.ml"
  MAXC REPLC goodb N.to_nat N.of_nat Z.to_N Z.of_N
  cs_contains cs_covers cs_is_before cs_is_after cs_size cs_is_singleton cs_is_alphabet cs_pick
  cs_inter cs_inter_list cs_union cs_pcmp cs_eqb cs_singleton cs_all cs_validb
  (* regex *)
  new_mgr complement concat concat_list mk_loop range mchar char_set mstr smt_range
  inter union diff inter_list union_list diff_list star plus opt exp smt_loop loop_inf included_in
  deriv char_derivative str_derivative str_in_re class_derivative class_derivative_unchecked
  set_derivative set_derivative_unchecked
  iter_derivatives is_empty_re start_char start_class get_string
  naive_re_search str_replace_re str_replace_re_all
  rid rnul rnode rcls re_eqb pclass_ids ppick ppicks pempty_complement pvalid pclass_of_char pclass_of_set
  lr_star lr_plus lr_opt lr_point
  (* automata *)
  compile_with_bound remove_unreachable pick_alphabet combined_partition compile_successors ct_eval minimize
  b_new b_mark_final b_set_default b_add_transition build build_unchecked a_next a_state a_accepts a_str_next edges
  (* denotation / oracle *)
  (* loop ranges *)
  lr_validb lr_finite lr_infinite lr_opt lr_star lr_plus lr_point lr_is_finite lr_is_infinite
  lr_is_point lr_is_zero lr_is_one lr_is_all lr_start lr_eqb lr_contains lr_includes lr_add
  lr_add_point lr_scale lr_mul lr_rmie lr_shift
  (* strings *)
  str_lt str_le str_is_digit str_to_code str_from_code str_to_int str_from_int
  mref p_smtrange p_concat_list p_union_list p_inter_list p_diff_list p_sderiv goodwb.
