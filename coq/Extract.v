(* Extract.v -- extraction of the executable model for the correspondence check.
   Only ExtrOcamlBasic is used (bool, option, unit, list, prod, sumbool -> OCaml natives);
   N, positive, Z, nat stay Coq inductives.  No Extract Constant of our own. *)
Require Import Base CharSet Partition LoopRange Regex Inclusion Constructors Deriv Explore Automaton Minimizer Compile Denote StrConv StrSearch Literal BuilderSpec PartitionSpec SubTerms StrMisc Display.
Require Extraction.
Require Import ExtrOcamlBasic.
Extraction "extracted/model.ml"
  MAXC REPLC goodb N.to_nat N.of_nat Z.to_N Z.of_N
  cs_contains cs_covers cs_is_before cs_is_after cs_size cs_is_singleton cs_is_alphabet cs_pick
  cs_inter cs_inter_list cs_union cs_pcmp cs_eqb cs_singleton cs_all cs_validb
  (* regex *)
  new_mgr complement concat concat_list mk_loop range mchar char_set mstr smt_range
  inter union diff inter_list union_list diff_list star plus opt exp smt_loop loop_inf included_in
  deriv char_derivative str_derivative str_in_re class_derivative class_derivative_unchecked
  set_derivative set_derivative_unchecked
  iter_derivatives is_empty_re start_char start_class get_string
  naive_re_search str_replace_re str_replace_re_all
  rid rnul rnode rcls re_eqb pclass_ids ppick ppicks pempty_complement pvalid pclass_of_char pclass_of_set
  lr_star lr_plus lr_opt lr_point
  (* automata *)
  compile_with_bound remove_unreachable pick_alphabet combined_partition compile_successors ct_eval minimize
  b_new b_mark_final b_set_default b_add_transition build build_unchecked a_next a_state a_accepts a_str_next edges
  a_state_at a_initial_state a_states a_num_states a_num_final_states a_final_states a_default_successor
  a_class_next a_char_set_next s_num_successors s_has_default_successor s_default_successor s_valid_class_id
  s_char_maps_to_default s_char_classes s_class_of_char s_char_picks s_char_ranges
  (* sub-term iterators, RE accessors (C07c) *)
  sub_terms leaves re_is_atomic re_is_empty re_num_deriv_classes re_valid_class_id
  (* SmtString accessors (C17) *)
  from_array good_char good_string smt_is_good smt_len smt_is_empty smt_char smt_iter
  smt_is_unicode smt_to_unicode_string
  (* Display implementations (informational engine) *)
  lr_display cs_display classid_display cover_display part_display state_display automaton_display
  (* builder spec + automata oracles *)
  run_history h_names h_labels h_default h_final spec_delta spec_sound spec_strict name_id
  aut_wfb a_step dfa_equiv dfa_equiv_from nerode_classes collapsed nerode_index reachable least_uncovered pwfb
  (* denotation / oracle *)
  (* partitions *)
  pnew pfrom_set ppush ptry_from_list plen pget pstart pend pinterval ppick_iv ppick_complement
  pnum_classes pinterval_cover pgood_char_set classid_eqb pmerge_opt pmerge_list
  (* loop ranges *)
  lr_validb lr_finite lr_infinite lr_opt lr_star lr_plus lr_point lr_is_finite lr_is_infinite
  lr_is_point lr_is_zero lr_is_one lr_is_all lr_start lr_eqb lr_contains lr_includes lr_add
  lr_add_point lr_scale lr_mul lr_rmie lr_shift
  (* literal (C08) *)
  clampc from_str from_char from_u32 from_slice from_vec parse_smt_literal smt_display
  char_to_smt smt_char_as_string lit_undouble lit_body
  (* strsearch (C06) *)
  naive_search find_sub_vector vector_prefix vector_suffix vector_concat smt_make
  str_concat str_len str_at str_substr str_prefixof str_suffixof str_contains str_indexof
  str_indexof_prefix str_replace str_replace_all
  (* strings *)
  str_lt str_le str_is_digit str_to_code str_from_code str_to_int str_from_int
  mref p_smtrange p_concat_list p_union_list p_inter_list p_diff_list p_sderiv goodwb.
