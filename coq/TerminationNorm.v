(* TerminationNorm.v -- the invariant [nn c0] (Termination.v): every node created by the constructors
   that the derivative function calls is a concatenation, a loop, a complement, or a union /
   intersection whose operand list is strictly sorted by id (hence duplicate free). *)
Require Import Base CharSet Partition PartitionSpec LoopRange Regex Inclusion Constructors Deriv Denote Sem.
Require Import Lang LoopRangeProofs ManagerProofs ConstructorProofs Termination.
Open Scope N_scope.

(* ------------------------------------------------------------------------------------------ *)
(** * Lists sorted by id *)

Fixpoint sle (l : list re) : Prop :=
  match l with [] => True | x :: t => (forall y, In y t -> rid x <= rid y) /\ sle t end.
Fixpoint sinc (l : list re) : Prop :=
  match l with [] => True | x :: t => (forall y, In y t -> rid x < rid y) /\ sinc t end.

Lemma insert_sle x l : sle l -> sle (insert_by_id x l).
Proof.
  induction l as [|y t IH]; intros H; cbn [insert_by_id].
  - cbn. split; [intros z []|exact I].
  - destruct (rid x <=? rid y) eqn:E.
    + apply N.leb_le in E. cbn [sle]. split; [|exact H]. destruct H as [H1 H2].
      intros z [<-|Hz]; [exact E|]. specialize (H1 z Hz). lia.
    + apply N.leb_gt in E. destruct H as [H1 H2]. cbn [sle]. split; [|apply IH; exact H2].
      intros z Hz. apply insert_by_id_in in Hz as [->|Hz]; [lia | apply H1; exact Hz].
Qed.
Lemma sort_sle l : sle (sort_by_id l).
Proof.
  induction l as [|a t IH]; cbn [sort_by_id fold_right]; [exact I|]. fold (sort_by_id t). apply insert_sle, IH.
Qed.
Lemma dedup_sinc : forall l, sle l -> sinc (dedup l).
Proof.
  induction l as [|a l IH]; intros H; [exact I|].
  destruct l as [|b t]; [cbn; split; [intros y []|exact I]|]. rewrite dedup_cons2.
  destruct H as [H1 H2]. destruct (re_eqb a b) eqn:Q; [apply IH; exact H2|].
  cbn [sinc]. split; [|apply IH; exact H2].
  intros y Hy. apply dedup_in_sub in Hy. unfold re_eqb in Q. apply N.eqb_neq in Q.
  assert (rid a <= rid b) by (apply H1; left; reflexivity).
  destruct Hy as [<-|Hy]; [lia|]. destruct H2 as [H3 _]. specialize (H3 y Hy). lia.
Qed.
Lemma sinc_filter f : forall l, sinc l -> sinc (filter f l).
Proof.
  induction l as [|a t IH]; intros H; [exact I|]. destruct H as [H1 H2]. cbn [filter].
  destruct (f a); [|apply IH; exact H2]. cbn [sinc]. split; [|apply IH; exact H2].
  intros y Hy. apply filter_In in Hy as [Hy _]. apply H1. exact Hy.
Qed.
Lemma sinc_nodup : forall l, sinc l -> NoDup (map rid l).
Proof.
  induction l as [|a t IH]; intros H; cbn [map]; [constructor|]. destruct H as [H1 H2].
  constructor; [|apply IH; exact H2]. intros Hin. apply in_map_iff in Hin as (y & E & Hy).
  specialize (H1 y Hy). lia.
Qed.
Lemma sinc_remove_mid : forall k c t, sinc (k ++ c :: t) -> sinc (k ++ t).
Proof.
  induction k as [|a k IH]; intros c t H; cbn [app] in *.
  - destruct H as [_ H]. exact H.
  - destruct H as [H1 H2]. cbn [sinc]. split; [|eapply IH; exact H2].
    intros y Hy. apply H1. apply in_app_or in Hy as [Hy|Hy]; apply in_or_app; [left|right; right]; exact Hy.
Qed.
Lemma remove_subsumed_sinc : forall rest kept, sinc (kept ++ rest) -> sinc (remove_subsumed_go kept rest).
Proof.
  induction rest as [|cur t IH]; intros kept H; cbn [remove_subsumed_go].
  - rewrite app_nil_r in H. exact H.
  - destruct (is_subsumed cur (kept ++ cur :: t)).
    + apply IH. eapply sinc_remove_mid; exact H.
    + apply IH. rewrite <- app_assoc. exact H.
Qed.

Lemma simplify_sinc v bottom top : sinc (simplify_set_operation v bottom top).
Proof.
  unfold simplify_set_operation. destruct v as [|a0 v0]; [exact I|].
  pose proof (dedup_sinc _ (sort_sle (a0 :: v0))) as S.
  destruct (contains (dedup (sort_by_id (a0 :: v0))) top); [cbn; split; [intros y []|exact I]|].
  destruct (dedup (sort_by_id (a0 :: v0))) as [|b0 t1]; [exact I|].
  destruct (simplify_go_spec t1 b0 (if re_eqb b0 bottom then [] else [b0]) bottom top) as [[E _] | E]; rewrite E.
  - cbn; split; [intros y []|exact I].
  - destruct S as [S1 S2]. destruct (re_eqb b0 bottom); cbn [app].
    + apply sinc_filter; exact S2.
    + cbn [sinc]. split; [|apply sinc_filter; exact S2].
      intros y Hy. apply filter_In in Hy as [Hy _]. apply S1; exact Hy.
Qed.

(* ------------------------------------------------------------------------------------------ *)
(** * Preservation of [nn] *)

Lemma make_nn c0 m k m' t :
  wf m -> nn c0 m -> not_compl k -> nshape k -> make m k = Some (m', t) -> nn c0 m'.
Proof.
  intros W Z Hk Hn H. destruct (lookup (key_of k) (tbl m)) as [r|] eqn:Hl.
  - rewrite (make_existing m k r W Hk Hl) in H. inversion H; subst; auto.
  - rewrite (make_new m k W Hk Hl) in H. inversion H; subst. intros e He Hc.
    apply (grow_at m k _ e W) in He as [He | [[_ ->] | [_ ->]]]; cbn; auto.
Qed.

Lemma mk_loop_nn c0 m e rg m' t :
  wf m -> nn c0 m -> mk_loop m e rg = Some (m', t) -> nn c0 m'.
Proof.
  intros W Z H. unfold mk_loop in H.
  destruct (lr_is_zero rg) eqn:Zr; [inversion H; subst; auto|].
  destruct (lr_is_one rg); [inversion H; subst; auto|].
  destruct (rnode e) as [| |s|a b|x xr|a|l|l] eqn:K;
    try (apply (make_nn c0 m (NLoop e rg) m' t W Z I I H));
    try (inversion H; subst; exact Z).
  destruct (lr_rmie xr rg) as [[|]|]; try (apply (make_nn c0 m (NLoop e rg) m' t W Z I I H)).
  destruct (lr_mul xr rg) as [r|] eqn:M; try (apply (make_nn c0 m (NLoop e rg) m' t W Z I I H)).
  apply (make_nn c0 m (NLoop x r) m' t W Z I I H).
Qed.

Lemma concat_nn c0 : forall e1 m e2 m' t,
  wf m -> nn c0 m -> owned m e1 -> owned m e2 -> concat e1 m e2 = Some (m', t) -> nn c0 m'.
Proof.
  induction e1 as [e1 IH] using re_induction. intros m e2 m' t W Z O1 O2 H.
  rewrite concat_unfold in H.
  destruct (is_empty_node e1); [inversion H; subst; auto|].
  destruct (is_empty_node e2); [inversion H; subst; auto|].
  destruct (is_eps_node e1); [inversion H; subst; auto|].
  destruct (is_eps_node e2); [inversion H; subst; auto|].
  unfold concat_rules in H.
  destruct (rule5g e1 e2) as [r|] eqn:G5.
  { apply (make_nn c0 m (NLoop e1 r) m' t W Z I I H). }
  destruct (rule5g e2 e1) as [r|] eqn:G6.
  { apply (make_nn c0 m (NLoop e2 r) m' t W Z I I H). }
  destruct (rule7g e1 e2) as [[x r]|] eqn:G7.
  { apply (make_nn c0 m (NLoop x r) m' t W Z I I H). }
  destruct (re_eqb e1 e2).
  { apply (make_nn c0 m (NLoop e1 (lr_point 2)) m' t W Z I I H). }
  destruct (rnode e1) as [| |s|x y|x xr|x|l|l] eqn:K.
  4: { destruct (wf_child m W e1 x O1) as [Ox _]; [rewrite K; cbn; auto|].
    destruct (wf_child m W e1 y O1) as [Oy _]; [rewrite K; cbn; auto|].
    destruct (concat y m e2) as [[m1 rt]|] eqn:C1; cbn [bind] in H; [|discriminate].
    destruct (concat_ok y m e2 m1 rt W Oy O2 C1) as (W1 & X1 & Ort & _).
    pose proof (IH y (or_intror (or_introl eq_refl)) m e2 m1 rt W Z Oy O2 C1) as Z1.
    apply (IH x (or_introl eq_refl) m1 rt m' t W1 Z1 (ext_owned m m1 x X1 Ox) Ort H). }
  all: destruct (rnul e1 && re_eqb e2 (m_full m));
    [ inversion H; subst; exact Z | apply (make_nn c0 m (NConcat e1 e2) m' t W Z I I H) ].
Qed.

Lemma make_inter_nn c0 m v m' t : wf m -> nn c0 m -> make_inter m v = Some (m', t) -> nn c0 m'.
Proof.
  intros W Z H. unfold make_inter in H.
  destruct (contains _ (m_eps m)); [inversion H; subst; exact Z|].
  pose proof (simplify_sinc v (m_full m) (m_empty m)) as S.
  destruct (simplify_set_operation v (m_full m) (m_empty m)) as [|x [|y r]].
  - inversion H; subst; exact Z.
  - inversion H; subst; exact Z.
  - apply (make_nn c0 m (NInter (x :: y :: r)) m' t W Z I); [|exact H]. apply sinc_nodup. exact S.
Qed.
Lemma make_union_nn c0 m v m' t : wf m -> nn c0 m -> make_union m v = Some (m', t) -> nn c0 m'.
Proof.
  intros W Z H. unfold make_union in H.
  pose proof (simplify_sinc v (m_empty m) (m_full m)) as S.
  set (v1 := simplify_set_operation v (m_empty m) (m_full m)) in *.
  assert (S2 : sinc (match v1 with _ :: _ :: _ => remove_subsumed_go [] v1 | _ => v1 end)).
  { destruct v1 as [|a [|b r]]; auto. apply remove_subsumed_sinc. exact S. }
  match type of H with (match ?V with _ => _ end) = _ => destruct V as [|x [|y r]] end.
  - inversion H; subst; exact Z.
  - inversion H; subst; exact Z.
  - apply (make_nn c0 m (NUnion (x :: y :: r)) m' t W Z I); [|exact H]. apply sinc_nodup. exact S2.
Qed.
Lemma inter_list_nn c0 m l m' t : wf m -> nn c0 m -> inter_list m l = Some (m', t) -> nn c0 m'.
Proof. intros W Z H. eapply make_inter_nn; eauto. Qed.
Lemma union_list_nn c0 m l m' t : wf m -> nn c0 m -> union_list m l = Some (m', t) -> nn c0 m'.
Proof. intros W Z H. eapply make_union_nn; eauto. Qed.
Lemma union_nn c0 m a b m' t : wf m -> nn c0 m -> union m a b = Some (m', t) -> nn c0 m'.
Proof. intros W Z H. eapply make_union_nn; eauto. Qed.
Lemma nn_set_cache c0 m c : nn c0 m -> nn c0 (set_cache m c).
Proof. intros Z e He. apply Z. exact He. Qed.

(* at the start of an exploration every term is old *)
Lemma nn_start m : wf m -> nn (counter m) m.
Proof. intros W e He Hc. pose proof (owned_lt m e W He). lia. Qed.
