(* StrSearch.v -- executable model of the SMT-LIB string search / substring / replace functions of
   smt_strings.rs (vector_prefix, vector_suffix, vector_concat, find_sub_vector, str_concat, str_len,
   str_at, str_substr, str_prefixof, str_suffixof, str_contains, str_indexof, str_replace,
   str_replace_all) and of matcher.rs :: naive_search.  No proofs here (StrSearchProofs.v).

   Conventions (Base.v): an SmtString is its vector of u32, a [word]; i32 values are [Z]; usize values
   (indices, lengths) are [nat]; [None] = the Rust code panics (index/slice out of bounds, or the
   documented panic of [SmtString::make] for a result longer than MAX_LENGTH).

   Loops.  The Rust loops index into the vectors ([pattern[j] == string[i + j]]).  The model walks the
   *remaining suffix* [string[i ..]] instead of re-indexing, so every loop is a structural recursion:
   the outer position loop of naive_search on [string[i ..]], the inner comparison loop on
   [pattern[j ..]] against [string[i + j ..]].  Reading past the end of a suffix is the model of an
   out-of-bounds index ([None]).  The only loop that needs fuel is the one of str_replace_all
   (fuel [S (length s)]; every iteration advances by [length p >= 1]).

   The model mirrors the code *after* the repair of D3 (str_indexof: guard [i > len], was [i >= len]);
   the pinned behaviour is kept as [str_indexof_prefix] (used only by the witness D3_prefix_witness).

   Assumptions written out: usize is 64 bits wide ([usize_of_i32] sign-extends modulo 2^64; it is only
   ever applied to an i32 that the guards have checked to be >= 0, where the width does not matter);
   usize additions do not overflow ([i + n] < 2^32 for two non-negative i32; [i + p_len] <= 2^32 as
   both are bounded by MAX_LENGTH), so they are unbounded additions here.  Every SmtString has length <= MAX_LENGTH = i32::MAX (it can only be
   built through SmtString::make), so [s.len() as i32] does not wrap; the cast is modelled as the
   truncation it is, and the theorems carry the hypothesis [wfw]. *)
Require Import Base.

(* smt_strings::MAX_LENGTH = i32::MAX *)
Definition MAX_LENGTH : Z := 2147483647.

(* [n as i32] for a usize n: truncation to 32 bits, two's complement *)
Definition i32_of_usize (n : nat) : Z :=
  let m := (Z.of_nat n mod 4294967296)%Z in
  if (m <? 2147483648)%Z then m else (m - 4294967296)%Z.

(* [i as usize] for an i32 i: sign extension to 64 bits.  Only applied where i >= 0 was checked.
   A usize that is not (yet) known to be bounded by a vector length stays a [Z] (a unary [nat] of
   size i32::MAX cannot be computed with); [usize_idx] turns it into an index once it is bounded. *)
Definition usize_of_i32 (i : Z) : Z := (i mod 18446744073709551616)%Z.
Definition usize_idx (u : Z) : nat := Z.to_nat u.

(* SmtString::make: panics if the vector is longer than MAX_LENGTH *)
Definition smt_make (a : word) : option word :=
  if (Z.of_nat (length a) >? MAX_LENGTH)%Z then None else Some a.

(* impl From<u32> for SmtString *)
Definition smt_from_u32 (x : N) : option word :=
  let x := if (x <=? MAXC)%N then x else REPLC in
  smt_make [x].

(* matcher::SearchResult *)
Inductive sresult := SFound (i j : nat) | SNotFound.

(* [&s[i..j]] / [s.get(i..j).unwrap()]: panics unless i <= j <= s.len() *)
Definition vec_slice (s : word) (i j : nat) : option word :=
  if (i <=? j) && (j <=? length s) then Some (firstn (j - i) (skipn i s)) else None.

(* The comparison loop shared by naive_search, vector_prefix and vector_suffix:
     let mut j = 0; while j < p_len && pattern[j] == t[j] { j += 1 }   ...   j == p_len
   [p] is pattern[j ..], [t] is the compared vector from the same offset; the result is the final
   test [j == p_len].  [t] exhausted before [p] = index out of bounds. *)
Fixpoint vec_cmp_loop (p t : word) : option bool :=
  match p with
  | [] => Some true
  | a :: p' =>
    match t with
    | [] => None
    | c :: t' => if (a =? c)%N then vec_cmp_loop p' t' else Some false
    end
  end.

(* outer loop of naive_search:  while i + p_len <= s_len { inner loop; if j == p_len { return
   Found(i, i + p_len) }; i += 1 }  NotFound.     [t] = string[i ..] *)
Fixpoint search_loop (p : word) (s_len : nat) (t : word) (i : nat) {struct t} : option sresult :=
  if i + length p <=? s_len then
    match vec_cmp_loop p t with
    | None => None
    | Some true => Some (SFound i (i + length p))
    | Some false =>
      match t with
      | [] => None
      | _ :: t' => search_loop p s_len t' (S i)
      end
    end
  else Some SNotFound.

(* matcher::naive_search(pattern, string, k) *)
Definition naive_search (pattern string : word) (k : nat) : option sresult :=
  search_loop pattern (length string) (skipn k string) k.

(* find the first occurrence of v in w, starting at index i *)
Definition find_sub_vector (v w : word) (i : nat) : option sresult := naive_search v w i.

Definition vector_prefix (v w : word) : option bool :=
  let n := length v in
  if n <=? length w then vec_cmp_loop v w else Some false.

Definition vector_suffix (v w : word) : option bool :=
  let n := length v in
  let m := length w in
  if n <=? m then
    let k := m - n in
    vec_cmp_loop v (skipn k w)          (* v[i] == w[i + k] *)
  else Some false.

Definition vector_concat (v w : word) : word := ([] ++ v) ++ w.

(* ---- SMT-like functions ---- *)

Definition str_concat (s1 s2 : word) : option word := smt_make (vector_concat s1 s2).

Definition str_len (s : word) : Z := i32_of_usize (length s).

Definition str_at (s : word) (i : Z) : option word :=
  if (i <? 0)%Z || (i >=? i32_of_usize (length s))%Z then Some []
  else do c <- nth_error s (usize_idx (usize_of_i32 i)); smt_from_u32 c.

Definition str_substr (s : word) (i n : Z) : option word :=
  if (i <? 0)%Z || (i >=? i32_of_usize (length s))%Z || (n <=? 0)%Z then Some []
  else
    let i := usize_of_i32 i in
    let n := usize_of_i32 n in
    let j := Z.min (i + n) (Z.of_nat (length s)) in       (* cmp::min(i + n, s.s.len()) *)
    do sl <- vec_slice s (usize_idx i) (usize_idx j); smt_make sl.

Definition str_prefixof (s1 s2 : word) : option bool := vector_prefix s1 s2.
Definition str_suffixof (s1 s2 : word) : option bool := vector_suffix s1 s2.

(* s2 is a substring of s1 *)
Definition str_contains (s1 s2 : word) : option bool :=
  do r <- find_sub_vector s2 s1 0;
  Some (match r with SNotFound => false | SFound _ _ => true end).

(* repaired guard (D3): i > len *)
Definition str_indexof (s1 s2 : word) (i : Z) : option Z :=
  if (i <? 0)%Z || (i >? i32_of_usize (length s1))%Z then Some (-1)%Z
  else
    do r <- find_sub_vector s2 s1 (usize_idx (usize_of_i32 i));
    Some (match r with SNotFound => (-1)%Z | SFound k _ => i32_of_usize k end).

(* the pinned, pre-repair code: guard i >= len (defect D3) *)
Definition str_indexof_prefix (s1 s2 : word) (i : Z) : option Z :=
  if (i <? 0)%Z || (i >=? i32_of_usize (length s1))%Z then Some (-1)%Z
  else
    do r <- find_sub_vector s2 s1 (usize_idx (usize_of_i32 i));
    Some (match r with SNotFound => (-1)%Z | SFound k _ => i32_of_usize k end).

Definition str_replace (s p r : word) : option word :=
  do res <- find_sub_vector p s 0;
  match res with
  | SNotFound => smt_make s
  | SFound i j =>
    do a <- vec_slice s 0 i;                 (* &s[..i] *)
    do b <- vec_slice s j (length s);        (* &s[j..] *)
    smt_make (([] ++ a) ++ r ++ b)
  end.

(* while let Found(j, k) = find_sub_vector(p, s, i) { x += s[i..j]; x += r; i = k }  x += s[i..] *)
Fixpoint replace_all_loop (fuel : nat) (p s r x : word) (i : nat) : option word :=
  match fuel with
  | O => None
  | S fuel' =>
    do res <- find_sub_vector p s i;
    match res with
    | SFound j k =>
      do sl <- vec_slice s i j;
      replace_all_loop fuel' p s r (x ++ sl ++ r) k
    | SNotFound =>
      do sl <- vec_slice s i (length s);
      smt_make (x ++ sl)
    end
  end.

Definition str_replace_all (s p r : word) : option word :=
  match p with
  | [] => smt_make s
  | _ :: _ => replace_all_loop (S (length s)) p s r [] 0
  end.
