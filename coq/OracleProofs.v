(* OracleProofs.v -- the executable reference matcher [mref] of Denote.v decides the SMT-LIB
   denotation [denote]:
       mref_correct : forall p w, mref p w = true <-> denote p w          (unconditional)
   plus the specifications of its helpers (splits, word_eqb, ne_decomp, loop_ref) and the
   denotations of the program builders p_concat_list / p_union_list / p_inter_list / p_diff_list /
   p_sderiv / p_smtrange. *)
Require Import Base Denote Lang.
Local Open Scope nat_scope.   (* Denote.v opens N_scope *)

(* ---------- helpers of the matcher ---------- *)
Lemma splits_spec w u v : In (u, v) (splits w) <-> w = u ++ v.
Proof.
  revert u v; induction w as [|c t IH]; intros u v; simpl.
  - split.
    + intros [H | []]; inversion H; subst; reflexivity.
    + intros H; symmetry in H; apply app_eq_nil in H; destruct H; subst; left; reflexivity.
  - split.
    + intros [H | H].
      * inversion H; subst; reflexivity.
      * apply in_map_iff in H; destruct H as ([u' v'] & Heq & Hin).
        simpl in Heq; inversion Heq; subst.
        apply IH in Hin; subst; reflexivity.
    + intros H; destruct u as [|d u]; simpl in H.
      * left; subst; reflexivity.
      * right; inversion H; subst.
        apply in_map_iff; exists (u, v); split; [reflexivity | apply IH; reflexivity].
Qed.

Lemma splits_nonempty w : splits w <> [].
Proof. destruct w; discriminate. Qed.

Lemma splits_length w : length (splits w) = S (length w).
Proof.
  induction w as [|c t IH]; [reflexivity|].
  cbn [splits length]; rewrite map_length; f_equal; exact IH.
Qed.

Lemma word_eqb_eq u v : word_eqb u v = true <-> u = v.
Proof.
  revert v; induction u as [|a s IH]; intros [|b t]; simpl.
  - split; reflexivity.
  - split; discriminate.
  - split; discriminate.
  - rewrite andb_true_iff, N.eqb_eq, IH; split.
    + intros [Ha Hs]; subst; reflexivity.
    + intros H; inversion H; subst; auto.
Qed.

Lemma word_eqb_refl u : word_eqb u u = true.
Proof. apply word_eqb_eq; reflexivity. Qed.

(* ne_decomp f k w : w is a concatenation of exactly k non-empty words accepted by f *)
Lemma ne_decomp_spec (f : word -> bool) (A : lang) :
  (forall w, f w = true <-> A w) ->
  forall k w, ne_decomp f k w = true <-> l_pow (l_ne A) k w.
Proof.
  intros Hf; induction k as [|k IH]; intros w.
  - destruct w; simpl; split; intros H; try reflexivity; discriminate.
  - cbn [ne_decomp]. rewrite existsb_exists; split.
    + intros ([u v] & Hin & Hb); simpl in Hb.
      apply splits_spec in Hin.
      destruct u as [|c u]; [discriminate|].
      apply andb_true_iff in Hb; destruct Hb as [Hu Hv].
      exists (c :: u), v; split; [exact Hin | split].
      * apply l_ne_intro, Hf; exact Hu.
      * apply IH; exact Hv.
    + intros (u & v & Hw & [Hu Hne] & Hv).
      exists (u, v); split; [apply splits_spec; exact Hw|]. simpl.
      destruct u as [|c u]; [contradiction Hne; reflexivity|].
      apply andb_true_iff; split; [apply Hf; exact Hu | apply IH; exact Hv].
Qed.

(* the version with no side condition: the language is the one decided by f *)
Lemma ne_decomp_spec_self (f : word -> bool) k w :
  ne_decomp f k w = true <-> l_pow (l_ne (fun u => f u = true)) k w.
Proof. apply ne_decomp_spec; intros u; reflexivity. Qed.

Lemma loop_ref_spec (f : word -> bool) (A : lang) :
  (forall w, f w = true <-> A w) ->
  forall lo hi w,
    loop_ref f lo hi w = true <-> exists n, in_bounds n lo hi /\ l_pow A n w.
Proof.
  intros Hf lo hi w. unfold loop_ref. rewrite existsb_exists. split.
  - intros (k & Hin & Hb).
    apply andb_true_iff in Hb; destruct Hb as [Hd Hc].
    apply (ne_decomp_spec f A Hf) in Hd.
    destruct (f []) eqn:E.
    + (* [] accepted: pad up to max k lo *)
      assert (He : A []) by (apply Hf; exact E).
      exists (Nat.max k (N.to_nat lo)); split.
      * unfold in_bounds; destruct hi as [h|].
        -- apply andb_true_iff in Hc; destruct Hc as [H1 H2].
           apply N.leb_le in H1; apply N.leb_le in H2. lia.
        -- lia.
      * apply (l_pow_ne_pad A k); [exact Hd | lia | right; exact He].
    + apply andb_true_iff in Hc; destruct Hc as [H1 H2].
      apply N.leb_le in H1.
      exists k; split.
      * unfold in_bounds; split; [exact H1|].
        destruct hi as [h|]; [apply N.leb_le; exact H2 | exact I].
      * apply l_pow_ne_incl; exact Hd.
  - intros (n & [Hlo Hhi] & Hp).
    destruct (f []) eqn:E.
    + destruct (l_pow_ne_decomp A n w Hp) as (k & Hkn & Hkl & Hk).
      exists k; split; [apply in_seq; lia|].
      apply andb_true_iff; split; [apply (ne_decomp_spec f A Hf); exact Hk|].
      destruct hi as [h|]; [|reflexivity].
      apply andb_true_iff; split; apply N.leb_le; lia.
    + assert (Hne : ~ A []).
      { intros Ha; apply Hf in Ha; rewrite E in Ha; discriminate. }
      apply (l_pow_no_eps A n w Hne) in Hp.
      assert (Hl := l_pow_ne_length A n w Hp).
      exists n; split; [apply in_seq; lia|].
      apply andb_true_iff; split; [apply (ne_decomp_spec f A Hf); exact Hp|].
      apply andb_true_iff; split; [apply N.leb_le; exact Hlo|].
      destruct hi as [h|]; [apply N.leb_le; exact Hhi | reflexivity].
Qed.

(* ---------- main theorem ---------- *)
Theorem mref_correct : forall p w, mref p w = true <-> denote p w.
Proof.
  induction p as [ | | | | a b | s | p IHp q IHq | p IHp q IHq | p IHp q IHq | p IHp
                   | p IHp q IHq | p IHp lo hi | p IHp c ]; intros w.
  - (* PNone *) simpl; split; [discriminate | intros []].
  - (* PEps *) destruct w; simpl; split; intros H; try reflexivity; discriminate.
  - (* PAll *) simpl; apply goodwb_iff.
  - (* PAllChar *)
    destruct w as [|c [|d t]]; simpl.
    + split; [discriminate | intros (c & H & _); discriminate].
    + rewrite goodb_iff; split.
      * intros H; exists c; auto.
      * intros (c' & H & Hg); inversion H; subst; exact Hg.
    + split; [discriminate | intros (c' & H & _); discriminate].
  - (* PRange *)
    destruct w as [|c [|d t]]; simpl.
    + split; [discriminate | intros (c & H & _); discriminate].
    + rewrite !andb_true_iff, !N.leb_le, goodb_iff; split.
      * intros [[H1 H2] H3]; exists c; auto.
      * intros (c' & H & H1 & H2 & H3); inversion H; subst; auto.
    + split; [discriminate | intros (c' & H & _); discriminate].
  - (* PStr *) simpl; apply word_eqb_eq.
  - (* PConcat *)
    simpl; rewrite existsb_exists; split.
    + intros ([u v] & Hin & Hb); simpl in Hb.
      apply splits_spec in Hin; apply andb_true_iff in Hb; destruct Hb as [Hu Hv].
      exists u, v; split; [exact Hin | split; [apply IHp; exact Hu | apply IHq; exact Hv]].
    + intros (u & v & Hw & Hu & Hv).
      exists (u, v); split; [apply splits_spec; exact Hw|].
      simpl; apply andb_true_iff; split; [apply IHp; exact Hu | apply IHq; exact Hv].
  - (* PUnion *) simpl; rewrite orb_true_iff, IHp, IHq; reflexivity.
  - (* PInter *) simpl; rewrite andb_true_iff, IHp, IHq; reflexivity.
  - (* PComp *)
    simpl; rewrite andb_true_iff, negb_true_iff, goodwb_iff, <- IHp, not_true_iff_false.
    reflexivity.
  - (* PDiff *)
    simpl; rewrite andb_true_iff, negb_true_iff, IHp, <- IHq, not_true_iff_false.
    reflexivity.
  - (* PLoop *) simpl; apply (loop_ref_spec (mref p) (denote p) IHp).
  - (* PDeriv *) simpl; apply IHp.
Qed.

Corollary mref_false_iff p w : mref p w = false <-> ~ denote p w.
Proof. rewrite <- mref_correct; symmetry; apply not_true_iff_false. Qed.

Corollary denote_dec p w : {denote p w} + {~ denote p w}.
Proof.
  destruct (mref p w) eqn:E; [left; apply mref_correct | right; apply mref_false_iff]; exact E.
Qed.

(* two programs with the same denotation are matched identically, and conversely *)
Corollary mref_ext p q :
  (forall w, mref p w = mref q w) <-> (forall w, denote p w <-> denote q w).
Proof.
  split; intros H w.
  - rewrite <- !mref_correct, H; reflexivity.
  - destruct (mref p w) eqn:Ep, (mref q w) eqn:Eq; try reflexivity.
    + apply mref_correct, H, mref_correct in Ep; congruence.
    + apply mref_correct, H, mref_correct in Eq; congruence.
Qed.

Lemma mref_deriv p c w : mref (PDeriv p c) w = mref p (c :: w).
Proof. reflexivity. Qed.

(* ---------- denotation of the builders ---------- *)
Lemma denote_sderiv p u w : denote (p_sderiv p u) w <-> denote p (u ++ w).
Proof.
  unfold p_sderiv; revert p; induction u as [|c u IH]; intros p; simpl.
  - reflexivity.
  - rewrite IH; reflexivity.
Qed.

Lemma mref_sderiv p u w : mref (p_sderiv p u) w = mref p (u ++ w).
Proof.
  unfold p_sderiv; revert p; induction u as [|c u IH]; intros p; simpl.
  - reflexivity.
  - rewrite IH; reflexivity.
Qed.

Lemma p_sderiv_app p u v : p_sderiv p (u ++ v) = p_sderiv (p_sderiv p u) v.
Proof. unfold p_sderiv; apply fold_left_app. Qed.

Lemma denote_union_list l w :
  denote (p_union_list l) w <-> exists p, In p l /\ denote p w.
Proof.
  unfold p_union_list; induction l as [|q l IH]; simpl.
  - split; [intros [] | intros (p & [] & _)].
  - rewrite IH; split.
    + intros [H | (p & Hin & H)]; [exists q; auto | exists p; auto].
    + intros (p & [Heq | Hin] & H); [subst; left; exact H | right; exists p; auto].
Qed.

Lemma denote_inter_list l w :
  denote (p_inter_list l) w <-> goodw w /\ forall p, In p l -> denote p w.
Proof.
  unfold p_inter_list; induction l as [|q l IH]; simpl.
  - split; [intros H; split; [exact H | intros p []] | intros [H _]; exact H].
  - rewrite IH; split.
    + intros (Hq & Hg & Hl); split; [exact Hg|].
      intros p [Heq | Hin]; [subst; exact Hq | apply Hl; exact Hin].
    + intros (Hg & Hl); split; [apply Hl; left; reflexivity|].
      split; [exact Hg | intros p Hin; apply Hl; right; exact Hin].
Qed.

Lemma denote_diff_list p l w :
  denote (p_diff_list p l) w <-> denote p w /\ forall q, In q l -> ~ denote q w.
Proof.
  unfold p_diff_list; revert p; induction l as [|r l IH]; intros p; simpl.
  - split; [intros H; split; [exact H | intros q []] | intros [H _]; exact H].
  - rewrite IH; simpl; split.
    + intros ([Hp Hr] & Hl); split; [exact Hp|].
      intros q [Heq | Hin]; [subst; exact Hr | apply Hl; exact Hin].
    + intros (Hp & Hl); split.
      * split; [exact Hp | apply Hl; left; reflexivity].
      * intros q Hin; apply Hl; right; exact Hin.
Qed.

(* a word of the concatenation of a list is a concatenation of one word per component *)
Lemma denote_concat_list l w :
  denote (p_concat_list l) w <->
  exists ws, Forall2 (fun p u => denote p u) l ws /\ w = concat ws.
Proof.
  unfold p_concat_list; revert w; induction l as [|q l IH]; intros w; simpl.
  - split.
    + intros H; exists []; split; [constructor | exact H].
    + intros (ws & HF & Hw); inversion HF; subst; reflexivity.
  - split.
    + intros (u & v & Hw & Hu & Hv).
      apply IH in Hv; destruct Hv as (ws & HF & Hv).
      exists (u :: ws); split; [constructor; assumption | subst; reflexivity].
    + intros (ws & HF & Hw); inversion HF as [|q' u l' ws' Hu HF' E1 E2]; subst.
      exists u, (concat ws'); split; [reflexivity | split; [exact Hu|]].
      apply IH; exists ws'; auto.
Qed.

Lemma denote_concat_list_app l1 l2 w :
  denote (p_concat_list (l1 ++ l2)) w <->
  l_concat (denote (p_concat_list l1)) (denote (p_concat_list l2)) w.
Proof.
  unfold p_concat_list; revert w; induction l1 as [|q l1 IH]; intros w; simpl.
  - symmetry; apply (l_concat_eps_l (denote (fold_right PConcat PEps l2)) w).
  - rewrite l_concat_assoc.
    apply (l_concat_equiv _ _ _ _ (l_equiv_refl (denote q)) IH).
Qed.

(* re.range of two strings: empty unless both are single characters *)
Lemma denote_smtrange s1 s2 w :
  denote (p_smtrange s1 s2) w <->
  exists c1 c2 c, s1 = [c1] /\ s2 = [c2] /\ w = [c] /\ (c1 <= c)%N /\ (c <= c2)%N /\ good c.
Proof.
  unfold p_smtrange.
  destruct s1 as [|c1 [|d1 t1]];
    try (split; [intros [] | intros (x1 & x2 & x & H1 & _); discriminate]).
  destruct s2 as [|c2 [|d2 t2]];
    try (split; [intros [] | intros (x1 & x2 & x & _ & H2 & _); discriminate]).
  destruct (N.leb_spec c1 c2) as [Hle | Hlt]; simpl.
  - split.
    + intros (c & Hw & Ha & Hb & Hg); exists c1, c2, c; auto 7.
    + intros (x1 & x2 & c & H1 & H2 & Hw & Ha & Hb & Hg).
      inversion H1; inversion H2; subst; exists c; auto.
  - split; [intros [] |].
    intros (x1 & x2 & c & H1 & H2 & Hw & Ha & Hb & Hg).
    inversion H1; inversion H2; subst; lia.
Qed.

(* the matcher on the builders, for use by the test oracles *)
Corollary mref_union_list l w :
  mref (p_union_list l) w = true <-> exists p, In p l /\ mref p w = true.
Proof.
  rewrite mref_correct, denote_union_list; split;
    intros (p & Hin & H); exists p; split; auto; apply mref_correct; exact H.
Qed.

Corollary mref_inter_list l w :
  mref (p_inter_list l) w = true <-> goodw w /\ forall p, In p l -> mref p w = true.
Proof.
  rewrite mref_correct, denote_inter_list; split;
    intros (Hg & H); split; auto; intros p Hin; apply mref_correct, H, Hin.
Qed.

Corollary mref_diff_list p l w :
  mref (p_diff_list p l) w = true <->
  mref p w = true /\ forall q, In q l -> mref q w = false.
Proof.
  rewrite mref_correct, denote_diff_list, <- mref_correct; split;
    intros (Hp & H); split; auto; intros q Hin; apply mref_false_iff, H, Hin.
Qed.

Print Assumptions mref_correct.
