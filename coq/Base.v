(* Base.v -- shared conventions of the model of awslabs/rust-smt-strings.
   Characters and u32 values are N, i32 values are Z, lengths/indices/fuel are nat.
   A model function returns [None] exactly where the Rust code panics. *)
From Coq Require Export List Arith NArith ZArith Bool Lia.
Export ListNotations.

Definition MAXC : N := 196607.           (* smt_strings::MAX_CHAR = 0x2FFFF *)
Definition REPLC : N := 65533.           (* smt_strings::REPLACEMENT_CHAR = 0xFFFD *)
Definition U32MAX : N := 4294967295.

Definition good (c : N) : Prop := (c <= MAXC)%N.
Definition goodb (c : N) : bool := (c <=? MAXC)%N.
Definition word := list N.
Definition goodw (w : word) : Prop := Forall good w.
Definition goodwb (w : word) : bool := forallb goodb w.

(* option monad *)
Definition bind {A B} (o : option A) (f : A -> option B) : option B :=
  match o with Some x => f x | None => None end.
Notation "'do' x <- a ; b" := (bind a (fun x => b))
  (at level 200, x pattern, a at level 100, b at level 200).

(* checked u32 arithmetic: None = overflow (the Rust code panics / returns None) *)
Definition add32 (x y : N) : option N := if (x + y <=? U32MAX)%N then Some (x + y)%N else None.
Definition mul32 (x y : N) : option N := if (x * y <=? U32MAX)%N then Some (x * y)%N else None.

Lemma goodb_iff c : goodb c = true <-> good c.
Proof. unfold goodb, good. apply N.leb_le. Qed.

Lemma goodwb_iff w : goodwb w = true <-> goodw w.
Proof.
  unfold goodwb, goodw. rewrite forallb_forall, Forall_forall.
  split; intros H x Hx; apply goodb_iff; auto.
Qed.
