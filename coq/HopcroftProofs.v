(* HopcroftProofs.v -- C04: the faithful model of Automaton::minimize (Minimizer.minimize: compact
   successor table, Minimizer::new, refine, StateMapping::from_partition, remap_nodes) is correct.
   Layers:  HopPart (array partitions), HopAbs (abstract Hopcroft invariant), HopSplit (splitter
   lists, update_splitters), HopLoop (the refine loop: invariants, termination within the fuel,
   stability at exit).  This file instantiates them with the automaton (delta = compact table over
   the picked alphabet, E = equality of residual languages) and shows that from_partition +
   remap_nodes build the quotient automaton, which by NerodeProofs.quotient_lang /
   stable_coarse_is_nerode accepts the same language and has no two equivalent states. *)
Require Import Base CharSet Partition PartitionSpec Automaton BuilderSpec Minimizer NerodeProofs.
Require Import HopPart HopAbs HopSplit HopLoop.
Require AutomatonProofs LinkProofs.
Open Scope nat_scope.

(* ------------------------------------------------------------------ 1. the two aut_wf agree *)
Lemma wf_bridge a : aut_wf a -> AutomatonProofs.aut_wf a.
Proof.
  intros [Hl [Hi [Hf Hs]]]. split; [exact Hl|]. split; [exact Hi|]. split; [exact Hf|].
  intros i s Hn.
  assert (Hlt : i < num_states a).
  { rewrite <- Hl. apply nth_error_Some. congruence. }
  specialize (Hs i Hlt). unfold a_state in Hs. rewrite (nth_error_nth _ _ dstate Hn) in Hs. exact Hs.
Qed.

(* ------------------------------------------------------------------ 2. the compact table *)
Lemma compile_facts a : aut_wf a ->
  exists T, compile_successors a = Some T /\ ct_alpha T = length (pick_alphabet a) /\
    1 <= length (pick_alphabet a) /\
    forall s i, s < num_states a -> i < length (pick_alphabet a) ->
      a_step a s (nth i (pick_alphabet a) 0%N) = Some (ct_eval T s i) /\ ct_eval T s i < num_states a.
Proof.
  intros Hwf. pose proof (wf_bridge a Hwf) as Hwf'.
  destruct (AutomatonProofs.compact_eval a LinkProofs.merge_spec_holds Hwf') as [T [HT Hev]].
  exists T. split; [exact HT|].
  pose proof (AutomatonProofs.pick_alphabet_nonempty a LinkProofs.merge_spec_holds Hwf') as Hm.
  split; [|split; [exact Hm|]].
  - destruct (AutomatonProofs.pick_alphabet_reps a LinkProofs.merge_spec_holds Hwf') as [_ [Hal _]]. cbv zeta in Hal.
    destruct (AutomatonProofs.compile_fold a (pick_alphabet a) Hwf' Hal Hm (astates a) []
                (AutomatonProofs.cs_t0 (num_states a) (length (pick_alphabet a))) eq_refl
                (AutomatonProofs.tinv_init _ _ _)) as [t [Hfold [Hti _]]].
    { split; [apply repeat_length|]. intros s d Hs. simpl in Hs. lia. }
    rewrite AutomatonProofs.compile_successors_unfold, Hfold in HT. inversion HT; subst T. cbn [ct_alpha].
    apply (AutomatonProofs.ti_m _ _ _ _ _ Hti).
  - intros s i Hs Hi. destruct (Hev s i Hs Hi) as [H1 [H2 _]]. split; [exact H1|exact H2].
Qed.

(* ------------------------------------------------------------------ 3. the environment of the loop *)
Definition Eq_lang (a : automaton) (x y : nat) : Prop := lang_equiv_states a x a y.
Definition isf_of (a : automaton) (i : nat) : bool := a_final (a_state a i).

Lemma env_of a T : aut_wf a -> compile_successors a = Some T ->
  (forall s i, s < num_states a -> i < length (pick_alphabet a) ->
      a_step a s (nth i (pick_alphabet a) 0%N) = Some (ct_eval T s i) /\ ct_eval T s i < num_states a) ->
  env_ok (num_states a) (length (pick_alphabet a)) (ct_eval T) (isf_of a) (Eq_lang a).
Proof.
  intros Hwf HT Hev.
  destruct (c04_pick_alphabet_repr a Hwf) as [Hgood _].
  assert (Hg : forall i, i < length (pick_alphabet a) -> good (nth i (pick_alphabet a) 0%N)).
  { intros i Hi. rewrite Forall_forall in Hgood. apply Hgood. apply nth_In. exact Hi. }
  constructor.
  - pose proof (aut_wf_initial a Hwf). lia.
  - intros x c Hx Hc. apply (Hev x c Hx Hc).
  - intros x y Hx Hy He. specialize (He [] (Forall_nil _)). rewrite !acc_nil in He. injection He as He. exact He.
  - intros x y c Hx Hy Hc He w Hw.
    destruct (Hev x c Hx Hc) as [Sx _]. destruct (Hev y c Hy Hc) as [Sy _].
    specialize (He (nth c (pick_alphabet a) 0%N :: w)). rewrite !acc_cons, Sx, Sy in He. apply He.
    constructor; [apply Hg; exact Hc|exact Hw].
Qed.

(* ------------------------------------------------------------------ 4. from_partition + remap_nodes *)
Definition new_id_of (p : fpart) (n : nat) : list nat := map (fun s => fp_block_id p s - 1) (seq 0 n).
Definition rep_of (p : fpart) (b : nat) : nat :=
  nth (fst (nth b (bp_block (fp_base p)) (0,0))) (bp_seg (fp_base p)) 0.
Definition old_id_of (p : fpart) : list nat := map (rep_of p) (seq 1 (bp_num_blocks (fp_base p) - 1)).
Definition quotient_of (a : automaton) (p : fpart) : automaton :=
  remap_nodes a (new_id_of p (num_states a)) (old_id_of p).

Lemma nth_map_seq1 (f : nat -> nat) m j : j < m -> nth j (map f (seq 1 m)) 0 = f (S j).
Proof.
  intros H. rewrite (nth_indep _ 0 (f 0)) by (rewrite map_length, seq_length; exact H).
  rewrite map_nth, seq_nth by exact H. reflexivity.
Qed.

Section Quotient.
  Context (A : automaton) (T : ctable) (p : fpart).
  Let n := num_states A.
  Let al := pick_alphabet A.
  Let bid := fp_block_id p.
  Let k := nblk (fp_base p).
  Let h := fun s => nth s (new_id_of p n) 0.
  Let B := quotient_of A p.

  Context (Hwf : aut_wf A)
          (Hev : forall s i, s < n -> i < length al ->
                   a_step A s (nth i al 0%N) = Some (ct_eval T s i) /\ ct_eval T s i < n)
          (Wp : fp_wf n p)
          (Hres : respects n (isf_of A) bid)
          (Hstab : stable n (length al) (ct_eval T) bid).

  Lemma q_h s : s < n -> h s = bid s - 1.
  Proof. intros Hs. unfold h, new_id_of. exact (nth_map_seq (fun s => fp_block_id p s - 1) n s 0 Hs). Qed.

  Lemma q_bid_range s : s < n -> 1 <= bid s < k.
  Proof. intros Hs. apply (fp_bid_range n p s Wp Hs). Qed.

  Lemma q_h_lt s : s < n -> h s < k - 1.
  Proof. intros Hs. rewrite (q_h s Hs). pose proof (q_bid_range s Hs). lia. Qed.

  Lemma q_rep b : 1 <= b < k -> rep_of p b < n /\ bid (rep_of p b) = b.
  Proof.
    intros Hb. pose proof (blk_first_in n (fp_base p) b (fw_base _ _ Wp) Hb) as Hin.
    apply (fp_in_blk_iff n p b _ Wp) in Hin. exact Hin.
  Qed.

  Lemma q_nstates : num_states B = k - 1.
  Proof. unfold B, quotient_of, remap_nodes, old_id_of. cbn [num_states]. rewrite map_length, seq_length. reflexivity. Qed.

  Lemma q_old j : j < k - 1 -> nth j (old_id_of p) 0 = rep_of p (S j).
  Proof. intros Hj. unfold old_id_of. apply nth_map_seq1. exact Hj. Qed.

  Lemma q_state j : j < k - 1 -> a_state B j = remap_state (new_id_of p n) (a_state A (rep_of p (S j))).
  Proof.
    intros Hj. unfold B, quotient_of. rewrite AutomatonProofs.remap_state_at.
    - rewrite (q_old j Hj). reflexivity.
    - unfold old_id_of. rewrite map_length, seq_length. exact Hj.
  Qed.

  Lemma q_h_rep j : j < k - 1 -> h (rep_of p (S j)) = j.
  Proof.
    intros Hj. assert (Hb : 1 <= S j < k) by lia. destruct (q_rep (S j) Hb) as [H1 H2].
    rewrite (q_h _ H1). fold bid in H2. rewrite H2. lia.
  Qed.

  (* the representative of the block of s *)
  Lemma q_state_h s : s < n ->
    exists r, r < n /\ bid r = bid s /\ a_state B (h s) = remap_state (new_id_of p n) (a_state A r).
  Proof.
    intros Hs. pose proof (q_bid_range s Hs) as Hr. pose proof (q_h_lt s Hs) as Hlt.
    exists (rep_of p (S (h s))). rewrite (q_state _ Hlt).
    assert (E : S (h s) = bid s) by (rewrite (q_h s Hs); lia).
    rewrite E. destruct (q_rep (bid s) Hr) as [H1 H2]. auto.
  Qed.

  Lemma q_wf : aut_wf B.
  Proof.
    split; [|split; [|split]].
    - rewrite q_nstates. unfold B, quotient_of, remap_nodes, old_id_of. cbn [astates]. rewrite !map_length, seq_length. reflexivity.
    - rewrite q_nstates. change (initial B) with (h (initial A)). apply q_h_lt. apply aut_wf_initial. exact Hwf.
    - reflexivity.
    - intros j Hj. rewrite q_nstates in *. rewrite (q_state j Hj).
      assert (Hb : 1 <= S j < k) by lia. destruct (q_rep (S j) Hb) as [Hr1 Hr2].
      destruct (aut_wf_state A _ Hwf Hr1) as [S1 [S2 [S3 [S4 S5]]]].
      unfold state_wf, remap_state. cbn [a_id a_classes a_succ a_default]. split; [|split; [|split; [|split]]].
      + rewrite S1. apply (q_h_rep j Hj).
      + exact S2.
      + rewrite map_length. exact S3.
      + intros t Ht. apply in_map_iff in Ht. destruct Ht as [t' [<- Ht']]. apply (q_h_lt t'). apply S4. exact Ht'.
      + destruct (a_default (a_state A (rep_of p (S j)))) as [d|]; cbn [option_map]; [apply (q_h_lt d); exact S5|exact S5].
  Qed.

  Lemma q_final s : s < n -> a_is_final B (h s) = a_is_final A s.
  Proof.
    intros Hs. destruct (q_state_h s Hs) as [r [Hr [Hb Hst]]]. unfold a_is_final. rewrite Hst.
    unfold remap_state. cbn [a_final]. apply (Hres r s Hr Hs Hb).
  Qed.

  Lemma q_step s c s' : s < n -> good c -> a_step A s c = Some s' -> a_step B (h s) c = Some (h s').
  Proof.
    intros Hs Hc Hstep. destruct (q_state_h s Hs) as [r [Hr [Hb Hst]]].
    unfold a_step at 1. rewrite Hst, (AutomatonProofs.remap_a_next A B).
    fold (a_step A r c). destruct (step_total A r c Hwf Hr Hc) as [r' [Hr' Hr'lt]]. rewrite Hr'. cbn [option_map].
    f_equal. change (h r' = h s').
    destruct (step_total A s c Hwf Hs Hc) as [s'' [Hs'' Hs'lt]]. assert (s'' = s') by congruence. subst s''.
    rewrite (q_h r' Hr'lt), (q_h s' Hs'lt). f_equal.
    destruct (c04_pick_alphabet_repr A Hwf) as [_ [Hrep _]].
    destruct (Hrep c Hc) as [rc [Hin [_ Hsame]]].
    destruct (In_nth _ _ 0%N Hin) as [i [Hi Hnth]]. fold al in Hi, Hnth.
    rewrite (Hsame r Hr) in Hr'. rewrite (Hsame s Hs) in Hstep. rewrite <- Hnth in Hr', Hstep. fold al in Hr', Hstep.
    destruct (Hev r i Hr Hi) as [E1 _]. destruct (Hev s i Hs Hi) as [E2 _].
    assert (r' = ct_eval T r i) by congruence. assert (s' = ct_eval T s i) by congruence. subst r' s'.
    apply (Hstab r s i Hr Hs Hi Hb).
  Qed.

  Lemma q_surj q : q < num_states B -> exists s, s < n /\ h s = q.
  Proof.
    rewrite q_nstates. intros Hq. exists (rep_of p (S q)). split; [|apply q_h_rep; exact Hq].
    assert (Hb : 1 <= S q < k) by lia. apply (q_rep (S q) Hb).
  Qed.

  Lemma q_lang s : s < n -> lang_equiv_states A s B (h s).
  Proof. apply (quotient_lang A B h Hwf); [exact q_final|exact q_step]. Qed.

  Lemma q_same_language : same_language A B.
  Proof. apply (quotient_same_language A B h Hwf); [exact q_final|exact q_step|reflexivity]. Qed.

  Lemma q_h_iff s t : s < n -> t < n -> (h s = h t <-> bid s = bid t).
  Proof.
    intros Hs Ht. rewrite (q_h s Hs), (q_h t Ht). pose proof (q_bid_range s Hs). pose proof (q_bid_range t Ht). lia.
  Qed.

  Lemma q_same_block_equiv s t : s < n -> t < n -> bid s = bid t -> lang_equiv_states A s A t.
  Proof.
    intros Hs Ht Hb. apply (q_h_iff s t Hs Ht) in Hb.
    apply (lang_equiv_trans _ _ B (h s)); [apply q_lang; exact Hs|]. rewrite Hb.
    apply lang_equiv_sym. apply q_lang. exact Ht.
  Qed.

  Lemma q_collapsed : coarse n (Eq_lang A) bid -> no_equiv_states B.
  Proof.
    intros Hco. apply (stable_coarse_is_nerode A B h Hwf); [exact q_final|exact q_step|exact q_surj|].
    intros s t Hs Ht He. apply (q_h_iff s t Hs Ht). apply (Hco s t Hs Ht He).
  Qed.
End Quotient.

(* ------------------------------------------------------------------ 5. the number of classes *)
Lemma NoDup_map_inj_in {X Y} (f : X -> Y) : forall l, NoDup l ->
  (forall x y, In x l -> In y l -> f x = f y -> x = y) -> NoDup (map f l).
Proof.
  induction l as [|a l IH]; intros Hnd Hinj; cbn [map]; [constructor|].
  inversion Hnd as [|? ? Hn Hnd']; subst. constructor.
  - intros Hin. apply in_map_iff in Hin. destruct Hin as [b [Hb Hbl]].
    assert (b = a) by (apply Hinj; [right; exact Hbl|left; reflexivity|exact Hb]). subst. contradiction.
  - apply IH; [exact Hnd'|]. intros x y Hx Hy. apply Hinj; right; assumption.
Qed.

Lemma index_of_quotient A q (h : nat -> nat) : aut_wf A ->
  (forall s, s < num_states A -> h s < q) ->
  (forall j, j < q -> exists s, s < num_states A /\ h s = j) ->
  (forall s t, s < num_states A -> t < num_states A -> (h s = h t <-> lang_equiv_states A s A t)) ->
  nerode_index A = Some q.
Proof.
  intros Hwf Hlt Hsur Hiff.
  destruct (c04_nerode_index A Hwf) as [k [reps [Hidx [Hlen [Hnd [Hr [Hinj Hcov]]]]]]].
  rewrite Hidx. f_equal. apply Nat.le_antisymm.
  - rewrite <- Hlen, <- (map_length h). apply HopLoop.pigeon.
    + apply NoDup_map_inj_in; [exact Hnd|]. intros x y Hx Hy He. apply Hinj; auto. apply Hiff; auto.
    + intros y Hy. apply in_map_iff in Hy. destruct Hy as [x [<- Hx]]. apply Hlt. apply Hr. exact Hx.
  - rewrite <- Hlen, <- (map_length h), <- (seq_length q 0). apply NoDup_incl_length; [apply seq_NoDup|].
    intros j Hj. apply in_seq in Hj. destruct (Hsur j) as [s [Hs Hhs]]; [lia|].
    destruct (Hcov s Hs) as [r [Hrin Hre]]. apply in_map_iff. exists r. split; [|exact Hrin].
    rewrite <- Hhs. symmetry. apply Hiff; auto.
Qed.

(* ------------------------------------------------------------------ 6. minimize *)
(* from_partition + remap_nodes of any well-formed, finality-respecting, stable partition of the states
   yields a well-formed automaton of the same language; if the partition does not separate equivalent
   states the result has no two equivalent states and one state per residual language *)
Theorem quotient_of_partition_correct A T p : aut_wf A -> compile_successors A = Some T ->
  fp_wf (num_states A) p ->
  respects (num_states A) (isf_of A) (fp_block_id p) ->
  stable (num_states A) (length (pick_alphabet A)) (ct_eval T) (fp_block_id p) ->
  aut_wf (quotient_of A p) /\ same_language A (quotient_of A p) /\
  (coarse (num_states A) (Eq_lang A) (fp_block_id p) ->
     no_equiv_states (quotient_of A p) /\ nerode_index A = Some (num_states (quotient_of A p))).
Proof.
  intros Hwf HT Wp Hres Hstab.
  destruct (compile_facts A Hwf) as [T' [HT' [_ [_ Hev]]]]. assert (T' = T) by congruence. subst T'.
  split; [apply (q_wf A p Hwf Wp)|]. split; [apply (q_same_language A T p Hwf Hev Wp Hres Hstab)|].
  intros Hco. split; [apply (q_collapsed A T p Hwf Hev Wp Hres Hstab Hco)|].
  rewrite (q_nstates A p).
  apply (index_of_quotient A _ (fun s => nth s (new_id_of p (num_states A)) 0) Hwf).
  - intros s Hs. apply (q_h_lt A p Wp s Hs).
  - intros j Hj. apply (q_surj A p Wp j). rewrite (q_nstates A p). exact Hj.
  - intros s t Hs Ht. rewrite (q_h_iff A p Wp s t Hs Ht). split.
    + apply (q_same_block_equiv A T p Hwf Hev Wp Hres Hstab s t Hs Ht).
    + apply (Hco s t Hs Ht).
Qed.

Lemma minimize_unfold A T : compile_successors A = Some T ->
  minimize A =
  match refine (ct_eval T) (4 * num_states A * ct_alpha T + 16) (num_states A)
               (mini_new (ct_eval T) (isf_of A) (num_states A) (ct_alpha T)) with
  | None => None
  | Some m =>
    if Nat.ltb (bp_num_blocks (fp_base (mn_main m)) - 1) (num_states A)
    then Some (quotient_of A (mn_main m)) else Some A
  end.
Proof. intros HT. unfold minimize. rewrite HT. reflexivity. Qed.

Theorem minimize_correct A : aut_wf A ->
  exists B, minimize A = Some B /\ aut_wf B /\ dfa_equiv A B = Some true /\ collapsed B = Some true /\
            nerode_index A = Some (num_states B).
Proof.
  intros Hwf. destruct (compile_facts A Hwf) as [T [HT [Halpha [Hm Hev]]]].
  pose proof (env_of A T Hwf HT Hev) as Env.
  destruct (refine_correct _ _ _ _ _ Env) as [m [Href [Wp [Hres [Hstab Hco]]]]].
  rewrite (minimize_unfold A T HT), Halpha, Href.
  assert (Hfin : forall B, aut_wf B -> same_language A B -> no_equiv_states B ->
            nerode_index A = Some (num_states B) ->
            aut_wf B /\ dfa_equiv A B = Some true /\ collapsed B = Some true /\ nerode_index A = Some (num_states B)).
  { intros B HB HL HN HI. split; [exact HB|]. split; [apply (c04_dfa_equiv A B Hwf HB); exact HL|].
    split; [apply (c04_collapsed B HB); exact HN|exact HI]. }
  destruct (Nat.ltb (bp_num_blocks (fp_base (mn_main m)) - 1) (num_states A)) eqn:Hidx.
  - exists (quotient_of A (mn_main m)). split; [reflexivity|].
    destruct (quotient_of_partition_correct A T (mn_main m) Hwf HT Wp Hres Hstab) as [HB [HL HC]].
    destruct (HC Hco) as [HN HI]. apply Hfin; assumption.
  - exists A. split; [reflexivity|]. apply Nat.ltb_ge in Hidx.
    assert (Hdisc : forall x y, x < num_states A -> y < num_states A -> bidm m x = bidm m y -> x = y).
    { intros x y Hx Hy Hb. eapply (discrete_blocks (num_states A) (fp_base (mn_main m))).
      - apply (fw_base _ _ Wp).
      - unfold bp_num_blocks in Hidx. unfold nblk. lia.
      - apply (fw_bid _ _ Wp). exact Hx.
      - unfold bidm in Hb. rewrite Hb. apply (fw_bid _ _ Wp). exact Hy. }
    assert (HN : no_equiv_states A).
    { intros x y Hx Hy He. apply Hdisc; auto. }
    apply Hfin; [exact Hwf|intros w _; reflexivity|exact HN|].
    apply (index_of_quotient A (num_states A) (fun s => s) Hwf); auto.
    + intros j Hj. exists j. auto.
    + intros s t Hs Ht. split; [intros ->; apply lang_equiv_refl|apply HN; assumption].
Qed.

(* the full property for the faithful model *)
Theorem minimize_full A : aut_wf A ->
  exists B, minimize A = Some B /\ aut_wf B /\
    same_language A B /\ no_equiv_states B /\
    (exists reps, length reps = num_states B /\ residual_reps A reps) /\
    (all_reachable A -> forall C, aut_wf C -> same_language A C -> num_states B <= num_states C) /\
    (all_reachable B -> forall C, aut_wf C -> same_language A C -> num_states B <= num_states C) /\
    initial B < num_states B /\
    num_final B = length (filter (fun s => a_is_final B s) (seq 0 (num_states B))) /\
    a_is_final A (initial A) = a_is_final B (initial B).
Proof.
  intros Hwf. destruct (minimize_correct A Hwf) as [B [HB [HW [HE [HC HI]]]]].
  exists B. split; [exact HB|]. split; [exact HW|].
  apply (c04_validation_meaning A B Hwf); auto. apply aut_wfb_iff. exact HW.
Qed.
