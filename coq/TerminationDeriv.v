(* TerminationDeriv.v -- the class derivative never increases the potential [phi] (Termination.v),
   and keeps the derivative cache honest. *)
Require Import Base CharSet Partition PartitionSpec LoopRange Regex Inclusion Constructors Deriv Denote Sem.
Require Import Lang PartitionProofs LoopRangeProofs ManagerProofs ConstructorProofs RunProofs DerivProofs.
Require Import Termination TerminationPot TerminationNorm.
Require ExploreProofs.
Open Scope N_scope.

Lemma hon_ext m m' : ext m m' -> cache m' = cache m -> hon m -> hon m'.
Proof.
  intros X E H i cid d Hin. rewrite E in Hin. destruct (H i cid d Hin) as (e & Oe & Ei & Hp).
  exists e. split; [eapply ext_owned; eauto|]. auto.
Qed.
Lemma hon_insert m e cid r : hon m -> owned m e -> phi r <= phi e -> hon (cache_insert m (rid e) cid r).
Proof.
  intros H Oe Hp i k d Hin. unfold cache_insert in Hin. cbn [cache set_cache] in Hin. destruct Hin as [Hin|Hin].
  - inversion Hin; subst i k d. exists e. split; [exact Oe|]. auto.
  - destruct (H i k d Hin) as (e' & Oe' & Ei & Hp'). exists e'. split; [exact Oe'|]. auto.
Qed.
Lemma hon_new : hon new_mgr.
Proof. assert (E : cache new_mgr = []) by (vm_compute; reflexivity). intros i cid d H. rewrite E in H. destruct H. Qed.

(* the shifted loop *)
Lemma shift_pot p v rg : 1 <= v -> lr_valid rg -> lr_is_zero (lr_shift rg) = false ->
  p + lvl v (lr_shift rg) <= lpa p v rg /\ lpa p v (lr_shift rg) <= lpa p v rg.
Proof.
  intros Hv Vr Z. destruct rg as [a [b|]].
  - assert (E : exists a', lr_shift (LR a (Some b)) = LR a' (Some (b - 1)) /\ 1 <= b).
    { cbn [lr_valid] in Vr. destruct a as [|q]; [destruct b as [|q']|]; cbn [lr_shift] in *; try discriminate.
      - exists 0. split; [reflexivity | lia].
      - exists (N.pos q - 1). split; [reflexivity | lia]. }
    destruct E as (a' & E & Hb). rewrite E in *. cbn [lpa lvl].
    destruct (Npred_ex b) as [->|[b' ->]]; [lia|].
    replace (b' + 1 - 1) with b' in * by lia.
    destruct (Npred_ex b') as [->|[b'' ->]].
    + exfalso. cbn [lr_valid] in Vr. destruct a as [|q]; cbn [lr_shift] in E; inversion E; subst.
      * discriminate.
      * destruct q as [q|q|]; try lia. discriminate.
    + replace (b'' + 1 - 1) with b'' by lia. replace ((b'' + 1) * v) with (b'' * v + v) by ring. lia.
  - destruct a as [|q]; cbn [lr_shift lpa lvl].
    + change (0 - 1) with 0. rewrite !N.mul_0_l. lia.
    + replace (N.pos q - 1 - 1) with (N.pos q - 2) by lia.
      assert ((N.pos q - 2) * v <= (N.pos q - 1) * v) by (apply N.mul_le_mono_r; lia). lia.
Qed.

(* the statement proved by structural induction *)
Definition pd_spec (e : re) : Prop := forall c0 m cid m' d,
  dwf m -> hon m -> nn c0 m -> owned m e -> pvalid (rcls e) cid = true -> cached_deriv e m cid = Some (m', d) ->
  phi d <= phi e /\ hon m' /\ nn c0 m'.

Lemma cd_spec_all e : cd_spec e.
Proof. apply (cached_deriv_spec merge_ok_holds inclusion_sound_holds). Qed.

Lemma pd_deriv x : pd_spec x -> forall c0 m c k m1 d1,
  dwf m -> hon m -> nn c0 m -> owned m x -> good c -> coc x c = Some k -> cached_deriv x m k = Some (m1, d1) ->
  (dwf m1 /\ ext m m1 /\ owned m1 d1) /\ phi d1 <= phi x /\ hon m1 /\ nn c0 m1.
Proof.
  intros Hx c0 m c k m1 d1 Dm Hm Nm O Hc K D.
  destruct (coc_class merge_ok_holds m x c k (proj1 Dm) O Hc K) as [Hv Hin].
  destruct (cd_spec_all x m k m1 d1 Dm O Hv D) as (D1 & X1 & O1 & _).
  destruct (Hx c0 m k m1 d1 Dm Hm Nm O Hv D) as (P1 & H1 & N1). auto.
Qed.

Lemma pd_list c : good c -> forall l, (forall x, In x l -> pd_spec x) ->
  forall c0 m m1 ds, dwf m -> hon m -> nn c0 m -> (forall x, In x l -> owned m x) -> deriv_list c l m = Some (m1, ds) ->
  (dwf m1 /\ ext m m1 /\ forall d, In d ds -> owned m1 d) /\ (hon m1 /\ nn c0 m1) /\
  Forall2 (fun x d => phi d <= phi x) l ds.
Proof.
  intros Hc. induction l as [|x t IH]; intros Hl c0 m m1 ds Dm Hm Nm Ho H.
  - cbn in H. inversion H; subst. split; [split; [exact Dm|]; split; [apply ext_refl | intros d []]|]. split; [split; [exact Hm|exact Nm] | constructor].
  - rewrite deriv_list_cons in H.
    destruct (coc x c) as [kx|] eqn:K; cbn [bind] in H; [|discriminate].
    destruct (cached_deriv x m kx) as [[m2 d]|] eqn:D; cbn [bind] in H; [|discriminate].
    destruct (deriv_list c t m2) as [[m3 ds']|] eqn:DL; cbn [bind] in H; [|discriminate].
    inversion H; subst m3 ds. clear H.
    destruct (pd_deriv x (Hl x (or_introl eq_refl)) c0 m c kx m2 d Dm Hm Nm (Ho x (or_introl eq_refl)) Hc K D)
      as ((D2 & X2 & Od) & Pd & H2 & N2).
    destruct (IH (fun y Hy => Hl y (or_intror Hy)) c0 m2 m1 ds' D2 H2 N2
                 (fun y Hy => ext_owned m m2 y X2 (Ho y (or_intror Hy))) DL) as ((D3 & X3 & Oall) & H3 & F).
    split; [split; [exact D3|]; split; [eapply ext_trans; eauto|]|].
    + intros y [<-|Hy]; [eapply ext_owned; eauto | apply Oall; exact Hy].
    + split; [exact H3|]. constructor; [exact Pd | exact F].
Qed.

Lemma Forall2_phi_le l ds B : Forall2 (fun x d => phi d <= phi x) l ds ->
  (forall x, In x l -> phi x <= B) -> forall d, In d ds -> phi d <= B.
Proof.
  intros F. induction F as [|x d l ds Hxd F IH]; intros Hb y Hy; [destruct Hy|].
  destruct Hy as [<-|Hy].
  - specialize (Hb x (or_introl eq_refl)). lia.
  - apply IH; auto. intros z Hz. apply Hb. right. exact Hz.
Qed.

Lemma pd_body e : (forall x, In x (children (rnode e)) -> pd_spec x) ->
  forall c0 m c m' r, dwf m -> hon m -> nn c0 m -> owned m e -> good c -> deriv_body e m c = Some (m', r) ->
  phi r <= phi e /\ hon m' /\ nn c0 m'.
Proof.
  intros IH c0 m c m' r [W Z] Hm Nm Oe Hc H.
  assert (Hch : forall x, In x (children (rnode e)) -> owned m x)
    by (intros x Hx; apply (wf_child m W e x Oe Hx)).
  pose proof (wf_terms m W e Oe) as We. apply wf_term_iff in We as (_ & _ & Hok & Hwt).
  pose proof (Z e Oe) as Hnz. pose proof (pa_pos e) as Hpe.
  unfold deriv_body in H.
  destruct (rnode e) as [| |s|e1 e2|e1 rg|e1|l|l] eqn:K; cbn [children node_ok nz_node] in *.
  - inversion H; subst m' r. split; [|split; [exact Hm|exact Nm]]. rewrite (phi_m_empty m W).
    rewrite phi_nonunion; [lia | rewrite is_union_node, K; reflexivity].
  - inversion H; subst m' r. split; [|split; [exact Hm|exact Nm]]. rewrite (phi_m_empty m W).
    rewrite phi_nonunion; [lia | rewrite is_union_node, K; reflexivity].
  - inversion H; subst m' r. split; [|split; [exact Hm|exact Nm]].
    rewrite (phi_nonunion e); [|rewrite is_union_node, K; reflexivity].
    destruct (cs_contains s c); rewrite ?(phi_m_eps m W), ?(phi_m_empty m W); lia.
  - (* Concat *)
    assert (I1 : In e1 [e1; e2]) by (cbn; auto). assert (I2 : In e2 [e1; e2]) by (cbn; auto).
    assert (Ep : phi e = CW + N.max (phi e1 + vl e2) (pa e2)).
    { rewrite phi_nonunion; [|rewrite is_union_node, K; reflexivity]. rewrite pa_node, K. reflexivity. }
    destruct (coc e1 c) as [k1|] eqn:K1; cbn [bind] in H; [|discriminate].
    destruct (cached_deriv e1 m k1) as [[m1 d1]|] eqn:D1; cbn [bind] in H; [|discriminate].
    destruct (pd_deriv e1 (IH e1 I1) c0 m c k1 m1 d1 (conj W Z) Hm Nm (Hch e1 I1) Hc K1 D1)
      as (([W1 Z1] & X1 & Od1) & P1 & H1 & N1).
    destruct (concat d1 m1 e2) as [[m2 d1']|] eqn:C2; cbn [bind] in H; [|discriminate].
    pose proof (ext_owned m m1 e2 X1 (Hch e2 I2)) as Oe2.
    destruct (concat_ok d1 m1 e2 m2 d1' W1 Od1 Oe2 C2) as (W2 & X2 & Od1' & _).
    pose proof (concat_nz d1 m1 e2 m2 d1' W1 Z1 Od1 Oe2 C2) as Z2.
    destruct (concat_pot d1 m1 e2 m2 d1' W1 Od1 Oe2 C2) as [P2 _].
    pose proof (hon_ext m1 m2 X2 (ExploreProofs.concat_cache d1 m1 e2 m2 d1' C2) H1) as H2.
    pose proof (concat_nn c0 d1 m1 e2 m2 d1' W1 N1 Od1 Oe2 C2) as N2.
    pose proof (phi_le d1') as Hd1'.
    destruct (rnul e1) eqn:NU1.
    + destruct (coc e2 c) as [k2|] eqn:K2; cbn [bind] in H; [|discriminate].
      destruct (cached_deriv e2 m2 k2) as [[m3 d2]|] eqn:D2; cbn [bind] in H; [|discriminate].
      destruct (pd_deriv e2 (IH e2 I2) c0 m2 c k2 m3 d2 (conj W2 Z2) H2 N2 (ext_owned m1 m2 e2 X2 Oe2) Hc K2 D2)
        as (([W3 Z3] & X3 & Od2) & P3 & H3 & N3).
      destruct (union_wf m3 d1' d2 m' r W3 (ext_owned m2 m3 d1' X3 Od1') Od2 H) as (W4 & X4 & _).
      pose proof (union_pot m3 d1' d2 m' r W3 (ext_owned m2 m3 d1' X3 Od1') Od2 H) as P4.
      split; [|split; [exact (hon_ext m3 m' X4 (ExploreProofs.union_cache m3 d1' d2 m' r H) H3)
                       |exact (union_nn c0 m3 d1' d2 m' r W3 N3 H)]].
      pose proof (phi_le e2). rewrite Ep. lia.
    + inversion H; subst m' r. split; [|split; [exact H2|exact N2]]. rewrite Ep. lia.
  - (* Loop *)
    assert (I1 : In e1 [e1]) by (cbn; auto).
    assert (Ep : phi e = CW + lpa (phi e1) (vl e1) rg).
    { rewrite phi_nonunion; [|rewrite is_union_node, K; reflexivity]. rewrite pa_node, K. reflexivity. }
    destruct (coc e1 c) as [k1|] eqn:K1; cbn [bind] in H; [|discriminate].
    destruct (cached_deriv e1 m k1) as [[m1 d1]|] eqn:D1; cbn [bind] in H; [|discriminate].
    destruct (pd_deriv e1 (IH e1 I1) c0 m c k1 m1 d1 (conj W Z) Hm Nm (Hch e1 I1) Hc K1 D1)
      as (([W1 Z1] & X1 & Od1) & P1 & H1 & N1).
    destruct (mk_loop m1 e1 (lr_shift rg)) as [[m2 e2]|] eqn:ML; cbn [bind] in H; [|discriminate].
    pose proof (ext_owned m m1 e1 X1 (Hch e1 I1)) as Oe1.
    destruct (mk_loop_ok m1 e1 (lr_shift rg) m2 e2 W1 Oe1 (shift_valid rg Hok) ML) as (W2 & X2 & Oe2 & _).
    pose proof (ext_owned m1 m2 d1 X2 Od1) as Od1'.
    destruct (concat_ok d1 m2 e2 m' r W2 Od1' Oe2 H) as (W3 & X3 & _ & _).
    pose proof (hon_ext m1 m2 X2 (ExploreProofs.mk_loop_cache m1 e1 (lr_shift rg) m2 e2 ML) H1) as H2.
    pose proof (mk_loop_nn c0 m1 e1 (lr_shift rg) m2 e2 W1 N1 ML) as N2.
    split; [|split; [exact (hon_ext m2 m' X3 (ExploreProofs.concat_cache d1 m2 e2 m' r H) H2)
                     |exact (concat_nn c0 d1 m2 e2 m' r W2 N2 Od1' Oe2 H)]].
    pose proof (lpa_ge (phi e1) (vl e1) rg) as Hge.
    destruct (lr_is_zero (lr_shift rg)) eqn:SZ.
    + (* the shifted range is [0,0]: the loop factor is epsilon *)
      unfold mk_loop in ML. rewrite SZ in ML. inversion ML; subst m2 e2.
      rewrite concat_unfold in H.
      destruct (is_empty_node d1). { inversion H; subst. rewrite (phi_m_empty m' W1). pose proof (phi_ge2 e1). unfold CW in *. lia. }
      replace (is_empty_node (m_eps m1)) with false in H by (rewrite (c_eps m1 (wf_consts m1 W1)); reflexivity).
      destruct (is_eps_node d1). { inversion H; subst. rewrite (phi_m_eps m' W1). pose proof (phi_ge2 e1). unfold CW in *. lia. }
      replace (is_eps_node (m_eps m1)) with true in H by (rewrite (c_eps m1 (wf_consts m1 W1)); reflexivity).
      inversion H; subst. lia.
    + destruct (mk_loop_pot m1 e1 (lr_shift rg) m2 e2 W1 Oe1 (shift_valid rg Hok) ML) as [Q1 Q2].
      destruct (concat_pot d1 m2 e2 m' r W2 Od1' Oe2 H) as [Q3 _].
      destruct (shift_pot (phi e1) (vl e1) rg (vl_pos e1) Hok SZ) as [S1 S2].
      unfold loop_pa, loop_vl in *. pose proof (phi_le r). rewrite Ep. lia.
  - (* Complement *)
    assert (I1 : In e1 [e1]) by (cbn; auto).
    assert (Ep : phi e = CW + (1 + phi e1)).
    { rewrite phi_nonunion; [|rewrite is_union_node, K; reflexivity]. rewrite pa_node, K. reflexivity. }
    destruct (coc e1 c) as [k1|] eqn:K1; cbn [bind] in H; [|discriminate].
    destruct (cached_deriv e1 m k1) as [[m1 d1]|] eqn:D1; cbn [bind] in H; [|discriminate].
    destruct (pd_deriv e1 (IH e1 I1) c0 m c k1 m1 d1 (conj W Z) Hm Nm (Hch e1 I1) Hc K1 D1)
      as (([W1 Z1] & X1 & Od1) & P1 & H1 & N1).
    destruct (complement m1 d1) as [r'|] eqn:E; cbn [bind] in H; [|discriminate].
    inversion H; subst m' r. split; [|split; [exact H1|exact N1]].
    pose proof (complement_pot m1 d1 r' W1 Od1 E). rewrite Ep. lia.
  - (* Union *)
    assert (Ep : phi e = CW + lmax pa 1 l).
    { rewrite phi_union; [|rewrite is_union_node, K; reflexivity]. rewrite pa_node, K. reflexivity. }
    destruct (deriv_list c l m) as [[m1 ds]|] eqn:DL; cbn [bind] in H; [|discriminate].
    destruct (pd_list c Hc l IH c0 m m1 ds (conj W Z) Hm Nm Hch DL) as (([W1 Z1] & X1 & Ho) & [H1 N1] & F).
    destruct (union_list_wf m1 ds m' r W1 Ho H) as (_ & X2 & _).
    split; [|split; [exact (hon_ext m1 m' X2 (ExploreProofs.union_list_cache m1 ds m' r H) H1)
                     |exact (union_list_nn c0 m1 ds m' r W1 N1 H)]].
    rewrite Ep. apply (union_list_pot m1 ds m' r _ W1 Ho H).
    + pose proof (lmax_ge_base pa 1 l). lia.
    + apply (Forall2_phi_le l ds _ F). intros x Hx. pose proof (phi_le x). pose proof (lmax_ge pa 1 l x Hx). lia.
  - (* Inter *)
    assert (Ep : phi e = CW + (CW + lmax phi 2 l)).
    { rewrite phi_nonunion; [|rewrite is_union_node, K; reflexivity]. rewrite pa_node, K. reflexivity. }
    destruct (deriv_list c l m) as [[m1 ds]|] eqn:DL; cbn [bind] in H; [|discriminate].
    destruct (pd_list c Hc l IH c0 m m1 ds (conj W Z) Hm Nm Hch DL) as (([W1 Z1] & X1 & Ho) & [H1 N1] & F).
    destruct (inter_list_wf m1 ds m' r W1 Ho H) as (_ & X2 & _).
    split; [|split; [exact (hon_ext m1 m' X2 (ExploreProofs.inter_list_cache m1 ds m' r H) H1)
                     |exact (inter_list_nn c0 m1 ds m' r W1 N1 H)]].
    rewrite Ep. rewrite N.add_assoc. apply (inter_list_pot m1 ds m' r _ W1 Ho H).
    + apply lmax_ge_base.
    + apply (Forall2_phi_le l ds _ F). intros x Hx. apply (lmax_ge phi 2 l x Hx).
Qed.

Theorem pd_spec_all : forall e, pd_spec e.
Proof.
  induction e as [e IH] using re_induction.
  intros c0 m cid m' d [W Z] Hm Nm Oe Hv H. rewrite DerivProofs.cached_deriv_unfold in H.
  destruct (cache_lookup (rid e) cid (cache m)) as [r|] eqn:CL.
  - inversion H; subst m' d. split; [|split; [exact Hm|exact Nm]]. apply cache_lookup_in in CL.
    destruct (Hm _ _ _ CL) as (e' & Oe' & Ei & Hp).
    assert (e' = e) by (apply (id_inj m); auto). subst e'. exact Hp.
  - pose proof (cls_wf_owned merge_ok_holds m e W Oe) as Hp.
    destruct (ppick_spec (rcls e) cid Hp Hv) as (c & Pk & Hc & Hin). rewrite Pk in H. cbn [bind] in H.
    destruct (deriv_body e m c) as [[m1 r]|] eqn:DB; cbn [bind] in H; [|discriminate].
    inversion H; subst m' d.
    destruct (deriv_body_correct merge_ok_holds inclusion_sound_holds e (fun x _ => cd_spec_all x) m c m1 r (conj W Z) Oe Hc DB)
      as ([W1 Z1] & X1 & Or & _).
    destruct (pd_body e IH c0 m c m1 r (conj W Z) Hm Nm Oe Hc DB) as (P1 & H1 & N1).
    split; [exact P1|]. split; [apply hon_insert; [exact H1 | eapply ext_owned; eauto | exact P1]|].
    apply nn_set_cache. exact N1.
Qed.

(* the derivative of a term never has a larger potential *)
Theorem cached_deriv_pot c0 e m cid m' d :
  dwf m -> hon m -> nn c0 m -> owned m e -> pvalid (rcls e) cid = true -> cached_deriv e m cid = Some (m', d) ->
  (dwf m' /\ ext m m' /\ owned m' d) /\ phi d <= phi e /\ hon m' /\ nn c0 m'.
Proof.
  intros Dm Hm Nm Oe Hv H. destruct (cd_spec_all e m cid m' d Dm Oe Hv H) as (D1 & X1 & O1 & _).
  destruct (pd_spec_all e c0 m cid m' d Dm Hm Nm Oe Hv H) as (P & H1 & N1). auto.
Qed.
