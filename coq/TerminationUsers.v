(* TerminationUsers.v -- consequences of the termination of the derivative exploration for its users:
   is_empty_re, get_string, compile, try_compile return (they do not run out of fuel and do not
   panic) for every owned term of a manager with an honest cache (no bound on the potential since
   the repair of D11); the exploration leaves the cache honest. *)
Require Import Base CharSet Partition PartitionSpec LoopRange Regex Inclusion Constructors Deriv Explore Automaton Compile Denote Sem.
Require Import Lang PartitionProofs LoopRangeProofs ManagerProofs ConstructorProofs RunProofs DerivProofs.
Require Import Termination TerminationPot TerminationNorm TerminationDeriv TerminationFin TerminationTotal TerminationProofs.
Require ExploreProofs EmptinessProofs CompileProofs.
Open Scope N_scope.

(* the exploration keeps the invariant of this development *)
Lemma iter_go_tinv c0 P f : forall m q s out m' l,
  iter_go f m q s out = Some (m', l) -> tinv c0 P m s -> ExploreProofs.bfs_inv q s out ->
  dwf m' /\ hon m' /\ nn c0 m'.
Proof.
  induction f as [|f IH]; intros m q s out m' l H T B; cbn [iter_go] in H; [discriminate|].
  destruct q as [|r q].
  - inversion H; subst. destruct T; auto.
  - destruct (push_all_derivs m r (pclass_ids (rcls r)) q s) as [[[m1 q1] s1]|] eqn:E; cbn [bind] in H; [|discriminate].
    assert (Hr : In r s) by (destruct B as [Es _]; rewrite Es, <- in_rev; apply in_or_app; right; left; reflexivity).
    apply (IH m1 q1 s1 (out ++ [r]) m' l H).
    + apply (push_all_tinv c0 P r _ m q s m1 q1 s1 E T (t_own _ _ _ _ T r Hr) (t_pot _ _ _ _ T r Hr)).
      intros cid Hc. apply pclass_ids_in. exact Hc.
    + eapply ExploreProofs.push_all_bfs_inv; eauto.
Qed.
Theorem iter_hon fuel m e m' l : dwf m -> hon m -> owned m e ->
  iter_derivatives fuel m e = Some (m', l) -> dwf m' /\ hon m'.
Proof.
  intros Dm Hm Oe H.
  destruct (iter_go_tinv (counter m) (phi e) fuel m [e] [e] [] m' l H (tinv_init m e Dm Hm Oe) (ExploreProofs.bfs_inv_init e))
    as (D & Hn & _). auto.
Qed.
(* every enumerated term has a potential at most that of the start term *)
Lemma iter_go_pot c0 P f : forall m q s out m' l,
  iter_go f m q s out = Some (m', l) -> tinv c0 P m s -> ExploreProofs.bfs_inv q s out ->
  forall t, In t l -> phi t <= P.
Proof.
  induction f as [|f IH]; intros m q s out m' l H T B; cbn [iter_go] in H; [discriminate|].
  destruct q as [|r q].
  - inversion H; subst. intros t Ht. apply (t_pot _ _ _ _ T). destruct B as [Es _]. rewrite Es, <- in_rev, app_nil_r. exact Ht.
  - destruct (push_all_derivs m r (pclass_ids (rcls r)) q s) as [[[m1 q1] s1]|] eqn:E; cbn [bind] in H; [|discriminate].
    assert (Hr : In r s) by (destruct B as [Es _]; rewrite Es, <- in_rev; apply in_or_app; right; left; reflexivity).
    apply (IH m1 q1 s1 (out ++ [r]) m' l H).
    + apply (push_all_tinv c0 P r _ m q s m1 q1 s1 E T (t_own _ _ _ _ T r Hr) (t_pot _ _ _ _ T r Hr)).
      intros cid Hc. apply pclass_ids_in. exact Hc.
    + eapply ExploreProofs.push_all_bfs_inv; eauto.
Qed.
Theorem iter_potential fuel m e m' l : dwf m -> hon m -> owned m e ->
  iter_derivatives fuel m e = Some (m', l) -> forall t, In t l -> phi t <= phi e.
Proof.
  intros Dm Hm Oe H.
  apply (iter_go_pot (counter m) (phi e) fuel m [e] [e] [] m' l H (tinv_init m e Dm Hm Oe) (ExploreProofs.bfs_inv_init e)).
Qed.

(* ---- the users ---- *)
Theorem is_empty_re_terminates m e : dwf m -> hon m -> owned m e ->
  exists fuel m' b, is_empty_re fuel m e = Some (m', b).
Proof.
  intros Dm Hm Oe. destruct (iter_terminates m e Dm Hm Oe) as (m1 & l & H).
  destruct (ExploreProofs.is_empty_re_iter _ m e m1 l H) as [m2 E]. eauto.
Qed.

Theorem get_string_terminates m e : dwf m -> hon m -> owned m e ->
  exists fuel m' res, get_string fuel m e = Some (m', res).
Proof.
  intros Dm Hm Oe. destruct (iter_terminates m e Dm Hm Oe) as (m1 & l & H).
  destruct (EmptinessProofs.iter_premises _ m e m1 l Dm Oe H) as (Hd & Hc & _).
  destruct (ExploreProofs.get_string_of_iter _ m e m1 l H Hd Hc) as (m2 & res & G & _). eauto.
Qed.

Theorem compile_terminates m e : dwf m -> hon m -> owned m e ->
  exists fuel m' A, compile_with_bound fuel m e None = Some (m', Some A).
Proof.
  intros Dm Hm Oe. destruct (iter_terminates m e Dm Hm Oe) as (m1 & l & H).
  destruct (CompileProofs.compile_returns_of_iter _ m e m1 l Dm Oe H) as [(A & E) _]. eauto.
Qed.

Theorem try_compile_terminates m e n : dwf m -> hon m -> owned m e ->
  exists fuel m' oa, compile_with_bound fuel m e (Some n) = Some (m', oa).
Proof.
  intros Dm Hm Oe. destruct (iter_terminates m e Dm Hm Oe) as (m1 & l & H).
  destruct (CompileProofs.compile_returns_of_iter _ m e m1 l Dm Oe H) as [_ G]. specialize (G n).
  destruct (Nat.leb (length l) n); [destruct G as [A E] | destruct G as [m2 E]]; eauto.
Qed.
