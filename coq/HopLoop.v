(* HopLoop.v -- C04, layer C part 3: Minimizer::new, refine_block_with_splitter, refine_with_splitter,
   pick_splitter and the refine loop of Minimizer.v implement the abstract algorithm of HopAbs.v:
   the representation invariant [minv] and the work-list invariant [hinv] hold at every iteration,
   the measure (#active splitters + alpha * #blocks still to come) decreases with every pick, so the
   fuel of the model suffices, and the loop ends in a stable partition that respects finality and is
   coarser than any congruence E contained in final-agreement. *)
Require Import Base CharSet Partition Automaton Minimizer HopPart HopAbs HopSplit.
From Coq Require Import Permutation.
Open Scope nat_scope.

Lemma pigeon (l : list nat) m : NoDup l -> (forall x, In x l -> x < m) -> length l <= m.
Proof.
  intros Hnd Hb. rewrite <- (seq_length m 0). apply NoDup_incl_length; [exact Hnd|].
  intros x Hx. apply in_seq. specialize (Hb x Hx). lia.
Qed.

Lemma nblk_le n p : bp_wf n p -> nblk p <= S n.
Proof.
  intros W. set (l := map (fun i => fst (blk p i)) (seq 1 (nblk p - 1))).
  assert (Hlen : length l = nblk p - 1) by (unfold l; rewrite map_length, seq_length; reflexivity).
  assert (Hnth : forall i, i < nblk p - 1 -> nth i l 0 = fst (blk p (S i))).
  { intros i Hi. unfold l. rewrite (nth_indep _ 0 (fst (blk p 0))) by (rewrite map_length, seq_length; exact Hi).
    rewrite (map_nth (fun i => fst (blk p i))). rewrite seq_nth by exact Hi. reflexivity. }
  assert (H : length l <= n).
  { apply pigeon.
    - apply (NoDup_nth l 0). intros i j Hi Hj He. rewrite Hlen in Hi, Hj. rewrite !Hnth in He by assumption.
      destruct (Nat.eq_dec i j) as [|Hne]; [assumption|exfalso].
      assert (Ri : 1 <= S i < nblk p) by lia. assert (Rj : 1 <= S j < nblk p) by lia.
      pose proof (bw_rng _ _ W _ Ri). pose proof (bw_rng _ _ W _ Rj).
      destruct (bw_disj _ _ W (S i) (S j) Ri Rj); lia.
    - intros x Hx. destruct (In_nth _ _ 0 Hx) as [i [Hi He]]. rewrite Hlen in Hi. rewrite Hnth in He by exact Hi.
      assert (Ri : 1 <= S i < nblk p) by lia. pose proof (bw_rng _ _ W _ Ri). lia. }
  lia.
Qed.

(* as many blocks as elements: every block is a singleton *)
Lemma discrete_blocks n p x y i : bp_wf n p -> S n <= nblk p -> in_blk p i x -> in_blk p i y -> x = y.
Proof.
  intros W Hk Hx Hy. pose proof (nblk_le n p W) as Hle.
  set (rep := fun i => nth (fst (blk p i)) (bp_seg p) 0).
  set (lst := map rep (seq 1 n)).
  assert (Hlen : length lst = n) by (unfold lst; rewrite map_length, seq_length; reflexivity).
  assert (Hnth : forall i, i < n -> nth i lst 0 = rep (S i)).
  { intros i0 Hi. unfold lst. rewrite (nth_indep _ 0 (rep 0)) by (rewrite map_length, seq_length; exact Hi).
    rewrite (map_nth rep). rewrite seq_nth by exact Hi. reflexivity. }
  assert (Hrep : forall i0, 1 <= i0 < nblk p -> in_blk p i0 (rep i0)) by (intros; apply (blk_first_in n); assumption).
  assert (Hnd : NoDup lst).
  { apply (NoDup_nth lst 0). intros a b Ha Hb He. rewrite Hlen in Ha, Hb. rewrite !Hnth in He by assumption.
    assert (S a = S b); [|lia]. eapply (in_blk_uniq n p); [exact W|apply Hrep; lia|rewrite He; apply Hrep; lia]. }
  assert (Hall : forall z, z < n -> In z lst).
  { intros z Hz. apply (NoDup_length_incl Hnd (l' := seq 0 n)).
    - rewrite seq_length, Hlen. lia.
    - intros w Hw. apply in_seq. destruct (In_nth _ _ 0 Hw) as [a [Ha He]]. rewrite Hlen in Ha.
      rewrite Hnth in He by exact Ha. subst w. split; [lia|]. cbn [plus]. eapply (in_blk_lt n p); [exact W|apply Hrep; lia].
    - apply in_seq. lia. }
  assert (Hone : forall z, in_blk p i z -> z = rep i).
  { intros z Hz. pose proof (in_blk_lt _ _ _ _ W Hz) as Hlt. destruct (In_nth _ _ 0 (Hall z Hlt)) as [a [Ha He]].
    rewrite Hlen in Ha. rewrite Hnth in He by exact Ha. subst z.
    assert (S a = i); [|subst i; reflexivity]. eapply (in_blk_uniq n p); [exact W|apply Hrep; lia|exact Hz]. }
  rewrite (Hone x Hx), (Hone y Hy). reflexivity.
Qed.


(* ------------------------------------------------------------------ FastSet (insertion order, swap-remove) *)
Lemma existsb_eqb_in x l : existsb (Nat.eqb x) l = true <-> In x l.
Proof.
  rewrite existsb_exists. split.
  - intros [y [Hy He]]. apply Nat.eqb_eq in He. subst. exact Hy.
  - intros H. exists x. split; [exact H|apply Nat.eqb_refl].
Qed.

Lemma fs_insert_spec s x : NoDup s ->
  NoDup (fs_insert s x) /\ forall d, In d (fs_insert s x) <-> In d s \/ d = x.
Proof.
  intros Hnd. unfold fs_insert. destruct (existsb (Nat.eqb x) s) eqn:He.
  - apply existsb_eqb_in in He. split; [exact Hnd|]. intros d. split; [auto|]. intros [H| ->]; assumption.
  - assert (Hn : ~ In x s) by (intros H; apply existsb_eqb_in in H; congruence).
    split.
    + eapply Permutation_NoDup; [apply Permutation_cons_append|]. constructor; assumption.
    + intros d. rewrite in_app_iff. cbn [In]. split; [intros [H|[H|[]]]; auto|intros [H|H]; auto].
Qed.

Lemma index_of_spec x : forall l k,
  match index_of x l k with
  | Some i => k <= i /\ i - k < length l /\ nth (i - k) l 0 = x
  | None => ~ In x l
  end.
Proof.
  induction l as [|y t IH]; intros k; cbn [index_of]; [intros []|].
  destruct (Nat.eqb x y) eqn:He.
  - apply Nat.eqb_eq in He. subst. rewrite Nat.sub_diag. cbn [length nth]. split; [lia|]. split; [lia|reflexivity].
  - apply Nat.eqb_neq in He. specialize (IH (S k)). destruct (index_of x t (S k)) as [i|].
    + destruct IH as [H1 [H2 H3]]. split; [lia|]. cbn [length]. split; [lia|].
      replace (i - k) with (S (i - S k)) by lia. exact H3.
    + intros [H|H]; [congruence|contradiction].
Qed.

Lemma removelast_app1 {A} (l : list A) x : removelast (l ++ [x]) = l.
Proof. rewrite removelast_app by discriminate. cbn [removelast]. apply app_nil_r. Qed.

Lemma fs_remove_spec s x : NoDup s ->
  NoDup (fs_remove s x) /\ forall d, In d (fs_remove s x) <-> (In d s /\ d <> x).
Proof.
  intros Hnd. unfold fs_remove. pose proof (index_of_spec x s 0) as Hi.
  destruct (index_of x s 0) as [i|].
  - destruct Hi as [_ [Hlt Hx]]. rewrite Nat.sub_0_r in *.
    destruct (nth_split s 0 Hlt) as [A [B [Hs HA]]]. rewrite Hx in Hs.
    assert (HxA : ~ In x A /\ ~ In x B).
    { rewrite Hs in Hnd. apply NoDup_remove_2 in Hnd. rewrite in_app_iff in Hnd. tauto. }
    assert (HndAB : NoDup (A ++ B)) by (rewrite Hs in Hnd; apply NoDup_remove_1 in Hnd; exact Hnd).
    destruct (exists_last (l := x :: B)) as [B' [lst HB]]; [discriminate|].
    assert (Hlast : nth (length s - 1) s 0 = lst).
    { rewrite Hs. replace (A ++ x :: B) with (A ++ B' ++ [lst]) by (rewrite HB; reflexivity).
      rewrite app_assoc. rewrite app_length. cbn [length]. replace (length (A ++ B') + 1 - 1) with (length (A ++ B')) by lia.
      apply hp_nth_mid. }
    rewrite Hlast. clear Hlast.
    destruct B' as [|x' B''].
    + (* x is the last element *)
      cbn [app] in HB. inversion HB; subst lst. destruct B; [|discriminate]. clear HB.
      rewrite Hs. rewrite <- HA. replace (length A) with (length A + 0) by lia. rewrite hp_upd_app_r. cbn [upd].
      rewrite removelast_app1. rewrite app_nil_r in HndAB. split; [exact HndAB|].
      intros d. rewrite in_app_iff. cbn [In]. split.
      * intros H. split; [auto|]. intros ->. tauto.
      * intros [[H|[H|[]]] Hne]; [exact H|congruence].
    + cbn [app] in HB. inversion HB as [[Hx' HB2]]. subst x'. clear HB.
      rewrite Hs. rewrite <- HA. replace (length A) with (length A + 0) by lia. rewrite hp_upd_app_r. cbn [upd].
      rewrite HB2. rewrite app_comm_cons, app_assoc, removelast_app1.
      assert (Hperm : Permutation (A ++ lst :: B'') (A ++ B)).
      { rewrite HB2. apply Permutation_app_head. apply Permutation_cons_append. }
      split; [eapply Permutation_NoDup; [apply Permutation_sym; exact Hperm|exact HndAB]|].
      intros d. rewrite <- HB2. split.
      * intros H. apply (Permutation_in _ Hperm) in H. rewrite in_app_iff in *. cbn [In]. split; [tauto|].
        intros ->. tauto.
      * intros [H Hne]. apply (Permutation_in _ (Permutation_sym Hperm)). rewrite in_app_iff in *. cbn [In] in H.
        destruct H as [H|[H|H]]; [auto|congruence|auto].
  - split; [exact Hnd|]. intros d. split; [|tauto]. intros H. split; [exact H|]. intros ->. contradiction.
Qed.

Section Loop.
  Context (n alpha : nat) (delta : nat -> nat -> nat) (isf : nat -> bool) (E : nat -> nat -> Prop).

  Definition bidm (m : mini) : nat -> nat := fp_block_id (mn_main m).
  Definition km (m : mini) : nat := nblk (fp_base (mn_main m)).
  Definition actm (m : mini) (b c : nat) : Prop := acts (mn_split m) b c.
  Definition meas (m : mini) : nat := nact (mn_split m) + alpha * (S n - km m).

  Record env_ok : Prop := {
    e_n : 1 <= n;
    e_cl : closed_delta n alpha delta;
    e_fin : forall x y, x < n -> y < n -> E x y -> isf x = isf y;
    e_step : forall x y c, x < n -> y < n -> c < alpha -> E x y -> E (delta x c) (delta y c) }.

  Record minv (m : mini) : Prop := {
    mi_main : fp_wf n (mn_main m);
    mi_sinv : sinv n alpha delta (bidm m) (km m) (mn_pred m) (mn_split m);
    mi_coarse : coarse n E (bidm m);
    mi_meas : meas m <= alpha * n }.

  Definition set_main (m : mini) (main' : fpart) : mini :=
    {| mn_main := main'; mn_pred := mn_pred m; mn_split := mn_split m; mn_active_block := mn_active_block m |}.

  Lemma minv_bid_range m x : minv m -> x < n -> 1 <= bidm m x < km m.
  Proof. intros I Hx. apply (fp_bid_range n); [apply (mi_main _ I)|exact Hx]. Qed.

  Lemma km_le m : minv m -> km m <= S n.
  Proof. intros I. apply nblk_le. apply (fw_base _ _ (mi_main _ I)). Qed.

  Lemma list_len_alpha m b : minv m -> length (sl_list (spl (mn_split m) b)) <= alpha.
  Proof.
    intros I. rewrite <- (map_length fst). apply pigeon; [apply (si_nodup _ _ _ _ _ _ _ (mi_sinv _ I))|].
    intros c Hc. apply in_map_fst in Hc. destruct Hc as [cls Hc].
    destruct (si_ent _ _ _ _ _ _ _ (mi_sinv _ I) b c cls Hc) as [_ [H _]]. exact H.
  Qed.

  (* refine_block left the block alone *)
  Lemma nosplit_case m main' :
    minv m -> fp_wf n main' -> nblk (fp_base main') = km m -> fp_bid main' = fp_bid (mn_main m) ->
    minv (set_main m main') /\ (forall x, bidm (set_main m main') x = bidm m x) /\ km (set_main m main') = km m.
  Proof.
    intros I W Hk Hb.
    assert (Hbid : forall x, bidm (set_main m main') x = bidm m x).
    { intros x. unfold bidm, set_main, fp_block_id. cbn [mn_main]. rewrite Hb. reflexivity. }
    assert (Hkm : km (set_main m main') = km m) by exact Hk.
    split; [|split; [exact Hbid|exact Hkm]].
    constructor.
    - exact W.
    - rewrite Hkm. cbn [set_main mn_pred mn_split]. destruct (mi_sinv _ I) as [S1 S2 S3 S4 S5 S6].
      constructor; auto.
      + intros b c cls He. destruct (S3 b c cls He) as [H1 [H2 [H3 H4]]]. split; [exact H1|]. split; [exact H2|].
        split; [exact H3|]. intros x. rewrite Hbid. apply H4.
      + intros x c Hx Hc. rewrite Hbid. apply S5; assumption.
    - intros x y Hx Hy He. rewrite !Hbid. apply (mi_coarse _ I); assumption.
    - unfold meas. rewrite Hkm. apply (mi_meas _ I).
  Qed.

  (* refine_block split block b; update_splitters repairs the link *)
  Lemma split_case m b pr main' :
    env_ok -> minv m -> 1 <= b < km m -> fp_wf n main' ->
    nblk (fp_base main') = S (km m) ->
    (forall x, x < n -> fp_block_id main' x =
        if Nat.eqb (bidm m x) b && negb (pr x) then km m else bidm m x) ->
    (forall x y, x < n -> y < n -> E x y -> pr x = pr y) ->
    let m'' := update_splitters delta (set_main m main') b (km m) in
    minv m'' /\ km m'' = S (km m) /\ mn_main m'' = main' /\ meas m'' <= meas m /\
    asplit n alpha delta (bidm m) (actm m) (km m) b pr (bidm m'') (actm m'').
  Proof.
    intros Env I Hb W Hk Hbid Hpr m''.
    assert (Hsp : bid_split n (bidm m) (fp_block_id (mn_main (set_main m main'))) b (km m)).
    { intros y Hy. cbn [set_main mn_main]. rewrite (Hbid y Hy). pose proof (minv_bid_range m y I Hy) as Hr.
      destruct (Nat.eqb (bidm m y) b) eqn:He; cbn [andb].
      - apply Nat.eqb_eq in He. left. split; [exact He|]. destruct (pr y); cbn [negb]; [left; exact He|right; reflexivity].
      - apply Nat.eqb_neq in He. right. split; [exact He|]. split; [reflexivity|lia]. }
    destruct (update_splitters_spec n alpha delta (set_main m main') (bidm m) b (km m) (km m)
                (e_cl Env) Hb eq_refl Hsp (mi_sinv _ I)) as [Hmain [_ [HS [Hoth [Hact [Hina Hcnt]]]]]].
    fold m'' in Hmain, HS, Hoth, Hact, Hina, Hcnt. cbn [set_main mn_main mn_split] in *.
    assert (Hbm : forall x, bidm m'' x = fp_block_id main' x) by (intros x; unfold bidm; rewrite Hmain; reflexivity).
    assert (Hkm : km m'' = S (km m)) by (unfold km; rewrite Hmain; exact Hk).
    assert (HA : asplit n alpha delta (bidm m) (actm m) (km m) b pr (bidm m'') (actm m'')).
    { constructor.
      - intros x Hx. rewrite Hbm. apply Hbid. exact Hx.
      - intros D c H1 H2 Ha. unfold actm, acts in *. rewrite Hoth by assumption. exact Ha.
      - intros c x Ha Hx Hc Hcase. rewrite Hbm. apply Hact; auto.
        rewrite Hbm in Hcase. destruct (Hsp _ (e_cl Env x c Hx Hc)) as [[H _]|[H1 [H2 H3]]]; [exact H|].
        cbn [set_main mn_main] in H2, H3. destruct Hcase; congruence.
      - intros c x y Hx Hy Hc H1 H2. rewrite Hbm in H1, H2. apply (Hina c x y); assumption. }
    assert (HM : meas m'' <= meas m).
    { unfold meas. rewrite Hkm. pose proof (list_len_alpha m b I) as HL.
      assert (Hle : S (km m) <= S n).
      { rewrite <- Hk. apply nblk_le. apply (fw_base _ _ W). }
      replace (S n - km m) with (S (S n - S (km m))) by lia. nia. }
    split; [|split; [exact Hkm|split; [exact Hmain|split; [exact HM|exact HA]]]].
    constructor.
    - rewrite Hmain. exact W.
    - rewrite Hkm. replace (bidm m'') with (fp_block_id main'); [exact HS|]. unfold bidm. rewrite Hmain. reflexivity.
    - eapply coarse_split; [exact HA|apply (mi_coarse _ I)|exact Hpr].
    - pose proof (mi_meas _ I). lia.
  Qed.

  (* ---------------------------------------------------------------- refine_block_with_splitter *)
  Definition spred (m : mini) (a C : nat) (y : nat) : bool := Nat.eqb (bidm m (delta y a)) C.

  Lemma rbws_unfold m a C b :
    refine_block_with_splitter delta m a C b =
    let r := fp_refine (mn_main m) b (spred m a C) in
    if Nat.eqb (snd (snd r)) 0 then set_main m (fst r)
    else update_splitters delta (set_main m (fst r)) (fst (snd r)) (snd (snd r)).
  Proof.
    unfold refine_block_with_splitter. cbv zeta.
    change (fun y : nat => Nat.eqb (fp_block_id (mn_main m) (delta y a)) C) with (spred m a C).
    destruct (fp_refine (mn_main m) b (spred m a C)) as [main' [i j]]. reflexivity.
  Qed.

  Fixpoint c_last (C : nat) (l : list nat) : Prop :=
    match l with [] => True | b :: t => (b = C -> t = []) /\ c_last C t end.

  Definition todo_ok (m : mini) (a C : nat) (todo : list nat) : Prop :=
    NoDup todo /\ c_last C todo /\
    forall d, In d todo -> 1 <= d < km m /\ exists x, x < n /\ bidm m x = d /\ bidm m (delta x a) = C.

  Lemma spred_compat m a C : env_ok -> minv m -> a < alpha ->
    forall x y, x < n -> y < n -> E x y -> spred m a C x = spred m a C y.
  Proof.
    intros Env I Ha x y Hx Hy He. unfold spred.
    rewrite (mi_coarse _ I (delta x a) (delta y a)); auto; try (apply (e_cl Env); assumption).
    apply (e_step Env); assumption.
  Qed.

  Lemma rbws_step m a C b todo :
    env_ok -> minv m -> respects n isf (bidm m) -> a < alpha -> 1 <= C < km m ->
    todo_ok m a C (b :: todo) -> hinv n alpha delta (bidm m) (actm m) (b :: todo) a C ->
    let m1 := refine_block_with_splitter delta m a C b in
    minv m1 /\ respects n isf (bidm m1) /\ 1 <= C < km m1 /\ todo_ok m1 a C todo /\
    hinv n alpha delta (bidm m1) (actm m1) todo a C /\ meas m1 <= meas m.
  Proof.
    intros Env I HR Ha HC [Hnd [Hcl Hw]] HI m1. unfold m1. rewrite rbws_unfold. cbv zeta.
    destruct (Hw b (or_introl eq_refl)) as [Hb [xb [Hxb [Hbxb HCxb]]]].
    destruct (fp_refine_spec n (mn_main m) b (spred m a C) (mi_main _ I) Hb) as [W' R].
    destruct (fp_refine (mn_main m) b (spred m a C)) as [main' [i j]]. cbn [fst snd] in *.
    assert (Hnd' : NoDup todo) by (inversion Hnd; assumption).
    assert (Hnotin : ~ In b todo) by (inversion Hnd; assumption).
    destruct Hcl as [HbC Hcl'].
    inversion R as [Hall Hk Hbid E1|Hnone Hk Hbid E1|Hk Hbid Hex1 Hex2 E1]; subst i j.
    - (* all elements satisfy the predicate: no change *)
      cbn [Nat.eqb].
      destruct (nosplit_case m main' I W' Hk Hbid) as [I' [Hb' Hk']].
      split; [exact I'|]. split; [|split; [|split; [|split]]].
      + intros x y Hx Hy He. rewrite !Hb' in He. apply HR; assumption.
      + rewrite Hk'. exact HC.
      + split; [exact Hnd'|]. split; [exact Hcl'|]. intros d Hd. destruct (Hw d (or_intror Hd)) as [H1 [x [H2 [H3 H4]]]].
        rewrite Hk'. split; [exact H1|]. exists x. rewrite !Hb'. auto.
      + apply (hinv_ext n alpha delta (bidm m) (actm m)); [exact Hb'|intros ? ? H; exact H|].
        apply (hinv_drop n alpha delta _ _ _ _ _ b HI).
        intros x y Hx Hy Hbx Hby [[H1 H2]|[H1 H2]].
        * pose proof (Hall y Hy Hby) as Hp. unfold spred in Hp. apply Nat.eqb_eq in Hp. contradiction.
        * pose proof (Hall x Hx Hbx) as Hp. unfold spred in Hp. apply Nat.eqb_eq in Hp. contradiction.
      + unfold meas. rewrite Hk'. cbn [set_main mn_split]. lia.
    - (* impossible: the block contains a predecessor of C *)
      exfalso. pose proof (Hnone xb Hxb Hbxb) as Hp. unfold spred in Hp. apply Nat.eqb_neq in Hp. contradiction.
    - (* the block is split *)
      replace (Nat.eqb (nblk (fp_base (mn_main m))) 0) with false by (symmetry; apply Nat.eqb_neq; unfold km in Hb; lia).
      fold (km m).
      destruct (split_case m b (spred m a C) main' Env I Hb W' Hk Hbid (spred_compat m a C Env I Ha))
        as [I' [Hk' [Hmain' [HM HA]]]].
      set (m2 := update_splitters delta (set_main m main') b (km m)) in *.
      assert (Hfresh : forall x, x < n -> bidm m x <> km m).
      { intros x Hx. pose proof (minv_bid_range m x I Hx). lia. }
      split; [exact I'|]. split; [|split; [|split; [|split]]].
      + eapply respects_split; eauto.
      + lia.
      + split; [exact Hnd'|]. split; [exact Hcl'|]. intros d Hd. destruct (Hw d (or_intror Hd)) as [H1 [x [H2 [H3 H4]]]].
        split; [lia|]. exists x. split; [exact H2|].
        assert (Hdb : d <> b) by (intros ->; contradiction).
        assert (HCb : C <> b).
        { intros ->. specialize (HbC eq_refl). subst todo. destruct Hd. }
        rewrite (as_bid _ _ _ _ _ _ _ _ _ _ HA x H2), (as_bid _ _ _ _ _ _ _ _ _ _ HA _ (e_cl Env x a H2 Ha)).
        rewrite H3, H4.
        replace (Nat.eqb d b) with false by (symmetry; apply Nat.eqb_neq; exact Hdb).
        replace (Nat.eqb C b) with false by (symmetry; apply Nat.eqb_neq; exact HCb). auto.
      + eapply (hinv_split n alpha delta (bidm m) (actm m) (b :: todo) a C (km m) b (spred m a C)); eauto.
        * apply (e_cl Env).
        * intros x y Hx Hy Hbx Hby Hp [[H1 H2]|[H1 H2]]; unfold spred in Hp.
          -- apply Nat.eqb_eq in H1. apply Nat.eqb_neq in H2. congruence.
          -- apply Nat.eqb_neq in H1. apply Nat.eqb_eq in H2. congruence.
        * intros d [<-|Hd] Hne; [contradiction|exact Hd].
        * destruct (Nat.eq_dec b C) as [He|Hne]; [left; auto|right; split; [exact Hne|lia]].
      + exact HM.
  Qed.

  Lemma rbws_fold a C : env_ok -> a < alpha -> forall todo m,
    minv m -> respects n isf (bidm m) -> 1 <= C < km m ->
    todo_ok m a C todo -> hinv n alpha delta (bidm m) (actm m) todo a C ->
    let m1 := fold_left (fun m b => refine_block_with_splitter delta m a C b) todo m in
    minv m1 /\ respects n isf (bidm m1) /\ hinv n alpha delta (bidm m1) (actm m1) [] a C /\ meas m1 <= meas m.
  Proof.
    intros Env Ha. induction todo as [|b todo IH]; intros m I HR HC HT HI; cbn [fold_left].
    - split; [exact I|]. split; [exact HR|]. split; [exact HI|lia].
    - destruct (rbws_step m a C b todo Env I HR Ha HC HT HI) as [I1 [HR1 [HC1 [HT1 [HI1 HM1]]]]].
      destruct (IH _ I1 HR1 HC1 HT1 HI1) as [I2 [HR2 [HI2 HM2]]].
      split; [exact I2|]. split; [exact HR2|]. split; [exact HI2|lia].
  Qed.

  (* ---------------------------------------------------------------- refine_with_splitter *)
  Definition cand (m : mini) (elems s0 : list nat) : list nat :=
    fold_left (fun s x => let b := fp_block_id (mn_main m) x in
                          if Nat.ltb 1 (bp_block_size (fp_base (mn_main m)) b) then fs_insert s b else s) elems s0.

  Lemma cand_spec m : forall elems s0, NoDup s0 ->
    NoDup (cand m elems s0) /\
    forall d, In d (cand m elems s0) <->
      In d s0 \/ exists x, In x elems /\ bidm m x = d /\ 1 < bp_block_size (fp_base (mn_main m)) d.
  Proof.
    induction elems as [|x elems IH]; intros s0 Hnd; cbn [cand fold_left].
    - split; [exact Hnd|]. intros d. split; [auto|]. intros [H|[x [[] _]]]. exact H.
    - fold (cand m elems). cbv zeta.
      destruct (Nat.ltb 1 (bp_block_size (fp_base (mn_main m)) (fp_block_id (mn_main m) x))) eqn:Hs.
      + apply Nat.ltb_lt in Hs. destruct (fs_insert_spec s0 (fp_block_id (mn_main m) x) Hnd) as [Hnd1 Hin1].
        destruct (IH _ Hnd1) as [Hnd2 Hin2]. split; [exact Hnd2|]. intros d. rewrite Hin2, Hin1. split.
        * intros [[H|H]|[y [H1 H2]]]; [auto| |right; exists y; split; [right; exact H1|exact H2]].
          right. exists x. subst d. split; [left; reflexivity|]. split; [reflexivity|exact Hs].
        * intros [H|[y [[<-|H1] [H2 H3]]]]; [auto| |right; exists y; auto].
          left. right. symmetry. exact H2.
      + apply Nat.ltb_ge in Hs. destruct (IH _ Hnd) as [Hnd2 Hin2]. split; [exact Hnd2|]. intros d. rewrite Hin2. split.
        * intros [H|[y [H1 H2]]]; [auto|right; exists y; split; [right; exact H1|exact H2]].
        * intros [H|[y [[<-|H1] [H2 H3]]]]; [auto| |right; exists y; auto].
          exfalso. unfold bidm in H2. rewrite H2 in Hs. lia.
  Qed.

  Lemma rws_unfold m C a cls :
    refine_with_splitter delta m C a cls =
    let set0 := cand m (bp_elements (pc (mn_pred m) a) cls) [] in
    let self := existsb (Nat.eqb C) set0 in
    fold_left (fun m b => refine_block_with_splitter delta m a C b)
              ((if self then fs_remove set0 C else set0) ++ (if self then [C] else [])) m.
  Proof.
    unfold refine_with_splitter. cbv zeta. fold (pc (mn_pred m) a).
    change (fold_left _ (bp_elements (pc (mn_pred m) a) cls) []) with (cand m (bp_elements (pc (mn_pred m) a) cls) []).
    destruct (existsb (Nat.eqb C) (cand m (bp_elements (pc (mn_pred m) a) cls) [])).
    - rewrite fold_left_app. reflexivity.
    - rewrite app_nil_r. reflexivity.
  Qed.

  Lemma c_last_app C : forall l, (forall d, In d l -> d <> C) -> c_last C l /\ c_last C (l ++ [C]).
  Proof.
    induction l as [|b l IH]; intros H; cbn [c_last app].
    - split; [exact I|]. split; [reflexivity|exact I].
    - destruct IH as [H1 H2]; [intros d Hd; apply H; right; exact Hd|].
      assert (Hb : b <> C) by (apply H; left; reflexivity).
      split; (split; [intros; contradiction|assumption]).
  Qed.

  Definition rws_todo (m : mini) (C a cls : nat) : list nat :=
    let set0 := cand m (bp_elements (pc (mn_pred m) a) cls) [] in
    (if existsb (Nat.eqb C) set0 then fs_remove set0 C else set0) ++ (if existsb (Nat.eqb C) set0 then [C] else []).

  Lemma rws_setup m C a cls :
    env_ok -> minv m -> ent (mn_split m) C a cls ->
    1 <= C < km m /\ a < alpha /\ todo_ok m a C (rws_todo m C a cls) /\
    (forall x y, x < n -> y < n -> bidm m x = bidm m y ->
                 bidm m (delta x a) = C -> bidm m (delta y a) <> C -> In (bidm m x) (rws_todo m C a cls)).
  Proof.
    intros Env I He. unfold rws_todo. cbv zeta.
    destruct (si_ent _ _ _ _ _ _ _ (mi_sinv _ I) C a cls He) as [HC [Ha [Hcls Hclass]]].
    destruct (cand_spec m (bp_elements (pc (mn_pred m) a) cls) [] (NoDup_nil _)) as [Hnd0 Hin0].
    set (set0 := cand m (bp_elements (pc (mn_pred m) a) cls) []) in *.
    assert (Hin0' : forall d, In d set0 <-> exists x, x < n /\ bidm m (delta x a) = C /\ bidm m x = d /\
                                             1 < bp_block_size (fp_base (mn_main m)) d).
    { intros d. rewrite Hin0. split.
      - intros [[]|[x [H1 [H2 H3]]]]. apply Hclass in H1. exists x. tauto.
      - intros [x [H1 [H2 [H3 H4]]]]. right. exists x. split; [apply Hclass; auto|auto]. }
    set (todo := (if existsb (Nat.eqb C) set0 then fs_remove set0 C else set0) ++
                 (if existsb (Nat.eqb C) set0 then [C] else [])).
    assert (Htodo_in : forall d, In d todo <-> In d set0).
    { intros d. unfold todo. destruct (existsb (Nat.eqb C) set0) eqn:Hs.
      - apply existsb_eqb_in in Hs. destruct (fs_remove_spec set0 C Hnd0) as [_ Hr]. rewrite in_app_iff, Hr. cbn [In].
        split; [intros [[H _]|[<-|[]]]; auto|]. intros H. destruct (Nat.eq_dec d C) as [->|Hne]; auto.
      - rewrite app_nil_r. reflexivity. }
    split; [exact HC|]. split; [exact Ha|]. split.
    { split; [|split].
      - unfold todo. destruct (existsb (Nat.eqb C) set0) eqn:Hs.
        + destruct (fs_remove_spec set0 C Hnd0) as [Hr1 Hr2].
          eapply Permutation_NoDup; [apply Permutation_cons_append|]. constructor; [|exact Hr1].
          intros H. apply Hr2 in H. destruct H as [_ H]. congruence.
        + rewrite app_nil_r. exact Hnd0.
      - unfold todo. destruct (existsb (Nat.eqb C) set0) eqn:Hs.
        + apply c_last_app. intros d Hd. apply (fs_remove_spec set0 C Hnd0) in Hd. tauto.
        + rewrite app_nil_r. apply c_last_app. intros d Hd ->. apply existsb_eqb_in in Hd. congruence.
      - intros d Hd. apply Htodo_in, Hin0' in Hd. destruct Hd as [x [H1 [H2 [H3 H4]]]].
        split; [rewrite <- H3; apply minv_bid_range; assumption|]. exists x. auto. }
    intros x y Hx Hy Hb HxC HyC. apply Htodo_in, Hin0'. exists x.
    split; [exact Hx|]. split; [exact HxC|]. split; [reflexivity|].
    assert (Hne : x <> y) by (intros ->; contradiction).
    eapply (blk_two_size n); [apply (fw_base _ _ (mi_main _ I))| | |exact Hne].
    - apply (fw_bid _ _ (mi_main _ I)). exact Hx.
    - rewrite Hb. apply (fw_bid _ _ (mi_main _ I)). exact Hy.
  Qed.

  Lemma rws_unfold2 m C a cls :
    refine_with_splitter delta m C a cls =
    fold_left (fun m b => refine_block_with_splitter delta m a C b) (rws_todo m C a cls) m.
  Proof. rewrite rws_unfold. reflexivity. Qed.

  Lemma rws_spec m C a cls :
    env_ok -> minv m -> respects n isf (bidm m) -> ent (mn_split m) C a cls ->
    (forall todo, (forall x y, x < n -> y < n -> bidm m x = bidm m y ->
                     bidm m (delta x a) = C -> bidm m (delta y a) <> C -> In (bidm m x) todo) ->
                  hinv n alpha delta (bidm m) (actm m) todo a C) ->
    let m1 := refine_with_splitter delta m C a cls in
    minv m1 /\ respects n isf (bidm m1) /\ hinv n alpha delta (bidm m1) (actm m1) [] a C /\ meas m1 <= meas m.
  Proof.
    intros Env I HR He Hpick m1. unfold m1. rewrite rws_unfold2.
    destruct (rws_setup m C a cls Env I He) as [HC [Ha [HT Hcov]]].
    apply (rbws_fold a C Env Ha _ m I HR HC HT). apply Hpick. exact Hcov.
  Qed.

  (* ---------------------------------------------------------------- pick_splitter *)
  Definition scan_has (has : nat -> bool) : list nat -> option nat :=
    fix scan (bs : list nat) := match bs with [] => None | b :: t => if has b then Some b else scan t end.

  Lemma scan_has_spec has : forall bs,
    match scan_has has bs with Some b => has b = true | None => forall b, In b bs -> has b = false end.
  Proof.
    induction bs as [|b t IH]; cbn [scan_has]; [intros b []|].
    destruct (has b) eqn:Hb; [exact Hb|]. fold (scan_has has t).
    destruct (scan_has has t); [exact IH|]. intros d [<-|Hd]; auto.
  Qed.

  Lemma pick_unfold m :
    pick_splitter m =
    let l := mn_split m in
    let has := fun b => Nat.ltb 0 (sl_active (nth b l sl_empty)) in
    match (if has (mn_active_block m) then Some (mn_active_block m) else scan_has has (seq 0 (length l))) with
    | None => None
    | Some b =>
      let sl := nth b l sl_empty in
      let na := sl_active sl - 1 in
      let '(c, cls) := nth na (sl_list sl) (0,0) in
      Some ({| mn_main := mn_main m; mn_pred := mn_pred m;
               mn_split := upd l b {| sl_active := na; sl_list := sl_list sl |}; mn_active_block := b |},
            (b, c, cls))
    end.
  Proof. reflexivity. Qed.

  Lemma pick_none m : pick_splitter m = None -> forall d c, ~ actm m d c.
  Proof.
    rewrite pick_unfold. cbv zeta. intros H d c [cls Hin].
    set (has := fun b => Nat.ltb 0 (sl_active (nth b (mn_split m) sl_empty))) in *.
    assert (Hd : has d = false).
    { destruct (has (mn_active_block m)) eqn:Hab.
      - destruct (nth (sl_active (nth (mn_active_block m) (mn_split m) sl_empty) - 1)
                      (sl_list (nth (mn_active_block m) (mn_split m) sl_empty)) (0,0)); discriminate.
      - pose proof (scan_has_spec has (seq 0 (length (mn_split m)))) as Hs.
        destruct (scan_has has (seq 0 (length (mn_split m)))) as [b|].
        + destruct (nth (sl_active (nth b (mn_split m) sl_empty) - 1) (sl_list (nth b (mn_split m) sl_empty)) (0,0)); discriminate.
        + destruct (le_lt_dec (length (mn_split m)) d) as [Hge|Hlt].
          * unfold has. rewrite nth_overflow by exact Hge. reflexivity.
          * apply Hs. apply in_seq. lia. }
    unfold has in Hd. apply Nat.ltb_ge in Hd. unfold spl in Hin.
    replace (sl_active (nth d (mn_split m) sl_empty)) with 0 in Hin by lia. destruct Hin.
  Qed.

  Lemma firstn_S_nth {A} (d : A) : forall l k, k < length l -> firstn (S k) l = firstn k l ++ [nth k l d].
  Proof.
    induction l as [|x l IH]; intros [|k] H; cbn [length] in H; try lia; [reflexivity|].
    cbn [firstn nth app]. f_equal. apply IH. lia.
  Qed.

  Lemma sinv_same_lists bid k pred sp sp' :
    (forall d, sl_list (spl sp' d) = sl_list (spl sp d)) -> (forall d, sl_ok (spl sp' d)) ->
    sinv n alpha delta bid k pred sp -> sinv n alpha delta bid k pred sp'.
  Proof.
    intros HL Hok [S1 S2 S3 S4 S5 S6]. constructor; auto.
    - intros b c cls He. apply S3. unfold ent in *. rewrite <- HL. exact He.
    - intros b. rewrite HL. apply S4.
    - intros x c Hx Hc. destruct (S5 x c Hx Hc) as [cls He]. exists cls. unfold ent in *. rewrite HL. exact He.
  Qed.

  Lemma pick_some m m' b c cls :
    minv m -> pick_splitter m = Some (m', (b, c, cls)) ->
    mn_main m' = mn_main m /\ ent (mn_split m') b c cls /\ minv m' /\ S (meas m') = meas m /\
    (forall D c', actm m D c' -> actm m' D c' \/ (D = b /\ c' = c)).
  Proof.
    intros I. rewrite pick_unfold. cbv zeta.
    set (l := mn_split m). set (has := fun b => Nat.ltb 0 (sl_active (nth b l sl_empty))).
    assert (Hob : forall b0, (if has (mn_active_block m) then Some (mn_active_block m)
                              else scan_has has (seq 0 (length l))) = Some b0 -> has b0 = true).
    { intros b0. destruct (has (mn_active_block m)) eqn:Hab.
      - intros H; inversion H; subst; exact Hab.
      - pose proof (scan_has_spec has (seq 0 (length l))) as Hs. intros H. rewrite H in Hs. exact Hs. }
    destruct (if has (mn_active_block m) then Some (mn_active_block m) else scan_has has (seq 0 (length l))) as [b0|];
      [|discriminate].
    specialize (Hob b0 eq_refl). unfold has in Hob. apply Nat.ltb_lt in Hob.
    set (sl := nth b0 l sl_empty) in *. set (L := sl_list sl). set (na := sl_active sl - 1).
    destruct (nth na L (0,0)) as [c0 cls0] eqn:Hnth. intros H. inversion H; subst m' b c cls. clear H.
    cbn [mn_main mn_split].
    assert (Hb0 : b0 < length l).
    { destruct (le_lt_dec (length l) b0) as [Hge|Hlt]; [|exact Hlt]. unfold sl in Hob. rewrite nth_overflow in Hob by exact Hge.
      simpl in Hob. lia. }
    pose proof (si_ok _ _ _ _ _ _ _ (mi_sinv _ I) b0) as Hok. unfold sl_ok, spl in Hok. fold l in Hok. fold sl in Hok. fold L in Hok.
    assert (Hna : na < length L) by (unfold na; lia).
    set (sp' := upd l b0 {| sl_active := na; sl_list := L |}).
    assert (Hspl : forall d, spl sp' d = if Nat.eqb d b0 then {| sl_active := na; sl_list := L |} else spl l d).
    { intros d. unfold spl, sp'. destruct (Nat.eqb d b0) eqn:Hd.
      - apply Nat.eqb_eq in Hd. subst d. apply hp_nth_upd_same. exact Hb0.
      - apply Nat.eqb_neq in Hd. apply hp_nth_upd_other. auto. }
    assert (HLs : forall d, sl_list (spl sp' d) = sl_list (spl l d)).
    { intros d. rewrite Hspl. destruct (Nat.eqb d b0) eqn:Hd; [|reflexivity]. apply Nat.eqb_eq in Hd. subst d. reflexivity. }
    assert (Hoks : forall d, sl_ok (spl sp' d)).
    { intros d. rewrite Hspl. destruct (Nat.eqb d b0); [unfold sl_ok; cbn [sl_active sl_list]; lia|].
      apply (si_ok _ _ _ _ _ _ _ (mi_sinv _ I)). }
    assert (Hent : ent sp' b0 c0 cls0).
    { unfold ent. rewrite HLs. unfold spl. fold l. fold sl. fold L. rewrite <- Hnth. apply nth_In. exact Hna. }
    assert (Hnact : S (nact sp') = nact l).
    { pose proof (list_sum_upd sl_active l b0 {| sl_active := na; sl_list := L |} Hb0) as Hs.
      fold sl in Hs. cbn [sl_active] in Hs. unfold nact, sp', na in *. lia. }
    split; [reflexivity|]. split; [exact Hent|]. split; [|split].
    - constructor.
      + exact (mi_main _ I).
      + apply (sinv_same_lists _ _ _ l sp' HLs Hoks). exact (mi_sinv _ I).
      + exact (mi_coarse _ I).
      + pose proof (mi_meas _ I) as HM. unfold meas, km in *. cbn [mn_split mn_main]. fold l in HM. lia.
    - unfold meas, km. cbn [mn_split mn_main]. fold l. lia.
    - intros D c' [cls' Hin]. unfold actm, acts, sl_acts. cbn [mn_split]. rewrite Hspl.
      destruct (Nat.eqb D b0) eqn:HD.
      + apply Nat.eqb_eq in HD. subst D. unfold spl in Hin. fold l in Hin. fold sl in Hin. fold L in Hin.
        replace (sl_active sl) with (S na) in Hin by (unfold na; lia).
        rewrite (firstn_S_nth (0,0)) in Hin by exact Hna. rewrite Hnth in Hin. apply in_app_or in Hin.
        destruct Hin as [Hin|[Hin|[]]].
        * left. exists cls'. exact Hin.
        * right. inversion Hin. auto.
      + left. exists cls'. exact Hin.
  Qed.

  (* ---------------------------------------------------------------- the loop *)
  Lemma hinv_nil_any bid act a C a' C' :
    hinv n alpha delta bid act [] a C -> hinv n alpha delta bid act [] a' C'.
  Proof.
    intros HI x y c Hx Hy Hc Hb Hne. destruct (HI x y c Hx Hy Hc Hb Hne) as [H|[H|[_ [[] _]]]]; auto.
  Qed.

  Lemma refine_loop : env_ok -> forall fuel m a C, minv m -> respects n isf (bidm m) ->
    hinv n alpha delta (bidm m) (actm m) [] a C -> meas m < fuel ->
    exists m', refine delta fuel n m = Some m' /\ minv m' /\ respects n isf (bidm m') /\
               stable n alpha delta (bidm m').
  Proof.
    intros Env. induction fuel as [|f IH]; intros m a C I HR HI HM; [lia|].
    cbn [refine]. change (bp_num_blocks (fp_base (mn_main m))) with (km m).
    destruct (Nat.ltb (km m - 1) n) eqn:Hk.
    - destruct (pick_splitter m) as [[m' [[b c] cls]]|] eqn:Hp.
      + destruct (pick_some m m' b c cls I Hp) as [Hmain [Hent [I' [Hmeas Hacts]]]].
        assert (Hbid : bidm m' = bidm m) by (unfold bidm; rewrite Hmain; reflexivity).
        assert (HR' : respects n isf (bidm m')) by (rewrite Hbid; exact HR).
        destruct (rws_spec m' b c cls Env I' HR' Hent) as [I1 [HR1 [HI1 HM1]]].
        { intros todo Hcov. rewrite Hbid in *. eapply hinv_pick; [exact HI|exact Hacts|exact Hcov]. }
        apply (IH _ c b I1 HR1 HI1). lia.
      + exists m. split; [reflexivity|]. split; [exact I|]. split; [exact HR|].
        eapply hinv_stable; [exact HI|]. apply pick_none. exact Hp.
    - exists m. split; [reflexivity|]. split; [exact I|]. split; [exact HR|].
      apply Nat.ltb_ge in Hk. intros x y c Hx Hy Hc Hb.
      assert (x = y); [|subst; reflexivity].
      eapply (discrete_blocks n (fp_base (mn_main m))).
      + apply (fw_base _ _ (mi_main _ I)).
      + unfold km in Hk. lia.
      + apply (fw_bid _ _ (mi_main _ I)). exact Hx.
      + unfold bidm in Hb. rewrite Hb. apply (fw_bid _ _ (mi_main _ I)). exact Hy.
  Qed.

  (* ---------------------------------------------------------------- Minimizer::new *)
  Definition init_sp (a : nat) : list slist :=
    fold_left (fun sp c => add_splitter sp 1 c 1 false) (seq 0 a) [].

  Lemma init_sp_spec : forall a,
    sl_active (spl (init_sp a) 1) = 0 /\ sl_list (spl (init_sp a) 1) = map (fun c => (c, 1)) (seq 0 a) /\
    (forall d, d <> 1 -> spl (init_sp a) d = sl_empty) /\ nact (init_sp a) = 0.
  Proof.
    induction a as [|a [H1 [H2 [H3 H4]]]].
    - unfold init_sp, spl. cbn [seq fold_left]. split; [reflexivity|]. split; [reflexivity|]. split; [|reflexivity].
      intros d _. destruct d; reflexivity.
    - unfold init_sp in *. rewrite seq_S, fold_left_app. cbn [plus fold_left].
      set (sp := fold_left (fun sp c => add_splitter sp 1 c 1 false) (seq 0 a) []) in *.
      split; [|split; [|split]].
      + rewrite spl_add. cbn [Nat.eqb]. rewrite sl_add_false. cbn [sl_active]. exact H1.
      + rewrite spl_add. cbn [Nat.eqb]. rewrite sl_add_false. cbn [sl_list]. rewrite H2, map_app. reflexivity.
      + intros d Hd. rewrite spl_add. replace (Nat.eqb d 1) with false by (symmetry; apply Nat.eqb_neq; exact Hd). apply H3. exact Hd.
      + rewrite nact_add. lia.
  Qed.

  Definition m_init : mini :=
    {| mn_main := fp_new n; mn_pred := repeat (bp_new n) alpha; mn_split := init_sp alpha; mn_active_block := 0 |}.

  Lemma mini_new_unfold :
    mini_new delta isf n alpha =
    let r := fp_refine (fp_new n) 1 isf in
    if negb (Nat.eqb (fst (snd r)) 0) && negb (Nat.eqb (snd (snd r)) 0)
    then update_splitters delta (set_main m_init (fst r)) (fst (snd r)) (snd (snd r))
    else set_main m_init (fst r).
  Proof.
    unfold mini_new. cbv zeta. cbn [mn_main mn_pred mn_split].
    destruct (fp_refine (fp_new n) 1 isf) as [main' [i j]]. reflexivity.
  Qed.

  Lemma m_init_bid x : x < n -> bidm m_init x = 1.
  Proof. intros Hx. unfold bidm, m_init, fp_block_id, fp_new. cbn [mn_main fp_bid]. apply hp_nth_repeat. exact Hx. Qed.

  Lemma m_init_km : 1 <= n -> km m_init = 2.
  Proof.
    intros Hn. unfold km, m_init, fp_new, bp_new, nblk. cbn [mn_main fp_base].
    replace (Nat.eqb n 0) with false by (symmetry; apply Nat.eqb_neq; lia). reflexivity.
  Qed.

  Lemma m_init_minv : env_ok -> minv m_init.
  Proof.
    intros Env. pose proof (e_n Env) as Hn. pose proof (init_sp_spec alpha) as [A1 [A2 [A3 A4]]].
    assert (Hpc : forall c, c < alpha -> pc (mn_pred m_init) c = bp_new n).
    { intros c Hc. unfold pc, m_init. cbn [mn_pred]. apply hp_nth_repeat. exact Hc. }
    assert (Hent : forall b c cls, ent (mn_split m_init) b c cls -> b = 1 /\ cls = 1 /\ c < alpha).
    { intros b c cls He. unfold ent, m_init in He. cbn [mn_split] in He. destruct (Nat.eq_dec b 1) as [->|Hb].
      - rewrite A2 in He. apply in_map_iff in He. destruct He as [c' [E1 E2]]. inversion E1; subst.
        apply in_seq in E2. split; [reflexivity|]. split; [reflexivity|lia].
      - rewrite (A3 b Hb) in He. destruct He. }
    constructor.
    - apply fp_new_wf. exact Hn.
    - rewrite (m_init_km Hn). constructor.
      + unfold m_init. cbn [mn_pred]. apply repeat_length.
      + intros c Hc. rewrite (Hpc c Hc). apply bp_new_wf. exact Hn.
      + intros b c cls He. destruct (Hent b c cls He) as [-> [-> Hc]]. split; [lia|]. split; [exact Hc|].
        rewrite (Hpc c Hc). split.
        * unfold nblk, bp_new. replace (Nat.eqb n 0) with false by (symmetry; apply Nat.eqb_neq; lia). simpl. lia.
        * intros x. rewrite (bp_new_in n x Hn). split; [|tauto]. intros Hx. split; [exact Hx|].
          apply m_init_bid. apply (e_cl Env); assumption.
      + intros b. unfold m_init. cbn [mn_split]. destruct (Nat.eq_dec b 1) as [->|Hb].
        * rewrite A2, map_map. cbn [fst]. rewrite map_id. apply seq_NoDup.
        * rewrite (A3 b Hb). constructor.
      + intros x c Hx Hc. rewrite (m_init_bid _ (e_cl Env x c Hx Hc)). exists 1. unfold ent, m_init. cbn [mn_split].
        rewrite A2. apply in_map_iff. exists c. split; [reflexivity|]. apply in_seq. lia.
      + intros b. unfold sl_ok, m_init. cbn [mn_split]. destruct (Nat.eq_dec b 1) as [->|Hb].
        * rewrite A1. lia.
        * rewrite (A3 b Hb). simpl. lia.
    - intros x y Hx Hy _. rewrite !m_init_bid by assumption. reflexivity.
    - unfold meas. rewrite (m_init_km Hn). unfold m_init. cbn [mn_split]. rewrite A4. nia.
  Qed.

  Lemma m_init_noact D c : ~ actm m_init D c.
  Proof.
    pose proof (init_sp_spec alpha) as [A1 [A2 [A3 A4]]].
    intros [cls H]. unfold m_init in H. cbn [mn_split] in H. destruct (Nat.eq_dec D 1) as [->|Hd].
    - rewrite A1 in H. destruct H.
    - rewrite (A3 D Hd) in H. destruct H.
  Qed.

  Lemma m_init_hinv a C : env_ok -> hinv n alpha delta (bidm m_init) (actm m_init) [] a C.
  Proof.
    intros Env x y c Hx Hy Hc _ Hne. exfalso. apply Hne.
    rewrite !m_init_bid; auto; apply (e_cl Env); assumption.
  Qed.

  Lemma mini_new_spec : env_ok ->
    let m := mini_new delta isf n alpha in
    minv m /\ respects n isf (bidm m) /\ hinv n alpha delta (bidm m) (actm m) [] 0 0.
  Proof.
    intros Env m. unfold m. rewrite mini_new_unfold. cbv zeta.
    pose proof (e_n Env) as Hn. pose proof (m_init_minv Env) as I0.
    assert (H1 : 1 <= 1 < nblk (fp_base (fp_new n))).
    { change (nblk (fp_base (fp_new n))) with (km m_init). rewrite (m_init_km Hn). lia. }
    destruct (fp_refine_spec n (fp_new n) 1 isf (fp_new_wf n Hn) H1) as [W' R].
    destruct (fp_refine (fp_new n) 1 isf) as [main' [i j]]. cbn [fst snd] in *.
    inversion R as [Hall Hk Hbid E1|Hnone Hk Hbid E1|Hk Hbid Hex1 Hex2 E1]; subst i j.
    - cbn [Nat.eqb negb andb].
      destruct (nosplit_case m_init main' I0 W' Hk Hbid) as [I' [Hb' Hk']].
      split; [exact I'|]. split.
      + intros x y Hx Hy _. rewrite (Hall x Hx), (Hall y Hy); auto; apply m_init_bid; assumption.
      + apply (hinv_ext n alpha delta (bidm m_init) (actm m_init)); [exact Hb'|intros ? ? H; exact H|].
        apply m_init_hinv. exact Env.
    - cbn [Nat.eqb negb andb].
      destruct (nosplit_case m_init main' I0 W' Hk Hbid) as [I' [Hb' Hk']].
      split; [exact I'|]. split.
      + intros x y Hx Hy _. rewrite (Hnone x Hx), (Hnone y Hy); auto; apply m_init_bid; assumption.
      + apply (hinv_ext n alpha delta (bidm m_init) (actm m_init)); [exact Hb'|intros ? ? H; exact H|].
        apply m_init_hinv. exact Env.
    - change (nblk (fp_base (fp_new n))) with (km m_init) in *. change (nblk (bp_new n)) with (km m_init) in *.
      replace (negb (Nat.eqb 1 0) && negb (Nat.eqb (km m_init) 0)) with true
        by (rewrite (m_init_km Hn); reflexivity).
      assert (Hb1 : 1 <= 1 < km m_init) by (rewrite (m_init_km Hn); lia).
      destruct (split_case m_init 1 isf main' Env I0 Hb1 W' Hk Hbid) as [I' [Hk' [Hmain' [HM HA]]]].
      { intros x y Hx Hy He. apply (e_fin Env); assumption. }
      set (m2 := update_splitters delta (set_main m_init main') 1 (km m_init)) in *.
      split; [exact I'|]. split.
      + intros x y Hx Hy Hb. rewrite (as_bid _ _ _ _ _ _ _ _ _ _ HA x Hx), (as_bid _ _ _ _ _ _ _ _ _ _ HA y Hy) in Hb.
        rewrite !m_init_bid in Hb by assumption. rewrite (m_init_km Hn) in Hb. cbn [Nat.eqb andb] in Hb.
        destruct (isf x), (isf y); cbn [negb] in Hb; congruence.
      + apply (hinv_nil_any _ _ 0 2).
        eapply (hinv_split n alpha delta (bidm m_init) (actm m_init) [] 0 2 (km m_init) 1 isf); eauto.
        * apply (e_cl Env).
        * intros x Hx. rewrite (m_init_bid x Hx), (m_init_km Hn). lia.
        * apply m_init_hinv. exact Env.
        * intros x y Hx Hy _ _ _ [[H _]|[_ H]]; unfold bidm, m_init in H; cbn [mn_main] in H;
            [destruct (fp_new_bid n (delta x 0))|destruct (fp_new_bid n (delta y 0))]; lia.
  Qed.

  (* Minimizer::new followed by refine: the fuel of the model suffices and the resulting partition is
     well formed, respects finality, is stable and does not separate E-related states *)
  Theorem refine_correct : env_ok ->
    exists m, refine delta (4 * n * alpha + 16) n (mini_new delta isf n alpha) = Some m /\
      fp_wf n (mn_main m) /\ respects n isf (bidm m) /\ stable n alpha delta (bidm m) /\ coarse n E (bidm m).
  Proof.
    intros Env. destruct (mini_new_spec Env) as [I [HR HI]].
    destruct (refine_loop Env (4 * n * alpha + 16) _ 0 0 I HR HI) as [m [H1 [H2 [H3 H4]]]].
    { pose proof (mi_meas _ I). nia. }
    exists m. split; [exact H1|]. split; [apply (mi_main _ H2)|]. split; [exact H3|]. split; [exact H4|apply (mi_coarse _ H2)].
  Qed.
End Loop.
