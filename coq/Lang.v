(* Lang.v -- reusable algebra of languages [lang := word -> Prop] (see Denote.v).
   All equivalences are pointwise ([... w <-> ... w]); no functional extensionality is used.
   Contents:
     l_eps, l_empty, l_ne, l_incl, l_equiv           small vocabulary
     l_concat_*                                      associativity, neutral, absorbing, monotonicity
     l_pow_*                                         powers: 0, 1, S on the right, addition, monotonicity
     l_pow_eps_S / l_pow_eps_le / l_pow_nil          powers when [] is in the language
     l_pow_ne_*                                      decomposition into NON-EMPTY factors and padding
     goodw_*                                         goodw of nil / cons / append, closure of concat/pow *)
Require Import Base Denote.
Local Open Scope nat_scope.   (* Denote.v opens N_scope *)

(* ---------- vocabulary ---------- *)
Definition l_eps : lang := fun w => w = [].                       (* the language {[]} *)
Definition l_empty : lang := fun _ => False.                      (* the empty language *)
Definition l_ne (A : lang) : lang := fun w => A w /\ w <> [].     (* A minus the empty word *)
Definition l_incl (A B : lang) : Prop := forall w, A w -> B w.
Definition l_equiv (A B : lang) : Prop := forall w, A w <-> B w.

Lemma l_equiv_incl A B : l_equiv A B <-> l_incl A B /\ l_incl B A.
Proof.
  unfold l_equiv, l_incl; split.
  - intros H; split; intros w Hw; apply H; exact Hw.
  - intros [H1 H2] w; split; [apply H1 | apply H2].
Qed.

Lemma l_equiv_refl A : l_equiv A A.
Proof. intros w; reflexivity. Qed.

Lemma l_equiv_sym A B : l_equiv A B -> l_equiv B A.
Proof. intros H w; symmetry; apply H. Qed.

Lemma l_equiv_trans A B C : l_equiv A B -> l_equiv B C -> l_equiv A C.
Proof. intros H1 H2 w; rewrite (H1 w); apply H2. Qed.

Lemma l_ne_incl A : l_incl (l_ne A) A.
Proof. intros w [H _]; exact H. Qed.

Lemma l_ne_nil A : ~ l_ne A [].
Proof. intros [_ H]; apply H; reflexivity. Qed.

Lemma l_ne_intro (A : lang) c t : A (c :: t) -> l_ne A (c :: t).
Proof. intros H; split; [exact H | discriminate]. Qed.

(* ---------- concatenation ---------- *)
Lemma l_concat_intro (A B : lang) u v : A u -> B v -> l_concat A B (u ++ v).
Proof. intros Hu Hv; exists u, v; auto. Qed.

Lemma l_concat_assoc A B C w :
  l_concat (l_concat A B) C w <-> l_concat A (l_concat B C) w.
Proof.
  unfold l_concat; split.
  - intros (uv & x & Hw & (u & v & Huv & Hu & Hv) & Hx); subst.
    exists u, (v ++ x). split.
    + symmetry; apply app_assoc.
    + split; [exact Hu | exists v, x; auto].
  - intros (u & vx & Hw & Hu & (v & x & Hvx & Hv & Hx)); subst.
    exists (u ++ v), x. split.
    + apply app_assoc.
    + split; [exists u, v; auto | exact Hx].
Qed.

Lemma l_concat_eps_l A w : l_concat l_eps A w <-> A w.
Proof.
  unfold l_concat, l_eps; split.
  - intros (u & v & Hw & Hu & Hv); subst; exact Hv.
  - intros H; exists [], w; auto.
Qed.

Lemma l_concat_eps_r A w : l_concat A l_eps w <-> A w.
Proof.
  unfold l_concat, l_eps; split.
  - intros (u & v & Hw & Hu & Hv); subst; rewrite app_nil_r; exact Hu.
  - intros H; exists w, []; rewrite app_nil_r; auto.
Qed.

Lemma l_concat_empty_l A w : l_concat l_empty A w <-> False.
Proof. unfold l_concat, l_empty; split; [intros (u & v & _ & H & _); exact H | tauto]. Qed.

Lemma l_concat_empty_r A w : l_concat A l_empty w <-> False.
Proof. unfold l_concat, l_empty; split; [intros (u & v & _ & _ & H); exact H | tauto]. Qed.

Lemma l_concat_mono (A A' B B' : lang) :
  l_incl A A' -> l_incl B B' -> l_incl (l_concat A B) (l_concat A' B').
Proof.
  intros HA HB w (u & v & Hw & Hu & Hv); exists u, v; split; [exact Hw | split; auto].
Qed.

Lemma l_concat_equiv (A A' B B' : lang) :
  l_equiv A A' -> l_equiv B B' -> l_equiv (l_concat A B) (l_concat A' B').
Proof.
  intros HA HB; apply l_equiv_incl in HA; apply l_equiv_incl in HB.
  destruct HA as [HA1 HA2], HB as [HB1 HB2].
  apply l_equiv_incl; split; apply l_concat_mono; assumption.
Qed.

(* empty word in a concatenation *)
Lemma l_concat_nil A B : l_concat A B [] <-> A [] /\ B [].
Proof.
  split.
  - intros (u & v & Hw & Hu & Hv). symmetry in Hw; apply app_eq_nil in Hw.
    destruct Hw; subst; auto.
  - intros [Ha Hb]; exists [], []; auto.
Qed.

(* ---------- powers ---------- *)
Lemma l_pow_0 A w : l_pow A 0 w <-> w = [].
Proof. reflexivity. Qed.

Lemma l_pow_S A n w : l_pow A (S n) w <-> l_concat A (l_pow A n) w.
Proof. reflexivity. Qed.

Lemma l_pow_1 A w : l_pow A 1 w <-> A w.
Proof. exact (l_concat_eps_r A w). Qed.

Lemma l_pow_mono (A B : lang) n : l_incl A B -> l_incl (l_pow A n) (l_pow B n).
Proof.
  intros HAB; induction n as [|n IH]; intros w Hw.
  - exact Hw.
  - exact (l_concat_mono _ _ _ _ HAB IH w Hw).
Qed.

Lemma l_pow_equiv (A B : lang) n : l_equiv A B -> l_equiv (l_pow A n) (l_pow B n).
Proof.
  intros H; apply l_equiv_incl in H; destruct H as [H1 H2].
  apply l_equiv_incl; split; apply l_pow_mono; assumption.
Qed.

Lemma l_pow_add A a b w :
  l_pow A (a + b) w <-> l_concat (l_pow A a) (l_pow A b) w.
Proof.
  revert w; induction a as [|a IH]; intros w.
  - symmetry; exact (l_concat_eps_l (l_pow A b) w).
  - change (l_concat A (l_pow A (a + b)) w <->
            l_concat (l_concat A (l_pow A a)) (l_pow A b) w).
    rewrite l_concat_assoc.
    apply (l_concat_equiv A A _ _ (l_equiv_refl A) IH).
Qed.

Lemma l_pow_S_r A n w : l_pow A (S n) w <-> l_concat (l_pow A n) A w.
Proof.
  replace (S n) with (n + 1) by lia.
  rewrite l_pow_add.
  apply (l_concat_equiv _ _ _ _ (l_equiv_refl (l_pow A n))).
  intros v; apply l_pow_1.
Qed.

Lemma l_pow_mul A a b w : l_pow A (a * b) w <-> l_pow (l_pow A b) a w.
Proof.
  revert w; induction a as [|a IH]; intros w.
  - reflexivity.
  - change (l_pow A (b + a * b) w <-> l_concat (l_pow A b) (l_pow (l_pow A b) a) w).
    rewrite l_pow_add.
    apply (l_concat_equiv _ _ _ _ (l_equiv_refl (l_pow A b)) IH).
Qed.

(* [] in A: powers grow with the exponent *)
Lemma l_pow_eps_S (A : lang) n w : A [] -> l_pow A n w -> l_pow A (S n) w.
Proof. intros He Hw; exists [], w; auto. Qed.

Lemma l_pow_eps_le (A : lang) n m w : A [] -> n <= m -> l_pow A n w -> l_pow A m w.
Proof.
  intros He Hle Hw; induction Hle as [|m Hle IH].
  - exact Hw.
  - apply l_pow_eps_S; assumption.
Qed.

Lemma l_pow_nil (A : lang) n : l_pow A n [] <-> n = 0 \/ A [].
Proof.
  split.
  - destruct n as [|n]; [auto|].
    intros H; apply l_concat_nil in H; right; apply H.
  - intros [Hn | He].
    + subst; reflexivity.
    + apply (l_pow_eps_le A 0 n); [exact He | lia | reflexivity].
Qed.

(* ---------- decomposition into non-empty factors ---------- *)
(* [l_pow (l_ne A) k w] : w is the concatenation of exactly k NON-EMPTY words of A. *)

Lemma l_pow_ne_incl A k : l_incl (l_pow (l_ne A) k) (l_pow A k).
Proof. apply l_pow_mono, l_ne_incl. Qed.

Lemma l_pow_ne_length A k w : l_pow (l_ne A) k w -> k <= length w.
Proof.
  revert w; induction k as [|k IH]; intros w Hw.
  - lia.
  - destruct Hw as (u & v & Hw & [_ Hu] & Hv); subst.
    apply IH in Hv. rewrite app_length.
    destruct u as [|c u]; [contradiction Hu; reflexivity | simpl; lia].
Qed.

(* a word of A^n is a concatenation of k <= n non-empty words of A *)
Lemma l_pow_ne_decomp A n w :
  l_pow A n w -> exists k, k <= n /\ k <= length w /\ l_pow (l_ne A) k w.
Proof.
  revert w; induction n as [|n IH]; intros w Hw.
  - exists 0; split; [lia | split; [lia | exact Hw]].
  - destruct Hw as (u & v & Hw & Hu & Hv); subst.
    destruct (IH v Hv) as (k & Hkn & Hkl & Hk).
    destruct u as [|c u].
    + exists k; simpl; split; [lia | split; [lia | exact Hk]].
    + exists (S k); split; [lia | split].
      * rewrite app_length; simpl; lia.
      * exists (c :: u), v; split; [reflexivity | split; [apply l_ne_intro; exact Hu | exact Hk]].
Qed.

(* converse: padding k non-empty factors up to n factors (with empty words if k < n) *)
Lemma l_pow_ne_pad (A : lang) k n w :
  l_pow (l_ne A) k w -> k <= n -> (k = n \/ A []) -> l_pow A n w.
Proof.
  intros Hk Hle [Heq | He].
  - subst; apply l_pow_ne_incl; exact Hk.
  - apply (l_pow_eps_le A k n); [exact He | exact Hle | apply l_pow_ne_incl; exact Hk].
Qed.

(* [] not in A: every factor is non-empty already *)
Lemma l_pow_no_eps (A : lang) n w : ~ A [] -> (l_pow A n w <-> l_pow (l_ne A) n w).
Proof.
  intros Hne; split.
  - apply l_pow_mono; intros u Hu; split; [exact Hu | intros E; subst; auto].
  - apply l_pow_ne_incl.
Qed.

(* characterisations of membership in some power *)
Lemma l_pow_eps_iff (A : lang) n w :
  A [] -> (l_pow A n w <-> exists k, k <= n /\ l_pow (l_ne A) k w).
Proof.
  intros He; split.
  - intros H; destruct (l_pow_ne_decomp A n w H) as (k & Hk & _ & Hp); exists k; auto.
  - intros (k & Hk & Hp); apply (l_pow_ne_pad A k n); auto.
Qed.

Lemma l_pow_length_bound (A : lang) n w : ~ A [] -> l_pow A n w -> n <= length w.
Proof. intros Hne H; apply (l_pow_ne_length A).
  apply (proj1 (l_pow_no_eps A n w Hne)); exact H. Qed.

(* ---------- goodw ---------- *)
Lemma goodw_nil : goodw [].
Proof. constructor. Qed.

Lemma goodw_cons c w : goodw (c :: w) <-> good c /\ goodw w.
Proof.
  unfold goodw; split.
  - intros H; inversion H; subst; auto.
  - intros [Hc Hw]; constructor; assumption.
Qed.

Lemma goodw_app u v : goodw (u ++ v) <-> goodw u /\ goodw v.
Proof.
  induction u as [|c u IH]; simpl.
  - split; [intros H; split; [apply goodw_nil | exact H] | intros [_ H]; exact H].
  - rewrite !goodw_cons, IH; tauto.
Qed.

Lemma goodw_concat_list ws : goodw (concat ws) <-> Forall goodw ws.
Proof.
  induction ws as [|u ws IH]; simpl.
  - split; intros _; [constructor | apply goodw_nil].
  - rewrite goodw_app, IH; split.
    + intros [Hu Hws]; constructor; assumption.
    + intros H; inversion H; subst; auto.
Qed.

Lemma l_concat_goodw (A B : lang) :
  l_incl A goodw -> l_incl B goodw -> l_incl (l_concat A B) goodw.
Proof.
  intros HA HB w (u & v & Hw & Hu & Hv); subst; apply goodw_app; split; auto.
Qed.

Lemma l_pow_goodw (A : lang) n : l_incl A goodw -> l_incl (l_pow A n) goodw.
Proof.
  intros HA; induction n as [|n IH].
  - intros w Hw; simpl in Hw; subst; apply goodw_nil.
  - apply l_concat_goodw; assumption.
Qed.
