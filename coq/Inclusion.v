(* Inclusion.v -- executable model of the syntactic inclusion test of regular_expressions.rs:
   sub_language, decomposition of concatenations into rigid / flexible base patterns, the rigid
   matcher (prefix, suffix, left-to-right and right-to-left passes).  No proofs here.
   sub_language recurses on pairs of sub-terms: fuel = height r + height s + 1 (always enough);
   out of fuel => false ("false carries no information"). *)
Require Import Base CharSet Partition LoopRange Regex.
Open Scope N_scope.

Record bpat := { b_start : nat; b_end : nat; b_rigid : bool; b_sm : nat; b_em : nat }.
Definition b_len p := (b_end p - b_start p)%nat.
Definition b_set_match p s e := {| b_start := b_start p; b_end := b_end p; b_rigid := b_rigid p; b_sm := s; b_em := e |}.
Definition b_make s e r := {| b_start := s; b_end := e; b_rigid := r; b_sm := 0; b_em := 0 |}.
Definition b_shift p d := {| b_start := b_start p - d; b_end := b_end p - d; b_rigid := b_rigid p; b_sm := b_sm p; b_em := b_em p |}%nat.

Fixpoint base_patterns_go (l : list re) (i j : nat) (rigid : bool) (acc : list bpat) : list bpat :=
  match l with
  | [] => acc ++ [b_make j i rigid]
  | x :: t => let ri := is_range x in
              if Bool.eqb rigid ri then base_patterns_go t (S i) j rigid acc
              else base_patterns_go t (S i) i ri (acc ++ [b_make j i rigid])
  end.
Definition base_patterns (r : list re) : list bpat :=
  match r with [] => [] | x :: t => base_patterns_go t 1 0 (is_range x) [] end.

Definition slice {A} (l : list A) (s e : nat) : list A := firstn (e - s) (skipn s l).
Fixpoint rigid_match_at (pattern : list cs) (s : list re) : bool :=   (* s already positioned *)
  match pattern, s with
  | [], _ => true
  | p :: pt, x :: st => match_char_set x p && rigid_match_at pt st
  | _ :: _, [] => false
  end.
Definition rigid_at (pattern : list cs) (s : list re) (i : nat) := rigid_match_at pattern (skipn i s).
Fixpoint first_some {A} (f : nat -> option A) (l : list nat) : option A :=
  match l with [] => None | x :: t => match f x with Some r => Some r | None => first_some f t end end.
Definition next_rigid_match (pattern : list cs) (s : list re) (i : nat) : option (nat * nat) :=
  let pl := length pattern in let sl := length s in
  if Nat.leb pl sl then
    first_some (fun j => if rigid_at pattern s j then Some (j, (j + pl)%nat) else None)
               (seq i (S (sl - pl) - i))
  else None.
Definition prev_rigid_match (pattern : list cs) (s : list re) (i : nat) : option (nat * nat) :=
  let pl := length pattern in
  first_some (fun j => if rigid_at pattern s (j - pl) then Some ((j - pl)%nat, j) else None)
             (rev (seq pl (S i - pl))).
Definition char_sets_of_pattern (p : list re) : list cs :=
  flat_map (fun r => match rnode r with NRange s => [s] | _ => [] end) p.
Definition pat_sets (v : list re) (p : bpat) := char_sets_of_pattern (slice v (b_start p) (b_end p)).
Definition rigid_prefix_match (u v : list re) (p : bpat) :=
  if Nat.leb (b_len p) (length u) then rigid_at (pat_sets v p) u 0 else false.
Definition rigid_suffix_match (u v : list re) (p : bpat) :=
  if Nat.leb (b_len p) (length u) then rigid_at (pat_sets v p) u (length u - b_len p) else false.

Fixpoint find_rigid_matches (u v : list re) (pats : list bpat) (i : nat) : bool * list bpat :=
  match pats with
  | [] => (true, [])
  | p :: t =>
    if b_rigid p then
      match next_rigid_match (pat_sets v p) u i with
      | None => (false, p :: t)
      | Some (j, k) => let '(ok, t') := find_rigid_matches u v t k in (ok, b_set_match p j k :: t')
      end
    else let '(ok, t') := find_rigid_matches u v t i in (ok, p :: t')
  end.
(* reverse search: process the reversed list, then reverse back *)
Fixpoint find_rigid_matches_rev_go (u v : list re) (rpats : list bpat) (i : nat) : bool * list bpat :=
  match rpats with
  | [] => (true, [])
  | p :: t =>
    if b_rigid p then
      match prev_rigid_match (pat_sets v p) u i with
      | None => (false, p :: t)
      | Some (j, k) => let '(ok, t') := find_rigid_matches_rev_go u v t j in (ok, b_set_match p j k :: t')
      end
    else let '(ok, t') := find_rigid_matches_rev_go u v t i in (ok, p :: t')
  end.
Definition find_rigid_matches_rev (u v : list re) (pats : list bpat) : bool * list bpat :=
  let '(ok, r) := find_rigid_matches_rev_go u v (rev pats) (length u) in (ok, rev r).

Fixpoint set_flexible_regions_go (prev_end : nat) (l : list bpat) (slen : nat) : list bpat :=
  match l with
  | [] => []
  | p :: t =>
    let p' := if b_rigid p then p
              else b_set_match p prev_end (match t with [] => slen | q :: _ => b_sm q end) in
    p' :: set_flexible_regions_go (b_em p') t slen
  end.
Definition set_flexible_regions (l : list bpat) (slen : nat) := set_flexible_regions_go 0 l slen.
Definition flexible_match (v : list re) := match v with [x] => is_full x | _ => false end.
Definition match_flexible_patterns (u v : list re) (pats : list bpat) : bool :=
  match pats with
  | [] => match u with [] => true | _ => false end
  | _ => let ps := set_flexible_regions pats (length u) in
         forallb (fun p => b_rigid p || flexible_match (slice v (b_start p) (b_end p))) ps
  end.
Definition removelast_n {A} (l : list A) (n : nat) := firstn (length l - n) l.

Definition concat_inclusion (u v : list re) : bool :=
  let p := base_patterns v in
  (* rigid prefix *)
  let st1 : option (list bpat * list re * list re) :=
    match p with
    | pat :: rest =>
      if b_rigid pat then
        if rigid_prefix_match u v pat then
          let len := b_len pat in Some (map (fun q => b_shift q len) rest, skipn len u, skipn len v)
        else None
      else Some (p, u, v)
    | [] => Some (p, u, v)
    end in
  match st1 with
  | None => false
  | Some (p, u, v) =>
    let st2 : option (list bpat * list re * list re) :=
      match rev p with
      | pat :: _ =>
        if b_rigid pat then
          if rigid_suffix_match u v pat then
            let len := b_len pat in Some (removelast p, removelast_n u len, removelast_n v len)
          else None
        else Some (p, u, v)
      | [] => Some (p, u, v)
      end in
    match st2 with
    | None => false
    | Some (p, u, v) =>
      let '(ok1, p1) := find_rigid_matches u v p 0 in
      if ok1 && match_flexible_patterns u v p1 then true
      else let '(ok2, p2) := find_rigid_matches_rev u v p1 in
           ok2 && match_flexible_patterns u v p2
    end
  end.

Fixpoint sub_language (fuel : nat) (r s : re) : bool :=
  match fuel with
  | O => false
  | S f =>
    if re_eqb r s then true else
    match rnode r, rnode s with
    | NEmpty, _ => true
    | _, NEmpty => false
    | NEps, _ => rnul s
    | _, NEps => false
    | NCompl r1, NCompl s2 => sub_language f s2 r1
    | _, NUnion l => concat_or_atomic r && existsb (fun x => sub_language f r x) l
    | NInter l, _ => concat_or_atomic s && existsb (fun x => sub_language f x s) l
    | NUnion l, _ => concat_or_atomic s && forallb (fun x => sub_language f x s) l
    | _, NInter l => concat_or_atomic r && forallb (fun x => sub_language f r x) l
    | _, _ => concat_inclusion (flatten_concat r) (flatten_concat s)
    end
  end.
Definition included_in (r s : re) := sub_language (height r + height s + 1) r s.

