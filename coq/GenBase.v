(* GenBase.v -- primitives used by the files that gen/rs2v.py generates from the Rust sources
   (coq/Gen/*.v).  Machine integers are N; an operator that overflows / underflows its Rust type
   yields None (the debug-build panic).  No proofs here. *)
Require Import Base.
Open Scope N_scope.

Definition USZMAX : N := 18446744073709551615.      (* usize::MAX on the 64-bit targets *)

Definition u32_add (x y : N) : option N := if x + y <=? U32MAX then Some (x + y) else None.
Definition u32_mul (x y : N) : option N := if x * y <=? U32MAX then Some (x * y) else None.
Definition u32_sub (x y : N) : option N := if y <=? x then Some (x - y) else None.
Definition usize_add (x y : N) : option N := if x + y <=? USZMAX then Some (x + y) else None.
Definition usize_mul (x y : N) : option N := if x * y <=? USZMAX then Some (x * y) else None.
Definition usize_sub (x y : N) : option N := if y <=? x then Some (x - y) else None.
