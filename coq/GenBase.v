(* GenBase.v -- primitives used by the files that gen/rs2v.py generates from the Rust sources.
   u32 values are N: an operator that overflows / underflows yields None (the debug-build panic).
   usize values are nat (lengths and indices; 64-bit overflow of an index is not modelled), subtraction
   and division are checked.  No proofs here. *)
Require Import Base.
Open Scope N_scope.

Definition u32_add (x y : N) : option N := if x + y <=? U32MAX then Some (x + y) else None.
Definition u32_mul (x y : N) : option N := if x * y <=? U32MAX then Some (x * y) else None.
Definition u32_sub (x y : N) : option N := if y <=? x then Some (x - y) else None.
Definition u32_div (x y : N) : option N := if y =? 0 then None else Some (x / y).

Definition usize_add (x y : nat) : option nat := Some (x + y)%nat.
Definition usize_mul (x y : nat) : option nat := Some (x * y)%nat.
Definition usize_sub (x y : nat) : option nat := if Nat.leb y x then Some (x - y)%nat else None.
Definition usize_div (x y : nat) : option nat := if Nat.eqb y 0 then None else Some (Nat.div x y).

(* Rust's Result *)
Inductive result (A E : Type) : Type := Ok (a : A) | Err (e : E).
Arguments Ok {A E} a.
Arguments Err {A E} e.

(* outcome of a translated loop: the enclosing function returned from inside the loop, or the loop
   ended (condition false / break) with the final values of the variables it assigns *)
Inductive loopres (R S : Type) : Type := LoopReturn (r : R) | LoopDone (s : S).
Arguments LoopReturn {R S} r.
Arguments LoopDone {R S} s.

Fixpoint last_opt {A} (l : list A) : option A :=
  match l with [] => None | [x] => Some x | _ :: t => last_opt t end.

Fixpoint list_eqb {A} (eqb : A -> A -> bool) (l1 l2 : list A) : bool :=
  match l1, l2 with
  | [], [] => true
  | x :: t1, y :: t2 => eqb x y && list_eqb eqb t1 t2
  | _, _ => false
  end.
