(* GenBase.v -- primitives used by the files that gen/rs2v.py generates from the Rust sources.
   u32 values are N: an operator that overflows / underflows yields None (the debug-build panic).
   usize values are nat (lengths and indices; 64-bit overflow of an index is not modelled), subtraction
   and division are checked.  No proofs here. *)
Require Import Base.
Open Scope N_scope.

Definition u32_add (x y : N) : option N := if x + y <=? U32MAX then Some (x + y) else None.
Definition u32_mul (x y : N) : option N := if x * y <=? U32MAX then Some (x * y) else None.
Definition u32_sub (x y : N) : option N := if y <=? x then Some (x - y) else None.
Definition u32_div (x y : N) : option N := if y =? 0 then None else Some (x / y).

Definition usize_add (x y : nat) : option nat := Some (x + y)%nat.
Definition usize_mul (x y : nat) : option nat := Some (x * y)%nat.
Definition usize_sub (x y : nat) : option nat := if Nat.leb y x then Some (x - y)%nat else None.
Definition usize_div (x y : nat) : option nat := if Nat.eqb y 0 then None else Some (Nat.div x y).

(* Rust's Result *)
Inductive result (A E : Type) : Type := Ok (a : A) | Err (e : E).
Arguments Ok {A E} a.
Arguments Err {A E} e.

(* outcome of a translated loop: the enclosing function returned from inside the loop, or the loop
   ended (condition false / break) with the final values of the variables it assigns *)
Inductive loopres (R S : Type) : Type := LoopReturn (r : R) | LoopDone (s : S).
Arguments LoopReturn {R S} r.
Arguments LoopDone {R S} s.

Fixpoint last_opt {A} (l : list A) : option A :=
  match l with [] => None | [x] => Some x | _ :: t => last_opt t end.

Fixpoint list_eqb {A} (eqb : A -> A -> bool) (l1 l2 : list A) : bool :=
  match l1, l2 with
  | [], [] => true
  | x :: t1, y :: t2 => eqb x y && list_eqb eqb t1 t2
  | _, _ => false
  end.

(* a[i] = x on an array / Vec: None = index out of bounds *)
Fixpoint list_upd {A} (l : list A) (i : nat) (x : A) : option (list A) :=
  match l, i with
  | [], _ => None
  | _ :: r, O => Some (x :: r)
  | y :: r, S k => do r' <- list_upd r k x; Some (y :: r')
  end.

(* &a[lo..hi]: None = lo > hi or hi > len *)
Definition slice_range {A} (l : list A) (lo hi : nat) : option (list A) :=
  if Nat.leb lo hi && Nat.leb hi (length l) then Some (firstn (hi - lo) (skipn lo l)) else None.

(* u32 << k for a constant k < 32: bits shifted out are lost *)
Definition u32_shl (x : N) (k : N) : N := (N.shiftl x k) mod 4294967296.

(* char::to_digit(16) and char::is_ascii_hexdigit *)
Definition char_to_digit16 (x : N) : option N :=
  if (48 <=? x) && (x <=? 57) then Some (x - 48)
  else if (97 <=? x) && (x <=? 102) then Some (x - 87)
  else if (65 <=? x) && (x <=? 70) then Some (x - 55)
  else None.
Definition char_is_hexdigit (x : N) : bool :=
  match char_to_digit16 x with Some _ => true | None => false end.

(* i32: Z with checked operators; casts wrap *)
Definition i32_in (r : Z) : bool := ((-2147483648 <=? r) && (r <=? 2147483647))%Z.
Definition i32_add (x y : Z) : option Z := if i32_in (x + y) then Some (x + y)%Z else None.
Definition i32_sub (x y : Z) : option Z := if i32_in (x - y) then Some (x - y)%Z else None.
Definition i32_mul (x y : Z) : option Z := if i32_in (x * y) then Some (x * y)%Z else None.
Definition i32_wrap (r : Z) : Z := ((r + 2147483648) mod 4294967296 - 2147483648)%Z.
Definition u32_as_i32 (x : N) : Z := i32_wrap (Z.of_N x).
Definition i32_as_u32 (x : Z) : N := Z.to_N (x mod 4294967296).

(* iterator adaptors whose closure can panic: evaluation order and short-circuit as in Rust *)
Fixpoint all_m {A} (f : A -> option bool) (l : list A) : option bool :=
  match l with
  | [] => Some true
  | x :: r => do b <- f x; if b then all_m f r else Some false
  end.
Fixpoint any_m {A} (f : A -> option bool) (l : list A) : option bool :=
  match l with
  | [] => Some false
  | x :: r => do b <- f x; if b then Some true else any_m f r
  end.
Fixpoint map_m {A B} (f : A -> option B) (l : list A) : option (list B) :=
  match l with
  | [] => Some []
  | x :: r => do y <- f x; do ys <- map_m f r; Some (y :: ys)
  end.

(* casts between usize (nat) and i32 (Z): truncation to 32 bits / sign extension to 64 bits *)
Definition usize_as_i32 (n : nat) : Z :=
  let m := (Z.of_nat n mod 4294967296)%Z in
  if (m <? 2147483648)%Z then m else (m - 4294967296)%Z.
Definition i32_as_usize (i : Z) : nat := Z.to_nat (i mod 18446744073709551616).

(* Vec::resize(n, v) and the maximum of a slice of u32 *)
Definition vec_resize {A} (l : list A) (n : nat) (v : A) : list A :=
  if Nat.leb n (length l) then firstn n l else l ++ repeat v (n - length l).
Definition list_max_opt (l : list N) : option N :=
  match l with [] => None | x :: r => Some (fold_left N.max r x) end.
Definition list_min_opt (l : list N) : option N :=
  match l with [] => None | x :: r => Some (fold_left N.min r x) end.

(* v.sort_by_key(|x| key x): a stable sort (insertion, the last element inserted first, so equal keys
   keep their input order); v.sort_unstable() on integers is the same function with the identity key *)
Fixpoint insert_by_key_N {A} (key : A -> N) (x : A) (l : list A) : list A :=
  match l with
  | [] => [x]
  | y :: t => if N.leb (key x) (key y) then x :: l else y :: insert_by_key_N key x t
  end.
Definition sort_by_key_N {A} (key : A -> N) (l : list A) : list A := fold_right (insert_by_key_N key) [] l.
Fixpoint insert_by_key_nat {A} (key : A -> nat) (x : A) (l : list A) : list A :=
  match l with
  | [] => [x]
  | y :: t => if Nat.leb (key x) (key y) then x :: l else y :: insert_by_key_nat key x t
  end.
Definition sort_by_key_nat {A} (key : A -> nat) (l : list A) : list A := fold_right (insert_by_key_nat key) [] l.

(* it.fold(init, |acc, x| body) with a body that may panic; it.enumerate() *)
Fixpoint fold_m {A B} (f : B -> A -> option B) (l : list A) (b : B) : option B :=
  match l with
  | [] => Some b
  | x :: r => do b' <- f b x; fold_m f r b'
  end.
Definition enumerate {A} (l : list A) : list (nat * A) := combine (seq 0 (length l)) l.

(* std collections used as a FIFO queue and as a set that is never iterated: VecDeque<T> is a list
   (push_back appends, pop_front takes the head); HashSet<T> of integers is a list without duplicates
   (insert returns whether the element is new) *)
Definition deque_pop_front {A} (q : list A) : list A * option A :=
  match q with [] => ([], None) | x :: r => (r, Some x) end.
Definition set_insert {A} (eqb : A -> A -> bool) (s : list A) (x : A) : list A * bool :=
  if existsb (eqb x) s then (s, false) else (x :: s, true).

(* format!("{:x}" / "{:02x}" / "{:04x}", x) on a u32: lower-case hexadecimal digits, most significant
   first, padded on the left with '0' to the width (a model of core::fmt, tied to the crate by the
   correspondence check of C08); char::from_u32: None for surrogates and values above 0x10FFFF *)
Definition hexdig_ (d : N) : N := if d <? 10 then 48 + d else 87 + d.
Fixpoint hexbits_ (p : positive) (k : N) (d : N) : list N :=
  match p with
  | xH => [d + k]
  | xO q => if k =? 8 then d :: hexbits_ q 1 0 else hexbits_ q (2 * k) d
  | xI q => if k =? 8 then (d + k) :: hexbits_ q 1 0 else hexbits_ q (2 * k) (d + k)
  end.
Definition fmt_hex (w : nat) (x : N) : list N :=
  let ds := match x with N0 => [48] | Npos p => rev (map hexdig_ (hexbits_ p 1 0)) end in
  repeat 48 (w - length ds) ++ ds.
Definition char_from_u32 (x : N) : option N :=
  if (x <? 55296) || ((57343 <? x) && (x <=? 1114111)) then Some x else None.

(* i32::to_string (core::fmt's Display for integers): '-' in front of a negative number, then the decimal
   digits, most significant first, no leading zero, "0" for 0 (a model of the standard library, tied to
   the crate by the correspondence check of C09) *)
Fixpoint dec_digits_ (fuel : nat) (n : Z) (acc : list N) : list N :=
  match fuel with
  | O => acc
  | S f => let acc' := Z.to_N (48 + n mod 10) :: acc in
           if (n <? 10)%Z then acc' else dec_digits_ f (n / 10)%Z acc'
  end.
Definition dec_fuel_ (n : Z) : nat := match n with Zpos p => Pos.size_nat p | _ => 1%nat end.
Definition i32_to_string (z : Z) : list N :=
  if (z <? 0)%Z then 45%N :: dec_digits_ (dec_fuel_ (- z)) (- z)%Z [] else dec_digits_ (dec_fuel_ z) z [].
