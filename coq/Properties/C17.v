(* C17 -- every SmtString the API hands out contains only SMT-LIB characters (is_good).
   Statements only.  [goodw w] = every code point of w is <= MAX_CHAR; [clamp_spec x y] = y is x when
   x <= MAX_CHAR and 0xFFFD otherwise.  None results are Rust panics and produce no string. *)
Require Import Base CharSet Partition LoopRange Regex Inclusion Constructors Deriv Explore.
Require Import Literal LiteralProofs StrSearch StrSearchProofs StrConv StrConvProofs GoodProofs.
Require Import Sem ManagerProofs ConstructorProofs.
Open Scope N_scope.

(* constructors: From<&str>/String (list of Rust code points), From<char>, From<u32>, From<&[u32]>, From<Vec<u32>> *)
Theorem C17_from_str : forall t, goodw (from_str t) /\ Forall2 clamp_spec t (from_str t).
Proof. exact ctor_good_from_str. Qed.
Print Assumptions C17_from_str.
Theorem C17_from_slice : forall a, goodw (from_slice a) /\ Forall2 clamp_spec a (from_slice a).
Proof. exact ctor_good_from_slice. Qed.
Print Assumptions C17_from_slice.
Theorem C17_from_vec : forall a, from_vec a = from_slice a.
Proof. exact ctor_good_from_vec. Qed.
Print Assumptions C17_from_vec.
Theorem C17_from_u32 : forall x, goodw (from_u32 x) /\ exists y, from_u32 x = [y] /\ clamp_spec x y.
Proof. exact ctor_good_from_u32. Qed.
Print Assumptions C17_from_u32.
Theorem C17_from_char : forall x, from_char x = from_u32 x.
Proof. exact ctor_good_from_char. Qed.
Print Assumptions C17_from_char.
Theorem C17_clamp : forall x, (x <= MAXC -> clampc x = x) /\ (MAXC < x -> clampc x = REPLC) /\ good (clampc x).
Proof. exact (fun x => conj (clampc_valid x) (conj (clampc_invalid x) (clampc_good x))). Qed.
Print Assumptions C17_clamp.

(* parse_smt_literal: every text parses (no panic) to a good string *)
Theorem C17_parse : forall text, exists w, parse_smt_literal text = Some w /\ goodw w.
Proof. exact parse_total_good. Qed.
Print Assumptions C17_parse.

(* str_* functions map good arguments to good results *)
Theorem C17_str_concat : forall s1 s2 r, goodw s1 -> goodw s2 -> str_concat s1 s2 = Some r -> goodw r.
Proof. exact str_concat_good. Qed.
Print Assumptions C17_str_concat.
Theorem C17_str_at : forall s i r, str_at s i = Some r -> goodw r.
Proof. exact str_at_good_any. Qed.
Print Assumptions C17_str_at.
Theorem C17_str_substr : forall s i n r, goodw s -> str_substr s i n = Some r -> goodw r.
Proof. exact str_substr_good. Qed.
Print Assumptions C17_str_substr.
Theorem C17_str_replace : forall s p r x, goodw s -> goodw r -> str_replace s p r = Some x -> goodw x.
Proof. exact str_replace_good. Qed.
Print Assumptions C17_str_replace.
Theorem C17_str_replace_all : forall s p r x, goodw s -> goodw r -> str_replace_all s p r = Some x -> goodw x.
Proof. exact str_replace_all_good. Qed.
Print Assumptions C17_str_replace_all.
Theorem C17_str_from_code : forall x, goodw (str_from_code x).
Proof. exact str_from_code_good. Qed.
Print Assumptions C17_str_from_code.
Theorem C17_str_from_int : forall n w, str_from_int n = Some w -> goodw w.
Proof. exact str_from_int_good. Qed.
Print Assumptions C17_str_from_int.

(* regex replace functions and get_string *)
Theorem C17_str_replace_re : forall m s1 r s2 m' x,
  goodw s1 -> goodw s2 -> str_replace_re m s1 r s2 = Some (m', x) -> goodw x.
Proof. exact str_replace_re_good. Qed.
Print Assumptions C17_str_replace_re.
Theorem C17_str_replace_re_all : forall m s1 r s2 m' x,
  goodw s1 -> goodw s2 -> str_replace_re_all m s1 r s2 = Some (m', x) -> goodw x.
Proof. exact str_replace_re_all_good. Qed.
Print Assumptions C17_str_replace_re_all.
Theorem C17_get_string : forall fuel m e m' w, get_string fuel m e = Some (m', Some w) -> goodw w.
Proof. exact get_string_good. Qed.
Print Assumptions C17_get_string.

(* a good string (of any length an SmtString can have: at most i32::MAX < u32::MAX characters) can be
   turned into a regular expression without panicking, from any well-formed manager *)
Theorem C17_str_total : forall m w, wf m -> goodw w -> N.of_nat (length w) <= U32MAX ->
  exists m' t, mstr m w = Some (m', t).
Proof. exact mstr_total. Qed.
Print Assumptions C17_str_total.

Example C17_example :
  from_str [97; 196608; 1114111; 196607] = [97; 65533; 65533; 196607] /\ from_u32 4294967295 = [65533] /\
  parse_smt_literal [92; 117; 123; 51; 48; 48; 48; 48; 125] = Some [92; 117; 123; 51; 48; 48; 48; 48; 125].
Proof. vm_compute. repeat split. Qed.

(* ---------------------------------------------------------------- accessors of SmtString
   From<&[u32; N]>, good_char, good_string, is_good, len, is_empty, char(i), iter, is_unicode,
   to_unicode_string (model: StrMisc.v, lemmas: StrMiscProofs.v).
   [surrogate x] = 0xD800 <= x <= 0xDFFF; [is_rust_char x] = char::from_u32(x).is_some(). *)
Require Import StrMisc StrMiscProofs.

(* the array constructor is the slice constructor: it clamps exactly the integers above MAX_CHAR *)
Theorem C17_from_array : forall a,
  from_array a = from_slice a /\ goodw (from_array a) /\ Forall2 clamp_spec a (from_array a).
Proof. exact from_array_spec. Qed.
Print Assumptions C17_from_array.

Theorem C17_good_char : forall x, good_char x = true <-> good x.
Proof. exact good_char_iff. Qed.
Print Assumptions C17_good_char.
Theorem C17_good_string : forall a, good_string a = true <-> goodw a.
Proof. exact good_string_iff. Qed.
Print Assumptions C17_good_string.

(* is_good: every character is an SMT character and the length is at most i32::MAX (after repair D12) *)
Theorem C17_is_good_iff : forall s, smt_is_good s = true <-> goodw s /\ (Z.of_nat (length s) <= MAX_LENGTH)%Z.
Proof. exact is_good_iff. Qed.
Print Assumptions C17_is_good_iff.

(* for the strings a test can build (shorter than i32::MAX) is_good is goodw *)
Theorem C17_is_good_iff_goodw : forall s, (Z.of_nat (length s) <= MAX_LENGTH)%Z -> (smt_is_good s = true <-> goodw s).
Proof. exact is_good_iff_goodw. Qed.
Print Assumptions C17_is_good_iff_goodw.

(* D12 (repaired): in the pinned code the length bounds of make (n > MAX_LENGTH panics) and is_good
   (n < MAX_LENGTH) differed by one: a vector of exactly i32::MAX good characters was accepted by
   From<Vec<u32>> but was not is_good (smt_is_good_prefix); with the inclusive bound it is *)
Theorem C17_is_good_boundary : forall s, goodw s -> Z.of_nat (length s) = MAX_LENGTH ->
  smt_make s = Some s /\ from_vec s = s /\ smt_is_good_prefix s = false /\ smt_is_good s = true.
Proof. exact is_good_boundary. Qed.
Print Assumptions C17_is_good_boundary.

(* len, is_empty, char(i) (panic = None exactly out of range), iter *)
Theorem C17_accessors : forall s,
  (smt_is_empty s = true <-> smt_len s = 0%nat) /\ (smt_is_empty s = true <-> s = []) /\
  (forall i c, smt_char s i = Some c <-> (i < smt_len s)%nat /\ nth i s 0 = c) /\
  (forall i, smt_char s i = None <-> (smt_len s <= i)%nat) /\
  smt_iter s = s /\ map (smt_char s) (seq 0 (smt_len s)) = map Some (smt_iter s).
Proof. exact accessors_spec. Qed.
Print Assumptions C17_accessors.

(* to_unicode_string of any vector: same length, Rust chars only, Rust chars kept, the rest U+FFFD;
   is_unicode exactly when nothing has to be replaced *)
Theorem C17_to_unicode_string : forall v,
  length (smt_to_unicode_string v) = length v /\
  all_unicode (smt_to_unicode_string v) = true /\
  Forall2 (fun x y => (is_rust_char x = true -> y = x) /\ (is_rust_char x = false -> y = REPLC))
          v (smt_to_unicode_string v) /\
  (smt_is_unicode v = true <-> smt_to_unicode_string v = v /\ Forall (fun x => is_rust_char x = true) v).
Proof. exact to_unicode_string_spec. Qed.
Print Assumptions C17_to_unicode_string.

(* of a good string exactly the surrogates are replaced *)
Theorem C17_to_unicode_string_good : forall s, goodw s ->
  Forall2 (fun x y => (surrogate x -> y = REPLC) /\ (~ surrogate x -> y = x)) s (smt_to_unicode_string s) /\
  (smt_is_unicode s = true <-> Forall (fun x => ~ surrogate x) s) /\
  (smt_is_unicode s = true <-> smt_to_unicode_string s = s) /\
  goodw (smt_to_unicode_string s).
Proof. exact to_unicode_string_good. Qed.
Print Assumptions C17_to_unicode_string_good.

Example C17_example_accessors :
  from_array [97; 4294967295; 55296] = [97; 65533; 55296] /\
  smt_is_good [97; 55296; 196607] = true /\ good_string [97; 196608] = false /\
  smt_is_unicode [97; 55296] = false /\ smt_to_unicode_string [97; 55296; 57343; 57344; 196607] = [97; 65533; 65533; 57344; 196607] /\
  smt_char [97; 98] 1 = Some 98 /\ smt_char [97; 98] 2 = None /\ smt_is_empty [] = true.
Proof. vm_compute. repeat split. Qed.
