(* C17 -- every SmtString the API hands out contains only SMT-LIB characters (is_good).
   Statements only.  [goodw w] = every code point of w is <= MAX_CHAR; [clamp_spec x y] = y is x when
   x <= MAX_CHAR and 0xFFFD otherwise.  None results are Rust panics and produce no string. *)
Require Import Base CharSet Partition LoopRange Regex Inclusion Constructors Deriv Explore.
Require Import Literal LiteralProofs StrSearch StrSearchProofs StrConv StrConvProofs GoodProofs.
Require Import Sem ManagerProofs ConstructorProofs.
Open Scope N_scope.

(* constructors: From<&str>/String (list of Rust code points), From<char>, From<u32>, From<&[u32]>, From<Vec<u32>> *)
Theorem C17_from_str : forall t, goodw (from_str t) /\ Forall2 clamp_spec t (from_str t).
Proof. exact ctor_good_from_str. Qed.
Print Assumptions C17_from_str.
Theorem C17_from_slice : forall a, goodw (from_slice a) /\ Forall2 clamp_spec a (from_slice a).
Proof. exact ctor_good_from_slice. Qed.
Print Assumptions C17_from_slice.
Theorem C17_from_vec : forall a, from_vec a = from_slice a.
Proof. exact ctor_good_from_vec. Qed.
Print Assumptions C17_from_vec.
Theorem C17_from_u32 : forall x, goodw (from_u32 x) /\ exists y, from_u32 x = [y] /\ clamp_spec x y.
Proof. exact ctor_good_from_u32. Qed.
Print Assumptions C17_from_u32.
Theorem C17_from_char : forall x, from_char x = from_u32 x.
Proof. exact ctor_good_from_char. Qed.
Print Assumptions C17_from_char.
Theorem C17_clamp : forall x, (x <= MAXC -> clampc x = x) /\ (MAXC < x -> clampc x = REPLC) /\ good (clampc x).
Proof. exact (fun x => conj (clampc_valid x) (conj (clampc_invalid x) (clampc_good x))). Qed.
Print Assumptions C17_clamp.

(* parse_smt_literal: every text parses (no panic) to a good string *)
Theorem C17_parse : forall text, exists w, parse_smt_literal text = Some w /\ goodw w.
Proof. exact parse_total_good. Qed.
Print Assumptions C17_parse.

(* str_* functions map good arguments to good results *)
Theorem C17_str_concat : forall s1 s2 r, goodw s1 -> goodw s2 -> str_concat s1 s2 = Some r -> goodw r.
Proof. exact str_concat_good. Qed.
Print Assumptions C17_str_concat.
Theorem C17_str_at : forall s i r, str_at s i = Some r -> goodw r.
Proof. exact str_at_good_any. Qed.
Print Assumptions C17_str_at.
Theorem C17_str_substr : forall s i n r, goodw s -> str_substr s i n = Some r -> goodw r.
Proof. exact str_substr_good. Qed.
Print Assumptions C17_str_substr.
Theorem C17_str_replace : forall s p r x, goodw s -> goodw r -> str_replace s p r = Some x -> goodw x.
Proof. exact str_replace_good. Qed.
Print Assumptions C17_str_replace.
Theorem C17_str_replace_all : forall s p r x, goodw s -> goodw r -> str_replace_all s p r = Some x -> goodw x.
Proof. exact str_replace_all_good. Qed.
Print Assumptions C17_str_replace_all.
Theorem C17_str_from_code : forall x, goodw (str_from_code x).
Proof. exact str_from_code_good. Qed.
Print Assumptions C17_str_from_code.
Theorem C17_str_from_int : forall n w, str_from_int n = Some w -> goodw w.
Proof. exact str_from_int_good. Qed.
Print Assumptions C17_str_from_int.

(* regex replace functions and get_string *)
Theorem C17_str_replace_re : forall m s1 r s2 m' x,
  goodw s1 -> goodw s2 -> str_replace_re m s1 r s2 = Some (m', x) -> goodw x.
Proof. exact str_replace_re_good. Qed.
Print Assumptions C17_str_replace_re.
Theorem C17_str_replace_re_all : forall m s1 r s2 m' x,
  goodw s1 -> goodw s2 -> str_replace_re_all m s1 r s2 = Some (m', x) -> goodw x.
Proof. exact str_replace_re_all_good. Qed.
Print Assumptions C17_str_replace_re_all.
Theorem C17_get_string : forall fuel m e m' w, get_string fuel m e = Some (m', Some w) -> goodw w.
Proof. exact get_string_good. Qed.
Print Assumptions C17_get_string.

(* a good string (of any length an SmtString can have: at most i32::MAX < u32::MAX characters) can be
   turned into a regular expression without panicking, from any well-formed manager *)
Theorem C17_str_total : forall m w, wf m -> goodw w -> N.of_nat (length w) <= U32MAX ->
  exists m' t, mstr m w = Some (m', t).
Proof. exact mstr_total. Qed.
Print Assumptions C17_str_total.

Example C17_example :
  from_str [97; 196608; 1114111; 196607] = [97; 65533; 65533; 196607] /\ from_u32 4294967295 = [65533] /\
  parse_smt_literal [92; 117; 123; 51; 48; 48; 48; 48; 125] = Some [92; 117; 123; 51; 48; 48; 48; 48; 125].
Proof. vm_compute. repeat split. Qed.
