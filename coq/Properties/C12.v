(* C12 -- merge_partitions returns the coarsest common refinement.
   Statements only; every proof is [exact <lemma>] (lemmas in MergeProofs.v).
   Vocabulary (PartitionSpec.v): [pwf p] = the intervals of p are valid, sorted, pairwise disjoint
   and [wit p] is the least number that no interval contains; [covered (ivs p) x] = x lies in some
   interval; [in_class p x CComp] = x is a good character in no interval (complementary class D);
   [same_class p x y] = x and y lie in the same interval, or both lie in no interval.
   Model (Partition.v): [pmerge_opt] is the two-pointer sweep of merge_partitions with explicit
   fuel 2(n1+n2)+2 (None = out of fuel), [pmerge] its total version, [pmerge_list] the left fold
   of merge_partition_list starting from [pnew].

   FINDING D9 (known, by design of the representation): the literal sentence of the property
   "two characters fall in the same class of merge(p1,p2) exactly when they fall in the same class
   of p1 and in the same class of p2" is FALSE from right to left: a non-complementary class must be
   one interval, so p1 = {[0,10]}, p2 = {[4,5]} gives [0,3] [4,5] [6,10] and separates 1 from 8
   (C12_literal_iff_refuted).  What holds for every input is the exact characterisation
   C12_merge_class_exact, the left-to-right direction C12_merge_refines, and the literal iff for
   all pairs outside the class KnownClass_C12 (C12_literal_iff_outside_known). *)
Require Import Base CharSet Partition PartitionSpec MergeProofs.
From Coq Require Import Permutation.
Open Scope N_scope.

(* ---- the hypothesis pwf is what new + push of valid, sorted, disjoint intervals produces
   (this is how the correspondence harness builds its inputs) *)
Theorem C12_inputs_by_push_wf : forall T, ivs_sorted T ->
  pwf (fold_left (fun r s => ppush r (fst s) (snd s)) T pnew).
Proof. exact mg_build_wf. Qed.
Print Assumptions C12_inputs_by_push_wf.

(* ---- the sweep terminates within its fuel: merge_partitions never panics, and the default
   value of the total function pmerge is never used *)
Theorem C12_merge_never_panics : forall p1 p2, pwf p1 -> pwf p2 -> pmerge_opt p1 p2 <> None.
Proof. exact merge_never_panics. Qed.
Print Assumptions C12_merge_never_panics.

Theorem C12_merge_fuel_sufficient : forall p1 p2, pwf p1 -> pwf p2 ->
  pmerge_opt p1 p2 = Some (pmerge p1 p2).
Proof. exact merge_fuel_sufficient. Qed.
Print Assumptions C12_merge_fuel_sufficient.

(* ---- the result is well formed: intervals valid, sorted, pairwise disjoint, and the witness is
   the least uncovered number *)
Theorem C12_merge_wf : forall p1 p2, pwf p1 -> pwf p2 -> pwf (pmerge p1 p2).
Proof. exact merge_wf. Qed.
Print Assumptions C12_merge_wf.

(* ---- the complementary class of the result is the intersection of the two complementary classes *)
Theorem C12_merge_covered : forall p1 p2, pwf p1 -> pwf p2 ->
  forall x, covered (ivs (pmerge p1 p2)) x <-> covered (ivs p1) x \/ covered (ivs p2) x.
Proof. exact merge_covered. Qed.
Print Assumptions C12_merge_covered.

Theorem C12_merge_complement : forall p1 p2 x, pwf p1 -> pwf p2 ->
  (in_class (pmerge p1 p2) x CComp <-> in_class p1 x CComp /\ in_class p2 x CComp).
Proof. exact merge_complement. Qed.
Print Assumptions C12_merge_complement.

(* ---- ... with a correct witness: when the class is reported non-empty the witness lies in both
   complementary classes (and is the least such number); when it is reported empty every good
   character is covered by p1 or p2 *)
Theorem C12_merge_witness : forall p1 p2, pwf p1 -> pwf p2 ->
  (pempty_complement (pmerge p1 p2) = false ->
     in_class p1 (ppick_complement (pmerge p1 p2)) CComp /\
     in_class p2 (ppick_complement (pmerge p1 p2)) CComp /\
     forall x, x < ppick_complement (pmerge p1 p2) -> covered (ivs p1) x \/ covered (ivs p2) x) /\
  (pempty_complement (pmerge p1 p2) = true ->
     forall x, good x -> covered (ivs p1) x \/ covered (ivs p2) x).
Proof. exact merge_witness. Qed.
Print Assumptions C12_merge_witness.

(* ---- exact characterisation of the classes of the result (holds for EVERY input):
   x <= y are in the same class of the merge iff both lie in D1 /\ D2, or every z in [x,y] has
   the p1-class of x and the p2-class of x *)
Theorem C12_merge_class_exact : forall p1 p2 x y, pwf p1 -> pwf p2 -> x <= y -> good y ->
  (same_class (pmerge p1 p2) x y <->
   (~ covered (ivs p1) x /\ ~ covered (ivs p2) x /\ ~ covered (ivs p1) y /\ ~ covered (ivs p2) y)
   \/ (forall z, x <= z <= y -> same_class p1 x z /\ same_class p2 x z)).
Proof. exact merge_class_exact. Qed.
Print Assumptions C12_merge_class_exact.

(* ---- refinement (the direction derivative classes and DFA alphabets rely on): any x, y *)
Theorem C12_merge_refines : forall p1 p2 x y, pwf p1 -> pwf p2 ->
  same_class (pmerge p1 p2) x y -> same_class p1 x y /\ same_class p2 x y.
Proof. exact merge_refines. Qed.
Print Assumptions C12_merge_refines.

(* ---- maximality: two neighbouring result intervals [..,e] [e+1,..] cannot be joined *)
Theorem C12_merge_maximal : forall p1 p2 i s s', pwf p1 -> pwf p2 ->
  nth_error (ivs (pmerge p1 p2)) i = Some s -> nth_error (ivs (pmerge p1 p2)) (S i) = Some s' ->
  snd s + 1 = fst s' ->
  ~ (same_class p1 (snd s) (fst s') /\ same_class p2 (snd s) (fst s')).
Proof. exact merge_maximal. Qed.
Print Assumptions C12_merge_maximal.

(* ---- coarsest: every well-formed common refinement q whose complementary class is D1 /\ D2
   refines the merge *)
Theorem C12_merge_coarsest : forall p1 p2 q, pwf p1 -> pwf p2 -> pwf q ->
  (forall x, covered (ivs q) x <-> covered (ivs p1) x \/ covered (ivs p2) x) ->
  (forall x y, same_class q x y -> same_class p1 x y /\ same_class p2 x y) ->
  forall x y, same_class q x y -> same_class (pmerge p1 p2) x y.
Proof. exact merge_coarsest. Qed.
Print Assumptions C12_merge_coarsest.

(* ---- the result is unique: a well-formed partition is determined by its covered set and its
   same-interval relation (so the facts above pin down merge_partitions completely, and
   equality with the model is the correspondence oracle) *)
Theorem C12_partition_ext : forall p q, pwf p -> pwf q ->
  (forall x, covered (ivs p) x <-> covered (ivs q) x) ->
  (forall x y, (exists s, In s (ivs p) /\ mem x s /\ mem y s) <->
               (exists s, In s (ivs q) /\ mem x s /\ mem y s)) -> p = q.
Proof. exact mg_part_ext. Qed.
Print Assumptions C12_partition_ext.

(* ---- the literal statement of the property: refuted (finding D9) ... *)
Theorem C12_literal_iff_refuted : exists p1 p2 x y, pwf p1 /\ pwf p2 /\ good x /\ good y /\
  same_class p1 x y /\ same_class p2 x y /\ ~ same_class (pmerge p1 p2) x y.
Proof. exact literal_iff_refuted. Qed.
Print Assumptions C12_literal_iff_refuted.

(* ---- ... and true outside the known class: same class in both, not both in D1 /\ D2, and some z
   strictly between them has another p1-class or p2-class than x *)
Theorem C12_known_class_def : forall p1 p2 x y,
  KnownClass_C12 p1 p2 x y <->
  (same_class p1 x y /\ same_class p2 x y /\
   ~ (~ covered (ivs p1) x /\ ~ covered (ivs p2) x /\ ~ covered (ivs p1) y /\ ~ covered (ivs p2) y) /\
   exists z, (x < z < y \/ y < z < x) /\ ~ (same_class p1 x z /\ same_class p2 x z)).
Proof. exact mg_known_class_unfold. Qed.
Print Assumptions C12_known_class_def.

Theorem C12_literal_iff_outside_known : forall p1 p2 x y, pwf p1 -> pwf p2 -> good x -> good y ->
  ~ KnownClass_C12 p1 p2 x y ->
  (same_class (pmerge p1 p2) x y <-> same_class p1 x y /\ same_class p2 x y).
Proof. exact literal_iff_outside_known. Qed.
Print Assumptions C12_literal_iff_outside_known.

(* ---- algebra: empty partition neutral, idempotent, commutative, associative *)
Theorem C12_merge_new_l : forall p, pwf p -> pmerge pnew p = p.
Proof. exact merge_new_l. Qed.
Print Assumptions C12_merge_new_l.

Theorem C12_merge_new_r : forall p, pwf p -> pmerge p pnew = p.
Proof. exact merge_new_r. Qed.
Print Assumptions C12_merge_new_r.

Theorem C12_merge_idem : forall p, pwf p -> pmerge p p = p.
Proof. exact merge_idem. Qed.
Print Assumptions C12_merge_idem.

Theorem C12_merge_comm : forall p1 p2, pwf p1 -> pwf p2 -> pmerge p1 p2 = pmerge p2 p1.
Proof. exact merge_comm. Qed.
Print Assumptions C12_merge_comm.

Theorem C12_merge_assoc : forall p1 p2 p3, pwf p1 -> pwf p2 -> pwf p3 ->
  pmerge (pmerge p1 p2) p3 = pmerge p1 (pmerge p2 p3).
Proof. exact merge_assoc. Qed.
Print Assumptions C12_merge_assoc.

(* ---- merge_partition_list: well formed, independent of the order, neutral element, and the
   n-ary versions of the class facts *)
Theorem C12_merge_list_wf : forall l, Forall pwf l -> pwf (pmerge_list l).
Proof. exact merge_list_wf. Qed.
Print Assumptions C12_merge_list_wf.

Theorem C12_merge_list_nil : pmerge_list [] = pnew.
Proof. exact merge_list_nil. Qed.
Print Assumptions C12_merge_list_nil.

Theorem C12_merge_list_single : forall p, pwf p -> pmerge_list [p] = p.
Proof. exact merge_list_single. Qed.
Print Assumptions C12_merge_list_single.

Theorem C12_merge_list_perm : forall l l', Forall pwf l -> Permutation l l' ->
  pmerge_list l = pmerge_list l'.
Proof. exact merge_list_perm. Qed.
Print Assumptions C12_merge_list_perm.

Theorem C12_merge_list_app : forall l1 l2, Forall pwf l1 -> Forall pwf l2 ->
  pmerge_list (l1 ++ l2) = pmerge (pmerge_list l1) (pmerge_list l2).
Proof. exact merge_list_app. Qed.
Print Assumptions C12_merge_list_app.

Theorem C12_merge_list_class_exact : forall l x y, Forall pwf l -> x <= y -> good y ->
  (same_class (pmerge_list l) x y <->
   (forall p, In p l -> ~ covered (ivs p) x /\ ~ covered (ivs p) y)
   \/ (forall z, x <= z <= y -> forall p, In p l -> same_class p x z)).
Proof. exact merge_list_class_exact. Qed.
Print Assumptions C12_merge_list_class_exact.

Theorem C12_merge_list_refines : forall l x y, Forall pwf l ->
  same_class (pmerge_list l) x y -> forall p, In p l -> same_class p x y.
Proof. exact merge_list_refines. Qed.
Print Assumptions C12_merge_list_refines.

Theorem C12_merge_list_complement : forall l x, Forall pwf l ->
  (in_class (pmerge_list l) x CComp <-> good x /\ forall p, In p l -> in_class p x CComp).
Proof. exact merge_list_complement. Qed.
Print Assumptions C12_merge_list_complement.

(* non-vacuity: hypotheses are satisfiable and the functions compute.  The first example is the
   doc-test of merge_partitions; the second is the D9 witness, which lies in KnownClass_C12. *)
Example C12_example_doc :
  let p := ppush (ppush pnew 48 57) 97 103 in
  let q := ppush (ppush pnew 53 53) 99 122 in
  pwfb p = true /\ pwfb q = true /\
  pmerge_opt p q = Some {| ivs := [(48, 52); (53, 53); (54, 57); (97, 98); (99, 103); (104, 122)]; wit := 0 |}.
Proof. vm_compute. repeat split; reflexivity. Qed.

Example C12_example_d9 :
  pwf mg_d9_p1 /\ pwf mg_d9_p2 /\ KnownClass_C12 mg_d9_p1 mg_d9_p2 1 8 /\
  pmerge mg_d9_p1 mg_d9_p2 = {| ivs := [(0, 3); (4, 5); (6, 10)]; wit := 11 |} /\
  pmerge_list [mg_d9_p2; mg_d9_p1; pnew] = pmerge mg_d9_p1 mg_d9_p2.
Proof.
  split; [exact mg_d9_wf1 | split; [exact mg_d9_wf2 | split; [exact mg_d9_known | split]]];
    vm_compute; reflexivity.
Qed.
