(* C19t -- Termination of the derivative exploration (additional file for property C19).

   "iter_derivatives(e) terminates ..."  In the model, [iter_derivatives fuel m e] runs the BFS of
   ReManager::iter_derivatives on explicit fuel and returns None when the fuel runs out OR when a
   class derivative panics.  The statement that was left open in C19.v,

     C19_iter_terminates : forall m e, dwf m -> owned m e ->
                             exists fuel m' l, iter_derivatives fuel m e = Some (m', l),

   is FALSE as it stands (C19_iter_terminates_refuted below): the derivative of
   (b | c a^4294967295) a^5 by c rebuilds a^4294967295 . a^5, and the u32 addition of the loop
   bounds in ReManager::concat panics (confirmed on the crate: "Arithmetic overflow (add u32)" in
   char_derivative and in iter_derivatives).  What IS proved, with no bound on sizes or steps:

   (1) C19_iter_no_divergence: the exploration cannot run forever.  For every manager m that is
       well formed (dwf) and whose derivative cache is honest (hon, see below) and every owned
       term e, the three-valued run [iter_status] with fuel  term_bound (counter m) (phi e) + 1
       is not OutOfFuel: it has returned, or a class derivative has panicked.  This is Brzozowski's
       finiteness theorem for this crate's normal forms (flattening, id-sorted ACI unions and
       intersections, neutral / absorbing elements, complementary pairs, subsumption pruning by the
       syntactic inclusion test, the ten concat rules with re-association and loop merging,
       loop-of-loop flattening, complement by id xor 1), for the full term language (complement and
       intersection included) and for arbitrary, not necessarily normalised, owned terms.
   (2) C19_cached_deriv_total_bounded_potential_partial / C19_iter_terminates_bounded_potential_partial:
       if the potential phi e of the start term is at most U32MAX, no constructor call inside any
       derivative panics and the exploration returns Some.  phi e is a number computed from the
       term alone; C19_iter_terminates_program_partial bounds it by [pphi p], computed from the
       construction program alone (string lengths, loop bounds).
   (3) the users of the exploration (is_empty_re, get_string, compile, try_compile) return under the
       same hypotheses.

   Method.  [phi] (Termination.v) is a potential on terms: concatenations count max-plus along the
   list (an operand in non-final position costs its potential plus the virtual length [vl] of what
   follows), a loop R^[i,j] costs like j copies of R followed by nothing, R^[i,inf) like i copies
   followed by a star, unions / intersections / complements cost one more than their operands, and a
   non-union term pays one extra unit (CW) wherever a derivative may replace it by a union.
   C19t_constructors_potential: every smart constructor returns a term whose potential is at most
   that of the node it stands for (all ten concat rules, loop merging included, are equalities or
   decreases for this potential).  C19t_derivative_potential: hence phi (d_c e) <= phi e.  The
   potential bounds the height, the concat lengths and the loop counters of a term, the nodes
   created by derivatives are never leaves and have duplicate-free operand lists ([nn]), so after
   erasing the ids of the new nodes ([erase], injective on the terms of one manager:
   C19t_erase_injective) every reachable term lies in an explicit finite list
   ([universe]; C19t_count_bound), and the duplicate-free seen list of the BFS cannot grow beyond its
   length [term_bound].

   Vocabulary.
   - [hon m]: every entry ((i,cid),d) of the derivative cache of m satisfies phi d <= phi e for the
     owned term e with id i.  It holds for new_mgr and is preserved by every constructor, derivative
     and exploration (C19_honest_new, _run, _iter), i.e. for every manager the public API can reach; it is a
     hypothesis because dwf only constrains the LANGUAGE of cached derivatives, not their syntax.
   - [iter_status]: [iter_derivatives] with the two reasons for None told apart:
     Panicked = a class derivative returned None (the Rust code panics), OutOfFuel = fuel ran out.
   - [nn c0 m]: the nodes of m with id >= c0 are concatenations, loops, complements, or unions /
     intersections with duplicate-free operand lists.

   NOT PROVED: that [hon] is necessary (no diverging run from a dishonest but dwf manager was
   found), and a tight bound ([term_bound] is a tower of exponentials in phi e).                  *)
Require Import Base CharSet Partition PartitionSpec LoopRange Regex Inclusion Constructors Deriv Explore
  Automaton Compile Denote Sem ManagerProofs RunProofs DerivProofs.
Require Import Termination TerminationPot TerminationNorm TerminationDeriv TerminationFin TerminationTotal
  TerminationRun TerminationProofs TerminationUsers.
Open Scope N_scope.

(* ---------------- the potential through the constructors and the derivative ---------------- *)

Theorem C19t_constructors_potential :
  (forall e1 m e2 m' t, wf m -> owned m e1 -> owned m e2 -> concat e1 m e2 = Some (m', t) ->
     pa t <= N.max (phi e1 + vl e2) (pa e2) /\ vl t <= vl e1 + vl e2) /\
  (forall m e rg m' t, wf m -> owned m e -> lr_valid rg -> mk_loop m e rg = Some (m', t) ->
     pa t <= loop_pa e rg /\ vl t <= loop_vl e rg) /\
  (forall m l m' t B, wf m -> (forall x, In x l -> owned m x) -> union_list m l = Some (m', t) ->
     CW + 1 <= B -> (forall x, In x l -> phi x <= B) -> phi t <= B) /\
  (forall m l m' t B, wf m -> (forall x, In x l -> owned m x) -> inter_list m l = Some (m', t) ->
     2 <= B -> (forall x, In x l -> phi x <= B) -> phi t <= CW + CW + B) /\
  (forall m e r, wf m -> owned m e -> complement m e = Some r -> phi r <= CW + 1 + phi e).
Proof. exact constructors_potential. Qed.
Print Assumptions C19t_constructors_potential.

(* a class derivative never has a larger potential than its term; the invariants are kept *)
Theorem C19t_derivative_potential : forall c0 e m cid m' d,
  dwf m -> hon m -> nn c0 m -> owned m e -> pvalid (rcls e) cid = true ->
  cached_deriv e m cid = Some (m', d) ->
  (dwf m' /\ ext m m' /\ owned m' d) /\ phi d <= phi e /\ hon m' /\ nn c0 m'.
Proof. exact cached_deriv_pot. Qed.
Print Assumptions C19t_derivative_potential.

(* ---------------- finiteness ---------------- *)

Theorem C19t_erase_injective : forall c0 m, wf m -> nn c0 m ->
  forall a b, owned m a -> owned m b -> erase c0 a = erase c0 b -> a = b.
Proof. exact erase_inj. Qed.
Print Assumptions C19t_erase_injective.

Theorem C19t_in_universe : forall c0 P m, wf m -> nzm m -> nn c0 m ->
  forall n t, owned m t -> pa t <= P -> rank P t <= N.of_nat n -> In (erase c0 t) (universe c0 P n).
Proof. exact in_universe. Qed.
Print Assumptions C19t_in_universe.

(* a list of owned terms of potential <= P without two equal ids has at most term_bound elements *)
Theorem C19t_count_bound : forall c0 P m s, wf m -> nzm m -> nn c0 m ->
  (forall t, In t s -> owned m t) -> (forall t, In t s -> pa t <= P) -> NoDup (map rid s) ->
  (length s <= term_bound c0 P)%nat.
Proof. exact count_bound. Qed.
Print Assumptions C19t_count_bound.

(* ---------------- the three-valued run ---------------- *)

Theorem C19t_status_finished_iff : forall fuel m e m' l,
  iter_status fuel m e = Finished m' l <-> iter_derivatives fuel m e = Some (m', l).
Proof. exact iter_status_finished. Qed.
Print Assumptions C19t_status_finished_iff.

(* Panicked: some class derivative (for a valid class id of its term) returned None, and then no
   amount of fuel makes the run return *)
Theorem C19t_status_panicked : forall fuel m e, iter_status fuel m e = Panicked ->
  (forall fuel', iter_derivatives fuel' m e = None) /\
  exists m1 r cid, pvalid (rcls r) cid = true /\ cached_deriv r m1 cid = None.
Proof. exact status_panicked_spec. Qed.
Print Assumptions C19t_status_panicked.

(* ---------------- termination ---------------- *)

(* (1) no divergence, for every honest manager and every owned term *)
Theorem C19_iter_no_divergence : forall m e, dwf m -> hon m -> owned m e ->
  iter_status (S (term_bound (counter m) (phi e))) m e <> OutOfFuel.
Proof. exact iter_no_divergence. Qed.
Print Assumptions C19_iter_no_divergence.

Theorem C19_iter_terminates_or_panics : forall m e, dwf m -> hon m -> owned m e ->
  (exists fuel m' l, iter_derivatives fuel m e = Some (m', l)) \/
  (exists m1 r cid, pvalid (rcls r) cid = true /\ cached_deriv r m1 cid = None).
Proof. exact iter_terminates_or_panics. Qed.
Print Assumptions C19_iter_terminates_or_panics.

(* (2) no constructor call inside a derivative panics if the potential fits in a u32 *)
Theorem C19_cached_deriv_total_bounded_potential_partial : forall e m cid,
  dwf m -> hon m -> owned m e -> pvalid (rcls e) cid = true -> phi e <= U32MAX ->
  exists m' d, cached_deriv e m cid = Some (m', d).
Proof. exact cached_deriv_total. Qed.
Print Assumptions C19_cached_deriv_total_bounded_potential_partial.

(* full statement C19_iter_terminates (header) + the two hypotheses [hon m] and [phi e <= U32MAX] *)
Theorem C19_iter_terminates_bounded_potential_partial : forall m e,
  dwf m -> hon m -> owned m e -> phi e <= U32MAX ->
  exists m' l, iter_derivatives (S (term_bound (counter m) (phi e))) m e = Some (m', l).
Proof. exact iter_terminates_small. Qed.
Print Assumptions C19_iter_terminates_bounded_potential_partial.

(* for the term built by a construction program (the public constructors), from any honest manager,
   with the bound computed from the program *)
Theorem C19_iter_terminates_program_partial : forall p m0 m e,
  dwf m0 -> hon m0 -> prog_ok p = true -> run p m0 = Some (m, e) -> pphi p <= U32MAX ->
  exists m' l, iter_derivatives (S (term_bound (counter m) (phi e))) m e = Some (m', l).
Proof. exact program_iter_terminates_pphi. Qed.
Print Assumptions C19_iter_terminates_program_partial.

Theorem C19t_program_potential : forall p m m' t, wf m -> prog_ok p = true -> run p m = Some (m', t) ->
  phi t <= pphi p /\ vl t <= pvl p.
Proof. exact run_pot. Qed.
Print Assumptions C19t_program_potential.

Theorem C19_program_iter_no_divergence : forall p m e, prog_ok p = true -> run p new_mgr = Some (m, e) ->
  iter_status (S (term_bound (counter m) (phi e))) m e <> OutOfFuel.
Proof. exact program_iter_no_divergence. Qed.
Print Assumptions C19_program_iter_no_divergence.

(* every completed run enumerates at most term_bound terms, all of potential <= phi e, and leaves
   an honest, well-formed manager *)
Theorem C19_iter_length_bound : forall fuel m e m' l, dwf m -> hon m -> owned m e ->
  iter_derivatives fuel m e = Some (m', l) -> (length l <= term_bound (counter m) (phi e))%nat.
Proof. exact iter_length_bound. Qed.
Print Assumptions C19_iter_length_bound.

Theorem C19_iter_potential : forall fuel m e m' l, dwf m -> hon m -> owned m e ->
  iter_derivatives fuel m e = Some (m', l) -> forall t, In t l -> phi t <= phi e.
Proof. exact iter_potential. Qed.
Print Assumptions C19_iter_potential.

(* ---------------- the honest-cache invariant ---------------- *)

Theorem C19_honest_new : dwf new_mgr /\ hon new_mgr.
Proof. exact honest_new. Qed.
Print Assumptions C19_honest_new.

Theorem C19_honest_run : forall p m m' t, dwf m -> hon m -> prog_ok p = true -> run p m = Some (m', t) -> hon m'.
Proof. exact run_hon. Qed.
Print Assumptions C19_honest_run.

Theorem C19_honest_iter : forall fuel m e m' l, dwf m -> hon m -> owned m e ->
  iter_derivatives fuel m e = Some (m', l) -> dwf m' /\ hon m'.
Proof. exact iter_hon. Qed.
Print Assumptions C19_honest_iter.

(* ---------------- the unconditional statements are false ---------------- *)

(* a manager and a term built by the public constructors on which a derivative panics, so that the
   exploration returns for no fuel; its potential is U32MAX + 9 *)
Theorem C19_iter_terminates_refuted :
  exists m e, prog_ok overflow_prog = true /\ run overflow_prog new_mgr = Some (m, e) /\
    dwf m /\ hon m /\ owned m e /\
    pvalid (rcls e) (CInt 1) = true /\ cached_deriv e m (CInt 1) = None /\
    (forall fuel, iter_derivatives fuel m e = None) /\
    phi e = U32MAX + 9.
Proof. exact iter_overflow_witness. Qed.
Print Assumptions C19_iter_terminates_refuted.

Theorem C19_iter_terminates_unconditional_refuted :
  ~ (forall m e, dwf m -> owned m e -> exists fuel m' l, iter_derivatives fuel m e = Some (m', l)).
Proof. exact iter_terminates_unconditional_refuted. Qed.
Print Assumptions C19_iter_terminates_unconditional_refuted.

Theorem C19_cached_deriv_total_refuted :
  ~ (forall m e cid, dwf m -> owned m e -> pvalid (rcls e) cid = true ->
       exists m' d, cached_deriv e m cid = Some (m', d)).
Proof. exact cached_deriv_total_unconditional_refuted. Qed.
Print Assumptions C19_cached_deriv_total_refuted.

(* ---------------- the users of the exploration return ---------------- *)

Theorem C19_is_empty_re_terminates_partial : forall m e, dwf m -> hon m -> owned m e -> phi e <= U32MAX ->
  exists fuel m' b, is_empty_re fuel m e = Some (m', b).
Proof. exact is_empty_re_terminates. Qed.
Print Assumptions C19_is_empty_re_terminates_partial.

Theorem C19_get_string_terminates_partial : forall m e, dwf m -> hon m -> owned m e -> phi e <= U32MAX ->
  exists fuel m' res, get_string fuel m e = Some (m', res).
Proof. exact get_string_terminates. Qed.
Print Assumptions C19_get_string_terminates_partial.

Theorem C19_compile_terminates_partial : forall m e, dwf m -> hon m -> owned m e -> phi e <= U32MAX ->
  exists fuel m' A, compile_with_bound fuel m e None = Some (m', Some A).
Proof. exact compile_terminates. Qed.
Print Assumptions C19_compile_terminates_partial.

Theorem C19_try_compile_terminates_partial : forall m e n, dwf m -> hon m -> owned m e -> phi e <= U32MAX ->
  exists fuel m' oa, compile_with_bound fuel m e (Some n) = Some (m', oa).
Proof. exact try_compile_terminates. Qed.
Print Assumptions C19_try_compile_terminates_partial.

(* ---------------- the hypotheses are satisfiable; the definitions compute ---------------- *)

(* ((ab|[c-d]){2,5} . ~(a))* & .* : built from new_mgr, potential 13 (bound from the program: 48),
   23 derivatives, all of potential <= 13 *)
Definition ex_prog : prog :=
  PInter (PLoop (PConcat (PLoop (PUnion (PStr [97; 98]) (PRange 99 100)) 2 (Some 5)) (PComp (PStr [97]))) 0 None) PAll.
Example ex_prog_ok : prog_ok ex_prog = true /\ pphi ex_prog = 48 /\ pphi ex_prog <= U32MAX.
Proof. split; [reflexivity|]. split; [reflexivity | vm_compute; discriminate]. Qed.
Example ex_run :
  match run ex_prog new_mgr with
  | Some (m, e) =>
      (phi e =? 13) &&
      match iter_derivatives 50 m e with
      | Some (_, l) => Nat.eqb (length l) 23 && forallb (fun t => phi t <=? 13) l
      | None => false
      end
  | None => false
  end = true.
Proof. vm_compute. reflexivity. Qed.
(* the potential of the overflow witness is just above the threshold, that of a^4294967295 . b is below *)
Example ex_threshold :
  pphi (PConcat (PLoop (PRange 97 97) 4294967280 (Some 4294967280)) (PRange 98 98)) <= U32MAX /\
  U32MAX < pphi overflow_prog.
Proof. split; vm_compute; [discriminate | reflexivity]. Qed.
