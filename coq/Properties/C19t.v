(* C19t -- Termination of the derivative exploration (additional file for property C19).

   "iter_derivatives(e) terminates ..."  In the model, [iter_derivatives fuel m e] runs the BFS of
   ReManager::iter_derivatives on explicit fuel and returns None when the fuel runs out OR when a
   class derivative panics.  The statement that was left open in C19.v,

     C19_iter_terminates : forall m e, dwf m -> owned m e ->
                             exists fuel m' l, iter_derivatives fuel m e = Some (m', l),

   was FALSE for the pinned code (defect D11): the derivative of (b | c a^4294967295) a^5 by c rebuilds
   a^4294967295 . a^5, and the u32 addition of the loop bounds in ReManager::concat panicked
   (confirmed on the crate: "Arithmetic overflow (add u32)" in char_derivative and in
   iter_derivatives).  D11 is repaired in the crate (the loop-merging rules of concat and the
   loop-of-loop flattening of mk_loop apply only when the new bounds fit in u32) and in the model;
   C01_concat_prefix_panics / D11_prefix_witness record the old behaviour.  What is proved now, with no
   bound on sizes, steps or loop bounds:

   (1) C19_iter_no_divergence: the exploration cannot run forever.  For every manager m that is
       well formed (dwf) and whose derivative cache is honest (hon, see below) and every owned
       term e, the three-valued run [iter_status] with fuel  term_bound (counter m) (phi e) + 1
       is not OutOfFuel.  This is Brzozowski's
       finiteness theorem for this crate's normal forms (flattening, id-sorted ACI unions and
       intersections, neutral / absorbing elements, complementary pairs, subsumption pruning by the
       syntactic inclusion test, the ten concat rules with re-association and guarded loop merging,
       guarded loop-of-loop flattening, complement by id xor 1), for the full term language (complement and
       intersection included) and for arbitrary, not necessarily normalised, owned terms.
   (2) C19_cached_deriv_total / C19_iter_never_panics / C19_iter_terminates: no constructor call
       inside any derivative panics and the exploration returns Some, for every owned term
       (before the repair: only for terms of potential phi e <= U32MAX).
       C19_iter_terminates_program: every accepted construction program followed by the
       exploration of its result returns.
   (3) the users of the exploration (is_empty_re, get_string, compile, try_compile) return under the
       same hypotheses.

   Method.  [phi] (Termination.v) is a potential on terms: concatenations count max-plus along the
   list (an operand in non-final position costs its potential plus the virtual length [vl] of what
   follows), a loop R^[i,j] costs like j copies of R followed by nothing, R^[i,inf) like i copies
   followed by a star, unions / intersections / complements cost one more than their operands, and a
   non-union term pays one extra unit (CW) wherever a derivative may replace it by a union.
   C19t_constructors_potential: every smart constructor returns a term whose potential is at most
   that of the node it stands for (all ten concat rules, loop merging included, are equalities or
   decreases for this potential; a merge that is skipped because its bounds leave u32 yields the
   plain node, whose potential is the bound itself).  C19t_derivative_potential: hence phi (d_c e) <= phi e.  The
   potential bounds the height, the concat lengths and the loop counters of a term, the nodes
   created by derivatives are never leaves and have duplicate-free operand lists ([nn]), so after
   erasing the ids of the new nodes ([erase], injective on the terms of one manager:
   C19t_erase_injective) every reachable term lies in an explicit finite list
   ([universe]; C19t_count_bound), and the duplicate-free seen list of the BFS cannot grow beyond its
   length [term_bound].

   Vocabulary.
   - [hon m]: every entry ((i,cid),d) of the derivative cache of m satisfies phi d <= phi e for the
     owned term e with id i.  It holds for new_mgr and is preserved by every constructor, derivative
     and exploration (C19_honest_new, _run, _iter), i.e. for every manager the public API can reach; it is a
     hypothesis because dwf only constrains the LANGUAGE of cached derivatives, not their syntax.
   - [iter_status]: [iter_derivatives] with the two reasons for None told apart:
     Panicked = a class derivative returned None (the Rust code panics; impossible since the repair
     of D11: C19_iter_never_panics), OutOfFuel = fuel ran out.
   - [nn c0 m]: the nodes of m with id >= c0 are concatenations, loops, complements, or unions /
     intersections with duplicate-free operand lists.

   NOT PROVED: that [hon] is necessary (no diverging run from a dishonest but dwf manager was
   found; every manager the API can reach is honest), and a tight bound ([term_bound] is a tower of
   exponentials in phi e).                                                                       *)
Require Import Base CharSet Partition PartitionSpec LoopRange Regex Inclusion Constructors Deriv Explore
  Automaton Compile Denote Sem ManagerProofs ConstructorProofs RunProofs DerivProofs.
Require Import Termination TerminationPot TerminationNorm TerminationDeriv TerminationFin TerminationTotal
  TerminationRun TerminationProofs TerminationUsers.
Open Scope N_scope.

(* ---------------- the potential through the constructors and the derivative ---------------- *)

Theorem C19t_constructors_potential :
  (forall e1 m e2 m' t, wf m -> owned m e1 -> owned m e2 -> concat e1 m e2 = Some (m', t) ->
     pa t <= N.max (phi e1 + vl e2) (pa e2) /\ vl t <= vl e1 + vl e2) /\
  (forall m e rg m' t, wf m -> owned m e -> lr_valid rg -> mk_loop m e rg = Some (m', t) ->
     pa t <= loop_pa e rg /\ vl t <= loop_vl e rg) /\
  (forall m l m' t B, wf m -> (forall x, In x l -> owned m x) -> union_list m l = Some (m', t) ->
     CW + 1 <= B -> (forall x, In x l -> phi x <= B) -> phi t <= B) /\
  (forall m l m' t B, wf m -> (forall x, In x l -> owned m x) -> inter_list m l = Some (m', t) ->
     2 <= B -> (forall x, In x l -> phi x <= B) -> phi t <= CW + CW + B) /\
  (forall m e r, wf m -> owned m e -> complement m e = Some r -> phi r <= CW + 1 + phi e).
Proof. exact constructors_potential. Qed.
Print Assumptions C19t_constructors_potential.

(* a class derivative never has a larger potential than its term; the invariants are kept *)
Theorem C19t_derivative_potential : forall c0 e m cid m' d,
  dwf m -> hon m -> nn c0 m -> owned m e -> pvalid (rcls e) cid = true ->
  cached_deriv e m cid = Some (m', d) ->
  (dwf m' /\ ext m m' /\ owned m' d) /\ phi d <= phi e /\ hon m' /\ nn c0 m'.
Proof. exact cached_deriv_pot. Qed.
Print Assumptions C19t_derivative_potential.

(* ---------------- finiteness ---------------- *)

Theorem C19t_erase_injective : forall c0 m, wf m -> nn c0 m ->
  forall a b, owned m a -> owned m b -> erase c0 a = erase c0 b -> a = b.
Proof. exact erase_inj. Qed.
Print Assumptions C19t_erase_injective.

Theorem C19t_in_universe : forall c0 P m, wf m -> nzm m -> nn c0 m ->
  forall n t, owned m t -> pa t <= P -> rank P t <= N.of_nat n -> In (erase c0 t) (universe c0 P n).
Proof. exact in_universe. Qed.
Print Assumptions C19t_in_universe.

(* a list of owned terms of potential <= P without two equal ids has at most term_bound elements *)
Theorem C19t_count_bound : forall c0 P m s, wf m -> nzm m -> nn c0 m ->
  (forall t, In t s -> owned m t) -> (forall t, In t s -> pa t <= P) -> NoDup (map rid s) ->
  (length s <= term_bound c0 P)%nat.
Proof. exact count_bound. Qed.
Print Assumptions C19t_count_bound.

(* ---------------- the three-valued run ---------------- *)

Theorem C19t_status_finished_iff : forall fuel m e m' l,
  iter_status fuel m e = Finished m' l <-> iter_derivatives fuel m e = Some (m', l).
Proof. exact iter_status_finished. Qed.
Print Assumptions C19t_status_finished_iff.

(* Panicked: some class derivative (for a valid class id of its term) returned None, and then no
   amount of fuel makes the run return *)
Theorem C19t_status_panicked : forall fuel m e, iter_status fuel m e = Panicked ->
  (forall fuel', iter_derivatives fuel' m e = None) /\
  exists m1 r cid, pvalid (rcls r) cid = true /\ cached_deriv r m1 cid = None.
Proof. exact status_panicked_spec. Qed.
Print Assumptions C19t_status_panicked.

(* ---------------- termination ---------------- *)

(* (1) no divergence, for every honest manager and every owned term *)
Theorem C19_iter_no_divergence : forall m e, dwf m -> hon m -> owned m e ->
  iter_status (S (term_bound (counter m) (phi e))) m e <> OutOfFuel.
Proof. exact iter_no_divergence. Qed.
Print Assumptions C19_iter_no_divergence.

Theorem C19_iter_terminates_or_panics : forall m e, dwf m -> hon m -> owned m e ->
  (exists fuel m' l, iter_derivatives fuel m e = Some (m', l)) \/
  (exists m1 r cid, pvalid (rcls r) cid = true /\ cached_deriv r m1 cid = None).
Proof. exact iter_terminates_or_panics. Qed.
Print Assumptions C19_iter_terminates_or_panics.

(* (2) no constructor call inside a derivative panics (D11 repaired): no bound on the potential, and the
   honest-cache hypothesis is not needed for this *)
Theorem C19_cached_deriv_total : forall e m cid,
  dwf m -> owned m e -> pvalid (rcls e) cid = true ->
  exists m' d, cached_deriv e m cid = Some (m', d).
Proof. exact cached_deriv_total. Qed.
Print Assumptions C19_cached_deriv_total.

(* ... and what it returns is no larger and keeps the invariants of the termination argument *)
Theorem C19_cached_deriv_total_potential : forall c0 e m cid,
  dwf m -> hon m -> nn c0 m -> owned m e -> pvalid (rcls e) cid = true ->
  exists m' d, cached_deriv e m cid = Some (m', d) /\
    (dwf m' /\ ext m m' /\ owned m' d) /\ phi d <= phi e /\ hon m' /\ nn c0 m'.
Proof. exact cached_deriv_total_pot. Qed.
Print Assumptions C19_cached_deriv_total_potential.

Theorem C19_iter_never_panics : forall fuel m e, dwf m -> hon m -> owned m e ->
  iter_status fuel m e <> Panicked.
Proof. exact iter_never_panics. Qed.
Print Assumptions C19_iter_never_panics.

(* the statement C19_iter_terminates of the header, for every manager with an honest cache (every
   manager the public API can reach: C19_honest_new, _run, _iter); the fuel is explicit *)
Theorem C19_iter_terminates : forall m e,
  dwf m -> hon m -> owned m e ->
  exists m' l, iter_derivatives (S (term_bound (counter m) (phi e))) m e = Some (m', l).
Proof. exact iter_terminates. Qed.
Print Assumptions C19_iter_terminates.

(* for the term built by a construction program (the public constructors) from any honest manager:
   the program runs (C01_run_total) and the exploration of its result returns *)
Theorem C19_iter_terminates_program : forall p m0, dwf m0 -> hon m0 -> prog_ok p = true ->
  exists m e m' l, run p m0 = Some (m, e) /\
    iter_derivatives (S (term_bound (counter m) (phi e))) m e = Some (m', l).
Proof. exact program_iter_total. Qed.
Print Assumptions C19_iter_terminates_program.

Theorem C19t_program_potential : forall p m m' t, wf m -> prog_ok p = true -> run p m = Some (m', t) ->
  phi t <= pphi p /\ vl t <= pvl p.
Proof. exact run_pot. Qed.
Print Assumptions C19t_program_potential.

Theorem C19_program_iter_no_divergence : forall p m e, prog_ok p = true -> run p new_mgr = Some (m, e) ->
  iter_status (S (term_bound (counter m) (phi e))) m e <> OutOfFuel.
Proof. exact program_iter_no_divergence. Qed.
Print Assumptions C19_program_iter_no_divergence.

(* every completed run enumerates at most term_bound terms, all of potential <= phi e, and leaves
   an honest, well-formed manager *)
Theorem C19_iter_length_bound : forall fuel m e m' l, dwf m -> hon m -> owned m e ->
  iter_derivatives fuel m e = Some (m', l) -> (length l <= term_bound (counter m) (phi e))%nat.
Proof. exact iter_length_bound. Qed.
Print Assumptions C19_iter_length_bound.

Theorem C19_iter_potential : forall fuel m e m' l, dwf m -> hon m -> owned m e ->
  iter_derivatives fuel m e = Some (m', l) -> forall t, In t l -> phi t <= phi e.
Proof. exact iter_potential. Qed.
Print Assumptions C19_iter_potential.

(* ---------------- the honest-cache invariant ---------------- *)

Theorem C19_honest_new : dwf new_mgr /\ hon new_mgr.
Proof. exact honest_new. Qed.
Print Assumptions C19_honest_new.

Theorem C19_honest_run : forall p m m' t, dwf m -> hon m -> prog_ok p = true -> run p m = Some (m', t) -> hon m'.
Proof. exact run_hon. Qed.
Print Assumptions C19_honest_run.

Theorem C19_honest_iter : forall fuel m e m' l, dwf m -> hon m -> owned m e ->
  iter_derivatives fuel m e = Some (m', l) -> dwf m' /\ hon m'.
Proof. exact iter_hon. Qed.
Print Assumptions C19_honest_iter.

(* ---------------- defect D11: the old behaviour, and the witness term after the repair ---------------- *)

(* a^4294967295 and a^5, built by the public constructors: the pre-repair concat rule
   R^[a,b].R^[c,d] -> R^[a+c,b+d] adds the bounds with the panicking LoopRange::add (None);
   the repaired concat returns the plain concatenation node *)
Theorem D11_prefix_witness :
  exists m1 x m2 y, run d11_left new_mgr = Some (m1, x) /\ run d11_right m1 = Some (m2, y) /\
    (exists a, rnode x = NLoop a (LR 4294967295 (Some 4294967295)) /\ rnode y = NLoop a (LR 5 (Some 5))) /\
    lr_add (LR 4294967295 (Some 4294967295)) (LR 5 (Some 5)) = None /\
    concat_prefix x m2 y = None /\
    exists m3 t, concat x m2 y = Some (m3, t) /\ rnode t = NConcat x y.
Proof. exact TerminationProofs.D11_prefix_witness. Qed.
Print Assumptions D11_prefix_witness.

(* (b | c a^4294967295) a^5, potential U32MAX + 9: this was the witness of C19_iter_terminates_refuted
   (its derivative by c panicked).  Now the class derivative and char_derivative by c return, and the
   exploration returns (by C19_iter_terminates; it enumerates about 2^32 terms) *)
Theorem C19_iter_overflow_witness_repaired :
  exists m e, prog_ok overflow_prog = true /\ run overflow_prog new_mgr = Some (m, e) /\
    dwf m /\ hon m /\ owned m e /\ phi e = U32MAX + 9 /\
    pvalid (rcls e) (CInt 1) = true /\
    (exists m' d, cached_deriv e m (CInt 1) = Some (m', d)) /\
    (exists m' d, char_derivative m e 99 = Some (m', d)) /\
    (exists fuel m' l, iter_derivatives fuel m e = Some (m', l)).
Proof. exact iter_overflow_witness_repaired. Qed.
Print Assumptions C19_iter_overflow_witness_repaired.

(* ---------------- the users of the exploration return ---------------- *)

Theorem C19_is_empty_re_terminates : forall m e, dwf m -> hon m -> owned m e ->
  exists fuel m' b, is_empty_re fuel m e = Some (m', b).
Proof. exact is_empty_re_terminates. Qed.
Print Assumptions C19_is_empty_re_terminates.

Theorem C19_get_string_terminates : forall m e, dwf m -> hon m -> owned m e ->
  exists fuel m' res, get_string fuel m e = Some (m', res).
Proof. exact get_string_terminates. Qed.
Print Assumptions C19_get_string_terminates.

Theorem C19_compile_terminates : forall m e, dwf m -> hon m -> owned m e ->
  exists fuel m' A, compile_with_bound fuel m e None = Some (m', Some A).
Proof. exact compile_terminates. Qed.
Print Assumptions C19_compile_terminates.

Theorem C19_try_compile_terminates : forall m e n, dwf m -> hon m -> owned m e ->
  exists fuel m' oa, compile_with_bound fuel m e (Some n) = Some (m', oa).
Proof. exact try_compile_terminates. Qed.
Print Assumptions C19_try_compile_terminates.

(* ---------------- the hypotheses are satisfiable; the definitions compute ---------------- *)

(* ((ab|[c-d]){2,5} . ~(a))* & .* : built from new_mgr, potential 13 (bound from the program: 48),
   23 derivatives, all of potential <= 13 *)
Definition ex_prog : prog :=
  PInter (PLoop (PConcat (PLoop (PUnion (PStr [97; 98]) (PRange 99 100)) 2 (Some 5)) (PComp (PStr [97]))) 0 None) PAll.
Example ex_prog_ok : prog_ok ex_prog = true /\ pphi ex_prog = 48 /\ pphi ex_prog <= U32MAX.
Proof. split; [reflexivity|]. split; [reflexivity | vm_compute; discriminate]. Qed.
Example ex_run :
  match run ex_prog new_mgr with
  | Some (m, e) =>
      (phi e =? 13) &&
      match iter_derivatives 50 m e with
      | Some (_, l) => Nat.eqb (length l) 23 && forallb (fun t => phi t <=? 13) l
      | None => false
      end
  | None => false
  end = true.
Proof. vm_compute. reflexivity. Qed.
(* the potential of the D11 witness is above U32MAX (no bound on the potential is needed any more) *)
Example ex_threshold :
  pphi (PConcat (PLoop (PRange 97 97) 4294967280 (Some 4294967280)) (PRange 98 98)) <= U32MAX /\
  U32MAX < pphi overflow_prog.
Proof. split; vm_compute; [discriminate | reflexivity]. Qed.
