(* C13 -- AutomatonBuilder::build accepts exactly the complete, conflict-free specifications and
   returns the automaton the caller specified.
   Statements only; every proof is [exact <lemma>] (lemmas: BuilderProofs.v).

   Vocabulary.  A *specification* is the sequence of builder calls, a history
   h = BNew k0 :: ops (BuilderSpec.v): [BAdd k s k'] = add_transition(k, s, k'), [BDef k k'] =
   set_default_successor(k, k'), [BFin k] = mark_final(k); state names are numbers.
   [ops_ok ops]: no further new() and every label is a legal CharSet (start <= end <= MAX_CHAR).
   Read off the history alone (BuilderSpec.v): [h_names h] = the names in first-mention order,
   [name_id h k] = position of k in it, [h_labels h k] = the labelled transitions given for k,
   [h_default h k] = the default declared last, [h_final h k] = marked final,
   [spec_delta h k c] = target of the first given transition of k whose label contains c, else the
   declared default.  [hl h k] = the labels of k; [covered l c] = c lies in some set of l;
   [pairwise_disjoint l] = no character lies in two sets of l (PartitionSpec.v);
   [some_uncovered l] = some good character lies in no set of l.
   Model (Automaton.v): [run_history h] = the builder after the calls, [build] = the Rust build()
   ([None] = panic, [Some (BErr e)] = Err(e), [Some (BOk A)] = Ok(A)), [a_next A (a_state A i) c] =
   Automaton::next on state i ([None] = panic). *)
Require Import Base CharSet Partition PartitionSpec PartitionProofs Automaton BuilderSpec BuilderProofs.
Open Scope nat_scope.

(* ---- the boolean specification functions mean what they say *)

Theorem C13_labels_disjoint_reading : forall l, labels_disjoint l = true <-> pairwise_disjoint l.
Proof. exact labels_disjoint_iff. Qed.
Print Assumptions C13_labels_disjoint_reading.

Theorem C13_labels_cover_all_reading : forall l,
  labels_cover_all l = true <-> forall c, good c -> covered l c.
Proof. exact labels_cover_all_iff. Qed.
Print Assumptions C13_labels_cover_all_reading.

Theorem C13_labels_consistent_reading : forall l : list (cs * N),
  labels_consistent l = true <->
  forall c t1 t2, In t1 l -> In t2 l -> mem c (fst t1) -> mem c (fst t2) -> snd t1 = snd t2.
Proof. exact labels_consistent_iff. Qed.
Print Assumptions C13_labels_consistent_reading.

(* spec_sound: in every state no character has two different successors and every character has one *)
Theorem C13_spec_sound_reading : forall h,
  spec_sound h = true <->
  forall k, In k (h_names h) ->
    (forall c t1 t2, In t1 (h_labels h k) -> In t2 (h_labels h k) ->
                     mem c (fst t1) -> mem c (fst t2) -> snd t1 = snd t2) /\
    (forall c, good c -> covered (hl h k) c \/ h_default h k <> None).
Proof. exact spec_sound_iff. Qed.
Print Assumptions C13_spec_sound_reading.

(* spec_strict: labels pairwise disjoint, and a default declared exactly where a character is left *)
Theorem C13_spec_strict_reading : forall h,
  spec_strict h = true <->
  forall k, In k (h_names h) ->
    pairwise_disjoint (hl h k) /\ (h_default h k <> None <-> some_uncovered (hl h k)).
Proof. exact spec_strict_iff. Qed.
Print Assumptions C13_spec_strict_reading.

Theorem C13_spec_strict_sound : forall h, spec_strict h = true -> spec_sound h = true.
Proof. exact spec_strict_sound. Qed.
Print Assumptions C13_spec_strict_sound.

(* spec_delta names a transition the caller gave, or the declared default where no label applies;
   for conflict-free labels it is the only such target *)
Theorem C13_spec_delta_given : forall h k c k', spec_delta h k c = Some k' ->
  (exists s, In (s, k') (h_labels h k) /\ mem c s) \/ (~ covered (hl h k) c /\ h_default h k = Some k').
Proof. exact spec_delta_given. Qed.
Print Assumptions C13_spec_delta_given.

Theorem C13_spec_delta_unique : forall h k c s k',
  pairwise_disjoint (hl h k) -> In (s, k') (h_labels h k) -> mem c s -> spec_delta h k c = Some k'.
Proof. exact spec_delta_unique. Qed.
Print Assumptions C13_spec_delta_unique.

(* ---- the builder after a sequence of calls *)

Theorem C13_run_history : forall k0 ops, Forall op_nonew ops ->
  let h := BNew k0 :: ops in
  let b := run_history h in
  map fst (id_map b) = h_names h /\
  (forall k, find_key k (id_map b) = name_id h k) /\
  length (bstates b) = length (h_names h) /\
  forall k i, name_id h k = Some i ->
    exists s, nth_error (bstates b) i = Some s /\
      s_final s = h_final h k /\
      s_default s = match h_default h k with Some k' => name_id h k' | None => None end /\
      Forall2 (fun tr sl => fst tr = fst sl /\ name_id h (snd sl) = Some (snd tr)) (s_trans s) (h_labels h k).
Proof. exact run_history_pointwise. Qed.
Print Assumptions C13_run_history.

(* ---- build *)

(* build never panics (make_successor's panic!() and the unwraps are unreachable) *)
Theorem C13_build_never_panics : forall k0 ops, ops_ok ops -> build (run_history (BNew k0 :: ops)) <> None.
Proof. exact build_never_panics. Qed.
Print Assumptions C13_build_never_panics.

(* an automaton is returned only for sound specifications ... *)
Theorem C13_build_ok_sound : forall k0 ops A, ops_ok ops ->
  let h := BNew k0 :: ops in
  build (run_history h) = Some (BOk A) -> spec_sound h = true.
Proof. exact build_ok_sound. Qed.
Print Assumptions C13_build_ok_sound.

(* ... in sets: labels pairwise disjoint, every character covered by a label or the declared
   default, and a default declared only where some character is left uncovered *)
Theorem C13_build_ok_sound_sets : forall k0 ops A, ops_ok ops ->
  let h := BNew k0 :: ops in
  build (run_history h) = Some (BOk A) ->
  forall k, In k (h_names h) ->
    pairwise_disjoint (hl h k) /\
    (forall c, good c -> covered (hl h k) c \/ h_default h k <> None) /\
    (h_default h k <> None <-> some_uncovered (hl h k)).
Proof. exact build_ok_sound_sets. Qed.
Print Assumptions C13_build_ok_sound_sets.

(* a specification that is not sound is rejected with an error *)
Theorem C13_build_rejects_unsound : forall k0 ops, ops_ok ops ->
  let h := BNew k0 :: ops in
  spec_sound h = false -> exists e, build (run_history h) = Some (BErr e).
Proof. exact build_rejects_unsound. Qed.
Print Assumptions C13_build_rejects_unsound.

(* a complete conflict-free specification that declares defaults only where needed is accepted;
   and these are all the accepted ones *)
Theorem C13_build_complete : forall k0 ops, ops_ok ops ->
  let h := BNew k0 :: ops in
  spec_strict h = true -> exists A, build (run_history h) = Some (BOk A).
Proof. exact build_complete. Qed.
Print Assumptions C13_build_complete.

Theorem C13_build_ok_iff_strict : forall k0 ops, ops_ok ops ->
  let h := BNew k0 :: ops in
  ((exists A, build (run_history h) = Some (BOk A)) <-> spec_strict h = true).
Proof. exact build_ok_iff_strict. Qed.
Print Assumptions C13_build_ok_iff_strict.

(* the initial state is the one given to new *)
Theorem C13_build_ok_init : forall k0 ops A, ops_ok ops ->
  let h := BNew k0 :: ops in
  build (run_history h) = Some (BOk A) -> initial A = 0 /\ name_id h k0 = Some 0.
Proof. exact build_ok_init. Qed.
Print Assumptions C13_build_ok_init.

(* one state per name mentioned, numbered by position *)
Theorem C13_build_ok_num_states : forall k0 ops A, ops_ok ops ->
  let h := BNew k0 :: ops in
  build (run_history h) = Some (BOk A) ->
  num_states A = length (h_names h) /\ length (astates A) = length (h_names h).
Proof. exact build_ok_num_states. Qed.
Print Assumptions C13_build_ok_num_states.

Theorem C13_build_ok_ids : forall b A, build b = Some (BOk A) ->
  forall i, i < num_states A -> a_id (a_state A i) = i.
Proof. exact build_ok_ids. Qed.
Print Assumptions C13_build_ok_ids.

(* the final states are exactly those marked, and num_final_states counts them *)
Theorem C13_build_ok_finals : forall k0 ops A, ops_ok ops ->
  let h := BNew k0 :: ops in
  build (run_history h) = Some (BOk A) ->
  (forall k i, name_id h k = Some i -> a_final (a_state A i) = h_final h k) /\
  num_final A = length (filter (h_final h) (h_names h)).
Proof. exact build_ok_finals. Qed.
Print Assumptions C13_build_ok_finals.

(* for every state and every character, next is defined and is the successor the caller specified *)
Theorem C13_build_ok_delta : forall k0 ops A, ops_ok ops ->
  let h := BNew k0 :: ops in
  build (run_history h) = Some (BOk A) ->
  forall k i c, name_id h k = Some i -> good c ->
    a_next A (a_state A i) c = match spec_delta h k c with Some k' => name_id h k' | None => None end /\
    a_next A (a_state A i) c <> None.
Proof. exact build_ok_delta. Qed.
Print Assumptions C13_build_ok_delta.

(* the builder never invents a transition *)
Theorem C13_build_ok_no_invention : forall k0 ops A, ops_ok ops ->
  let h := BNew k0 :: ops in
  build (run_history h) = Some (BOk A) ->
  forall k i c j, name_id h k = Some i -> good c -> a_next A (a_state A i) c = Some j ->
    exists k', name_id h k' = Some j /\
      ((exists s, In (s, k') (h_labels h k) /\ mem c s) \/
       (~ covered (hl h k) c /\ h_default h k = Some k')).
Proof. exact build_ok_no_invention. Qed.
Print Assumptions C13_build_ok_no_invention.

(* key lemma (shared with C02): cleanup() -- majority promotion and removal of the transitions into
   the default -- changes the successor of no character of a conflict-free state in which the
   character is covered or a default is declared *)
Theorem C13_cleanup_preserves_delta : forall s c, pairwise_disjoint (lbls s) ->
  (s_default s = None -> covered (lbls s) c) ->
  sic_delta (cleanup s) c = sic_delta s c.
Proof. exact cleanup_preserves_delta. Qed.
Print Assumptions C13_cleanup_preserves_delta.

(* ---- which error *)

(* the error is the irregularity of the first irregular state in id (first-mention) order ... *)
Theorem C13_build_err_kind : forall k0 ops e, ops_ok ops ->
  let h := BNew k0 :: ops in
  (build (run_history h) = Some (BErr e) <->
   exists i k, nth_error (h_names h) i = Some k /\ state_err h k = Some e /\
               forall j k', j < i -> nth_error (h_names h) j = Some k' -> state_err h k' = None).
Proof. exact build_err_first. Qed.
Print Assumptions C13_build_err_kind.

(* ... where a state is irregular in exactly one of three ways, or regular *)
Theorem C13_state_err_nondisjoint : forall h k,
  state_err h k = Some NonDisjointCharSets <-> ~ pairwise_disjoint (hl h k).
Proof. exact state_err_nondisjoint. Qed.
Print Assumptions C13_state_err_nondisjoint.

Theorem C13_state_err_empty_complement : forall h k,
  state_err h k = Some EmptyComplementaryClass <->
  pairwise_disjoint (hl h k) /\ h_default h k <> None /\ forall c, good c -> covered (hl h k) c.
Proof. exact state_err_empty. Qed.
Print Assumptions C13_state_err_empty_complement.

Theorem C13_state_err_missing_default : forall h k,
  state_err h k = Some MissingDefaultSuccessor <->
  pairwise_disjoint (hl h k) /\ h_default h k = None /\ some_uncovered (hl h k).
Proof. exact state_err_missing. Qed.
Print Assumptions C13_state_err_missing_default.

Theorem C13_state_err_none : forall h k,
  state_err h k = None <->
  pairwise_disjoint (hl h k) /\ (h_default h k <> None <-> some_uncovered (hl h k)).
Proof. exact state_err_none. Qed.
Print Assumptions C13_state_err_none.

(* ---- D6: the pinned code validated after cleanup() and accepted
   new(0); add(0,'a',1); add(1,Sigma,1): next(0,'z') = 1 was never specified *)
Example C13_D6_prefix_witness :
  (exists sts, build_states_prefix (bstates (run_history D6_hist)) 0 = Some (inr sts) /\
     a_next {| num_states := 2; num_final := 0; initial := 0; astates := sts |} (nth 0 sts dstate) 122 = Some 1) /\
  spec_delta D6_hist 0 122 = None /\
  spec_sound D6_hist = false /\
  build (run_history D6_hist) = Some (BErr MissingDefaultSuccessor).
Proof. exact D6_prefix_witness. Qed.

(* ---- non-vacuity: a strict specification with explicit full coverage (majority promotion
   applies), defaults, an unreachable state, final states; build accepts it and next follows it *)
Definition C13_ex_ops : list bop :=
  [BAdd 5 (97, 100)%N 7; BAdd 5 (101, MAXC)%N 5; BAdd 5 (0, 96)%N 7; BFin 7; BDef 7 5;
   BAdd 7 (3, 4)%N 9; BDef 9 9; BFin 9; BAdd 8 (0, MAXC)%N 5].
Definition C13_ex_hist : list bop := BNew 5 :: C13_ex_ops.

Example C13_example_hypotheses :
  ops_ok C13_ex_ops /\ spec_strict C13_ex_hist = true /\ spec_sound C13_ex_hist = true /\
  h_names C13_ex_hist = [5; 7; 9; 8]%N.
Proof. split; [apply ops_okb_iff; vm_compute; reflexivity|]. vm_compute. repeat split. Qed.

Example C13_example_build :
  exists A, build (run_history C13_ex_hist) = Some (BOk A) /\
    num_states A = 4 /\ num_final A = 2 /\ initial A = 0 /\
    a_default (a_state A 0) = Some 1 /\                      (* majority successor promoted *)
    a_next A (a_state A 0) 98 = Some 1 /\ spec_delta C13_ex_hist 5 98 = Some 7%N /\
    a_next A (a_state A 0) 200 = Some 0 /\ spec_delta C13_ex_hist 5 200 = Some 5%N /\
    a_next A (a_state A 1) 3 = Some 2 /\ a_next A (a_state A 1) 5 = Some 0 /\
    a_next A (a_state A 3) MAXC = Some 0.
Proof. eexists. split; [vm_compute; reflexivity|]. vm_compute. repeat split. Qed.

(* every error kind occurs, and the first irregular state decides *)
Example C13_example_errors :
  build (run_history [BNew 0; BAdd 0 (1, 5)%N 1; BAdd 0 (5, 9)%N 2; BDef 0 0]) = Some (BErr NonDisjointCharSets) /\
  build (run_history [BNew 0; BAdd 0 (0, MAXC)%N 1; BDef 0 0; BDef 1 1]) = Some (BErr EmptyComplementaryClass) /\
  build (run_history [BNew 0; BAdd 0 (1, MAXC)%N 0]) = Some (BErr MissingDefaultSuccessor) /\
  build (run_history [BNew 0; BDef 0 1; BAdd 2 (1, 5)%N 2; BAdd 2 (5, 9)%N 2]) = Some (BErr MissingDefaultSuccessor) /\
  spec_err [BNew 0; BDef 0 1; BAdd 2 (1, 5)%N 2; BAdd 2 (5, 9)%N 2] = Some MissingDefaultSuccessor.
Proof. vm_compute. repeat split. Qed.

(* sound specifications outside the accepted class: build is stricter than soundness requires *)
Example C13_example_gap :
  (let h := [BNew 0; BAdd 0 (0, 100)%N 0; BAdd 0 (50, MAXC)%N 0] in
   spec_sound h = true /\ build (run_history h) = Some (BErr NonDisjointCharSets)) /\
  (let h := [BNew 0; BAdd 0 (0, MAXC)%N 0; BDef 0 0] in
   spec_sound h = true /\ build (run_history h) = Some (BErr EmptyComplementaryClass)).
Proof. split; [exact strict_gap_overlap_same_target|exact strict_gap_needless_default]. Qed.
