(* C20 -- CharSet operations are exact interval algebra.
   Statements only; every proof is [exact <lemma>].  Intervals are (start, end) pairs of N,
   [cs_valid s] is the type invariant start <= end <= MAX_CHAR, [mem x s] is membership. *)
Require Import Base CharSet CharSetProofs.
Open Scope N_scope.

Theorem C20_contains : forall s x, cs_contains s x = true <-> mem x s.
Proof. exact contains_iff. Qed.
Print Assumptions C20_contains.

Theorem C20_covers : forall s o, cs_valid o ->
  (cs_covers s o = true <-> forall x, mem x o -> mem x s).
Proof. exact covers_iff. Qed.
Print Assumptions C20_covers.

Theorem C20_is_before : forall s x, cs_valid s ->
  (cs_is_before s x = true <-> forall y, mem y s -> y < x).
Proof. exact before_iff. Qed.
Print Assumptions C20_is_before.

Theorem C20_is_after : forall s x, cs_valid s ->
  (cs_is_after s x = true <-> forall y, mem y s -> x < y).
Proof. exact after_iff. Qed.
Print Assumptions C20_is_after.

(* size never under/overflows on a valid set and counts the members *)
Theorem C20_size_value : forall s, cs_valid s -> cs_size s = Some (snd s - fst s + 1).
Proof. exact size_value. Qed.
Print Assumptions C20_size_value.

Theorem C20_size_card : forall s n, cs_valid s -> cs_size s = Some n ->
  forall x, mem x s <-> exists k, k < n /\ x = fst s + k.
Proof. exact size_card. Qed.
Print Assumptions C20_size_card.

Theorem C20_is_singleton : forall s, cs_valid s ->
  (cs_is_singleton s = true <-> forall x y, mem x s -> mem y s -> x = y).
Proof. exact singleton_iff. Qed.
Print Assumptions C20_is_singleton.

Theorem C20_is_alphabet : forall s, cs_valid s ->
  (cs_is_alphabet s = true <-> forall x, good x -> mem x s).
Proof. exact alphabet_iff. Qed.
Print Assumptions C20_is_alphabet.

Theorem C20_pick : forall s, cs_valid s -> mem (cs_pick s) s.
Proof. exact pick_mem. Qed.
Print Assumptions C20_pick.

Theorem C20_inter_some : forall s o r, cs_inter s o = Some r ->
  forall x, mem x r <-> mem x s /\ mem x o.
Proof. exact inter_some. Qed.
Print Assumptions C20_inter_some.

Theorem C20_inter_valid : forall s o r, cs_valid s -> cs_valid o -> cs_inter s o = Some r -> cs_valid r.
Proof. exact inter_some_valid. Qed.
Print Assumptions C20_inter_valid.

Theorem C20_inter_none : forall s o, cs_inter s o = None <-> forall x, ~ (mem x s /\ mem x o).
Proof. exact inter_none. Qed.
Print Assumptions C20_inter_none.

Theorem C20_inter_list_some : forall a q, cs_inter_list a = Some q ->
  forall x, good x -> (mem x q <-> Forall (mem x) a).
Proof. exact inter_list_some. Qed.
Print Assumptions C20_inter_list_some.

Theorem C20_inter_list_none : forall a, cs_inter_list a = None -> forall x, ~ Forall (mem x) a.
Proof. exact inter_list_none. Qed.
Print Assumptions C20_inter_list_none.

Theorem C20_inter_list_valid : forall a q, Forall cs_valid a -> cs_inter_list a = Some q -> cs_valid q.
Proof. exact inter_list_valid. Qed.
Print Assumptions C20_inter_list_valid.

(* union: the subtraction start-1 never underflows; Some r exactly when the set union is the
   interval r (overlapping or adjacent, including at 0); None when it is no interval *)
Theorem C20_union_total : forall s o, exists r, cs_union s o = Some r.
Proof. exact union_total. Qed.
Print Assumptions C20_union_total.

Theorem C20_union_some_iff : forall s o, cs_valid s -> cs_valid o ->
  forall r, cs_valid r -> (cs_union s o = Some (Some r) <-> is_union s o r).
Proof. exact union_some_iff. Qed.
Print Assumptions C20_union_some_iff.

Theorem C20_union_some_valid : forall s o r, cs_valid s -> cs_valid o ->
  cs_union s o = Some (Some r) -> cs_valid r /\ is_union s o r.
Proof. exact union_some. Qed.
Print Assumptions C20_union_some_valid.

Theorem C20_union_none : forall s o, cs_valid s -> cs_valid o -> cs_union s o = Some None ->
  forall r, ~ is_union s o r.
Proof. exact union_none. Qed.
Print Assumptions C20_union_none.

Theorem C20_partial_order : forall s o, cs_valid s -> cs_valid o ->
  match cs_pcmp s o with
  | OrdEq => s = o
  | OrdLt => s <> o /\ forall x y, mem x s -> mem y o -> x < y
  | OrdGt => s <> o /\ forall x y, mem x s -> mem y o -> y < x
  | OrdNone => s <> o /\ exists x y x' y', mem x s /\ mem y o /\ mem x' s /\ mem y' o /\ x <= y /\ y' <= x'
  end.
Proof. exact pcmp_spec. Qed.
Print Assumptions C20_partial_order.

(* non-vacuity: the hypotheses are satisfiable and the functions compute *)
Example C20_example : cs_valid (97, 122) /\ cs_union (97,122) (123,127) = Some (Some (97,127))
  /\ cs_union (1,5) (0,0) = Some (Some (0,5)) /\ cs_union (0,3) (5,9) = Some None
  /\ cs_inter_list [(0,10);(5,20);(7,8)] = Some (7,8).
Proof. unfold cs_valid, MAXC. simpl. repeat split; lia. Qed.
