(* C06 -- String search / substring / replace functions follow SMT-LIB 2.6.
   Statements only; every proof is [exact <lemma>].

   Reading.  An SmtString is its vector of characters, a [word = list N]; i32 arguments and results
   are [Z].  [f args = Some v] : the Rust function returns v;  [None] : it panics.
   [wfw w] (|w| <= MAX_LENGTH = i32::MAX) is the type invariant of SmtString (SmtString::make), [goodw w]
   says that all characters are <= MAX_CHAR (an SMT string; C17).  The relations [At], [Substr],
   [PrefixOf], [SuffixOf], [Contains], [IndexOf], [Replace], [ReplaceAll] (StrSearchProofs.v) are the
   SMT-LIB 2.6 definitions of str.at, str.substr, str.prefixof, str.suffixof, str.contains,
   str.indexof, str.replace, str.replace_all, written with word equations [w = x ++ v ++ y] only.
   Each of them determines its result uniquely (the [_unique] theorems), so the theorems say that
   the functions return *exactly* the SMT-LIB value.

   Functions that build a new string go through SmtString::make, which panics (documented) when the
   result is longer than MAX_LENGTH: [smt_make x = Some x] if |x| <= MAX_LENGTH, [None] otherwise.
   No other panic exists (no index or slice out of bounds, the replace_all loop never runs out of
   fuel): that is part of every statement below.

   The model mirrors the code after the repair of D3 (str_indexof guard [i > len]). *)
Require Import Base StrSearch StrSearchProofs.
Open Scope Z_scope.

(* matcher::naive_search(p, s, k): never panics; Found(i, i+|p|) with i the least position >= k at
   which p occurs in s, NotFound iff there is none *)
Theorem C06_naive_search_least : forall p s k,
  exists res, naive_search p s k = Some res /\
    match res with
    | SFound i j => (k <= i)%nat /\ j = (i + length p)%nat /\ occurs_at p s i /\
                    forall i', (k <= i')%nat -> occurs_at p s i' -> (i <= i')%nat
    | SNotFound => forall i', (k <= i')%nat -> ~ occurs_at p s i'
    end.
Proof. exact naive_search_least. Qed.
Print Assumptions C06_naive_search_least.

(* str.++ *)
Theorem C06_concat : forall s1 s2,
  (zlen (s1 ++ s2) <= MAX_LENGTH -> str_concat s1 s2 = Some (s1 ++ s2)) /\
  (zlen (s1 ++ s2) > MAX_LENGTH -> str_concat s1 s2 = None) /\
  (forall r, str_concat s1 s2 = Some r -> r = s1 ++ s2).
Proof. exact concat_spec. Qed.
Print Assumptions C06_concat.

(* str.len *)
Theorem C06_len : forall s, wfw s -> str_len s = Z.of_nat (length s).
Proof. exact len_spec. Qed.
Print Assumptions C06_len.

(* str.at, every integer index *)
Theorem C06_at : forall w n, wfw w -> goodw w -> exists r, str_at w n = Some r /\ At w n r.
Proof. exact at_spec. Qed.
Print Assumptions C06_at.

Theorem C06_at_unique : forall w n r1 r2, At w n r1 -> At w n r2 -> r1 = r2.
Proof. exact At_fun. Qed.
Print Assumptions C06_at_unique.

(* str.substr, every integer start, every i32 length *)
Theorem C06_substr : forall w m n, wfw w -> i32 n ->
  exists r, str_substr w m n = Some r /\ Substr w m n r.
Proof. exact substr_spec. Qed.
Print Assumptions C06_substr.

Theorem C06_substr_unique : forall w m n r1 r2, Substr w m n r1 -> Substr w m n r2 -> r1 = r2.
Proof. exact Substr_fun. Qed.
Print Assumptions C06_substr_unique.

Theorem C06_substr_length : forall w m n r, Substr w m n r -> 0 <= m < zlen w -> 0 < n ->
  zlen r = Z.min n (zlen w - m).
Proof. exact Substr_length. Qed.
Print Assumptions C06_substr_length.

(* str.prefixof: str_prefixof(s1, s2) iff s1 is a prefix of s2 *)
Theorem C06_prefixof : forall s1 s2,
  exists b, str_prefixof s1 s2 = Some b /\ (b = true <-> exists x, s2 = s1 ++ x).
Proof. exact prefixof_spec. Qed.
Print Assumptions C06_prefixof.

(* str.suffixof: str_suffixof(s1, s2) iff s1 is a suffix of s2 *)
Theorem C06_suffixof : forall s1 s2,
  exists b, str_suffixof s1 s2 = Some b /\ (b = true <-> exists x, s2 = x ++ s1).
Proof. exact suffixof_spec. Qed.
Print Assumptions C06_suffixof.

(* str.contains: str_contains(s1, s2) iff s2 is a substring of s1 *)
Theorem C06_contains : forall s1 s2,
  exists b, str_contains s1 s2 = Some b /\ (b = true <-> exists x y, s1 = x ++ s2 ++ y).
Proof. exact contains_spec. Qed.
Print Assumptions C06_contains.

(* str.indexof, every integer start index: the least position >= i, -1 otherwise *)
Theorem C06_indexof : forall w v i, wfw w ->
  exists n, str_indexof w v i = Some n /\ IndexOf w v i n.
Proof. exact indexof_spec. Qed.
Print Assumptions C06_indexof.

Theorem C06_indexof_unique : forall w v i n1 n2, IndexOf w v i n1 -> IndexOf w v i n2 -> n1 = n2.
Proof. exact IndexOf_fun. Qed.
Print Assumptions C06_indexof_unique.

(* the empty pattern is found at the start index, including the position equal to the length (D3) *)
Theorem C06_indexof_empty_pattern : forall w i, wfw w -> 0 <= i <= zlen w ->
  str_indexof w [] i = Some i.
Proof. exact indexof_empty_pattern. Qed.
Print Assumptions C06_indexof_empty_pattern.

(* ... and a non-empty pattern is not found from the position equal to the length *)
Theorem C06_indexof_at_end_nonempty : forall w v, wfw w -> v <> [] ->
  str_indexof w v (zlen w) = Some (-1).
Proof. exact indexof_at_end_nonempty. Qed.
Print Assumptions C06_indexof_at_end_nonempty.

(* str.replace: first (leftmost) occurrence; the result is the SMT-LIB value x, returned through
   SmtString::make *)
Theorem C06_replace : forall s p r,
  exists x, Replace s p r x /\ str_replace s p r = smt_make x.
Proof. exact replace_spec. Qed.
Print Assumptions C06_replace.

Theorem C06_replace_unique : forall w w1 w2 r1 r2, Replace w w1 w2 r1 -> Replace w w1 w2 r2 -> r1 = r2.
Proof. exact Replace_fun. Qed.
Print Assumptions C06_replace_unique.

Theorem C06_replace_empty_pattern : forall s r, str_replace s [] r = smt_make (r ++ s).
Proof. exact replace_empty_pattern. Qed.
Print Assumptions C06_replace_empty_pattern.

(* str.replace_all: the left-to-right non-overlapping occurrences (the recursive SMT-LIB equation);
   identity for the empty pattern *)
Theorem C06_replace_all : forall s p r,
  exists x, ReplaceAll s p r x /\ str_replace_all s p r = smt_make x.
Proof. exact replace_all_spec. Qed.
Print Assumptions C06_replace_all.

Theorem C06_replace_all_unique : forall w w1 w2 r1, ReplaceAll w w1 w2 r1 ->
  forall r2, ReplaceAll w w1 w2 r2 -> r1 = r2.
Proof. exact ReplaceAll_fun. Qed.
Print Assumptions C06_replace_all_unique.

(* SmtString::make: returns its argument iff it is not longer than MAX_LENGTH *)
Theorem C06_make : forall a, (zlen a <= MAX_LENGTH -> smt_make a = Some a) /\
                             (smt_make a = None <-> zlen a > MAX_LENGTH).
Proof. exact smt_make_spec. Qed.
Print Assumptions C06_make.

(* ---- non-vacuity and documented behaviour ---- *)
Local Notation a := 97%N.
Local Notation b := 98%N.
Local Notation c := 99%N.

Example C06_hypotheses_satisfiable : wfw [a; b; c] /\ goodw [a; b; c] /\ i32 (-2147483648) /\ i32 2147483647.
Proof.
  unfold wfw, zlen, MAX_LENGTH, i32, goodw. cbn [length]. repeat split; try lia.
  repeat constructor; unfold good, MAXC; lia.
Qed.

(* overlapping occurrences: "aa" in "aaa" is found at 0 and again from 1; replace_all takes the
   left-to-right non-overlapping ones *)
Example C06_overlap :
  str_indexof [a; a; a] [a; a] 0 = Some 0 /\ str_indexof [a; a; a] [a; a] 1 = Some 1 /\
  str_indexof [a; a; a] [a; a] 2 = Some (-1) /\
  str_replace_all [a; a; a] [a; a] [b] = Some [b; a] /\
  str_replace_all [a; b; a; b; a] [a; b; a] [c] = Some [c; b; a] /\
  str_replace [a; a; a] [a; a] [b] = Some [b; a].
Proof. vm_compute. repeat split. Qed.

(* a replacement that contains the pattern is not searched again *)
Example C06_replacement_contains_pattern :
  str_replace_all [a; b; a] [a] [a; a] = Some [a; a; b; a; a] /\
  str_replace [a; b] [a] [b; a; b] = Some [b; a; b; b] /\
  str_replace_all [a; b] [] [c] = Some [a; b] /\ str_replace [a; b] [] [c] = Some [c; a; b].
Proof. vm_compute. repeat split. Qed.

Example C06_boundaries :
  str_at [a; b; c] 2 = Some [c] /\ str_at [a; b; c] 3 = Some [] /\ str_at [a; b; c] (-1) = Some [] /\
  str_substr [a; b; c] 1 2147483647 = Some [b; c] /\ str_substr [a; b; c] 3 1 = Some [] /\
  str_substr [a; b; c] 0 0 = Some [] /\ str_substr [a; b; c] (-2147483648) 2 = Some [] /\
  str_indexof [a; b; c] [c] 3 = Some (-1) /\ str_indexof [a; b; c] [c] 2 = Some 2 /\
  str_indexof [a; b; c] [] 4 = Some (-1) /\ str_indexof [a; b; c] [] 2147483647 = Some (-1) /\
  str_len [a; b; c] = 3 /\ str_concat [a] [b; c] = Some [a; b; c] /\
  str_prefixof [] [a] = Some true /\ str_suffixof [b; c] [a; b; c] = Some true /\
  str_contains [a; b; c] [b] = Some true /\ str_contains [b] [a; b; c] = Some false.
Proof. vm_compute. repeat split. Qed.

(* D3: the pinned code used the guard [i >= len] (model: str_indexof_prefix) and answered -1 where
   SMT-LIB, and the repaired code, give 0 and 3 *)
Example D3_prefix_witness :
  str_indexof_prefix [] [] 0 = Some (-1) /\ str_indexof_prefix [a; b; c] [] 3 = Some (-1) /\
  str_indexof [] [] 0 = Some 0 /\ str_indexof [a; b; c] [] 3 = Some 3 /\
  IndexOf [] [] 0 0 /\ ~ IndexOf [] [] 0 (-1).
Proof.
  assert (H : IndexOf [] [] 0 0).
  { left. exists 0%nat. repeat split; try lia. exists [], []. split; reflexivity. }
  repeat split; try (vm_compute; reflexivity); try exact H.
  intros H'. pose proof (IndexOf_fun _ _ _ _ _ H H'). discriminate.
Qed.
