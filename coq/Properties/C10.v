(* C10 -- Regex replace uses the leftmost, then shortest, match.
   str_replace_re(s, r, t) replaces the leftmost match of r in s, choosing the shortest match at that
   position (possibly empty, in which case t is inserted in front), and returns s unchanged if nothing
   matches.  str_replace_re_all(s, r, t) replaces, scanning left to right, each leftmost shortest
   non-empty match and continues after it, leaving all other characters untouched; both agree with
   str.replace_re and str.replace_re_all of SMT-LIB 2.6 for every string, expression and replacement.
   Statements only; every proof is [exact <lemma>] (lemmas in ReSearchProofs.v).

   Vocabulary (Sem.v, Denote.v, DerivProofs.v, RunProofs.v, ReSearchProofs.v):
     L e w              the word w is in the language of the model term e
     denote p w         w is in the language SMT-LIB assigns to the construction program p
     run p m = Some (m1, r)   the API calls of p, made on manager m, return the term r
     dwf m              the manager invariant under which derivatives are correct (C03); the fresh
                        manager satisfies it and every constructor / derivative call preserves it
     goodw s            all characters of s are SMT-LIB characters (<= 0x2FFFF)
     sub s i j          the substring s[i..j)
     None               the Rust code panics
     MatchAt A ae s i j          i <= j <= |s|, s[i..j) in A, and i < j when ae = false
     LeftmostShortest A ae s k i j   k <= i, MatchAt A ae s i j, no MatchAt starting in [k, i),
                        no MatchAt i j' with j' < j
     NoMatchFrom A ae s k        no MatchAt A ae s i j with k <= i
     FirstMatch A ae s u1 w1 u2  s = u1.w1.u2, w1 in A (w1 non-empty when ae = false), and for every
                        other such decomposition u1'.w1'.u2': |u1| <= |u1'|, and |w1| <= |w1'| when
                        |u1'| = |u1|          (SMT-LIB: "u1, w1 shortest")
     NoMatch A ae s     no decomposition s = u1.w1.u2 with w1 in A (w1 non-empty when ae = false)
     ReplaceRe A s t x  x = s and NoMatch A true s, or x = u1.t.u2 with FirstMatch A true s u1 w1 u2
     ReplaceReAll A s t x   inductively: x = s and NoMatch A false s, or
                        x = u1.t.y with FirstMatch A false s u1 w1 u2 and ReplaceReAll A u2 t y

   Premises: none.  (The lemmas of ReSearchProofs.v are stated modulo [merge_ok] (C12) and
   [inclusion_sound] (C16), inherited from the derivative theorems; both are proved and instantiated
   here.)  No BFS is involved, so nothing is conditional on termination. *)
Require Import Base CharSet Partition PartitionSpec LoopRange Regex Inclusion Constructors Deriv Explore.
Require Import Denote Sem Lang ManagerProofs ConstructorProofs RunProofs DerivProofs GoodProofs.
Require Import ReSearchProofs.
Open Scope nat_scope.

(* ---------------------------------------------------------------- the specifications are functional *)

Theorem C10_LeftmostShortest_unique : forall A ae s k i j i' j',
  LeftmostShortest A ae s k i j -> LeftmostShortest A ae s k i' j' -> i = i' /\ j = j'.
Proof. exact LeftmostShortest_unique. Qed.
Print Assumptions C10_LeftmostShortest_unique.

Theorem C10_Found_excludes_NotFound : forall A ae s k i j,
  LeftmostShortest A ae s k i j -> NoMatchFrom A ae s k -> False.
Proof. exact LeftmostShortest_not_NoMatchFrom. Qed.
Print Assumptions C10_Found_excludes_NotFound.

Theorem C10_FirstMatch_unique : forall A ae s u1 w1 u2 u1' w1' u2',
  FirstMatch A ae s u1 w1 u2 -> FirstMatch A ae s u1' w1' u2' -> u1 = u1' /\ w1 = w1' /\ u2 = u2'.
Proof. exact FirstMatch_unique. Qed.
Print Assumptions C10_FirstMatch_unique.

Theorem C10_ReplaceRe_functional : forall A s t x y, ReplaceRe A s t x -> ReplaceRe A s t y -> x = y.
Proof. exact ReplaceRe_functional. Qed.
Print Assumptions C10_ReplaceRe_functional.

Theorem C10_ReplaceReAll_functional : forall A s t x,
  ReplaceReAll A s t x -> forall y, ReplaceReAll A s t y -> x = y.
Proof. exact ReplaceReAll_functional. Qed.
Print Assumptions C10_ReplaceReAll_functional.

(* the index form of the search specification yields the SMT-LIB (word) form on the suffix s[k..) *)
Theorem C10_LeftmostShortest_FirstMatch : forall A ae s k i j, k <= length s ->
  LeftmostShortest A ae s k i j -> FirstMatch A ae (skipn k s) (sub s k i) (sub s i j) (skipn j s).
Proof. exact LeftmostShortest_FirstMatch. Qed.
Print Assumptions C10_LeftmostShortest_FirstMatch.

Theorem C10_NoMatchFrom_NoMatch : forall A ae s k, k <= length s ->
  NoMatchFrom A ae s k -> NoMatch A ae (skipn k s).
Proof. exact NoMatchFrom_NoMatch. Qed.
Print Assumptions C10_NoMatchFrom_NoMatch.

(* the specifications only look at the language on good words when the subject is good *)
Theorem C10_ReplaceRe_lang_eq : forall A B s t x, goodw s -> lang_eq A B ->
  ReplaceRe A s t x -> ReplaceRe B s t x.
Proof. exact ReplaceRe_lang_eq. Qed.
Print Assumptions C10_ReplaceRe_lang_eq.

Theorem C10_ReplaceReAll_lang_eq : forall A B s t x, goodw s -> lang_eq A B ->
  ReplaceReAll A s t x -> ReplaceReAll B s t x.
Proof. exact ReplaceReAll_lang_eq. Qed.
Print Assumptions C10_ReplaceReAll_lang_eq.

(* ---------------------------------------------------------------- naive_re_search *)

(* inner loop: from p (the quotient of the pattern by s[i..j)) and rest = s[j..), the answer is the
   least non-empty prefix of rest in L p; stopping at the syntactic Empty node loses nothing *)
Theorem C10_re_extend : forall rest m p j m' res,
  dwf m -> owned m p -> goodw rest -> re_extend m p rest j = Some (m', res) ->
  dwf m' /\ ext m m' /\
  match res with
  | Some j' => exists n, j' = j + S n /\ S n <= length rest /\ L p (firstn (S n) rest) /\
                         forall n', 0 < n' -> n' < S n -> ~ L p (firstn n' rest)
  | None => forall n', 0 < n' -> n' <= length rest -> ~ L p (firstn n' rest)
  end.
Proof. exact (re_extend_spec merge_ok_holds inclusion_sound_holds). Qed.
Print Assumptions C10_re_extend.

(* outer loop over the start positions *)
Theorem C10_re_search_from : forall suf m r i m' res,
  dwf m -> owned m r -> goodw suf -> re_search_from m r suf i = Some (m', res) ->
  dwf m' /\ ext m m' /\
  match res with
  | Found i' j' => exists a n, i' = i + a /\ j' = i' + S n /\ a + S n <= length suf /\
      L r (firstn (S n) (skipn a suf)) /\
      (forall n', 0 < n' -> n' < S n -> ~ L r (firstn n' (skipn a suf))) /\
      (forall a' n', a' < a -> 0 < n' -> a' + n' <= length suf -> ~ L r (firstn n' (skipn a' suf)))
  | NotFound => forall a' n', 0 < n' -> a' + n' <= length suf -> ~ L r (firstn n' (skipn a' suf))
  end.
Proof. exact (re_search_from_spec merge_ok_holds inclusion_sound_holds). Qed.
Print Assumptions C10_re_search_from.

(* Found i j: s[i..j) is the leftmost match at or after k and the shortest match at i (non-empty
   when allow_empty = false); NotFound: there is no such match at or after k.
   k <= |s| is what the callers guarantee (0, or the end of a previous match) *)
Theorem C10_re_search_leftmost_shortest : forall m r s k allow_empty m' res,
  dwf m -> owned m r -> goodw s -> k <= length s ->
  naive_re_search m r s k allow_empty = Some (m', res) ->
  dwf m' /\ ext m m' /\
  (forall i j, res = Found i j -> LeftmostShortest (L r) allow_empty s k i j) /\
  (res = NotFound -> NoMatchFrom (L r) allow_empty s k).
Proof. exact (naive_re_search_spec merge_ok_holds inclusion_sound_holds). Qed.
Print Assumptions C10_re_search_leftmost_shortest.

(* beyond the end of the string the function answers without looking at the string *)
Theorem C10_re_search_past_end : forall m r s k allow_empty, length s < k ->
  naive_re_search m r s k allow_empty =
  Some (m, if allow_empty && rnul r then Found k k else NotFound).
Proof. exact naive_re_search_past_end. Qed.
Print Assumptions C10_re_search_past_end.

(* ---------------------------------------------------------------- the replace functions, term level *)

Theorem C10_replace_re_spec : forall m s r t m' x,
  dwf m -> owned m r -> goodw s -> str_replace_re m s r t = Some (m', x) ->
  dwf m' /\ ext m m' /\ ReplaceRe (L r) s t x.
Proof. exact (replace_re_spec_ext merge_ok_holds inclusion_sound_holds). Qed.
Print Assumptions C10_replace_re_spec.

Theorem C10_replace_re_all_spec : forall m s r t m' x,
  dwf m -> owned m r -> goodw s -> str_replace_re_all m s r t = Some (m', x) ->
  dwf m' /\ ext m m' /\ ReplaceReAll (L r) s t x.
Proof. exact (replace_re_all_spec_ext merge_ok_holds inclusion_sound_holds). Qed.
Print Assumptions C10_replace_re_all_spec.

(* ---------------------------------------------------------------- program level: SMT-LIB values *)

Theorem C10_re_search_denotation : forall p m m1 r s k allow_empty m2 res,
  dwf m -> prog_ok p = true -> run p m = Some (m1, r) -> goodw s -> k <= length s ->
  naive_re_search m1 r s k allow_empty = Some (m2, res) ->
  (forall i j, res = Found i j -> LeftmostShortest (denote p) allow_empty s k i j) /\
  (res = NotFound -> NoMatchFrom (denote p) allow_empty s k).
Proof. exact (re_search_denotation merge_ok_holds inclusion_sound_holds). Qed.
Print Assumptions C10_re_search_denotation.

(* str_replace_re computes str.replace_re *)
Theorem C10_replace_re_smtlib : forall p m m1 r s t m2 x,
  dwf m -> prog_ok p = true -> run p m = Some (m1, r) -> goodw s ->
  str_replace_re m1 s r t = Some (m2, x) -> ReplaceRe (denote p) s t x.
Proof. exact (replace_re_denotation merge_ok_holds inclusion_sound_holds). Qed.
Print Assumptions C10_replace_re_smtlib.

(* str_replace_re_all computes str.replace_re_all *)
Theorem C10_replace_re_all_smtlib : forall p m m1 r s t m2 x,
  dwf m -> prog_ok p = true -> run p m = Some (m1, r) -> goodw s ->
  str_replace_re_all m1 s r t = Some (m2, x) -> ReplaceReAll (denote p) s t x.
Proof. exact (replace_re_all_denotation merge_ok_holds inclusion_sound_holds). Qed.
Print Assumptions C10_replace_re_all_smtlib.

(* hence equality with the model's answer is a complete test oracle *)
Theorem C10_replace_re_complete : forall p m m1 r s t m2 x,
  dwf m -> prog_ok p = true -> run p m = Some (m1, r) -> goodw s ->
  str_replace_re m1 s r t = Some (m2, x) -> forall y, ReplaceRe (denote p) s t y <-> y = x.
Proof. exact (replace_re_complete merge_ok_holds inclusion_sound_holds). Qed.
Print Assumptions C10_replace_re_complete.

Theorem C10_replace_re_all_complete : forall p m m1 r s t m2 x,
  dwf m -> prog_ok p = true -> run p m = Some (m1, r) -> goodw s ->
  str_replace_re_all m1 s r t = Some (m2, x) -> forall y, ReplaceReAll (denote p) s t y <-> y = x.
Proof. exact (replace_re_all_complete merge_ok_holds inclusion_sound_holds). Qed.
Print Assumptions C10_replace_re_all_complete.

(* ---------------------------------------------------------------- panics *)

(* deriv_fails m: some char_derivative call on an owned term and a good character returns None in a
   well-formed extension of m.  The search and replace functions return None (panic) only then; in
   particular the fuel |s|+1 of the model of str_replace_re_all is never exhausted. *)
Theorem C10_deriv_fails_meaning : forall m, deriv_fails m <->
  exists m1 p c, dwf m1 /\ ext m m1 /\ owned m1 p /\ good c /\ char_derivative m1 p c = None.
Proof. exact deriv_fails_meaning. Qed.
Print Assumptions C10_deriv_fails_meaning.

Theorem C10_re_search_total : forall m r s k allow_empty,
  dwf m -> owned m r -> goodw s -> naive_re_search m r s k allow_empty = None -> deriv_fails m.
Proof. exact (naive_re_search_total merge_ok_holds inclusion_sound_holds). Qed.
Print Assumptions C10_re_search_total.

Theorem C10_replace_re_total : forall m s r t,
  dwf m -> owned m r -> goodw s -> str_replace_re m s r t = None -> deriv_fails m.
Proof. exact (str_replace_re_total merge_ok_holds inclusion_sound_holds). Qed.
Print Assumptions C10_replace_re_total.

Theorem C10_replace_re_all_total : forall m s r t,
  dwf m -> owned m r -> goodw s -> str_replace_re_all m s r t = None -> deriv_fails m.
Proof. exact (str_replace_re_all_total merge_ok_holds inclusion_sound_holds). Qed.
Print Assumptions C10_replace_re_all_total.

(* D11 repaired: no character derivative panics any more, so deriv_fails never holds and the search
   and replace functions return on every good string, from every manager satisfying the invariant *)
Theorem C10_deriv_never_fails : forall m, ~ deriv_fails m.
Proof. exact deriv_never_fails. Qed.
Print Assumptions C10_deriv_never_fails.

Theorem C10_re_search_returns : forall m r s k allow_empty,
  dwf m -> owned m r -> goodw s -> exists m' res, naive_re_search m r s k allow_empty = Some (m', res).
Proof. exact naive_re_search_returns. Qed.
Print Assumptions C10_re_search_returns.

Theorem C10_replace_re_returns : forall m s r t,
  dwf m -> owned m r -> goodw s -> exists m' x, str_replace_re m s r t = Some (m', x).
Proof. exact str_replace_re_returns. Qed.
Print Assumptions C10_replace_re_returns.

Theorem C10_replace_re_all_returns : forall m s r t,
  dwf m -> owned m r -> goodw s -> exists m' x, str_replace_re_all m s r t = Some (m', x).
Proof. exact str_replace_re_all_returns. Qed.
Print Assumptions C10_replace_re_all_returns.

(* ---------------------------------------------------------------- certified evaluation *)

(* eval_* p s .. : run the construction p on the fresh manager, then the search / replace function;
   a successful evaluation yields the SMT-LIB value *)
Theorem C10_eval_re_search_sound : forall p s k allow_empty res,
  prog_ok p = true -> goodwb s = true -> k <= length s -> eval_re_search p s k allow_empty = Some res ->
  match res with
  | Found i j => LeftmostShortest (denote p) allow_empty s k i j
  | NotFound => NoMatchFrom (denote p) allow_empty s k
  end.
Proof. exact (eval_re_search_sound merge_ok_holds inclusion_sound_holds). Qed.
Print Assumptions C10_eval_re_search_sound.

Theorem C10_eval_replace_re_sound : forall p s t x,
  prog_ok p = true -> goodwb s = true -> eval_replace_re p s t = Some x -> ReplaceRe (denote p) s t x.
Proof. exact (eval_replace_re_sound merge_ok_holds inclusion_sound_holds). Qed.
Print Assumptions C10_eval_replace_re_sound.

Theorem C10_eval_replace_re_all_sound : forall p s t x,
  prog_ok p = true -> goodwb s = true -> eval_replace_re_all p s t = Some x -> ReplaceReAll (denote p) s t x.
Proof. exact (eval_replace_re_all_sound merge_ok_holds inclusion_sound_holds). Qed.
Print Assumptions C10_eval_replace_re_all_sound.

(* the evaluators are total on accepted programs and good strings, and their value is the unique
   SMT-LIB value *)
Theorem C10_eval_replace_re_total : forall p s t, prog_ok p = true -> goodwb s = true ->
  exists x, eval_replace_re p s t = Some x /\ forall y, ReplaceRe (denote p) s t y <-> y = x.
Proof. exact eval_replace_re_total. Qed.
Print Assumptions C10_eval_replace_re_total.

Theorem C10_eval_replace_re_all_total : forall p s t, prog_ok p = true -> goodwb s = true ->
  exists x, eval_replace_re_all p s t = Some x /\ forall y, ReplaceReAll (denote p) s t y <-> y = x.
Proof. exact eval_replace_re_all_total. Qed.
Print Assumptions C10_eval_replace_re_all_total.

(* ---------------------------------------------------------------- examples: hypotheses are satisfiable *)

Open Scope N_scope.
Definition ex_with (p : prog) {A} (f : mgr -> re -> option A) : option A :=
  match run p new_mgr with Some (m, t) => f m t | None => None end.

Definition ex_astar_b := PConcat (PLoop (PStr [97]) 0 None) (PStr [98]).        (* a*b *)
Definition ex_astar := PLoop (PStr [97]) 0 None.                                (* a*  (nullable) *)
Definition ex_aplus := PLoop (PStr [97]) 1 None.                                (* a+ *)
Definition ex_ab_or_abc_c := PUnion (PStr [97; 98]) (PConcat (PStr [97; 98; 99]) (PStr [99])).  (* ab | abcc *)
Definition ex_not_a := PInter (PComp (PStr [97])) PAllChar.                     (* one character, not 'a' *)
Definition ex_xaabab : word := [120; 97; 97; 98; 97; 98].                       (* "xaabab" *)
Definition ex_baab : word := [98; 97; 97; 98].                                  (* "baab" *)

(* a*b on "xaabab": the leftmost match starts at 1 ("aab" = s[1..4), although "ab" = s[2..4) is
   shorter and "b" = s[3..4) shorter still); from 2 the match is s[2..4); from 4 it is s[4..6) *)
Example C10_ex_search :
  prog_ok ex_astar_b = true /\
  ex_with ex_astar_b (fun m t => Some (option_map snd (naive_re_search m t ex_xaabab 0 true),
                                       option_map snd (naive_re_search m t ex_xaabab 2 false),
                                       option_map snd (naive_re_search m t ex_xaabab 4 false),
                                       option_map snd (naive_re_search m t ex_xaabab 6 false))) =
  Some (Some (Found 1 4), Some (Found 2 4), Some (Found 4 6), Some NotFound).
Proof. vm_compute. split; reflexivity. Qed.

Example C10_ex_replace :
  ex_with ex_astar_b (fun m t => Some (option_map snd (str_replace_re m ex_xaabab t [90]),
                                       option_map snd (str_replace_re_all m ex_xaabab t [90]))) =
  Some (Some [120; 90; 97; 98], Some [120; 90; 90]).                (* "xZab", "xZZ" *)
Proof. vm_compute. reflexivity. Qed.

(* nullable pattern a*: replace_re inserts t in front (the empty match at 0 is the leftmost shortest);
   replace_re_all replaces the non-empty matches, each as short as possible: "baab" -> "bcdcdb"
   (the documentation example of the crate) *)
Example C10_ex_nullable :
  ex_with ex_astar (fun m t => Some (rnul t, option_map snd (naive_re_search m t ex_baab 0 true),
                                     option_map snd (str_replace_re m ex_baab t [99; 99]),
                                     option_map snd (str_replace_re_all m ex_baab t [99; 100]),
                                     option_map snd (str_replace_re m [] t [99]),
                                     option_map snd (str_replace_re_all m [] t [99]))) =
  Some (true, Some (Found 0 0), Some [99; 99; 98; 97; 97; 98], Some [98; 99; 100; 99; 100; 98],
        Some [99], Some []).
Proof. vm_compute. reflexivity. Qed.

(* a+ on "baab": first match "a" at 1 *)
Example C10_ex_plus :
  ex_with ex_aplus (fun m t => Some (option_map snd (str_replace_re m ex_baab t [99; 99]),
                                     option_map snd (str_replace_re_all m ex_baab t [99]))) =
  Some (Some [98; 99; 99; 97; 98], Some [98; 99; 99; 98]).
Proof. vm_compute. reflexivity. Qed.

(* empty pattern language: nothing changes *)
Example C10_ex_empty_language :
  ex_with PNone (fun m t => Some (option_map snd (naive_re_search m t ex_baab 0 true),
                                  option_map snd (str_replace_re m ex_baab t [99]),
                                  option_map snd (str_replace_re_all m ex_baab t [99]))) =
  Some (Some NotFound, Some ex_baab, Some ex_baab).
Proof. vm_compute. reflexivity. Qed.

(* shortest, not longest: (ab | abcc) on "abcc" matches "ab"; a pattern with a complement; a
   replacement text that itself contains a match is not rescanned *)
Example C10_ex_more :
  ex_with ex_ab_or_abc_c (fun m t => Some (option_map snd (naive_re_search m t [97; 98; 99; 99] 0 true))) =
  Some (Some (Found 0 2)) /\
  ex_with ex_not_a (fun m t => Some (option_map snd (str_replace_re_all m [97; 98; 97; 99] t [97; 100]))) =
  Some (Some [97; 97; 100; 97; 97; 100]).
Proof. vm_compute. split; reflexivity. Qed.

(* the theorems apply: all hypotheses hold for the fresh manager (new_mgr_dwf) and these inputs, so
   the computed results are the SMT-LIB values *)
Example C10_ex_instance :
  dwf new_mgr /\
  ReplaceRe (denote ex_astar_b) ex_xaabab [90] [120; 90; 97; 98] /\
  ReplaceReAll (denote ex_astar_b) ex_xaabab [90] [120; 90; 90] /\
  ReplaceReAll (denote ex_astar) ex_baab [99; 100] [98; 99; 100; 99; 100; 98] /\
  ReplaceRe (denote ex_astar) ex_baab [99] (99 :: ex_baab) /\
  ReplaceRe (denote PNone) ex_baab [99] ex_baab /\
  LeftmostShortest (denote ex_astar_b) true ex_xaabab 0 1 4 /\
  LeftmostShortest (denote ex_astar_b) false ex_xaabab 2 2 4 /\
  NoMatchFrom (denote ex_astar_b) false ex_xaabab 6.
Proof.
  split; [exact new_mgr_dwf|].
  split; [apply C10_eval_replace_re_sound; vm_compute; reflexivity|].
  split; [apply C10_eval_replace_re_all_sound; vm_compute; reflexivity|].
  split; [apply C10_eval_replace_re_all_sound; vm_compute; reflexivity|].
  split; [apply C10_eval_replace_re_sound; vm_compute; reflexivity|].
  split; [apply C10_eval_replace_re_sound; vm_compute; reflexivity|].
  split; [apply (C10_eval_re_search_sound ex_astar_b ex_xaabab 0 true (Found 1 4));
            [reflexivity | reflexivity | cbn; lia | vm_compute; reflexivity]|].
  split; [apply (C10_eval_re_search_sound ex_astar_b ex_xaabab 2 false (Found 2 4));
            [reflexivity | reflexivity | cbn; lia | vm_compute; reflexivity]|].
  apply (C10_eval_re_search_sound ex_astar_b ex_xaabab 6 false NotFound);
    [reflexivity | reflexivity | cbn; lia | vm_compute; reflexivity].
Qed.
