(* C18 -- start_char / start_class are exact.

   "start_char(e,c) returns true exactly when some string in the language of e begins with character
    c, and start_class(e,cid) gives that answer for (every character of) a valid derivative class and
    BadClassId for an invalid one."

   Statements only; every proof is [exact <lemma>] (lemmas in EmptinessProofs.v).

   The model of start_char is the code after repair D8 (the pinned code answered Concat and Inter
   structurally, which is wrong: Sigma & "ab" and the character 'a'): structural for Empty / Epsilon /
   Range / Loop / Union, char_derivative + is_empty_re for Concat / Inter / Complement.

   PROVED: exactness whenever the call returns.  start_char calls is_empty_re (a worklist over
   derivatives) on the Concat / Inter / Complement subterms it meets; the only completion hypothesis
   is that the start_char / start_class call itself returns (model: Some).  [None] = out of fuel or a
   Rust panic.
   NOT PROVED (the reason for the suffix _partial):
     C18_start_char_terminates : forall m e c, dwf m -> owned m e -> good c ->
                                   exists fuel m' b, start_char fuel e m c = Some (m', b)
   i.e. that the call always returns: finiteness of the derivative closure (the same gap as
   C19_iter_terminates and C05) and absence of u32 overflow panics in the constructors called by the
   derivative code (the latter is now a theorem: defect D11 is repaired, C03_char_derivative_total;
   the former is proved for is_empty_re in Properties/C19t.v).  C18_start_class_bad_id needs no such
   hypothesis.

   Vocabulary (Sem.v, Denote.v, PartitionSpec.v, DerivProofs.v):
     L e w              the word w is in the language of the model term e
     denote p w         w is in the language SMT-LIB assigns to the construction program p
     good c / goodw w   a valid SMT-LIB character (<= 0x2FFFF) / a string of such characters
     rcls e             the derivative classes of e (a CharPartition);  pvalid p cid: valid class id
     in_class p c cid   character c belongs to class cid of partition p
     owned m e, ext m m', dwf m, run p m      as in C03 / C05
   Premises: none besides dwf / owned / good c ([merge_ok], [inclusion_sound] are discharged inside
   EmptinessProofs.v).  The loop case uses the crate invariant recorded in dwf that no Loop term has
   the range [0,0] (for such a term start_char would answer for the body although the loop only
   contains the empty string). *)
Require Import Base CharSet Partition PartitionSpec LoopRange Regex Inclusion Constructors Deriv Explore Denote Sem.
Require Import Lang PartitionProofs ManagerProofs ConstructorProofs RunProofs DerivProofs ExploreProofs.
Require Import EmptinessProofs.
Open Scope N_scope.

(* ---------------------------------------------------------------- start_char *)

Theorem C18_start_char_iff_partial : forall fuel e m c m' b,
  dwf m -> owned m e -> good c -> start_char fuel e m c = Some (m', b) ->
  (dwf m' /\ ext m m') /\ (b = true <-> exists w, goodw w /\ L e (c :: w)).
Proof. exact start_char_iff. Qed.
Print Assumptions C18_start_char_iff_partial.

(* against the SMT-LIB denotation of the way the term was built, from any manager satisfying dwf *)
Theorem C18_start_char_denote_partial : forall fuel p m m1 t c m2 b,
  dwf m -> prog_ok p = true -> run p m = Some (m1, t) -> good c -> start_char fuel t m1 c = Some (m2, b) ->
  (b = true <-> exists w, goodw w /\ denote p (c :: w)).
Proof. exact start_char_denote. Qed.
Print Assumptions C18_start_char_denote_partial.

(* the Loop case in isolation: for a range other than [0,0], some member of A^[range] starts with c
   exactly when some member of A does *)
Theorem C18_loop_starts : forall (A : lang) r c, good c -> lr_valid r -> lr_is_zero r = false ->
  ((exists w, goodw w /\ exists n, in_lr n r /\ l_pow A n (c :: w)) <-> (exists w, goodw w /\ A (c :: w))).
Proof. exact loop_starts. Qed.
Print Assumptions C18_loop_starts.

(* ---------------------------------------------------------------- start_class *)

(* invalid class id: Err(BadClassId), manager untouched; valid class id: Ok(b) where b is the exact
   answer for every character of the class *)
Theorem C18_start_class_spec_partial : forall fuel m e cid,
  dwf m -> owned m e ->
  (pvalid (rcls e) cid = false -> start_class fuel m e cid = Some (m, SErr BadClassId)) /\
  (pvalid (rcls e) cid = true -> forall m' res, start_class fuel m e cid = Some (m', res) ->
     exists b, res = SOk b /\ (dwf m' /\ ext m m') /\
       forall c, good c -> in_class (rcls e) c cid -> (b = true <-> exists w, goodw w /\ L e (c :: w))).
Proof. exact start_class_spec. Qed.
Print Assumptions C18_start_class_spec_partial.

(* the invalid case holds for every manager and term, with no completion hypothesis *)
Theorem C18_start_class_bad_id : forall fuel m e cid,
  pvalid (rcls e) cid = false -> start_class fuel m e cid = Some (m, SErr BadClassId).
Proof. exact start_class_bad_id. Qed.
Print Assumptions C18_start_class_bad_id.

(* ---------------------------------------------------------------- non-vacuity *)
Definition c18_with (p : prog) {A} (f : mgr -> re -> option A) : option A :=
  match run p new_mgr with Some (m, t) => f m t | None => None end.
Definition c18_ans {A} (x : option (mgr * A)) : option A := option_map snd x.

(* [a-c]* "c" & no factor "ab" *)
Definition c18_p1 := PInter (PConcat (PLoop (PRange 97 99) 0 None) (PStr [99]))
                            (PComp (PConcat PAll (PConcat (PStr [97; 98]) PAll))).
(* the witness of D8: Sigma & "ab" is empty, nothing starts with 'a' *)
Definition c18_p2 := PInter PAllChar (PStr [97; 98]).
(* ("ab" & not (a Sigma* ))+ | [x-z] : a loop over a semantically empty body, inside a union *)
Definition c18_p3 := PUnion (PLoop (PInter (PStr [97; 98]) (PComp (PConcat (PRange 97 97) PAll))) 1 None)
                            (PRange 120 122).

Example C18_example_premises :
  match run c18_p1 new_mgr, run c18_p3 new_mgr with
  | Some (m1, t1), Some (m3, t3) => (dwf m1 /\ owned m1 t1) /\ (dwf m3 /\ owned m3 t3)
  | _, _ => False
  end.
Proof.
  destruct (run c18_p1 new_mgr) as [[m1 t1]|] eqn:R1; [|vm_compute in R1; discriminate].
  destruct (run c18_p3 new_mgr) as [[m3 t3]|] eqn:R3; [|vm_compute in R3; discriminate].
  destruct (run_dwf c18_p1 _ _ _ new_mgr_dwf eq_refl R1) as (D1 & _ & O1).
  destruct (run_dwf c18_p3 _ _ _ new_mgr_dwf eq_refl R3) as (D3 & _ & O3).
  auto 10.
Qed.

(* the calls return within 50 steps.  p1: members start with a, b or c, not with d; its classes are
   [0,'a'-1], {a}, {b}, {c}, ['d', max] (no complementary class).  p2: nothing starts with 'a'.
   p3: only x..z *)
Example C18_example_runs :
  c18_with c18_p1 (fun m t => Some (c18_ans (start_char 50 t m 97), c18_ans (start_char 50 t m 98),
                                    c18_ans (start_char 50 t m 99), c18_ans (start_char 50 t m 100))) =
    Some (Some true, Some true, Some true, Some false) /\
  c18_with c18_p1 (fun m t => Some (ivs (rcls t), c18_ans (start_class 50 m t (CInt 0)),
                                    c18_ans (start_class 50 m t (CInt 1)), c18_ans (start_class 50 m t (CInt 4)),
                                    c18_ans (start_class 50 m t CComp), c18_ans (start_class 50 m t (CInt 5)))) =
    Some ([(0, 96); (97, 97); (98, 98); (99, 99); (100, 196607)], Some (SOk false), Some (SOk true),
          Some (SOk false), Some (SErr BadClassId), Some (SErr BadClassId)) /\
  c18_with c18_p2 (fun m t => Some (c18_ans (start_char 50 t m 97))) = Some (Some false) /\
  c18_with c18_p3 (fun m t => Some (c18_ans (start_char 50 t m 97), c18_ans (start_char 50 t m 121))) =
    Some (Some false, Some true).
Proof. vm_compute. repeat split; reflexivity. Qed.

(* the theorem applied to a run: a fact about the SMT-LIB denotation obtained from the code *)
Example C18_example_applied :
  (exists w, goodw w /\ denote c18_p1 (98 :: w)) /\ ~ (exists w, goodw w /\ denote c18_p1 (100 :: w)).
Proof.
  assert (E : exists m t m2 m3, run c18_p1 new_mgr = Some (m, t) /\
                start_char 50 t m 98 = Some (m2, true) /\ start_char 50 t m 100 = Some (m3, false)).
  { destruct (run c18_p1 new_mgr) as [[m t]|] eqn:R; [|vm_compute in R; discriminate].
    vm_compute in R. inversion R; subst m t. eexists _, _, _, _. split; [reflexivity|].
    split; vm_compute; reflexivity. }
  destruct E as (m & t & m2 & m3 & R & G1 & G2). split.
  - apply (C18_start_char_denote_partial 50 c18_p1 new_mgr m t 98 m2 true new_mgr_dwf eq_refl R); [|exact G1|reflexivity].
    unfold good, MAXC. lia.
  - intros H.
    apply (C18_start_char_denote_partial 50 c18_p1 new_mgr m t 100 m3 false new_mgr_dwf eq_refl R) in H;
      [discriminate| |exact G2].
    unfold good, MAXC. lia.
Qed.
