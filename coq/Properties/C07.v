(* C07 -- Hash-consing: identical constructions give the identical term, whatever the history.
   Statements only; every proof is [exact <lemma>] (lemmas: ReplayProofs.v, ManagerProofs.v).

   Reading guide.
     A term (&'static RE) is an id-tagged tree [re]; Rust `==`, Hash and pointer identity of terms of
     one manager are [re_eqb] (equality of ids).  [owned m e]: e is a term of manager m.
     [wf m]: the manager invariant (C01).  [ext m m']: m' extends m (no term lost or changed).
     [f m args = Some (m1, t)]: the call returns t and leaves the manager in state m1; None = panic.
     [run p m]: the constructor calls the public API makes for the SMT-LIB regex term p (RunProofs.v).
     "Re-issuing" a construction on a later state m' of the manager: [f m' args = Some (m', t)] --
     the very same term, and the manager is not changed (nothing is allocated).

   What is covered.
     * C07_replay_<f>, for every constructor f: the same call on ANY later well-formed state of the
       manager (any m' with ext m1 m': whatever was built, derived, compiled, tested in between)
       returns the same term.  C07_same_term_any_later_manager is the same for whole programs.
     * Histories: [history m m'] (constructions and arbitrary invariant-preserving extensions) and
       executable histories [exec_history] over concrete statements (constructions, char/class
       derivatives, iter_derivatives, is_empty_re, get_string, compile).
     * Equality is identity; complement is a fixpoint-free involution.
     * Languages (and the constants, the nullable flag) do not depend on the history.
     * The thread-local manager of smt_regular_expressions.rs is one manager value whose history
       starts at [new_mgr].

   Partial: for derivative-layer statements of an executable history, "the manager after the step
   is well-formed and extends the one before" is a premise ([history_ok]); it is the monotonicity
   theorem of the derivative layer (C03/C19), not proved here.  Constructions need no premise.
   The language theorems need the soundness of the syntactic inclusion test used by the union
   constructor (C16).  C07_language_history_free / C07_thread_local_language discharge it with
   InclusionProofs.v (C07_inclusion_premise_holds); the variants with the explicit premise [Hsub],
   stated as in C01, are kept under the suffix _modulo_inclusion. *)
Require Import Base CharSet Partition PartitionSpec LoopRange Regex Inclusion Constructors Deriv
  Explore Automaton Compile Denote Sem.
Require Import Lang ManagerProofs ConstructorProofs RunProofs ReplayProofs.
Open Scope N_scope.

(* ---------------------------------------------------------------- the store: make *)

(* ReManager::make on a later state of the manager finds the stored term *)
Theorem C07_replay_make : forall m k m1 t m',
  wf m -> make m k = Some (m1, t) -> wf m' -> ext m1 m' -> make m' k = Some (m', t).
Proof. exact replay_make. Qed.
Print Assumptions C07_replay_make.

(* any stored term is what make returns for its own node *)
Theorem C07_make_finds_stored_term : forall m k t,
  wf m -> not_compl k -> owned m t -> key_of (rnode t) = key_of k -> make m k = Some (m, t).
Proof. exact make_found. Qed.
Print Assumptions C07_make_finds_stored_term.

(* the cached constants (sigma, empty, full, epsilon, sigma+) are the same five terms in every
   well-formed manager *)
Theorem C07_constants_history_free : forall m, wf m ->
  m_sigma m = sigma0 /\ m_empty m = empty0 /\ m_full m = full0 /\ m_eps m = eps0 /\ m_splus m = splus0.
Proof. exact consts_new_mgr. Qed.
Print Assumptions C07_constants_history_free.

(* ---------------------------------------------------------------- every constructor *)

Theorem C07_replay_char_set : forall m s m1 t m',
  wf m -> char_set m s = Some (m1, t) -> wf m' -> ext m1 m' -> char_set m' s = Some (m', t).
Proof. exact replay_char_set. Qed.
Print Assumptions C07_replay_char_set.

Theorem C07_replay_range : forall m a b m1 t m',
  wf m -> range m a b = Some (m1, t) -> wf m' -> ext m1 m' -> range m' a b = Some (m', t).
Proof. exact replay_range. Qed.
Print Assumptions C07_replay_range.

Theorem C07_replay_char : forall m x m1 t m',
  wf m -> mchar m x = Some (m1, t) -> wf m' -> ext m1 m' -> mchar m' x = Some (m', t).
Proof. exact replay_mchar. Qed.
Print Assumptions C07_replay_char.

Theorem C07_replay_str : forall m w m1 t m',
  wf m -> mstr m w = Some (m1, t) -> wf m' -> ext m1 m' -> mstr m' w = Some (m', t).
Proof. exact replay_mstr. Qed.
Print Assumptions C07_replay_str.

Theorem C07_replay_smt_range : forall m s1 s2 m1 t m',
  wf m -> smt_range m s1 s2 = Some (m1, t) -> wf m' -> ext m1 m' -> smt_range m' s1 s2 = Some (m', t).
Proof. exact replay_smt_range. Qed.
Print Assumptions C07_replay_smt_range.

(* concat allocates intermediate terms when it re-associates; all of them are found again *)
Theorem C07_replay_concat : forall e1 m e2 m1 t m',
  wf m -> owned m e1 -> owned m e2 -> concat e1 m e2 = Some (m1, t) ->
  wf m' -> ext m1 m' -> concat e1 m' e2 = Some (m', t).
Proof. exact replay_concat. Qed.
Print Assumptions C07_replay_concat.

Theorem C07_replay_concat_list : forall m l m1 t m',
  wf m -> (forall x, In x l -> owned m x) -> concat_list m l = Some (m1, t) ->
  wf m' -> ext m1 m' -> concat_list m' l = Some (m', t).
Proof. exact replay_concat_list. Qed.
Print Assumptions C07_replay_concat_list.

Theorem C07_replay_mk_loop : forall m e rg m1 t m',
  wf m -> mk_loop m e rg = Some (m1, t) -> wf m' -> ext m1 m' -> mk_loop m' e rg = Some (m', t).
Proof. exact replay_mk_loop. Qed.
Print Assumptions C07_replay_mk_loop.

Theorem C07_replay_star : forall m e m1 t m',
  wf m -> star m e = Some (m1, t) -> wf m' -> ext m1 m' -> star m' e = Some (m', t).
Proof. exact replay_star. Qed.
Print Assumptions C07_replay_star.

Theorem C07_replay_plus : forall m e m1 t m',
  wf m -> plus m e = Some (m1, t) -> wf m' -> ext m1 m' -> plus m' e = Some (m', t).
Proof. exact replay_plus. Qed.
Print Assumptions C07_replay_plus.

Theorem C07_replay_opt : forall m e m1 t m',
  wf m -> opt m e = Some (m1, t) -> wf m' -> ext m1 m' -> opt m' e = Some (m', t).
Proof. exact replay_opt. Qed.
Print Assumptions C07_replay_opt.

Theorem C07_replay_exp : forall m e k m1 t m',
  wf m -> exp m e k = Some (m1, t) -> wf m' -> ext m1 m' -> exp m' e k = Some (m', t).
Proof. exact replay_exp. Qed.
Print Assumptions C07_replay_exp.

Theorem C07_replay_smt_loop : forall m e i j m1 t m',
  wf m -> smt_loop m e i j = Some (m1, t) -> wf m' -> ext m1 m' -> smt_loop m' e i j = Some (m', t).
Proof. exact replay_smt_loop. Qed.
Print Assumptions C07_replay_smt_loop.

Theorem C07_replay_loop_inf : forall m e i m1 t m',
  wf m -> Constructors.loop_inf m e i = Some (m1, t) -> wf m' -> ext m1 m' ->
  Constructors.loop_inf m' e i = Some (m', t).
Proof. exact replay_loop_inf. Qed.
Print Assumptions C07_replay_loop_inf.

(* the set operations sort by id, drop duplicates, detect complementary pairs by id and prune
   subsumed operands: all functions of the argument terms alone *)
Theorem C07_replay_make_inter : forall m v m1 t m',
  wf m -> make_inter m v = Some (m1, t) -> wf m' -> ext m1 m' -> make_inter m' v = Some (m', t).
Proof. exact replay_make_inter. Qed.
Print Assumptions C07_replay_make_inter.

Theorem C07_replay_make_union : forall m v m1 t m',
  wf m -> make_union m v = Some (m1, t) -> wf m' -> ext m1 m' -> make_union m' v = Some (m', t).
Proof. exact replay_make_union. Qed.
Print Assumptions C07_replay_make_union.

Theorem C07_replay_inter : forall m a b m1 t m',
  wf m -> inter m a b = Some (m1, t) -> wf m' -> ext m1 m' -> inter m' a b = Some (m', t).
Proof. exact replay_inter. Qed.
Print Assumptions C07_replay_inter.

Theorem C07_replay_union : forall m a b m1 t m',
  wf m -> union m a b = Some (m1, t) -> wf m' -> ext m1 m' -> union m' a b = Some (m', t).
Proof. exact replay_union. Qed.
Print Assumptions C07_replay_union.

Theorem C07_replay_diff : forall m a b m1 t m',
  wf m -> owned m a -> owned m b -> diff m a b = Some (m1, t) -> wf m' -> ext m1 m' ->
  diff m' a b = Some (m', t).
Proof. exact replay_diff. Qed.
Print Assumptions C07_replay_diff.

Theorem C07_replay_inter_list : forall m l m1 t m',
  wf m -> inter_list m l = Some (m1, t) -> wf m' -> ext m1 m' -> inter_list m' l = Some (m', t).
Proof. exact replay_inter_list. Qed.
Print Assumptions C07_replay_inter_list.

Theorem C07_replay_union_list : forall m l m1 t m',
  wf m -> union_list m l = Some (m1, t) -> wf m' -> ext m1 m' -> union_list m' l = Some (m', t).
Proof. exact replay_union_list. Qed.
Print Assumptions C07_replay_union_list.

Theorem C07_replay_diff_list : forall m e1 l m1 t m',
  wf m -> owned m e1 -> (forall x, In x l -> owned m x) -> diff_list m e1 l = Some (m1, t) ->
  wf m' -> ext m1 m' -> diff_list m' e1 l = Some (m', t).
Proof. exact replay_diff_list. Qed.
Print Assumptions C07_replay_diff_list.

(* complement never allocates: it is a lookup at id xor 1, stable under extension *)
Theorem C07_replay_complement : forall m e r m',
  wf m -> owned m e -> complement m e = Some r -> ext m m' ->
  complement m' e = Some r /\ owned m' r.
Proof. exact replay_complement_mgr. Qed.
Print Assumptions C07_replay_complement.

(* ---------------------------------------------------------------- whole constructions, histories *)

(* Main theorem.  If the construction p, started in state m, returned t and left the manager in
   state m1, then in ANY later well-formed state m' of that manager the same construction returns
   the same term t and changes nothing. *)
Theorem C07_same_term_any_later_manager : forall p m m1 t m',
  wf m -> prog_ok p = true -> run p m = Some (m1, t) -> wf m' -> ext m1 m' ->
  run p m' = Some (m', t).
Proof. exact same_term_any_later_manager. Qed.
Print Assumptions C07_same_term_any_later_manager.

Theorem C07_reissue_immediately : forall p m m1 t,
  wf m -> prog_ok p = true -> run p m = Some (m1, t) -> run p m1 = Some (m1, t).
Proof. exact run_idempotent. Qed.
Print Assumptions C07_reissue_immediately.

(* a history keeps the invariant and only extends the manager *)
Theorem C07_history_extends : forall m m', wf m -> history m m' -> wf m' /\ ext m m'.
Proof. exact history_wf. Qed.
Print Assumptions C07_history_extends.

Theorem C07_same_term_any_history : forall p m m1 t m',
  wf m -> prog_ok p = true -> run p m = Some (m1, t) -> history m1 m' ->
  run p m' = Some (m', t).
Proof. exact same_term_any_history. Qed.
Print Assumptions C07_same_term_any_history.

(* any number of other constructions in between: no premise beyond acceptance by the API *)
Theorem C07_same_term_after_constructions : forall p m m1 t ps m',
  wf m -> prog_ok p = true -> run p m = Some (m1, t) ->
  Forall (fun q => prog_ok q = true) ps -> exec_history (map SBuild ps) m1 = Some m' ->
  run p m' = Some (m', t).
Proof. exact same_term_after_constructions. Qed.
Print Assumptions C07_same_term_after_constructions.

(* Full statement (not proved in this generality):
     forall p m m1 t h m', wf m -> prog_ok p = true -> run p m = Some (m1, t) ->
       (every SBuild q in h has prog_ok q = true, every other statement of h acts on a term owned
        by the manager at that point) ->
       exec_history h m1 = Some m' -> run p m' = Some (m', t).
   Proved: the same with [history_ok h m1], which for derivative / iter_derivatives / is_empty_re /
   get_string / compile statements also assumes that the manager after the step is well-formed and
   extends the one before (derivative-layer monotonicity, C03/C19). *)
Theorem C07_same_term_any_exec_history_partial : forall p m m1 t h m',
  wf m -> prog_ok p = true -> run p m = Some (m1, t) ->
  history_ok h m1 -> exec_history h m1 = Some m' ->
  run p m' = Some (m', t).
Proof. exact same_term_any_exec_history. Qed.
Print Assumptions C07_same_term_any_exec_history_partial.

(* the only way a derivative step touches the manager besides constructor calls *)
Theorem C07_cache_insert_extends : forall m c,
  wf m -> cache_ok (set_cache m c) -> wf (set_cache m c) /\ ext m (set_cache m c).
Proof. exact set_cache_ext. Qed.
Print Assumptions C07_cache_insert_extends.

(* ---------------------------------------------------------------- equality is identity *)

Theorem C07_eq_reflects_identity : forall m a b,
  owned m a -> owned m b -> re_eqb a b = true -> a = b.
Proof. exact eq_reflects_identity. Qed.
Print Assumptions C07_eq_reflects_identity.

Theorem C07_eq_iff_identity : forall m a b,
  owned m a -> owned m b -> (re_eqb a b = true <-> a = b).
Proof. exact eq_iff_identity. Qed.
Print Assumptions C07_eq_iff_identity.

(* also for two terms created at different points of the history *)
Theorem C07_eq_reflects_identity_later : forall m m' a b,
  ext m m' -> owned m a -> owned m' b -> re_eqb a b = true -> a = b.
Proof. exact eq_reflects_identity_later. Qed.
Print Assumptions C07_eq_reflects_identity_later.

(* no two stored terms have the same shallow key (operator + ids of the children) *)
Theorem C07_same_key_same_term : forall m a b,
  wf m -> owned m a -> owned m b -> key_of (rnode a) = key_of (rnode b) -> a = b.
Proof. exact same_key_same_term. Qed.
Print Assumptions C07_same_key_same_term.

(* ---------------------------------------------------------------- complement *)

Theorem C07_complement_involutive : forall m e r,
  wf m -> owned m e -> complement m e = Some r -> complement m r = Some e.
Proof. exact complement_involutive. Qed.
Print Assumptions C07_complement_involutive.

Theorem C07_complement_no_fixpoint : forall m e r,
  wf m -> owned m e -> complement m e = Some r -> rid r <> rid e.
Proof. exact complement_no_fixpoint. Qed.
Print Assumptions C07_complement_no_fixpoint.

(* never panics on a term of the manager; complement(complement e) is e; complement e != e *)
Theorem C07_complement_involution : forall m e, wf m -> owned m e ->
  exists r, complement m e = Some r /\ owned m r /\ complement m r = Some e /\
            re_eqb r e = false /\ r <> e.
Proof. exact complement_involution. Qed.
Print Assumptions C07_complement_involution.

(* ---------------------------------------------------------------- languages *)

(* L is a function of the tree: what is found under an id in a later state is the same tree *)
Theorem C07_ext_preserves_language : forall m m' t t',
  ext m m' -> owned m t -> owned m' t' -> rid t' = rid t ->
  t' = t /\ forall w, L t' w <-> L t w.
Proof. exact ext_preserves_language. Qed.
Print Assumptions C07_ext_preserves_language.

(* the same construction in two managers with arbitrary, different histories: the two terms may
   differ (ids, order of union operands) but denote the same language -- the SMT-LIB one -- and
   have the same nullable flag *)
Theorem C07_language_history_free_modulo_inclusion :
  forall (Hsub : forall m, wf m -> forall r s, owned m r -> owned m s -> included_in r s = true ->
                   lang_incl (L r) (L s)),
  forall p ma ma' ta mb mb' tb,
  wf ma -> wf mb -> prog_ok p = true ->
  run p ma = Some (ma', ta) -> run p mb = Some (mb', tb) ->
  lang_eq (L ta) (L tb) /\ lang_eq (L ta) (denote p) /\ rnul ta = rnul tb.
Proof. exact language_history_free_modulo_inclusion. Qed.
Print Assumptions C07_language_history_free_modulo_inclusion.

(* the premise Hsub of C01_run_correct_modulo_inclusion holds (C16 applied to the terms of a
   well-formed manager) *)
Theorem C07_inclusion_premise_holds :
  forall m, wf m -> forall r s, owned m r -> owned m s -> included_in r s = true ->
    lang_incl (L r) (L s).
Proof. exact inclusion_sound_holds. Qed.
Print Assumptions C07_inclusion_premise_holds.

Theorem C07_language_history_free : forall p ma ma' ta mb mb' tb,
  wf ma -> wf mb -> prog_ok p = true ->
  run p ma = Some (ma', ta) -> run p mb = Some (mb', tb) ->
  lang_eq (L ta) (L tb) /\ lang_eq (L ta) (denote p) /\ rnul ta = rnul tb.
Proof. exact language_history_free. Qed.
Print Assumptions C07_language_history_free.

(* ---------------------------------------------------------------- the thread-local manager *)

Theorem C07_thread_local_manager_wf : wf new_mgr.
Proof. exact new_mgr_wf. Qed.
Print Assumptions C07_thread_local_manager_wf.

(* m: the state of the thread-local manager after any history of wrapper calls *)
Theorem C07_thread_local_same_term : forall m p m1 t m',
  history new_mgr m -> prog_ok p = true -> run p m = Some (m1, t) -> history m1 m' ->
  run p m' = Some (m', t).
Proof. exact thread_local_same_term. Qed.
Print Assumptions C07_thread_local_same_term.

Theorem C07_thread_local_first_use : forall p m1 t m',
  prog_ok p = true -> run p new_mgr = Some (m1, t) -> history m1 m' -> run p m' = Some (m', t).
Proof. exact thread_local_first_use. Qed.
Print Assumptions C07_thread_local_first_use.

Theorem C07_thread_local_language_modulo_inclusion :
  forall (Hsub : forall m, wf m -> forall r s, owned m r -> owned m s -> included_in r s = true ->
                   lang_incl (L r) (L s)),
  forall p ma ma' ta mb mb' tb,
  history new_mgr ma -> history new_mgr mb -> prog_ok p = true ->
  run p ma = Some (ma', ta) -> run p mb = Some (mb', tb) ->
  lang_eq (L ta) (L tb).
Proof. exact thread_local_language_modulo_inclusion. Qed.
Print Assumptions C07_thread_local_language_modulo_inclusion.

Theorem C07_thread_local_language : forall p ma ma' ta mb mb' tb,
  history new_mgr ma -> history new_mgr mb -> prog_ok p = true ->
  run p ma = Some (ma', ta) -> run p mb = Some (mb', tb) ->
  lang_eq (L ta) (L tb).
Proof. exact thread_local_language. Qed.
Print Assumptions C07_thread_local_language.

(* ---------------------------------------------------------------- examples *)

(* (ab)(c|[x-z])*   and three unrelated constructions *)
Definition ex_p : prog := PConcat (PStr [97; 98]) (PLoop (PUnion (PStr [99]) (PRange 120 122)) 0 None).
Definition ex_q1 : prog := PInter (PLoop PAllChar 2 (Some 5)) (PComp (PStr [104; 105])).
Definition ex_q2 : prog := PUnion (PRange 48 57) (PConcat (PRange 120 122) PAll).
Definition ex_q3 : prog := PDiff (PLoop (PStr [99]) 1 None) (PStr [99; 99]).

Definition ids_of (o : option (mgr * re)) : option (N * N) :=
  match o with Some (m, t) => Some (counter m, rid t) | None => None end.

Example ex_progs_ok : forallb prog_ok [ex_p; ex_q1; ex_q2; ex_q3] = true.
Proof. vm_compute. reflexivity. Qed.

(* first use on the fresh manager: ids 0..5 are the constants, the result gets id 22 *)
Example ex_first : ids_of (run ex_p new_mgr) = Some (24, 22).
Proof. vm_compute. reflexivity. Qed.

(* re-issued after three unrelated constructions: same term (whole tree), nothing allocated *)
Example ex_reissue :
  match run ex_p new_mgr with
  | Some (m1, t) =>
    match exec_history (map SBuild [ex_q1; ex_q2; ex_q3]) m1 with
    | Some m' =>
      match run ex_p m' with
      | Some (m'', t') => re_eqb t t' && (counter m'' =? counter m') && (counter m1 <? counter m')
      | None => false
      end
    | None => false
    end
  | None => false
  end = true.
Proof. vm_compute. reflexivity. Qed.

(* the same with derivative-layer statements in between (derivatives of the term itself and of an
   unrelated term, full enumeration, emptiness test, compilation): they allocate ids and fill the
   cache, the re-issued construction still returns the term with id 22 *)
Example ex_reissue_after_derivatives :
  match run ex_p new_mgr with
  | Some (m1, t) =>
    match run ex_q1 m1 with
    | Some (m2, u) =>
      match exec_history [SCharDeriv t 97; SCharDeriv u 121; SIter 50 t; SIsEmpty 50 u;
                          SCompile 50 t None; SGetString 50 u] m2 with
      | Some m' =>
        match run ex_p m' with
        | Some (m'', t') =>
            re_eqb t t' && (counter m'' =? counter m') && (counter m2 <? counter m') &&
            Nat.ltb (length (cache m2)) (length (cache m'))
        | None => false
        end
      | None => false
      end
    | None => false
    end
  | None => false
  end = true.
Proof. vm_compute. reflexivity. Qed.

(* a different history gives the construction different ids (the theorems are not vacuous) *)
Example ex_other_history :
  match exec_history (map SBuild [ex_q3; ex_q1]) new_mgr with
  | Some m => ids_of (run ex_p m)
  | None => None
  end <> ids_of (run ex_p new_mgr).
Proof. vm_compute. discriminate. Qed.

(* complement: id xor 1, twice is the identity *)
Example ex_complement :
  match run ex_p new_mgr with
  | Some (m1, t) =>
    match complement m1 t with
    | Some r => match complement m1 r with
                | Some t' => re_eqb t t' && negb (re_eqb r t) && (rid r =? 23)
                | None => false
                end
    | None => false
    end
  | None => false
  end = true.
Proof. vm_compute. reflexivity. Qed.
