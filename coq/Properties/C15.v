(* C15 -- LoopRange arithmetic equals arithmetic on the integer sets it denotes.
   Statements only; every proof is [exact <lemma>] (lemmas in LoopRangeProofs.v).
   Vocabulary:  [inr n r]      n is a member of the range r (LR lo (Some hi) = [lo,hi], LR lo None = [lo,inf))
                [lr_valid r]   the type invariant lo <= hi <= 2^32-1 (lo <= 2^32-1 for infinite ranges)
                [ksum r k n]   n is a sum of k naturals, each a member of r (recursion on k; C15_ksum_list
                               shows it is "the sum of a list of length k of members of r")
                [representable P]  some valid range has exactly the members P
                [hull_of P t]  t contains P and is included in every range that contains P
   A model function returns None exactly where the Rust code panics (u32 overflow). *)
Require Import Base LoopRange LoopRangeProofs.
Open Scope N_scope.

(* ---- constructors and tests ---- *)

Theorem C15_constructors :
  (forall i j n, inr n (lr_finite i j) <-> i <= n <= j) /\
  (forall i n, inr n (lr_infinite i) <-> i <= n) /\
  (forall n, inr n lr_opt <-> n = 0 \/ n = 1) /\
  (forall n, inr n lr_star) /\
  (forall n, inr n lr_plus <-> 1 <= n) /\
  (forall k n, inr n (lr_point k) <-> n = k).
Proof. exact constructors_denote. Qed.
Print Assumptions C15_constructors.

Theorem C15_constructors_valid :
  (forall i j, i <= j -> j <= U32MAX -> lr_valid (lr_finite i j)) /\
  (forall i, i <= U32MAX -> lr_valid (lr_infinite i)) /\
  lr_valid lr_opt /\ lr_valid lr_star /\ lr_valid lr_plus /\
  (forall k, k <= U32MAX -> lr_valid (lr_point k)).
Proof. exact constructors_valid. Qed.
Print Assumptions C15_constructors_valid.

Theorem C15_is_finite : forall r, lr_is_finite r = true <-> exists m, forall n, inr n r -> n <= m.
Proof. exact is_finite_iff. Qed.
Print Assumptions C15_is_finite.

Theorem C15_is_infinite : forall r, lr_is_infinite r = true <-> forall m, exists n, inr n r /\ m < n.
Proof. exact is_infinite_iff. Qed.
Print Assumptions C15_is_infinite.

Theorem C15_is_point : forall r, lr_valid r ->
  (lr_is_point r = true <-> exists k, forall n, inr n r <-> n = k).
Proof. exact is_point_iff. Qed.
Print Assumptions C15_is_point.

Theorem C15_is_zero : forall r, lr_is_zero r = true <-> forall n, inr n r <-> n = 0.
Proof. exact is_zero_iff. Qed.
Print Assumptions C15_is_zero.

Theorem C15_is_one : forall r, lr_is_one r = true <-> forall n, inr n r <-> n = 1.
Proof. exact is_one_iff. Qed.
Print Assumptions C15_is_one.

Theorem C15_is_all : forall r, lr_is_all r = true <-> forall n, inr n r.
Proof. exact is_all_iff. Qed.
Print Assumptions C15_is_all.

Theorem C15_start_is_min : forall r, lr_valid r ->
  inr (lr_start r) r /\ forall n, inr n r -> lr_start r <= n.
Proof. exact start_is_min. Qed.
Print Assumptions C15_start_is_min.

(* derived PartialEq: equal ranges; and equal member sets mean equal ranges *)
Theorem C15_eq : forall r s, lr_eqb r s = true <-> r = s.
Proof. exact eqb_iff. Qed.
Print Assumptions C15_eq.

Theorem C15_extensional : forall t u, nonempty t -> nonempty u ->
  (forall n, inr n t <-> inr n u) -> t = u.
Proof. exact inr_ext. Qed.
Print Assumptions C15_extensional.

(* ---- membership and inclusion ---- *)

Theorem C15_contains : forall r i, lr_contains r i = true <-> inr i r.
Proof. exact contains_iff. Qed.
Print Assumptions C15_contains.

Theorem C15_includes : forall r o, lr_valid o ->
  (lr_includes r o = true <-> forall n, inr n o -> inr n r).
Proof. exact includes_iff. Qed.
Print Assumptions C15_includes.

(* ---- k-fold sums of an interval ---- *)

Theorem C15_ksum_list : forall r k n,
  ksum r k n <->
  exists l, N.of_nat (length l) = k /\ Forall (fun x => inr x r) l /\ n = fold_right N.add 0 l.
Proof. exact ksum_list. Qed.
Print Assumptions C15_ksum_list.

Theorem C15_ksum_interval : forall a b k n, a <= b ->
  (ksum (LR a (Some b)) k n <-> k * a <= n <= k * b).
Proof. exact ksum_fin. Qed.
Print Assumptions C15_ksum_interval.

Theorem C15_ksum_interval_inf : forall a k n,
  ksum (LR a None) k n <-> (k = 0 /\ n = 0) \/ (0 < k /\ k * a <= n).
Proof. exact ksum_inf. Qed.
Print Assumptions C15_ksum_interval_inf.

(* ---- add: exactly the set of sums; panics exactly when that set has no u32 range ---- *)

Theorem C15_add_sumset : forall r s t, lr_valid r -> lr_valid s -> lr_add r s = Some t ->
  forall n, inr n t <-> exists x y, inr x r /\ inr y s /\ n = x + y.
Proof. exact add_sumset. Qed.
Print Assumptions C15_add_sumset.

Theorem C15_add_valid : forall r s t, lr_valid r -> lr_valid s -> lr_add r s = Some t -> lr_valid t.
Proof. exact add_valid. Qed.
Print Assumptions C15_add_valid.

Theorem C15_add_none_iff_overflow : forall r s, lr_valid r -> lr_valid s ->
  (lr_add r s = None <->
   ~ exists t, lr_valid t /\ forall n, inr n t <-> exists x y, inr x r /\ inr y s /\ n = x + y).
Proof. exact add_none_iff. Qed.
Print Assumptions C15_add_none_iff_overflow.

Theorem C15_add_none_iff_bounds : forall r s, lr_valid r -> lr_valid s ->
  (lr_add r s = None <->
   U32MAX < lr_start r + lr_start s \/
   exists b d, r = LR (lr_start r) (Some b) /\ s = LR (lr_start s) (Some d) /\ U32MAX < b + d).
Proof. exact add_none_bounds. Qed.
Print Assumptions C15_add_none_iff_bounds.

Theorem C15_add_point : forall r x t, lr_valid r -> x <= U32MAX -> lr_add_point r x = Some t ->
  lr_valid t /\ forall n, inr n t <-> exists y, inr y r /\ n = y + x.
Proof. exact add_point_spec. Qed.
Print Assumptions C15_add_point.

(* ---- scale: the k-fold sum ---- *)

Theorem C15_scale_ksum : forall r k t, lr_valid r -> lr_scale r k = Some t ->
  forall n, inr n t <-> ksum r k n.
Proof. exact scale_ksum. Qed.
Print Assumptions C15_scale_ksum.

Theorem C15_scale_valid : forall r k t, lr_valid r -> lr_scale r k = Some t -> lr_valid t.
Proof. exact scale_valid. Qed.
Print Assumptions C15_scale_valid.

Theorem C15_scale_none_iff_overflow : forall r k, lr_valid r ->
  (lr_scale r k = None <-> ~ exists t, lr_valid t /\ forall n, inr n t <-> ksum r k n).
Proof. exact scale_none_iff. Qed.
Print Assumptions C15_scale_none_iff_overflow.

Theorem C15_scale_none_iff_bounds : forall r k, lr_valid r ->
  (lr_scale r k = None <->
   k <> 0 /\ (U32MAX < lr_start r * k \/ exists b, r = LR (lr_start r) (Some b) /\ U32MAX < b * k)).
Proof. exact scale_none_bounds. Qed.
Print Assumptions C15_scale_none_iff_bounds.

(* ---- mul: contains every product; it is the least range that does ---- *)

Theorem C15_mul_contains_products : forall r s t x y,
  lr_mul r s = Some t -> inr x r -> inr y s -> inr (x * y) t.
Proof. exact mul_contains_products. Qed.
Print Assumptions C15_mul_contains_products.

Theorem C15_mul_hull : forall r s t, lr_valid r -> lr_valid s -> lr_mul r s = Some t ->
  lr_valid t /\ hull_of (fun n => exists x y, inr x r /\ inr y s /\ n = x * y) t.
Proof. exact mul_hull. Qed.
Print Assumptions C15_mul_hull.

Theorem C15_mul_none_iff_overflow : forall r s, lr_valid r -> lr_valid s ->
  (lr_mul r s = None <->
   ~ exists t, lr_valid t /\ hull_of (fun n => exists x y, inr x r /\ inr y s /\ n = x * y) t).
Proof. exact mul_none_iff. Qed.
Print Assumptions C15_mul_none_iff_overflow.

(* ---- shift: predecessors, 0 stays 0 (N subtraction is truncated) ---- *)

Theorem C15_shift_pred : forall r, lr_valid r ->
  forall n, inr n (lr_shift r) <-> exists x, inr x r /\ n = x - 1.
Proof. exact shift_pred. Qed.
Print Assumptions C15_shift_pred.

Theorem C15_shift_valid : forall r, lr_valid r -> lr_valid (lr_shift r).
Proof. exact shift_valid. Qed.
Print Assumptions C15_shift_valid.

(* ---- right_mul_is_exact: (loop (loop L r) s) may be flattened to (loop L (r.mul s)) ---- *)

Theorem C15_right_mul_is_exact_iff : forall r s b t, lr_valid r -> lr_valid s ->
  lr_rmie r s = Some b -> lr_mul r s = Some t ->
  (b = true <-> forall n, (exists y, inr y s /\ ksum r y n) <-> inr n t).
Proof. exact right_mul_is_exact_iff. Qed.
Print Assumptions C15_right_mul_is_exact_iff.

(* the same without reference to mul (so also when mul overflows): true exactly when the union
   over y in s of the y-fold sums of r is an interval at all *)
Theorem C15_right_mul_is_exact_iff_interval : forall r s b, lr_valid r -> lr_valid s ->
  lr_rmie r s = Some b ->
  (b = true <-> exists t, forall n, (exists y, inr y s /\ ksum r y n) <-> inr n t).
Proof. exact rmie_iff_interval. Qed.
Print Assumptions C15_right_mul_is_exact_iff_interval.

Theorem C15_rmie_none_iff_overflow : forall r s,
  lr_rmie r s = None <->
  lr_is_point s = false /\ exists a b, r = LR a (Some b) /\ U32MAX < lr_start s * (b - a).
Proof. exact rmie_none_iff. Qed.
Print Assumptions C15_rmie_none_iff_overflow.

Theorem C15_rmie_total_when_product_finite : forall r s t, lr_valid r -> lr_valid s ->
  lr_is_finite s = true -> lr_mul r s = Some t -> exists b, lr_rmie r s = Some b.
Proof. exact rmie_total_finite. Qed.
Print Assumptions C15_rmie_total_when_product_finite.

(* non-vacuity: the hypotheses are satisfiable and the functions compute.
   The last conjunct records that with an infinite s the test can panic although r.mul(s) is a
   representable range ([0,65536] looped [65536,inf) times). *)
Example C15_example :
  lr_valid (LR 2 (Some 3)) /\ lr_valid (LR 1 None) /\
  lr_add (LR 2 (Some 3)) (LR 4 (Some 9)) = Some (LR 6 (Some 12)) /\
  lr_scale (LR 2 None) 3 = Some (LR 6 None) /\
  lr_scale (LR 65536 (Some 65536)) 65536 = None /\
  lr_mul (LR 0 (Some 1)) (LR 3 (Some 4)) = Some (LR 0 (Some 4)) /\
  lr_rmie (LR 0 (Some 1)) (LR 3 (Some 4)) = Some true /\
  lr_rmie (LR 2 (Some 2)) (LR 0 None) = Some false /\
  lr_rmie (LR 2 (Some 3)) (LR 1 None) = Some true /\
  lr_rmie (LR 3 (Some 4)) (LR 0 (Some 1)) = Some false /\
  lr_shift (LR 0 (Some 1)) = LR 0 (Some 0) /\
  ksum (LR 2 (Some 3)) 2 5 /\
  (lr_mul (LR 0 (Some 65536)) (LR 65536 None) = Some (LR 0 None) /\
   lr_rmie (LR 0 (Some 65536)) (LR 65536 None) = None).
Proof.
  unfold lr_valid, U32MAX. repeat split; try reflexivity; try lia.
  apply ksum_fin; lia.
Qed.
