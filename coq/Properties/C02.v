(* UPDATE: termination is now PROVED in Properties/C19t.v (C19_iter_terminates, C19_is_empty_re_terminates,
   C19_get_string_terminates, C19_compile_terminates, C19_try_compile_terminates): for every term owned by an
   API-reachable manager the exploration returns, with no divergence and no panic (after repair D11).  The
   completion hypotheses of the theorems below ("the run returns Some") are therefore always satisfiable; the
   remarks further down that call termination a gap describe the state before C19t.v existed. *)
(* C02 -- compile / try_compile yield a total DFA accepting exactly the regex language.

   "For every regular expression e, the automaton returned by compile (or by try_compile when it
    returns Some) is deterministic and total over the whole SMT alphabet, and it accepts a string
    exactly when that string is in the language of e.  Stepping the automaton with next/str_next
    never fails for any state and any character in [0,0x2FFFF]."

   Statements only; every proof is [exact <lemma>] (lemmas in CompileProofs.v).

   PROVED: correctness of EVERY automaton that is returned.  Every theorem named *_partial is
   stated under the premise
       compile_with_bound fuel m e bound = Some (m', Some A)
   (bound = None is compile(e), bound = Some n is try_compile(e, n); the model returns None when
   the fuel of the BFS runs out or when any unwrap()/panic!() of the Rust code would fire, and
   Some (m', None) when try_compile gives up at its bound).
   NOT PROVED (the only reason for the suffix _partial):
     C02_compile_returns : forall m e, dwf m -> owned m e ->
                             exists fuel m' A, compile_with_bound fuel m e None = Some (m', Some A).
   This is termination of the BFS = finiteness of the derivative closure under this crate's
   normal forms, i.e. exactly the gap C19_iter_terminates: C02_compile_returns_of_iter below proves
   that whenever the iterator's enumeration of the derivatives of e completes, compile(e) returns
   an automaton on the same fuel (no unwrap()/panic!() of the loop fires and build_unchecked of
   the loop's builder cannot fail, because the specification handed to the builder is strict: the
   checked build accepts it and build_unchecked returns the same automaton,
   C02_compiled_builder_partial).  So the premise "build_unchecked returns Some" that C19 left open
   is discharged, and nothing but termination of the enumeration is missing.

   Vocabulary.
   - [dwf m] = ManagerProofs.wf m /\ DerivProofs.nzm m: the manager invariant under which
     derivatives are correct (C03); it holds of new_mgr and is preserved by [run] and by every
     derivative.  [owned m e]: e sits at its own id in m's table.
   - [good c] : c <= 0x2FFFF; [goodw w]: all characters of w are good.  [L e] is the language of
     the term (Sem.v); [denote p] is the SMT-LIB denotation of a program (Denote.v).
   - a_next / a_str_next / a_accepts return None where the Rust code panics.
   - [c2_cd M r cid]: the class derivative of r for class cid that manager M answers from its
     cache.  [c2_step_ops M r]: the builder calls made while r is the popped term:
        BAdd (id r) iv_i (id (c2_cd M r (Interval i)))   for the i-th interval iv_i of r's classes,
        BDef (id r) (id (c2_cd M r Complement))          iff the complementary class is non-empty,
        BFin (id r)                                      iff r is nullable.
     [c2_hist M e l] = BNew (id e) :: the step ops of every term of l in order.
     [run_history h] is the AutomatonBuilder after the calls h (C13); [h_names], [hl], [h_default],
     [h_final], [spec_strict] are the readings of a history defined in BuilderSpec.v. *)
Require Import Base CharSet Partition PartitionSpec LoopRange Regex Inclusion Constructors Deriv Explore
  Automaton Compile Denote Lang Sem ManagerProofs RunProofs BuilderSpec.
Require AutomatonProofs.
Require Import BuilderProofs DerivProofs ExploreProofs CompileProofs.
Open Scope nat_scope.

(* ---------------- the builder driven by the loop; build_unchecked cannot fail ---------------- *)

(* The loop's builder is exactly run_history of: new(e), then for each term of the iterator's
   enumeration l (BFS order) one add_transition per class interval to the corresponding class
   derivative, set_default_successor iff the complement is non-empty, mark_final iff nullable.
   State names are term ids and their first-mention order is the BFS order.  All successors are
   enumerated terms, answered by cache hits of the final manager.  Each state's labels are the
   intervals of a well-formed partition (pairwise disjoint) and a default is declared exactly when
   some character is left over: the specification is strict, so build accepts it, and
   build_unchecked returns that same automaton. *)
Theorem C02_compiled_builder_partial : forall fuel m e bound m' A,
  dwf m -> owned m e -> compile_with_bound fuel m e bound = Some (m', Some A) ->
  exists l mx, let h := c2_hist m' e l in
    iter_derivatives fuel m e = Some (m', l) /\
    compile_go fuel m [e] [e] (b_new (rid e)) 0 mx = Some (m', Some (run_history h)) /\
    h_names h = map rid l /\
    (forall r cid, In r l -> In cid (pclass_ids (rcls r)) ->
       cached_deriv r m' cid = Some (m', c2_cd m' r cid) /\ In (c2_cd m' r cid) l) /\
    (forall r, In r l ->
       pwf (rcls r) /\ hl h (rid r) = ivs (rcls r) /\ pairwise_disjoint (hl h (rid r)) /\
       (h_default h (rid r) <> None <-> pempty_complement (rcls r) = false) /\
       h_final h (rid r) = rnul r) /\
    spec_strict h = true /\
    build (run_history h) = Some (BOk A) /\ build_unchecked (run_history h) = Some A.
Proof. exact compiled_builder_history. Qed.
Print Assumptions C02_compiled_builder_partial.

(* whenever the checked build accepts, build_unchecked returns the same automaton (any builder) *)
Theorem C02_build_unchecked_agrees : forall b A, build b = Some (BOk A) -> build_unchecked b = Some A.
Proof. exact build_ok_unchecked. Qed.
Print Assumptions C02_build_unchecked_agrees.

(* every automaton build returns for a history of legal calls is well formed (C14's invariant) *)
Theorem C02_build_history_wf : forall k0 ops A, ops_ok ops ->
  build (run_history (BNew k0 :: ops)) = Some (BOk A) -> AutomatonProofs.aut_wf A.
Proof. exact build_history_wf. Qed.
Print Assumptions C02_build_history_wf.

(* ---------------- deterministic, total, well formed ---------------- *)

Theorem C02_compiled_wf_partial : forall fuel m e bound m' A,
  dwf m -> owned m e -> compile_with_bound fuel m e bound = Some (m', Some A) ->
  AutomatonProofs.aut_wf A /\ aut_wfb A = true.
Proof. exact compiled_wf. Qed.
Print Assumptions C02_compiled_wf_partial.

(* next is a total function on states x good characters, str_next on states x good words, and
   both stay inside the automaton (next returns an option: at most one successor = deterministic) *)
Theorem C02_compiled_total_partial : forall fuel m e bound m' A,
  dwf m -> owned m e -> compile_with_bound fuel m e bound = Some (m', Some A) ->
  initial A < num_states A /\
  (forall s c, s < num_states A -> good c ->
     exists s', a_next A (a_state A s) c = Some s' /\ s' < num_states A) /\
  (forall s w, s < num_states A -> goodw w ->
     exists s', a_str_next A s w = Some s' /\ s' < num_states A).
Proof. exact compiled_total. Qed.
Print Assumptions C02_compiled_total_partial.

(* ---------------- states are derivatives ---------------- *)

(* State k is the k-th term r_k of the iterator's enumeration (state 0 = e = the initial state):
   it is final iff r_k is nullable, and on a good character c it moves to the state of the term
   char_derivative returns for (r_k, c) -- a cache hit in the final manager -- whose language is
   the left quotient c^-1 L(r_k). *)
Theorem C02_compiled_state_is_derivative_partial : forall fuel m e bound m' A,
  dwf m -> owned m e -> compile_with_bound fuel m e bound = Some (m', Some A) ->
  dwf m' /\ ext m m' /\
  exists l, iter_derivatives fuel m e = Some (m', l) /\ num_states A = length l /\
    initial A = 0 /\ nth_error l 0 = Some e /\ NoDup (map rid l) /\
    forall k r, nth_error l k = Some r ->
      owned m' r /\
      a_final (a_state A k) = rnul r /\
      forall c, good c ->
        exists d k', char_derivative m' r c = Some (m', d) /\ nth_error l k' = Some d /\
                     a_next A (a_state A k) c = Some k' /\
                     lang_eq (L d) (fun w => L r (c :: w)).
Proof. exact compiled_state_is_derivative. Qed.
Print Assumptions C02_compiled_state_is_derivative_partial.

(* after reading a good word u from the initial state the automaton is in a state whose term d is
   what str_derivative returns for (e, u); L(d) = u^-1 L(e); the state is final iff d is nullable *)
Theorem C02_compiled_run_partial : forall fuel m e bound m' A,
  dwf m -> owned m e -> compile_with_bound fuel m e bound = Some (m', Some A) ->
  forall u, goodw u ->
    exists d k, str_derivative m' e u = Some (m', d) /\ owned m' d /\
                a_str_next A (initial A) u = Some k /\ k < num_states A /\
                a_final (a_state A k) = rnul d /\
                lang_eq (L d) (fun w => L e (u ++ w)).
Proof. exact compiled_run. Qed.
Print Assumptions C02_compiled_run_partial.

(* ---------------- language equality ---------------- *)

Theorem C02_compiled_accepts_partial : forall fuel m e bound m' A,
  dwf m -> owned m e -> compile_with_bound fuel m e bound = Some (m', Some A) ->
  forall w, goodw w -> (a_accepts A w = Some true <-> L e w) /\ a_accepts A w <> None.
Proof. exact compiled_accepts. Qed.
Print Assumptions C02_compiled_accepts_partial.

Theorem C02_compiled_rejects_partial : forall fuel m e bound m' A,
  dwf m -> owned m e -> compile_with_bound fuel m e bound = Some (m', Some A) ->
  forall w, goodw w -> (a_accepts A w = Some false <-> ~ L e w).
Proof. exact compiled_rejects. Qed.
Print Assumptions C02_compiled_rejects_partial.

(* compile(e) = compile_with_bound(e, usize::MAX) *)
Theorem C02_compile_correct_partial : forall fuel m e m' A,
  dwf m -> owned m e -> compile_with_bound fuel m e None = Some (m', Some A) ->
  aut_wfb A = true /\
  (forall s c, s < num_states A -> good c -> a_next A (a_state A s) c <> None) /\
  (forall s w, s < num_states A -> goodw w -> a_str_next A s w <> None) /\
  forall w, goodw w -> (a_accepts A w = Some true <-> L e w) /\ a_accepts A w <> None.
Proof. exact compile_correct. Qed.
Print Assumptions C02_compile_correct_partial.

(* try_compile(e, n) when it returns Some: within the bound, total, accepts exactly L(e) *)
Theorem C02_try_compile_accepts_partial : forall fuel m e n m' A,
  dwf m -> owned m e -> compile_with_bound fuel m e (Some n) = Some (m', Some A) ->
  (0 < n /\ num_states A <= n) /\
  aut_wfb A = true /\
  (forall s c, s < num_states A -> good c -> a_next A (a_state A s) c <> None) /\
  (forall s w, s < num_states A -> goodw w -> a_str_next A s w <> None) /\
  forall w, goodw w -> (a_accepts A w = Some true <-> L e w) /\ a_accepts A w <> None.
Proof. exact try_compile_correct. Qed.
Print Assumptions C02_try_compile_accepts_partial.

(* program level: the automaton compiled from the term that the API calls of program p build (from
   any manager satisfying the invariant, e.g. a fresh one) accepts exactly the SMT-LIB denotation *)
Theorem C02_compiled_program_partial : forall p fuel m m1 t bound m2 A,
  dwf m -> prog_ok p = true -> run p m = Some (m1, t) ->
  compile_with_bound fuel m1 t bound = Some (m2, Some A) ->
  forall w, goodw w -> (a_accepts A w = Some true <-> denote p w) /\ a_accepts A w <> None.
Proof. exact compiled_program. Qed.
Print Assumptions C02_compiled_program_partial.

(* ---------------- returning: only termination of the enumeration is missing ---------------- *)

(* if the enumeration of the derivatives of e completes, compile(e) returns an automaton on the same
   fuel, and try_compile(e, n) returns one exactly when there are at most n derivatives *)
Theorem C02_compile_returns_of_iter : forall fuel m e m1 l,
  dwf m -> owned m e -> iter_derivatives fuel m e = Some (m1, l) ->
  (exists A, compile_with_bound fuel m e None = Some (m1, Some A)) /\
  forall n, if Nat.leb (length l) n
            then exists A, compile_with_bound fuel m e (Some n) = Some (m1, Some A)
            else exists m2, compile_with_bound fuel m e (Some n) = Some (m2, None).
Proof. exact compile_returns_of_iter. Qed.
Print Assumptions C02_compile_returns_of_iter.

(* ---------------- the hypotheses are satisfiable; observations on small terms ---------------- *)

Theorem C02_new_mgr_dwf : dwf new_mgr.
Proof. exact new_mgr_dwf. Qed.
Print Assumptions C02_new_mgr_dwf.

(* (a|b)*abb *)
Definition c02_p1 : prog :=
  PConcat (PLoop (PUnion (PStr [97%N]) (PStr [98%N])) 0%N None) (PStr [97%N; 98%N; 98%N]).
(* the complement of "ab": needs default successors *)
Definition c02_p2 : prog := PComp (PStr [97%N; 98%N]).
(* ([a-c]{2,3}) & not(.*b) *)
Definition c02_p3 : prog :=
  PInter (PLoop (PRange 97%N 99%N) 2%N (Some 3%N)) (PComp (PConcat PAll (PStr [98%N]))).

Definition c02_compile (p : prog) (bound : option nat) : option automaton :=
  do (m1, t) <- run p new_mgr;
  do (m2, oa) <- compile_with_bound 200 m1 t bound;
  oa.
Definition c02_obs (p : prog) (ws : list word) : option (nat * bool * list (option bool)) :=
  do a <- c02_compile p None; Some (num_states a, aut_wfb a, map (a_accepts a) ws).

Example C02_example_programs_ok :
  prog_ok c02_p1 = true /\ prog_ok c02_p2 = true /\ prog_ok c02_p3 = true.
Proof. vm_compute. repeat split. Qed.

Example C02_example_abb :
  c02_obs c02_p1 [[]; [97%N; 98%N; 98%N]; [98%N; 97%N; 97%N; 98%N; 98%N]; [97%N; 98%N]; [97%N; 98%N; 98%N; 97%N]; [0%N; 196607%N]]
  = Some (5, true, [Some false; Some true; Some true; Some false; Some false; Some false]).
Proof. vm_compute. reflexivity. Qed.

Example C02_example_complement :
  c02_obs c02_p2 [[]; [97%N]; [97%N; 98%N]; [97%N; 98%N; 98%N]; [196607%N]]
  = Some (4, true, [Some true; Some true; Some false; Some true; Some true]).
Proof. vm_compute. reflexivity. Qed.

Example C02_example_inter :
  c02_obs c02_p3 [[97%N; 97%N]; [97%N; 98%N]; [99%N; 98%N; 97%N]; [97%N]; [97%N; 97%N; 97%N; 97%N]; [100%N; 97%N]]
  = Some (7, true, [Some true; Some false; Some true; Some false; Some false; Some false]).
Proof. vm_compute. reflexivity. Qed.

(* try_compile: bound too small -> None; bound reached -> the same automaton as compile *)
Example C02_example_try_compile :
  c02_compile c02_p1 (Some 4) = None /\
  (exists a, c02_compile c02_p1 (Some 5) = Some a /\ c02_compile c02_p1 None = Some a).
Proof. split; [vm_compute; reflexivity|]. eexists. split; vm_compute; reflexivity. Qed.

(* the builder characterisation on the first example: the loop's builder is run_history of the
   history c2_hist, which is strict, and both builds return the compiled automaton *)
Example C02_example_builder :
  match run c02_p1 new_mgr with
  | Some (m1, t) =>
    match iter_derivatives 200 m1 t, compile_with_bound 200 m1 t None with
    | Some (m', l), Some (m2, Some a) =>
        let h := c2_hist m' t l in
        map rid l = h_names h /\ spec_strict h = true /\
        build (run_history h) = Some (BOk a) /\ build_unchecked (run_history h) = Some a /\
        h = [BNew 18; BAdd 18 (97, 97)%N 20; BAdd 18 (98, 98)%N 18; BDef 18 2;
             BAdd 20 (97, 97)%N 20; BAdd 20 (98, 98)%N 22; BDef 20 2;
             BDef 2 2;
             BAdd 22 (97, 97)%N 20; BAdd 22 (98, 98)%N 24; BDef 22 2;
             BAdd 24 (97, 97)%N 20; BAdd 24 (98, 98)%N 18; BDef 24 2; BFin 24]%N
    | _, _ => False
    end
  | None => False
  end.
Proof. vm_compute. repeat split. Qed.
