(* C11 -- CharPartition queries agree with the set-theoretic meaning of the partition.
   Statements only; every proof is [exact <lemma>] (lemmas: PartitionProofs.v).

   Vocabulary (PartitionSpec.v): a partition p = {ivs; wit}; [pwf p] = intervals valid, sorted and
   pairwise disjoint (ivs_sorted) and [wit] = least number in no interval (wit_ok).
   [covered l x] = x is in some interval of l; [in_class p x (CInt i)] = x is in interval i;
   [in_class p x CComp] = x is a good character in no interval; [set_inside p s i] = the set s is
   included in interval i; [set_disjoint p s] = s meets no interval.
   Model functions (Partition.v) return [None] where the Rust code panics, so every "exists c,
   f .. = Some c" below also says: no panic, no out-of-bounds index, fuel sufficient. *)
Require Import Base CharSet Partition PartitionSpec PartitionProofs.
From Coq Require Import Permutation.
Open Scope N_scope.

(* ---- every way of building a partition yields a well-formed one with the intended intervals *)

Theorem C11_new_wf : pwf pnew.
Proof. exact pnew_wf. Qed.
Print Assumptions C11_new_wf.

Theorem C11_from_set_wf : forall c, cs_valid c -> pwf (pfrom_set c).
Proof. exact pfrom_set_wf. Qed.
Print Assumptions C11_from_set_wf.

(* push under its documented precondition: start <= end <= MAX_CHAR and, if the partition is not
   empty, start larger than the end of the last interval *)
Theorem C11_push_wf : forall p a b, pwf p -> cs_valid (a, b) ->
  (ivs p <> [] -> snd (last (ivs p) (0, 0)) < a) -> pwf (ppush p a b).
Proof. exact ppush_wf. Qed.
Print Assumptions C11_push_wf.

Theorem C11_constructors_intervals :
  ivs pnew = [] /\ (forall c, ivs (pfrom_set c) = [c]) /\
  (forall p a b, ivs (ppush p a b) = ivs p ++ [(a, b)]).
Proof. exact c11_constructors_intervals. Qed.
Print Assumptions C11_constructors_intervals.

(* try_from_iter / try_from_list succeed exactly on pairwise disjoint inputs (None = Err) *)
Theorem C11_try_from_iter_ok_iff_disjoint : forall l, Forall cs_valid l ->
  ((exists p, ptry_from_list l = Some p) <-> pairwise_disjoint l).
Proof. exact ptry_from_list_ok_iff. Qed.
Print Assumptions C11_try_from_iter_ok_iff_disjoint.

(* ... the result is well formed, its intervals are the input sets, it covers what they cover *)
Theorem C11_try_from_iter_wf : forall l p, Forall cs_valid l -> ptry_from_list l = Some p ->
  pwf p /\ Permutation l (ivs p) /\ forall x, covered (ivs p) x <-> covered l x.
Proof. exact c11_try_from_list_wf. Qed.
Print Assumptions C11_try_from_iter_wf.

(* ... and is the same partition (or the same error) whatever the input order *)
Theorem C11_try_from_iter_perm : forall l l', Forall cs_valid l -> Permutation l l' ->
  ptry_from_list l = ptry_from_list l'.
Proof. exact ptry_from_list_perm. Qed.
Print Assumptions C11_try_from_iter_perm.

(* a well-formed partition is determined by its intervals (the witness is not extra information) *)
Theorem C11_partition_determined : forall p q, pwf p -> pwf q -> ivs p = ivs q -> p = q.
Proof. exact pwf_ivs_eq. Qed.
Print Assumptions C11_partition_determined.

(* ---- the classes partition the good characters *)

Theorem C11_class_unique : forall p x, pwf p -> good x ->
  exists c, in_class p x c /\ forall c', in_class p x c' -> c' = c.
Proof. exact c11_class_unique. Qed.
Print Assumptions C11_class_unique.

(* class_of_char: Interval(i) exactly when x is in interval i, Complement exactly when in none *)
Theorem C11_class_of_char_spec : forall p x, pwf p -> good x ->
  (exists c, pclass_of_char p x = Some c) /\
  (forall c, pclass_of_char p x = Some c <-> in_class p x c).
Proof. exact c11_class_of_char. Qed.
Print Assumptions C11_class_of_char_spec.

(* ---- interval_cover, class_of_set, good_char_set: exact three-way answer for every query set *)

Theorem C11_interval_cover_spec : forall p s, pwf p -> cs_valid s ->
  exists c, pinterval_cover p s = Some c /\
    (forall i, c = CoveredBy i <-> set_inside p s i) /\
    (c = DisjointFromAll <-> set_disjoint p s) /\
    (c = Overlaps <-> (forall i, ~ set_inside p s i) /\ ~ set_disjoint p s).
Proof. exact c11_interval_cover. Qed.
Print Assumptions C11_interval_cover_spec.

(* Some None = Err(AmbiguousCharSet) *)
Theorem C11_class_of_set_spec : forall p s, pwf p -> cs_valid s ->
  exists r, pclass_of_set p s = Some r /\
    (forall i, r = Some (CInt i) <-> set_inside p s i) /\
    (r = Some CComp <-> set_disjoint p s) /\
    (r = None <-> (forall i, ~ set_inside p s i) /\ ~ set_disjoint p s).
Proof. exact c11_class_of_set. Qed.
Print Assumptions C11_class_of_set_spec.

(* the same in terms of classes: Ok(c) exactly when every member of the set is in class c *)
Theorem C11_class_of_set_classes : forall p s c, pwf p -> cs_valid s ->
  (pclass_of_set p s = Some (Some c) <-> forall x, mem x s -> in_class p x c).
Proof. exact c11_class_of_set_classes. Qed.
Print Assumptions C11_class_of_set_classes.

Theorem C11_good_char_set_spec : forall p s, pwf p -> cs_valid s ->
  exists b, pgood_char_set p s = Some b /\
    (b = true <-> (exists i, set_inside p s i) \/ set_disjoint p s).
Proof. exact c11_good_char_set. Qed.
Print Assumptions C11_good_char_set_spec.

(* ---- complement witness, class ids, picks *)

Theorem C11_wit_least : forall p, pwf p ->
  ~ covered (ivs p) (wit p) /\ (forall x, x < wit p -> covered (ivs p) x) /\ wit p <= MAXC + 1.
Proof. exact wit_least. Qed.
Print Assumptions C11_wit_least.

Theorem C11_empty_complement_iff : forall p, pwf p ->
  (pempty_complement p = true <-> forall x, good x -> covered (ivs p) x).
Proof. exact pempty_complement_iff. Qed.
Print Assumptions C11_empty_complement_iff.

(* pick_complement: MAX_CHAR+1 if the complementary class is empty, else its least member *)
Theorem C11_pick_complement : forall p, pwf p ->
  (pempty_complement p = true -> ppick_complement p = MAXC + 1) /\
  (pempty_complement p = false ->
     in_class p (ppick_complement p) CComp /\ forall y, in_class p y CComp -> ppick_complement p <= y).
Proof. exact ppick_complement_spec. Qed.
Print Assumptions C11_pick_complement.

Theorem C11_valid_class_id_iff_nonempty : forall p c, pwf p ->
  (pvalid p c = true <-> exists x, good x /\ in_class p x c).
Proof. exact pvalid_iff. Qed.
Print Assumptions C11_valid_class_id_iff_nonempty.

(* num_classes = number of non-empty classes *)
Theorem C11_num_classes_spec : forall p, pwf p ->
  exists l, NoDup l /\ (forall c, In c l <-> exists x, good x /\ in_class p x c) /\
            length l = pnum_classes p.
Proof. exact pnum_classes_spec. Qed.
Print Assumptions C11_num_classes_spec.

(* class_ids: exactly the non-empty classes, each once, interval ids first in index order *)
Theorem C11_class_ids_spec : forall p, pwf p ->
  NoDup (pclass_ids p) /\
  (forall c, In c (pclass_ids p) <-> exists x, good x /\ in_class p x c) /\
  pclass_ids p = map CInt (seq 0 (plen p)) ++ (if pvalid p CComp then [CComp] else []).
Proof. exact c11_class_ids. Qed.
Print Assumptions C11_class_ids_spec.

(* pick_in_class: a member of the class for a valid id; panic (None) exactly for invalid ids *)
Theorem C11_pick_in_class : forall p c, pwf p ->
  (pvalid p c = true -> exists x, ppick p c = Some x /\ good x /\ in_class p x c) /\
  (pvalid p c = false -> ppick p c = None).
Proof. exact c11_pick_in_class. Qed.
Print Assumptions C11_pick_in_class.

(* picks: one pick per class id, in the order of class_ids, each in its class *)
Theorem C11_picks_in_class : forall p, pwf p ->
  map (ppick p) (pclass_ids p) = map Some (ppicks p) /\
  Forall2 (fun c x => good x /\ in_class p x c) (pclass_ids p) (ppicks p).
Proof. exact c11_picks. Qed.
Print Assumptions C11_picks_in_class.

(* get/start/end/interval/pick: the i-th interval, or the documented sentinel / panic out of range *)
Theorem C11_get_spec : forall p i,
  (forall s, nth_error (ivs p) i = Some s ->
     pget p i = s /\ pstart p i = fst s /\ pend p i = snd s /\ pinterval p i = Some s /\
     ppick_iv p i = Some (fst s)) /\
  ((plen p <= i)%nat ->
     pget p i = (MAXC + 1, MAXC + 1) /\ pstart p i = MAXC + 1 /\ pend p i = MAXC + 1 /\
     pinterval p i = None /\ ppick_iv p i = None).
Proof. exact c11_get. Qed.
Print Assumptions C11_get_spec.

(* ---- D2: the pinned code (third branch of interval_cover compares with end(i+1)) violates the
   specification on {[10,20],[30,40]} / [25,35]; the repaired code, which the model mirrors, does not *)
Example C11_D2_prefix_witness :
  pwf D2_part /\ cs_valid (25, 35) /\
  pinterval_cover_prefix D2_part (25, 35) = Some DisjointFromAll /\
  ~ set_disjoint D2_part (25, 35) /\ (forall i, ~ set_inside D2_part (25, 35) i) /\
  pinterval_cover D2_part (25, 35) = Some Overlaps.
Proof. exact D2_prefix_witness. Qed.

(* non-vacuity: well-formed partitions exist for every construction, with an empty and a non-empty
   complement, touching 0 and MAX_CHAR, with adjacent intervals; and the functions compute *)
Example C11_example :
  pwf (ppush (ppush (pfrom_set (0, 9)) 10 20) 30 MAXC) /\
  pempty_complement (ppush (pfrom_set (0, 9)) 10 MAXC) = true /\
  ptry_from_list [(30, 40); (0, 9); (10, 20)] = Some (ppush (ppush (pfrom_set (0, 9)) 10 20) 30 40) /\
  ptry_from_list [(30, 40); (0, 9); (9, 20)] = None /\
  pclass_of_char (ppush (pfrom_set (0, 9)) 10 20) 10 = Some (CInt 1) /\
  pinterval_cover (ppush (pfrom_set (0, 9)) 10 20) (5, 12) = Some Overlaps /\
  pclass_ids (ppush (pfrom_set (0, 9)) 10 20) = [CInt 0; CInt 1; CComp] /\
  ppicks (ppush (pfrom_set (0, 9)) 10 20) = [0; 10; 21].
Proof.
  split; [apply pwfb_iff; vm_compute; reflexivity|]. vm_compute. repeat split; reflexivity.
Qed.
