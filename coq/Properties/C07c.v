(* C07c -- Hash-consing as seen through the sub-term iterators (additional property file of C07).
   Statements only; every proof is [exact <lemma>] (lemmas: SubTermsProofs.v).

   Public API covered: regular_expressions::sub_terms(r), leaves(r) (ReIterator: a BfsQueue<RegLan>
   over the children of each popped term), BaseRegLan::is_atomic, RE::is_empty,
   RE::num_deriv_classes, RE::valid_class_id.

   Vocabulary.
     [child x y]        y is an immediate sub-term of x: In y (children (rnode x))   (Sem.children)
     [subterm r x]      clos_refl_trans child r x   (x is r or a sub-term of a sub-term ... of r)
     [dedup_ids l]      l without every later occurrence of an id that occurred before
     [id_determines r]  two sub-terms of r with the same id are the same term.  This is what
                        hash-consing gives: it holds for every term owned by a well-formed manager
                        (C07c_owned_id_determines), in particular for every term a construction
                        program builds (C07c_sub_terms_of_program).
     [sub_terms r]      the model of the Rust iterator, collected; it runs on the fuel
                        (number of nodes of r read as a tree) + 1; None = out of fuel. *)
Require Import Base CharSet Partition PartitionSpec LoopRange Regex Constructors Denote Sem.
Require Import ManagerProofs RunProofs SubTerms SubTermsProofs.
From Coq Require Import Relations.
Open Scope nat_scope.

(* the model pushes exactly Sem.children, in stored order (Concat: left then right; lists as stored) *)
Theorem C07c_children_order : forall k, st_children k = children k.
Proof. exact st_children_eq. Qed.
Print Assumptions C07c_children_order.

(* the fuel suffices: sub_terms and leaves always return, for every term (owned or not) *)
Theorem C07c_sub_terms_total : forall r, sub_terms r <> None /\ leaves r <> None.
Proof. exact sub_terms_total. Qed.
Print Assumptions C07c_sub_terms_total.

(* ... and any larger fuel gives the same list *)
Theorem C07c_sub_terms_fuel_enough : forall r fuel, re_size r < fuel -> sub_terms_fuel fuel r = sub_terms r.
Proof. exact sub_terms_fuel_enough. Qed.
Print Assumptions C07c_sub_terms_fuel_enough.

(* for every term: r comes first, no id is yielded twice, only sub-terms are yielded, the order is
   breadth-first with the children of each yielded term taken in stored order (the list is the
   first-occurrence list of r followed by the children of its own elements), and - when ids
   determine terms - every sub-term is yielded *)
Theorem C07c_sub_terms_spec : forall r,
  exists res, sub_terms r = Some res /\
    (exists t, res = r :: t) /\
    NoDup (map rid res) /\
    (forall x, In x res -> clos_refl_trans re child r x) /\
    res = dedup_ids (r :: flat_map (fun x => children (rnode x)) res) /\
    ((forall a b, clos_refl_trans re child r a -> clos_refl_trans re child r b -> rid a = rid b -> a = b) ->
     forall x, clos_refl_trans re child r x -> In x res).
Proof. exact sub_terms_spec. Qed.
Print Assumptions C07c_sub_terms_spec.

(* a shared sub-term is yielded once: no term twice, not even two terms with the same id *)
Theorem C07c_sub_terms_nodup : forall r res, sub_terms r = Some res -> NoDup (map rid res) /\ NoDup res.
Proof. exact sub_terms_nodup. Qed.
Print Assumptions C07c_sub_terms_nodup.

(* hash-consing: in one well-formed manager ids determine terms, and sub-terms of owned terms are owned *)
Theorem C07c_owned_id_determines : forall m r, wf m -> owned m r -> id_determines r.
Proof. exact owned_id_determines. Qed.
Print Assumptions C07c_owned_id_determines.

Theorem C07c_owned_subterm : forall m r x, wf m -> owned m r -> subterm r x -> owned m x.
Proof. exact owned_subterm. Qed.
Print Assumptions C07c_owned_subterm.

(* so for a term of a well-formed manager: exactly the sub-terms of r, each once, r first *)
Theorem C07c_sub_terms_owned : forall m r, wf m -> owned m r ->
  exists res, sub_terms r = Some res /\
    (exists t, res = r :: t) /\ NoDup (map rid res) /\ NoDup res /\
    (forall x, In x res <-> subterm r x) /\
    (forall x, In x res -> owned m x) /\
    res = dedup_ids (r :: flat_map (fun x => children (rnode x)) res).
Proof. exact sub_terms_owned. Qed.
Print Assumptions C07c_sub_terms_owned.

(* leaves = the atomic ones among sub_terms, in the same order *)
Theorem C07c_leaves_spec : forall r,
  exists res lv, sub_terms r = Some res /\ leaves r = Some lv /\ lv = filter re_is_atomic res /\
    NoDup (map rid lv) /\
    (forall x, In x lv -> subterm r x /\ re_is_atomic x = true) /\
    (id_determines r -> forall x, subterm r x -> re_is_atomic x = true -> In x lv).
Proof. exact leaves_spec. Qed.
Print Assumptions C07c_leaves_spec.

Theorem C07c_leaves_owned : forall m r, wf m -> owned m r ->
  exists lv, leaves r = Some lv /\ NoDup (map rid lv) /\
    forall x, In x lv <-> subterm r x /\ re_is_atomic x = true.
Proof. exact leaves_owned. Qed.
Print Assumptions C07c_leaves_owned.

(* an atomic term (Empty, Epsilon, Range) has no proper sub-term; the iterators yield just r *)
Theorem C07c_atomic_subterm : forall e x, re_is_atomic e = true -> subterm e x -> x = e.
Proof. exact atomic_subterm. Qed.
Print Assumptions C07c_atomic_subterm.

Theorem C07c_sub_terms_atomic : forall r, re_is_atomic r = true -> sub_terms r = Some [r] /\ leaves r = Some [r].
Proof. exact sub_terms_atomic. Qed.
Print Assumptions C07c_sub_terms_atomic.

(* the statement at the level of the API: the term built by any SMT-LIB construction program from
   any well-formed manager *)
Theorem C07c_sub_terms_of_program : forall p m m' t,
  wf m -> prog_ok p = true -> run p m = Some (m', t) ->
  exists res lv, sub_terms t = Some res /\ leaves t = Some lv /\
    (exists tl, res = t :: tl) /\ NoDup (map rid res) /\ NoDup res /\
    (forall x, In x res <-> subterm t x) /\
    (forall x, In x lv <-> subterm t x /\ re_is_atomic x = true) /\
    (forall x, In x res -> owned m' x /\ wf_term x).
Proof. exact sub_terms_of_program. Qed.
Print Assumptions C07c_sub_terms_of_program.

(* RE::is_empty is a syntactic test: sound for the language, and within one manager it is equality
   with the (unique) empty term *)
Theorem C07c_is_empty_lang : forall e, re_is_empty e = true -> forall w, ~ L e w.
Proof. exact re_is_empty_lang. Qed.
Print Assumptions C07c_is_empty_lang.

Theorem C07c_is_empty_owned : forall m e, wf m -> owned m e -> (re_is_empty e = true <-> e = m_empty m).
Proof. exact re_is_empty_owned. Qed.
Print Assumptions C07c_is_empty_owned.

(* RE::num_deriv_classes / RE::valid_class_id on a well-formed term *)
Theorem C07c_classes_spec : forall e, wf_term e ->
  pwf (rcls e) /\ re_num_deriv_classes e = length (ivs (rcls e)) /\
  (forall i, re_valid_class_id e (CInt i) = true <-> i < re_num_deriv_classes e) /\
  (re_valid_class_id e CComp = negb (pempty_complement (rcls e))) /\
  (forall cid, re_valid_class_id e cid = true <-> exists x, good x /\ in_class (rcls e) x cid).
Proof. exact re_classes_spec. Qed.
Print Assumptions C07c_classes_spec.

(* ---------------------------------------------------------------- non-vacuity *)
(* (a|b)* . ((a|b) . c) | c : the range [a-b] occurs under the star and in the concatenation, the
   character c in the concatenation and as an operand of the union; each is yielded once *)
Definition c07c_prog : prog :=
  PUnion (PConcat (PLoop (PRange 97 98) 0 None) (PConcat (PRange 97 98) (PStr [99%N]))) (PStr [99%N]).

(* the union is U16(R10, C14(L8(R6), C12(R6, R10))): 8 nodes as a tree, 6 distinct terms *)
Example C07c_example :
  prog_ok c07c_prog = true /\
  match run c07c_prog new_mgr with
  | Some (m, t) =>
      option_map (map rid) (sub_terms t) = Some [16; 10; 14; 8; 12; 6]%N /\
      option_map (map rid) (leaves t) = Some [10; 6]%N /\
      re_size t = 8 /\ re_is_empty t = false /\ re_is_empty (m_empty m) = true /\
      re_num_deriv_classes t = 2 /\ re_valid_class_id t CComp = true /\ re_valid_class_id t (CInt 2) = false
  | None => False
  end.
Proof. split; [vm_compute; reflexivity|]. vm_compute. repeat split. Qed.

(* without hash-consing (two different terms carrying one id) the iterator would drop one of them:
   the hypothesis id_determines of the completeness clause is necessary *)
Example C07c_id_determines_needed :
  let a := Node 7 false pnew (NRange (97, 97)%N) in
  let b := Node 7 false pnew (NRange (98, 98)%N) in
  let r := Node 9 false pnew (NConcat a b) in
  sub_terms r = Some [r; a] /\ subterm r b /\ ~ id_determines r.
Proof.
  cbv zeta. split; [vm_compute; reflexivity|]. split.
  - apply rt_step. unfold child. cbn. auto.
  - intros H. assert (E : Node 7 false pnew (NRange (97, 97)%N) = Node 7 false pnew (NRange (98, 98)%N)).
    { apply H; [apply rt_step; unfold child; cbn; auto|apply rt_step; unfold child; cbn; auto|reflexivity]. }
    discriminate.
Qed.
