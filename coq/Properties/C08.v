(* C08 -- String literals: parsing follows SMT-LIB escapes; printing round-trips.
   Statements only; every proof is [exact <lemma>].

   A text (&str) is the list of its code points, a printed literal the list of its ASCII codes, an
   SMT string a list of N ([goodw]: every element <= MAX_CHAR = 0x2FFFF).  [parse_smt_literal],
   [smt_display], [char_to_smt], [smt_char_as_string] are the model of the (repaired, D4 + D7) Rust
   code in Literal.v; [None] would be a panic of the Rust code.
   [LitDenote] / [EscapeSeq] (LiteralProofs.v) are the SMT-LIB 2.6 reading of a literal body:
   backslash u d3 d2 d1 d0 and backslash u { d0 } ... backslash u { d4 d3 d2 d1 d0 } (value at
   most 0x2FFFF) denote their code, every character at which no such sequence starts denotes
   itself (a Rust char beyond MAX_CHAR: 0xFFFD, C17); [lit_parse_ref] is the executable
   look-ahead reference for it. *)
Require Import Base Literal LiteralProofs.
Open Scope N_scope.

(* ---- parsing: for every text, no panic, and the result is the reference reading *)
Theorem C08_parse_is_ref : forall text, parse_smt_literal text = Some (lit_parse_ref text).
Proof. exact parse_is_ref. Qed.
Print Assumptions C08_parse_is_ref.

(* the reference reading is the one and only reading according to the escape grammar *)
Theorem C08_ref_is_grammar : forall text w, LitDenote text w <-> w = lit_parse_ref text.
Proof. exact lit_ref_denote. Qed.
Print Assumptions C08_ref_is_grammar.

(* hence: the parser decodes exactly the escape sequences and copies everything else, including
   the characters of malformed or out-of-range escape attempts *)
Theorem C08_parse_denotes : forall text w, parse_smt_literal text = Some w <-> LitDenote text w.
Proof. exact parse_denotes. Qed.
Print Assumptions C08_parse_denotes.

Theorem C08_parse_total_good : forall text, exists w, parse_smt_literal text = Some w /\ goodw w.
Proof. exact parse_total_good. Qed.
Print Assumptions C08_parse_total_good.

(* ---- printing: printable ASCII only *)
Theorem C08_display_ascii : forall s, goodw s -> Forall (fun c => 32 <= c <= 126) (smt_display s).
Proof. exact display_ascii. Qed.
Print Assumptions C08_display_ascii.

(* the printed form is a quote, one piece per character, a quote; the piece of the double-quote
   character is two double quotes and no other piece contains a double quote *)
Theorem C08_display_quote : forall s, goodw s ->
  exists pieces, smt_display s = [34] ++ concat pieces ++ [34] /\
    Forall2 (fun x l => l = fmt_char x /\ (x = 34 -> l = [34; 34]) /\ (x <> 34 -> ~ In 34 l)) s pieces.
Proof. exact display_quote. Qed.
Print Assumptions C08_display_quote.

(* reading the body of the printed form back (doubled quotes undone) yields the string *)
Theorem C08_roundtrip : forall s, goodw s ->
  parse_smt_literal (lit_undouble (lit_body (smt_display s))) = Some s.
Proof. exact roundtrip. Qed.
Print Assumptions C08_roundtrip.

(* distinct strings never print as the same literal *)
Theorem C08_display_injective : forall s1 s2, goodw s1 -> goodw s2 ->
  smt_display s1 = smt_display s2 -> s1 = s2.
Proof. exact display_injective. Qed.
Print Assumptions C08_display_injective.

(* the single-character printers: ASCII, and they read back as the character *)
Theorem C08_char_printers_ascii : forall x, x <= MAXC ->
  Forall (fun c => 32 <= c <= 126) (char_to_smt x) /\
  Forall (fun c => 32 <= c <= 126) (smt_char_as_string x).
Proof. exact char_printers_ascii. Qed.
Print Assumptions C08_char_printers_ascii.

Theorem C08_char_roundtrip : forall x, x <= MAXC ->
  parse_smt_literal (lit_undouble (char_to_smt x)) = Some [x] /\
  parse_smt_literal (lit_undouble (smt_char_as_string x)) = Some [x].
Proof. exact char_roundtrip. Qed.
Print Assumptions C08_char_roundtrip.

(* ---- non-vacuity and the escape forms, computed by the model *)
Example C08_example :
  (* \u{41} and A are A; a\u0000C *)
  parse_smt_literal [92;117;123;52;49;125] = Some [65] /\
  parse_smt_literal [92;117;48;48;52;49] = Some [65] /\
  parse_smt_literal [97;92;117;48;48;48;48;67] = Some [97;0;67] /\
  (* \u{2FFFF} is the largest code; \u{30000}, six digits, \u2CA, \U0041, \u{} are copied *)
  parse_smt_literal [92;117;123;50;70;70;70;70;125] = Some [196607] /\
  parse_smt_literal [92;117;123;51;48;48;48;48;125] = Some [92;117;123;51;48;48;48;48;125] /\
  parse_smt_literal [92;117;123;48;48;48;48;52;49;125] = Some [92;117;123;48;48;48;48;52;49;125] /\
  parse_smt_literal [92;117;50;67;65] = Some [92;117;50;67;65] /\
  parse_smt_literal [92;85;48;48;52;49] = Some [92;85;48;48;52;49] /\
  parse_smt_literal [92;117;123;125] = Some [92;117;123;125] /\
  (* a malformed attempt does not hide a following escape: \u{A *)
  parse_smt_literal [92;117;123;92;117;48;48;52;49] = Some [92;117;123;65] /\
  (* printing: A, double quote, B; the control character 0, 0x80, 0x10000 *)
  smt_display [65;34;66] = [34;65;34;34;66;34] /\
  smt_display [0;128;65536] = [34; 92;117;123;48;48;125; 92;117;48;48;56;48; 92;117;123;49;48;48;48;48;125; 34] /\
  (* the string of the six characters \u{41} prints its backslash as \u{5c} and reads back *)
  smt_display [92;117;123;52;49;125] = [34; 92;117;123;53;99;125; 117;123;52;49;125; 34] /\
  parse_smt_literal (lit_undouble (lit_body (smt_display [92;117;123;52;49;125]))) = Some [92;117;123;52;49;125] /\
  goodw [92;117;123;52;49;125] /\
  LitDenote [92;117;123;52;49;125] [65].
Proof.
  repeat (split; [vm_compute; reflexivity|]). split.
  - repeat constructor; unfold good, MAXC; lia.
  - apply C08_ref_is_grammar. vm_compute. reflexivity.
Qed.

(* ---- the pinned (pre-repair) code violated the property; witnesses kept for regressions *)

(* D4: the pinned printers copy the backslash, so the 6-character string \u{41} printed as the
   literal \u{41} (in quotes), which reads back as the string A: round trip and injectivity broken *)
Example D4_prefix_witness :
  smt_display_pinned [92;117;123;52;49;125] = [34; 92;117;123;52;49;125; 34] /\
  parse_smt_literal (lit_undouble (lit_body (smt_display_pinned [92;117;123;52;49;125]))) = Some [65] /\
  parse_smt_literal (lit_undouble (lit_body (smt_display_pinned [92;117;123;52;49;125]))) <> Some [92;117;123;52;49;125] /\
  (* two distinct strings whose pinned literals denote the same string; not so after the repair *)
  parse_smt_literal (lit_undouble (lit_body (smt_display_pinned [92;117;123;52;49;125]))) =
    parse_smt_literal (lit_undouble (lit_body (smt_display_pinned [65]))) /\
  parse_smt_literal (lit_undouble (lit_body (smt_display [92;117;123;52;49;125]))) <>
    parse_smt_literal (lit_undouble (lit_body (smt_display [65]))).
Proof.
  split; [vm_compute; reflexivity|]. split; [vm_compute; reflexivity|].
  split; [vm_compute; discriminate|]. split; [vm_compute; reflexivity | vm_compute; discriminate].
Qed.

(* D7: the pinned From<&str>, From<char> and the parser's push copy a Rust char beyond MAX_CHAR
   (U+30000, U+10FFFF): the result is not a good string; the repaired code yields 0xFFFD *)
Example D7_prefix_witness :
  goodwb (from_str_pinned [196608]) = false /\ goodwb (from_char_pinned 1114111) = false /\
  (exists q, pa_consume_pinned new_parsing_automaton 196608 = Some q /\ pa_so_far q = [196608]) /\
  from_str [196608] = [65533] /\ from_char 1114111 = [65533] /\
  parse_smt_literal [196608] = Some [65533].
Proof.
  split; [vm_compute; reflexivity|]. split; [vm_compute; reflexivity|].
  split; [eexists; split; vm_compute; reflexivity|].
  repeat split; vm_compute; reflexivity.
Qed.
