(* C05 -- Emptiness test and witness generation are exact.

   "For every expression e, is_empty_re(e) is true exactly when no string belongs to the language of
    e.  get_string(e) returns None exactly in that case and otherwise returns a well-formed SMT string
    that is a member of the language (accepted by membership test and by the compiled automaton)."

   Statements only; every proof is [exact <lemma>] (lemmas in EmptinessProofs.v).

   PROVED: exactness of both functions whenever the call returns.  The only completion hypothesis of
   a theorem about is_empty_re is that is_empty_re itself returns ([is_empty_re fuel m e = Some _]);
   of a theorem about get_string, that get_string itself returns.  Both are LAZY runs of the
   derivative worklist (they stop at the first nullable term popped), so nothing is assumed about
   the full enumeration iter_derivatives.  In the model [None] = out of fuel or a Rust panic; a
   returned value is therefore the value the Rust call returns.

   NOT PROVED (the reason for the suffix _partial on every theorem below):
     C05_is_empty_terminates : forall m e, dwf m -> owned m e ->
                                 exists fuel m' b, is_empty_re fuel m e = Some (m', b)
     C05_get_string_terminates : forall m e, dwf m -> owned m e ->
                                 exists fuel m' r, get_string fuel m e = Some (m', r)
   i.e. that the calls always return: finiteness of the derivative closure under this crate's
   normal forms (the same gap as C19_iter_terminates), together with absence of u32 overflow panics
   in the constructors called by the derivative code.
   (Since then: Properties/C19t.v proves both for every manager with an honest derivative cache --
   C19_is_empty_re_terminates, C19_get_string_terminates -- with no bound on the term: the overflow
   panics were defect D11, repaired in the crate and in the model; C03_cached_deriv_total.)
   NOT COVERED HERE: "accepted by the compiled automaton".  It is [L e s] (proved below) composed
   with compile-correctness (property C02), which has no proof file in this tree.

   Vocabulary (Sem.v, Denote.v, DerivProofs.v, ExploreProofs.v):
     L e w            the word w is in the language of the model term e
     denote p w       w is in the language SMT-LIB assigns to the construction program p
     goodw w          w is a well-formed SMT string (every character <= 0x2FFFF)
     lang_eq A B      A and B agree on all well-formed SMT strings
     owned m e        e is a term of manager m;   ext m m': m' extends m
     dwf m            the manager invariant under which derivatives are correct (C03); the fresh manager
                      satisfies it (new_mgr_dwf) and constructors / derivatives preserve it
     run p m          build the term of program p with the public constructors, from manager m
     ids_desc, inj_ids, cls_ok   the premises of the structural theorems of C19
   Premises: none besides dwf / owned.  [merge_ok] (C12) and [inclusion_sound] (C16), modulo which
   DerivProofs.v is stated, are discharged inside EmptinessProofs.v by merge_ok_holds and
   inclusion_sound_holds. *)
Require Import Base CharSet Partition PartitionSpec LoopRange Regex Inclusion Constructors Deriv Explore Denote Sem.
Require Import Lang PartitionProofs ManagerProofs ConstructorProofs RunProofs DerivProofs ExploreProofs.
Require Import EmptinessProofs.
Open Scope N_scope.

(* ---------------------------------------------------------------- is_empty_re *)

(* true exactly when no well-formed string belongs to the language; the returned manager satisfies
   the invariant and extends the given one *)
Theorem C05_is_empty_iff_partial : forall fuel m e m' b,
  dwf m -> owned m e -> is_empty_re fuel m e = Some (m', b) ->
  (dwf m' /\ ext m m') /\ (b = true <-> forall w, goodw w -> ~ L e w).
Proof. exact is_empty_iff. Qed.
Print Assumptions C05_is_empty_iff_partial.

(* the same with a constructive reading of the answer false: a member exists *)
Theorem C05_is_empty_witness_partial : forall fuel m e m' b,
  dwf m -> owned m e -> is_empty_re fuel m e = Some (m', b) ->
  (dwf m' /\ ext m m') /\
  (b = true -> forall w, goodw w -> ~ L e w) /\
  (b = false -> exists w, goodw w /\ L e w).
Proof. exact is_empty_sem. Qed.
Print Assumptions C05_is_empty_witness_partial.

(* against the SMT-LIB denotation of the way the term was built, from any manager satisfying dwf *)
Theorem C05_is_empty_denote_partial : forall fuel p m m1 t m2 b,
  dwf m -> prog_ok p = true -> run p m = Some (m1, t) -> is_empty_re fuel m1 t = Some (m2, b) ->
  (b = true <-> forall w, goodw w -> ~ denote p w).
Proof. exact is_empty_denote. Qed.
Print Assumptions C05_is_empty_denote_partial.

(* ---------------------------------------------------------------- get_string *)

(* a returned string is a well-formed SMT string and a member of the language *)
Theorem C05_get_string_member_partial : forall fuel m e m' s,
  dwf m -> owned m e -> get_string fuel m e = Some (m', Some s) ->
  (dwf m' /\ ext m m') /\ goodw s /\ L e s.
Proof. exact get_string_member. Qed.
Print Assumptions C05_get_string_member_partial.

(* None exactly when the language is empty *)
Theorem C05_get_string_none_iff_empty_partial : forall fuel m e m' res,
  dwf m -> owned m e -> get_string fuel m e = Some (m', res) ->
  (dwf m' /\ ext m m') /\ (res = None <-> forall w, goodw w -> ~ L e w).
Proof. exact get_string_none_iff_empty. Qed.
Print Assumptions C05_get_string_none_iff_empty_partial.

(* "exactly in that case": get_string answers None iff is_empty_re answers true (any two returning
   calls on the same term and manager) *)
Theorem C05_get_string_vs_is_empty_partial : forall fuel fuel' m e m1 b m2 res,
  dwf m -> owned m e -> is_empty_re fuel m e = Some (m1, b) -> get_string fuel' m e = Some (m2, res) ->
  (b = true <-> res = None).
Proof. exact get_string_vs_is_empty. Qed.
Print Assumptions C05_get_string_vs_is_empty_partial.

(* a get_string call answering None is, step for step, an is_empty_re call answering true (same
   fuel, same final manager); no hypothesis on m or e *)
Theorem C05_get_string_none_is_empty_partial : forall fuel m e m',
  get_string fuel m e = Some (m', None) -> is_empty_re fuel m e = Some (m', true).
Proof. exact get_string_none_is_empty. Qed.
Print Assumptions C05_get_string_none_is_empty_partial.

(* accepted by the membership test: a str_in_re call on the returned string (with the manager
   get_string left behind) that returns, returns true *)
Theorem C05_get_string_accepted_partial : forall fuel m e m' s m2 b,
  dwf m -> owned m e -> get_string fuel m e = Some (m', Some s) ->
  str_in_re m' s e = Some (m2, b) -> b = true.
Proof. exact get_string_accepted. Qed.
Print Assumptions C05_get_string_accepted_partial.

(* against the SMT-LIB denotation *)
Theorem C05_get_string_denote_partial : forall fuel p m m1 t m2 res,
  dwf m -> prog_ok p = true -> run p m = Some (m1, t) -> get_string fuel m1 t = Some (m2, res) ->
  match res with
  | Some s => goodw s /\ denote p s
  | None => forall w, goodw w -> ~ denote p w
  end.
Proof. exact get_string_denote. Qed.
Print Assumptions C05_get_string_denote_partial.

(* ---------------------------------------------------------------- the enumerated closure (link with C19)
   A completed run of iter_derivatives from an owned term of a dwf manager satisfies every premise
   of the *_partial theorems of C19, and its result has the expected meaning. *)

Theorem C05_iter_dwf_partial : forall fuel m e m' l,
  dwf m -> owned m e -> iter_derivatives fuel m e = Some (m', l) -> dwf m' /\ ext m m'.
Proof. exact iter_dwf. Qed.
Print Assumptions C05_iter_dwf_partial.

Theorem C05_iter_owned_partial : forall fuel m e m' l,
  dwf m -> owned m e -> iter_derivatives fuel m e = Some (m', l) -> Forall (owned m') l.
Proof. exact iter_owned. Qed.
Print Assumptions C05_iter_owned_partial.

Theorem C05_iter_premises_partial : forall fuel m e m' l,
  dwf m -> owned m e -> iter_derivatives fuel m e = Some (m', l) ->
  Forall ids_desc l /\ cls_ok l /\ inj_ids (l ++ map snd (cache m')).
Proof. exact iter_premises. Qed.
Print Assumptions C05_iter_premises_partial.

(* every yielded term is the left quotient of e by a well-formed word *)
Theorem C05_iter_sem_sound_partial : forall fuel m e m' l,
  dwf m -> owned m e -> iter_derivatives fuel m e = Some (m', l) ->
  forall r, In r l -> exists u, goodw u /\ lang_eq (L r) (fun w => L e (u ++ w)).
Proof. exact iter_sem_sound. Qed.
Print Assumptions C05_iter_sem_sound_partial.

(* the yielded set is closed under the left quotient by every character *)
Theorem C05_iter_sem_closed_partial : forall fuel m e m' l,
  dwf m -> owned m e -> iter_derivatives fuel m e = Some (m', l) ->
  forall r c, In r l -> good c -> exists d, In d l /\ lang_eq (L d) (fun w => L r (c :: w)).
Proof. exact iter_sem_closed. Qed.
Print Assumptions C05_iter_sem_closed_partial.

(* every left quotient of e by a well-formed word is the language of a yielded term, namely of the
   iterated derivative the final manager answers from its cache *)
Theorem C05_iter_sem_complete_partial : forall fuel m e m' l,
  dwf m -> owned m e -> iter_derivatives fuel m e = Some (m', l) ->
  forall u, goodw u -> exists d, str_derivative m' e u = Some (m', d) /\ In d l /\
    lang_eq (L d) (fun w => L e (u ++ w)).
Proof. exact iter_complete_quotient. Qed.
Print Assumptions C05_iter_sem_complete_partial.

(* ---------------------------------------------------------------- non-vacuity *)
Definition c05_with (p : prog) {A} (f : mgr -> re -> option A) : option A :=
  match run p new_mgr with Some (m, t) => f m t | None => None end.
Definition c05_ans {A} (x : option (mgr * A)) : option A := option_map snd x.

(* Sigma* "ab" Sigma* complemented: the strings without the factor "ab" *)
Definition c05_noab := PComp (PConcat PAll (PConcat (PStr [97; 98]) PAll)).
(* [a-c]* "c" & no "ab": not empty, shortest member "c" *)
Definition c05_p1 := PInter (PConcat (PLoop (PRange 97 99) 0 None) (PStr [99])) c05_noab.
(* "ab" & not (a Sigma* ): empty, but not syntactically (the term is not the constant at id 2) *)
Definition c05_p2 := PInter (PStr [97; 98]) (PComp (PConcat (PRange 97 97) PAll)).
(* at least three characters & [ab]*: not empty, witness "aaa" *)
Definition c05_p3 := PInter (PLoop PAllChar 3 None) (PLoop (PRange 97 98) 0 None).

(* the premises are satisfiable: terms built with the public constructors from the fresh manager *)
Example C05_example_premises :
  match run c05_p1 new_mgr, run c05_p2 new_mgr, run c05_p3 new_mgr with
  | Some (m1, t1), Some (m2, t2), Some (m3, t3) =>
      (dwf m1 /\ owned m1 t1) /\ (dwf m2 /\ owned m2 t2) /\ (dwf m3 /\ owned m3 t3)
  | _, _, _ => False
  end.
Proof.
  destruct (run c05_p1 new_mgr) as [[m1 t1]|] eqn:R1; [|vm_compute in R1; discriminate].
  destruct (run c05_p2 new_mgr) as [[m2 t2]|] eqn:R2; [|vm_compute in R2; discriminate].
  destruct (run c05_p3 new_mgr) as [[m3 t3]|] eqn:R3; [|vm_compute in R3; discriminate].
  destruct (run_dwf c05_p1 _ _ _ new_mgr_dwf eq_refl R1) as (D1 & _ & O1).
  destruct (run_dwf c05_p2 _ _ _ new_mgr_dwf eq_refl R2) as (D2 & _ & O2).
  destruct (run_dwf c05_p3 _ _ _ new_mgr_dwf eq_refl R3) as (D3 & _ & O3).
  auto 10.
Qed.

(* the calls return within 50 steps; the observations of the property *)
Example C05_example_runs :
  c05_with c05_p1 (fun m t => Some (c05_ans (is_empty_re 50 m t), c05_ans (get_string 50 m t))) =
    Some (Some false, Some (Some [99])) /\
  c05_with c05_p2 (fun m t => Some (rid t, c05_ans (is_empty_re 50 m t), c05_ans (get_string 50 m t))) =
    Some (14, Some true, Some None) /\
  c05_with c05_p3 (fun m t => Some (c05_ans (is_empty_re 50 m t), c05_ans (get_string 50 m t))) =
    Some (Some false, Some (Some [97; 97; 97])) /\
  c05_with c05_p1 (fun m t => Some (option_map (fun x => map rid (snd x)) (iter_derivatives 50 m t))) =
    Some (Some [26; 2; 30; 34]).
Proof. vm_compute. repeat split; reflexivity. Qed.

(* the theorems applied to the runs: facts about the SMT-LIB denotations obtained from the code *)
Example C05_example_applied :
  (goodw [99] /\ denote c05_p1 [99]) /\ (forall w, goodw w -> ~ denote c05_p2 w).
Proof.
  split.
  - assert (E : exists m t m2, run c05_p1 new_mgr = Some (m, t) /\ get_string 50 m t = Some (m2, Some [99])).
    { destruct (run c05_p1 new_mgr) as [[m t]|] eqn:R; [|vm_compute in R; discriminate].
      vm_compute in R. inversion R; subst m t. eexists _, _, _. split; [reflexivity|].
      vm_compute. reflexivity. }
    destruct E as (m & t & m2 & R & G).
    exact (C05_get_string_denote_partial 50 c05_p1 new_mgr m t m2 (Some [99]) new_mgr_dwf eq_refl R G).
  - assert (E : exists m t m2, run c05_p2 new_mgr = Some (m, t) /\ is_empty_re 50 m t = Some (m2, true)).
    { destruct (run c05_p2 new_mgr) as [[m t]|] eqn:R; [|vm_compute in R; discriminate].
      vm_compute in R. inversion R; subst m t. eexists _, _, _. split; [reflexivity|].
      vm_compute. reflexivity. }
    destruct E as (m & t & m2 & R & G).
    apply (C05_is_empty_denote_partial 50 c05_p2 new_mgr m t m2 true new_mgr_dwf eq_refl R G). reflexivity.
Qed.
