(* C01 -- Regex membership equals the SMT-LIB denotation of how the term was built:
   CONSTRUCTOR LAYER (the derivative / membership layer is stated in a later file).
   Statements only; every proof is [exact <lemma>].

   Vocabulary (Sem.v, Denote.v):
     L e w            the word w is in the language of the model term e (an id-tagged tree)
     denote p w       w is in the language SMT-LIB assigns to the construction program p
     lang_eq A B      A and B agree on all well-formed SMT strings (characters <= 0x2FFFF)
     owned m e        e is a term of manager m;  ext m m': m' extends m (no term is lost/changed)
     wf m             the manager invariant (ManagerProofs.v), see C01_wf_meaning below
     None             the Rust code panics
   The union constructor prunes operands with the syntactic inclusion test [included_in]
   (property C16, InclusionProofs.v); theorems that depend on its soundness carry it as the
   explicit premise [Hsub] and are named ..._modulo_inclusion. *)
Require Import Base CharSet Partition PartitionSpec LoopRange Regex Inclusion Constructors Denote Sem.
Require Import Lang ManagerProofs ConstructorProofs RunProofs.
Open Scope N_scope.

(* ---------------------------------------------------------------- the manager invariant *)

Theorem C01_new_mgr_wf : wf new_mgr.
Proof. exact new_mgr_wf. Qed.
Print Assumptions C01_new_mgr_wf.

(* what [wf] says (each field of the record, restated) *)
Theorem C01_wf_meaning : forall m, wf m ->
  counter m = N.of_nat (length (id2re m)) /\
  Nat.Even (length (id2re m)) /\
  (forall i e, nth_error (id2re m) i = Some e -> rid e = N.of_nat i) /\
  (forall k e, In (k, e) (tbl m) -> key_of (rnode e) = k /\ owned m e) /\
  (forall e, owned m e -> lookup (key_of (rnode e)) (tbl m) = Some e) /\
  (forall e c, owned m e -> In c (children (rnode e)) -> owned m c /\ rid c < rid e) /\
  (forall e, owned m e -> wf_term e) /\
  (forall i x y, Nat.Even i -> nth_error (id2re m) i = Some x -> nth_error (id2re m) (S i) = Some y ->
     (i <> 2%nat -> i <> 4%nat -> rnode y = NCompl x) /\
     forall w, goodw w -> (L y w <-> ~ L x w)) /\
  (m_sigma m = mk_node 0 (NRange (0, MAXC)) /\ m_empty m = mk_node 2 NEmpty /\
   m_full m = mk_node 3 (NLoop (m_sigma m) lr_star) /\ m_eps m = mk_node 4 NEps /\
   m_splus m = mk_node 5 (NLoop (m_sigma m) lr_plus) /\
   owned m (m_sigma m) /\ owned m (m_empty m) /\ owned m (m_full m) /\ owned m (m_eps m) /\
   owned m (m_splus m)).
Proof. exact wf_meaning. Qed.
Print Assumptions C01_wf_meaning.

(* Rust == / Hash on RE (by id) is identity of terms *)
Theorem C01_id_inj : forall m a b, owned m a -> owned m b -> rid a = rid b -> a = b.
Proof. exact id_inj. Qed.
Print Assumptions C01_id_inj.

Theorem C01_ext_refl : forall m, ext m m.
Proof. exact ext_refl. Qed.
Print Assumptions C01_ext_refl.
Theorem C01_ext_trans : forall m1 m2 m3, ext m1 m2 -> ext m2 m3 -> ext m1 m3.
Proof. exact ext_trans. Qed.
Theorem C01_ext_owned : forall m m' e, ext m m' -> owned m e -> owned m' e.
Proof. exact ext_owned. Qed.
Print Assumptions C01_ext_owned.
Print Assumptions C01_ext_trans.

(* ReManager::make on a non-Complement node whose children are terms of the manager *)
Theorem C01_make_wf : forall m k m' t,
  wf m -> not_compl k -> (forall c, In c (children k) -> owned m c) -> node_ok k ->
  make m k = Some (m', t) ->
  wf m' /\ ext m m' /\ owned m' t /\ rnode t = k.
Proof. exact make_wf. Qed.
Print Assumptions C01_make_wf.

Theorem C01_make_total : forall m k, wf m -> not_compl k -> exists m' t, make m k = Some (m', t).
Proof. exact make_total. Qed.
Print Assumptions C01_make_total.

Theorem C01_make_lang : forall m k m' t,
  wf m -> not_compl k -> (forall c, In c (children k) -> owned m c) -> node_ok k ->
  make m k = Some (m', t) -> forall w, L t w <-> L (mk_node 0 k) w.
Proof. exact make_lang. Qed.
Print Assumptions C01_make_lang.

(* every term has a decidable language (nothing classical is assumed anywhere) *)
Theorem C01_language_decidable : forall e w, L e w \/ ~ L e w.
Proof. exact L_dec. Qed.
Print Assumptions C01_language_decidable.

(* ---------------------------------------------------------------- complement *)

Theorem C01_complement : forall m e, wf m -> owned m e ->
  exists r, complement m e = Some r /\ owned m r /\ forall w, goodw w -> (L r w <-> ~ L e w).
Proof. exact complement_ok. Qed.
Print Assumptions C01_complement.

Theorem C01_complement_involutive : forall m e r,
  wf m -> owned m e -> complement m e = Some r -> complement m r = Some e.
Proof. exact complement_involutive. Qed.
Print Assumptions C01_complement_involutive.

Theorem C01_complement_no_fixpoint : forall m e r,
  wf m -> owned m e -> complement m e = Some r -> rid r <> rid e.
Proof. exact complement_no_fixpoint. Qed.
Print Assumptions C01_complement_no_fixpoint.

(* ---------------------------------------------------------------- the nullable flag *)

Theorem C01_nullable_flag : forall m e, wf m -> owned m e -> (rnul e = true <-> L e []).
Proof. exact nullable_owned. Qed.
Print Assumptions C01_nullable_flag.

(* ---------------------------------------------------------------- atoms *)

Theorem C01_char_set : forall m s m' t, wf m -> cs_valid s -> char_set m s = Some (m', t) ->
  wf m' /\ ext m m' /\ owned m' t /\ lang_eq (L t) (fun w => exists c, w = [c] /\ mem c s).
Proof. exact char_set_ok. Qed.
Print Assumptions C01_char_set.

Theorem C01_range : forall m a b m' t, wf m -> range m a b = Some (m', t) ->
  a <= b /\ b <= MAXC /\
  (wf m' /\ ext m m' /\ owned m' t /\ lang_eq (L t) (fun w => exists c, w = [c] /\ a <= c /\ c <= b)).
Proof. exact range_ok. Qed.
Print Assumptions C01_range.

(* range panics exactly when the assertion of the Rust code fails *)
Theorem C01_range_panics : forall m a b, wf m -> (range m a b = None <-> ~ (a <= b /\ b <= MAXC)).
Proof. exact range_none. Qed.
Print Assumptions C01_range_panics.

Theorem C01_char : forall m x m' t, wf m -> mchar m x = Some (m', t) ->
  good x /\ (wf m' /\ ext m m' /\ owned m' t /\ lang_eq (L t) (fun w => w = [x])).
Proof. exact mchar_ok. Qed.
Print Assumptions C01_char.

Theorem C01_smt_range : forall m s1 s2 m' t, wf m -> goodw s2 -> smt_range m s1 s2 = Some (m', t) ->
  wf m' /\ ext m m' /\ owned m' t /\ lang_eq (L t) (denote (p_smtrange s1 s2)).
Proof. exact smt_range_ok. Qed.
Print Assumptions C01_smt_range.

Theorem C01_str : forall m w m' t, wf m -> mstr m w = Some (m', t) ->
  goodw w /\ (wf m' /\ ext m m' /\ owned m' t /\ lang_eq (L t) (fun x => x = w)).
Proof. exact mstr_ok. Qed.
Print Assumptions C01_str.

Theorem C01_str_total : forall m w, wf m -> goodw w -> N.of_nat (length w) <= U32MAX ->
  exists m' t, mstr m w = Some (m', t).
Proof. exact mstr_total. Qed.
Print Assumptions C01_str_total.
(* D11 repaired: the length bound is no longer needed (concat never panics) *)
Theorem C01_str_total_any_length : forall m w, wf m -> goodw w -> exists m' t, mstr m w = Some (m', t).
Proof. exact mstr_total_any. Qed.
Print Assumptions C01_str_total_any_length.

(* ---------------------------------------------------------------- concatenation *)

(* all ten rewriting rules of ReManager::concat preserve the language *)
Theorem C01_concat : forall e1 m e2 m' t,
  wf m -> owned m e1 -> owned m e2 -> concat e1 m e2 = Some (m', t) ->
  wf m' /\ ext m m' /\ owned m' t /\ lang_eq (L t) (l_concat (L e1) (L e2)).
Proof. exact concat_ok. Qed.
Print Assumptions C01_concat.

(* D11 repaired: concat never panics.  A loop-merging rule (R.R^[i,j], R^[i,j].R, R^[a,b].R^[c,d])
   applies only when the merged bounds fit in u32; otherwise the match falls through to the later
   rules (R.R, re-association, nullable.Sigma^*, plain concatenation). *)
Theorem C01_concat_total : forall e1 m e2, wf m -> owned m e1 -> owned m e2 ->
  exists m' t, concat e1 m e2 = Some (m', t).
Proof. exact concat_total. Qed.
Print Assumptions C01_concat_total.
(* ... indeed from any manager value and on any two terms *)
Theorem C01_concat_never_panics : forall e1 m e2, concat e1 m e2 <> None.
Proof. exact concat_none. Qed.
Print Assumptions C01_concat_never_panics.

(* what the repair changed: [concat_prefix] is the pre-repair ReManager::concat (rules 5-7 with the
   panicking LoopRange::add).  It panicked only on an overflowing addition of loop bounds (this was
   C01_concat_panics), and wherever it returned the repaired concat returns the same manager and term *)
Theorem C01_concat_prefix_panics : forall e1 m e2, wf m -> owned m e1 -> owned m e2 -> concat_prefix e1 m e2 = None ->
  exists a m1 b, wf m1 /\ ext m m1 /\ owned m1 a /\ owned m1 b /\
    ((exists rng, (rule5 a b = Some rng \/ rule5 b a = Some rng) /\ lr_add_point rng 1 = None) \/
     (exists x xr yr, rule7 a b = Some (x, xr, yr) /\ lr_add xr yr = None)).
Proof. exact concat_prefix_none. Qed.
Print Assumptions C01_concat_prefix_panics.
Theorem C01_concat_prefix_agrees : forall e1 m e2 r, concat_prefix e1 m e2 = Some r -> concat e1 m e2 = Some r.
Proof. exact concat_prefix_agrees. Qed.
Print Assumptions C01_concat_prefix_agrees.

Theorem C01_concat_list : forall m l m' t,
  wf m -> (forall x, In x l -> owned m x) -> concat_list m l = Some (m', t) ->
  wf m' /\ ext m m' /\ owned m' t /\
  lang_eq (L t) (fold_right (fun e A => l_concat (L e) A) (fun w => w = []) l).
Proof. exact concat_list_ok. Qed.
Print Assumptions C01_concat_list.

(* ---------------------------------------------------------------- loops *)

(* mk_loop: R^0, R^1, empty^r (repair D1), eps^r, loop-of-loop flattening when exact *)
Theorem C01_mk_loop : forall m e range m' t,
  wf m -> owned m e -> lr_valid range -> mk_loop m e range = Some (m', t) ->
  wf m' /\ ext m m' /\ owned m' t /\
  lang_eq (L t) (fun w => exists n, in_lr n range /\ l_pow (L e) n w).
Proof. exact mk_loop_ok. Qed.
Print Assumptions C01_mk_loop.

(* D11 repaired: mk_loop never panics (loop-of-loop flattening only when neither the exactness test
   nor the product overflows; otherwise the plain loop node) *)
Theorem C01_mk_loop_total : forall m e range, wf m -> owned m e -> lr_valid range ->
  exists m' t, mk_loop m e range = Some (m', t).
Proof. exact mk_loop_total. Qed.
Print Assumptions C01_mk_loop_total.
Theorem C01_mk_loop_never_panics : forall m e range, mk_loop m e range <> None.
Proof. exact mk_loop_none. Qed.
Print Assumptions C01_mk_loop_never_panics.
Theorem C01_mk_loop_prefix_agrees : forall m e range r,
  mk_loop_prefix m e range = Some r -> mk_loop m e range = Some r.
Proof. exact mk_loop_prefix_agrees. Qed.
Print Assumptions C01_mk_loop_prefix_agrees.

Theorem C01_star : forall m e m' t, wf m -> owned m e -> star m e = Some (m', t) ->
  wf m' /\ ext m m' /\ owned m' t /\
  lang_eq (L t) (fun w => exists n, in_bounds n 0 None /\ l_pow (L e) n w).
Proof. exact star_ok. Qed.
Theorem C01_plus : forall m e m' t, wf m -> owned m e -> plus m e = Some (m', t) ->
  wf m' /\ ext m m' /\ owned m' t /\
  lang_eq (L t) (fun w => exists n, in_bounds n 1 None /\ l_pow (L e) n w).
Proof. exact plus_ok. Qed.
Theorem C01_opt : forall m e m' t, wf m -> owned m e -> opt m e = Some (m', t) ->
  wf m' /\ ext m m' /\ owned m' t /\
  lang_eq (L t) (fun w => exists n, in_bounds n 0 (Some 1) /\ l_pow (L e) n w).
Proof. exact opt_ok. Qed.
Theorem C01_exp : forall m e k m' t, wf m -> owned m e -> k <= U32MAX -> exp m e k = Some (m', t) ->
  wf m' /\ ext m m' /\ owned m' t /\
  lang_eq (L t) (fun w => exists n, in_bounds n k (Some k) /\ l_pow (L e) n w).
Proof. exact exp_ok. Qed.
Theorem C01_smt_loop : forall m e i j m' t, wf m -> owned m e -> j <= U32MAX ->
  smt_loop m e i j = Some (m', t) ->
  wf m' /\ ext m m' /\ owned m' t /\
  lang_eq (L t) (fun w => exists n, in_bounds n i (Some j) /\ l_pow (L e) n w).
Proof. exact smt_loop_ok. Qed.
Theorem C01_loop_inf : forall m e i m' t, wf m -> owned m e -> i <= U32MAX ->
  Constructors.loop_inf m e i = Some (m', t) ->
  wf m' /\ ext m m' /\ owned m' t /\
  lang_eq (L t) (fun w => exists n, in_bounds n i None /\ l_pow (L e) n w).
Proof. exact loop_inf_ok. Qed.
Print Assumptions C01_star.
Print Assumptions C01_plus.
Print Assumptions C01_opt.
Print Assumptions C01_exp.
Print Assumptions C01_smt_loop.
Print Assumptions C01_loop_inf.

(* ---------------------------------------------------------------- set operations *)

(* sort / dedup / absorbing element / neutral element / complementary pairs 2k, 2k+1 *)
Theorem C01_simplify_union : forall m v, wf m -> (forall x, In x v -> owned m x) ->
  (forall x, In x (simplify_set_operation v (m_empty m) (m_full m)) -> owned m x) /\
  lang_eq (fun w => exists x, In x (simplify_set_operation v (m_empty m) (m_full m)) /\ L x w)
          (fun w => exists x, In x v /\ L x w).
Proof. exact simplify_union. Qed.
Print Assumptions C01_simplify_union.

Theorem C01_simplify_inter : forall m v, wf m -> (forall x, In x v -> owned m x) ->
  (forall x, In x (simplify_set_operation v (m_full m) (m_empty m)) -> owned m x) /\
  lang_eq (fun w => forall x, In x (simplify_set_operation v (m_full m) (m_empty m)) -> L x w)
          (fun w => forall x, In x v -> L x w).
Proof. exact simplify_inter. Qed.
Print Assumptions C01_simplify_inter.

Theorem C01_make_inter : forall m v m' t,
  wf m -> (forall x, In x v -> owned m x) -> make_inter m v = Some (m', t) ->
  wf m' /\ ext m m' /\ owned m' t /\ lang_eq (L t) (fun w => forall x, In x v -> L x w).
Proof. exact make_inter_ok. Qed.
Print Assumptions C01_make_inter.

Theorem C01_make_union_wf : forall m v m' t,
  wf m -> (forall x, In x v -> owned m x) -> make_union m v = Some (m', t) ->
  wf m' /\ ext m m' /\ owned m' t.
Proof. exact make_union_wf. Qed.
Print Assumptions C01_make_union_wf.

Theorem C01_make_union_modulo_inclusion : forall m v m' t,
  wf m ->
  forall (Hsub : forall r s, owned m r -> owned m s -> included_in r s = true -> lang_incl (L r) (L s)),
  (forall x, In x v -> owned m x) -> make_union m v = Some (m', t) ->
  wf m' /\ ext m m' /\ owned m' t /\ lang_eq (L t) (fun w => exists x, In x v /\ L x w).
Proof. exact make_union_ok. Qed.
Print Assumptions C01_make_union_modulo_inclusion.

Theorem C01_inter : forall m a b m' t,
  wf m -> owned m a -> owned m b -> inter m a b = Some (m', t) ->
  wf m' /\ ext m m' /\ owned m' t /\ lang_eq (L t) (fun w => L a w /\ L b w).
Proof. exact inter_ok. Qed.
Print Assumptions C01_inter.

Theorem C01_union_wf : forall m a b m' t,
  wf m -> owned m a -> owned m b -> union m a b = Some (m', t) -> wf m' /\ ext m m' /\ owned m' t.
Proof. exact union_wf. Qed.
Print Assumptions C01_union_wf.

Theorem C01_union_modulo_inclusion : forall m a b m' t,
  wf m ->
  forall (Hsub : forall r s, owned m r -> owned m s -> included_in r s = true -> lang_incl (L r) (L s)),
  owned m a -> owned m b -> union m a b = Some (m', t) ->
  wf m' /\ ext m m' /\ owned m' t /\ lang_eq (L t) (fun w => L a w \/ L b w).
Proof. exact union_ok. Qed.
Print Assumptions C01_union_modulo_inclusion.

Theorem C01_diff : forall m a b m' t,
  wf m -> owned m a -> owned m b -> diff m a b = Some (m', t) ->
  wf m' /\ ext m m' /\ owned m' t /\ lang_eq (L t) (fun w => L a w /\ ~ L b w).
Proof. exact diff_ok. Qed.
Print Assumptions C01_diff.

Theorem C01_inter_list : forall m l m' t,
  wf m -> (forall x, In x l -> owned m x) -> inter_list m l = Some (m', t) ->
  wf m' /\ ext m m' /\ owned m' t /\ lang_eq (L t) (fun w => forall x, In x l -> L x w).
Proof. exact inter_list_ok. Qed.
Print Assumptions C01_inter_list.

Theorem C01_union_list_modulo_inclusion : forall m l m' t,
  wf m ->
  forall (Hsub : forall r s, owned m r -> owned m s -> included_in r s = true -> lang_incl (L r) (L s)),
  (forall x, In x l -> owned m x) -> union_list m l = Some (m', t) ->
  wf m' /\ ext m m' /\ owned m' t /\ lang_eq (L t) (fun w => exists x, In x l /\ L x w).
Proof. exact union_list_ok. Qed.
Print Assumptions C01_union_list_modulo_inclusion.

Theorem C01_diff_list : forall m e1 l m' t,
  wf m -> owned m e1 -> (forall x, In x l -> owned m x) -> diff_list m e1 l = Some (m', t) ->
  wf m' /\ ext m m' /\ owned m' t /\
  lang_eq (L t) (fun w => L e1 w /\ forall x, In x l -> ~ L x w).
Proof. exact diff_list_ok. Qed.
Print Assumptions C01_diff_list.

(* ---------------------------------------------------------------- construction programs *)

(* Main theorem of the constructor layer.  From ANY well-formed manager (any history of earlier
   constructions): the term built for program p denotes exactly the SMT-LIB language of p. *)
Theorem C01_run_correct_modulo_inclusion :
  forall (Hsub : forall m, wf m -> forall r s, owned m r -> owned m s -> included_in r s = true ->
                   lang_incl (L r) (L s)),
  forall p m m' t, wf m -> prog_ok p = true -> run p m = Some (m', t) ->
  wf m' /\ ext m m' /\ owned m' t /\ lang_eq (L t) (denote p).
Proof. exact run_correct. Qed.
Print Assumptions C01_run_correct_modulo_inclusion.

(* the public nullable flag is true exactly when the empty string is in the SMT-LIB language *)
Theorem C01_nullable_modulo_inclusion :
  forall (Hsub : forall m, wf m -> forall r s, owned m r -> owned m s -> included_in r s = true ->
                   lang_incl (L r) (L s)),
  forall p m m' t, wf m -> prog_ok p = true -> run p m = Some (m', t) ->
  (rnul t = true <-> denote p []).
Proof. exact nullable_run. Qed.
Print Assumptions C01_nullable_modulo_inclusion.

(* the invariant is preserved whatever included_in answers *)
Theorem C01_run_wf : forall p m m' t, wf m -> prog_ok p = true -> run p m = Some (m', t) ->
  wf m' /\ ext m m' /\ owned m' t.
Proof. exact run_wf. Qed.
Print Assumptions C01_run_wf.

(* D11 repaired: an accepted program never panics (the only panics left are the documented asserts
   of char / range / str on invalid characters, excluded by prog_ok) *)
Theorem C01_run_total : forall p m, wf m -> prog_ok p = true -> exists m' t, run p m = Some (m', t).
Proof. exact run_total. Qed.
Print Assumptions C01_run_total.
Theorem C01_run_never_panics : forall p m, wf m -> prog_ok p = true -> run p m <> None.
Proof. exact run_none. Qed.
Print Assumptions C01_run_never_panics.

(* ---------------------------------------------------------------- examples: hypotheses are satisfiable *)

Definition ex_view (p : prog) :=
  option_map (fun x => (rid (snd x), rnul (snd x), counter (fst x))) (run p new_mgr).

(* "ab" . [a-c]*  : accepted program, runs on the fresh manager, result has id 18, not nullable *)
Example C01_ex_run :
  let p := PConcat (PStr [97; 98]) (PLoop (PRange 97 99) 0 None) in
  prog_ok p = true /\ ex_view p = Some (18, false, 20).
Proof. vm_compute. split; reflexivity. Qed.
(* a | Sigma : the operand a is pruned by the inclusion test, the result is Sigma (id 0) *)
Example C01_ex_union_prunes : ex_view (PUnion (PRange 97 97) PAllChar) = Some (0, false, 8).
Proof. vm_compute. reflexivity. Qed.
(* (a^[2,3])^[2,2] is flattened to a^[4,6] *)
Example C01_ex_loop_of_loop :
  option_map (fun x => rnode (snd x)) (run (PLoop (PLoop (PRange 97 97) 2 (Some 3)) 2 (Some 2)) new_mgr)
  = Some (NLoop (mk_node 6 (NRange (97, 97))) (LR 4 (Some 6))).
Proof. vm_compute. reflexivity. Qed.
(* D1 repaired: empty^[0,5] is epsilon (id 4, nullable) *)
Example C01_ex_loop_empty : ex_view (PLoop PNone 0 (Some 5)) = Some (4, true, 6).
Proof. vm_compute. reflexivity. Qed.
(* diff (comp a) (comp a): a complementary pair gives the empty language (id 2) *)
Example C01_ex_diff_pair :
  ex_view (PDiff (PComp (PRange 97 97)) (PComp (PRange 97 97))) = Some (2, false, 8).
Proof. vm_compute. reflexivity. Qed.
(* D11 repaired: accepted programs on which the pre-repair code panicked (u32 overflow of the product
   in mk_loop, of the sum in concat) now return the unmerged node:
   (Sigma^[4294967295,inf))^[2,2] is a loop of a loop, Sigma^[4294967295,inf) . Sigma^+ and
   a . a^4294967295 are plain concatenations *)
Definition ex_shape (p : prog) :=
  option_map (fun x => match rnode (snd x) with
                       | NLoop a r => (1, rid a, Some r, 0)
                       | NConcat a b => (2, rid a, None, rid b)
                       | _ => (0, 0, None, 0)
                       end) (run p new_mgr).
Example C01_ex_overflow_mul :
  let p := PLoop (PLoop PAllChar 4294967295 None) 2 (Some 2) in
  prog_ok p = true /\ ex_shape p = Some (1, 6, Some (LR 2 (Some 2)), 0).
Proof. vm_compute. split; reflexivity. Qed.
Example C01_ex_overflow_add :
  let p := PConcat (PLoop PAllChar 4294967295 None) (PLoop PAllChar 1 None) in
  prog_ok p = true /\ ex_shape p = Some (2, 6, None, 5).
Proof. vm_compute. split; reflexivity. Qed.
Example C01_ex_overflow_succ :
  let p := PConcat (PRange 97 97) (PLoop (PRange 97 97) 4294967295 (Some 4294967295)) in
  prog_ok p = true /\ ex_shape p = Some (2, 6, None, 8).
Proof. vm_compute. split; reflexivity. Qed.
(* the pre-repair constructors panic on these (None) *)
Example C01_ex_prefix_panics :
  let s := mk_node 0 (NRange (0, MAXC)) in
  let big := mk_node 6 (NLoop s (LR 4294967295 None)) in
  mk_loop_prefix new_mgr big (LR 2 (Some 2)) = None /\
  concat_prefix big new_mgr (m_splus new_mgr) = None /\
  (exists r, mk_loop new_mgr big (LR 2 (Some 2)) = Some r) /\
  (exists r, concat big new_mgr (m_splus new_mgr) = Some r).
Proof. vm_compute. repeat split; eexists; reflexivity. Qed.
(* complement on the fresh manager: comp(empty) is Sigma-star and back *)
Example C01_ex_complement :
  complement new_mgr (m_empty new_mgr) = Some (m_full new_mgr) /\
  complement new_mgr (m_full new_mgr) = Some (m_empty new_mgr).
Proof. vm_compute. split; reflexivity. Qed.

(* ---------------------------------------------------------------- premises discharged
   InclusionProofs (C16) proves the soundness of included_in and DerivProofs (C03) the derivative
   layer; with them the theorems above hold without the explicit premise, and the membership
   clause of C01 is a theorem. *)
Require Import Deriv DerivProofs LinkProofs.

Theorem C01_make_union : forall m v m' t, wf m -> (forall x, In x v -> owned m x) ->
  make_union m v = Some (m', t) ->
  wf m' /\ ext m m' /\ owned m' t /\ lang_eq (L t) (fun w => exists x, In x v /\ L x w).
Proof. exact make_union_closed. Qed.
Print Assumptions C01_make_union.

Theorem C01_union : forall m a b m' t, wf m -> owned m a -> owned m b -> union m a b = Some (m', t) ->
  wf m' /\ ext m m' /\ owned m' t /\ lang_eq (L t) (fun w => L a w \/ L b w).
Proof. exact union_closed. Qed.
Print Assumptions C01_union.

Theorem C01_union_list : forall m l m' t, wf m -> (forall x, In x l -> owned m x) ->
  union_list m l = Some (m', t) ->
  wf m' /\ ext m m' /\ owned m' t /\ lang_eq (L t) (fun w => exists x, In x l /\ L x w).
Proof. exact union_list_closed. Qed.
Print Assumptions C01_union_list.

(* Main theorem: from ANY well-formed manager, the term built for program p denotes exactly the
   SMT-LIB language of p (on well-formed SMT strings). *)
Theorem C01_run_correct : forall p m m' t, wf m -> prog_ok p = true -> run p m = Some (m', t) ->
  wf m' /\ ext m m' /\ owned m' t /\ lang_eq (L t) (denote p).
Proof. exact run_correct_closed. Qed.
Print Assumptions C01_run_correct.

Theorem C01_nullable : forall p m m' t, wf m -> prog_ok p = true -> run p m = Some (m', t) ->
  (rnul t = true <-> denote p []).
Proof. exact nullable_run_closed. Qed.
Print Assumptions C01_nullable.

(* the membership test returns true exactly when w belongs to the SMT-LIB language of the construction *)
Theorem C01_membership : forall p m m1 t w m2 b, dwf m -> prog_ok p = true -> run p m = Some (m1, t) ->
  goodw w -> str_in_re m1 w t = Some (m2, b) -> (b = true <-> denote p w).
Proof. exact membership_closed. Qed.
Print Assumptions C01_membership.

(* D11 repaired: the membership test never panics on a good string *)
Theorem C01_membership_total : forall m w e, dwf m -> owned m e -> goodw w ->
  exists m' b, str_in_re m w e = Some (m', b).
Proof. exact str_in_re_total. Qed.
Print Assumptions C01_membership_total.

Theorem C01_fresh_manager : dwf new_mgr.
Proof. exact new_mgr_dwf. Qed.
Print Assumptions C01_fresh_manager.
