(* C07b -- Hash-consing, executable histories WITHOUT the derivative-layer premise of C07.
   Statements only; every proof is [exact <lemma>] (lemmas: ReplayProofs2.v, DerivProofs.v).

   C07_same_term_any_exec_history_partial (C07.v) assumes [history_ok h m1]: for every derivative /
   iter_derivatives / is_empty_re / get_string / compile statement of the history, the manager after
   the step is well-formed and extends the manager before it.  That is now a theorem
   (DerivProofs.v, EmptinessProofs.v, CompileProofs.v, assembled in ReplayProofs2.v), so the full
   statement announced in C07.v is proved here.

   Reading guide (see also C07.v).
     [dwf m]            the manager invariant of the derivative layer: [wf m] (C01) and no stored loop
                        term has the range [0,0] (C07b_dwf_meaning).  The fresh manager satisfies it
                        and every API call keeps it.
     [stmt]             one call on the manager: SBuild p (a construction), SCharDeriv e c,
                        SClassDeriv e cid, SIter fuel e (iter_derivatives run to exhaustion),
                        SIsEmpty fuel e, SGetString fuel e, SCompile fuel e bound.
     [exec_history h m] runs the calls of h one after the other from state m; None = some call
                        panicked / ran out of fuel.
     [stmt_pre s m]     the only side condition on a call issued in state m:
                          SBuild p          prog_ok p = true   (the API accepts the SMT-LIB term)
                          any other call    owned m e          (its argument is a term of THIS manager)
                        Nothing is required of characters (c may exceed MAX_CHAR), class ids (may be
                        invalid), fuel or state bounds: a call that returns leaves a dwf manager that
                        extends the previous one, whatever it returns (Ok, Err(BadClassId), None).
     [history_pre h m]  every statement of h satisfies stmt_pre in the state in which it is issued.
                        Sufficient: all term arguments are owned when the history starts
                        ([Forall (fun s => stmt_pre s m) h], C07b_history_pre_static), because
                        ownership is stable under extension. *)
Require Import Base CharSet Partition PartitionSpec LoopRange Regex Inclusion Constructors Deriv
  Explore Automaton Compile Denote Sem.
Require Import Lang ManagerProofs ConstructorProofs RunProofs ReplayProofs ReplayProofs2.
Require DerivProofs.
Open Scope N_scope.

(* ---------------------------------------------------------------- the invariant *)

Theorem C07b_dwf_meaning : forall m, dwf m <->
  wf m /\ forall e a r, owned m e -> rnode e = NLoop a r -> lr_is_zero r = false.
Proof. exact DerivProofs.dwf_meaning. Qed.
Print Assumptions C07b_dwf_meaning.

Theorem C07b_new_mgr_dwf : dwf new_mgr.
Proof. exact DerivProofs.new_mgr_dwf. Qed.
Print Assumptions C07b_new_mgr_dwf.

(* ---------------------------------------------------------------- single calls *)

(* char_derivative: no condition on the character *)
Theorem C07b_char_derivative_extends : forall m e c m' d,
  dwf m -> owned m e -> char_derivative m e c = Some (m', d) -> dwf m' /\ ext m m'.
Proof. exact char_derivative_dwf. Qed.
Print Assumptions C07b_char_derivative_extends.

(* class_derivative: no condition on the class id (Err(BadClassId) leaves the manager unchanged) *)
Theorem C07b_class_derivative_extends : forall m e cid m' res,
  dwf m -> owned m e -> class_derivative m e cid = Some (m', res) -> dwf m' /\ ext m m'.
Proof. exact class_derivative_dwf. Qed.
Print Assumptions C07b_class_derivative_extends.

(* compile / try_compile: also when the state bound is exceeded (result None) *)
Theorem C07b_compile_extends : forall fuel m e bound m' r,
  dwf m -> owned m e -> compile_with_bound fuel m e bound = Some (m', r) -> dwf m' /\ ext m m'.
Proof. exact compile_with_bound_dwf. Qed.
Print Assumptions C07b_compile_extends.

(* any statement *)
Theorem C07b_statement_extends : forall s m m1,
  dwf m -> stmt_pre s m -> exec_stmt s m = Some m1 -> dwf m1 /\ ext m m1.
Proof. exact exec_stmt_dwf. Qed.
Print Assumptions C07b_statement_extends.

(* ---------------------------------------------------------------- histories *)

(* the premise of C07_same_term_any_exec_history_partial holds automatically *)
Theorem C07b_history_premise_holds : forall h m, dwf m -> history_pre h m -> history_ok h m.
Proof. exact history_pre_ok. Qed.
Print Assumptions C07b_history_premise_holds.

Theorem C07b_history_pre_static : forall h m,
  dwf m -> Forall (fun s => stmt_pre s m) h -> history_pre h m.
Proof. exact history_pre_static. Qed.
Print Assumptions C07b_history_pre_static.

(* an executable history keeps the invariant, only extends the manager, and is a [history] *)
Theorem C07b_exec_history_extends : forall h m m',
  dwf m -> history_pre h m -> exec_history h m = Some m' -> dwf m' /\ ext m m' /\ history m m'.
Proof. exact exec_history_dwf. Qed.
Print Assumptions C07b_exec_history_extends.

(* Main theorem (the full statement of C07.v).  The construction p, issued in state m, returned t
   and left the manager in state m1.  Then ANY sequence h of constructions, derivatives,
   enumerations, emptiness tests, witness searches and compilations follows, each acting on a term
   the manager owns at that time.  If that sequence runs to the end (state m'), re-issuing p
   returns the very same term t and changes nothing. *)
Theorem C07_same_term_any_exec_history : forall p m m1 t h m',
  dwf m -> prog_ok p = true -> run p m = Some (m1, t) ->
  history_pre h m1 -> exec_history h m1 = Some m' ->
  run p m' = Some (m', t).
Proof. exact same_term_any_exec_history_full. Qed.
Print Assumptions C07_same_term_any_exec_history.

(* with the invariant of the final state, so that the theorem can be applied again from m' *)
Theorem C07_same_term_any_exec_history_inv : forall p m m1 t h m',
  dwf m -> prog_ok p = true -> run p m = Some (m1, t) ->
  history_pre h m1 -> exec_history h m1 = Some m' ->
  run p m' = Some (m', t) /\ dwf m' /\ ext m1 m' /\ owned m' t.
Proof. exact same_term_any_exec_history_full_inv. Qed.
Print Assumptions C07_same_term_any_exec_history_inv.

(* side condition checked once, on the state in which the history starts *)
Theorem C07_same_term_any_exec_history_static : forall p m m1 t h m',
  dwf m -> prog_ok p = true -> run p m = Some (m1, t) ->
  Forall (fun s => stmt_pre s m1) h -> exec_history h m1 = Some m' ->
  run p m' = Some (m', t).
Proof. exact same_term_any_exec_history_static. Qed.
Print Assumptions C07_same_term_any_exec_history_static.

(* ---------------------------------------------------------------- the thread-local manager *)

(* thread_local!(static MANAGER = RefCell::new(ReManager::new())): h0 is everything the thread did
   before the construction, h everything it did afterwards *)
Theorem C07_thread_local_exec_history : forall h0 m p m1 t h m',
  history_pre h0 new_mgr -> exec_history h0 new_mgr = Some m ->
  prog_ok p = true -> run p m = Some (m1, t) ->
  history_pre h m1 -> exec_history h m1 = Some m' ->
  run p m' = Some (m', t).
Proof. exact thread_local_exec_history. Qed.
Print Assumptions C07_thread_local_exec_history.

Theorem C07_thread_local_first_use_exec_history : forall p m1 t h m',
  prog_ok p = true -> run p new_mgr = Some (m1, t) ->
  history_pre h m1 -> exec_history h m1 = Some m' ->
  run p m' = Some (m', t).
Proof. exact thread_local_first_use_exec_history. Qed.
Print Assumptions C07_thread_local_first_use_exec_history.

(* every state the thread-local manager reaches satisfies the invariant *)
Theorem C07b_thread_local_state_dwf : forall h m,
  history_pre h new_mgr -> exec_history h new_mgr = Some m ->
  dwf m /\ ext new_mgr m /\ history new_mgr m.
Proof. exact thread_local_exec_history_dwf. Qed.
Print Assumptions C07b_thread_local_state_dwf.

(* ---------------------------------------------------------------- examples *)

(* (ab)(c|[x-z])*   and three unrelated constructions (as in C07.v) *)
Definition exb_p : prog := PConcat (PStr [97; 98]) (PLoop (PUnion (PStr [99]) (PRange 120 122)) 0 None).
Definition exb_q1 : prog := PInter (PLoop PAllChar 2 (Some 5)) (PComp (PStr [104; 105])).
Definition exb_q2 : prog := PUnion (PRange 48 57) (PConcat (PRange 120 122) PAll).
Definition exb_q3 : prog := PDiff (PLoop (PStr [99]) 1 None) (PStr [99; 99]).

(* the history issued after the construction of t: a second construction (whose result is u),
   derivatives of both terms -- among them one by a character above MAX_CHAR and two by class ids
   that do not exist --, a construction, the full enumeration of the derivatives of t, the emptiness
   test and the witness search for u, a construction, the compilation of t, and a compilation of u
   that gives up at its state bound *)
Definition exb_history (t u : re) : list stmt :=
  [SBuild exb_q1; SCharDeriv t 97; SCharDeriv u 121; SCharDeriv t 2000000;
   SClassDeriv t (CInt 0); SClassDeriv t (CInt 7); SClassDeriv u CComp;
   SBuild exb_q2; SIter 50 t; SIsEmpty 50 u; SGetString 50 u; SBuild exb_q3;
   SCompile 50 t None; SCompile 50 u (Some 2%nat)].

Example exb_progs_ok : forallb prog_ok [exb_p; exb_q1; exb_q2; exb_q3] = true.
Proof. vm_compute. reflexivity. Qed.

(* the history runs to the end, allocates terms and fills the cache; the re-issued construction
   returns the term with the same id and allocates nothing (ids only: the theorem gives the tree) *)
Example exb_reissue_after_mixed_history :
  match run exb_p new_mgr with
  | Some (m1, t) =>
    match run exb_q1 m1 with
    | Some (_, u) =>
      match exec_history (exb_history t u) m1 with
      | Some m' =>
        match run exb_p m' with
        | Some (m'', t') =>
            re_eqb t t' && (rid t' =? 22) && (counter m'' =? counter m') && (counter m1 <? counter m') &&
            Nat.ltb (length (cache m1)) (length (cache m'))
        | None => false
        end
      | None => false
      end
    | None => false
    end
  | None => false
  end = true.
Proof. vm_compute. reflexivity. Qed.

(* the hypotheses of C07_thread_local_first_use_exec_history are satisfied by this history: every
   statement acts on a term owned at that time (u is owned only after the first statement) *)
Example exb_history_pre :
  match run exb_p new_mgr with
  | Some (m1, t) =>
    match run exb_q1 m1 with
    | Some (_, u) => history_pre (exb_history t u) m1
    | None => False
    end
  | None => False
  end.
Proof. vm_compute. repeat split. Qed.
