(* C04h -- the faithful model of Automaton::minimize (Hopcroft) is correct: additional property file
   for C04.  Statements only; every proof is [exact <lemma>] (lemmas in HopPart.v, HopAbs.v, HopSplit.v,
   HopLoop.v, HopcroftProofs.v).

   Properties/C04.v proves what the four per-run checks on an output B of minimize mean
   (C04_minimize_correct_partial) and left open whether the faithful model Minimizer.minimize always
   passes them.  This file closes that gap: for every well-formed automaton A the model returns an
   automaton (the fuel 4*n*alpha+16 of its refine loop suffices, compile_successors succeeds) and
   that automaton is well formed, accepts the language of A, has no two equivalent states and has
   exactly one state per residual language of A (C04h_minimize_correct, C04h_minimize_meaning).

   Structure of the proof (each layer has its theorem below):
   A  NerodeProofs.v   specification: residual languages, quotient_lang, stable_coarse_is_nerode.
   B  HopAbs.v         Hopcroft's algorithm on abstract states (block-id function, active (block, char)
                       splitters): step relation hstep (pick / skip / split with the crate's rule
                       "active splitters go to both halves, an inactive one activates one half"),
                       pairwise work-list invariant hinv; every run that ends with an empty work list
                       has computed the coarsest stable partition respecting finality
                       (C04h_abstract_hopcroft_correct).
   C  HopPart.v        BasePartition / Partition arrays: segment is a permutation of 0..n-1, block
                       headers are disjoint non-empty ranges covering it, block_id is consistent;
                       refine_block's swap loop splits exactly by the predicate
                       (C04h_bp_refine_spec, C04h_fp_refine_spec).
      HopSplit.v       SplitterList / SplitterSet and upate_splitters_after_refinement: the invariant
                       sinv (pred_classes(c) groups the states by the block of delta(x,c); the list of
                       block b holds exactly one (c, class) per character with a predecessor, and that
                       class is the set of c-predecessors of b) is re-established after a split, and
                       activity changes as the abstract step allows (C04h_update_splitters_spec).
      HopLoop.v        Minimizer::new, pick_splitter, refine_with_splitter (with the
                       self-refinement-last rule) and the refine loop keep the invariants; the measure
                       #active + alpha * (n + 1 - #blocks) drops with every pick, so the fuel suffices;
                       at exit the partition is stable (C04h_refine_correct).
      HopSim.v         the concrete run is a run of the abstract step relation (pick_splitter = HS_pick,
                       refine_block_with_splitter = HS_skip / HS_split): C04h_refine_is_abstract_run.
      HopcroftProofs.v from_partition + remap_nodes build the quotient automaton
                       (C04h_quotient_of_partition_correct); minimize.

      HopStrict.v      the strict reading of the same code: every vector access checked (nth_error),
                       every usize subtraction checked, slices need start <= end <= len, FastSet
                       operations need x < max, every debug_assert! is a check, None = panic.  On
                       well-formed automata it computes exactly what Minimizer.minimize computes
                       (C04h_minimize_strict): none of the model's [nth _ _ default] / [upd] defaults is
                       ever reached, no assertion fires, the fuel suffices.  With the pinned
                       SplitterSet::take_list (self.list[b]) the strict reading fails on the witness of
                       defect D10 (C04h_example_d10). *)
Require Import Base CharSet Partition PartitionSpec Automaton BuilderSpec Minimizer NerodeProofs.
Require Import HopPart HopAbs HopSplit HopLoop HopSim HopcroftProofs HopStrict.
From Coq Require Import Relations.
Open Scope nat_scope.

(* ---- the property: the four checks of C04_minimize_correct_partial always succeed on the output of
   the faithful model *)
Theorem C04h_minimize_correct : forall A, aut_wf A ->
  exists B, minimize A = Some B /\ aut_wf B /\ dfa_equiv A B = Some true /\ collapsed B = Some true /\
            nerode_index A = Some (num_states B).
Proof. exact minimize_correct. Qed.
Print Assumptions C04h_minimize_correct.

(* ---- the same in terms of languages: minimize returns (never None: no fuel exhaustion, no failure of
   the table compilation) a well-formed automaton B that accepts exactly the good words A accepts, has
   no two states with the same residual language, has one state per residual language of the states
   of A, has the minimum number of states among all complete DFAs of the language as soon as all
   states of A (or of B) are reachable, and whose initial state, finality flags and final-state count
   are consistent *)
Theorem C04h_minimize_meaning : forall A, aut_wf A ->
  exists B, minimize A = Some B /\ aut_wf B /\
    same_language A B /\ no_equiv_states B /\
    (exists reps, length reps = num_states B /\ residual_reps A reps) /\
    (all_reachable A -> forall C, aut_wf C -> same_language A C -> num_states B <= num_states C) /\
    (all_reachable B -> forall C, aut_wf C -> same_language A C -> num_states B <= num_states C) /\
    initial B < num_states B /\
    num_final B = length (filter (fun s => a_is_final B s) (seq 0 (num_states B))) /\
    a_is_final A (initial A) = a_is_final B (initial B).
Proof. exact minimize_full. Qed.
Print Assumptions C04h_minimize_meaning.

(* ---- layer C, arrays: BasePartition::refine_block.  On a well-formed partition of 0..n-1 and a valid
   block i the result is well formed and either all elements of block i satisfy pr (result (i, 0)),
   or none does (result (0, i)) -- in both cases every block keeps its elements --, or block i keeps
   exactly its elements satisfying pr, the new block (id = old number of blocks) gets the others, and
   all other blocks are untouched (result (i, new)) *)
Theorem C04h_bp_refine_spec : forall n p i pr, bp_wf n p -> 1 <= i < nblk p ->
  bp_wf n (fst (bp_refine p i pr)) /\
  refine_res p i pr (fst (bp_refine p i pr)) (snd (bp_refine p i pr)).
Proof. exact bp_refine_spec. Qed.
Print Assumptions C04h_bp_refine_spec.

(* Partition::refine_block / refine_block_with_fun: additionally block_id is updated consistently *)
Theorem C04h_fp_refine_spec : forall n p i pr, fp_wf n p -> 1 <= i < nblk (fp_base p) ->
  fp_wf n (fst (fp_refine p i pr)) /\ fp_res n p i pr (fst (fp_refine p i pr)) (snd (fp_refine p i pr)).
Proof. exact fp_refine_spec. Qed.
Print Assumptions C04h_fp_refine_spec.

(* a well-formed partition of n elements has at most n blocks (+ the empty block 0), and with exactly
   n blocks every block is a singleton: the early exit of the refine loop *)
Theorem C04h_blocks_bounded : forall n p, bp_wf n p -> nblk p <= S n.
Proof. exact nblk_le. Qed.
Print Assumptions C04h_blocks_bounded.

Theorem C04h_discrete_blocks : forall n p x y i, bp_wf n p -> S n <= nblk p ->
  in_blk p i x -> in_blk p i y -> x = y.
Proof. exact discrete_blocks. Qed.
Print Assumptions C04h_discrete_blocks.

(* ---- layer C, splitters: upate_splitters_after_refinement.  When block i of the main partition has
   just been split into i and the fresh block j = k (bid: ids before, fp_block_id (mn_main m): ids
   after) and the splitter structure was consistent with the old ids, then afterwards it is consistent
   with the new ids, the lists of other blocks are unchanged, every splitter of i that was active is
   active on whichever half still has predecessors, of an inactive one at least one half is active
   when both have predecessors, and the number of active splitters grows by at most the length of the
   old list of i *)
Theorem C04h_update_splitters_spec : forall n alpha delta (m : mini) bid i j k,
  closed_delta n alpha delta -> 1 <= i < k -> j = k ->
  bid_split n bid (fp_block_id (mn_main m)) i j ->
  sinv n alpha delta bid k (mn_pred m) (mn_split m) ->
  let m' := update_splitters delta m i j in
  mn_main m' = mn_main m /\ mn_active_block m' = mn_active_block m /\
  sinv n alpha delta (fp_block_id (mn_main m)) (S k) (mn_pred m') (mn_split m') /\
  (forall D, D <> i -> D <> j -> spl (mn_split m') D = spl (mn_split m) D) /\
  (forall c x, acts (mn_split m) i c -> x < n -> c < alpha -> bid (delta x c) = i ->
               acts (mn_split m') (fp_block_id (mn_main m) (delta x c)) c) /\
  (forall c x y, x < n -> y < n -> c < alpha ->
                 fp_block_id (mn_main m) (delta x c) = i -> fp_block_id (mn_main m) (delta y c) = j ->
                 acts (mn_split m') i c \/ acts (mn_split m') j c) /\
  nact (mn_split m') <= nact (mn_split m) + length (sl_list (spl (mn_split m) i)).
Proof. exact update_splitters_spec. Qed.
Print Assumptions C04h_update_splitters_spec.

(* ---- layer B: the abstract algorithm.  The three lemmas about the pairwise work-list invariant ... *)
Theorem C04h_hinv_pick : forall n alpha delta bid (act act' : nat -> nat -> Prop) todo a0 C0 a C,
  hinv n alpha delta bid act [] a0 C0 ->
  (forall D c, act D c -> act' D c \/ (D = C /\ c = a)) ->
  (forall x y, x < n -> y < n -> bid x = bid y -> bid (delta x a) = C -> bid (delta y a) <> C -> In (bid x) todo) ->
  hinv n alpha delta bid act' todo a C.
Proof. exact hinv_pick. Qed.
Print Assumptions C04h_hinv_pick.

Theorem C04h_hinv_split : forall n alpha delta bid (act : nat -> nat -> Prop) todo a C k B pr bid'
                                 (act' : nat -> nat -> Prop) todo',
  closed_delta n alpha delta ->
  (forall x, x < n -> bid x <> k) ->
  hinv n alpha delta bid act todo a C ->
  asplit n alpha delta bid act k B pr bid' act' ->
  (forall x y, x < n -> y < n -> bid x = B -> bid y = B -> pr x = pr y -> ~ splits_by delta bid a C x y) ->
  (forall b, In b todo -> b <> B -> In b todo') ->
  (todo' = [] \/ (B <> C /\ C <> k)) ->
  hinv n alpha delta bid' act' todo' a C.
Proof. exact hinv_split. Qed.
Print Assumptions C04h_hinv_split.

Theorem C04h_hinv_stable : forall n alpha delta bid (act : nat -> nat -> Prop) a C,
  hinv n alpha delta bid act [] a C -> (forall D c, ~ act D c) -> stable n alpha delta bid.
Proof. exact hinv_stable. Qed.
Print Assumptions C04h_hinv_stable.

(* ... and the algorithm as a step relation: from any configuration satisfying the invariant (for
   instance the classical initial one, C04h_abstract_init) every run that reaches a configuration with
   no pending block and no active splitter has computed a stable partition that respects finality
   and does not separate E-related states; if E contains every stable finality-respecting partition
   (true of equality of residual languages: C04h_quotient_of_partition_correct) the blocks are exactly
   the classes of E *)
Theorem C04h_abstract_hopcroft_correct : forall n alpha delta isf E c0 c,
  env n alpha delta isf E -> cinv n alpha delta isf E c0 ->
  clos_refl_trans conf (hstep n alpha delta) c0 c ->
  c_todo c = [] -> (forall D a, ~ c_act c D a) ->
  stable n alpha delta (c_bid c) /\ respects n isf (c_bid c) /\ coarse n E (c_bid c) /\
  ((forall bid', stable n alpha delta bid' -> respects n isf bid' ->
                 forall x y, x < n -> y < n -> bid' x = bid' y -> E x y) ->
   forall x y, x < n -> y < n -> (c_bid c x = c_bid c y <-> E x y)).
Proof. exact abstract_hopcroft_correct. Qed.
Print Assumptions C04h_abstract_hopcroft_correct.

Theorem C04h_abstract_init : forall n alpha delta isf E (act : nat -> nat -> Prop),
  env n alpha delta isf E ->
  (forall c x y, x < n -> y < n -> c < alpha -> isf (delta x c) = true -> isf (delta y c) = false ->
                 act 1 c \/ act 2 c) ->
  cinv n alpha delta isf E
       {| c_bid := fun x => if isf x then 1 else 2; c_k := 3; c_act := act; c_todo := []; c_a := 0; c_C := 0 |}.
Proof. exact init_cinv. Qed.
Print Assumptions C04h_abstract_init.

(* ---- layer C, the loop: for any transition function delta on n >= 1 states and alpha characters that
   stays inside 0..n-1, and any relation E that implies equal finality and is preserved by delta,
   Minimizer::new followed by refine terminates within the fuel of the model and returns a state
   whose main partition is well formed, respects finality, is stable and does not separate E-related
   states *)
Theorem C04h_refine_correct : forall n alpha delta isf E, env_ok n alpha delta isf E ->
  exists m, refine delta (4 * n * alpha + 16) n (mini_new delta isf n alpha) = Some m /\
    fp_wf n (mn_main m) /\ respects n isf (bidm m) /\ stable n alpha delta (bidm m) /\ coarse n E (bidm m).
Proof. exact refine_correct. Qed.
Print Assumptions C04h_refine_correct.

(* the concrete computation is a run of the abstract algorithm: with conf_of m todo a C = (block ids of
   the main partition, number of block ids, activity of the splitter lists, todo, a, C), Minimizer::new
   yields a configuration satisfying the abstract invariant, every pick_splitter is an HS_pick step and
   every refine_block_with_splitter an HS_skip or HS_split step; the loop stops either with no active
   splitter or with n blocks *)
Theorem C04h_refine_is_abstract_run : forall n alpha delta isf E, env_ok n alpha delta isf E ->
  exists m a C,
    refine delta (4 * n * alpha + 16) n (mini_new delta isf n alpha) = Some m /\
    cinv n alpha delta isf E (conf_of (mini_new delta isf n alpha) [] 0 0) /\
    clos_refl_trans conf (hstep n alpha delta) (conf_of (mini_new delta isf n alpha) [] 0 0) (conf_of m [] a C) /\
    (km m - 1 < n -> forall D c, ~ actm m D c).
Proof. exact refine_is_abstract_run. Qed.
Print Assumptions C04h_refine_is_abstract_run.

(* one step of the loop body, refine_block_with_splitter on the head of the todo list *)
Theorem C04h_refine_block_step : forall n alpha delta isf E m a C b todo,
  env_ok n alpha delta isf E -> minv n alpha delta E m -> respects n isf (bidm m) -> a < alpha ->
  1 <= C < km m -> todo_ok n delta m a C (b :: todo) ->
  hinv n alpha delta (bidm m) (actm m) (b :: todo) a C ->
  let m1 := refine_block_with_splitter delta m a C b in
  minv n alpha delta E m1 /\ respects n isf (bidm m1) /\ 1 <= C < km m1 /\ todo_ok n delta m1 a C todo /\
  hinv n alpha delta (bidm m1) (actm m1) todo a C /\ meas n alpha m1 <= meas n alpha m.
Proof. exact rbws_step. Qed.
Print Assumptions C04h_refine_block_step.

(* ---- StateMapping::from_partition + remap_nodes (minimize_correct_if_stable): of any well-formed
   partition of the states that respects finality and is stable over the picked alphabet they build
   a well-formed automaton of the same language; if the partition never separates two states with
   the same residual language, the result has no two equivalent states and as many states as A has
   residual languages *)
Theorem C04h_quotient_of_partition_correct : forall A T p, aut_wf A -> compile_successors A = Some T ->
  fp_wf (num_states A) p ->
  respects (num_states A) (isf_of A) (fp_block_id p) ->
  stable (num_states A) (length (pick_alphabet A)) (ct_eval T) (fp_block_id p) ->
  aut_wf (quotient_of A p) /\ same_language A (quotient_of A p) /\
  (coarse (num_states A) (Eq_lang A) (fp_block_id p) ->
     no_equiv_states (quotient_of A p) /\ nerode_index A = Some (num_states (quotient_of A p))).
Proof. exact quotient_of_partition_correct. Qed.
Print Assumptions C04h_quotient_of_partition_correct.

(* minimize is this construction applied to the partition computed by refine *)
Theorem C04h_minimize_unfold : forall A T, compile_successors A = Some T ->
  minimize A =
  match refine (ct_eval T) (4 * num_states A * ct_alpha T + 16) (num_states A)
               (mini_new (ct_eval T) (isf_of A) (num_states A) (ct_alpha T)) with
  | None => None
  | Some m =>
    if Nat.ltb (bp_num_blocks (fp_base (mn_main m)) - 1) (num_states A)
    then Some (quotient_of A (mn_main m)) else Some A
  end.
Proof. exact minimize_unfold. Qed.
Print Assumptions C04h_minimize_unfold.

(* the compact table used as delta: total on aut_wf, one column per picked character, every cell the
   successor state *)
Theorem C04h_compile_facts : forall a, aut_wf a ->
  exists T, compile_successors a = Some T /\ ct_alpha T = length (pick_alphabet a) /\
    1 <= length (pick_alphabet a) /\
    forall s i, s < num_states a -> i < length (pick_alphabet a) ->
      a_step a s (nth i (pick_alphabet a) 0%N) = Some (ct_eval T s i) /\ ct_eval T s i < num_states a.
Proof. exact compile_facts. Qed.
Print Assumptions C04h_compile_facts.

(* ---- no panic: the strict reading of partitions.rs / fast_sets.rs / minimizer.rs / minimize (every
   index, subtraction, slice, FastSet range and debug assertion checked; [false] = take_list after the
   repair of D10) agrees with the model on every well-formed automaton, hence always returns a correct
   automaton *)
Theorem C04h_minimize_strict : forall A, aut_wf A -> minimize_s false A = minimize A.
Proof. exact minimize_strict. Qed.
Print Assumptions C04h_minimize_strict.

Theorem C04h_minimize_strict_total : forall A, aut_wf A ->
  exists B, minimize_s false A = Some B /\ aut_wf B /\ dfa_equiv A B = Some true /\ collapsed B = Some true /\
            nerode_index A = Some (num_states B).
Proof. exact minimize_strict_total. Qed.
Print Assumptions C04h_minimize_strict_total.

(* the same for Minimizer::new + refine over any closed transition function given with checked access *)
Theorem C04h_refine_strict : forall n alpha delta isf E delta_s isf_s,
  env_ok n alpha delta isf E ->
  (forall x c, x < n -> c < alpha -> delta_s x c = Some (delta x c)) ->
  (forall x, x < n -> isf_s x = Some (isf x)) -> 1 <= alpha ->
  (do m0 <- mini_new_s false delta_s isf_s n alpha; refine_s false delta_s (4 * n * alpha + 16) n m0) =
  refine delta (4 * n * alpha + 16) n (mini_new delta isf n alpha).
Proof. exact refine_strict. Qed.
Print Assumptions C04h_refine_strict.

(* ---- non-vacuity: the hypothesis aut_wf is satisfiable (the 6-state automaton of C04_example), and on
   it the theorem's witness is the 4-state automaton the model computes.  The witness of defect D10
   (5 states with pairwise different residual languages; a block without incoming transitions must
   be split) is returned unchanged by the repaired code, while the strict reading of the pinned
   take_list (self.list[b]) fails on it -- the checks of the strict model are not vacuous *)
Example C04h_example :
  match build_unchecked ex_builder with
  | Some A => aut_wfb A = true /\ num_states A = 6 /\
              match minimize A with
              | Some B => aut_wfb B = true /\ num_states B = 4 /\ dfa_equiv A B = Some true /\
                          collapsed B = Some true /\ nerode_index A = Some 4
              | None => False
              end
  | None => False
  end.
Proof. vm_compute. repeat split; reflexivity. Qed.

Definition d10_builder : builder :=
  let b := b_new 0 in
  let b := b_set_default b 0 2 in
  let b := b_set_default b 1 3 in
  let b := b_set_default b 2 2 in
  let b := b_set_default b 3 4 in
  let b := b_set_default b 4 4 in
  let b := b_mark_final b 2 in
  b_mark_final b 3.
Example C04h_example_d10 :
  match build_unchecked d10_builder with
  | Some A => aut_wfb A = true /\ num_states A = 5 /\
              minimize_s true A = None /\ minimize_s false A = minimize A /\
              match minimize A with
              | Some B => aut_wfb B = true /\ num_states B = 5 /\ dfa_equiv A B = Some true /\
                          collapsed B = Some true /\ nerode_index A = Some (num_states B)
              | None => False
              end
  | None => False
  end.
Proof. vm_compute. repeat split; reflexivity. Qed.

(* other checks of the strict reading that do fire outside the invariants: refine_block on a block id
   that does not exist, pick_splitter on an empty splitter set (l[active_block]) *)
Example C04h_strict_checks :
  bp_refine_s (bp_new 3) 2 (fun _ => Some true) = None /\
  pick_splitter_s {| mn_main := fp_new 1; mn_pred := []; mn_split := []; mn_active_block := 0 |} = None /\
  fs_insert_s 2 [] 2 = None /\ sub_s 0 1 = None.
Proof. vm_compute. repeat split; reflexivity. Qed.
