(* C03 -- Derivatives are left quotients; every derivative class is uniform.
   Also: the membership clause of C01 (str_in_re decides the SMT-LIB denotation).
   Statements only; every proof is [exact <lemma>] (lemmas in DerivProofs.v).

   Vocabulary (Sem.v, Denote.v, PartitionSpec.v, ManagerProofs.v, DerivProofs.v):
     L e w              the word w is in the language of the model term e
     denote p w         w is in the language SMT-LIB assigns to the construction program p
     lang_eq A B        A and B agree on all well-formed SMT strings (characters <= 0x2FFFF)
     owned m e          e is a term of manager m;  ext m m': m' extends m
     rcls e             the derivative classes of e (RE::deriv_class, a CharPartition)
     in_class p c cid   character c belongs to class cid of partition p (CInt i: the i-th interval,
                        CComp: the complementary class);  same_class p c c': same class
     pvalid p cid       cid is a valid class id of p (CharPartition::valid_class_id)
     wf m               the manager invariant of C01 (ManagerProofs.v); its cache component says that
                        every cache entry is a quotient (C03_cache_invariant below)
     nzm m              no term of m is a Loop with range [0,0]  (C03_dwf_meaning)
     dwf m              wf m /\ nzm m : the invariant under which derivatives are correct.
                        [wf] alone is not enough (C03_wf_alone_insufficient); the fresh manager
                        satisfies dwf and every constructor / derivative call preserves it.
     None               the Rust code panics

   Premises: none.  The derivative code calls the union constructor, which prunes operands with the
   syntactic inclusion test [included_in], and the class of a term is built with merge_partitions.
   The lemmas of DerivProofs.v are stated modulo the two premises [inclusion_sound] (property C16)
   and [merge_ok] (property C12: merge_wf, merge_refines); both are proved (InclusionProofs.v,
   MergeProofs.v) and instantiated there ([inclusion_sound_holds], [merge_ok_holds]), so the theorems
   below carry neither premise. *)
Require Import Base CharSet Partition PartitionSpec LoopRange Regex Inclusion Constructors Deriv Denote Sem.
Require Import Lang OracleProofs PartitionProofs ManagerProofs ConstructorProofs RunProofs DerivProofs.
Open Scope N_scope.

(* ---------------------------------------------------------------- the invariant *)

Theorem C03_dwf_meaning : forall m, dwf m <->
  wf m /\ forall e a r, owned m e -> rnode e = NLoop a r -> lr_is_zero r = false.
Proof. exact dwf_meaning. Qed.
Print Assumptions C03_dwf_meaning.

Theorem C03_new_mgr_dwf : dwf new_mgr.
Proof. exact new_mgr_dwf. Qed.
Print Assumptions C03_new_mgr_dwf.

(* every accepted construction program keeps the invariant, from any manager *)
Theorem C03_run_dwf : forall p m m' t,
  dwf m -> prog_ok p = true -> run p m = Some (m', t) -> dwf m' /\ ext m m' /\ owned m' t.
Proof. exact run_dwf. Qed.
Print Assumptions C03_run_dwf.

(* so does every single constructor *)
Theorem C03_constructors_keep_nz : forall m, wf m -> nzm m ->
  (forall s m' t, char_set m s = Some (m', t) -> nzm m') /\
  (forall a b m' t, range m a b = Some (m', t) -> nzm m') /\
  (forall w m' t, mstr m w = Some (m', t) -> nzm m') /\
  (forall e1 e2 m' t, owned m e1 -> owned m e2 -> concat e1 m e2 = Some (m', t) -> nzm m') /\
  (forall e rg m' t, owned m e -> lr_valid rg -> mk_loop m e rg = Some (m', t) -> nzm m') /\
  (forall l m' t, inter_list m l = Some (m', t) -> nzm m') /\
  (forall l m' t, union_list m l = Some (m', t) -> nzm m') /\
  (forall a b m' t, inter m a b = Some (m', t) -> nzm m') /\
  (forall a b m' t, union m a b = Some (m', t) -> nzm m') /\
  (forall a b m' t, diff m a b = Some (m', t) -> nzm m').
Proof. exact constructors_keep_nz. Qed.
Print Assumptions C03_constructors_keep_nz.

(* the derivative-cache component of wf: an entry for (id of e, cid) is the quotient of L e by EVERY
   good character of class cid, and cid is a valid class id of e *)
Theorem C03_cache_invariant : forall m i cid d, wf m -> In ((i, cid), d) (cache m) ->
  exists e, owned m e /\ rid e = i /\ pvalid (rcls e) cid = true /\ owned m d /\
    forall c, good c -> in_class (rcls e) c cid -> lang_eq (L d) (fun w => L e (c :: w)).
Proof. exact cache_invariant. Qed.
Print Assumptions C03_cache_invariant.

(* wf alone does not make derivatives correct: a wf manager can own Sigma^[0,0]; the model (like
   compute_derivative) then returns epsilon as the derivative by 'a', although 'a' is not in {""} *)
Theorem C03_wf_alone_insufficient :
  wf zero_loop_mgr /\ owned zero_loop_mgr zero_loop /\ pvalid (rcls zero_loop) (CInt 0) = true /\
  in_class (rcls zero_loop) 97 (CInt 0) /\
  exists m' d, cached_deriv zero_loop zero_loop_mgr (CInt 0) = Some (m', d) /\
               L d [] /\ ~ L zero_loop [97].
Proof. exact wf_alone_insufficient. Qed.
Print Assumptions C03_wf_alone_insufficient.

(* ---------------------------------------------------------------- the two discharged premises *)

(* C16 instantiated at the terms of a well-formed manager (this is RunProofs.inclusion_sound, the
   premise of the ..._modulo_inclusion theorems of C01) *)
Theorem C03_inclusion_premise : forall m, wf m -> forall r s, owned m r -> owned m s ->
  included_in r s = true -> lang_incl (L r) (L s).
Proof. exact inclusion_sound_holds. Qed.
Print Assumptions C03_inclusion_premise.

(* C12: the merge of two well-formed partitions is well formed and refines both *)
Theorem C03_merge_premise : forall p1 p2, pwf p1 -> pwf p2 ->
  pwf (pmerge p1 p2) /\
  forall x y, good x -> good y -> same_class (pmerge p1 p2) x y -> same_class p1 x y /\ same_class p2 x y.
Proof. exact merge_ok_holds. Qed.
Print Assumptions C03_merge_premise.

(* ---------------------------------------------------------------- derivative classes *)

(* the derivative classes of a term form a well-formed partition *)
Theorem C03_class_partition_wf : forall m e, wf m -> owned m e -> pwf (rcls e).
Proof. exact (cls_wf_owned merge_ok_holds). Qed.
Print Assumptions C03_class_partition_wf.

(* uniformity: two characters of the same class have the same left quotient *)
Theorem C03_deriv_class_uniform : forall e, wf_term e ->
  forall c c', good c -> good c' -> same_class (rcls e) c c' ->
  forall w, goodw w -> (L e (c :: w) <-> L e (c' :: w)).
Proof. exact (deriv_class_uniform merge_ok_holds). Qed.
Print Assumptions C03_deriv_class_uniform.

(* the class ids listed for e cover the alphabet: every good character is in exactly one class,
   and that class is listed *)
Theorem C03_class_ids_cover : forall m e c, wf m -> owned m e -> good c ->
  exists cid, In cid (pclass_ids (rcls e)) /\ in_class (rcls e) c cid /\
              forall cid', in_class (rcls e) c cid' -> cid' = cid.
Proof. exact (class_ids_cover merge_ok_holds). Qed.
Print Assumptions C03_class_ids_cover.

Theorem C03_class_ids_nodup : forall e, NoDup (pclass_ids (rcls e)).
Proof. exact class_ids_nodup. Qed.
Print Assumptions C03_class_ids_nodup.

(* listed = valid = non-empty *)
Theorem C03_class_ids_valid : forall m e cid, wf m -> owned m e ->
  (In cid (pclass_ids (rcls e)) <-> pvalid (rcls e) cid = true) /\
  (pvalid (rcls e) cid = true <-> exists c, good c /\ in_class (rcls e) c cid).
Proof. exact (class_ids_valid merge_ok_holds). Qed.
Print Assumptions C03_class_ids_valid.

(* class_of_char never fails on a term of the manager *)
Theorem C03_class_of_char_total : forall m e c, wf m -> owned m e -> coc e c <> None.
Proof. exact (coc_total merge_ok_holds). Qed.
Print Assumptions C03_class_of_char_total.

(* ---------------------------------------------------------------- derivatives are quotients *)

(* cached_deriv (= compute_derivative + cache): for a valid class id the result is the left quotient
   of L e by every character of the class, not only by the representative it was computed with *)
Theorem C03_cached_deriv :
  forall e m cid m' d,
  wf m -> nzm m -> owned m e -> pvalid (rcls e) cid = true -> cached_deriv e m cid = Some (m', d) ->
  (wf m' /\ nzm m') /\ ext m m' /\ owned m' d /\
  forall c, good c -> in_class (rcls e) c cid -> lang_eq (L d) (fun w => L e (c :: w)).
Proof. exact (cached_deriv_correct merge_ok_holds inclusion_sound_holds). Qed.
Print Assumptions C03_cached_deriv.

Theorem C03_char_derivative_quotient :
  forall m e c m' d,
  dwf m -> owned m e -> good c -> char_derivative m e c = Some (m', d) ->
  dwf m' /\ ext m m' /\ owned m' d /\ lang_eq (L d) (fun w => L e (c :: w)).
Proof. exact (char_derivative_quotient merge_ok_holds inclusion_sound_holds). Qed.
Print Assumptions C03_char_derivative_quotient.

Theorem C03_str_derivative_quotient :
  forall u m e m' d,
  dwf m -> owned m e -> goodw u -> str_derivative m e u = Some (m', d) ->
  dwf m' /\ ext m m' /\ owned m' d /\ lang_eq (L d) (fun w => L e (u ++ w)).
Proof. exact (str_derivative_quotient merge_ok_holds inclusion_sound_holds). Qed.
Print Assumptions C03_str_derivative_quotient.

(* ---------------------------------------------------------------- no derivative panics (D11 repaired)

   Before the repair of D11 a derivative could panic inside ReManager::concat (u32 overflow when two
   loops were merged); the repaired concat / mk_loop are total (C01_concat_total, C01_mk_loop_total),
   hence every derivative call with valid arguments returns, for every term, from every manager
   satisfying the invariant *)
Theorem C03_cached_deriv_total : forall e m cid,
  dwf m -> owned m e -> pvalid (rcls e) cid = true -> exists m' d, cached_deriv e m cid = Some (m', d).
Proof. exact cached_deriv_total. Qed.
Print Assumptions C03_cached_deriv_total.

Theorem C03_char_derivative_total : forall m e c,
  dwf m -> owned m e -> good c -> exists m' d, char_derivative m e c = Some (m', d).
Proof. exact char_derivative_total. Qed.
Print Assumptions C03_char_derivative_total.

Theorem C03_str_derivative_total : forall w m e,
  dwf m -> owned m e -> goodw w -> exists m' d, str_derivative m e w = Some (m', d).
Proof. exact str_derivative_total. Qed.
Print Assumptions C03_str_derivative_total.

Theorem C03_str_in_re_total : forall m w e,
  dwf m -> owned m e -> goodw w -> exists m' b, str_in_re m w e = Some (m', b).
Proof. exact str_in_re_total. Qed.
Print Assumptions C03_str_in_re_total.

Theorem C03_class_derivative_total : forall m e cid,
  dwf m -> owned m e -> exists m' res, class_derivative m e cid = Some (m', res).
Proof. exact class_derivative_total. Qed.
Print Assumptions C03_class_derivative_total.

(* ---------------------------------------------------------------- membership (C01) *)

Theorem C03_str_in_re :
  forall m w e m' b,
  dwf m -> owned m e -> goodw w -> str_in_re m w e = Some (m', b) ->
  dwf m' /\ ext m m' /\ (b = true <-> L e w).
Proof. exact (str_in_re_correct merge_ok_holds inclusion_sound_holds). Qed.
Print Assumptions C03_str_in_re.

(* C01, membership clause: from ANY manager satisfying the invariant (any history), the membership
   test on the term built for program p answers true exactly when w is in the SMT-LIB language of p *)
Theorem C03_membership_denotation :
  forall p m m1 t w m2 b,
  dwf m -> prog_ok p = true -> run p m = Some (m1, t) -> goodw w ->
  str_in_re m1 w t = Some (m2, b) -> (b = true <-> denote p w).
Proof. exact (membership_denotation merge_ok_holds inclusion_sound_holds). Qed.
Print Assumptions C03_membership_denotation.

(* ---------------------------------------------------------------- class_derivative *)

(* an invalid class id is rejected with BadClassId and the manager is untouched (no premise at all) *)
Theorem C03_class_derivative_bad_id : forall m e cid,
  pvalid (rcls e) cid = false -> class_derivative m e cid = Some (m, DErr BadClassId).
Proof. exact class_derivative_bad_id. Qed.
Print Assumptions C03_class_derivative_bad_id.

(* a valid class id yields Ok of the common quotient of the class *)
Theorem C03_class_derivative :
  forall m e cid, dwf m -> owned m e ->
  (pvalid (rcls e) cid = false -> class_derivative m e cid = Some (m, DErr BadClassId)) /\
  (pvalid (rcls e) cid = true -> forall m' res, class_derivative m e cid = Some (m', res) ->
     exists d, res = DOk d /\ dwf m' /\ ext m m' /\ owned m' d /\
       forall c, good c -> in_class (rcls e) c cid -> lang_eq (L d) (fun w => L e (c :: w))).
Proof. exact (class_derivative_spec merge_ok_holds inclusion_sound_holds). Qed.
Print Assumptions C03_class_derivative.

(* the unchecked variant panics on an invalid class id (pick_in_class fails; a wf cache holds no
   entry with an invalid key) *)
Theorem C03_class_derivative_unchecked_invalid : forall m e cid, wf m -> owned m e ->
  pvalid (rcls e) cid = false -> class_derivative_unchecked m e cid = None.
Proof. exact class_derivative_unchecked_invalid. Qed.
Print Assumptions C03_class_derivative_unchecked_invalid.

(* ---------------------------------------------------------------- set_derivative *)

(* S inside one class (an interval class or the complementary class): Ok of the quotient common to
   every character of S.  S inside no class: Err(AmbiguousCharSet), manager untouched. *)
Theorem C03_set_derivative :
  forall m e s, dwf m -> owned m e -> cs_valid s ->
  (forall cid, (forall x, mem x s -> in_class (rcls e) x cid) ->
     forall m' res, set_derivative m e s = Some (m', res) ->
     exists d, res = DOk d /\ dwf m' /\ ext m m' /\ owned m' d /\
       forall c, mem c s -> lang_eq (L d) (fun w => L e (c :: w))) /\
  ((forall cid, ~ forall x, mem x s -> in_class (rcls e) x cid) ->
     set_derivative m e s = Some (m, DErr AmbiguousCharSet)).
Proof. exact (set_derivative_spec merge_ok_holds inclusion_sound_holds). Qed.
Print Assumptions C03_set_derivative.

(* the error cases need only wf: S inside no class ... *)
Theorem C03_set_derivative_ambiguous : forall m e s, wf m -> owned m e -> cs_valid s ->
  (forall cid, ~ forall x, mem x s -> in_class (rcls e) x cid) ->
  set_derivative m e s = Some (m, DErr AmbiguousCharSet) /\ set_derivative_unchecked m e s = None.
Proof. exact (set_derivative_ambiguous merge_ok_holds). Qed.
Print Assumptions C03_set_derivative_ambiguous.

(* ... in particular S meeting two different classes *)
Theorem C03_set_derivative_two_classes : forall m e s x y,
  wf m -> owned m e -> cs_valid s -> mem x s -> mem y s -> ~ same_class (rcls e) x y ->
  set_derivative m e s = Some (m, DErr AmbiguousCharSet) /\ set_derivative_unchecked m e s = None.
Proof. exact (set_derivative_two_classes merge_ok_holds). Qed.
Print Assumptions C03_set_derivative_two_classes.

(* an error is returned exactly when no class contains S; it is always AmbiguousCharSet *)
Theorem C03_set_derivative_error_iff : forall m e s m' res,
  wf m -> owned m e -> cs_valid s -> set_derivative m e s = Some (m', res) ->
  ((exists err, res = DErr err) <-> forall cid, ~ forall x, mem x s -> in_class (rcls e) x cid) /\
  (forall err, res = DErr err -> err = AmbiguousCharSet /\ m' = m).
Proof. exact (set_derivative_error_iff merge_ok_holds). Qed.
Print Assumptions C03_set_derivative_error_iff.

(* set_derivative_unchecked: panics when no class contains S; otherwise it IS the unchecked class
   derivative of the class containing S, hence the common quotient *)
Theorem C03_set_derivative_unchecked :
  forall m e s, dwf m -> owned m e -> cs_valid s ->
  ((forall cid, ~ forall x, mem x s -> in_class (rcls e) x cid) -> set_derivative_unchecked m e s = None) /\
  (forall cid, (forall x, mem x s -> in_class (rcls e) x cid) ->
     set_derivative_unchecked m e s = class_derivative_unchecked m e cid /\
     forall m' d, set_derivative_unchecked m e s = Some (m', d) ->
       dwf m' /\ ext m m' /\ owned m' d /\ forall c, mem c s -> lang_eq (L d) (fun w => L e (c :: w))).
Proof. exact (set_derivative_unchecked_spec merge_ok_holds inclusion_sound_holds). Qed.
Print Assumptions C03_set_derivative_unchecked.

Theorem C03_set_derivative_unchecked_some : forall m e s m' d,
  wf m -> owned m e -> cs_valid s -> set_derivative_unchecked m e s = Some (m', d) ->
  exists cid, forall x, mem x s -> in_class (rcls e) x cid.
Proof. exact (set_derivative_unchecked_some merge_ok_holds). Qed.
Print Assumptions C03_set_derivative_unchecked_some.

(* ---------------------------------------------------------------- examples: hypotheses are satisfiable *)

Definition ex_with (p : prog) {A} (f : mgr -> re -> option A) : option A :=
  match run p new_mgr with Some (m, t) => f m t | None => None end.
(* (id of the result, its nullable flag, next id of the manager, number of cache entries) *)
Definition ex_view (x : option (mgr * re)) :=
  option_map (fun y : mgr * re => (rid (snd y), rnul (snd y), counter (fst y), length (cache (fst y)))) x.
Definition ex_res (d : dres) : (N + rerr)%type :=
  match d with DOk r => inl (rid r) | DErr e => Datatypes.inr e end.
Definition ex_viewd (x : option (mgr * dres)) :=
  option_map (fun y : mgr * dres => (ex_res (snd y), counter (fst y), length (cache (fst y)))) x.

Definition ex_p1 := PConcat (PStr [97; 98]) (PLoop (PRange 97 99) 0 None).          (* "ab" [a-c]*   *)
Definition ex_p2 := PUnion (PLoop (PRange 48 57) 1 None)
                           (PConcat (PRange 97 122) (PLoop PAllChar 0 None)).       (* [0-9]+ | [a-z] Sigma*  *)

(* the classes of "ab"[a-c]* are {a} and its complement; of ex_p2: [0-9], [a-z] and the rest *)
Example C03_ex_classes :
  prog_ok ex_p1 = true /\ prog_ok ex_p2 = true /\
  ex_with ex_p1 (fun m t => Some (rid t, ivs (rcls t), pclass_ids (rcls t))) =
    Some (18, [(97, 97)], [CInt 0; CComp]) /\
  ex_with ex_p2 (fun m t => Some (rid t, ivs (rcls t), pclass_ids (rcls t))) =
    Some (14, [(48, 57); (97, 122)], [CInt 0; CInt 1; CComp]).
Proof. vm_compute. repeat split; reflexivity. Qed.

(* derivatives of "ab"[a-c]*: by 'a' a new term (id 16), by 'b' the empty language (id 2),
   by "abc" the loop [a-c]* (id 14, nullable); the cache grows *)
Example C03_ex_char_str_derivative :
  ex_with ex_p1 (fun m t => Some (ex_view (char_derivative m t 97), ex_view (char_derivative m t 98),
                                  ex_view (str_derivative m t [97; 98; 99]))) =
  Some (Some (16, false, 20, 2%nat), Some (2, false, 20, 2%nat), Some (14, true, 20, 6%nat)).
Proof. vm_compute. reflexivity. Qed.

(* membership: "abca" is in "ab"[a-c]*, "a" and "abd" are not *)
Example C03_ex_membership :
  ex_with ex_p1 (fun m t => Some (option_map snd (str_in_re m [97; 98; 99; 97] t),
                                  option_map snd (str_in_re m [97] t),
                                  option_map snd (str_in_re m [97; 98; 100] t))) =
  Some (Some true, Some false, Some false) /\
  (denote ex_p1 [97; 98; 99; 97] <-> True).
Proof.
  split; [vm_compute; reflexivity|]. split; [auto|]. intros _.
  apply (mref_correct ex_p1 [97; 98; 99; 97]). vm_compute. reflexivity.
Qed.

(* class derivatives of [0-9]+ | [a-z]Sigma*: class 0 gives [0-9]* (id 16), class 1 gives Sigma*
   (id 3), the complementary class gives the empty language (id 2); class 2 does not exist *)
Example C03_ex_class_derivative :
  ex_with ex_p2 (fun m t => Some (ex_viewd (class_derivative m t (CInt 0)), ex_viewd (class_derivative m t (CInt 1)),
                                  ex_viewd (class_derivative m t CComp), ex_viewd (class_derivative m t (CInt 2)),
                                  ex_view (class_derivative_unchecked m t (CInt 5)))) =
  Some (Some (inl 16, 18, 5%nat), Some (inl 3, 18, 5%nat), Some (inl 2, 18, 5%nat),
        Some (Datatypes.inr BadClassId, 16, 0%nat), None).
Proof. vm_compute. reflexivity. Qed.

(* every character of a class has the class derivative: '0' and '9' give the same term *)
Example C03_ex_same_class_same_derivative :
  ex_with ex_p2 (fun m t => Some (ex_view (char_derivative m t 48), ex_view (char_derivative m t 57))) =
  Some (Some (16, true, 18, 5%nat), Some (16, true, 18, 5%nat)).
Proof. vm_compute. reflexivity. Qed.

(* set derivatives: [2-4] inside class 0 and [10,20] inside the complement are fine; [d, 200] and
   [9, ':'] meet two classes: AmbiguousCharSet, resp. a panic of the unchecked variant *)
Example C03_ex_set_derivative :
  ex_with ex_p2 (fun m t => Some (ex_viewd (set_derivative m t (50, 52)), ex_viewd (set_derivative m t (10, 20)),
                                  ex_viewd (set_derivative m t (100, 200)), ex_viewd (set_derivative m t (57, 58)),
                                  ex_view (set_derivative_unchecked m t (57, 58)),
                                  ex_view (set_derivative_unchecked m t (50, 52)))) =
  Some (Some (inl 16, 18, 5%nat), Some (inl 2, 18, 5%nat),
        Some (Datatypes.inr AmbiguousCharSet, 16, 0%nat), Some (Datatypes.inr AmbiguousCharSet, 16, 0%nat),
        None, Some (16, true, 18, 5%nat)).
Proof. vm_compute. reflexivity. Qed.

(* Sigma* has the single class [0, 0x2FFFF]: the complementary class is empty, hence invalid *)
Example C03_ex_empty_complement :
  ex_with PAll (fun m t => Some (pclass_ids (rcls t), ex_viewd (class_derivative m t CComp),
                                 ex_view (class_derivative_unchecked m t CComp))) =
  Some ([CInt 0], Some (Datatypes.inr BadClassId, 6, 0%nat), None).
Proof. vm_compute. reflexivity. Qed.
