(* C09 -- Lexicographic order and int/code conversions are exact in every build profile.
   Statements only; every proof is [exact <lemma>].

   Strings are lists of code points (N); i32 values are Z.  A model function returns [None]
   exactly where the Rust code panics.  The model mirrors the code after the repair of defect D5
   and has no build-profile argument: the repaired code uses checked arithmetic only, so overflow
   checks on/off cannot change its behaviour; the correspondence check runs the crate built in
   debug (overflow checks) and in release (none) against this one model.

   Specification vocabulary (StrConvProofs.v):
     lex_lt      inductive strict lexicographic order:   [] < c::w ;  a<b -> a::v < b::w ;  v<w -> a::v < a::w
     lex_le v w  := lex_lt v w \/ v = w
     all_digits  every code point is in '0'..'9' (48..57)
     dec_value   decimal value, most significant digit first (Horner)
     numeral     non-empty, all digits, and either "0" or not starting with '0'
     I32MAX      2^31 - 1 *)
Require Import Base StrConv StrConvProofs.
Open Scope N_scope.

(* ------------------------------------------------------------------ the orders *)
(* str_lt / str_le never panic and are the strict / non-strict lexicographic order *)
Theorem C09_lt_lex : forall v w, exists b, str_lt v w = Some b /\ (b = true <-> lex_lt v w).
Proof. exact lt_lex. Qed.
Print Assumptions C09_lt_lex.

Theorem C09_le_lex : forall v w, exists b, str_le v w = Some b /\ (b = true <-> lex_le v w).
Proof. exact le_lex. Qed.
Print Assumptions C09_le_lex.

Theorem C09_lt_irrefl : forall v, str_lt v v = Some false.
Proof. exact lt_irrefl. Qed.
Print Assumptions C09_lt_irrefl.

Theorem C09_lt_trans : forall a b c,
  str_lt a b = Some true -> str_lt b c = Some true -> str_lt a c = Some true.
Proof. exact lt_trans. Qed.
Print Assumptions C09_lt_trans.

Theorem C09_lt_total : forall a b, str_lt a b = Some true \/ a = b \/ str_lt b a = Some true.
Proof. exact lt_total. Qed.
Print Assumptions C09_lt_total.

Theorem C09_lt_asym : forall a b, str_lt a b = Some true -> str_lt b a = Some false.
Proof. exact lt_asym. Qed.
Print Assumptions C09_lt_asym.

(* consistent with equality *)
Theorem C09_le_iff_lt_or_eq : forall a b,
  str_le a b = Some true <-> (str_lt a b = Some true \/ a = b).
Proof. exact le_iff_lt_or_eq. Qed.
Print Assumptions C09_le_iff_lt_or_eq.

Theorem C09_lt_iff_not_ge : forall a b, str_lt a b = Some true <-> str_le b a = Some false.
Proof. exact lt_iff_not_ge. Qed.
Print Assumptions C09_lt_iff_not_ge.

Theorem C09_le_refl : forall a, str_le a a = Some true.
Proof. exact le_refl. Qed.
Print Assumptions C09_le_refl.

Theorem C09_le_antisym : forall a b, str_le a b = Some true -> str_le b a = Some true -> a = b.
Proof. exact le_antisym. Qed.
Print Assumptions C09_le_antisym.

Theorem C09_le_trans : forall a b c,
  str_le a b = Some true -> str_le b c = Some true -> str_le a c = Some true.
Proof. exact le_trans. Qed.
Print Assumptions C09_le_trans.

Theorem C09_le_total : forall a b, str_le a b = Some true \/ str_le b a = Some true.
Proof. exact le_total. Qed.
Print Assumptions C09_le_total.

(* consistent with prefixes *)
Theorem C09_prefix_le : forall v u, str_le v (v ++ u) = Some true.
Proof. exact prefix_le. Qed.
Print Assumptions C09_prefix_le.

Theorem C09_strict_prefix_lt : forall v u, u <> [] -> str_lt v (v ++ u) = Some true.
Proof. exact strict_prefix_lt. Qed.
Print Assumptions C09_strict_prefix_lt.

(* ------------------------------------------------------------------ str.to_int *)
(* non-empty all-digit string: its decimal value if that fits in i32, otherwise the documented
   panic (None); empty or with a non-digit anywhere: -1 *)
Theorem C09_to_int_spec : forall w,
  (w <> [] -> all_digits w ->
     str_to_int w = if (dec_value w <=? I32MAX)%Z then Some (dec_value w) else None) /\
  (w = [] \/ ~ all_digits w -> str_to_int w = Some (-1)%Z).
Proof. exact to_int_spec. Qed.
Print Assumptions C09_to_int_spec.

(* never a wrong number *)
Theorem C09_to_int_never_wrong : forall w r, str_to_int w = Some r ->
  (w <> [] /\ all_digits w /\ r = dec_value w /\ (0 <= r <= I32MAX)%Z) \/
  ((w = [] \/ ~ all_digits w) /\ r = (-1)%Z).
Proof. exact to_int_never_wrong. Qed.
Print Assumptions C09_to_int_never_wrong.

Theorem C09_to_int_panic_iff : forall w,
  str_to_int w = None <-> (w <> [] /\ all_digits w /\ (I32MAX < dec_value w)%Z).
Proof. exact to_int_panic_iff. Qed.
Print Assumptions C09_to_int_panic_iff.

(* dec_value is the decimal value: both textbook recurrences *)
Theorem C09_dec_value_snoc : forall w d, dec_value (w ++ [d]) = (10 * dec_value w + (Z.of_N d - 48))%Z.
Proof. exact dec_value_snoc. Qed.
Print Assumptions C09_dec_value_snoc.

Theorem C09_dec_value_cons : forall d w,
  dec_value (d :: w) = ((Z.of_N d - 48) * 10 ^ Z.of_nat (length w) + dec_value w)%Z.
Proof. exact dec_value_cons. Qed.
Print Assumptions C09_dec_value_cons.

(* ------------------------------------------------------------------ str.from_int *)
Theorem C09_from_int_spec : forall n,
  ((0 <= n)%Z -> exists w, str_from_int n = Some w /\ numeral w /\ dec_value w = n) /\
  ((n < 0)%Z -> str_from_int n = Some []).
Proof. exact from_int_spec. Qed.
Print Assumptions C09_from_int_spec.

(* the numeral of n is unique, so the specification above has one solution *)
Theorem C09_numeral_unique : forall u w, numeral u -> numeral w -> dec_value u = dec_value w -> u = w.
Proof. exact numeral_unique. Qed.
Print Assumptions C09_numeral_unique.

Theorem C09_to_int_from_int : forall n, (0 <= n <= I32MAX)%Z ->
  (do w <- str_from_int n; str_to_int w) = Some n.
Proof. exact to_int_from_int. Qed.
Print Assumptions C09_to_int_from_int.

Theorem C09_from_int_to_int : forall w n, numeral w -> str_to_int w = Some n -> str_from_int n = Some w.
Proof. exact from_int_to_int. Qed.
Print Assumptions C09_from_int_to_int.

(* ------------------------------------------------------------------ str.to_code / str.from_code / str.is_digit *)
(* (every code point an SmtString can hold is far below 2^31, so the cast to i32 is exact) *)
Theorem C09_to_code_spec : forall w,
  (forall c, w = [c] -> c < 2147483648 -> str_to_code w = Some (Z.of_N c)) /\
  (length w <> 1%nat -> str_to_code w = Some (-1)%Z).
Proof. exact to_code_spec. Qed.
Print Assumptions C09_to_code_spec.

Theorem C09_from_code_range : forall x,
  ((0 <= x <= Z.of_N MAXC)%Z -> str_from_code x = [Z.to_N x]) /\
  ((x < 0 \/ Z.of_N MAXC < x)%Z -> str_from_code x = []).
Proof. exact from_code_range. Qed.
Print Assumptions C09_from_code_range.

Theorem C09_to_code_from_code : forall x, (0 <= x <= Z.of_N MAXC)%Z ->
  str_to_code (str_from_code x) = Some x.
Proof. exact to_code_from_code. Qed.
Print Assumptions C09_to_code_from_code.

Theorem C09_from_code_to_code : forall c, good c ->
  (do x <- str_to_code [c]; Some (str_from_code x)) = Some [c].
Proof. exact from_code_to_code. Qed.
Print Assumptions C09_from_code_to_code.

Theorem C09_is_digit_spec : forall w, exists b, str_is_digit w = Some b /\
  (b = true <-> exists c, w = [c] /\ 48 <= c <= 57).
Proof. exact is_digit_spec. Qed.
Print Assumptions C09_is_digit_spec.

(* ------------------------------------------------------------------ results are good strings (used by C17) *)
Theorem C09_str_from_code_good : forall x, goodw (str_from_code x).
Proof. exact str_from_code_good. Qed.
Print Assumptions C09_str_from_code_good.

Theorem C09_str_from_int_good : forall n w, str_from_int n = Some w -> goodw w.
Proof. exact str_from_int_good. Qed.
Print Assumptions C09_str_from_int_good.

(* ------------------------------------------------------------------ examples / non-vacuity *)
(* "abcd" < "abcdef" < "bbb"; "00982" -> 982; "101aaabb" -> -1; 2^31-1 fits, 2^31 panics *)
Example C09_example :
  str_lt [97;98;99;100] [97;98;99;100;101;102] = Some true /\
  str_lt [97;98;99;100;101;102] [98;98;98] = Some true /\
  str_le [98;98;98] [97;98;99;100] = Some false /\
  str_to_int [48;48;57;56;50] = Some 982%Z /\
  str_to_int [49;48;49;97;97;97;98;98] = Some (-1)%Z /\
  str_to_int [] = Some (-1)%Z /\
  str_to_int [50;49;52;55;52;56;51;54;52;55] = Some I32MAX /\
  str_to_int [50;49;52;55;52;56;51;54;52;56] = None /\
  str_from_int 1002 = Some [49;48;48;50] /\ str_from_int 0 = Some [48] /\ str_from_int (-1) = Some [] /\
  str_from_int I32MAX = Some [50;49;52;55;52;56;51;54;52;55] /\
  str_to_code [1202] = Some 1202%Z /\ str_to_code [] = Some (-1)%Z /\
  str_from_code 196607 = [196607] /\ str_from_code 196608 = [] /\ str_from_code (-19) = [] /\
  str_is_digit [48] = Some true /\ str_is_digit [65] = Some false.
Proof. vm_compute. repeat split; reflexivity. Qed.

Example C09_example_spec :
  numeral [49;48;48;50] /\ all_digits [48;48;57;56;50] /\ ~ numeral [48;48;57;56;50] /\
  dec_value [48;48;57;56;50] = 982%Z /\ lex_lt [97;98] [97;98;99] /\ lex_lt [97;98;99] [98].
Proof.
  unfold numeral, all_digits, is_digit_code.
  split; [split; [discriminate | split; [repeat constructor; lia | right; cbn [hd]; lia]]|].
  split; [repeat constructor; lia|].
  split; [intros (_ & _ & [H|H]); [discriminate | apply H; reflexivity]|].
  split; [reflexivity|].
  split; [constructor 3; constructor 3; constructor 1 | constructor 2; lia].
Qed.

(* D5 as found in the pinned code: a release build returns 705032704 for "5000000000" (the
   repaired code panics as documented); any build panics on "99999999999a" although a non-digit
   follows (repaired code and SMT-LIB: -1). *)
Example D5_prefix_witness :
  pinned_to_int_release D5_w1 = Some 705032704%Z /\ dec_value D5_w1 = 5000000000%Z /\ str_to_int D5_w1 = None /\
  pinned_to_int_release D5_w2 = None /\ str_to_int D5_w2 = Some (-1)%Z /\
  pinned_to_int_release D5_w3 = None /\ str_to_int D5_w3 = None.
Proof. exact D5_witness. Qed.
