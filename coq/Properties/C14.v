(* C14 -- Reachability pruning and the compiled successor table agree with the automaton.
   Statements only; every proof is [exact <lemma>] (lemmas in AutomatonProofs.v).

   Vocabulary.  [aut_wf a] is the type invariant of an Automaton (decided by [aut_wfb]): the state
   array has num_states entries, state i has id i, its successor array is as long as its list of
   interval classes, all targets are < num_states, its class partition is well formed ([pwf]), a
   state without default successor has an empty complementary class (a default with an empty
   complementary class is allowed: build_unchecked can produce it), num_final_states counts the
   final flags and the initial state is a state.
   [ereach a s t] : t is reachable from s along edges (what Automaton::edges lists);
   [creach a s]   : some string of good characters leads from the initial state to s.
   [reachable a]  : the sorted list computed by the BFS of remove_unreachable_states.
   [merge_spec]   : the C12 fact about merge_partitions used here as an explicit premise (the merge of
                    two well-formed partitions is well formed and refines both); it is proved in
                    MergeProofs.v (merge_wf, merge_refines) and is the only premise besides aut_wf.
   None = the Rust code panics. *)
Require Import Base CharSet Partition PartitionSpec Automaton BuilderSpec AutomatonProofs.
From Coq Require Import Sorted.
Open Scope nat_scope.

Theorem C14_aut_wfb_iff : forall a, aut_wfb a = true <-> aut_wf a.
Proof. exact aut_wfb_iff. Qed.
Print Assumptions C14_aut_wfb_iff.

(* ---------------------------------------------------------------- reachability *)

(* the BFS (with the fuel num_states + 1 of the model, which therefore always suffices) collects
   exactly the states reachable from the initial state along edges *)
Theorem C14_reach_exact : forall a, aut_wf a -> forall s,
  In s (reach_go (S (num_states a)) a [initial a] [initial a] []) <-> ereach a (initial a) s.
Proof. exact reach_exact. Qed.
Print Assumptions C14_reach_exact.

(* only closure of the state array under edges is used (so this also covers the partial automata
   that build_unchecked returns when a default successor is missing) *)
Theorem C14_reach_exact_closed : forall a,
  (initial a < num_states a /\
   forall t u, t < num_states a -> In u (edges (a_state a t)) -> u < num_states a) ->
  forall s, In s (reach_go (S (num_states a)) a [initial a] [initial a] []) <-> ereach a (initial a) s.
Proof. exact reach_exact_closed. Qed.
Print Assumptions C14_reach_exact_closed.

Theorem C14_reachable_list : forall a, aut_wf a ->
  (forall s, In s (reachable a) <-> ereach a (initial a) s) /\ NoDup (reachable a) /\
  StronglySorted le (reachable a) /\ (forall s, In s (reachable a) -> s < num_states a) /\
  length (reachable a) = length (reach_list a).
Proof. exact reachable_spec. Qed.
Print Assumptions C14_reachable_list.

(* every state reached by a string is kept *)
Theorem C14_reach_words_sound : forall a, aut_wf a -> forall s, creach a s -> In s (reachable a).
Proof. exact reach_words_sound. Qed.
Print Assumptions C14_reach_words_sound.

(* and only those, provided no state has a default successor with an empty complementary class *)
Theorem C14_reach_exact_words : forall a, aut_wf a -> no_dead_default a ->
  forall s, In s (reachable a) <-> creach a s.
Proof. exact reach_exact_words. Qed.
Print Assumptions C14_reach_exact_words.

(* without that proviso the statement "keeps exactly the states reached by some string" is false:
   an automaton accepted by build_unchecked (rejected by build) keeps a state no string reaches *)
Theorem C14_dead_default_refuted :
  (build_unchecked dd_builder = Some dd_aut /\ build dd_builder = Some (BErr EmptyComplementaryClass)) /\
  aut_wf dd_aut /\ In 1 (reachable dd_aut) /\ ~ creach dd_aut 1 /\
  num_states (remove_unreachable dd_aut) = 2 /\ ~ no_dead_default dd_aut.
Proof. exact (conj dd_build dead_default_keeps_unreached_state). Qed.
Print Assumptions C14_dead_default_refuted.

(* ---------------------------------------------------------------- remove_unreachable_states *)

Theorem C14_remove_unreachable_wf : forall a, aut_wf a -> aut_wf (remove_unreachable a).
Proof. exact remove_unreachable_wf. Qed.
Print Assumptions C14_remove_unreachable_wf.

(* same verdict (accept / reject / panic) on every word *)
Theorem C14_remove_unreachable_lang : forall a, aut_wf a ->
  forall w, a_accepts (remove_unreachable a) w = a_accepts a w.
Proof. exact remove_unreachable_lang. Qed.
Print Assumptions C14_remove_unreachable_lang.

Theorem C14_remove_unreachable_lang_closed : forall a,
  (initial a < num_states a /\
   forall t u, t < num_states a -> In u (edges (a_state a t)) -> u < num_states a) ->
  forall w, a_accepts (remove_unreachable a) w = a_accepts a w.
Proof. exact remove_unreachable_lang_closed. Qed.
Print Assumptions C14_remove_unreachable_lang_closed.

(* the kept states are exactly the reachable ones; new state k is old state (nth k (reachable a))
   with its successors renamed; every new state is reachable; the renaming is monotone *)
Theorem C14_remove_unreachable_states_exact : forall a, aut_wf a ->
  let R := reachable a in
  let nid := fun x => nth x (new_id_of (num_states a) R) 0 in
  let a' := remove_unreachable a in
  (forall s, In s R <-> ereach a (initial a) s) /\ NoDup R /\
  num_states a' = length R /\ length (astates a') = length R /\
  initial a' = nid (initial a) /\
  (forall k, k < length R ->
     nid (nth k R 0) = k /\
     a_state a' k = remap_state (new_id_of (num_states a) R) (a_state a (nth k R 0)) /\
     ereach a' (initial a') k) /\
  (forall o1 o2, In o1 R -> In o2 R -> o1 < o2 -> nid o1 < nid o2).
Proof. exact remove_unreachable_states_exact. Qed.
Print Assumptions C14_remove_unreachable_states_exact.

(* every index used by from_array / remap_nodes while pruning is in range *)
Theorem C14_remove_unreachable_in_range : forall a, aut_wf a ->
  length (new_id_of (num_states a) (reachable a)) = num_states a /\
  initial a < num_states a /\
  forall o, In o (reachable a) ->
    o < length (astates a) /\ o < num_states a /\
    forall u, In u (edges (a_state a o)) -> u < num_states a.
Proof. exact remove_unreachable_in_range. Qed.
Print Assumptions C14_remove_unreachable_in_range.

Theorem C14_remove_unreachable_states_exact_words : forall a, aut_wf a -> no_dead_default a ->
  (forall s, In s (reachable a) <-> creach a s) /\
  num_states (remove_unreachable a) = length (reachable a) /\
  (forall k, k < num_states (remove_unreachable a) -> creach (remove_unreachable a) k).
Proof. exact remove_unreachable_states_exact_words. Qed.
Print Assumptions C14_remove_unreachable_states_exact_words.

(* ---------------------------------------------------------------- combined partition, alphabet *)

Theorem C14_combined_uniform : forall a, merge_spec -> aut_wf a -> forall x y,
  same_class (combined_partition a) x y ->
  forall s, In s (astates a) -> a_next a s x = a_next a s y.
Proof. exact combined_uniform. Qed.
Print Assumptions C14_combined_uniform.

(* good characters; every good character has exactly one representative in the alphabet *)
Theorem C14_pick_alphabet_reps : forall a, merge_spec -> aut_wf a ->
  let P := combined_partition a in let al := pick_alphabet a in
  pwf P /\ Forall good al /\
  (forall x, good x -> exists i, i < length al /\ same_class P x (nth i al 0%N)) /\
  (forall i j, i < length al -> j < length al -> same_class P (nth i al 0%N) (nth j al 0%N) -> i = j).
Proof. exact pick_alphabet_reps. Qed.
Print Assumptions C14_pick_alphabet_reps.

(* ---------------------------------------------------------------- compile_successors *)

(* never panics; the cell (state id, alphabet index) is the id of next(state, that character) *)
Theorem C14_compact_eval : forall a, merge_spec -> aut_wf a ->
  exists T, compile_successors a = Some T /\
    forall s i, s < num_states a -> i < length (pick_alphabet a) ->
      a_next a (a_state a s) (nth i (pick_alphabet a) 0%N) = Some (ct_eval T s i) /\
      ct_eval T s i < num_states a /\ a_id (a_state a (ct_eval T s i)) = ct_eval T s i.
Proof. exact compact_eval. Qed.
Print Assumptions C14_compact_eval.

(* the model of the table uses [nth _ _ default], [upd] (silent out of range) and a fuel-bounded
   find_base that returns a normal value when the fuel runs out.  The strict reading of the same
   code (every index checked, out of fuel, and the assertions of CompactTableBuilder::new, of the
   resize step and of max().unwrap() all give None) coincides with it on well-formed automata, and
   eval never indexes out of bounds: none of those defaults is reachable. *)
Theorem C14_compile_strict : forall a, merge_spec -> aut_wf a ->
  compile_successors_s a = compile_successors a /\
  forall T, compile_successors a = Some T -> forall s i, s < num_states a -> i < length (pick_alphabet a) ->
    ct_eval_s T s i = Some (ct_eval T s i).
Proof. exact compile_successors_strict. Qed.
Print Assumptions C14_compile_strict.

(* ---------------------------------------------------------------- edges, counts *)

Theorem C14_edges_spec : forall a n i s, state_wf n i s ->
  edges s = a_succ s ++ (match a_default s with Some d => [d] | None => [] end) /\
  length (edges s) = plen (a_classes s) + (match a_default s with Some _ => 1 | None => 0 end) /\
  (forall c cid, pclass_of_char (a_classes s) c = Some cid ->
     a_next a s c = nth_error (edges s) (match cid with CInt j => j | CComp => plen (a_classes s) end)) /\
  (forall c, good c -> exists cid, pclass_of_char (a_classes s) c = Some cid /\ in_class (a_classes s) c cid).
Proof. exact edges_spec. Qed.
Print Assumptions C14_edges_spec.

Theorem C14_counts_spec : forall a, aut_wf a ->
  num_states a = length (astates a) /\
  num_final a = length (filter (fun s => a_final (a_state a s)) (seq 0 (num_states a))) /\
  num_final (remove_unreachable a) = length (filter (fun s => a_final (a_state a s)) (reachable a)) /\
  (forall k, k < length (reachable a) ->
     a_final (a_state (remove_unreachable a) k) = a_final (a_state a (nth k (reachable a) 0))).
Proof. exact counts_spec. Qed.
Print Assumptions C14_counts_spec.

(* ---------------------------------------------------------------- non-vacuity *)
(* states named 10 (initial, id 0), 77 (id 1, unreachable), 20 (id 2, final), 30 (id 3, sink) *)
Definition c14_builder : builder :=
  let b := b_new 10%N in
  let b := b_add_transition b 77%N (97%N, 97%N) 10%N in
  let b := b_set_default b 77%N 77%N in
  let b := b_add_transition b 10%N (97%N, 122%N) 20%N in
  let b := b_set_default b 10%N 30%N in
  let b := b_add_transition b 20%N (48%N, 57%N) 20%N in
  let b := b_set_default b 20%N 30%N in
  let b := b_set_default b 30%N 30%N in
  b_mark_final b 20%N.
Definition c14_aut : automaton :=
  match build_unchecked c14_builder with Some a => a | None => dd_aut end.

Example C14_example_wf :
  (exists a, build_unchecked c14_builder = Some a /\ build c14_builder = Some (BOk a)) /\
  aut_wfb c14_aut = true /\ aut_wf c14_aut /\ num_states c14_aut = 4 /\ no_dead_default c14_aut.
Proof.
  split; [eexists; split; vm_compute; reflexivity|]. split; [vm_compute; reflexivity|].
  split; [apply aut_wfb_iff; vm_compute; reflexivity|]. split; [vm_compute; reflexivity|].
  apply no_dead_defaultb_iff. vm_compute. reflexivity.
Qed.

Example C14_example_prune :
  reachable c14_aut = [0; 2; 3] /\
  num_states (remove_unreachable c14_aut) = 3 /\ num_final (remove_unreachable c14_aut) = 1 /\
  aut_wfb (remove_unreachable c14_aut) = true /\
  map a_succ (astates (remove_unreachable c14_aut)) = [[1]; [1]; []] /\
  map a_default (astates (remove_unreachable c14_aut)) = [Some 2; Some 2; Some 2] /\
  a_accepts c14_aut [97%N; 48%N] = Some true /\ a_accepts (remove_unreachable c14_aut) [97%N; 48%N] = Some true /\
  a_accepts (remove_unreachable c14_aut) [48%N] = Some false.
Proof. vm_compute. repeat split. Qed.

Example C14_example_table :
  pick_alphabet c14_aut = [48%N; 97%N; 98%N; 0%N] /\
  match compile_successors c14_aut with
  | Some T => map (fun s => map (ct_eval T s) [0; 1; 2; 3]) [0; 1; 2; 3] =
              [[3; 2; 2; 3]; [1; 0; 1; 1]; [2; 3; 3; 3]; [3; 3; 3; 3]] /\
              map (fun s => map (ct_eval_s T s) [0; 1; 2; 3]) [0; 1; 2; 3] =
              map (fun s => map (fun i => a_step c14_aut s (nth i (pick_alphabet c14_aut) 0%N)) [0; 1; 2; 3]) [0; 1; 2; 3]
  | None => False
  end /\ compile_successors_s c14_aut = compile_successors c14_aut.
Proof. vm_compute. repeat split. Qed.

(* ---------------------------------------------------------------- the merge premise discharged (C12) *)
Require Import LinkProofs.
Theorem C14_merge_premise : merge_spec.
Proof. exact merge_spec_holds. Qed.
Print Assumptions C14_merge_premise.

(* ---------------------------------------------------------------- accessors of Automaton and State
   Automaton::{initial_state, state, states, num_states, num_final_states, final_states,
   default_successor, class_next, char_set_next} and State::{num_successors, has_default_successor,
   default_successor, valid_class_id, char_maps_to_default, char_classes, class_of_char, char_picks,
   char_ranges} describe the same transition structure as next.  A `&State` is the state record;
   [a_state_at a k] = &self.states[k] (None = panic). *)
Open Scope nat_scope.

(* char_set_next never panics on a valid set; when the set lies inside one class the result is the
   state next(s, x) reaches for EVERY character x of the set; Err(AmbiguousCharSet) (= Some None)
   exactly when no class contains the set *)
Theorem C14_char_set_next : forall a i s set,
  aut_wf a -> nth_error (astates a) i = Some s -> cs_valid set ->
  exists r, a_char_set_next a s set = Some r /\
    (forall cid, (forall x, mem x set -> in_class (a_classes s) x cid) ->
       exists t, r = Some t /\ a_class_next a s cid = Some t /\
                 a_id t < num_states a /\ a_state a (a_id t) = t /\
                 forall x, mem x set -> a_next a s x = Some (a_id t)) /\
    (r = None <-> forall cid, ~ forall x, mem x set -> in_class (a_classes s) x cid).
Proof. exact char_set_next_spec. Qed.
Print Assumptions C14_char_set_next.

(* ... in particular when the set straddles two classes *)
Theorem C14_char_set_next_two_classes : forall a i s set x y,
  aut_wf a -> nth_error (astates a) i = Some s -> cs_valid set -> mem x set -> mem y set ->
  ~ same_class (a_classes s) x y -> a_char_set_next a s set = Some None.
Proof. exact char_set_next_two_classes. Qed.
Print Assumptions C14_char_set_next_two_classes.

(* ... and a singleton set is a character *)
Theorem C14_char_set_next_singleton : forall a i s c,
  aut_wf a -> nth_error (astates a) i = Some s -> good c ->
  exists t, a_char_set_next a s (c, c) = Some (Some t) /\ a_next a s c = Some (a_id t).
Proof. exact char_set_next_singleton. Qed.
Print Assumptions C14_char_set_next_singleton.

(* num_successors, char_ranges, has_default_successor, default_successor (of the state and of the
   automaton: no panic, the state with that id), char_maps_to_default against next *)
Theorem C14_state_accessors : forall a i s, aut_wf a -> nth_error (astates a) i = Some s ->
  s_num_successors s = length (a_succ s) /\ s_char_ranges s = ivs (a_classes s) /\
  (s_has_default_successor s = true <-> exists d, s_default_successor s = Some d) /\
  (exists r, a_default_successor a s = Some r /\
     (forall d, s_default_successor s = Some d ->
        r = Some (a_state a d) /\ d < num_states a /\ a_id (a_state a d) = d) /\
     (s_default_successor s = None -> r = None)) /\
  (forall c, good c -> exists b, s_char_maps_to_default s c = Some b /\
     (b = true <-> (exists d, s_default_successor s = Some d) /\ in_class (a_classes s) c CComp) /\
     (b = true -> a_next a s c = s_default_successor s) /\
     (b = false -> exists j, in_class (a_classes s) c (CInt j) /\ a_next a s c = nth_error (a_succ s) j)).
Proof. exact state_accessors_spec. Qed.
Print Assumptions C14_state_accessors.

(* char_classes = the valid class ids = the non-empty classes; char_picks holds one member of each,
   in the same order; class_next of a listed class is what next returns for its pick *)
Theorem C14_char_classes_picks : forall a i s, aut_wf a -> nth_error (astates a) i = Some s ->
  s_char_classes s = map CInt (seq 0 (s_num_successors s)) ++
                     (if s_valid_class_id s CComp then [CComp] else []) /\
  NoDup (s_char_classes s) /\
  (forall cid, In cid (s_char_classes s) <-> s_valid_class_id s cid = true) /\
  (forall cid, s_valid_class_id s cid = true <-> exists x, good x /\ in_class (a_classes s) x cid) /\
  Forall2 (fun cid x => good x /\ in_class (a_classes s) x cid /\ s_class_of_char s x = Some cid /\
             exists t, a_class_next a s cid = Some t /\ a_next a s x = Some (a_id t) /\
                       a_id t < num_states a /\ a_state a (a_id t) = t)
          (s_char_classes s) (s_char_picks s).
Proof. exact char_classes_picks_spec. Qed.
Print Assumptions C14_char_classes_picks.

(* valid_class_id(Complement) means "the complementary class is non-empty"; it implies that a default
   successor is defined, and is equivalent to it when no default is dead; then char_classes lists
   exactly the classes of the edges, in the order of Automaton::edges *)
Theorem C14_valid_complement_vs_default : forall a i s, aut_wf a -> nth_error (astates a) i = Some s ->
  (s_valid_class_id s CComp = true -> s_has_default_successor s = true) /\
  (no_dead_default a -> (s_valid_class_id s CComp = true <-> s_has_default_successor s = true)) /\
  (no_dead_default a ->
     map (fun cid => option_map a_id (a_class_next a s cid)) (s_char_classes s) = map Some (edges s)).
Proof. exact valid_complement_vs_default. Qed.
Print Assumptions C14_valid_complement_vs_default.

(* the documentation of State::valid_class_id ("Complement is valid if there's a default successor")
   is false for an automaton build_unchecked accepts (build rejects it) *)
Theorem C14_valid_class_id_doc_refuted :
  aut_wf dd_aut /\ s_has_default_successor (a_state dd_aut 0) = true /\
  s_valid_class_id (a_state dd_aut 0) CComp = false /\
  s_char_classes (a_state dd_aut 0) = [CInt 0] /\ edges (a_state dd_aut 0) = [0; 1].
Proof. exact valid_class_id_doc_refuted. Qed.
Print Assumptions C14_valid_class_id_doc_refuted.

(* initial_state, state(k) (panic exactly out of range), states, num_states, num_final_states,
   final_states *)
Theorem C14_automaton_accessors : forall a, aut_wf a ->
  a_initial_state a = Some (a_state a (initial a)) /\ a_id (a_state a (initial a)) = initial a /\
  (forall k, k < a_num_states a -> a_state_at a k = Some (a_state a k) /\ a_id (a_state a k) = k) /\
  (forall k, a_num_states a <= k -> a_state_at a k = None) /\
  map a_id (a_states a) = seq 0 (a_num_states a) /\
  length (a_final_states a) = a_num_final_states a /\
  (forall t, In t (a_final_states a) <-> In t (a_states a) /\ a_final t = true) /\
  map a_id (a_final_states a) = filter (fun k => a_final (a_state a k)) (seq 0 (a_num_states a)).
Proof. exact automaton_accessors_spec. Qed.
Print Assumptions C14_automaton_accessors.

Example C14_example_accessors :
  let s0 := a_state c14_aut 0 in
  option_map (option_map a_id) (a_char_set_next c14_aut s0 (97%N, 122%N)) = Some (Some 2) /\
  option_map (option_map a_id) (a_char_set_next c14_aut s0 (0%N, 96%N)) = Some (Some 3) /\
  a_char_set_next c14_aut s0 (96%N, 97%N) = Some None /\
  s_char_classes s0 = [CInt 0; CComp] /\ s_char_picks s0 = [97%N; 0%N] /\
  s_char_maps_to_default s0 48%N = Some true /\ s_char_maps_to_default s0 100%N = Some false /\
  option_map (option_map a_id) (a_default_successor c14_aut s0) = Some (Some 3) /\
  map a_id (a_final_states c14_aut) = [2].
Proof. vm_compute. repeat split. Qed.
