(* C16 -- included_in never claims an inclusion that does not hold.
   Whenever r.included_in(s) returns true, every string of the language of r is in the language
   of s; returning false carries no information.  Because unions are pruned with the same test,
   a union never loses strings that only a dropped operand contributed.

   Statements only; every proof is [exact <lemma>] (InclusionProofs.v, SemProofs.v).
   [L e w]: the word w belongs to the language of the term e (Sem.v); [goodw w]: w is an SMT-LIB
   string (all characters <= 0x2FFFF); [wf_term e]: the cached attributes of e and of all its
   sub-terms are the ones HashConsed::make computes, ranges and loop ranges are valid.

   Identity of terms.  Rust == on RE compares ids only (model: re_eqb), and sub_language starts
   with "r == s => true".  The theorems therefore speak about a universe P of terms that is
   closed under taking children and in which equal ids mean equal terms:
     closed P := forall e c, P e -> In c (children (rnode e)) -> P c
     id_inj P := forall a b, P a -> P b -> rid a = rid b -> a = b
   The intended instance is P := owned m (the terms stored in a manager m, ids = positions in
   id2re): [id_inj (owned m)] holds for every m (C16_owned_id_inj); [closed (owned m)] is part of
   the manager invariant.  For arbitrary id-tagged trees the premise cannot be dropped (two
   different trees carrying the same id are "equal" for re_eqb). *)
Require Import Base CharSet Partition LoopRange Regex Denote Sem Inclusion Constructors SemProofs InclusionProofs.

(* sub_language is sound for every amount of fuel (out of fuel => false) *)
Theorem C16_sub_language_sound : forall (P : re -> Prop), closed P -> id_inj P ->
  forall fuel r s, P r -> P s -> wf_term r -> wf_term s ->
  sub_language fuel r s = true -> forall w, goodw w -> L r w -> L s w.
Proof. exact sub_language_sound. Qed.
Print Assumptions C16_sub_language_sound.

Theorem C16_included_in_sound : forall (P : re -> Prop), closed P -> id_inj P ->
  forall r s, P r -> P s -> wf_term r -> wf_term s ->
  included_in r s = true -> forall w, goodw w -> L r w -> L s w.
Proof. exact included_in_sound. Qed.
Print Assumptions C16_included_in_sound.

(* ids of the terms of one manager are positions in id2re, hence injective *)
Theorem C16_owned_id_inj : forall m, id_inj (owned m).
Proof. exact owned_id_inj. Qed.
Print Assumptions C16_owned_id_inj.

Theorem C16_included_in_sound_owned : forall m, closed (owned m) ->
  forall r s, owned m r -> owned m s -> wf_term r -> wf_term s ->
  included_in r s = true -> forall w, goodw w -> L r w -> L s w.
Proof. exact included_in_sound_owned. Qed.
Print Assumptions C16_included_in_sound_owned.

(* the rigid / flexible matcher on flattened concatenations needs no premise at all *)
Theorem C16_concat_inclusion_sound : forall r s,
  concat_inclusion (flatten_concat r) (flatten_concat s) = true ->
  forall w, goodw w -> L r w -> L s w.
Proof. exact concat_inclusion_sound. Qed.
Print Assumptions C16_concat_inclusion_sound.

(* pruning subsumed operands keeps the language of the union, and only drops operands *)
Theorem C16_remove_subsumed_lang : forall (P : re -> Prop), closed P -> id_inj P ->
  forall rest kept, Forall P (kept ++ rest) -> Forall wf_term (kept ++ rest) ->
  forall w, goodw w ->
    ((exists x, In x (remove_subsumed_go kept rest) /\ L x w) <->
     (exists x, In x (kept ++ rest) /\ L x w)).
Proof. exact remove_subsumed_lang. Qed.
Print Assumptions C16_remove_subsumed_lang.

Theorem C16_remove_subsumed_sublist : forall rest kept x,
  In x (remove_subsumed_go kept rest) -> In x (kept ++ rest).
Proof. exact remove_subsumed_incl. Qed.
Print Assumptions C16_remove_subsumed_sublist.

(* non-vacuity: r = [a-c].Sigma^*, s = [a-z].Sigma^* built in a fresh manager satisfy all the
   hypotheses; included_in r s holds, included_in s r does not, and pruning [r; s] drops r.
   InclusionProofs.c16_ex is the construction sequence
     do (m1, a) <- range new_mgr 97 99;  do (m2, b) <- range m1 97 122;
     do (m3, r) <- concat a m2 (m_full m2);  do (m4, s) <- concat b m3 (m_full m3);
     Some (m4, r, s)
   evaluated by vm_compute. *)
Example C16_example : exists m r s,
  c16_ex = Some (m, r, s) /\
  closed (owned m) /\ id_inj (owned m) /\ owned m r /\ owned m s /\ wf_term r /\ wf_term s /\
  rid r <> rid s /\ included_in r s = true /\ included_in s r = false /\
  remove_subsumed_go [] [r; s] = [s].
Proof. exact c16_ex_ok. Qed.
