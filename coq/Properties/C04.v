(* C04 -- minimize preserves the language and leaves no two equivalent states.
   Statements only; every proof is [exact <lemma>] (lemmas in NerodeProofs.v).

   Vocabulary.  [aut_wf a]: the structural invariant of an Automaton (state count, ids, every state's
   partition well formed, successor vector as long as the partition, all targets in range, a default
   successor wherever the complementary class is not empty); [aut_wfb] is its executable form.  Such an
   automaton is a complete DFA over the good characters (C04_wf_total).  [run a s w] = str_next from
   state s, [acc a s w] = is the state reached final, [lang_equiv_states a s b t] = the residual
   languages of (a,s) and (b,t) contain the same good words, [same_language a b] = accepts agrees on
   every good word, [no_equiv_states a] = no two distinct states have the same residual language,
   [all_reachable a] = every state is reached from the initial state by some good word.

   The facts about merge_partitions that the alphabet lemma needs come from MergeProofs.v (C12);
   every theorem below is premise-free in that respect and prints Closed under the global context.

   How C04 is checked.  The crate's Hopcroft implementation is modelled faithfully (Minimizer.minimize,
   compared state by state with the crate) but not proved.  Instead every run validates the crate's
   own output B against its input A with the executable oracles of BuilderSpec.v:
       aut_wfb B = true, dfa_equiv A B = Some true, collapsed B = Some true,
       nerode_index A = Some (num_states B).
   The theorems below prove that these verdicts mean what the property says. *)
Require Import Base CharSet Partition PartitionSpec Automaton BuilderSpec Minimizer NerodeProofs.
Open Scope nat_scope.

(* the executable well-formedness check is exact, and a well-formed automaton is total *)
Theorem C04_wf_check_exact : forall a, aut_wfb a = true <-> aut_wf a.
Proof. exact aut_wfb_iff. Qed.
Print Assumptions C04_wf_check_exact.

Theorem C04_wf_total : forall a s c, aut_wf a -> s < num_states a -> good c ->
  exists t, a_step a s c = Some t /\ t < num_states a.
Proof. exact step_total. Qed.
Print Assumptions C04_wf_total.

(* alphabet lemma: characters in one class of the combined partition have the same successor in
   every state; the picked alphabet (one representative per class) stands for every good character *)
Theorem C04_alphabet_same_successor : forall a x y s, aut_wf a -> s < num_states a ->
  good x -> good y -> same_class (combined_partition a) x y -> a_step a s x = a_step a s y.
Proof. exact c04_alphabet_same_successor. Qed.
Print Assumptions C04_alphabet_same_successor.

(* every good character is in the class of exactly one representative of the picked alphabet, and has
   the same successors as that representative *)
Theorem C04_alphabet_representatives : forall a, aut_wf a ->
  Forall good (pick_alphabet a) /\
  (forall c, good c -> exists r, In r (pick_alphabet a) /\ same_class (combined_partition a) c r /\
     forall s, s < num_states a -> a_step a s c = a_step a s r) /\
  (forall r r', In r (pick_alphabet a) -> In r' (pick_alphabet a) ->
     same_class (combined_partition a) r r' -> r = r').
Proof. exact c04_pick_alphabet_repr. Qed.
Print Assumptions C04_alphabet_representatives.

(* the joint alphabet used by dfa_equiv stands for every good character in both automata at once *)
Theorem C04_joint_alphabet_representatives : forall a b, aut_wf a -> aut_wf b ->
  Forall good (joint_alphabet a b) /\
  forall c, good c -> exists r, In r (joint_alphabet a b) /\
    (forall s, s < num_states a -> a_step a s c = a_step a s r) /\
    (forall t, t < num_states b -> a_step b t c = a_step b t r).
Proof. exact c04_joint_alphabet_ok. Qed.
Print Assumptions C04_joint_alphabet_representatives.

(* dfa_equiv_from / dfa_equiv: the product exploration never runs out of fuel (never answers None) on
   well-formed automata and answers true exactly when the two (residual) languages are equal *)
Theorem C04_dfa_equiv_exact : forall a b s t, aut_wf a -> aut_wf b ->
  s < num_states a -> t < num_states b ->
  dfa_equiv_from a b s t <> None /\
  (dfa_equiv_from a b s t = Some true <-> forall w, goodw w -> acc a s w = acc b t w).
Proof. exact c04_dfa_equiv_from. Qed.
Print Assumptions C04_dfa_equiv_exact.

Theorem C04_dfa_equiv_language : forall a b, aut_wf a -> aut_wf b ->
  dfa_equiv a b <> None /\
  (dfa_equiv a b = Some true <-> forall w, goodw w -> a_accepts a w = a_accepts b w).
Proof. exact c04_dfa_equiv. Qed.
Print Assumptions C04_dfa_equiv_language.

(* nerode_classes: Moore refinement reaches its fixpoint within the fuel; two states get the same
   class number exactly when their residual languages are equal *)
Theorem C04_nerode_classes_exact : forall a, aut_wf a ->
  exists cls, nerode_classes a = Some cls /\ length cls = num_states a /\
    forall s t, s < num_states a -> t < num_states a ->
      (nth s cls 0 = nth t cls 0 <-> forall w, goodw w -> acc a s w = acc a t w).
Proof. exact c04_nerode_classes. Qed.
Print Assumptions C04_nerode_classes_exact.

(* collapsed answers (never None) true exactly when no two distinct states are language-equivalent *)
Theorem C04_collapsed_exact : forall a, aut_wf a ->
  collapsed a <> None /\
  (collapsed a = Some true <->
   forall s t, s < num_states a -> t < num_states a -> (forall w, goodw w -> acc a s w = acc a t w) -> s = t).
Proof. exact c04_collapsed. Qed.
Print Assumptions C04_collapsed_exact.

(* nerode_index = the number of distinct residual languages among the states: there is a list of that
   many states, pairwise inequivalent, containing a representative of every state *)
Theorem C04_nerode_index_exact : forall a, aut_wf a ->
  exists k reps, nerode_index a = Some k /\ length reps = k /\
    NoDup reps /\ (forall r, In r reps -> r < num_states a) /\
    (forall r r', In r reps -> In r' reps -> lang_equiv_states a r a r' -> r = r') /\
    (forall s, s < num_states a -> exists r, In r reps /\ lang_equiv_states a s a r).
Proof. exact c04_nerode_index. Qed.
Print Assumptions C04_nerode_index_exact.

(* Myhill-Nerode minimality: a collapsed automaton all of whose states are reachable has at most as
   many states as any complete DFA of the same language *)
Theorem C04_minimal_when_connected : forall a b, aut_wf a -> aut_wf b ->
  collapsed a = Some true -> all_reachable a -> dfa_equiv a b = Some true -> num_states a <= num_states b.
Proof. exact c04_minimal_when_connected. Qed.
Print Assumptions C04_minimal_when_connected.

(* the same without oracles *)
Theorem C04_minimal_when_connected_sem : forall a b, aut_wf a -> aut_wf b ->
  no_equiv_states a -> all_reachable a -> same_language a b -> num_states a <= num_states b.
Proof. exact collapsed_connected_minimal_sem. Qed.
Print Assumptions C04_minimal_when_connected_sem.

(* for an input all of whose states are reachable, nerode_index is the Myhill-Nerode index of the
   language: a lower bound for every complete DFA of the language ... *)
Theorem C04_index_lower_bound : forall A C k, aut_wf A -> aut_wf C ->
  all_reachable A -> same_language A C -> nerode_index A = Some k -> k <= num_states C.
Proof. exact c04_index_lower_bound. Qed.
Print Assumptions C04_index_lower_bound.

(* ... attained by every collapsed, connected automaton of the language *)
Theorem C04_index_attained : forall A B, aut_wf A -> aut_wf B ->
  same_language A B -> no_equiv_states B -> all_reachable A -> all_reachable B ->
  nerode_index A = Some (num_states B).
Proof. exact c04_index_attained. Qed.
Print Assumptions C04_index_attained.

(* quotients: a map h of the states of A onto the states of Q that respects finality and commutes
   with the transitions (what from_partition + remap_nodes build from a stable partition that respects
   finality) preserves every residual language; if moreover h identifies all language-equivalent
   states, Q has no two equivalent states *)
Theorem C04_quotient_lang : forall A Q (h : nat -> nat), aut_wf A ->
  (forall s, s < num_states A -> a_is_final Q (h s) = a_is_final A s) ->
  (forall s c s', s < num_states A -> good c -> a_step A s c = Some s' -> a_step Q (h s) c = Some (h s')) ->
  forall s, s < num_states A -> lang_equiv_states A s Q (h s).
Proof. exact quotient_lang. Qed.
Print Assumptions C04_quotient_lang.

Theorem C04_stable_coarse_is_nerode : forall A Q (h : nat -> nat), aut_wf A ->
  (forall s, s < num_states A -> a_is_final Q (h s) = a_is_final A s) ->
  (forall s c s', s < num_states A -> good c -> a_step A s c = Some s' -> a_step Q (h s) c = Some (h s')) ->
  (forall q, q < num_states Q -> exists s, s < num_states A /\ h s = q) ->
  (forall s t, s < num_states A -> t < num_states A -> lang_equiv_states A s A t -> h s = h t) ->
  no_equiv_states Q.
Proof. exact stable_coarse_is_nerode. Qed.
Print Assumptions C04_stable_coarse_is_nerode.

(* the reachable oracle (BFS over successor vector + default) computes exactly the states reached by
   good words, provided no state declares a default it can never take ([strict_defaults]: a default
   only where the complementary class is not empty; true of everything build and minimize produce) *)
Theorem C04_reachable_exact : forall a s, aut_wf a -> strict_defaults a ->
  (In s (reachable a) <-> s < num_states a /\ exists w, goodw w /\ run a (initial a) w = Some s).
Proof. exact reachable_spec. Qed.
Print Assumptions C04_reachable_exact.

Theorem C04_reachable_all : forall a, aut_wf a -> strict_defaults a ->
  ((forall s, s < num_states a -> In s (reachable a)) <-> all_reachable a).
Proof. exact reachable_all. Qed.
Print Assumptions C04_reachable_all.

Theorem C04_strict_defaults_check : forall a, length (astates a) = num_states a ->
  (strict_defaultsb a = true <-> strict_defaults a).
Proof. exact strict_defaultsb_iff. Qed.
Print Assumptions C04_strict_defaults_check.

(* without that proviso the oracle over-approximates: aut_wfb accepts an automaton whose state 0 covers
   every character and still declares default 2; reachable lists state 2, no word reaches it *)
Example C04_reachable_dead_default_witness :
  aut_wfb dead_default_aut = true /\ reachable dead_default_aut = [0; 1; 2] /\
  ~ reachable_state dead_default_aut 2 /\ ~ strict_defaults dead_default_aut.
Proof. exact reachable_dead_default_witness. Qed.

(* ---- the property.
   Full statement (NOT proved):
     forall A, aut_wf A -> exists B, minimize A = Some B /\ aut_wf B /\ same_language A B /\
       no_equiv_states B /\ (all_reachable A -> forall C, aut_wf C -> same_language A C ->
       num_states B <= num_states C) /\ initial/final flags/num_final consistent.
   Proved (below): the verdicts of the per-run validation of the crate's output mean language equality
     and minimality -- whenever the four oracle checks succeed on an input A and an output B (the
     crate's, or the model's), B accepts exactly the good words A accepts, no two distinct states of B
     have the same residual language, B has exactly one state per residual language of the states of A,
     B has the minimum number of states among all complete DFAs of the language as soon as all states
     of A (or all states of B) are reachable, and the initial state, finality flags and
     num_final_states of B are consistent.
   Missing: a proof that the faithful Hopcroft model Minimizer.minimize always produces such an output
     (i.e. that the four checks succeed for every well-formed A); this tie is established per run by
     the validation itself (translation-validation style), not by a theorem. *)
Theorem C04_minimize_correct_partial : forall A B, aut_wf A -> aut_wfb B = true ->
  dfa_equiv A B = Some true -> collapsed B = Some true -> nerode_index A = Some (num_states B) ->
  same_language A B /\ no_equiv_states B /\
  (exists reps, length reps = num_states B /\ residual_reps A reps) /\
  (all_reachable A -> forall C, aut_wf C -> same_language A C -> num_states B <= num_states C) /\
  (all_reachable B -> forall C, aut_wf C -> same_language A C -> num_states B <= num_states C) /\
  initial B < num_states B /\
  num_final B = length (filter (fun s => a_is_final B s) (seq 0 (num_states B))) /\
  a_is_final A (initial A) = a_is_final B (initial B).
Proof. exact c04_validation_meaning. Qed.
Print Assumptions C04_minimize_correct_partial.

(* the three-verdict form of the task statement *)
Theorem C04_oracle_meaning_partial : forall A B, aut_wf A -> aut_wf B ->
  dfa_equiv A B = Some true -> collapsed B = Some true ->
  same_language A B /\ no_equiv_states B /\
  (all_reachable B -> forall C, aut_wf C -> same_language A C -> num_states B <= num_states C).
Proof. exact c04_oracle_meaning. Qed.
Print Assumptions C04_oracle_meaning_partial.

(* ---- non-vacuity: on a 6-state automaton built with the builder (two equivalent states, a cycle of
   two equivalent sinks) every premise of C04_minimize_correct_partial holds
   for the output of the faithful model, and the oracles do answer false where they should *)
Example C04_example :
  match build_unchecked ex_builder with
  | Some A =>
    match minimize A with
    | Some B =>
      aut_wfb A = true /\ aut_wfb B = true /\ num_states A = 6 /\ num_states B = 4 /\
      dfa_equiv A B = Some true /\ collapsed B = Some true /\ nerode_index A = Some (num_states B) /\
      nerode_classes A = Some [0; 1; 1; 2; 3; 2] /\ collapsed A = Some false /\
      dfa_equiv_from A A 1 2 = Some true /\ dfa_equiv_from A A 0 1 = Some false /\
      reachable B = [0; 1; 2; 3]
    | None => False
    end
  | None => False
  end.
Proof. vm_compute. repeat split; reflexivity. Qed.
