(* UPDATE: termination is now PROVED in Properties/C19t.v (C19_iter_terminates, C19_is_empty_re_terminates,
   C19_get_string_terminates, C19_compile_terminates, C19_try_compile_terminates): for every term owned by an
   API-reachable manager the exploration returns, with no divergence and no panic (after repair D11).  The
   completion hypotheses of the theorems below ("the run returns Some") are therefore always satisfiable; the
   remarks further down that call termination a gap describe the state before C19t.v existed. *)
(* C19 -- Derivative closure is enumerated exactly; try_compile honours its bound.

   "iter_derivatives(e) terminates, yields e first and then every distinct iterated derivative of
    e exactly once, and the yielded set is closed under char_derivative for every character.
    try_compile(e,n) returns an automaton exactly when that number of distinct derivatives is at
    most n (never for n = 0), compile(e) always succeeds, and the automaton returned has exactly
    that many states."

   Statements only; every proof is [exact <lemma>] (lemmas in ExploreProofs.v).  This file is the
   structural layer: the bookkeeping of the BFS worklists and of the derivative cache.  That a
   class derivative is the left quotient (so that "class derivative w.r.t. every class id" is
   "char_derivative for every character") is the semantic layer (C03) and is not used here.

   NOT PROVED (the reason for the suffix _partial):
     C19_iter_terminates : forall m e, wf m -> owned m e ->
                             exists fuel m' l, iter_derivatives fuel m e = Some (m', l).
   This is finiteness of the derivative closure under this crate's normal forms (Brzozowski's
   theorem for this similarity).  Every theorem named *_partial is stated under "the run returns
   Some"; the model returns None when fuel runs out, so the premise excludes non-termination
   openly.  Theorems without the suffix hold for every run, completed or not.

   Vocabulary.
   - Rust's == / Hash on RE are by id, so "the same term" is [rid a = rid b]; [inj_ids U] says
     that ids determine terms on U (true of the terms owned by one wf manager, ManagerProofs.id_inj;
     [owned_inj] gives it from a common id table).
   - [ids_desc r]: every subterm of r has a smaller id than its parent (hash-consing creates
     children first; ManagerProofs.wf_child, packaged by [ids_desc_of_child_lt]).  It is needed:
     the cache is keyed by id, and a term sharing its id with a subterm would overwrite the
     subterm's entry.
   - [cls_ok l]: the cached class partition of every term of l is a well-formed partition.
   - [cderiv m r cid d]: manager m answers "class derivative of r w.r.t. cid = d" from its cache;
     equivalently [cached_deriv r m cid = Some (m, d)] (C19_cache_answer).
   - [dreach m e r]: r is obtained from e by finitely many class derivatives answered by m.      *)
Require Import Base CharSet Partition PartitionSpec PartitionProofs LoopRange Regex Inclusion
  Constructors Deriv Explore Automaton Compile ExploreProofs.
Open Scope N_scope.

(* ---------------- the derivative cache only grows ---------------- *)

(* the smart constructors never touch the cache (one lemma per constructor in ExploreProofs.v) *)
Theorem C19_constructors_keep_cache :
  (forall m k m' r, make m k = Some (m', r) -> cache m' = cache m) /\
  (forall e1 m e2 m' r, concat e1 m e2 = Some (m', r) -> cache m' = cache m) /\
  (forall m e rg m' r, mk_loop m e rg = Some (m', r) -> cache m' = cache m) /\
  (forall m l m' r, inter_list m l = Some (m', r) -> cache m' = cache m) /\
  (forall m l m' r, union_list m l = Some (m', r) -> cache m' = cache m).
Proof. exact constructors_keep_cache. Qed.
Print Assumptions C19_constructors_keep_cache.

(* computing a derivative keeps every cache entry as it is, and touches no key whose id is above
   the term's id *)
Theorem C19_cached_deriv_cache_grows : forall e, ids_desc e ->
  forall m cid m1 r, cached_deriv e m cid = Some (m1, r) ->
    (forall i c x, cache_lookup i c (cache m) = Some x -> cache_lookup i c (cache m1) = Some x) /\
    (forall i c, rid e + 1 <= i -> cache_lookup i c (cache m1) = cache_lookup i c (cache m)).
Proof. exact cached_deriv_below. Qed.
Print Assumptions C19_cached_deriv_cache_grows.

(* a later manager returns the very same term, by a cache hit that leaves it unchanged *)
Theorem C19_cached_deriv_stable : forall e m cid m1 r m2,
  cached_deriv e m cid = Some (m1, r) -> cache_ext m1 m2 -> cached_deriv e m2 cid = Some (m2, r).
Proof. exact cached_deriv_stable. Qed.
Print Assumptions C19_cached_deriv_stable.

Theorem C19_cache_answer : forall m r cid d,
  cderiv m r cid d <-> cached_deriv r m cid = Some (m, d).
Proof. exact cderiv_iff. Qed.
Print Assumptions C19_cache_answer.

(* ---------------- iter_derivatives ---------------- *)

Theorem C19_iter_first : forall fuel m e m' l,
  iter_derivatives fuel m e = Some (m', l) -> exists t, l = e :: t.
Proof. exact iter_first. Qed.
Print Assumptions C19_iter_first.

(* exactly once: no two yielded terms are == *)
Theorem C19_iter_nodup : forall fuel m e m' l,
  iter_derivatives fuel m e = Some (m', l) -> NoDup (map rid l).
Proof. exact iter_nodup. Qed.
Print Assumptions C19_iter_nodup.

(* BfsQueue invariant: seen = reverse of (yielded ++ pending), which is duplicate-free; it holds
   initially and every DerivativeIterator::next step preserves it *)
Theorem C19_iter_seen :
  (forall e, bfs_inv [e] [e] []) /\
  (forall m r q s out m1 q1 s1, bfs_inv (r :: q) s out ->
     push_all_derivs m r (pclass_ids (rcls r)) q s = Some (m1, q1, s1) -> bfs_inv q1 s1 (out ++ [r])).
Proof. exact iter_seen. Qed.
Print Assumptions C19_iter_seen.

(* more fuel does not change a completed run; a completed run used one unit of fuel per yielded
   term plus one for the final pop of the empty queue *)
Theorem C19_iter_more_fuel : forall fuel fuel' m e x,
  iter_derivatives fuel m e = Some x -> (fuel <= fuel')%nat -> iter_derivatives fuel' m e = Some x.
Proof. exact iter_more_fuel. Qed.
Print Assumptions C19_iter_more_fuel.

Theorem C19_iter_count_fuel : forall fuel m e m' l,
  iter_derivatives fuel m e = Some (m', l) ->
  (length l < fuel)%nat /\ iter_derivatives (S (length l)) m e = Some (m', l).
Proof. exact iter_count_fuel. Qed.
Print Assumptions C19_iter_count_fuel.

(* closure: for every yielded r and every class id of r, the final manager answers the class
   derivative from its cache, unchanged, with a term == to a yielded one ... *)
Theorem C19_iter_closed_partial : forall fuel m e m' l,
  iter_derivatives fuel m e = Some (m', l) -> Forall ids_desc l ->
  forall r cid, In r l -> In cid (pclass_ids (rcls r)) ->
  exists d, cached_deriv r m' cid = Some (m', d) /\ In (rid d) (map rid l).
Proof. exact iter_closed. Qed.
Print Assumptions C19_iter_closed_partial.

(* ... which is a yielded term itself when ids determine terms *)
Theorem C19_iter_closed_in_partial : forall fuel m e m' l,
  iter_derivatives fuel m e = Some (m', l) -> Forall ids_desc l ->
  inj_ids (l ++ map snd (cache m')) ->
  forall r cid, In r l -> In cid (pclass_ids (rcls r)) ->
  exists d, cached_deriv r m' cid = Some (m', d) /\ In d l.
Proof. exact iter_closed_in. Qed.
Print Assumptions C19_iter_closed_in_partial.

(* soundness: every yielded term is an iterated class derivative of e *)
Theorem C19_iter_reachable_partial : forall fuel m e m' l,
  iter_derivatives fuel m e = Some (m', l) -> Forall ids_desc l ->
  forall r, In r l -> dreach m' e r.
Proof. exact iter_reachable. Qed.
Print Assumptions C19_iter_reachable_partial.

(* completeness: every iterated class derivative of e is yielded *)
Theorem C19_iter_complete_partial : forall fuel m e m' l,
  iter_derivatives fuel m e = Some (m', l) -> Forall ids_desc l ->
  inj_ids (l ++ map snd (cache m')) ->
  forall r, dreach m' e r -> In r l.
Proof. exact iter_complete. Qed.
Print Assumptions C19_iter_complete_partial.

(* ---- the same three facts in terms of characters and strings (partition facts of C11 turn
   class ids into characters; still no language semantics) ---- *)

(* closed under char_derivative for every character: a cache hit (manager unchanged) returning a
   term == to a yielded one ... *)
Theorem C19_iter_closed_char_partial : forall fuel m e m' l,
  iter_derivatives fuel m e = Some (m', l) -> Forall ids_desc l -> cls_ok l ->
  forall r c, In r l -> good c ->
  exists d, char_derivative m' r c = Some (m', d) /\ In (rid d) (map rid l).
Proof. exact iter_closed_char. Qed.
Print Assumptions C19_iter_closed_char_partial.

(* ... the very term the iterator yielded, when ids determine terms *)
Theorem C19_iter_closed_char_in_partial : forall fuel m e m' l,
  iter_derivatives fuel m e = Some (m', l) -> Forall ids_desc l -> cls_ok l ->
  inj_ids (l ++ map snd (cache m')) ->
  forall r c, In r l -> good c ->
  exists d, char_derivative m' r c = Some (m', d) /\ In d l.
Proof. exact iter_closed_char_in. Qed.
Print Assumptions C19_iter_closed_char_in_partial.

(* every yielded term is str_derivative e u for some well-formed u *)
Theorem C19_iter_reachable_str_partial : forall fuel m e m' l,
  iter_derivatives fuel m e = Some (m', l) -> Forall ids_desc l -> cls_ok l ->
  inj_ids (l ++ map snd (cache m')) ->
  forall r, In r l -> exists u, goodw u /\ str_derivative m' e u = Some (m', r).
Proof. exact iter_reachable_str. Qed.
Print Assumptions C19_iter_reachable_str_partial.

(* every iterated derivative str_derivative e u (u well-formed) is yielded *)
Theorem C19_iter_complete_str_partial : forall fuel m e m' l,
  iter_derivatives fuel m e = Some (m', l) -> Forall ids_desc l -> cls_ok l ->
  inj_ids (l ++ map snd (cache m')) ->
  forall u, goodw u -> exists d, str_derivative m' e u = Some (m', d) /\ In d l.
Proof. exact iter_complete_str. Qed.
Print Assumptions C19_iter_complete_str_partial.

(* the run only extends the cache of the manager it started from *)
Theorem C19_iter_cache_ext_partial : forall fuel m e m' l,
  iter_derivatives fuel m e = Some (m', l) -> Forall ids_desc l -> cache_ext m m'.
Proof. exact iter_cache_ext. Qed.
Print Assumptions C19_iter_cache_ext_partial.

(* is_empty_re = all(|x| !x.nullable) over the iterator: same answer as scanning the complete
   enumeration (it stops early, so its final manager may be an earlier one) *)
Theorem C19_is_empty_re_iter_partial : forall fuel m e m1 l,
  iter_derivatives fuel m e = Some (m1, l) ->
  exists m2, is_empty_re fuel m e = Some (m2, forallb (fun x => negb (rnul x)) l).
Proof. exact is_empty_re_iter. Qed.
Print Assumptions C19_is_empty_re_iter_partial.

(* ---------------- try_compile / compile ---------------- *)

(* never for n = 0, and the manager is not touched *)
Theorem C19_try_compile_zero : forall fuel m e, compile_with_bound fuel m e (Some 0%nat) = Some (m, None).
Proof. exact try_compile_zero. Qed.
Print Assumptions C19_try_compile_zero.

(* an automaton returned by try_compile(e, n) has at most n states, and n > 0 (no completion of
   any enumeration is assumed) *)
Theorem C19_try_compile_bound : forall fuel m e n m' A,
  compile_with_bound fuel m e (Some n) = Some (m', Some A) -> (0 < n /\ num_states A <= n)%nat.
Proof. exact try_compile_bound. Qed.
Print Assumptions C19_try_compile_bound.

(* compile (bound usize::MAX) never answers None *)
Theorem C19_compile_some : forall fuel m e m' oa,
  compile_with_bound fuel m e None = Some (m', oa) -> exists A, oa = Some A.
Proof. exact compile_some. Qed.
Print Assumptions C19_compile_some.

(* the automaton has exactly one state per yielded term, and compiling leaves the manager in the
   state in which the enumeration leaves it *)
Theorem C19_compile_num_states_partial : forall fuel fuel' m e m1 l m2 A,
  iter_derivatives fuel m e = Some (m1, l) -> cls_ok l ->
  compile_with_bound fuel' m e None = Some (m2, Some A) ->
  num_states A = length l /\ m2 = m1.
Proof. exact compile_states_are_iter. Qed.
Print Assumptions C19_compile_num_states_partial.

Theorem C19_try_compile_num_states_partial : forall fuel fuel' m e m1 l n m2 A,
  iter_derivatives fuel m e = Some (m1, l) -> cls_ok l ->
  compile_with_bound fuel' m e (Some n) = Some (m2, Some A) ->
  num_states A = length l /\ m2 = m1.
Proof. exact try_compile_states_are_iter. Qed.
Print Assumptions C19_try_compile_num_states_partial.

(* try_compile(e, n) returns an automaton exactly when at most n terms are yielded *)
Theorem C19_try_compile_some_iff_partial : forall fuel fuel' m e m1 l n m2 oa,
  iter_derivatives fuel m e = Some (m1, l) -> cls_ok l ->
  compile_with_bound fuel' m e (Some n) = Some (m2, oa) ->
  ((exists A, oa = Some A) <-> (length l <= n)%nat).
Proof. exact try_compile_some_iff. Qed.
Print Assumptions C19_try_compile_some_iff_partial.

(* "compile(e) always succeeds": once the enumeration completes, the loop of compile_with_bound
   completes on the same fuel (no unwrap() in it panics) with a builder of |l| states and the
   enumeration's final manager; all that remains is build_unchecked of that builder *)
Theorem C19_compile_succeeds_partial : forall fuel m e m1 l,
  iter_derivatives fuel m e = Some (m1, l) -> cls_ok l ->
  exists b, length (bstates b) = length l /\
    compile_with_bound fuel m e None =
      match build_unchecked b with Some a => Some (m1, Some a) | None => None end.
Proof. exact compile_of_iter. Qed.
Print Assumptions C19_compile_succeeds_partial.

Theorem C19_try_compile_decided_partial : forall fuel m e m1 l n,
  iter_derivatives fuel m e = Some (m1, l) -> cls_ok l ->
  if Nat.leb (length l) n
  then exists b, length (bstates b) = length l /\
         compile_with_bound fuel m e (Some n) =
           match build_unchecked b with Some a => Some (m1, Some a) | None => None end
  else exists m2, compile_with_bound fuel m e (Some n) = Some (m2, None).
Proof. exact try_compile_of_iter. Qed.
Print Assumptions C19_try_compile_decided_partial.

(* ---------------- non-vacuity: (a|b)* a b b ---------------- *)
Definition c19_ex : option (mgr * re) :=
  do (m1, a) <- mchar new_mgr 97;
  do (m2, b) <- mchar m1 98;
  do (m3, u) <- union m2 a b;
  do (m4, s) <- star m3 u;
  concat_list m4 [s; a; b; b].
Definition c19_run : option (mgr * re * mgr * list re) :=
  do (m, e) <- c19_ex; do (m', l) <- iter_derivatives 100 m e; Some (m, e, m', l).

(* the run completes with five terms and every premise used above holds of it *)
Example C19_example_premises :
  match c19_run with
  | Some (m, e, m', l) =>
      iter_derivatives 100 m e = Some (m', l) /\ map rid l = [18; 20; 2; 22; 24] /\
      Forall ids_desc l /\ cls_ok l /\ inj_ids (l ++ map snd (cache m'))
  | None => False
  end.
Proof.
  destruct c19_run as [[[[m e] m'] l]|] eqn:E; [|vm_compute in E; discriminate].
  assert (X : c19_run = Some (m, e, m', l)) by exact E.
  vm_compute in E. inversion E; subst. clear E.
  split; [vm_compute; reflexivity|]. split; [vm_compute; reflexivity|].
  split; [apply ids_desc_all_b; vm_compute; reflexivity|].
  split; [apply cls_ok_b; vm_compute; reflexivity|].
  match goal with |- inj_ids (?l ++ map snd (cache ?mm)) => apply (owned_inj mm) end.
  cbn [cache map snd app].
  repeat (constructor; [vm_compute; reflexivity|]). constructor.
Qed.

(* the observations of the property on that term: 5 states, bound 4 refused, bound 5 accepted,
   bound 0 refused; not empty *)
Example C19_example_compile :
  match c19_ex with
  | Some (m, e) =>
      option_map (fun x => option_map num_states (snd x)) (compile_with_bound 100 m e None) = Some (Some 5%nat) /\
      option_map (fun x => option_map num_states (snd x)) (compile_with_bound 100 m e (Some 4%nat)) = Some None /\
      option_map (fun x => option_map num_states (snd x)) (compile_with_bound 100 m e (Some 5%nat)) = Some (Some 5%nat) /\
      option_map (fun x => option_map num_states (snd x)) (compile_with_bound 100 m e (Some 0%nat)) = Some None /\
      option_map snd (is_empty_re 100 m e) = Some false
  | None => False
  end.
Proof. vm_compute. repeat split. Qed.
