(* CompileProofs.v -- C02: the automaton returned by compile / try_compile is a total DFA whose
   state k is the k-th derivative enumerated by the BFS and which accepts exactly L(e).
   Proved about the executable model Compile.v (compile_with_bound = BFS over derivatives driving
   the AutomatonBuilder, then build_unchecked).

   Everything except compile_returns_of_iter is stated under
   "compile_with_bound fuel m e bound = Some (m', Some A)", i.e. for every automaton that is
   returned.  That the BFS terminates (finitely many derivatives) is NOT proved here;
   compile_returns_of_iter reduces "compile returns" to "the iterator's enumeration completes".

   Contents
     c2_step_ops / c2_hist      the builder calls made for one popped term / for the whole run
     c2_ranges, c2_step, c2_go  the loop, with the manager invariant dwf threaded: the loop runs the
                                iterator's BFS (ExploreProofs), every term met is owned by the final
                                manager, and the final builder is run_history (c2_hist m' e l)
     c2_hist_*                  labels / default / final mark / names of that history
     c2_hist_strict             the history is a strict specification (labels = a pwf partition,
                                default declared iff the complement is non-empty)
     build_ok_unchecked         build = Ok A  ->  build_unchecked = Some A
     c2_builder_core, compiled_builder, compiled_builder_history
                                characterisation of the builder; build_unchecked succeeds and
                                agrees with the checked build
     compiled_state_is_derivative, compiled_run, compiled_accepts, compiled_rejects,
     compiled_total             the semantic theorems of C02 (simulation with str_derivative)
     build_ok_wf, build_history_wf, compiled_wf
                                the state array of an automaton returned by build is well formed
     compiled_program           program level: accepts exactly denote p
     compile_correct, try_compile_correct
                                the two entry points, all clauses at once
     compile_returns_of_iter    enumeration completes => compile returns (uses EmptinessProofs.iter_cls_ok) *)
Require Import Base CharSet CharSetProofs Partition PartitionSpec PartitionProofs LoopRange Regex.
Require Import Inclusion Constructors Deriv Explore Automaton Compile Denote Lang Sem.
Require Import ManagerProofs RunProofs BuilderSpec.
Require AutomatonProofs.
Require Import BuilderProofs DerivProofs ExploreProofs.
Require EmptinessProofs.   (* qualified use only: iter_cls_ok *)
Open Scope nat_scope.

(* ------------------------------------------------------------------------------------------ *)
(** * 1. The builder calls of the loop *)

(* the class derivative of r the manager M answers from its cache (r itself if there is none) *)
Definition c2_cd (M : mgr) (r : re) (cid : classid) : re :=
  match cache_lookup (rid r) cid (cache M) with Some d => d | None => r end.
(* one add_transition per interval, the i-th interval going to the derivative for class Interval(i) *)
Fixpoint c2_range_ops (M : mgr) (r : re) (i : nat) (sets : list cs) : list bop :=
  match sets with
  | [] => []
  | set :: t => BAdd (rid r) set (rid (c2_cd M r (CInt i))) :: c2_range_ops M r (S i) t
  end.
Fixpoint c2_range_labels (M : mgr) (r : re) (i : nat) (sets : list cs) : list (cs * N) :=
  match sets with
  | [] => []
  | set :: t => (set, rid (c2_cd M r (CInt i))) :: c2_range_labels M r (S i) t
  end.
Definition c2_def_ops (M : mgr) (r : re) : list bop :=
  if pempty_complement (rcls r) then [] else [BDef (rid r) (rid (c2_cd M r CComp))].
Definition c2_fin_ops (r : re) : list bop := if rnul r then [BFin (rid r)] else [].
(* the calls made while r is the popped term *)
Definition c2_step_ops (M : mgr) (r : re) : list bop :=
  c2_range_ops M r 0 (ivs (rcls r)) ++ c2_def_ops M r ++ c2_fin_ops r.
(* the whole run: new(e), then the calls for every yielded term in BFS order *)
Definition c2_hist (M : mgr) (e : re) (l : list re) : list bop :=
  BNew (rid e) :: flat_map (c2_step_ops M) l.

Lemma c2_owned_ids_desc m e : wf m -> owned m e -> ids_desc e.
Proof.
  intros W. apply (ids_desc_of_child_lt (owned m)). intros x c Ox Hc. exact (wf_child m W x c Ox Hc).
Qed.

Lemma c2_cpush_owned m d q s : owned m d -> Forall (owned m) s -> Forall (owned m) (snd (cpush d q s)).
Proof. intros Od Os. unfold cpush. destruct (existsb (re_eqb d) s); cbn [snd]; auto. Qed.

Lemma c2_forall_ext m m' l : ext m m' -> Forall (owned m) l -> Forall (owned m') l.
Proof. intros X. apply Forall_impl. intros a. apply ext_owned. exact X. Qed.

Lemma c2_ranges e : forall sets i m q s b m1 q1 s1 b1,
  compile_ranges m e sets i q s b = Some (m1, q1, s1, b1) ->
  dwf m -> owned m e -> Forall (owned m) s ->
  (forall j set, nth_error sets j = Some set -> nth_error (ivs (rcls e)) (i + j) = Some set) ->
  dwf m1 /\ ext m m1 /\ cache_ext m m1 /\ Forall (owned m1) s1 /\
  forall M, cache_ext m1 M -> b1 = fold_left run_bop (c2_range_ops M e i sets) b.
Proof.
  induction sets as [|set t IH]; intros i m q s b m1 q1 s1 b1 H Dm Oe Os Hn.
  - cbn in H. inversion H; subst. split; [exact Dm|]. split; [apply ext_refl|].
    split; [apply cache_ext_refl|]. split; [exact Os|]. intros M _. reflexivity.
  - rewrite compile_ranges_unfold in H.
    pose proof (cls_wf_owned merge_ok_holds m e (proj1 Dm) Oe) as Hp.
    assert (Hi : nth_error (ivs (rcls e)) i = Some set).
    { rewrite <- (Nat.add_0_r i). apply Hn. reflexivity. }
    rewrite (pclass_of_set_own _ _ _ Hp Hi) in H.
    destruct (cached_deriv e m (CInt i)) as [[m2 d]|] eqn:E; [|discriminate].
    assert (Hv : pvalid (rcls e) (CInt i) = true).
    { cbn [pvalid]. apply Nat.ltb_lt. unfold plen. apply nth_error_Some. congruence. }
    destruct (cached_deriv_correct merge_ok_holds inclusion_sound_holds e m (CInt i) m2 d
                (proj1 Dm) (proj2 Dm) Oe Hv E) as (D2 & X2 & Od & _).
    pose proof (cached_deriv_ext e m (CInt i) m2 d (c2_owned_ids_desc m e (proj1 Dm) Oe) E) as C2.
    pose proof (cached_deriv_lookup e m (CInt i) m2 d E) as L2.
    apply IH in H.
    + destruct H as (D1 & X1 & C1 & O1 & B1). split; [exact D1|].
      split; [eapply ext_trans; eauto|]. split; [eapply cache_ext_trans; eauto|]. split; [exact O1|].
      intros M CM. cbn [c2_range_ops fold_left run_bop]. unfold c2_cd at 1.
      rewrite (CM _ _ _ (C1 _ _ _ L2)). apply B1. exact CM.
    + exact D2.
    + eapply ext_owned; eauto.
    + apply c2_cpush_owned; [exact Od|]. eapply c2_forall_ext; eauto.
    + intros j set' Hj. rewrite <- (Hn (S j) set' Hj). f_equal. lia.
Qed.

Lemma c2_step m e q s b m2 q2 s2 b2 :
  compile_step m e q s b = Some (m2, q2, s2, b2) ->
  dwf m -> owned m e -> Forall (owned m) s ->
  dwf m2 /\ ext m m2 /\ cache_ext m m2 /\ Forall (owned m2) s2 /\
  forall M, cache_ext m2 M -> b2 = fold_left run_bop (c2_step_ops M e) b.
Proof.
  unfold compile_step. intros H Dm Oe Os.
  destruct (compile_ranges m e (ivs (rcls e)) 0 q s b) as [[[[m1 q1] s1] b1]|] eqn:E; [|discriminate].
  apply c2_ranges in E; auto. destruct E as (D1 & X1 & C1 & O1 & B1).
  assert (G : forall m3 q3 s3 b3,
    dwf m3 -> ext m m3 -> cache_ext m1 m3 -> Forall (owned m3) s3 ->
    (forall M, cache_ext m3 M -> b3 = fold_left run_bop (c2_def_ops M e) b1) ->
    Some (m2, q2, s2, b2) = Some (m3, q3, s3, if rnul e then b_mark_final b3 (rid e) else b3) ->
    dwf m2 /\ ext m m2 /\ cache_ext m m2 /\ Forall (owned m2) s2 /\
    forall M, cache_ext m2 M -> b2 = fold_left run_bop (c2_step_ops M e) b).
  { intros m3 q3 s3 b3 D3 X3 C3 O3 B3 W. inversion W; subst m3 q3 s3 b2. clear W.
    split; [exact D3|]. split; [exact X3|]. split; [eapply cache_ext_trans; eauto|]. split; [exact O3|].
    intros M CM. unfold c2_step_ops. rewrite !fold_left_app.
    rewrite <- (B1 M (cache_ext_trans _ _ _ C3 CM)). rewrite <- (B3 M CM).
    unfold c2_fin_ops. destruct (rnul e); reflexivity. }
  destruct (pempty_complement (rcls e)) eqn:Ep.
  - apply (G m1 q1 s1 b1); auto using cache_ext_refl.
    intros M _. unfold c2_def_ops. rewrite Ep. reflexivity.
  - destruct (cached_deriv e m1 CComp) as [[m3 d]|] eqn:Ed; [|discriminate].
    pose proof (ext_owned _ _ _ X1 Oe) as Oe1.
    assert (Hv : pvalid (rcls e) CComp = true) by (cbn [pvalid]; rewrite Ep; reflexivity).
    destruct (cached_deriv_correct merge_ok_holds inclusion_sound_holds e m1 CComp m3 d
                (proj1 D1) (proj2 D1) Oe1 Hv Ed) as (D3 & X3 & Od & _).
    pose proof (cached_deriv_ext e m1 CComp m3 d (c2_owned_ids_desc m1 e (proj1 D1) Oe1) Ed) as C3.
    pose proof (cached_deriv_lookup e m1 CComp m3 d Ed) as L3.
    apply (G m3 (fst (cpush d q1 s1)) (snd (cpush d q1 s1)) (b_set_default b1 (rid e) (rid d))); auto.
    + eapply ext_trans; eauto.
    + apply c2_cpush_owned; [exact Od|]. eapply c2_forall_ext; eauto.
    + intros M CM. unfold c2_def_ops. rewrite Ep. cbn [fold_left run_bop]. unfold c2_cd.
      rewrite (CM _ _ _ L3). reflexivity.
Qed.

Lemma c2_go f : forall m q s b count mx out m' b',
  compile_go f m q s b count mx = Some (m', Some b') ->
  dwf m -> Forall (owned m) s -> bfs_inv q s out -> ExploreProofs.binv b s ->
  exists l', iter_go f m q s out = Some (m', out ++ l') /\ dwf m' /\ ext m m' /\ cache_ext m m' /\
    Forall (owned m') (out ++ l') /\ bkeys b' = map rid (out ++ l') /\
    forall M, cache_ext m' M -> b' = fold_left run_bop (flat_map (c2_step_ops M) l') b.
Proof.
  induction f as [|f IH]; intros m q s b count mx out m' b' H Dm Os Hbfs Hb; [discriminate|].
  destruct q as [|e q].
  - cbn [compile_go] in H. inversion H; subst m' b'. exists []. cbn [iter_go]. rewrite app_nil_r.
    destruct Hbfs as [Hs _]. rewrite app_nil_r in Hs.
    split; [reflexivity|]. split; [exact Dm|]. split; [apply ext_refl|]. split; [apply cache_ext_refl|].
    split; [|split].
    + rewrite Forall_forall in *. intros x Hx. apply Os. rewrite Hs. apply -> in_rev. exact Hx.
    + destruct Hb as [K _]. rewrite K, Hs, map_rev, rev_involutive. reflexivity.
    + intros M _. reflexivity.
  - rewrite compile_go_unfold in H. destruct (Nat.eqb count mx); [discriminate|].
    destruct (compile_step m e q s b) as [[[[m2 q2] s2] b2]|] eqn:E; [|discriminate].
    assert (Hes : In e s).
    { destruct Hbfs as [Hs _]. rewrite Hs. apply -> in_rev. apply in_or_app. right. left. reflexivity. }
    assert (He : In (rid e) (map rid s)) by (apply in_map; exact Hes).
    assert (Oe : owned m e) by (rewrite Forall_forall in Os; apply Os; exact Hes).
    pose proof (cls_wf_owned merge_ok_holds m e (proj1 Dm) Oe) as Hp.
    pose proof (compile_step_push m e q s b Hp) as P. rewrite E in P. cbn [option_map drop_builder] in P.
    pose proof (compile_step_struct _ _ _ _ _ _ _ _ _ E He Hb) as [_ Hb2].
    pose proof (push_all_bfs_inv _ _ _ _ _ _ _ _ _ Hbfs (eq_sym P)) as Hbfs2.
    destruct (c2_step _ _ _ _ _ _ _ _ _ E Dm Oe Os) as (D2 & X2 & C2 & O2 & B2).
    destruct (IH _ _ _ _ _ _ _ _ _ H D2 O2 Hbfs2 Hb2) as (l' & I1 & D' & X' & C' & O' & K' & B').
    exists (e :: l'). cbn [iter_go]. rewrite <- P. cbn [bind].
    replace (out ++ e :: l') with ((out ++ [e]) ++ l') by (rewrite <- app_assoc; reflexivity).
    split; [exact I1|]. split; [exact D'|]. split; [eapply ext_trans; eauto|].
    split; [eapply cache_ext_trans; eauto|]. split; [exact O'|]. split; [exact K'|].
    intros M CM. cbn [flat_map]. rewrite fold_left_app.
    rewrite <- (B2 M (cache_ext_trans _ _ _ C' CM)). apply B'. exact CM.
Qed.

(* ------------------------------------------------------------------------------------------ *)
(** * 2. What the history says about each term *)

Lemma c2_h_labels_app h1 h2 k : h_labels (h1 ++ h2) k = h_labels h1 k ++ h_labels h2 k.
Proof. unfold h_labels. apply flat_map_app. Qed.

Definition c2_dstep (k : N) (d : option N) (o : bop) : option N :=
  match o with BDef k1 k' => if N.eqb k1 k then Some k' else d | _ => d end.
Lemma c2_h_default_eq h k : h_default h k = fold_left (c2_dstep k) h None.
Proof. reflexivity. Qed.
Definition c2_finp (k : N) (o : bop) : bool := match o with BFin k1 => N.eqb k1 k | _ => false end.
Lemma c2_h_final_eq h k : h_final h k = existsb (c2_finp k) h.
Proof. reflexivity. Qed.

Lemma c2_range_labels_fst M r : forall sets i, map fst (c2_range_labels M r i sets) = sets.
Proof. induction sets as [|s t IH]; intros i; cbn [c2_range_labels map fst]; [reflexivity|]. rewrite IH. reflexivity. Qed.

Lemma c2_range_labels_nth M r : forall sets i j set, nth_error sets j = Some set ->
  In (set, rid (c2_cd M r (CInt (i + j)))) (c2_range_labels M r i sets).
Proof.
  induction sets as [|s t IH]; intros i j set H; [destruct j; discriminate|].
  destruct j as [|j]; cbn [nth_error] in H; cbn [c2_range_labels].
  - inversion H; subst. rewrite Nat.add_0_r. left. reflexivity.
  - right. replace (i + S j) with (S i + j) by lia. apply IH. exact H.
Qed.

Lemma c2_labels_range M r k : forall sets i,
  h_labels (c2_range_ops M r i sets) k = if N.eqb (rid r) k then c2_range_labels M r i sets else [].
Proof.
  induction sets as [|s t IH]; intros i; cbn [c2_range_ops c2_range_labels].
  - destruct (N.eqb (rid r) k); reflexivity.
  - change (h_labels (BAdd (rid r) s (rid (c2_cd M r (CInt i))) :: c2_range_ops M r (S i) t) k)
      with ((if N.eqb (rid r) k then [(s, rid (c2_cd M r (CInt i)))] else []) ++ h_labels (c2_range_ops M r (S i) t) k).
    rewrite IH. destruct (N.eqb (rid r) k); reflexivity.
Qed.
Lemma c2_labels_step M r k :
  h_labels (c2_step_ops M r) k = if N.eqb (rid r) k then c2_range_labels M r 0 (ivs (rcls r)) else [].
Proof.
  unfold c2_step_ops. rewrite !c2_h_labels_app, c2_labels_range.
  assert (E1 : h_labels (c2_def_ops M r) k = []) by (unfold c2_def_ops; destruct (pempty_complement (rcls r)); reflexivity).
  assert (E2 : h_labels (c2_fin_ops r) k = []) by (unfold c2_fin_ops; destruct (rnul r); reflexivity).
  rewrite E1, E2, !app_nil_r. reflexivity.
Qed.
Lemma c2_labels_notin M k : forall l, ~ In k (map rid l) -> h_labels (flat_map (c2_step_ops M) l) k = [].
Proof.
  induction l as [|a t IH]; intros H; [reflexivity|]. cbn [flat_map]. rewrite c2_h_labels_app, c2_labels_step.
  cbn [map In] in H. destruct (N.eqb_spec (rid a) k) as [Ek|Ek]; [tauto|]. rewrite IH by tauto. reflexivity.
Qed.
Lemma c2_labels_in M : forall l r, NoDup (map rid l) -> In r l ->
  h_labels (flat_map (c2_step_ops M) l) (rid r) = c2_range_labels M r 0 (ivs (rcls r)).
Proof.
  induction l as [|a t IH]; intros r Hn Hr; [destruct Hr|]. cbn [map] in Hn. inversion Hn as [|? ? Hna Hnt]; subst.
  cbn [flat_map]. rewrite c2_h_labels_app, c2_labels_step. destruct Hr as [->|Hr].
  - rewrite N.eqb_refl, c2_labels_notin by exact Hna. apply app_nil_r.
  - destruct (N.eqb_spec (rid a) (rid r)) as [Ek|Ek].
    + exfalso. apply Hna. rewrite Ek. apply in_map. exact Hr.
    + cbn [app]. apply IH; auto.
Qed.

Lemma c2_dfold_range M r k : forall sets i d, fold_left (c2_dstep k) (c2_range_ops M r i sets) d = d.
Proof. induction sets as [|s t IH]; intros i d; cbn [c2_range_ops fold_left c2_dstep]; auto. Qed.
Lemma c2_dfold_step M r k d :
  fold_left (c2_dstep k) (c2_step_ops M r) d =
  if N.eqb (rid r) k && negb (pempty_complement (rcls r)) then Some (rid (c2_cd M r CComp)) else d.
Proof.
  unfold c2_step_ops. rewrite !fold_left_app, c2_dfold_range.
  assert (E2 : forall d', fold_left (c2_dstep k) (c2_fin_ops r) d' = d') by (intros d'; unfold c2_fin_ops; destruct (rnul r); reflexivity).
  rewrite E2. unfold c2_def_ops. destruct (pempty_complement (rcls r)); cbn [fold_left c2_dstep negb].
  - rewrite andb_false_r. reflexivity.
  - rewrite andb_true_r. reflexivity.
Qed.
Lemma c2_dfold_notin M k : forall l d, ~ In k (map rid l) -> fold_left (c2_dstep k) (flat_map (c2_step_ops M) l) d = d.
Proof.
  induction l as [|a t IH]; intros d H; [reflexivity|]. cbn [flat_map]. rewrite fold_left_app, c2_dfold_step.
  cbn [map In] in H. destruct (N.eqb_spec (rid a) k) as [Ek|Ek]; [tauto|]. cbn [andb]. apply IH. tauto.
Qed.
Lemma c2_dfold_in M : forall l r d, NoDup (map rid l) -> In r l ->
  fold_left (c2_dstep (rid r)) (flat_map (c2_step_ops M) l) d =
  if pempty_complement (rcls r) then d else Some (rid (c2_cd M r CComp)).
Proof.
  induction l as [|a t IH]; intros r d Hn Hr; [destruct Hr|]. cbn [map] in Hn. inversion Hn as [|? ? Hna Hnt]; subst.
  cbn [flat_map]. rewrite fold_left_app, c2_dfold_step. destruct Hr as [->|Hr].
  - rewrite N.eqb_refl, c2_dfold_notin by exact Hna. cbn [andb]. destruct (pempty_complement (rcls r)); reflexivity.
  - destruct (N.eqb_spec (rid a) (rid r)) as [Ek|Ek].
    + exfalso. apply Hna. rewrite Ek. apply in_map. exact Hr.
    + cbn [andb]. apply IH; auto.
Qed.

Lemma c2_fin_range M r k : forall sets i, existsb (c2_finp k) (c2_range_ops M r i sets) = false.
Proof. induction sets as [|s t IH]; intros i; cbn [c2_range_ops existsb c2_finp orb]; auto. Qed.
Lemma c2_fin_step M r k : existsb (c2_finp k) (c2_step_ops M r) = N.eqb (rid r) k && rnul r.
Proof.
  unfold c2_step_ops. rewrite !existsb_app, c2_fin_range.
  assert (E1 : existsb (c2_finp k) (c2_def_ops M r) = false) by (unfold c2_def_ops; destruct (pempty_complement (rcls r)); reflexivity).
  rewrite E1. cbn [orb]. unfold c2_fin_ops. destruct (rnul r); cbn [existsb c2_finp orb].
  - rewrite orb_false_r, andb_true_r. reflexivity.
  - rewrite andb_false_r. reflexivity.
Qed.
Lemma c2_fin_notin M k : forall l, ~ In k (map rid l) -> existsb (c2_finp k) (flat_map (c2_step_ops M) l) = false.
Proof.
  induction l as [|a t IH]; intros H; [reflexivity|]. cbn [flat_map]. rewrite existsb_app, c2_fin_step.
  cbn [map In] in H. destruct (N.eqb_spec (rid a) k) as [Ek|Ek]; [tauto|]. cbn [andb orb]. apply IH. tauto.
Qed.
Lemma c2_fin_in M : forall l r, NoDup (map rid l) -> In r l ->
  existsb (c2_finp (rid r)) (flat_map (c2_step_ops M) l) = rnul r.
Proof.
  induction l as [|a t IH]; intros r Hn Hr; [destruct Hr|]. cbn [map] in Hn. inversion Hn as [|? ? Hna Hnt]; subst.
  cbn [flat_map]. rewrite existsb_app, c2_fin_step. destruct Hr as [->|Hr].
  - rewrite N.eqb_refl, c2_fin_notin by exact Hna. cbn [andb]. apply orb_false_r.
  - destruct (N.eqb_spec (rid a) (rid r)) as [Ek|Ek].
    + exfalso. apply Hna. rewrite Ek. apply in_map. exact Hr.
    + cbn [andb orb]. apply IH; auto.
Qed.

(* the three readings of the history at the name of a yielded term *)
Lemma c2_hist_labels M e l r : NoDup (map rid l) -> In r l ->
  h_labels (c2_hist M e l) (rid r) = c2_range_labels M r 0 (ivs (rcls r)).
Proof. intros Hn Hr. unfold c2_hist. change (h_labels (BNew (rid e) :: ?x) ?k) with (h_labels x k). apply c2_labels_in; auto. Qed.
Lemma c2_hist_default M e l r : NoDup (map rid l) -> In r l ->
  h_default (c2_hist M e l) (rid r) =
  if pempty_complement (rcls r) then None else Some (rid (c2_cd M r CComp)).
Proof. intros Hn Hr. rewrite c2_h_default_eq. unfold c2_hist. cbn [fold_left c2_dstep]. apply c2_dfold_in; auto. Qed.
Lemma c2_hist_final M e l r : NoDup (map rid l) -> In r l -> h_final (c2_hist M e l) (rid r) = rnul r.
Proof. intros Hn Hr. rewrite c2_h_final_eq. unfold c2_hist. cbn [existsb c2_finp orb]. apply c2_fin_in; auto. Qed.
Lemma c2_hist_hl M e l r : NoDup (map rid l) -> In r l -> hl (c2_hist M e l) (rid r) = ivs (rcls r).
Proof. intros Hn Hr. unfold hl. rewrite c2_hist_labels by auto. apply c2_range_labels_fst. Qed.

Lemma c2_range_ops_ok M r : forall sets i, Forall cs_valid sets -> ops_ok (c2_range_ops M r i sets).
Proof.
  induction sets as [|s t IH]; intros i H; cbn [c2_range_ops]; [constructor|].
  inversion H; subst. constructor; [assumption|]. apply IH. assumption.
Qed.
Lemma c2_step_ops_ok M r : pwf (rcls r) -> ops_ok (c2_step_ops M r).
Proof.
  intros Hp. unfold c2_step_ops, ops_ok. rewrite !Forall_app. split; [|split].
  - apply c2_range_ops_ok. apply sorted_Forall_valid. apply pwf_sorted. exact Hp.
  - unfold c2_def_ops. destruct (pempty_complement (rcls r)); repeat constructor.
  - unfold c2_fin_ops. destruct (rnul r); repeat constructor.
Qed.
Lemma c2_ops_ok M l : cls_ok l -> ops_ok (flat_map (c2_step_ops M) l).
Proof.
  unfold cls_ok. induction 1 as [|a t Ha _ IH]; cbn [flat_map]; [constructor|].
  apply Forall_app. split; [apply c2_step_ops_ok; exact Ha|exact IH].
Qed.

Lemma c2_cover_all p : pwf p -> labels_cover_all (ivs p) = pempty_complement p.
Proof.
  intros Hp. apply eq_true_iff_eq. rewrite (pempty_complement_iff p Hp), labels_cover_all_iff. tauto.
Qed.

(* each state's labels are the intervals of a well-formed partition and its default is declared
   exactly when the complementary class is non-empty: the specification is strict *)
Lemma c2_hist_strict M e l : NoDup (map rid l) -> cls_ok l -> h_names (c2_hist M e l) = map rid l ->
  spec_strict (c2_hist M e l) = true.
Proof.
  intros Hn Hcl Hnames. unfold spec_strict. rewrite Hnames. apply forallb_forall. intros k Hk.
  apply in_map_iff in Hk. destruct Hk as [r [<- Hr]].
  unfold cls_ok in Hcl. rewrite Forall_forall in Hcl. pose proof (Hcl r Hr) as Hp.
  unfold state_strict_ok. fold (hl (c2_hist M e l) (rid r)). rewrite c2_hist_hl by auto.
  rewrite (c2_cover_all _ Hp), c2_hist_default by auto.
  rewrite (proj2 (labels_disjoint_iff _) (sorted_pairwise_disjoint _ (pwf_sorted _ Hp))).
  destruct (pempty_complement (rcls r)); reflexivity.
Qed.

(* ------------------------------------------------------------------------------------------ *)
(** * 3. build_unchecked agrees with build whenever build accepts *)

Lemma c2_bsc_unchecked l : forall i sts, build_states_checked l i = Some (Datatypes.inr sts) -> build_states l i = Some sts.
Proof.
  induction l as [|s0 t IH]; intros i sts H; cbn [build_states_checked build_states] in *.
  - inversion H; reflexivity.
  - destruct (ptry_from_list (map fst (s_trans s0))); [|discriminate].
    destruct (has_default s0 && _); [discriminate|]. destruct (negb (has_default s0) && _); [discriminate|].
    cbv zeta in H. destruct (ptry_from_list (map fst (s_trans (cleanup s0)))); [|discriminate].
    destruct (make_successor _ _); cbn [bind] in H; [|discriminate].
    destruct (build_states_checked t (S i)) as [[e|sts']|] eqn:E; cbn [bind] in H; try discriminate.
    rewrite (IH _ _ E). inversion H; reflexivity.
Qed.
Theorem build_ok_unchecked b A : build b = Some (BOk A) -> build_unchecked b = Some A.
Proof.
  unfold build, build_unchecked.
  destruct (build_states_checked (bstates b) 0) as [[e|sts]|] eqn:E; cbn [bind]; try discriminate.
  intros H. rewrite (c2_bsc_unchecked _ _ _ E). inversion H; reflexivity.
Qed.

(* ------------------------------------------------------------------------------------------ *)
(** * 4. The builder handed to build_unchecked, and the automaton it yields *)

(* what is known once compile_with_bound has returned the automaton A in manager m' *)
Record c2_compiled (m : mgr) (e : re) (m' : mgr) (A : automaton) (l : list re) : Prop := {
  cc_dwf : dwf m';
  cc_ext : ext m m';
  cc_owned : Forall (owned m') l;
  cc_nodup : NoDup (map rid l);
  cc_first : nth_error l 0 = Some e;
  cc_closed : forall r cid, In r l -> In cid (pclass_ids (rcls r)) ->
                exists d, cache_lookup (rid r) cid (cache m') = Some d /\ In d l;
  cc_names : h_names (c2_hist m' e l) = map rid l;
  cc_strict : spec_strict (c2_hist m' e l) = true;
  cc_build : build (run_history (c2_hist m' e l)) = Some (BOk A);
  cc_ok : aut_ok (c2_hist m' e l) A
}.

Lemma c2_cls_ok m l : wf m -> Forall (owned m) l -> cls_ok l.
Proof. intros W. apply Forall_impl. intros a Oa. exact (cls_wf_owned merge_ok_holds m a W Oa). Qed.
Lemma c2_ids_desc m l : wf m -> Forall (owned m) l -> Forall ids_desc l.
Proof. intros W. apply Forall_impl. intros a Oa. exact (c2_owned_ids_desc m a W Oa). Qed.
Lemma c2_inj m l : wf m -> Forall (owned m) l -> inj_ids (l ++ map snd (cache m)).
Proof.
  intros W Ol. apply (owned_inj m). apply Forall_app. split; [exact Ol|].
  apply Forall_forall. intros x Hx. apply in_map_iff in Hx. destruct Hx as [[[i cid] d] [E Hin]].
  cbn [snd] in E. subst x. destruct (cache_invariant m i cid d W Hin) as (_ & _ & _ & _ & Od & _). exact Od.
Qed.

Lemma c2_run_history_hist M e l :
  run_history (c2_hist M e l) = fold_left run_bop (flat_map (c2_step_ops M) l) (b_new (rid e)).
Proof. reflexivity. Qed.

(* the loop's builder is the builder of the history c2_hist; its state names are the ids of the
   enumerated terms in BFS order; the history is strict, so build accepts it, and build_unchecked
   returns the automaton build returns: it cannot fail *)
Lemma c2_builder_core fuel m e mx m' b :
  dwf m -> owned m e -> compile_go fuel m [e] [e] (b_new (rid e)) 0 mx = Some (m', Some b) ->
  exists l A,
    iter_derivatives fuel m e = Some (m', l) /\ b = run_history (c2_hist m' e l) /\
    build_unchecked b = Some A /\ c2_compiled m e m' A l.
Proof.
  intros Dm Oe Hgo.
  destruct (c2_go fuel m [e] [e] (b_new (rid e)) 0 mx [] m' b Hgo Dm
              (Forall_cons e Oe (Forall_nil _)) (bfs_inv_init e) (binv_new e))
    as (l & Hit & D' & X' & C' & O' & K' & B').
  cbn [app] in Hit, O', K'. specialize (B' m' (cache_ext_refl m')). rewrite <- c2_run_history_hist in B'.
  subst b. exists l.
  pose proof (proj1 D') as W'.
  pose proof (c2_cls_ok m' l W' O') as Hcl.
  pose proof (c2_ids_desc m' l W' O') as Hds.
  pose proof (c2_inj m' l W' O') as Hinj.
  pose proof (iter_nodup _ _ _ _ _ Hit) as Hnd.
  assert (Hok : ops_ok (flat_map (c2_step_ops m') l)) by (apply c2_ops_ok; exact Hcl).
  assert (Hnames : h_names (c2_hist m' e l) = map rid l).
  { destruct (run_history_states (rid e) _ (ops_ok_nonew _ Hok)) as (N1 & _). cbv zeta in N1.
    fold (c2_hist m' e l) in N1. rewrite <- N1. exact K'. }
  pose proof (c2_hist_strict m' e l Hnd Hcl Hnames) as Hstrict.
  pose proof (build_result (rid e) _ Hok) as R. cbv zeta in R. fold (c2_hist m' e l) in R.
  rewrite (proj2 (spec_err_strict _) Hstrict) in R. destruct R as (A & HA & Hok').
  exists A. split; [exact Hit|]. split; [reflexivity|]. split; [apply build_ok_unchecked; exact HA|].
  split; auto.
  - destruct (iter_first _ _ _ _ _ Hit) as [t ->]. reflexivity.
  - intros r cid Hr Hc. destruct (iter_closed_in _ _ _ _ _ Hit Hds Hinj r cid Hr Hc) as [d [D1 D2]].
    exists d. split; [|exact D2]. apply cderiv_iff. exact D1.
Qed.

Theorem compiled_builder fuel m e bound m' A :
  dwf m -> owned m e -> compile_with_bound fuel m e bound = Some (m', Some A) ->
  exists l mx,
    iter_derivatives fuel m e = Some (m', l) /\
    compile_go fuel m [e] [e] (b_new (rid e)) 0 mx = Some (m', Some (run_history (c2_hist m' e l))) /\
    build_unchecked (run_history (c2_hist m' e l)) = Some A /\
    c2_compiled m e m' A l.
Proof.
  intros Dm Oe H.
  assert (G : exists mx b, compile_go fuel m [e] [e] (b_new (rid e)) 0 mx = Some (m', Some b) /\
                           build_unchecked b = Some A).
  { unfold compile_with_bound in H. destruct bound as [[|n]|]; [discriminate| |].
    - destruct (compile_go fuel m [e] [e] (b_new (rid e)) 0 (S n)) as [[m1 [b|]]|] eqn:E; try discriminate.
      destruct (build_unchecked b) as [a|] eqn:Eb; [|discriminate]. inversion H; subst. eauto.
    - destruct (compile_go fuel m [e] [e] (b_new (rid e)) 0 (S fuel)) as [[m1 [b|]]|] eqn:E; try discriminate.
      destruct (build_unchecked b) as [a|] eqn:Eb; [|discriminate]. inversion H; subst. eauto. }
  destruct G as (mx & b & Hgo & Hbu).
  destruct (c2_builder_core fuel m e mx m' b Dm Oe Hgo) as (l & A' & Hit & Hb & Hbu' & CC).
  assert (A' = A) by congruence. subst A' b.
  exists l, mx. auto.
Qed.

(* ------------------------------------------------------------------------------------------ *)
(** * 5. State k is the k-th enumerated derivative *)

Lemma c2_name_id M e l k r : h_names (c2_hist M e l) = map rid l -> NoDup (map rid l) ->
  nth_error l k = Some r -> name_id (c2_hist M e l) (rid r) = Some k.
Proof.
  intros Hn Hnd Hk. unfold name_id. rewrite Hn. apply ion_nodup; [exact Hnd|]. apply map_nth_error. exact Hk.
Qed.

(* the successor specified for (r, c) is the cached class derivative of r for the class of c *)
Lemma c2_spec_delta m e m' A l r c cid d : c2_compiled m e m' A l -> In r l -> good c ->
  pclass_of_char (rcls r) c = Some cid -> cache_lookup (rid r) cid (cache m') = Some d ->
  spec_delta (c2_hist m' e l) (rid r) c = Some (rid d).
Proof.
  intros CC Hr Hc Hk Hd. pose proof (cc_nodup _ _ _ _ _ CC) as Hnd.
  pose proof (cc_owned _ _ _ _ _ CC) as Ol. rewrite Forall_forall in Ol.
  pose proof (cls_wf_owned merge_ok_holds m' r (proj1 (cc_dwf _ _ _ _ _ CC)) (Ol r Hr)) as Hp.
  pose proof (pwf_sorted _ Hp) as Hs.
  pose proof (pclass_of_char_sound _ _ _ Hs Hc Hk) as Hin.
  assert (Hpd : pairwise_disjoint (hl (c2_hist m' e l) (rid r))).
  { rewrite c2_hist_hl by auto. apply sorted_pairwise_disjoint. exact Hs. }
  destruct cid as [i|]; cbn [in_class] in Hin.
  - destruct Hin as [iv [Hi Hm]]. apply (spec_delta_unique _ _ _ iv); auto.
    rewrite c2_hist_labels by auto.
    pose proof (c2_range_labels_nth m' r (ivs (rcls r)) 0 i iv Hi) as X. cbn [Nat.add] in X.
    unfold c2_cd in X. rewrite Hd in X. exact X.
  - destruct Hin as [_ Hnc]. unfold spec_delta.
    destruct (find _ (h_labels (c2_hist m' e l) (rid r))) as [[s t]|] eqn:Ef.
    + exfalso. apply find_some in Ef. destruct Ef as [Hin Hcc]. cbn [fst] in Hcc. apply contains_iff in Hcc.
      apply Hnc. exists s. split; [|exact Hcc]. rewrite <- (c2_hist_hl m' e l r Hnd Hr). unfold hl.
      apply in_map_iff. exists (s, t). split; [reflexivity|exact Hin].
    + rewrite c2_hist_default by auto.
      assert (Ep : pempty_complement (rcls r) = false).
      { destruct (pempty_complement (rcls r)) eqn:Ep; [|reflexivity]. exfalso. apply Hnc.
        apply (pempty_complement_iff _ Hp); auto. }
      rewrite Ep. unfold c2_cd. rewrite Hd. reflexivity.
Qed.

(* state k corresponds to the k-th enumerated term r_k: it is final iff r_k is nullable, and on a
   good character c it moves to the state of the term d that char_derivative returns for (r_k, c)
   (a cache hit in the final manager), whose language is the left quotient c^-1 L(r_k) *)
Definition c2_sim (m' : mgr) (A : automaton) (l : list re) : Prop :=
  forall k r, nth_error l k = Some r ->
    owned m' r /\
    a_final (a_state A k) = rnul r /\
    forall c, good c ->
      exists d k', char_derivative m' r c = Some (m', d) /\ nth_error l k' = Some d /\
                   a_next A (a_state A k) c = Some k' /\
                   lang_eq (L d) (fun w => L r (c :: w)).

Lemma c2_sim_holds m e m' A l : c2_compiled m e m' A l -> c2_sim m' A l.
Proof.
  intros CC.
  destruct (cc_ok _ _ _ _ _ CC) as (Hinit & Hnum & _ & _ & Hst).
  pose proof (cc_names _ _ _ _ _ CC) as Hnames. pose proof (cc_nodup _ _ _ _ _ CC) as Hnd.
  intros k r Hk. pose proof (nth_error_In _ _ Hk) as Hr.
  pose proof (cc_owned _ _ _ _ _ CC) as Ol. rewrite Forall_forall in Ol. pose proof (Ol r Hr) as Or.
  destruct (Hst (rid r) k (c2_name_id _ _ _ _ _ Hnames Hnd Hk)) as [Hf Hn].
  split; [exact Or|]. split; [rewrite Hf; apply c2_hist_final; auto|].
  intros c Hc. pose proof (cc_dwf _ _ _ _ _ CC) as D'.
  pose proof (cls_wf_owned merge_ok_holds m' r (proj1 D') Or) as Hp.
  destruct (class_of_good_char (rcls r) c Hp Hc) as [cid [K1 K2]].
  destruct (cc_closed _ _ _ _ _ CC r cid Hr K2) as [d [D1 D2]].
  destruct (In_nth_error _ _ D2) as [k' Hk'].
  exists d, k'.
  assert (Hcd : char_derivative m' r c = Some (m', d)).
  { unfold char_derivative, deriv, coc. rewrite K1. cbn [bind]. apply cached_deriv_hit. exact D1. }
  split; [exact Hcd|]. split; [exact Hk'|]. split.
  - destruct (Hn c Hc) as [Hn1 _]. rewrite Hn1.
    rewrite (c2_spec_delta _ _ _ _ _ _ _ _ _ CC Hr Hc K1 D1).
    apply (c2_name_id _ _ _ _ _ Hnames Hnd Hk').
  - destruct (char_derivative_quotient merge_ok_holds inclusion_sound_holds m' r c m' d D' Or Hc Hcd)
      as (_ & _ & _ & Q). exact Q.
Qed.

Lemma c2_num_states m e m' A l : c2_compiled m e m' A l -> num_states A = length l /\ initial A = 0.
Proof.
  intros CC. destruct (cc_ok _ _ _ _ _ CC) as (Hinit & Hnum & _).
  rewrite Hnum, (cc_names _ _ _ _ _ CC), map_length. auto.
Qed.

Theorem compiled_state_is_derivative fuel m e bound m' A :
  dwf m -> owned m e -> compile_with_bound fuel m e bound = Some (m', Some A) ->
  dwf m' /\ ext m m' /\
  exists l, iter_derivatives fuel m e = Some (m', l) /\ num_states A = length l /\
    initial A = 0 /\ nth_error l 0 = Some e /\ NoDup (map rid l) /\
    forall k r, nth_error l k = Some r ->
      owned m' r /\
      a_final (a_state A k) = rnul r /\
      forall c, good c ->
        exists d k', char_derivative m' r c = Some (m', d) /\ nth_error l k' = Some d /\
                     a_next A (a_state A k) c = Some k' /\
                     lang_eq (L d) (fun w => L r (c :: w)).
Proof.
  intros Dm Oe H. destruct (compiled_builder fuel m e bound m' A Dm Oe H) as (l & mx & Hit & _ & _ & CC).
  split; [exact (cc_dwf _ _ _ _ _ CC)|]. split; [exact (cc_ext _ _ _ _ _ CC)|].
  exists l. split; [exact Hit|]. destruct (c2_num_states _ _ _ _ _ CC) as [N1 N2].
  split; [exact N1|]. split; [exact N2|]. split; [exact (cc_first _ _ _ _ _ CC)|].
  split; [exact (cc_nodup _ _ _ _ _ CC)|]. exact (c2_sim_holds _ _ _ _ _ CC).
Qed.

(* ------------------------------------------------------------------------------------------ *)
(** * 6. Runs: after reading u from the state of r the automaton is in the state of the term
      str_derivative returns for (r, u) *)

Lemma c2_sim_run m' A l : c2_sim m' A l -> forall w, goodw w -> forall k r, nth_error l k = Some r ->
  exists d k', str_derivative m' r w = Some (m', d) /\ nth_error l k' = Some d /\ a_str_next A k w = Some k'.
Proof.
  intros S. induction 1 as [|c t Hc _ IH]; intros k r Hk; cbn [str_derivative a_str_next].
  - exists r, k. auto.
  - destruct (S k r Hk) as (_ & _ & Hn). destruct (Hn c Hc) as (d & k' & D1 & D2 & D3 & _).
    unfold char_derivative in D1. rewrite D1, D3. cbn [bind]. apply IH. exact D2.
Qed.

Theorem compiled_run fuel m e bound m' A :
  dwf m -> owned m e -> compile_with_bound fuel m e bound = Some (m', Some A) ->
  forall u, goodw u ->
    exists d k, str_derivative m' e u = Some (m', d) /\ owned m' d /\
                a_str_next A (initial A) u = Some k /\ k < num_states A /\
                a_final (a_state A k) = rnul d /\
                lang_eq (L d) (fun w => L e (u ++ w)).
Proof.
  intros Dm Oe H u Hu. destruct (compiled_builder fuel m e bound m' A Dm Oe H) as (l & mx & Hit & _ & _ & CC).
  pose proof (c2_sim_holds _ _ _ _ _ CC) as S. destruct (c2_num_states _ _ _ _ _ CC) as [N1 N2].
  destruct (c2_sim_run m' A l S u Hu 0 e (cc_first _ _ _ _ _ CC)) as (d & k & D1 & D2 & D3).
  destruct (S k d D2) as (Od & Hf & _).
  exists d, k. rewrite N2, N1. split; [exact D1|]. split; [exact Od|]. split; [exact D3|].
  split; [apply nth_error_Some; congruence|]. split; [exact Hf|].
  pose proof (cc_owned _ _ _ _ _ CC) as Ol. rewrite Forall_forall in Ol.
  destruct (str_derivative_quotient merge_ok_holds inclusion_sound_holds u m' e m' d (cc_dwf _ _ _ _ _ CC)
              (Ol e (nth_error_In _ _ (cc_first _ _ _ _ _ CC))) Hu D1) as (_ & _ & _ & Q). exact Q.
Qed.

(* the automaton accepts exactly the good words of L(e), and accepts never panics on a good word *)
Theorem compiled_accepts fuel m e bound m' A :
  dwf m -> owned m e -> compile_with_bound fuel m e bound = Some (m', Some A) ->
  forall w, goodw w -> (a_accepts A w = Some true <-> L e w) /\ a_accepts A w <> None.
Proof.
  intros Dm Oe H w Hw.
  destruct (compiled_run fuel m e bound m' A Dm Oe H w Hw) as (d & k & D1 & Od & D3 & _ & Hf & Q).
  destruct (compiled_state_is_derivative fuel m e bound m' A Dm Oe H) as (D' & _ & _).
  unfold a_accepts. rewrite D3. cbn [option_map]. rewrite Hf. split; [|discriminate].
  pose proof (Q [] (Forall_nil _)) as Q0. cbv beta in Q0. rewrite app_nil_r in Q0. rewrite <- Q0.
  rewrite <- (nullable_owned m' d (proj1 D') Od). split; [intros E; inversion E; reflexivity|intros ->; reflexivity].
Qed.

(* next and str_next never fail, and stay inside the automaton: it is a total DFA *)
Theorem compiled_total fuel m e bound m' A :
  dwf m -> owned m e -> compile_with_bound fuel m e bound = Some (m', Some A) ->
  initial A < num_states A /\
  (forall s c, s < num_states A -> good c ->
     exists s', a_next A (a_state A s) c = Some s' /\ s' < num_states A) /\
  (forall s w, s < num_states A -> goodw w ->
     exists s', a_str_next A s w = Some s' /\ s' < num_states A).
Proof.
  intros Dm Oe H. destruct (compiled_builder fuel m e bound m' A Dm Oe H) as (l & mx & Hit & _ & _ & CC).
  pose proof (c2_sim_holds _ _ _ _ _ CC) as S. destruct (c2_num_states _ _ _ _ _ CC) as [N1 N2].
  rewrite N1, N2. split; [apply nth_error_Some; rewrite (cc_first _ _ _ _ _ CC); discriminate|]. split.
  - intros s c Hs Hc. destruct (nth_error l s) as [r|] eqn:Hr; [|apply nth_error_None in Hr; lia].
    destruct (S s r Hr) as (_ & _ & Hn). destruct (Hn c Hc) as (d & k' & _ & D2 & D3 & _).
    exists k'. split; [exact D3|]. apply nth_error_Some. congruence.
  - intros s w Hs Hw. destruct (nth_error l s) as [r|] eqn:Hr; [|apply nth_error_None in Hr; lia].
    destruct (c2_sim_run m' A l S w Hw s r Hr) as (d & k' & _ & D2 & D3).
    exists k'. split; [exact D3|]. apply nth_error_Some. congruence.
Qed.

(* ------------------------------------------------------------------------------------------ *)
(** * 7. Automata returned by build are well formed (structure of the state array) *)

Definition c2_sic_ok (n : nat) (s : sic) : Prop :=
  Forall cs_valid (lbls s) /\ Forall (fun tr => snd tr < n) (s_trans s) /\
  forall d, s_default s = Some d -> d < n.

Lemma c2_maj_in : forall (l : list (cs * nat)) maj k, maj_go l maj k = maj \/ In (maj_go l maj k) (map snd l).
Proof.
  induction l as [|[c x] t IH]; intros maj k; cbn [maj_go map snd]; [left; reflexivity|].
  destruct (Nat.eqb k 0).
  - destruct (IH x 1) as [E|E]; [right; left; symmetry; exact E|right; right; exact E].
  - destruct (Nat.eqb x maj).
    + destruct (IH maj (S k)) as [E|E]; [left; exact E|right; right; exact E].
    + destruct (IH maj (k - 1)) as [E|E]; [left; exact E|right; right; exact E].
Qed.

Lemma c2_cleanup_default n s d :
  (forall d', s_default s = Some d' -> d' < n) -> Forall (fun tr => snd tr < n) (s_trans s) ->
  s_default (cleanup s) = Some d -> d < n.
Proof.
  intros Hd Ht. unfold cleanup. destruct (s_default s) as [d0|] eqn:Ed.
  - cbn [s_default]. intros E. inversion E; subst. apply Hd. reflexivity.
  - destruct (s_trans s) as [|[c0 x0] t] eqn:Et.
    + cbn [s_default]. discriminate.
    + destruct (Nat.leb _ _); cbn [s_default]; [|discriminate]. intros E. inversion E; subst d. clear E.
      rewrite Forall_forall in Ht.
      destruct (c2_maj_in t x0 1) as [E|E].
      * rewrite E. apply (Ht (c0, x0)). left. reflexivity.
      * apply in_map_iff in E. destruct E as [tr [E1 E2]]. rewrite <- E1. apply Ht. right. exact E2.
Qed.

Lemma c2_upd_forall {T} (P : T -> Prop) (l : list T) : forall i x, Forall P l -> P x -> Forall P (upd l i x).
Proof.
  induction l as [|y t IH]; intros i x Hl Hx; destruct i; cbn [upd]; auto; inversion Hl; subst; constructor; auto.
Qed.
Lemma c2_succ_none p l : fold_left (succ_step p) l None = None.
Proof. induction l as [|a t IH]; cbn [fold_left succ_step]; auto. Qed.
Lemma c2_succ_bound p n l : forall r0 r, fold_left (succ_step p) l (Some r0) = Some r ->
  Forall (fun t => t < n) r0 -> Forall (fun tr : cs * nat => snd tr < n) l ->
  length r = length r0 /\ Forall (fun t => t < n) r.
Proof.
  induction l as [|a t IH]; intros r0 r H H0 Hl; cbn [fold_left] in H.
  - inversion H; subst. auto.
  - inversion Hl as [|? ? Ha Ht]; subst. unfold succ_step at 2 in H.
    destruct (pclass_of_char p (cs_pick (fst a))) as [[i|]|]; try (rewrite c2_succ_none in H; discriminate).
    destruct (IH _ _ H (c2_upd_forall _ _ i (snd a) H0 Ha) Ht) as [L1 L2].
    rewrite BuilderProofs.upd_length in L1. auto.
Qed.

Lemma c2_bsc_wf n : 0 < n -> forall l i sts, build_states_checked l i = Some (Datatypes.inr sts) ->
  Forall (c2_sic_ok n) l -> forall j st, nth_error sts j = Some st -> AutomatonProofs.state_wf n (i + j) st.
Proof.
  intros Hn. induction l as [|s0 t IH]; intros i sts H Hok j st Hj; cbn [build_states_checked] in H.
  - inversion H; subst. destruct j; discriminate.
  - inversion Hok as [|? ? [Hv [Ht Hd]] Hokt]; subst.
    fold (lbls s0) in H.
    destruct (ptry_from_list (lbls s0)) as [p0|] eqn:Ep0; [|discriminate].
    destruct (has_default s0 && pempty_complement p0) eqn:E1; [discriminate|].
    destruct (negb (has_default s0) && negb (pempty_complement p0)) eqn:E2; [discriminate|].
    cbv zeta in H. fold (lbls (cleanup s0)) in H.
    destruct (ptry_from_list (lbls (cleanup s0))) as [p|] eqn:Ep; [|discriminate].
    destruct (make_successor (cleanup s0) p) as [suc|] eqn:Es; cbn [bind] in H; [|discriminate].
    destruct (build_states_checked t (S i)) as [[e|sts']|] eqn:Et; cbn [bind] in H; try discriminate.
    inversion H; subst sts. clear H.
    destruct j as [|j]; cbn [nth_error] in Hj.
    + inversion Hj; subst st. clear Hj. rewrite Nat.add_0_r.
      destruct (cleanup_sub s0) as [Q HQ].
      assert (Hv1 : Forall cs_valid (lbls (cleanup s0))) by (unfold lbls; rewrite HQ; apply valid_filter; exact Hv).
      assert (Ht1 : Forall (fun tr => snd tr < n) (s_trans (cleanup s0))).
      { rewrite HQ. rewrite Forall_forall in *. intros x Hx. apply Ht. apply filter_In in Hx. tauto. }
      destruct (ptry_from_list_wf _ _ Hv1 Ep) as [Hp _].
      rewrite make_successor_eq in Es.
      destruct (c2_succ_bound p n _ _ _ Es) as [L1 L2]; [apply Forall_forall; intros x Hx; apply repeat_spec in Hx; lia|exact Ht1|].
      rewrite repeat_length in L1.
      assert (Hdef : match s_default (cleanup s0) with Some d => d < n | None => pempty_complement p = true end).
      { destruct (s_default (cleanup s0)) as [d|] eqn:Edf.
        - apply (c2_cleanup_default n s0 d Hd Ht Edf).
        - destruct (cleanup_cases s0) as [(_ & E0 & Etr)|(d & Ed & _)]; [|congruence].
          assert (p = p0) by (unfold lbls in Ep, Ep0; rewrite Etr in Ep; congruence). subst p0.
          unfold has_default in E2. rewrite E0 in E2. cbn [negb andb] in E2.
          destruct (pempty_complement p); [reflexivity|discriminate]. }
      split; [reflexivity|]. split; [exact Hp|]. split; [exact L1|].
      split; [rewrite Forall_forall in L2; exact L2|]. exact Hdef.
    + replace (i + S j) with (S i + j) by lia. eapply IH; eauto.
Qed.

Theorem build_ok_wf b A : build b = Some (BOk A) -> 0 < length (bstates b) ->
  Forall (c2_sic_ok (length (bstates b))) (bstates b) -> AutomatonProofs.aut_wf A.
Proof.
  unfold build. destruct (build_states_checked (bstates b) 0) as [[e|sts]|] eqn:E; cbn [bind]; try discriminate.
  intros H Hn Hok. inversion H; subst A. clear H.
  assert (Hlen : length sts = length (bstates b)).
  { rewrite <- (map_length a_id), (bsc_ids _ _ _ E), seq_length. reflexivity. }
  unfold AutomatonProofs.aut_wf. cbn [astates num_states initial num_final].
  split; [reflexivity|]. split; [lia|]. split; [reflexivity|].
  intros i s Hi. rewrite Hlen. exact (c2_bsc_wf _ Hn _ 0 sts E Hok i s Hi).
Qed.

(* every automaton that build returns for a history of legal calls is well formed *)
Theorem build_history_wf k0 ops A : ops_ok ops ->
  build (run_history (BNew k0 :: ops)) = Some (BOk A) -> AutomatonProofs.aut_wf A.
Proof.
  intros Hok HA. pose proof (ops_ok_nonew ops Hok) as Hnn.
  pose proof (hist_closed_ok k0 ops Hnn) as (_ & Hl & Hd & _).
  pose proof (run_history_char k0 ops Hnn) as Hrun. cbv zeta in Hrun.
  set (h := BNew k0 :: ops) in *. set (names := h_names h) in *.
  assert (Hbs : bstates (run_history h) = map (spec_state h) names) by (rewrite Hrun; reflexivity).
  assert (Hlen : length (bstates (run_history h)) = length names) by (rewrite Hbs; apply map_length).
  apply (build_ok_wf _ _ HA).
  - rewrite Hlen. destruct (h_names_head k0 ops Hnn) as [t Ht]. fold h in Ht. fold names in Ht. rewrite Ht. cbn. lia.
  - rewrite Hlen, Hbs. apply Forall_forall. intros s Hs. apply in_map_iff in Hs. destruct Hs as [k [<- Hk]].
    rewrite spec_state_eq. fold names. split; [|split].
    + rewrite lbls_st_of. apply ops_ok_labels_valid. exact Hok.
    + unfold st_of. cbn [s_trans]. apply Forall_forall. intros tr Htr. apply in_map_iff in Htr.
      destruct Htr as [[s t] [<- Hin]]. cbn [fst snd]. apply idx_lt. apply (proj2 (Hl k s t Hin)).
    + intros d. unfold st_of. cbn [s_default]. destruct (h_default h k) as [t|] eqn:Edk; cbn [option_map]; [|discriminate].
      intros E. inversion E; subst d. apply idx_lt. apply (proj2 (Hd k t Edk)).
Qed.

(* the compiled automaton is well formed (every state: sorted, valid class partition, one successor
   per interval, all targets and the default inside the automaton, a default wherever the
   complementary class is non-empty) *)
Theorem compiled_wf fuel m e bound m' A :
  dwf m -> owned m e -> compile_with_bound fuel m e bound = Some (m', Some A) ->
  AutomatonProofs.aut_wf A /\ aut_wfb A = true.
Proof.
  intros Dm Oe H. destruct (compiled_builder fuel m e bound m' A Dm Oe H) as (l & mx & _ & _ & _ & CC).
  assert (W : AutomatonProofs.aut_wf A).
  { apply (build_history_wf (rid e) (flat_map (c2_step_ops m') l)); [|exact (cc_build _ _ _ _ _ CC)].
    apply c2_ops_ok. apply (c2_cls_ok m'); [exact (proj1 (cc_dwf _ _ _ _ _ CC))|exact (cc_owned _ _ _ _ _ CC)]. }
  split; [exact W|]. apply AutomatonProofs.aut_wfb_iff. exact W.
Qed.

(* ------------------------------------------------------------------------------------------ *)
(** * 8. Readable form of the builder characterisation; corollaries *)

(* The builder handed to build_unchecked is the builder of the history
     new(id e); for each yielded term r, in BFS order:
       add_transition(id r, iv_i, id d_i) for the i-th interval iv_i of r's class partition,
       set_default_successor(id r, id d_c) iff the complementary class is non-empty,
       mark_final(id r) iff r is nullable,
   where d_i / d_c are the class derivatives the final manager answers from its cache, all of them
   yielded terms.  State names are term ids; first-mention order is BFS order.  Each state's labels
   are the intervals of a well-formed partition; the specification is strict, so the checked build
   accepts it, and build_unchecked returns the same automaton. *)
Theorem compiled_builder_history fuel m e bound m' A :
  dwf m -> owned m e -> compile_with_bound fuel m e bound = Some (m', Some A) ->
  exists l mx, let h := c2_hist m' e l in
    iter_derivatives fuel m e = Some (m', l) /\
    compile_go fuel m [e] [e] (b_new (rid e)) 0 mx = Some (m', Some (run_history h)) /\
    h_names h = map rid l /\
    (forall r cid, In r l -> In cid (pclass_ids (rcls r)) ->
       cached_deriv r m' cid = Some (m', c2_cd m' r cid) /\ In (c2_cd m' r cid) l) /\
    (forall r, In r l ->
       pwf (rcls r) /\ hl h (rid r) = ivs (rcls r) /\ pairwise_disjoint (hl h (rid r)) /\
       (h_default h (rid r) <> None <-> pempty_complement (rcls r) = false) /\
       h_final h (rid r) = rnul r) /\
    spec_strict h = true /\
    build (run_history h) = Some (BOk A) /\ build_unchecked (run_history h) = Some A.
Proof.
  intros Dm Oe H. destruct (compiled_builder fuel m e bound m' A Dm Oe H) as (l & mx & Hit & Hgo & Hbu & CC).
  exists l, mx. cbv zeta. split; [exact Hit|]. split; [exact Hgo|]. split; [exact (cc_names _ _ _ _ _ CC)|].
  pose proof (cc_nodup _ _ _ _ _ CC) as Hnd.
  split; [|split; [|split; [exact (cc_strict _ _ _ _ _ CC)|split; [exact (cc_build _ _ _ _ _ CC)|exact Hbu]]]].
  - intros r cid Hr Hc. destruct (cc_closed _ _ _ _ _ CC r cid Hr Hc) as [d [D1 D2]].
    unfold c2_cd. rewrite D1. split; [apply cached_deriv_hit; exact D1|exact D2].
  - intros r Hr. pose proof (cc_owned _ _ _ _ _ CC) as Ol. rewrite Forall_forall in Ol.
    pose proof (cls_wf_owned merge_ok_holds m' r (proj1 (cc_dwf _ _ _ _ _ CC)) (Ol r Hr)) as Hp.
    split; [exact Hp|]. split; [apply c2_hist_hl; auto|].
    split; [rewrite c2_hist_hl by auto; apply sorted_pairwise_disjoint, pwf_sorted; exact Hp|].
    split; [|apply c2_hist_final; auto].
    rewrite c2_hist_default by auto. destruct (pempty_complement (rcls r)); split; congruence.
Qed.

Corollary compiled_rejects fuel m e bound m' A :
  dwf m -> owned m e -> compile_with_bound fuel m e bound = Some (m', Some A) ->
  forall w, goodw w -> (a_accepts A w = Some false <-> ~ L e w).
Proof.
  intros Dm Oe H w Hw. destruct (compiled_accepts fuel m e bound m' A Dm Oe H w Hw) as [Ha Hn].
  destruct (a_accepts A w) as [[|]|]; [| |congruence].
  - split; [discriminate|]. intros X. exfalso. apply X. apply Ha. reflexivity.
  - split; [|reflexivity]. intros _ X. apply Ha in X. discriminate.
Qed.

(* program level: the automaton compiled from the term built by program p accepts exactly the
   SMT-LIB denotation of p *)
Theorem compiled_program p fuel m m1 t bound m2 A :
  dwf m -> prog_ok p = true -> run p m = Some (m1, t) ->
  compile_with_bound fuel m1 t bound = Some (m2, Some A) ->
  forall w, goodw w -> (a_accepts A w = Some true <-> denote p w) /\ a_accepts A w <> None.
Proof.
  intros Dm Hok R H w Hw.
  destruct (run_dwf p m m1 t Dm Hok R) as (D1 & _ & Ot).
  destruct (run_correct inclusion_sound_holds p m m1 t (proj1 Dm) Hok R) as (_ & _ & _ & HL).
  destruct (compiled_accepts fuel m1 t bound m2 A D1 Ot H w Hw) as [Ha Hn]. split; [|exact Hn].
  rewrite Ha. apply HL. exact Hw.
Qed.

(* compile (bound None) and try_compile (bound Some n), everything at once *)
Theorem compile_correct fuel m e m' A :
  dwf m -> owned m e -> compile_with_bound fuel m e None = Some (m', Some A) ->
  aut_wfb A = true /\
  (forall s c, s < num_states A -> good c -> a_next A (a_state A s) c <> None) /\
  (forall s w, s < num_states A -> goodw w -> a_str_next A s w <> None) /\
  forall w, goodw w -> (a_accepts A w = Some true <-> L e w) /\ a_accepts A w <> None.
Proof.
  intros Dm Oe H. destruct (compiled_total fuel m e None m' A Dm Oe H) as (_ & T1 & T2).
  split; [exact (proj2 (compiled_wf fuel m e None m' A Dm Oe H))|]. split; [|split].
  - intros s c Hs Hc. destruct (T1 s c Hs Hc) as [s' [E _]]. congruence.
  - intros s w Hs Hw. destruct (T2 s w Hs Hw) as [s' [E _]]. congruence.
  - exact (compiled_accepts fuel m e None m' A Dm Oe H).
Qed.
Theorem try_compile_correct fuel m e n m' A :
  dwf m -> owned m e -> compile_with_bound fuel m e (Some n) = Some (m', Some A) ->
  (0 < n /\ num_states A <= n) /\
  aut_wfb A = true /\
  (forall s c, s < num_states A -> good c -> a_next A (a_state A s) c <> None) /\
  (forall s w, s < num_states A -> goodw w -> a_str_next A s w <> None) /\
  forall w, goodw w -> (a_accepts A w = Some true <-> L e w) /\ a_accepts A w <> None.
Proof.
  intros Dm Oe H. destruct (compiled_total fuel m e (Some n) m' A Dm Oe H) as (_ & T1 & T2).
  split; [exact (try_compile_bound fuel m e n m' A H)|].
  split; [exact (proj2 (compiled_wf fuel m e (Some n) m' A Dm Oe H))|]. split; [|split].
  - intros s c Hs Hc. destruct (T1 s c Hs Hc) as [s' [E _]]. congruence.
  - intros s w Hs Hw. destruct (T2 s w Hs Hw) as [s' [E _]]. congruence.
  - exact (compiled_accepts fuel m e (Some n) m' A Dm Oe H).
Qed.

(* ------------------------------------------------------------------------------------------ *)
(** * 9. What is missing for "compile always returns" is only termination of the enumeration *)

(* If the iterator's enumeration of the derivatives of e completes, then -- on the same fuel --
   compile(e) returns an automaton (no unwrap()/panic!() of the loop or of build_unchecked fires),
   and try_compile(e, n) returns an automaton exactly when the number of derivatives is at most n. *)
Theorem compile_returns_of_iter fuel m e m1 l :
  dwf m -> owned m e -> iter_derivatives fuel m e = Some (m1, l) ->
  (exists A, compile_with_bound fuel m e None = Some (m1, Some A)) /\
  forall n, if Nat.leb (length l) n
            then exists A, compile_with_bound fuel m e (Some n) = Some (m1, Some A)
            else exists m2, compile_with_bound fuel m e (Some n) = Some (m2, None).
Proof.
  intros Dm Oe Hi. pose proof (EmptinessProofs.iter_cls_ok fuel m e m1 l Dm Oe Hi) as Hcl.
  assert (G : forall mx, Nat.leb (length l) mx = true ->
            exists b A, compile_go fuel m [e] [e] (b_new (rid e)) 0 mx = Some (m1, Some b) /\
                        build_unchecked b = Some A).
  { intros mx E.
    pose proof (compile_go_of_iter fuel m [e] [e] (b_new (rid e)) 0 mx [] m1 l Hi Hcl eq_refl
                  (bfs_inv_init e) (binv_new e) (Nat.le_0_l _)) as X.
    rewrite E in X. destruct X as [b [X1 _]].
    destruct (c2_builder_core fuel m e mx m1 b Dm Oe X1) as (_ & A & _ & _ & Hbu & _). eauto. }
  split.
  - destruct (iter_count_fuel _ _ _ _ _ Hi) as [Hlt _].
    destruct (G (S fuel)) as (b & A & X1 & X2); [apply Nat.leb_le; lia|].
    exists A. unfold compile_with_bound. rewrite X1, X2. reflexivity.
  - intros n. destruct n as [|n].
    + destruct (iter_first _ _ _ _ _ Hi) as [t ->]. cbn. eauto.
    + destruct (Nat.leb (length l) (S n)) eqn:E.
      * destruct (G (S n) E) as (b & A & X1 & X2).
        exists A. unfold compile_with_bound. rewrite X1, X2. reflexivity.
      * pose proof (compile_go_of_iter fuel m [e] [e] (b_new (rid e)) 0 (S n) [] m1 l Hi Hcl eq_refl
                      (bfs_inv_init e) (binv_new e) (Nat.le_0_l _)) as X.
        rewrite E in X. destruct X as [m2 X]. exists m2. unfold compile_with_bound. rewrite X. reflexivity.
Qed.
