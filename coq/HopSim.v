(* HopSim.v -- C04: the model of minimizer.rs is a run of the abstract algorithm of HopAbs.v.
   Abstraction: conf_of m todo a C = (block ids of the main partition, number of block ids, activity of
   the splitter lists, blocks still to refine with the picked splitter (a, C)).  pick_splitter is an
   HS_pick step, refine_block_with_splitter an HS_skip or HS_split step, hence Minimizer::new + refine
   is a run of hstep from a configuration satisfying cinv to one without pending block; if the loop
   ended because no splitter was active, abstract_hopcroft_correct applies to it. *)
Require Import Base CharSet Partition Automaton Minimizer HopPart HopAbs HopSplit HopLoop.
From Coq Require Import Relations.
Open Scope nat_scope.

Section Sim.
  Context (n alpha : nat) (delta : nat -> nat -> nat) (isf : nat -> bool) (E : nat -> nat -> Prop).
  Context (Env : env_ok n alpha delta isf E).

  Definition conf_of (m : mini) (todo : list nat) (a C : nat) : conf :=
    {| c_bid := bidm m; c_k := km m; c_act := actm m; c_todo := todo; c_a := a; c_C := C |}.

  Notation step := (hstep n alpha delta).
  Notation run := (clos_refl_trans conf (hstep n alpha delta)).

  Lemma env_abs : env n alpha delta isf E.
  Proof. constructor; [apply (e_cl _ _ _ _ _ Env)|apply (e_fin _ _ _ _ _ Env)|apply (e_step _ _ _ _ _ Env)]. Qed.

  Lemma rbws_hstep m a C b todo :
    minv n alpha delta E m -> a < alpha -> 1 <= C < km m -> todo_ok n delta m a C (b :: todo) ->
    step (conf_of m (b :: todo) a C) (conf_of (refine_block_with_splitter delta m a C b) todo a C).
  Proof.
    intros I Ha HC [Hnd [Hcl Hw]]. rewrite rbws_unfold. cbv zeta.
    destruct (Hw b (or_introl eq_refl)) as [Hb [xb [Hxb [Hbxb HCxb]]]].
    destruct (fp_refine_spec n (mn_main m) b (spred delta m a C) (mi_main _ _ _ _ _ I) Hb) as [W' R].
    destruct (fp_refine (mn_main m) b (spred delta m a C)) as [main' [i j]]. cbn [fst snd] in *.
    assert (Hnotin : ~ In b todo) by (inversion Hnd; assumption).
    destruct Hcl as [HbC _].
    inversion R as [Hall Hk Hbid E1|Hnone Hk Hbid E1|Hk Hbid Hex1 Hex2 E1]; subst i j.
    - cbn [Nat.eqb].
      assert (Heq : conf_of (set_main m main') todo a C =
                    {| c_bid := c_bid (conf_of m (b :: todo) a C); c_k := c_k (conf_of m (b :: todo) a C);
                       c_act := c_act (conf_of m (b :: todo) a C); c_todo := todo;
                       c_a := c_a (conf_of m (b :: todo) a C); c_C := c_C (conf_of m (b :: todo) a C) |}).
      { unfold conf_of, bidm, km, actm, set_main, fp_block_id. cbn [mn_main mn_split c_bid c_k c_act c_a c_C].
        rewrite Hbid. unfold km in Hk. rewrite Hk. reflexivity. }
      rewrite Heq. apply (HS_skip n alpha delta _ b todo); [reflexivity|].
      intros x y Hx Hy Hbx Hby. unfold cpred. cbn [conf_of c_bid c_a c_C].
      pose proof (Hall x Hx Hbx) as H1. pose proof (Hall y Hy Hby) as H2. unfold spred in H1, H2. congruence.
    - exfalso. pose proof (Hnone xb Hxb Hbxb) as Hp. unfold spred in Hp. apply Nat.eqb_neq in Hp. contradiction.
    - replace (Nat.eqb (nblk (fp_base (mn_main m))) 0) with false by (symmetry; apply Nat.eqb_neq; unfold km in Hb; lia).
      fold (km m).
      destruct (split_case n alpha delta isf E m b (spred delta m a C) main' Env I Hb W' Hk Hbid
                  (spred_compat n alpha delta isf E m a C Env I Ha)) as [I' [Hk' [Hmain' [HM HA]]]].
      set (m2 := update_splitters delta (set_main m main') b (km m)) in *.
      assert (Heq : conf_of m2 todo a C =
                    {| c_bid := bidm m2; c_k := S (c_k (conf_of m (b :: todo) a C)); c_act := actm m2; c_todo := todo;
                       c_a := c_a (conf_of m (b :: todo) a C); c_C := c_C (conf_of m (b :: todo) a C) |}).
      { unfold conf_of. cbn [c_k c_a c_C]. rewrite Hk'. reflexivity. }
      rewrite Heq. apply (HS_split n alpha delta _ b todo); auto.
  Qed.

  Lemma rbws_fold_run a C : a < alpha -> forall todo m,
    minv n alpha delta E m -> respects n isf (bidm m) -> 1 <= C < km m ->
    todo_ok n delta m a C todo -> hinv n alpha delta (bidm m) (actm m) todo a C ->
    run (conf_of m todo a C)
        (conf_of (fold_left (fun m b => refine_block_with_splitter delta m a C b) todo m) [] a C).
  Proof.
    intros Ha. induction todo as [|b todo IH]; intros m I HR HC HT HI; cbn [fold_left].
    - apply rt_refl.
    - destruct (rbws_step n alpha delta isf E m a C b todo Env I HR Ha HC HT HI) as [I1 [HR1 [HC1 [HT1 [HI1 _]]]]].
      eapply rt_trans; [apply rt_step; apply (rbws_hstep m a C b todo I Ha HC HT)|].
      apply IH; assumption.
  Qed.

  Lemma pick_hstep m m' b c cls a0 C0 :
    minv n alpha delta E m -> pick_splitter m = Some (m', (b, c, cls)) ->
    step (conf_of m [] a0 C0) (conf_of m' (rws_todo m' b c cls) c b).
  Proof.
    intros I Hp. destruct (pick_some n alpha delta E m m' b c cls I Hp) as [Hmain [Hent [I' [_ Hacts]]]].
    destruct (rws_setup n alpha delta isf E m' b c cls Env I' Hent) as [HC [Ha [_ Hcov]]].
    assert (Heq : conf_of m' (rws_todo m' b c cls) c b =
                  {| c_bid := c_bid (conf_of m [] a0 C0); c_k := c_k (conf_of m [] a0 C0); c_act := actm m';
                     c_todo := rws_todo m' b c cls; c_a := c; c_C := b |}).
    { unfold conf_of, bidm, km. cbn [c_bid c_k]. rewrite Hmain. reflexivity. }
    rewrite Heq. apply (HS_pick n alpha delta); cbn [conf_of c_bid c_k c_act c_todo]; auto.
    - unfold km in *. rewrite <- Hmain. lia.
    - unfold bidm in *. rewrite <- Hmain. exact Hcov.
  Qed.

  Lemma refine_run : forall fuel m a C, minv n alpha delta E m -> respects n isf (bidm m) ->
    hinv n alpha delta (bidm m) (actm m) [] a C -> forall m', refine delta fuel n m = Some m' ->
    exists a' C', run (conf_of m [] a C) (conf_of m' [] a' C') /\
                  (km m' - 1 < n -> forall D c, ~ actm m' D c).
  Proof.
    induction fuel as [|f IH]; intros m a C I HR HI m' Hr; [discriminate|].
    cbn [refine] in Hr. change (bp_num_blocks (fp_base (mn_main m))) with (km m) in Hr.
    destruct (Nat.ltb (km m - 1) n) eqn:Hk.
    - destruct (pick_splitter m) as [[m1 [[b c] cls]]|] eqn:Hp.
      + destruct (pick_some n alpha delta E m m1 b c cls I Hp) as [Hmain [Hent [I1 [_ Hacts]]]].
        assert (Hbid : bidm m1 = bidm m) by (unfold bidm; rewrite Hmain; reflexivity).
        assert (HR1 : respects n isf (bidm m1)) by (rewrite Hbid; exact HR).
        assert (Hpick : forall todo, (forall x y, x < n -> y < n -> bidm m1 x = bidm m1 y ->
                           bidm m1 (delta x c) = b -> bidm m1 (delta y c) <> b -> In (bidm m1 x) todo) ->
                        hinv n alpha delta (bidm m1) (actm m1) todo c b).
        { intros todo Hcov. rewrite Hbid in *. eapply hinv_pick; [exact HI|exact Hacts|exact Hcov]. }
        destruct (rws_setup n alpha delta isf E m1 b c cls Env I1 Hent) as [HC [Ha [HT Hcov]]].
        destruct (rws_spec n alpha delta isf E m1 b c cls Env I1 HR1 Hent Hpick) as [I2 [HR2 [HI2 _]]].
        destruct (IH _ c b I2 HR2 HI2 m' Hr) as [a' [C' [Hrun Hno]]].
        exists a', C'. split; [|exact Hno].
        eapply rt_trans; [apply rt_step; apply (pick_hstep m m1 b c cls a C I Hp)|].
        eapply rt_trans; [|exact Hrun]. rewrite rws_unfold2.
        apply (rbws_fold_run c b Ha _ m1 I1 HR1 HC HT (Hpick _ Hcov)).
      + inversion Hr; subst m'. exists a, C. split; [apply rt_refl|]. intros _. apply pick_none. exact Hp.
    - inversion Hr; subst m'. exists a, C. split; [apply rt_refl|]. intros H. apply Nat.ltb_ge in Hk. lia.
  Qed.

  Lemma cinv_of m a C : minv n alpha delta E m -> respects n isf (bidm m) ->
    hinv n alpha delta (bidm m) (actm m) [] a C -> cinv n alpha delta isf E (conf_of m [] a C).
  Proof.
    intros I HR HI. constructor; cbn [conf_of c_bid c_k c_act c_todo c_a c_C]; auto.
    - intros x Hx. pose proof (minv_bid_range n alpha delta E m x I Hx). lia.
    - intros H. contradiction.
    - apply (mi_coarse _ _ _ _ _ I).
  Qed.

  (* Minimizer::new + refine is a run of the abstract algorithm *)
  Theorem refine_is_abstract_run :
    exists m a C,
      refine delta (4 * n * alpha + 16) n (mini_new delta isf n alpha) = Some m /\
      cinv n alpha delta isf E (conf_of (mini_new delta isf n alpha) [] 0 0) /\
      run (conf_of (mini_new delta isf n alpha) [] 0 0) (conf_of m [] a C) /\
      (km m - 1 < n -> forall D c, ~ actm m D c).
  Proof.
    destruct (mini_new_spec n alpha delta isf E Env) as [I [HR HI]].
    destruct (refine_correct n alpha delta isf E Env) as [m [Href _]].
    destruct (refine_run _ _ 0 0 I HR HI m Href) as [a [C [Hrun Hno]]].
    exists m, a, C. split; [exact Href|]. split; [apply cinv_of; assumption|]. split; [exact Hrun|exact Hno].
  Qed.
End Sim.
