(* ManagerProofs.v -- the manager invariant [wf] of the model of ReManager and the lemmas about
   [store_make] / [make] / [new_mgr] / [complement] (property C01, constructor layer; reused by
   C03 and C07).  Also: an induction principle for the nested type [re], decidability of the
   language [L] of every term (needed because x and its complement are only semantically paired
   at ids 2,3 and 4,5), and [nullable_correct]. *)
Require Import Base CharSet Partition PartitionSpec LoopRange Regex Denote Sem.
Open Scope N_scope.

(* ------------------------------------------------------------------------------------------ *)
(** * Induction over terms *)

Fixpoint re_ind_forall (P : re -> Prop)
  (H : forall i n c k, Forall P (children k) -> P (Node i n c k)) (e : re) {struct e} : P e :=
  match e with
  | Node i n c k =>
    H i n c k
      (match k return Forall P (children k) with
       | NEmpty => Forall_nil P
       | NEps => Forall_nil P
       | NRange _ => Forall_nil P
       | NConcat a b =>
           Forall_cons a (re_ind_forall P H a) (Forall_cons b (re_ind_forall P H b) (Forall_nil P))
       | NLoop a _ => Forall_cons a (re_ind_forall P H a) (Forall_nil P)
       | NCompl a => Forall_cons a (re_ind_forall P H a) (Forall_nil P)
       | NUnion l =>
           (fix go (l : list re) : Forall P l :=
              match l with
              | [] => Forall_nil P
              | x :: t => Forall_cons x (re_ind_forall P H x) (go t)
              end) l
       | NInter l =>
           (fix go (l : list re) : Forall P l :=
              match l with
              | [] => Forall_nil P
              | x :: t => Forall_cons x (re_ind_forall P H x) (go t)
              end) l
       end)
  end.

Lemma re_induction (P : re -> Prop) :
  (forall e, (forall c, In c (children (rnode e)) -> P c) -> P e) -> forall e, P e.
Proof.
  intros H. apply re_ind_forall. intros i n c k HF. apply H. cbn [rnode].
  rewrite Forall_forall in HF. exact HF.
Qed.

(* ------------------------------------------------------------------------------------------ *)
(** * Unfolding lemmas for [L] and [wf_term] *)

Lemma L_union i n c l w : L (Node i n c (NUnion l)) w <-> exists x, In x l /\ L x w.
Proof.
  induction l as [|a t IH].
  - cbn. split; [intros [] | intros (x & [] & _)].
  - cbn [L] in *. rewrite IH. cbn [In]. split.
    + intros [H | (x & Hx & H)]; [exists a | exists x]; auto.
    + intros (x & [<- | Hx] & H); [left | right; exists x]; auto.
Qed.

Lemma L_inter i n c l w : L (Node i n c (NInter l)) w <-> forall x, In x l -> L x w.
Proof.
  induction l as [|a t IH].
  - cbn. split; [intros _ x [] | auto].
  - cbn [L] in *. rewrite IH. cbn [In]. split.
    + intros [H1 H2] x [<- | Hx]; auto.
    + intros H; split; [apply H; auto | intros x Hx; apply H; auto].
Qed.

Definition node_ok (k : node) : Prop :=
  match k with NRange s => cs_valid s | NLoop _ r => lr_valid r | _ => True end.

Lemma wf_term_iff e :
  wf_term e <->
  rnul e = k_nullable (rnode e) /\ rcls e = k_class (rnode e) /\ node_ok (rnode e) /\
  forall c, In c (children (rnode e)) -> wf_term c.
Proof.
  destruct e as [i n c k]. cbn [rnul rcls rnode].
  assert (Hl : forall l,
    (fix all (l : list re) : Prop := match l with [] => True | x :: t => wf_term x /\ all t end) l
    <-> forall c, In c l -> wf_term c).
  { induction l as [|a t IH].
    - split; [intros _ x [] | auto].
    - rewrite IH. cbn [In]. split.
      + intros [H1 H2] x [<- | Hx]; auto.
      + intros H; split; [apply H; auto | intros x Hx; apply H; auto]. }
  destruct k; cbn [wf_term node_ok children]; try rewrite Hl; cbn [In].
  all: split; [intros (H1 & H2 & H3) | intros (H1 & H2 & H3 & H4)].
  all: repeat split; auto; try tauto.
  all: try (intros x Hx; intuition (subst; auto)).
  all: try (apply H4; auto).
  all: destruct H3; assumption.
Qed.

Lemma wf_term_mk_node i k :
  node_ok k -> (forall c, In c (children k) -> wf_term c) -> wf_term (mk_node i k).
Proof. intros H1 H2. apply wf_term_iff. cbn. auto. Qed.

(* ------------------------------------------------------------------------------------------ *)
(** * Language facts needed here (prefix cp_: local copies, see Lang.v) *)

Lemma cp_concat_dec (B : lang) :
  (forall v, B v \/ ~ B v) ->
  forall w (A : lang), (forall u, A u \/ ~ A u) -> l_concat A B w \/ ~ l_concat A B w.
Proof.
  intros HB. induction w as [|c w IH]; intros A HA.
  - destruct (HA []) as [Ha|Ha]; [destruct (HB []) as [Hb|Hb]|].
    + left. exists [], []. auto.
    + right. intros (u & v & E & _ & Hv). symmetry in E. apply app_eq_nil in E as [-> ->]. auto.
    + right. intros (u & v & E & Hu & _). symmetry in E. apply app_eq_nil in E as [-> ->]. auto.
  - destruct (IH (fun u => A (c :: u)) (fun u => HA (c :: u))) as [H|H].
    + left. destruct H as (u & v & -> & Hu & Hv). exists (c :: u), v. auto.
    + destruct (HA []) as [Ha|Ha]; [destruct (HB (c :: w)) as [Hb|Hb]|].
      * left. exists [], (c :: w). auto.
      * right. intros (u & v & E & Hu & Hv). destruct u as [|c' u]; cbn in E.
        -- subst v. auto.
        -- inversion E; subst. apply H. exists u, v. auto.
      * right. intros (u & v & E & Hu & Hv). destruct u as [|c' u]; cbn in E.
        -- auto.
        -- inversion E; subst. apply H. exists u, v. auto.
Qed.

Lemma cp_pow_mono (A B : lang) n w : (forall u, A u -> B u) -> l_pow A n w -> l_pow B n w.
Proof.
  intros HAB. revert w. induction n as [|n IH]; intros w; cbn; auto.
  intros (u & v & -> & Hu & Hv). exists u, v. auto.
Qed.

(* non-empty factors *)
Definition cp_ne (A : lang) : lang := fun u => u <> [] /\ A u.

Lemma cp_pow_ne_len (A : lang) k w : l_pow (cp_ne A) k w -> (k <= length w)%nat.
Proof.
  revert w. induction k as [|k IH]; intros w; cbn; [lia|].
  intros (u & v & -> & [Hne _] & Hv). apply IH in Hv. rewrite app_length.
  destruct u; [congruence | cbn; lia].
Qed.

Lemma cp_pow_to_ne (A : lang) n w :
  l_pow A n w -> exists k, (k <= n)%nat /\ l_pow (cp_ne A) k w /\ ((k < n)%nat -> A []).
Proof.
  revert w. induction n as [|n IH]; intros w; cbn.
  - intros ->. exists O. cbn. repeat split; auto; lia.
  - intros (u & v & -> & Hu & Hv). destruct (IH v Hv) as (k & Hk & Hp & Hn).
    destruct u as [|c u].
    + exists k. cbn. repeat split; auto; lia.
    + exists (S k). split; [lia|]. split.
      * cbn. exists (c :: u), v. repeat split; auto. discriminate.
      * intros Hlt. apply Hn. lia.
Qed.

Lemma cp_pow_of_ne (A : lang) n : forall k w,
  l_pow (cp_ne A) k w -> (k <= n)%nat -> ((k < n)%nat -> A []) -> l_pow A n w.
Proof.
  induction n as [|n IH]; intros k w Hp Hk Hn.
  - assert (k = O) by lia. subst. exact Hp.
  - destruct (Nat.eq_dec k (S n)) as [->|Hne].
    + eapply cp_pow_mono; [|exact Hp]. intros u [_ H]; exact H.
    + cbn. exists [], w. repeat split; [apply Hn; lia|].
      apply (IH k); [exact Hp | lia | intros _; apply Hn; lia].
Qed.

Lemma cp_bounded_dec (P : nat -> Prop) :
  (forall k, P k \/ ~ P k) ->
  forall n, (exists k, (k <= n)%nat /\ P k) \/ ~ (exists k, (k <= n)%nat /\ P k).
Proof.
  intros HP. induction n as [|n IH].
  - destruct (HP O) as [H|H]; [left; exists O; auto | right].
    intros (k & Hk & Hp). assert (k = O) by lia. subst. auto.
  - destruct IH as [(k & Hk & Hp)|IH]; [left; exists k; split; [lia|auto]|].
    destruct (HP (S n)) as [H|H]; [left; exists (S n); auto | right].
    intros (k & Hk & Hp). destruct (Nat.eq_dec k (S n)) as [->|Hne]; auto.
    apply IH. exists k. split; [lia|auto].
Qed.

Lemma cp_in_lr_dec n r : in_lr n r \/ ~ in_lr n r.
Proof. unfold in_lr, inr. destruct r as [a [b|]]; lia. Qed.

Lemma cp_later_in_lr_dec k r :
  (exists n, (k < n)%nat /\ in_lr n r) \/ ~ (exists n, (k < n)%nat /\ in_lr n r).
Proof.
  unfold in_lr, inr. destruct r as [a [b|]].
  - destruct (N.le_gt_cases a b) as [Hab|Hab]; [destruct (N.lt_ge_cases (N.of_nat k) b) as [Hk|Hk]|].
    + left. exists (N.to_nat (N.max (N.of_nat k + 1) a)). lia.
    + right. intros (n & H1 & H2). lia.
    + right. intros (n & H1 & H2). lia.
  - left. exists (N.to_nat (N.max (N.of_nat k + 1) a)). lia.
Qed.

Lemma cp_loop_iff (A : lang) r w :
  (exists n, in_lr n r /\ l_pow A n w) <->
  (exists k, (k <= length w)%nat /\
     (l_pow (cp_ne A) k w /\ (in_lr k r \/ (A [] /\ exists n, (k < n)%nat /\ in_lr n r)))).
Proof.
  split.
  - intros (n & Hn & Hp). destruct (cp_pow_to_ne A n w Hp) as (k & Hk & Hpk & Hnul).
    exists k. split; [eapply cp_pow_ne_len; eauto|]. split; auto.
    destruct (Nat.eq_dec k n) as [->|Hne]; [left; auto|].
    right. split; [apply Hnul; lia|]. exists n. split; [lia|auto].
  - intros (k & _ & Hp & [Hk | (Hnul & n & Hkn & Hn)]).
    + exists k. split; auto. apply (cp_pow_of_ne A k k w); auto. lia.
    + exists n. split; auto. apply (cp_pow_of_ne A n k w); auto. lia.
Qed.

Lemma cp_loop_dec (A : lang) r :
  (forall u, A u \/ ~ A u) ->
  forall w, (exists n, in_lr n r /\ l_pow A n w) \/ ~ (exists n, in_lr n r /\ l_pow A n w).
Proof.
  intros HA w. rewrite cp_loop_iff.
  apply cp_bounded_dec. intros k.
  assert (Hpow : forall k w, l_pow (cp_ne A) k w \/ ~ l_pow (cp_ne A) k w).
  { clear k w. induction k as [|k IH]; intros w.
    - cbn. destruct w; [left; auto | right; discriminate].
    - cbn [l_pow]. apply cp_concat_dec; [exact (IH)|].
      intros u. unfold cp_ne. destruct u as [|c u].
      + right. intros [H _]. congruence.
      + destruct (HA (c :: u)) as [H|H]; [left; split; [discriminate|auto] | right; tauto]. }
  destruct (Hpow k w) as [H1|H1]; [|right; tauto].
  destruct (cp_in_lr_dec k r) as [H2|H2]; [left; tauto|].
  destruct (HA []) as [H3|H3]; [|right; tauto].
  destruct (cp_later_in_lr_dec k r) as [H4|H4]; [left; tauto | right; tauto].
Qed.

Theorem L_dec : forall e w, L e w \/ ~ L e w.
Proof.
  induction e as [e IH] using re_induction.
  destruct e as [i n c k]. cbn [rnode] in IH. destruct k as [| |s|a b|a r|a|l|l]; cbn [children] in IH.
  - intros w. right. cbn. auto.
  - intros w. cbn. destruct w; [left; auto | right; discriminate].
  - intros w. cbn [L]. destruct w as [|x [|y t]].
    + right. intros (c0 & E & _). discriminate.
    + unfold mem. destruct (N.le_gt_cases (fst s) x) as [H1|H1];
        [destruct (N.le_gt_cases x (snd s)) as [H2|H2]|].
      * left. exists x. auto.
      * right. intros (c1 & E & H). inversion E; subst. lia.
      * right. intros (c1 & E & H). inversion E; subst. lia.
    + right. intros (c1 & E & _). discriminate.
  - intros w. cbn [L]. apply cp_concat_dec; [apply IH; cbn; auto|]. apply IH. cbn; auto.
  - intros w. cbn [L]. apply cp_loop_dec. apply IH. cbn; auto.
  - intros w. cbn [L]. destruct (IH a (or_introl eq_refl) w); [right | left]; tauto.
  - intros w. rewrite L_union. induction l as [|a t IHl].
    + right. intros (x & [] & _).
    + destruct (IH a (or_introl eq_refl) w) as [H|H]; [left; exists a; cbn; auto|].
      destruct IHl as [(x & Hx & Hw)|Hn].
      * intros c0 Hc. apply IH. cbn; auto.
      * left. exists x. cbn; auto.
      * right. intros (x & [<- | Hx] & Hw); auto. apply Hn. exists x; auto.
  - intros w. rewrite L_inter. induction l as [|a t IHl].
    + left. intros x [].
    + destruct (IH a (or_introl eq_refl) w) as [H|H]; [|right; intros Hall; apply H, Hall; cbn; auto].
      destruct IHl as [Hall|Hn].
      * intros c0 Hc. apply IH. cbn; auto.
      * left. intros x [<- | Hx]; auto.
      * right. intros Hall. apply Hn. intros x Hx. apply Hall. cbn; auto.
Qed.

Lemma L_stable e w : ~ ~ L e w -> L e w.
Proof. destruct (L_dec e w); tauto. Qed.

(* ------------------------------------------------------------------------------------------ *)
(** * The manager invariant *)

Definition not_compl (k : node) : Prop := match k with NCompl _ => False | _ => True end.
Definition k_closed (m : mgr) (k : node) : Prop := forall c, In c (children k) -> owned m c.

(* the five cached constants are the owned terms at ids 0, 2, 3, 4, 5 *)
Record consts_ok (m : mgr) : Prop := {
  c_sigma   : m_sigma m = mk_node 0 (NRange (0, MAXC));
  c_empty   : m_empty m = mk_node 2 NEmpty;
  c_full    : m_full m = mk_node 3 (NLoop (m_sigma m) lr_star);
  c_eps     : m_eps m = mk_node 4 NEps;
  c_splus   : m_splus m = mk_node 5 (NLoop (m_sigma m) lr_plus);
  c_sigma_o : owned m (m_sigma m);
  c_empty_o : owned m (m_empty m);
  c_full_o  : owned m (m_full m);
  c_eps_o   : owned m (m_eps m);
  c_splus_o : owned m (m_splus m)
}.

(* derivative-cache invariant (C03): an entry ((i, cid), d) of the cache records, for the owned term
   e with id i and a VALID class id cid of e's derivative classes, an owned term d whose language
   is the left quotient of L e by EVERY good character of class cid (not only the representative
   the derivative was computed with). *)
Definition cache_entry_ok (m : mgr) (i : N) (cid : classid) (d : re) : Prop :=
  exists e, owned m e /\ rid e = i /\ pvalid (rcls e) cid = true /\ owned m d /\
    forall c, good c -> in_class (rcls e) c cid -> lang_eq (L d) (fun w => L e (c :: w)).
Definition cache_ok (m : mgr) : Prop :=
  forall i cid d, In ((i, cid), d) (cache m) -> cache_entry_ok m i cid d.

Record wf (m : mgr) : Prop := {
  wf_counter : counter m = N.of_nat (length (id2re m));
  wf_even    : Nat.Even (length (id2re m));
  wf_ids     : forall i e, at_id m i = Some e -> rid e = N.of_nat i;
  wf_tbl     : forall k e, In (k, e) (tbl m) -> key_of (rnode e) = k /\ owned m e;
  wf_lookup  : forall e, owned m e -> lookup (key_of (rnode e)) (tbl m) = Some e;
  wf_child   : forall e c, owned m e -> In c (children (rnode e)) -> owned m c /\ rid c < rid e;
  wf_terms   : forall e, owned m e -> wf_term e;
  wf_pair    : forall i x y, Nat.Even i -> at_id m i = Some x -> at_id m (S i) = Some y ->
                 (i <> 2%nat -> i <> 4%nat -> rnode y = NCompl x) /\
                 (forall w, goodw w -> (L y w <-> ~ L x w));
  wf_consts  : consts_ok m;
  wf_cache   : cache_ok m
}.

(* The three places where the cache invariant has to be re-established; when [cache_ok] becomes a
   real invariant (C03) only these lemmas (and their uses in grow_wf / new_mgr_wf / wf_set_cache)
   need new proofs. *)
Lemma cache_ok_initial : cache_ok new_mgr.
Proof.
  assert (E : cache new_mgr = []) by (vm_compute; reflexivity).
  intros i cid d H. rewrite E in H. destruct H.
Qed.
Lemma cache_ok_same_cache m m' : cache m' = cache m -> ext m m' -> cache_ok m -> cache_ok m'.
Proof.
  intros E [[l Hl] _] H i cid d Hin. rewrite E in Hin.
  assert (Hown : forall x, owned m x -> owned m' x).
  { intros x Hx. unfold owned, at_id in *. rewrite Hl.
    rewrite nth_error_app1; [exact Hx|]. apply nth_error_Some. congruence. }
  destruct (H i cid d Hin) as (e & Oe & Ei & Hv & Od & HL).
  exists e. split; [apply Hown; exact Oe|]. split; [exact Ei|]. split; [exact Hv|].
  split; [apply Hown; exact Od | exact HL].
Qed.

(* ---- key_eqb reflects equality ---- *)
Lemma nlist_eqb_eq l1 l2 : nlist_eqb l1 l2 = true <-> l1 = l2.
Proof.
  revert l2; induction l1 as [|x t IH]; destruct l2 as [|y t2]; cbn; try (split; congruence).
  rewrite andb_true_iff, N.eqb_eq, IH. split; [intros [-> ->]; reflexivity | intros H; inversion H; auto].
Qed.
Lemma lr_eqb_eq r s : lr_eqb r s = true <-> r = s.
Proof.
  destruct r as [a [x|]], s as [b [y|]]; cbn; try (split; congruence).
  - rewrite andb_true_iff, !N.eqb_eq. split; [intros [-> ->]; reflexivity | intros H; inversion H; auto].
  - rewrite N.eqb_eq. split; [intros ->; reflexivity | intros H; inversion H; auto].
Qed.
Lemma key_eqb_eq k1 k2 : key_eqb k1 k2 = true <-> k1 = k2.
Proof.
  destruct k1 as [| |[a b]|a b|a r|a|l|l], k2 as [| |[c d]|c d|c s|c|l2|l2]; cbn;
    try (split; congruence);
    rewrite ?andb_true_iff, ?N.eqb_eq, ?lr_eqb_eq, ?nlist_eqb_eq;
    (split; [intros H; try destruct H; subst; reflexivity | intros H; inversion H; auto]).
Qed.
Lemma key_eqb_refl k : key_eqb k k = true.
Proof. apply key_eqb_eq; reflexivity. Qed.
Lemma key_eqb_sym_false k1 k2 : key_eqb k1 k2 = false -> key_eqb k2 k1 = false.
Proof.
  intros H. destruct (key_eqb k2 k1) eqn:E; auto. apply key_eqb_eq in E; subst.
  rewrite key_eqb_refl in H. discriminate.
Qed.
Lemma lookup_in k t e : lookup k t = Some e -> In (k, e) t.
Proof.
  induction t as [|[k' e'] t IH]; cbn; [discriminate|].
  destruct (key_eqb k k') eqn:E.
  - apply key_eqb_eq in E as ->. intros H; inversion H; auto.
  - intros H; right; auto.
Qed.
Lemma lookup_none k t : lookup k t = None -> forall e, ~ In (k, e) t.
Proof.
  induction t as [|[k' e'] t IH]; cbn; [intros _ e []|].
  destruct (key_eqb k k') eqn:E; [discriminate|].
  intros H e [Heq | Hin]; [inversion Heq; subst|eapply IH; eauto].
  rewrite key_eqb_refl in E. discriminate.
Qed.
Lemma lookup_cons_eq k e t : lookup k ((k, e) :: t) = Some e.
Proof. cbn. rewrite key_eqb_refl. reflexivity. Qed.
Lemma lookup_cons_neq k k' e t : key_eqb k k' = false -> lookup k ((k', e) :: t) = lookup k t.
Proof. intros H. cbn. rewrite H. reflexivity. Qed.

(* ---- extension ---- *)
Lemma ext_refl m : ext m m.
Proof. split; [exists []; rewrite app_nil_r; reflexivity | auto]. Qed.
Lemma ext_trans m1 m2 m3 : ext m1 m2 -> ext m2 m3 -> ext m1 m3.
Proof.
  intros [[l1 H1] T1] [[l2 H2] T2]. split.
  - exists (l1 ++ l2). rewrite H2, H1, app_assoc. reflexivity.
  - auto.
Qed.
Lemma ext_owned m m' e : ext m m' -> owned m e -> owned m' e.
Proof.
  intros [[l Hl] _] H. unfold owned, at_id in *. rewrite Hl.
  rewrite nth_error_app1; [exact H|]. apply nth_error_Some. congruence.
Qed.

(* ---- identity ---- *)
Lemma id_inj m a b : owned m a -> owned m b -> rid a = rid b -> a = b.
Proof. unfold owned. intros Ha Hb E. rewrite E in Ha. congruence. Qed.

Lemma re_eqb_owned m a b : owned m a -> owned m b -> re_eqb a b = true -> a = b.
Proof. intros Ha Hb E. apply N.eqb_eq in E. eapply id_inj; eauto. Qed.

Lemma owned_lt m e : wf m -> owned m e -> rid e < counter m.
Proof.
  intros W H. rewrite (wf_counter m W). unfold owned, at_id in H.
  assert (N.to_nat (rid e) < length (id2re m))%nat by (apply nth_error_Some; congruence). lia.
Qed.

Lemma at_id_owned m i e : wf m -> at_id m i = Some e -> owned m e.
Proof.
  intros W H. unfold owned. rewrite (wf_ids m W i e H). rewrite Nat2N.id. exact H.
Qed.

Lemma map_rid_inj m l1 l2 :
  (forall c, In c l1 -> owned m c) -> (forall c, In c l2 -> owned m c) ->
  map rid l1 = map rid l2 -> l1 = l2.
Proof.
  revert l2. induction l1 as [|a t IH]; destruct l2 as [|b t2]; cbn; intros H1 H2 E; try discriminate; auto.
  inversion E as [[Hab Ht]]. f_equal.
  - eapply id_inj; eauto.
  - apply IH; auto.
Qed.

Lemma key_of_inj m k1 k2 : k_closed m k1 -> k_closed m k2 -> key_of k1 = key_of k2 -> k1 = k2.
Proof.
  unfold k_closed. intros H1 H2 E.
  destruct k1, k2; cbn in E; try discriminate; cbn [children] in H1, H2; inversion E; subst; auto.
  - f_equal; eapply id_inj; eauto; [apply H1 | apply H2 | apply H1 | apply H2]; cbn; auto.
  - f_equal. eapply id_inj; eauto; [apply H1 | apply H2]; cbn; auto.
  - f_equal. eapply id_inj; eauto; [apply H1 | apply H2]; cbn; auto.
  - f_equal. eapply map_rid_inj; eauto.
  - f_equal. eapply map_rid_inj; eauto.
Qed.

(* ---- make ---- *)
Definition grow (m : mgr) (k : node) : mgr :=
  let n := counter m in
  let x := mk_node n k in
  let y := mk_node (n + 1) (NCompl x) in
  {| tbl := (KCompl n, y) :: (key_of k, x) :: tbl m; counter := n + 1 + 1;
     id2re := id2re m ++ [x; y]; cache := cache m;
     m_sigma := m_sigma m; m_empty := m_empty m; m_full := m_full m; m_eps := m_eps m;
     m_splus := m_splus m |}.

Lemma make_unfold m k : not_compl k -> make m k =
  let i := counter m in
  let '(m1, x) := store_make m k in
  if rid x =? i then
    let '(m2, y) := store_make m1 (NCompl x) in Some (set_id2re m2 (id2re m2 ++ [x; y]), x)
  else Some (m1, x).
Proof. destruct k; intros H; try contradiction; reflexivity. Qed.

Lemma make_existing m k e :
  wf m -> not_compl k -> lookup (key_of k) (tbl m) = Some e -> make m k = Some (m, e).
Proof.
  intros W Hk Hl. rewrite (make_unfold m k Hk). unfold store_make. rewrite Hl. cbv zeta.
  assert (Ho : owned m e) by (apply lookup_in in Hl; apply (wf_tbl m W) in Hl; tauto).
  pose proof (owned_lt m e W Ho) as Hlt.
  destruct (rid e =? counter m) eqn:E; [apply N.eqb_eq in E; lia | reflexivity].
Qed.

Lemma no_compl_key_of_counter m :
  wf m -> lookup (KCompl (counter m)) (tbl m) = None.
Proof.
  intros W. destruct (lookup (KCompl (counter m)) (tbl m)) as [e|] eqn:Hl; [exfalso|reflexivity].
  apply lookup_in in Hl. apply (wf_tbl m W) in Hl as [Hkey Ho].
  destruct e as [i nu cl k]; cbn in Hkey. destruct k; cbn in Hkey; try discriminate.
  inversion Hkey as [Hid].
  destruct (wf_child m W _ a Ho) as [Hoa Hlt]; [cbn; auto|].
  pose proof (owned_lt m a W Hoa). lia.
Qed.

Lemma make_new m k :
  wf m -> not_compl k -> lookup (key_of k) (tbl m) = None ->
  make m k = Some (grow m k, mk_node (counter m) k).
Proof.
  intros W Hk Hl. rewrite (make_unfold m k Hk). unfold store_make at 1. rewrite Hl. cbv zeta.
  replace (rid (mk_node (counter m) k) =? counter m) with true
    by (symmetry; apply N.eqb_eq; reflexivity).
  unfold store_make. cbn [tbl counter id2re cache set_store key_of rid mk_node lookup].
  assert (Hkx : key_eqb (KCompl (counter m)) (key_of k) = false).
  { destruct (key_eqb (KCompl (counter m)) (key_of k)) eqn:E; auto. apply key_eqb_eq in E.
    destruct k; cbn in E; try discriminate; contradiction. }
  rewrite Hkx. rewrite (no_compl_key_of_counter m W). reflexivity.
Qed.

Lemma make_total m k : wf m -> not_compl k -> exists m' t, make m k = Some (m', t).
Proof.
  intros W Hk. destruct (lookup (key_of k) (tbl m)) as [e|] eqn:Hl.
  - exists m, e. apply make_existing; auto.
  - eexists _, _. apply make_new; auto.
Qed.

Lemma nth_error_app_cases {A} (l l2 : list A) i x :
  nth_error (l ++ l2) i = Some x ->
  (i < length l)%nat /\ nth_error l i = Some x \/
  (length l <= i)%nat /\ nth_error l2 (i - length l) = Some x.
Proof.
  intros H. destruct (Nat.lt_ge_cases i (length l)) as [Hlt|Hge].
  - left. rewrite nth_error_app1 in H; auto.
  - right. rewrite nth_error_app2 in H; auto.
Qed.

(* the terms of [grow m k] are those of m, x at position n and y at n+1 *)
Lemma grow_at m k i e :
  wf m -> at_id (grow m k) i = Some e ->
  at_id m i = Some e \/
  (i = length (id2re m) /\ e = mk_node (counter m) k) \/
  (i = S (length (id2re m)) /\ e = mk_node (counter m + 1) (NCompl (mk_node (counter m) k))).
Proof.
  intros W H. unfold at_id, grow in H. cbn [id2re] in H.
  apply nth_error_app_cases in H as [[Hlt H] | [Hge H]]; [left; exact H|right].
  destruct (i - length (id2re m))%nat as [|[|j]] eqn:E; cbn in H.
  - left. split; [lia | congruence].
  - right. split; [lia | congruence].
  - destruct j; discriminate.
Qed.

Lemma grow_ext m k : ext m (grow m k).
Proof. split; [eexists; reflexivity | intros k0 e0 H; cbn; auto]. Qed.

Lemma grow_owned_x m k : wf m -> owned (grow m k) (mk_node (counter m) k).
Proof.
  intros W. unfold owned, at_id, grow. cbn [id2re rid mk_node].
  rewrite (wf_counter m W), Nat2N.id, nth_error_app2, Nat.sub_diag; auto.
Qed.
Lemma grow_owned_y m k :
  wf m -> owned (grow m k) (mk_node (counter m + 1) (NCompl (mk_node (counter m) k))).
Proof.
  intros W. unfold owned, at_id, grow. cbn [id2re rid mk_node].
  rewrite (wf_counter m W).
  replace (N.to_nat (N.of_nat (length (id2re m)) + 1)) with (S (length (id2re m))) by lia.
  rewrite nth_error_app2 by lia.
  replace (S (length (id2re m)) - length (id2re m))%nat with 1%nat by lia. reflexivity.
Qed.

Lemma grow_wf m k : wf m -> not_compl k -> k_closed m k -> node_ok k ->
  lookup (key_of k) (tbl m) = None -> wf (grow m k).
Proof.
  intros W Hk Hc Hok Hl.
  set (n := counter m). set (x := mk_node n k). set (y := mk_node (n + 1) (NCompl x)).
  pose proof (wf_counter m W) as Hcnt. fold n in Hcnt.
  assert (Hlen : N.to_nat n = length (id2re m)) by lia.
  pose proof (grow_owned_x m k W) as Hox. fold n in Hox. fold x in Hox.
  pose proof (grow_owned_y m k W) as Hoy. fold n in Hoy. fold x in Hoy. fold y in Hoy.
  pose proof (grow_ext m k) as Hext.
  assert (Hkx : key_eqb (KCompl n) (key_of k) = false).
  { destruct (key_eqb (KCompl n) (key_of k)) eqn:E; auto. apply key_eqb_eq in E.
    destruct k; cbn in E; try discriminate; contradiction. }
  assert (Hwx : wf_term x).
  { apply wf_term_mk_node; auto. intros c Hin. apply (wf_terms m W). apply Hc; auto. }
  assert (Hwy : wf_term y).
  { apply wf_term_mk_node; cbn; auto. intros c [<-|[]]; auto. }
  constructor.
  - cbn [grow counter id2re]. rewrite app_length; cbn. lia.
  - cbn [grow id2re]. rewrite app_length; cbn. destruct (wf_even m W) as [q Hq]. exists (S q). lia.
  - intros i e H. apply (grow_at m k i e W) in H as [H | [[-> ->] | [-> ->]]].
    + apply (wf_ids m W); exact H.
    + cbn. lia.
    + cbn. lia.
  - intros k0 e0 H. cbn [grow tbl] in H. destruct H as [H | [H | H]].
    + inversion H; subst. split; [reflexivity | exact Hoy].
    + inversion H; subst. split; [reflexivity | exact Hox].
    + apply (wf_tbl m W) in H as [H1 H2]. split; auto. eapply ext_owned; eauto.
  - intros e He. apply (grow_at m k _ e W) in He as [He | [[Hi ->] | [Hi ->]]].
    + pose proof (wf_lookup m W e He) as Hlk. cbn [grow tbl lookup]. fold n.
      destruct (key_eqb (key_of (rnode e)) (KCompl n)) eqn:E1.
      { apply key_eqb_eq in E1. rewrite E1 in Hlk. unfold n in Hlk.
        rewrite (no_compl_key_of_counter m W) in Hlk. discriminate. }
      destruct (key_eqb (key_of (rnode e)) (key_of k)) eqn:E2.
      { apply key_eqb_eq in E2. rewrite E2 in Hlk. congruence. }
      exact Hlk.
    + cbn [grow tbl]. fold n. fold x. fold y. replace (rnode x) with k by reflexivity.
      rewrite lookup_cons_neq by (apply key_eqb_sym_false; exact Hkx). apply lookup_cons_eq.
    + cbn [grow tbl]. fold n. fold x. fold y.
      replace (key_of (rnode y)) with (KCompl n) by reflexivity. apply lookup_cons_eq.
  - intros e c He Hin. apply (grow_at m k _ e W) in He as [He | [[Hi ->] | [Hi ->]]].
    + destruct (wf_child m W e c He Hin) as [H1 H2]. split; auto. eapply ext_owned; eauto.
    + cbn [rnode mk_node] in Hin. pose proof (Hc c Hin) as Hoc. split; [eapply ext_owned; eauto|].
      pose proof (owned_lt m c W Hoc). cbn. lia.
    + cbn in Hin. destruct Hin as [<- | []]. split; [exact Hox | cbn; lia].
  - intros e He. apply (grow_at m k _ e W) in He as [He | [[Hi ->] | [Hi ->]]]; auto.
    apply (wf_terms m W); exact He.
  - intros i a b Hev Ha Hb.
    apply (grow_at m k _ a W) in Ha as [Ha | [[Hi ->] | [Hi ->]]].
    + assert (Hlt : (i < length (id2re m))%nat) by (apply nth_error_Some; unfold at_id in Ha; congruence).
      assert (Hlt' : (S i < length (id2re m))%nat).
      { destruct (wf_even m W) as [q Hq]. destruct Hev as [p Hp]. lia. }
      unfold at_id, grow in Hb. cbn [id2re] in Hb. rewrite nth_error_app1 in Hb by exact Hlt'.
      apply (wf_pair m W i a b Hev Ha Hb).
    + subst i. pose proof Hoy as Hoy'. unfold owned in Hoy'. cbn [rid y mk_node] in Hoy'.
      replace (N.to_nat (n + 1)) with (S (length (id2re m))) in Hoy' by lia.
      rewrite Hoy' in Hb. inversion Hb; subst b. split; [reflexivity|].
      intros w _. cbn. tauto.
    + exfalso. destruct (wf_even m W) as [q Hq]. destruct Hev as [p Hp]. lia.
  - destruct (wf_consts m W) as [C1 C2 C3 C4 C5 O1 O2 O3 O4 O5].
    constructor; cbn [grow m_sigma m_empty m_full m_eps m_splus]; auto;
      eapply ext_owned; eauto.
  - exact (cache_ok_same_cache m (grow m k) eq_refl Hext (wf_cache m W)).
Qed.

Theorem make_wf m k m' t :
  wf m -> not_compl k -> k_closed m k -> node_ok k -> make m k = Some (m', t) ->
  wf m' /\ ext m m' /\ owned m' t /\ rnode t = k.
Proof.
  intros W Hk Hc Hok Hmk.
  destruct (lookup (key_of k) (tbl m)) as [e|] eqn:Hl.
  - rewrite (make_existing m k e W Hk Hl) in Hmk. inversion Hmk; subst.
    apply lookup_in in Hl. apply (wf_tbl _ W) in Hl as [Hkey Ho].
    split; [exact W|]. split; [apply ext_refl|]. split; [exact Ho |].
    apply (key_of_inj m'); auto.
    intros c Hin. apply (wf_child m' W t c Ho Hin).
  - rewrite (make_new m k W Hk Hl) in Hmk. inversion Hmk; subst.
    split; [apply grow_wf; auto|]. split; [apply grow_ext|]. split; [apply grow_owned_x; auto|].
    reflexivity.
Qed.

(* the term made denotes the language of its node *)
Lemma L_node_irrel i n c i' n' c' k w : L (Node i n c k) w <-> L (Node i' n' c' k) w.
Proof. destruct k; cbn [L]; tauto. Qed.

Lemma L_rnode t k w : rnode t = k -> (L t w <-> L (mk_node 0 k) w).
Proof. destruct t as [i n c k0]. cbn [rnode]. intros ->. apply L_node_irrel. Qed.

Theorem make_lang m k m' t :
  wf m -> not_compl k -> k_closed m k -> node_ok k -> make m k = Some (m', t) ->
  forall w, L t w <-> L (mk_node 0 k) w.
Proof.
  intros W Hk Hc Hok Hmk w. apply L_rnode. eapply make_wf; eauto.
Qed.

(* the cache is irrelevant to the constructor layer: replacing it keeps every other field of wf
   (with a real cache invariant the premise [cache_ok (set_cache m c)] becomes an obligation) *)
Lemma wf_set_cache m c : wf m -> cache_ok (set_cache m c) -> wf (set_cache m c).
Proof.
  intros [H1 H2 H3 H4 H5 H6 H7 H8 [C1 C2 C3 C4 C5 O1 O2 O3 O4 O5] H10] Hc.
  constructor; auto. constructor; auto.
Qed.
Lemma make_cache m k m' t : make m k = Some (m', t) -> not_compl k -> cache m' = cache m.
Proof.
  intros H Hk. rewrite (make_unfold m k Hk) in H. unfold store_make in H.
  destruct (lookup (key_of k) (tbl m)); cbv zeta in H.
  - destruct (rid r =? counter m); [|inversion H; reflexivity].
    cbn [tbl] in H. destruct (lookup (key_of (NCompl r)) (tbl m)); inversion H; reflexivity.
  - destruct (rid (mk_node (counter m) k) =? counter m); [|inversion H; reflexivity].
    cbn [tbl set_store] in H.
    match type of H with context [lookup ?a ?b] => destruct (lookup a b) end; inversion H; reflexivity.
Qed.

(* ------------------------------------------------------------------------------------------ *)
(** * The constants and the initial manager *)

Lemma mem_all c : mem c (0, MAXC) <-> good c.
Proof. unfold mem, good. cbn [fst snd]. lia. Qed.

Lemma cp_pow_chars (A : lang) n w :
  (forall u, A u <-> exists c, u = [c] /\ good c) ->
  (l_pow A n w <-> length w = n /\ goodw w).
Proof.
  intros HA. revert w. induction n as [|n IH]; intros w; cbn [l_pow].
  - split; [intros ->; split; [reflexivity | constructor] | intros [H _]; destruct w; [auto | discriminate]].
  - split.
    + intros (u & v & -> & Hu & Hv). apply HA in Hu as (c & -> & Hc). apply IH in Hv as [Hl Hg].
      cbn. split; [lia | constructor; auto].
    + intros [Hl Hg]. destruct w as [|c v]; [discriminate|]. inversion Hg; subst.
      exists [c], v. repeat split; [apply HA; exists c; auto | apply IH; split; [cbn in Hl; lia | auto]].
Qed.

Lemma L_sigma_node i n c u : L (Node i n c (NRange (0, MAXC))) u <-> exists x, u = [x] /\ good x.
Proof.
  cbn [L]. split; intros (x & E & H); exists x; (split; [exact E|]).
  - apply (proj1 (mem_all x)); exact H.
  - apply (proj2 (mem_all x)); exact H.
Qed.

Lemma L_star_sigma i n c s w :
  (forall u, L s u <-> exists x, u = [x] /\ good x) ->
  (L (Node i n c (NLoop s lr_star)) w <-> goodw w).
Proof.
  intros Hs. cbn [L]. split.
  - intros (k & _ & Hp). apply (cp_pow_chars _ k w Hs) in Hp. tauto.
  - intros Hg. exists (length w). split; [unfold in_lr, inr, lr_star; lia|].
    apply (cp_pow_chars _ _ w Hs). auto.
Qed.

Lemma L_plus_sigma i n c s w :
  (forall u, L s u <-> exists x, u = [x] /\ good x) ->
  (L (Node i n c (NLoop s lr_plus)) w <-> goodw w /\ w <> []).
Proof.
  intros Hs. cbn [L]. split.
  - intros (k & Hk & Hp). apply (cp_pow_chars _ k w Hs) in Hp as [Hl Hg]. split; auto.
    unfold in_lr, inr, lr_plus in Hk. intros ->. cbn in Hl. lia.
  - intros [Hg Hne]. exists (length w). split.
    + unfold in_lr, inr, lr_plus. destruct w; [congruence | cbn; lia].
    + apply (cp_pow_chars _ _ w Hs). auto.
Qed.

Lemma L_m_sigma m u : wf m -> (L (m_sigma m) u <-> exists x, u = [x] /\ good x).
Proof. intros W. rewrite (c_sigma m (wf_consts m W)). apply L_sigma_node. Qed.
Lemma L_m_empty m w : wf m -> (L (m_empty m) w <-> False).
Proof. intros W. rewrite (c_empty m (wf_consts m W)). cbn. tauto. Qed.
Lemma L_m_eps m w : wf m -> (L (m_eps m) w <-> w = []).
Proof. intros W. rewrite (c_eps m (wf_consts m W)). cbn. tauto. Qed.
Lemma L_m_full m w : wf m -> (L (m_full m) w <-> goodw w).
Proof.
  intros W. rewrite (c_full m (wf_consts m W)). apply L_star_sigma. intros u. apply L_m_sigma; auto.
Qed.
Lemma L_m_splus m w : wf m -> (L (m_splus m) w <-> goodw w /\ w <> []).
Proof.
  intros W. rewrite (c_splus m (wf_consts m W)). apply L_plus_sigma. intros u. apply L_m_sigma; auto.
Qed.

Definition sigma0 := mk_node 0 (NRange (0, MAXC)).
Definition nsigma0 := mk_node 1 (NCompl sigma0).
Definition empty0 := mk_node 2 NEmpty.
Definition full0 := mk_node 3 (NLoop sigma0 lr_star).
Definition eps0 := mk_node 4 NEps.
Definition splus0 := mk_node 5 (NLoop sigma0 lr_plus).

Lemma new_mgr_id2re : id2re new_mgr = [sigma0; nsigma0; empty0; full0; eps0; splus0].
Proof. vm_compute. reflexivity. Qed.
Lemma new_mgr_tbl : tbl new_mgr =
  [(KLoop 0 lr_plus, splus0); (KEps, eps0); (KLoop 0 lr_star, full0); (KEmpty, empty0);
   (KCompl 0, nsigma0); (KRange (0, MAXC), sigma0)].
Proof. vm_compute. reflexivity. Qed.

Lemma new_mgr_at i e : at_id new_mgr i = Some e ->
  (i = 0 /\ e = sigma0 \/ i = 1 /\ e = nsigma0 \/ i = 2 /\ e = empty0 \/
   i = 3 /\ e = full0 \/ i = 4 /\ e = eps0 \/ i = 5 /\ e = splus0)%nat.
Proof.
  unfold at_id. rewrite new_mgr_id2re.
  do 6 (destruct i as [|i]; [cbn; intros H; inversion H; tauto|]).
  cbn. destruct i; discriminate.
Qed.

Theorem new_mgr_wf : wf new_mgr.
Proof.
  assert (Hown : forall e, In e [sigma0; nsigma0; empty0; full0; eps0; splus0] -> owned new_mgr e).
  { intros e He. unfold owned, at_id. rewrite new_mgr_id2re.
    cbn in He. intuition (subst; reflexivity). }
  constructor.
  - vm_compute. reflexivity.
  - rewrite new_mgr_id2re. exists 3%nat. reflexivity.
  - intros i e H. apply new_mgr_at in H. intuition (subst; reflexivity).
  - intros k e H. rewrite new_mgr_tbl in H. cbn [In] in H.
    intuition (try match goal with H : (_, _) = (_, _) |- _ => inversion H; subst end);
      try reflexivity; apply Hown; cbn; auto 10.
  - intros e H. apply new_mgr_at in H. rewrite new_mgr_tbl.
    intuition (subst; vm_compute; reflexivity).
  - intros e c H Hin. apply new_mgr_at in H.
    assert (Hs : owned new_mgr sigma0) by (apply Hown; cbn; auto).
    intuition (subst; cbn in Hin; intuition (subst; cbn; try lia; auto)).
  - intros e H. apply new_mgr_at in H.
    assert (Hs : wf_term sigma0).
    { apply wf_term_mk_node; cbn; [|tauto]. unfold cs_valid, MAXC; cbn; lia. }
    assert (Hc1 : forall c, In c [sigma0] -> wf_term c) by (intros c [<-|[]]; exact Hs).
    assert (Hc0 : forall c : re, In c [] -> wf_term c) by (intros c []).
    destruct H as [[_ ->] | [[_ ->] | [[_ ->] | [[_ ->] | [[_ ->] | [_ ->]]]]]].
    + exact Hs.
    + apply wf_term_mk_node; [exact I | exact Hc1].
    + apply wf_term_mk_node; [exact I | exact Hc0].
    + apply wf_term_mk_node; [|exact Hc1]. unfold node_ok, lr_star, lr_valid, U32MAX. lia.
    + apply wf_term_mk_node; [exact I | exact Hc0].
    + apply wf_term_mk_node; [|exact Hc1]. unfold node_ok, lr_plus, lr_valid, U32MAX. lia.
  - intros i x y Hev Hx Hy. apply new_mgr_at in Hx. apply new_mgr_at in Hy.
    assert (Hsig : forall u, L sigma0 u <-> exists c, u = [c] /\ good c)
      by (intros u; apply L_sigma_node).
    destruct Hx as [[-> ->] | [[-> ->] | [[-> ->] | [[-> ->] | [[-> ->] | [-> ->]]]]]];
      try (exfalso; destruct Hev as [q Hq]; lia);
      (destruct Hy as [[Ei ->] | [[Ei ->] | [[Ei ->] | [[Ei ->] | [[Ei ->] | [Ei ->]]]]]];
       try discriminate Ei).
    + split; [reflexivity|]. intros w _. cbn. tauto.
    + split; [congruence|]. intros w Hg. unfold full0, empty0, mk_node.
      rewrite (L_star_sigma _ _ _ sigma0 w Hsig). cbn. tauto.
    + split; [congruence|]. intros w Hg. unfold splus0, eps0, mk_node.
      rewrite (L_plus_sigma _ _ _ sigma0 w Hsig). cbn. tauto.
  - constructor; try (vm_compute; reflexivity); apply Hown; vm_compute; auto 10.
  - exact cache_ok_initial.
Qed.

(* ------------------------------------------------------------------------------------------ *)
(** * Complement *)

Lemma lxor1_even n : N.even n = true -> N.lxor n 1 = n + 1.
Proof.
  intros H. destruct n as [|p]; [reflexivity|]. destruct p; cbn in H; try discriminate. reflexivity.
Qed.
Lemma lxor1_odd n : N.even n = false -> N.lxor n 1 = n - 1 /\ 1 <= n.
Proof.
  intros H. destruct n as [|p]; [discriminate|]. destruct p as [p|p|]; cbn in H; try discriminate.
  - split; [|lia]. cbn. destruct p; reflexivity.
  - split; [reflexivity | lia].
Qed.

Lemma even_nat_N n : N.even n = true <-> Nat.Even (N.to_nat n).
Proof.
  rewrite N.even_spec. split; intros [q Hq].
  - exists (N.to_nat q). lia.
  - exists (N.of_nat q). lia.
Qed.

(* the partner of an owned term: the term at id xor 1 *)
Lemma partner m e : wf m -> owned m e ->
  exists r, complement m e = Some r /\ owned m r /\ rid r = N.lxor (rid e) 1 /\
            forall w, goodw w -> (L r w <-> ~ L e w).
Proof.
  intros W Ho. unfold complement, id_to_re.
  pose proof (owned_lt m e W Ho) as Hlt. rewrite (wf_counter m W) in Hlt.
  destruct (wf_even m W) as [q Hq].
  destruct (N.even (rid e)) eqn:Ev.
  - rewrite (lxor1_even _ Ev). apply even_nat_N in Ev.
    assert (Hlt' : (N.to_nat (rid e + 1) < length (id2re m))%nat).
    { destruct Ev as [p Hp]. lia. }
    destruct (nth_error (id2re m) (N.to_nat (rid e + 1))) as [r|] eqn:Hr;
      [|apply nth_error_None in Hr; lia].
    exists r. split; [reflexivity|].
    assert (Hor : owned m r) by (eapply at_id_owned; eauto).
    split; [exact Hor|]. split.
    + rewrite (wf_ids m W _ r Hr). lia.
    + replace (N.to_nat (rid e + 1)) with (S (N.to_nat (rid e))) in Hr by lia.
      apply (wf_pair m W _ e r Ev Ho Hr).
  - destruct (lxor1_odd _ Ev) as [-> Hge].
    assert (Ev' : Nat.Even (N.to_nat (rid e - 1))).
    { apply even_nat_N. replace (rid e) with (N.succ (rid e - 1)) in Ev by lia.
      rewrite N.even_succ in Ev. rewrite <- N.negb_odd in *. destruct (N.odd (rid e - 1)); auto. }
    destruct (nth_error (id2re m) (N.to_nat (rid e - 1))) as [r|] eqn:Hr;
      [|apply nth_error_None in Hr; lia].
    exists r. split; [reflexivity|].
    assert (Hor : owned m r) by (eapply at_id_owned; eauto).
    split; [exact Hor|]. split.
    + rewrite (wf_ids m W _ r Hr). lia.
    + assert (He : at_id m (S (N.to_nat (rid e - 1))) = Some e).
      { replace (S (N.to_nat (rid e - 1))) with (N.to_nat (rid e)) by lia. exact Ho. }
      destruct (wf_pair m W _ r e Ev' Hr He) as [_ Hsem].
      intros w Hg. specialize (Hsem w Hg). destruct (L_dec r w); tauto.
Qed.

Theorem complement_ok m e : wf m -> owned m e ->
  exists r, complement m e = Some r /\ owned m r /\ forall w, goodw w -> (L r w <-> ~ L e w).
Proof.
  intros W Ho. destruct (partner m e W Ho) as (r & H1 & H2 & _ & H3). exists r. auto.
Qed.

Theorem complement_involutive m e r :
  wf m -> owned m e -> complement m e = Some r -> complement m r = Some e.
Proof.
  intros W Ho Hc. destruct (partner m e W Ho) as (r' & H1 & H2 & H3 & _).
  rewrite H1 in Hc. inversion Hc; subst r'.
  unfold complement, id_to_re. rewrite H3, N.lxor_assoc. cbn. rewrite N.lxor_0_r. exact Ho.
Qed.

Theorem complement_no_fixpoint m e r :
  wf m -> owned m e -> complement m e = Some r -> rid r <> rid e.
Proof.
  intros W Ho Hc. destruct (partner m e W Ho) as (r' & H1 & H2 & H3 & _).
  rewrite H1 in Hc. inversion Hc; subst r'. rewrite H3.
  destruct (N.even (rid e)) eqn:Ev.
  - rewrite (lxor1_even _ Ev). lia.
  - destruct (lxor1_odd _ Ev) as [-> Hge]. lia.
Qed.

(* ------------------------------------------------------------------------------------------ *)
(** * The nullable attribute *)

Lemma cp_pow_nil (A : lang) n : A [] -> l_pow A n [].
Proof. intros H. induction n; cbn; auto. exists [], []. auto. Qed.
Lemma cp_pow_nil_inv (A : lang) n : l_pow A (S n) [] -> A [].
Proof. cbn. intros (u & v & E & Hu & _). symmetry in E. apply app_eq_nil in E as [-> _]. auto. Qed.

Theorem nullable_correct e : wf_term e -> (rnul e = true <-> L e []).
Proof.
  induction e as [e IH] using re_induction. intros We.
  apply wf_term_iff in We as (Hn & _ & Hok & Hch).
  rewrite Hn. destruct e as [i n c k]. cbn [rnode] in *. clear Hn.
  assert (IH' : forall c, In c (children k) -> (rnul c = true <-> L c [])) by (intros; auto).
  clear IH Hch. destruct k as [| |s|a b|a r|a|l|l]; cbn [children k_nullable node_ok] in *.
  - cbn. split; [discriminate | tauto].
  - cbn. tauto.
  - cbn. split; [discriminate | intros (x & E & _); discriminate].
  - rewrite andb_true_iff, (IH' a), (IH' b) by (cbn; auto). cbn [L]. split.
    + intros [Ha Hb]. exists [], []. auto.
    + intros (u & v & E & Hu & Hv). symmetry in E. apply app_eq_nil in E as [-> ->]. auto.
  - rewrite orb_true_iff, N.eqb_eq, (IH' a) by (cbn; auto). cbn [L]. split.
    + intros [H0 | Ha].
      * exists O. split; [|reflexivity]. destruct r as [lo [hi|]]; cbn in *; lia.
      * exists (N.to_nat (lr_start r)). split; [|apply cp_pow_nil; auto].
        destruct r as [lo [hi|]]; cbn in *; lia.
    + intros (k & Hk & Hp). destruct k as [|k].
      * left. destruct r as [lo [hi|]]; cbn in *; lia.
      * right. eapply cp_pow_nil_inv; eauto.
  - rewrite negb_true_iff. cbn [L]. rewrite <- (IH' a) by (cbn; auto). destruct (rnul a); split; congruence.
  - rewrite L_union, existsb_exists. split; intros (x & Hx & H); exists x; split; auto; apply (IH' x); auto.
  - rewrite L_inter, forallb_forall. split; intros H x Hx; apply (IH' x); auto.
Qed.

Lemma nullable_owned m e : wf m -> owned m e -> (rnul e = true <-> L e []).
Proof. intros W Ho. apply nullable_correct. apply (wf_terms m W); auto. Qed.

(* what [wf] says, field by field (a restatement used by Properties/C01.v) *)
Lemma wf_meaning : forall m, wf m ->
  counter m = N.of_nat (length (id2re m)) /\
  Nat.Even (length (id2re m)) /\
  (forall i e, nth_error (id2re m) i = Some e -> rid e = N.of_nat i) /\
  (forall k e, In (k, e) (tbl m) -> key_of (rnode e) = k /\ owned m e) /\
  (forall e, owned m e -> lookup (key_of (rnode e)) (tbl m) = Some e) /\
  (forall e c, owned m e -> In c (children (rnode e)) -> owned m c /\ rid c < rid e) /\
  (forall e, owned m e -> wf_term e) /\
  (forall i x y, Nat.Even i -> nth_error (id2re m) i = Some x -> nth_error (id2re m) (S i) = Some y ->
     (i <> 2%nat -> i <> 4%nat -> rnode y = NCompl x) /\
     forall w, goodw w -> (L y w <-> ~ L x w)) /\
  (m_sigma m = mk_node 0 (NRange (0, MAXC)) /\ m_empty m = mk_node 2 NEmpty /\
   m_full m = mk_node 3 (NLoop (m_sigma m) lr_star) /\ m_eps m = mk_node 4 NEps /\
   m_splus m = mk_node 5 (NLoop (m_sigma m) lr_plus) /\
   owned m (m_sigma m) /\ owned m (m_empty m) /\ owned m (m_full m) /\ owned m (m_eps m) /\
   owned m (m_splus m)).
Proof.
  intros m [H1 H2 H3 H4 H5 H6 H7 H8 [C1 C2 C3 C4 C5 O1 O2 O3 O4 O5] _].
  split; [exact H1|]. split; [exact H2|]. split; [exact H3|]. split; [exact H4|].
  split; [exact H5|]. split; [exact H6|]. split; [exact H7|]. split; [exact H8|].
  repeat split; assumption.
Qed.

Print Assumptions make_wf.
Print Assumptions new_mgr_wf.
Print Assumptions complement_ok.
Print Assumptions nullable_correct.
