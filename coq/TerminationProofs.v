(* TerminationProofs.v -- termination of the derivative exploration (ReManager::iter_derivatives).
   Contents
     iter_status_*            the three-valued run [iter_status] vs [iter_derivatives]
     tinv, push_all_tinv      the loop invariant: dwf + honest cache + new nodes normal + every seen term
                              is owned and has potential <= the potential of the start term
     iter_no_divergence       with fuel  term_bound + 1  the run is not out of fuel
     iter_never_panics        no class derivative inside the exploration panics (D11 repaired)
     iter_terminates          hence the exploration returns, for every term of an honest manager
     D11_prefix_witness       the pre-repair ReManager::concat panicked (u32 overflow of merged loop
                              bounds) on terms built by the public constructors; the repaired one returns
     iter_overflow_witness_repaired   on the witness term the derivative and the exploration now return
     run_hon                  every manager reached by a construction program has an honest cache *)
Require Import Base CharSet Partition PartitionSpec LoopRange Regex Inclusion Constructors Deriv Explore Denote Sem.
Require Import Lang PartitionProofs LoopRangeProofs ManagerProofs ConstructorProofs RunProofs DerivProofs.
Require Import Termination TerminationPot TerminationNorm TerminationDeriv TerminationFin TerminationTotal TerminationRun.
Require ExploreProofs.
Open Scope N_scope.

(* ------------------------------------------------------------------------------------------ *)
(** * The three-valued run *)

Lemma iter_go_st_finished f : forall m q s out m' l,
  iter_go_st f m q s out = Finished m' l <-> iter_go f m q s out = Some (m', l).
Proof.
  induction f as [|f IH]; intros m q s out m' l; cbn [iter_go_st iter_go]; [split; discriminate|].
  destruct q as [|r q]; [split; intros H; inversion H; reflexivity|].
  destruct (push_all_derivs m r (pclass_ids (rcls r)) q s) as [[[m1 q1] s1]|]; cbn [bind]; [apply IH | split; discriminate].
Qed.
Theorem iter_status_finished fuel m e m' l :
  iter_status fuel m e = Finished m' l <-> iter_derivatives fuel m e = Some (m', l).
Proof. apply iter_go_st_finished. Qed.

Lemma iter_go_st_none f : forall m q s out,
  (iter_go_st f m q s out = Panicked \/ iter_go_st f m q s out = OutOfFuel) <-> iter_go f m q s out = None.
Proof.
  induction f as [|f IH]; intros m q s out; cbn [iter_go_st iter_go]; [split; auto|].
  destruct q as [|r q]; [split; [intros [H|H]; discriminate | discriminate]|].
  destruct (push_all_derivs m r (pclass_ids (rcls r)) q s) as [[[m1 q1] s1]|]; cbn [bind]; [apply IH | split; auto].
Qed.

(* a panic is a class derivative that returns None; more fuel does not help *)
Lemma iter_go_st_panicked_mono f : forall f' m q s out,
  iter_go_st f m q s out = Panicked -> (f <= f')%nat -> iter_go_st f' m q s out = Panicked.
Proof.
  induction f as [|f IH]; intros f' m q s out H Hf; cbn [iter_go_st] in H; [discriminate|].
  destruct f' as [|f']; [lia|]. cbn [iter_go_st]. destruct q as [|r q]; [discriminate|].
  destruct (push_all_derivs m r (pclass_ids (rcls r)) q s) as [[[m1 q1] s1]|]; [|reflexivity].
  apply IH; [exact H | lia].
Qed.
Lemma iter_go_st_panicked_less f : forall f' m q s out,
  iter_go_st f m q s out = Panicked -> iter_go_st f' m q s out = Panicked \/ iter_go_st f' m q s out = OutOfFuel.
Proof.
  induction f as [|f IH]; intros f' m q s out H; cbn [iter_go_st] in H; [discriminate|].
  destruct f' as [|f']; [right; reflexivity|]. cbn [iter_go_st]. destruct q as [|r q]; [discriminate|].
  destruct (push_all_derivs m r (pclass_ids (rcls r)) q s) as [[[m1 q1] s1]|]; [|left; reflexivity].
  apply IH; exact H.
Qed.
Theorem iter_status_panicked fuel m e :
  iter_status fuel m e = Panicked -> forall fuel', iter_derivatives fuel' m e = None.
Proof.
  intros H f'. apply iter_go_st_none. apply (iter_go_st_panicked_less fuel f'). exact H.
Qed.

Lemma push_all_none r : forall cids m q s, push_all_derivs m r cids q s = None ->
  exists m1 cid, In cid cids /\ cached_deriv r m1 cid = None.
Proof.
  induction cids as [|cid t IH]; intros m q s H; cbn [push_all_derivs] in H; [discriminate|].
  destruct (cached_deriv r m cid) as [[m1 d]|] eqn:E; cbn [bind] in H.
  - destruct (existsb (re_eqb d) s); apply IH in H as (m2 & c & Hc & Hn); exists m2, c; split; auto; right; exact Hc.
  - exists m, cid. split; [left; reflexivity | exact E].
Qed.
Lemma iter_go_st_panicked_why f : forall m q s out, iter_go_st f m q s out = Panicked ->
  exists m1 r cid, pvalid (rcls r) cid = true /\ cached_deriv r m1 cid = None.
Proof.
  induction f as [|f IH]; intros m q s out H; cbn [iter_go_st] in H; [discriminate|].
  destruct q as [|r q]; [discriminate|].
  destruct (push_all_derivs m r (pclass_ids (rcls r)) q s) as [[[m1 q1] s1]|] eqn:E; [apply (IH _ _ _ _ H)|].
  apply push_all_none in E as (m2 & cid & Hc & Hn). exists m2, r, cid. split; [apply pclass_ids_in; exact Hc | exact Hn].
Qed.
Theorem iter_status_panicked_why fuel m e : iter_status fuel m e = Panicked ->
  exists m1 r cid, pvalid (rcls r) cid = true /\ cached_deriv r m1 cid = None.
Proof. apply iter_go_st_panicked_why. Qed.

(* ------------------------------------------------------------------------------------------ *)
(** * The loop invariant *)

Record tinv (c0 P : N) (m : mgr) (s : list re) : Prop := {
  t_dwf : dwf m;
  t_hon : hon m;
  t_nn : nn c0 m;
  t_own : forall t, In t s -> owned m t;
  t_pot : forall t, In t s -> phi t <= P
}.

Lemma push_all_tinv c0 P r : forall cids m q s m1 q1 s1,
  push_all_derivs m r cids q s = Some (m1, q1, s1) ->
  tinv c0 P m s -> owned m r -> phi r <= P -> (forall cid, In cid cids -> pvalid (rcls r) cid = true) ->
  tinv c0 P m1 s1.
Proof.
  induction cids as [|cid t IH]; intros m q s m1 q1 s1 H T Or Pr Hv; cbn [push_all_derivs] in H.
  - inversion H; subst. exact T.
  - destruct (cached_deriv r m cid) as [[m2 d]|] eqn:E; cbn [bind] in H; [|discriminate].
    destruct T as [Dm Hm Nm Ho Hp].
    destruct (cached_deriv_pot c0 r m cid m2 d Dm Hm Nm Or (Hv cid (or_introl eq_refl)) E)
      as ((D2 & X2 & Od) & Pd & H2 & N2).
    assert (Hv' : forall c, In c t -> pvalid (rcls r) c = true) by (intros c Hc; apply Hv; right; exact Hc).
    assert (Ho2 : forall x, In x s -> owned m2 x) by (intros x Hx; eapply ext_owned; [exact X2 | apply Ho; exact Hx]).
    destruct (existsb (re_eqb d) s).
    + apply (IH m2 q s m1 q1 s1 H); auto. constructor; auto. eapply ext_owned; eauto.
    + apply (IH m2 (q ++ [d]) (d :: s) m1 q1 s1 H); auto; [|eapply ext_owned; eauto].
      constructor; auto.
      * intros x [<-|Hx]; auto.
      * intros x [<-|Hx]; [lia | auto].
Qed.

Lemma tinv_length c0 P m q s out : tinv c0 P m s -> ExploreProofs.bfs_inv q s out ->
  (length out + length q <= term_bound c0 P)%nat.
Proof.
  intros [[W NZ] Hm Nm Ho Hp] [Es Hn]. rewrite <- app_length.
  replace (length (out ++ q)) with (length s) by (rewrite Es, rev_length; reflexivity).
  apply (count_bound c0 P m s W NZ Nm Ho).
  - intros t Ht. pose proof (phi_ge_pa t). specialize (Hp t Ht). lia.
  - rewrite Es, map_rev. apply NoDup_rev. exact Hn.
Qed.

Lemma iter_go_st_bounded c0 P f : forall m q s out,
  tinv c0 P m s -> ExploreProofs.bfs_inv q s out ->
  (term_bound c0 P + 1 <= f + length out)%nat -> iter_go_st f m q s out <> OutOfFuel.
Proof.
  induction f as [|f IH]; intros m q s out T B Hf.
  - pose proof (tinv_length c0 P m q s out T B). lia.
  - cbn [iter_go_st]. destruct q as [|r q]; [discriminate|].
    destruct (push_all_derivs m r (pclass_ids (rcls r)) q s) as [[[m1 q1] s1]|] eqn:E; [|discriminate].
    assert (Hr : In r s) by (destruct B as [Es _]; rewrite Es, <- in_rev; apply in_or_app; right; left; reflexivity).
    apply IH.
    + apply (push_all_tinv c0 P r _ m q s m1 q1 s1 E T (t_own _ _ _ _ T r Hr) (t_pot _ _ _ _ T r Hr)).
      intros cid Hc. apply pclass_ids_in. exact Hc.
    + eapply ExploreProofs.push_all_bfs_inv; eauto.
    + rewrite app_length. cbn [length]. lia.
Qed.

Lemma tinv_init m e : dwf m -> hon m -> owned m e -> tinv (counter m) (phi e) m [e].
Proof.
  intros Dm Hm Oe. constructor; auto.
  - apply nn_start. apply Dm.
  - intros t [<-|[]]. exact Oe.
  - intros t [<-|[]]. lia.
Qed.

(* The exploration cannot diverge: with fuel [term_bound + 1] it has returned or a derivative has
   panicked.  [term_bound (counter m) (phi e)] bounds the number of distinct terms ever seen. *)
Theorem iter_no_divergence m e : dwf m -> hon m -> owned m e ->
  iter_status (S (term_bound (counter m) (phi e))) m e <> OutOfFuel.
Proof.
  intros Dm Hm Oe. apply (iter_go_st_bounded (counter m) (phi e)).
  - apply tinv_init; auto.
  - apply ExploreProofs.bfs_inv_init.
  - cbn [length]. lia.
Qed.

Theorem iter_terminates_or_panics m e : dwf m -> hon m -> owned m e ->
  (exists fuel m' l, iter_derivatives fuel m e = Some (m', l)) \/
  (exists m1 r cid, pvalid (rcls r) cid = true /\ cached_deriv r m1 cid = None).
Proof.
  intros Dm Hm Oe. pose proof (iter_no_divergence m e Dm Hm Oe) as H.
  destruct (iter_status (S (term_bound (counter m) (phi e))) m e) as [m' l| |] eqn:E.
  - left. exists (S (term_bound (counter m) (phi e))), m', l. apply iter_status_finished. exact E.
  - right. apply (iter_status_panicked_why _ m e E).
  - contradiction.
Qed.

(* ------------------------------------------------------------------------------------------ *)
(** * No panic (D11 repaired), hence the exploration returns -- for every term, no bound on its potential *)

Lemma push_all_some c0 P r : forall cids m q s,
  tinv c0 P m s -> owned m r -> phi r <= P -> (forall cid, In cid cids -> pvalid (rcls r) cid = true) ->
  exists res, push_all_derivs m r cids q s = Some res.
Proof.
  induction cids as [|cid t IH]; intros m q s T Or Pr Hv; cbn [push_all_derivs].
  - eexists; reflexivity.
  - destruct T as [Dm Hm Nm Ho Hp].
    destruct (cached_deriv_total_pot c0 r m cid Dm Hm Nm Or (Hv cid (or_introl eq_refl)))
      as (m2 & d & E & (D2 & X2 & Od) & Pd & H2 & N2).
    rewrite E. cbn [bind].
    assert (Hv' : forall c, In c t -> pvalid (rcls r) c = true) by (intros c Hc; apply Hv; right; exact Hc).
    assert (Ho2 : forall x, In x s -> owned m2 x) by (intros x Hx; eapply ext_owned; [exact X2 | apply Ho; exact Hx]).
    destruct (existsb (re_eqb d) s).
    + apply IH; auto; [constructor; auto | eapply ext_owned; eauto].
    + apply IH; auto; [|eapply ext_owned; eauto].
      constructor; auto.
      * intros x [<-|Hx]; auto.
      * intros x [<-|Hx]; [lia | auto].
Qed.

Lemma iter_go_st_no_panic c0 P f : forall m q s out,
  tinv c0 P m s -> ExploreProofs.bfs_inv q s out -> iter_go_st f m q s out <> Panicked.
Proof.
  induction f as [|f IH]; intros m q s out T B; cbn [iter_go_st]; [discriminate|].
  destruct q as [|r q]; [discriminate|].
  assert (Hr : In r s) by (destruct B as [Es _]; rewrite Es, <- in_rev; apply in_or_app; right; left; reflexivity).
  assert (Hv : forall cid, In cid (pclass_ids (rcls r)) -> pvalid (rcls r) cid = true)
    by (intros cid Hc; apply pclass_ids_in; exact Hc).
  destruct (push_all_some c0 P r _ m q s T (t_own _ _ _ _ T r Hr) (t_pot _ _ _ _ T r Hr) Hv) as [[[m1 q1] s1] E].
  rewrite E. apply IH.
  - apply (push_all_tinv c0 P r _ m q s m1 q1 s1 E T (t_own _ _ _ _ T r Hr) (t_pot _ _ _ _ T r Hr) Hv).
  - eapply ExploreProofs.push_all_bfs_inv; eauto.
Qed.

(* no class derivative inside the exploration panics, whatever the fuel *)
Theorem iter_never_panics fuel m e : dwf m -> hon m -> owned m e -> iter_status fuel m e <> Panicked.
Proof.
  intros Dm Hm Oe.
  apply (iter_go_st_no_panic (counter m) (phi e) fuel m [e] [e] [] (tinv_init m e Dm Hm Oe) (ExploreProofs.bfs_inv_init e)).
Qed.

(* Termination of the exploration for every owned term of a manager with an honest cache *)
Theorem iter_terminates m e : dwf m -> hon m -> owned m e ->
  exists m' l, iter_derivatives (S (term_bound (counter m) (phi e))) m e = Some (m', l).
Proof.
  intros Dm Hm Oe. pose proof (iter_no_divergence m e Dm Hm Oe) as H1.
  pose proof (iter_never_panics (S (term_bound (counter m) (phi e))) m e Dm Hm Oe) as H2.
  destruct (iter_status (S (term_bound (counter m) (phi e))) m e) as [m' l| |] eqn:E; try contradiction.
  exists m', l. apply iter_status_finished. exact E.
Qed.
(* the former statement (potential <= U32MAX) is a special case *)
Theorem iter_terminates_small m e : dwf m -> hon m -> owned m e -> phi e <= U32MAX ->
  exists m' l, iter_derivatives (S (term_bound (counter m) (phi e))) m e = Some (m', l).
Proof. intros Dm Hm Oe _. apply iter_terminates; assumption. Qed.

(* the number of terms enumerated is at most term_bound *)
Theorem iter_length_bound fuel m e m' l : dwf m -> hon m -> owned m e ->
  iter_derivatives fuel m e = Some (m', l) -> (length l <= term_bound (counter m) (phi e))%nat.
Proof.
  intros Dm Hm Oe H.
  destruct (ExploreProofs.iter_count_fuel fuel m e m' l H) as [_ H1].
  pose proof (iter_no_divergence m e Dm Hm Oe) as H2.
  destruct (Nat.le_gt_cases (length l) (term_bound (counter m) (phi e))) as [Hle|Hgt]; [exact Hle|exfalso].
  apply H2. destruct (iter_status (S (term_bound (counter m) (phi e))) m e) as [m2 l2| |] eqn:E; [| |reflexivity].
  - apply iter_status_finished in E. destruct (ExploreProofs.iter_count_fuel _ m e m2 l2 E) as [Hl2 _].
    pose proof (ExploreProofs.iter_more_fuel _ (S (length l)) m e _ E ltac:(lia)) as E2. rewrite H1 in E2. inversion E2; subst. lia.
  - pose proof (iter_status_panicked _ m e E (S (length l))) as E2. rewrite H1 in E2. discriminate.
Qed.

(* ------------------------------------------------------------------------------------------ *)
(** * Managers reached by construction programs have an honest cache *)

Lemma run_cache : forall p m m' t, run p m = Some (m', t) -> cache m' = cache m.
Proof.
  induction p as [| | | |a b|w|p IHp q IHq|p IHp q IHq|p IHp q IHq|p IHp|p IHp q IHq|p IHp lo hi|p IHp c];
    intros m m' t H; cbn [run] in H; try (inversion H; subst; reflexivity).
  - apply (ExploreProofs.range_cache m a b m' t H).
  - apply (ExploreProofs.mstr_cache m w m' t H).
  - destruct (run p m) as [[m1 x]|] eqn:R1; cbn [bind] in H; [|discriminate].
    destruct (run q m1) as [[m2 y]|] eqn:R2; cbn [bind] in H; [|discriminate].
    rewrite (ExploreProofs.concat_cache x m2 y m' t H), (IHq _ _ _ R2), (IHp _ _ _ R1). reflexivity.
  - destruct (run p m) as [[m1 x]|] eqn:R1; cbn [bind] in H; [|discriminate].
    destruct (run q m1) as [[m2 y]|] eqn:R2; cbn [bind] in H; [|discriminate].
    rewrite (ExploreProofs.union_cache m2 x y m' t H), (IHq _ _ _ R2), (IHp _ _ _ R1). reflexivity.
  - destruct (run p m) as [[m1 x]|] eqn:R1; cbn [bind] in H; [|discriminate].
    destruct (run q m1) as [[m2 y]|] eqn:R2; cbn [bind] in H; [|discriminate].
    rewrite (ExploreProofs.inter_cache m2 x y m' t H), (IHq _ _ _ R2), (IHp _ _ _ R1). reflexivity.
  - destruct (run p m) as [[m1 x]|] eqn:R1; cbn [bind] in H; [|discriminate].
    destruct (complement m1 x); cbn [bind] in H; [|discriminate]. inversion H; subst. apply (IHp _ _ _ R1).
  - destruct (run p m) as [[m1 x]|] eqn:R1; cbn [bind] in H; [|discriminate].
    destruct (run q m1) as [[m2 y]|] eqn:R2; cbn [bind] in H; [|discriminate].
    rewrite (ExploreProofs.diff_cache m2 x y m' t H), (IHq _ _ _ R2), (IHp _ _ _ R1). reflexivity.
  - destruct hi as [hi|].
    + destruct (run p m) as [[m1 x]|] eqn:R1; cbn [bind] in H; [|discriminate].
      rewrite (ExploreProofs.smt_loop_cache m1 x lo hi m' t H), (IHp _ _ _ R1). reflexivity.
    + destruct (run p m) as [[m1 x]|] eqn:R1; cbn [bind] in H; [|discriminate].
      rewrite (ExploreProofs.loop_inf_cache m1 x lo m' t H), (IHp _ _ _ R1). reflexivity.
Qed.

Theorem run_hon p m m' t : dwf m -> hon m -> prog_ok p = true -> run p m = Some (m', t) -> hon m'.
Proof.
  intros Dm Hm Hok R. destruct (run_dwf p m m' t Dm Hok R) as (_ & X & _).
  apply (hon_ext m m' X (run_cache p m m' t R) Hm).
Qed.

(* every term built by a construction program from the initial manager: the exploration returns *)
Theorem program_iter_no_divergence p m e : prog_ok p = true -> run p new_mgr = Some (m, e) ->
  iter_status (S (term_bound (counter m) (phi e))) m e <> OutOfFuel.
Proof.
  intros Hok R. destruct (run_dwf p new_mgr m e new_mgr_dwf Hok R) as (Dm & _ & Oe).
  apply iter_no_divergence; auto. apply (run_hon p new_mgr m e new_mgr_dwf hon_new Hok R).
Qed.
Theorem program_iter_terminates p m e : prog_ok p = true -> run p new_mgr = Some (m, e) ->
  exists m' l, iter_derivatives (S (term_bound (counter m) (phi e))) m e = Some (m', l).
Proof.
  intros Hok R. destruct (run_dwf p new_mgr m e new_mgr_dwf Hok R) as (Dm & _ & Oe).
  apply iter_terminates; auto. apply (run_hon p new_mgr m e new_mgr_dwf hon_new Hok R).
Qed.

(* the same from any honest manager; the program itself runs (run_total), so an accepted program
   followed by the exploration of its result returns *)
Theorem program_iter_terminates_any p m0 m e : dwf m0 -> hon m0 -> prog_ok p = true -> run p m0 = Some (m, e) ->
  exists m' l, iter_derivatives (S (term_bound (counter m) (phi e))) m e = Some (m', l).
Proof.
  intros D0 H0 Hok R. destruct (run_dwf p m0 m e D0 Hok R) as (Dm & _ & Oe).
  apply iter_terminates; auto. apply (run_hon p m0 m e D0 H0 Hok R).
Qed.
Theorem program_iter_total p m0 : dwf m0 -> hon m0 -> prog_ok p = true ->
  exists m e m' l, run p m0 = Some (m, e) /\
    iter_derivatives (S (term_bound (counter m) (phi e))) m e = Some (m', l).
Proof.
  intros D0 H0 Hok. destruct (run_total p m0 (proj1 D0) Hok) as (m & e & R).
  destruct (program_iter_terminates_any p m0 m e D0 H0 Hok R) as (m' & l & E).
  exists m, e, m', l. auto.
Qed.
(* the former statement with the bound computed from the program is a special case *)
Theorem program_iter_terminates_pphi p m0 m e : dwf m0 -> hon m0 -> prog_ok p = true -> run p m0 = Some (m, e) ->
  pphi p <= U32MAX ->
  exists m' l, iter_derivatives (S (term_bound (counter m) (phi e))) m e = Some (m', l).
Proof. intros D0 H0 Hok R _. apply (program_iter_terminates_any p m0 m e D0 H0 Hok R). Qed.

(* ------------------------------------------------------------------------------------------ *)
(** * Defect D11: what the repair changed *)

(* (b | c a^4294967295) a^5 : the derivative by c rebuilds a^4294967295 . a^5.  The pre-repair
   ReManager::concat merged the two loops with LoopRange::add, whose u32 addition of the upper
   bounds panicked; the repaired concat applies the merging rule only when the sums fit in u32 and
   otherwise builds the plain concatenation. *)
Definition overflow_prog : prog :=
  PConcat (PUnion (PRange 98 98) (PConcat (PRange 99 99) (PLoop (PRange 97 97) 4294967295 (Some 4294967295))))
          (PLoop (PRange 97 97) 5 (Some 5)).
Definition d11_left : prog := PLoop (PRange 97 97) 4294967295 (Some 4294967295).
Definition d11_right : prog := PLoop (PRange 97 97) 5 (Some 5).

(* the old behaviour, on terms built by the public constructors: the pre-repair rule panics, the
   repaired concat returns the plain concatenation node *)
Theorem D11_prefix_witness :
  exists m1 x m2 y, run d11_left new_mgr = Some (m1, x) /\ run d11_right m1 = Some (m2, y) /\
    (exists a, rnode x = NLoop a (LR 4294967295 (Some 4294967295)) /\ rnode y = NLoop a (LR 5 (Some 5))) /\
    lr_add (LR 4294967295 (Some 4294967295)) (LR 5 (Some 5)) = None /\
    concat_prefix x m2 y = None /\
    exists m3 t, concat x m2 y = Some (m3, t) /\ rnode t = NConcat x y.
Proof.
  destruct (run d11_left new_mgr) as [[m1 x]|] eqn:R1; [|vm_compute in R1; discriminate].
  destruct (run d11_right m1) as [[m2 y]|] eqn:R2; [|vm_compute in R1; inversion R1; subst; vm_compute in R2; discriminate].
  exists m1, x, m2, y. split; [reflexivity|]. split; [exact R2|].
  vm_compute in R1. inversion R1; subst m1 x. clear R1. vm_compute in R2. inversion R2; subst m2 y. clear R2.
  split; [eexists; split; reflexivity|]. split; [vm_compute; reflexivity|]. split; [vm_compute; reflexivity|].
  eexists; eexists. split; vm_compute; reflexivity.
Qed.

(* on the witness term the class derivative by c now returns, and so does the whole exploration (by
   iter_terminates: it enumerates about 2^32 terms, so this last fact is not shown by computation) *)
Theorem iter_overflow_witness_repaired :
  exists m e, prog_ok overflow_prog = true /\ run overflow_prog new_mgr = Some (m, e) /\
    dwf m /\ hon m /\ owned m e /\ phi e = U32MAX + 9 /\
    pvalid (rcls e) (CInt 1) = true /\
    (exists m' d, cached_deriv e m (CInt 1) = Some (m', d)) /\
    (exists m' d, char_derivative m e 99 = Some (m', d)) /\
    (exists fuel m' l, iter_derivatives fuel m e = Some (m', l)).
Proof.
  destruct (run overflow_prog new_mgr) as [[m e]|] eqn:R; [|vm_compute in R; discriminate].
  exists m, e. assert (Hok : prog_ok overflow_prog = true) by (vm_compute; reflexivity).
  destruct (run_dwf overflow_prog new_mgr m e new_mgr_dwf Hok R) as (Dm & _ & Oe).
  pose proof (run_hon overflow_prog new_mgr m e new_mgr_dwf hon_new Hok R) as Hm.
  assert (Hit : exists fuel m' l, iter_derivatives fuel m e = Some (m', l))
    by (destruct (iter_terminates m e Dm Hm Oe) as (m' & l & E); eauto).
  split; [exact Hok|]. split; [reflexivity|]. split; [exact Dm|].
  split; [exact Hm|]. split; [exact Oe|].
  revert Hit. vm_compute in R. inversion R; subst m e. clear R. intros Hit.
  split; [vm_compute; reflexivity|]. split; [vm_compute; reflexivity|].
  split; [eexists; eexists; vm_compute; reflexivity|].
  split; [|exact Hit].
  eexists; eexists; vm_compute; reflexivity.
Qed.

(* ------------------------------------------------------------------------------------------ *)
(** * Packaged statements for Properties/C19t.v *)

Theorem constructors_potential :
  (forall e1 m e2 m' t, wf m -> owned m e1 -> owned m e2 -> concat e1 m e2 = Some (m', t) ->
     pa t <= N.max (phi e1 + vl e2) (pa e2) /\ vl t <= vl e1 + vl e2) /\
  (forall m e rg m' t, wf m -> owned m e -> lr_valid rg -> mk_loop m e rg = Some (m', t) ->
     pa t <= loop_pa e rg /\ vl t <= loop_vl e rg) /\
  (forall m l m' t B, wf m -> (forall x, In x l -> owned m x) -> union_list m l = Some (m', t) ->
     CW + 1 <= B -> (forall x, In x l -> phi x <= B) -> phi t <= B) /\
  (forall m l m' t B, wf m -> (forall x, In x l -> owned m x) -> inter_list m l = Some (m', t) ->
     2 <= B -> (forall x, In x l -> phi x <= B) -> phi t <= CW + CW + B) /\
  (forall m e r, wf m -> owned m e -> complement m e = Some r -> phi r <= CW + 1 + phi e).
Proof.
  exact (conj concat_pot (conj mk_loop_pot (conj union_list_pot (conj inter_list_pot complement_pot)))).
Qed.

Theorem status_panicked_spec : forall fuel m e, iter_status fuel m e = Panicked ->
  (forall fuel', iter_derivatives fuel' m e = None) /\
  exists m1 r cid, pvalid (rcls r) cid = true /\ cached_deriv r m1 cid = None.
Proof. intros fuel m e H. split; [exact (iter_status_panicked fuel m e H) | exact (iter_status_panicked_why fuel m e H)]. Qed.

Theorem honest_new : dwf new_mgr /\ hon new_mgr.
Proof. split; [exact new_mgr_dwf | exact hon_new]. Qed.
